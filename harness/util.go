package main

import (
	"bufio"
	"encoding/hex"
	"encoding/json"
	"fmt"
	"math/big"
	"os"
	"path/filepath"
	"sort"
	"strings"
	"sync/atomic"
	"time"
)

// ---------- PRNG: every random choice derives from one splitmix64 state ----------

type Rng struct{ s uint64 }

// the seed is scrambled first: the generator's state advances by a constant, so unscrambled neighbouring seeds
// would yield the same stream shifted by one draw
func NewRng(seed uint64) *Rng {
	z := seed + 0xD1B54A32D192ED03
	z = (z ^ (z >> 30)) * 0xBF58476D1CE4E5B9
	z = (z ^ (z >> 27)) * 0x94D049BB133111EB
	return &Rng{s: z ^ (z >> 31)}
}
func (r *Rng) U64() uint64 {
	r.s += 0x9E3779B97F4A7C15
	z := r.s
	z = (z ^ (z >> 30)) * 0xBF58476D1CE4E5B9
	z = (z ^ (z >> 27)) * 0x94D049BB133111EB
	return z ^ (z >> 31)
}
func (r *Rng) Intn(n int) int {
	if n <= 0 {
		return 0
	}
	return int(r.U64() % uint64(n))
}
func (r *Rng) Bool() bool         { return r.U64()&1 == 1 }
func (r *Rng) Chance(p int) bool  { return r.Intn(100) < p }
func (r *Rng) U32() uint32        { return uint32(r.U64()) }
func (r *Rng) Bytes(n int) []byte {
	b := make([]byte, n)
	for i := range b {
		b[i] = byte(r.U64())
	}
	return b
}
func (r *Rng) Pick(xs []uint64) uint64 { return xs[r.Intn(len(xs))] }

// ---------- run context: ops / impl observation streams, monitors, stats ----------

type Run struct {
	Scenario string
	Tier     string
	Seed     uint64
	OutDir   string
	ops      *bufio.Writer
	impl     *bufio.Writer
	opsF     *os.File
	implF    *os.File
	nOps     int
	Hist     map[string]int      // histogram of op kinds / branches / error kinds
	Distinct map[string]struct{} // distinct non-trivial case keys
	Samples  []string
	MonFails []MonFail
	Evals    int
	Notes    []string
	lastOp   string
	progress int64 // unix nanoseconds of the last recorded progress (atomic)
}

type MonFail struct {
	Desc   string   `json:"desc"`
	Replay []string `json:"replay"` // op lines that reproduce it
}

func NewRun(sc, tier string, seed uint64, out string) *Run {
	must(os.MkdirAll(out, 0o755))
	of, err := os.Create(filepath.Join(out, "ops.txt"))
	must(err)
	imf, err := os.Create(filepath.Join(out, "impl.txt"))
	must(err)
	return &Run{Scenario: sc, Tier: tier, Seed: seed, OutDir: out, opsF: of, implF: imf,
		ops: bufio.NewWriter(of), impl: bufio.NewWriter(imf), Hist: map[string]int{}, Distinct: map[string]struct{}{}}
}

// Emit records one op line and the implementation's canonical observation for it.
func (r *Run) Emit(op string, obs string) {
	fmt.Fprintln(r.ops, op)
	fmt.Fprintln(r.impl, obs)
	r.nOps++
	r.lastOp = op
	atomic.StoreInt64(&r.progress, time.Now().UnixNano())
}

func (r *Run) Count(k string) {
	r.Hist[k]++
	atomic.StoreInt64(&r.progress, time.Now().UnixNano())
}

// properties each scenario serves (for the watchdog's failure tag)
var scenarioProps = map[string]string{
	"tree": "C01,C04,C07,C08", "bridgestore": "C01,C03,C04,C07,C14", "evmbridge": "C01", "l1infostore": "C04,C05,C07,C08,C11,C14",
	"evmger": "C11", "gersync": "C04,C07,C16", "downloader": "C05,C06", "reorgsync": "C05,C06,C07", "oracle": "C15",
	"aggsender": "C02,C03,C09,C10,C13", "certcodec": "C03,C10,C13,C19", "claimtrace": "C03,C09,C20", "rangearith": "C17",
	"epoch": "C18", "globalindex": "C19", "bridgeapi": "C12",
}

// Watchdog: the code under test is stuck (typically: it retries an error for ever) when the scenario makes no progress for
// `limit`. That is reported as a monitor failure with everything recorded so far, not as a harness time-out.
func (r *Run) Watchdog(limit time.Duration) {
	atomic.StoreInt64(&r.progress, time.Now().UnixNano())
	go func() {
		for {
			time.Sleep(5 * time.Second)
			if time.Since(time.Unix(0, atomic.LoadInt64(&r.progress))) > limit {
				r.Fail(fmt.Sprintf("[%s] the scenario made no progress for %s: the code under test does not return from the operation that follows `%s` (stuck, or retrying a failure for ever)",
					scenarioProps[r.Scenario], limit, r.lastOp), nil)
				r.Close()
				os.Exit(0)
			}
		}
	}()
}

func (r *Run) Case(key string)   { r.Distinct[key] = struct{}{} }
func (r *Run) Sample(s string) {
	if len(r.Samples) < 6 {
		r.Samples = append(r.Samples, s)
	}
}
func (r *Run) Fail(desc string, replay []string) {
	if len(r.MonFails) < 20 {
		r.MonFails = append(r.MonFails, MonFail{Desc: desc, Replay: replay})
	}
}

func (r *Run) Close() {
	r.ops.Flush()
	r.impl.Flush()
	r.opsF.Close()
	r.implF.Close()
	keys := make([]string, 0, len(r.Hist))
	for k := range r.Hist {
		keys = append(keys, k)
	}
	sort.Strings(keys)
	st := map[string]any{
		"scenario": r.Scenario, "tier": r.Tier, "seed": r.Seed, "ops": r.nOps,
		"evaluations": r.Evals, "distinct_nontrivial": len(r.Distinct),
		"histogram": r.Hist, "samples": r.Samples, "monitor_failures": r.MonFails, "notes": r.Notes,
	}
	b, _ := json.MarshalIndent(st, "", " ")
	must(os.WriteFile(filepath.Join(r.OutDir, "stats.json"), b, 0o644))
}

// stopRun is panicked by a monitor after r.Fail when the implementation cannot continue; main recovers it
type stopRun struct{}

func must(err error) {
	if err != nil {
		panic(err)
	}
}

func hx(b []byte) string {
	if len(b) == 0 {
		return "-"
	}
	return hex.EncodeToString(b)
}
func unhx(s string) []byte {
	if s == "-" || s == "" {
		return nil
	}
	s = strings.TrimPrefix(s, "0x")
	b, err := hex.DecodeString(s)
	must(err)
	return b
}
func b2s(b bool) string {
	if b {
		return "1"
	}
	return "0"
}
func bigOf(s string) *big.Int {
	x, ok := new(big.Int).SetString(s, 10)
	if !ok {
		panic("bad int " + s)
	}
	return x
}

// safely runs f; a panic is mapped to the observation "panic"
func guard(f func() string) (out string) {
	defer func() {
		if e := recover(); e != nil {
			out = "panic"
		}
	}()
	return f()
}

func readLines(path string) []string {
	b, err := os.ReadFile(path)
	must(err)
	var out []string
	for _, l := range strings.Split(string(b), "\n") {
		l = strings.TrimSpace(l)
		if l == "" || strings.HasPrefix(l, "#") {
			continue
		}
		out = append(out, l)
	}
	return out
}

func devNull() *bufio.Writer {
	f, err := os.OpenFile(os.DevNull, os.O_WRONLY, 0)
	must(err)
	return bufio.NewWriter(f)
}

// mustUnlocked: a control statement on a store's database failed. "database is locked" means that the code under test left
// a transaction open (neither committed nor rolled back): that is a finding, not a harness error.
func mustUnlocked(r *Run, lines []string, store string, err error) {
	if err == nil {
		return
	}
	if strings.Contains(err.Error(), "locked") {
		r.Fail("[C04,C07] the "+store+" stays locked for every other connection: an earlier operation of the syncer (a block or a reorg) returned without committing or rolling back its transaction, so nothing can be written any more", append([]string{"new"}, lines...))
		panic(stopRun{})
	}
	panic(err)
}
