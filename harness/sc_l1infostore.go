package main

// Scenario `l1infostore` (C11, and the L1-info half of C04/C07/C08/C14): the real l1infotreesync processor behind
// the real L1InfoTreeSync facade; references: the GER contract's deposit-tree algorithm and a sparse rollup exit tree.

import (
	"context"
	"database/sql"
	"errors"
	"fmt"
	"github.com/0xPolygon/cdk-contracts-tooling/contracts/fep/etrog/polygonrollupmanager"
	"github.com/0xPolygon/cdk-contracts-tooling/contracts/pp/l2-sovereign-chain/polygonzkevmglobalexitrootv2"
	"github.com/ethereum/go-ethereum/accounts/abi"
	"github.com/ethereum/go-ethereum/core/types"
	"math/big"
	"os"
	"path/filepath"
	"reflect"
	"strings"

	"github.com/agglayer/aggkit/db"
	"github.com/agglayer/aggkit/l1infotreesync"
	"github.com/agglayer/aggkit/sync"
	"github.com/agglayer/aggkit/tree"
	"github.com/ethereum/go-ethereum/common"
	"github.com/ethereum/go-ethereum/crypto"
)

func init() { scenarios["l1infostore"] = Scenario{Gen: liGen, Replay: liReplay} }

type liWorld struct {
	dir, path string
	p         *l1infotreesync.VerifProcessor
	f         *l1infotreesync.L1InfoTreeSync
	ctl       *sql.DB
	lines     []string
	survivors []string
	survNums  []uint64
	override  []interface{} // events of the next `blk` decoded from REAL contract logs (scenario evmger)
}

func (w *liWorld) close() {
	if w.ctl != nil {
		w.ctl.Close()
		w.ctl = nil
	}
	if w.p != nil {
		w.p.Close()
		w.p = nil
	}
	if w.dir != "" {
		os.RemoveAll(w.dir)
		w.dir = ""
	}
}

func (w *liWorld) open(r *Run, fresh bool) {
	if fresh {
		dir, err := os.MkdirTemp(r.OutDir, "lidb")
		must(err)
		w.dir = dir
		w.path = filepath.Join(dir, "l.sqlite")
	}
	p, err := l1infotreesync.VerifNewProcessor(w.path)
	must(err)
	w.p = p
	w.f = p.Facade()
	if fresh {
		// second connection arming one-shot storage faults (C07): the k-th write statement of the armed transaction fails
		w.ctl, err = db.NewSQLiteDB(w.path)
		must(err)
		_, err = w.ctl.Exec(`CREATE TABLE verif_fault (id INTEGER PRIMARY KEY CHECK (id=1), armed INTEGER, target INTEGER, n INTEGER);
			INSERT INTO verif_fault VALUES (1,0,0,0);`)
		must(err)
		for ti, t := range []string{"INSERT ON block", "INSERT ON l1info_leaf", "INSERT ON verify_batches", "INSERT ON l1info_initial",
			"INSERT ON l1_info_root", "INSERT ON l1_info_rht", "INSERT ON rollup_exit_root", "INSERT ON rollup_exit_rht"} {
			cond := "=1"
			if ti < 4 {
				cond = " IN (1,2)" // mode 2 counts the event rows only, so that each of them is hit often
			}
			_, err = w.ctl.Exec(fmt.Sprintf(`CREATE TRIGGER verif_f_%d BEFORE %s WHEN (SELECT armed FROM verif_fault)`+cond+` BEGIN
				UPDATE verif_fault SET n = n + 1;
				SELECT CASE WHEN (SELECT n FROM verif_fault) - 1 = (SELECT target FROM verif_fault) THEN RAISE(FAIL,'verif fault') END; END;`, ti, t))
			must(err)
		}
		// faults on the first row of each of Reorg's three deletes (modes 3, 4, 5)
		for mode, t := range map[int]string{3: "block", 4: "l1_info_root", 5: "rollup_exit_root"} {
			_, err = w.ctl.Exec(fmt.Sprintf(`CREATE TRIGGER verif_fd_%d BEFORE DELETE ON %s WHEN (SELECT armed FROM verif_fault)=%d BEGIN SELECT RAISE(ABORT,'verif fault'); END;`, mode, t, mode))
			must(err)
		}
	}
}

func liErr(err error) string {
	switch {
	case err == nil:
		return "ok"
	case errors.Is(err, sync.ErrInconsistentState):
		return "err inconsistent"
	case strings.Contains(err.Error(), "verif fault"):
		return "err fault"
	case strings.Contains(err.Error(), "constraint"):
		return "err constraint"
	}
	return "err other"
}

func liParseEv(tok string) l1infotreesync.Event {
	f := strings.Split(tok, ";")
	u := func(s string) uint64 { return bigOf(s).Uint64() }
	h := func(s string) common.Hash { return common.BytesToHash(unhx(s)) }
	switch f[0] {
	case "i":
		return l1infotreesync.Event{UpdateL1InfoTree: &l1infotreesync.UpdateL1InfoTree{BlockPosition: u(f[1]), MainnetExitRoot: h(f[2]), RollupExitRoot: h(f[3]), ParentHash: h(f[4]), Timestamp: u(f[5])}}
	case "v":
		return l1infotreesync.Event{UpdateL1InfoTreeV2: &l1infotreesync.UpdateL1InfoTreeV2{CurrentL1InfoRoot: h(f[1]), LeafCount: uint32(u(f[2]))}}
	case "vb":
		return l1infotreesync.Event{VerifyBatches: &l1infotreesync.VerifyBatches{BlockPosition: u(f[1]), RollupID: uint32(u(f[2])), NumBatch: u(f[3]), StateRoot: h(f[4]), ExitRoot: h(f[5]), Aggregator: common.BytesToAddress(unhx(f[6]))}}
	case "in":
		return l1infotreesync.Event{InitL1InfoRootMap: &l1infotreesync.InitL1InfoRootMap{LeafCount: uint32(u(f[1])), CurrentL1InfoRoot: h(f[2])}}
	}
	panic("bad token " + tok)
}

func liLeaf(l *l1infotreesync.L1InfoTreeLeaf, err error) string {
	if err != nil {
		if errors.Is(err, sync.ErrInconsistentState) {
			return "err inconsistent"
		}
		if errors.Is(err, l1infotreesync.ErrBlockNotProcessed) {
			return "err notprocessed"
		}
		if errors.Is(err, l1infotreesync.ErrNoBlock0) {
			return "err noblock0"
		}
		return "notfound"
	}
	return fmt.Sprintf("leaf %d/%d idx=%d ger=%s rer=%s hash=%s ph=%s,ts=%d,mer=%s", l.BlockNumber, l.BlockPosition, l.L1InfoTreeIndex, hx(l.GlobalExitRoot[:]),
		hx(l.RollupExitRoot[:]), hx(l.Hash[:]), hx(l.PreviousBlockHash[:]), l.Timestamp, hx(l.MainnetExitRoot[:]))
}

func liVB(v *l1infotreesync.VerifyBatches, err error) string {
	if err != nil {
		if errors.Is(err, sync.ErrInconsistentState) {
			return "err inconsistent"
		}
		return "notfound"
	}
	return fmt.Sprintf("vb %d/%d rid=%d er=%s rer=%s batch=%d,sr=%s,agg=%s", v.BlockNumber, v.BlockPosition, v.RollupID, hx(v.ExitRoot[:]), hx(v.RollupExitRoot[:]),
		v.NumBatch, hx(v.StateRoot[:]), hx(v.Aggregator[:]))
}

func (w *liWorld) query(ws []string) string {
	ctx := context.Background()
	u := func(s string) uint64 { return bigOf(s).Uint64() }
	h := func(s string) common.Hash { return common.BytesToHash(unhx(s)) }
	rootOrErr := func(rt any, err error) string {
		if err != nil {
			if errors.Is(err, sync.ErrInconsistentState) {
				return "err inconsistent"
			}
			return "notfound"
		}
		switch x := rt.(type) {
		case interface{ String() string }:
			_ = x
		}
		return ""
	}
	_ = rootOrErr
	switch ws[1] {
	case "halted":
		return b2s(w.p.IsHalted())
	case "lpb":
		n, err := w.f.GetLastProcessedBlock(ctx)
		if err != nil {
			return liErr(err)
		}
		return fmt.Sprintf("lpb %d", n)
	case "lastinfo":
		return liLeaf(w.f.GetLastInfo())
	case "firstinfo":
		return liLeaf(w.f.GetFirstInfo())
	case "infobyidx":
		l, err := w.f.GetInfoByIndex(ctx, uint32(u(ws[2])))
		return liLeaf(l, err)
	case "infobyger":
		return liLeaf(w.f.GetInfoByGlobalExitRoot(h(ws[2])))
	case "latestuntil":
		return liLeaf(w.f.GetLatestInfoUntilBlock(ctx, u(ws[2])))
	case "firstafter":
		return liLeaf(w.f.GetFirstInfoAfterBlock(u(ws[2])))
	case "firstwithrer":
		return liLeaf(w.f.GetFirstL1InfoWithRollupExitRoot(h(ws[2])))
	case "inforoot":
		rt, err := w.f.GetL1InfoTreeRootByIndex(ctx, uint32(u(ws[2])))
		if err != nil {
			if errors.Is(err, sync.ErrInconsistentState) {
				return "err inconsistent"
			}
			return "notfound"
		}
		return rootObs(rt)
	case "lastinforoot":
		rt, err := w.f.GetLastL1InfoTreeRoot(ctx)
		if err != nil {
			if errors.Is(err, sync.ErrInconsistentState) {
				return "err inconsistent"
			}
			return "notfound"
		}
		return rootObs(rt)
	case "lastrer":
		rt, err := w.f.GetLastRollupExitRoot(ctx)
		if err != nil {
			if errors.Is(err, sync.ErrInconsistentState) {
				return "err inconsistent"
			}
			return "notfound"
		}
		return rootObs(rt)
	case "lastvb":
		return liVB(w.f.GetLastVerifiedBatches(uint32(u(ws[2]))))
	case "firstvb":
		return liVB(w.f.GetFirstVerifiedBatches(uint32(u(ws[2]))))
	case "firstvbafter":
		return liVB(w.f.GetFirstVerifiedBatchesAfterBlock(uint32(u(ws[2])), u(ws[3])))
	case "ler":
		l, err := w.f.GetLocalExitRoot(ctx, uint32(u(ws[2])), h(ws[3]))
		if err != nil {
			switch {
			case errors.Is(err, sync.ErrInconsistentState):
				return "err inconsistent"
			case strings.Contains(err.Error(), "network 0"):
				return "err network0"
			}
			return "err notfound"
		}
		return "ler " + hx(l[:])
	case "verifyinfo":
		i := uint32(u(ws[2]))
		p, rt, err := w.f.GetL1InfoTreeMerkleProof(ctx, i)
		if err != nil {
			if errors.Is(err, sync.ErrInconsistentState) {
				return "err inconsistent"
			}
			return "notfound"
		}
		l, err := w.f.GetInfoByIndex(ctx, i)
		if err != nil {
			return "noleaf"
		}
		c := tree.CalculateRoot(l.Hash, p, i)
		return fmt.Sprintf("verifyinfo %s %s", hx(rt.Hash[:]), hx(c[:]))
	case "verifyinfoat":
		i := uint32(u(ws[2]))
		root := h(ws[3])
		p, err := w.f.GetL1InfoTreeMerkleProofFromIndexToRoot(ctx, i, root)
		if err != nil {
			if errors.Is(err, sync.ErrInconsistentState) {
				return "err inconsistent"
			}
			return "err other"
		}
		l, err := w.f.GetInfoByIndex(ctx, i)
		if err != nil {
			return "noleaf"
		}
		c := tree.CalculateRoot(l.Hash, p, i)
		return "verifyinfoat " + hx(c[:])
	case "verifyrollup":
		net := uint32(u(ws[2]))
		root := h(ws[3])
		p, err := w.f.GetRollupExitTreeMerkleProof(ctx, net, root)
		if err != nil {
			if errors.Is(err, sync.ErrInconsistentState) {
				return "err inconsistent"
			}
			return "err other"
		}
		if net == 0 {
			return "emptyproof"
		}
		c := tree.CalculateRoot(h(ws[4]), p, net-1)
		return "verifyrollup " + hx(c[:])
	case "init":
		in, err := w.f.GetInitL1InfoRootMap(ctx)
		if err != nil {
			return liErr(err)
		}
		if in == nil {
			return "init none"
		}
		return fmt.Sprintf("init %d %d %s", in.BlockNumber, in.LeafCount, hx(in.L1InfoRoot[:]))
	}
	return "bad-op"
}

func (w *liWorld) exec(r *Run, line string) string {
	ws := strings.Fields(line)
	r.Count("op:" + ws[0])
	r.Evals++
	if ws[0] != "new" {
		w.lines = append(w.lines, line)
	}
	ctx := context.Background()
	obs := "bad-op"
	switch ws[0] {
	case "new":
		w.close()
		*w = liWorld{}
		w.open(r, true)
		obs = "ok"
	case "blk":
		bn := bigOf(ws[1]).Uint64()
		blk := sync.Block{Num: bn, Hash: common.BigToHash(new(big.Int).SetUint64(bn*104729 + 7))}
		if w.override != nil {
			blk.Events, w.override = w.override, nil
		} else if evs, ok := liEventsViaLogs(ws[2:]); ok {
			// the block's events as the syncer gets them: ABI-encoded logs through the downloader's own log handlers
			blk.Events = evs
			r.Count("branch:events-decoded-from-logs")
		} else {
			for _, tok := range ws[2:] {
				blk.Events = append(blk.Events, liParseEv(tok))
			}
		}
		obs = liErr(w.p.ProcessBlock(ctx, blk))
		if obs == "ok" {
			w.survivors = append(w.survivors, line)
			w.survNums = append(w.survNums, bn)
		}
	case "blk!":
		// `blk! <bn> <k> <events…>`: the k-th write statement of the block's transaction fails once. When the fault fires the
		// attempt is recorded for the model as `blkF` (an environment event: SOME statement failed), otherwise as a plain `blk`.
		bn := bigOf(ws[1]).Uint64()
		wasHalted := w.p.IsHalted()
		blk := sync.Block{Num: bn, Hash: common.BigToHash(new(big.Int).SetUint64(bn*104729 + 7))}
		for _, tok := range ws[3:] {
			blk.Events = append(blk.Events, liParseEv(tok))
		}
		k, mode := bigOf(ws[2]).Uint64(), 1
		away := ""
		switch {
		case k >= 5000:
			// read fault: one of the trees' root tables cannot be read while the block is processed (renamed away for that time)
			away = []string{"l1_info_root", "rollup_exit_root"}[k%2]
			k, mode = 1<<40, 1
		case k >= 1000:
			k, mode = k-1000, 2 // count the block / leaf / batch / initial rows only
		}
		_, err := w.ctl.Exec(`UPDATE verif_fault SET armed=$1, target=$2, n=0`, mode, k)
		mustUnlocked(r, w.lines, "L1 info store", err)
		if away != "" {
			_, err = w.ctl.Exec(fmt.Sprintf(`ALTER TABLE %s RENAME TO %s_verif_away`, away, away))
			must(err)
		}
		perr := w.p.ProcessBlock(ctx, blk)
		if away != "" {
			_, err = w.ctl.Exec(fmt.Sprintf(`ALTER TABLE %s_verif_away RENAME TO %s`, away, away))
			must(err)
			if perr != nil && !errors.Is(perr, sync.ErrInconsistentState) {
				perr = fmt.Errorf("verif fault (read): %w", perr)
			}
			if w.p.IsHalted() && !wasHalted {
				r.Fail(fmt.Sprintf("[C07,C14] a failed read of table %s while block %d was processed halted the L1 info syncer: a transient storage fault is not an inconsistency with the chain (result: %v)", away, bn, perr),
					append([]string{"new"}, w.lines...))
			}
		}
		if perr == nil && away == "" {
			var n, target int64
			if e := w.ctl.QueryRow(`SELECT n, target FROM verif_fault`).Scan(&n, &target); e == nil && n > target {
				r.Fail(fmt.Sprintf("[C07,C08,C11] a write statement of block %d's transaction failed (injected fault, statement %d of the counted ones) and ProcessBlock reported success and committed: the error was swallowed, the store now misses what that statement wrote", bn, target),
					append([]string{"new"}, w.lines...))
			}
		}
		_, e2 := w.ctl.Exec(`UPDATE verif_fault SET armed=0`)
		if e2 != nil && strings.Contains(e2.Error(), "locked") {
			r.Fail(fmt.Sprintf("[C07] after ProcessBlock(%d) returned `%v` the L1 info store stays locked for every other connection: the block's transaction was neither committed nor rolled back", bn, perr),
				append([]string{"new"}, w.lines...))
			panic(stopRun{})
		}
		must(e2)
		obs = liErr(perr)
		plain := strings.TrimSpace("blk " + ws[1] + " " + strings.Join(ws[3:], " "))
		if obs == "ok" {
			w.survivors = append(w.survivors, plain)
			w.survNums = append(w.survNums, bn)
		}
		if obs == "err fault" {
			r.Count("branch:storage-fault-hit")
			r.Emit(strings.TrimSpace("blkF "+ws[1]+" "+strings.Join(ws[3:], " ")), obs)
		} else {
			r.Emit(plain, obs)
		}
		return obs
	case "reorg", "reorgF":
		b := bigOf(ws[1]).Uint64()
		if ws[0] == "reorgF" {
			// the first row of one of Reorg's deletes cannot be removed: the driver gets an error and calls Reorg again
			mode := map[string]int{"block": 3, "inforoot": 4, "rolluproot": 5}[ws[2]]
			tbl, col := map[int]string{3: "block", 4: "l1_info_root", 5: "rollup_exit_root"}[mode], map[int]string{3: "num", 4: "block_num", 5: "block_num"}[mode]
			var nrows int
			must(w.ctl.QueryRow(fmt.Sprintf("SELECT COUNT(*) FROM %s WHERE %s >= $1", tbl, col), b).Scan(&nrows))
			_, e1 := w.ctl.Exec(`UPDATE verif_fault SET armed=$1`, mode)
			mustUnlocked(r, w.lines, "L1 info store", e1)
			err := w.p.Reorg(ctx, b)
			if err == nil && nrows > 0 {
				r.Fail(fmt.Sprintf("[C04,C07,C08] Reorg(%d) of the L1 info store reported success although its delete of the %d row(s) of %s failed: the reorg is half done and the driver will not retry it", b, nrows, tbl),
					append([]string{"new"}, w.lines...))
			}
			_, e2 := w.ctl.Exec(`UPDATE verif_fault SET armed=0`)
			mustUnlocked(r, w.lines, "L1 info store (after Reorg)", e2)
			if err != nil {
				r.Emit(line, liErr(err))
				r.Count("branch:reorg-fault-hit")
				return liErr(err)
			}
			obs = "ok"
		} else {
			obs = liErr(w.p.Reorg(ctx, b))
		}
		{
			// whatever the reorg removed (possibly nothing), its transaction must be over
			_, e := w.ctl.Exec(`UPDATE verif_fault SET armed=0`)
			mustUnlocked(r, w.lines, "L1 info store (after Reorg)", e)
		}
		var ks []string
		var kn []uint64
		for i, n := range w.survNums {
			if n < b {
				ks = append(ks, w.survivors[i])
				kn = append(kn, n)
			}
		}
		w.survivors, w.survNums = ks, kn
	case "restart":
		w.p.Close()
		w.open(r, false)
		obs = "ok"
	case "q":
		obs = w.query(ws)
	}
	r.Emit(line, obs)
	return obs
}

// ---- references computed from the surviving blocks ----

type liRef struct {
	leaves           []liRefLeaf            // in chain order
	roots            []common.Hash          // contract root after each leaf
	rollup           map[uint32]common.Hash // last non-zero exit root per rollup index (rollupID-1)
	manager          map[uint32]common.Hash // what the rollup manager stores (zero included)
	updRoots         []liRefUpd
	maxBlock         uint64
	zeroAfterNonZero bool
}
type liRefLeaf struct {
	ger, rer, mer, ph, hash common.Hash
	ts, bn, pos             uint64
}
type liRefUpd struct {
	root   common.Hash
	leaves map[uint32]common.Hash
}

func liBuildRef(survivors []string) *liRef {
	ref := &liRef{rollup: map[uint32]common.Hash{}, manager: map[uint32]common.Hash{}}
	var dt depTree
	for _, l := range survivors {
		ws := strings.Fields(l)
		bn := bigOf(ws[1]).Uint64()
		if bn > ref.maxBlock {
			ref.maxBlock = bn
		}
		for _, tok := range ws[2:] {
			ev := liParseEv(tok)
			if u := ev.UpdateL1InfoTree; u != nil {
				ger := crypto.Keccak256Hash(u.MainnetExitRoot[:], u.RollupExitRoot[:])
				ts := make([]byte, 8)
				new(big.Int).SetUint64(u.Timestamp).FillBytes(ts)
				hash := crypto.Keccak256Hash(ger[:], u.ParentHash[:], ts)
				dt.add(hash)
				ref.leaves = append(ref.leaves, liRefLeaf{ger: ger, rer: u.RollupExitRoot, mer: u.MainnetExitRoot, ph: u.ParentHash, hash: hash, ts: u.Timestamp, bn: bn, pos: u.BlockPosition})
				ref.roots = append(ref.roots, dt.root())
			}
			if v := ev.VerifyBatches; v != nil {
				idx := v.RollupID - 1
				if v.ExitRoot == (common.Hash{}) {
					if _, ok := ref.rollup[idx]; ok {
						ref.zeroAfterNonZero = true
					}
					ref.manager[idx] = v.ExitRoot
					continue
				}
				ref.manager[idx] = v.ExitRoot
				if ref.rollup[idx] == v.ExitRoot {
					continue
				}
				ref.rollup[idx] = v.ExitRoot
				cp := map[uint32]common.Hash{}
				for k, x := range ref.rollup {
					cp[k] = x
				}
				ref.updRoots = append(ref.updRoots, liRefUpd{root: sparseRoot(ref.rollup), leaves: cp})
			}
		}
	}
	return ref
}

func liProbe(maxBlock uint64, nLeaves int, rollupIDs []uint32) []string {
	qs := []string{"q lpb", "q lastinfo", "q firstinfo", "q lastinforoot", "q lastrer", "q init", fmt.Sprintf("q latestuntil %d", maxBlock),
		fmt.Sprintf("q latestuntil %d", maxBlock/2+1), fmt.Sprintf("q firstafter %d", maxBlock/2), "q firstafter 0", fmt.Sprintf("q latestuntil %d", maxBlock+1), "q latestuntil 0"}
	for i := 0; i <= nLeaves; i++ {
		qs = append(qs, fmt.Sprintf("q infobyidx %d", i), fmt.Sprintf("q inforoot %d", i), fmt.Sprintf("q verifyinfo %d", i))
	}
	for _, id := range rollupIDs {
		qs = append(qs, fmt.Sprintf("q lastvb %d", id), fmt.Sprintf("q firstvb %d", id), fmt.Sprintf("q firstvbafter %d %d", id, maxBlock/2))
	}
	return qs
}

var liRollupIDs = []uint32{1, 2, 3, 5, 4294967295}

// C11 monitor (contract references) + C08 (proofs) on the implementation
func (w *liWorld) checkAgainstContracts(r *Run, why string) {
	if w.p.IsHalted() {
		return
	}
	ref := liBuildRef(w.survivors)
	cp := append([]string{"new"}, w.lines...)
	for i, lf := range ref.leaves {
		want := fmt.Sprintf("leaf %d/%d idx=%d ger=%s rer=%s hash=%s ph=%s,ts=%d,mer=%s", lf.bn, lf.pos, i, hx(lf.ger[:]), hx(lf.rer[:]), hx(lf.hash[:]), hx(lf.ph[:]), lf.ts, hx(lf.mer[:]))
		if got := w.query([]string{"q", "infobyidx", fmt.Sprint(i)}); got != want {
			r.Fail(fmt.Sprintf("[C11] %s: L1 info leaf %d is `%s`; the %d-th info update on the chain gives `%s`", why, i, got, i, want), cp)
			return
		}
		if got := w.query([]string{"q", "infobyger", hx(lf.ger[:])}); got != want {
			r.Fail(fmt.Sprintf("[C11] %s: lookup by global exit root %s gives `%s`, expected leaf %d", why, lf.ger.Hex(), got, i), cp)
			return
		}
		got := w.query([]string{"q", "inforoot", fmt.Sprint(i)})
		if !strings.HasPrefix(got, "root "+hx(ref.roots[i][:])+" ") {
			r.Fail(fmt.Sprintf("[C11] %s: L1 info root after leaf %d is `%s`; the global-exit-root contract computes %s", why, i, got, ref.roots[i].Hex()), cp)
			return
		}
		// every (historical root, covered index) proof
		for j := 0; j <= i; j += 1 + i/6 {
			g := w.query([]string{"q", "verifyinfoat", fmt.Sprint(j), hx(ref.roots[i][:])})
			r.Evals++
			if g != "verifyinfoat "+hx(ref.roots[i][:]) {
				r.Fail(fmt.Sprintf("[C08,C11] %s: L1 info proof of leaf %d against root %s (after leaf %d) does not verify: %s", why, j, ref.roots[i].Hex(), i, g), cp)
				return
			}
		}
		r.Case(fmt.Sprintf("li:%s", hx(ref.roots[i][:8])))
	}
	if got := w.query([]string{"q", "infobyidx", fmt.Sprint(len(ref.leaves))}); got != "notfound" {
		r.Fail(fmt.Sprintf("[C11,C04] %s: an L1 info leaf %d is served although the chain has only %d updates: %s", why, len(ref.leaves), len(ref.leaves), got), cp)
		return
	}
	// rollup exit tree: last root and every recorded version
	got := w.query([]string{"q", "lastrer"})
	if len(ref.updRoots) == 0 {
		if got != "notfound" {
			r.Fail(fmt.Sprintf("[C11,C04] %s: a rollup exit root is recorded (%s) although no effective batch verification survives", why, got), cp)
		}
		return
	}
	last := ref.updRoots[len(ref.updRoots)-1]
	if !strings.HasPrefix(got, "root "+hx(last.root[:])+" ") {
		r.Fail(fmt.Sprintf("[C11] %s: last rollup exit root is `%s`; the tree of last non-zero exit roots per rollup has root %s", why, got, last.root.Hex()), cp)
		return
	}
	if !ref.zeroAfterNonZero {
		if m := sparseRoot(ref.manager); m != last.root {
			r.Fail(fmt.Sprintf("[C11] %s: harness inconsistency: manager root %s vs node-semantics root %s", why, m.Hex(), last.root.Hex()), cp)
		}
	}
	for _, v := range ref.updRoots {
		for idx, leaf := range v.leaves {
			if g := w.query([]string{"q", "ler", fmt.Sprint(uint64(idx) + 1), hx(v.root[:])}); g != "ler "+hx(leaf[:]) {
				r.Fail(fmt.Sprintf("[C08,C11] %s: exit root of rollup %d under rollup exit root %s is `%s`, last verified value as of that root is %s", why, idx+1, v.root.Hex(), g, leaf.Hex()), cp)
				return
			}
			if g := w.query([]string{"q", "verifyrollup", fmt.Sprint(uint64(idx) + 1), hx(v.root[:]), hx(leaf[:])}); g != "verifyrollup "+hx(v.root[:]) {
				r.Fail(fmt.Sprintf("[C08,C11] %s: rollup exit tree proof for rollup %d against root %s does not verify: %s", why, idx+1, v.root.Hex(), g), cp)
				return
			}
			r.Evals += 2
		}
	}
}

// C04/C07 monitor: identical answers to a fresh processor that only processed the surviving blocks
func (w *liWorld) compareWithTwin(r *Run, why string) {
	if w.p.IsHalted() {
		r.Fail("[C04,C07,C14] "+why+": the L1 info syncer is halted although every block it was given was well-formed", append([]string{"new"}, w.lines...))
		return
	}
	twin := &liWorld{}
	twin.open(r, true)
	defer twin.close()
	scratch := &Run{Hist: map[string]int{}, Distinct: map[string]struct{}{}, OutDir: r.OutDir}
	scratch.ops, scratch.impl = devNull(), devNull()
	var maxB uint64
	leaves := 0
	for i, l := range w.survivors {
		twin.exec(scratch, l)
		if w.survNums[i] > maxB {
			maxB = w.survNums[i]
		}
		leaves += strings.Count(l, " i;")
	}
	for _, q := range liProbe(maxB, leaves, liRollupIDs) {
		a, b := w.query(strings.Fields(q)), twin.query(strings.Fields(q))
		r.Evals++
		if a != b {
			r.Fail(fmt.Sprintf("[C04,C07] %s: query `%s` answers `%s`, a node that only ever processed the surviving blocks answers `%s`", why, q, a, b), append([]string{"new"}, w.lines...))
			return
		}
	}
	r.Case(fmt.Sprintf("litwin:%d:%d:%s", len(w.survivors), leaves, why))
}

// C14 monitor
func (w *liWorld) checkHaltedQueries(r *Run) {
	if !w.p.IsHalted() {
		return
	}
	skip := map[string]bool{"Start": true}
	v := reflect.ValueOf(w.f)
	t := v.Type()
	for i := 0; i < t.NumMethod(); i++ {
		m := t.Method(i)
		if skip[m.Name] {
			continue
		}
		var args []reflect.Value
		for j := 1; j < m.Type.NumIn(); j++ {
			at := m.Type.In(j)
			if at.String() == "context.Context" {
				args = append(args, reflect.ValueOf(context.Background()))
			} else if at.Kind() == reflect.Uint32 || at.Kind() == reflect.Uint64 {
				args = append(args, reflect.ValueOf(1).Convert(at))
			} else {
				args = append(args, reflect.Zero(at))
			}
		}
		var outs []reflect.Value
		func() {
			defer func() {
				if e := recover(); e != nil {
					outs = nil
					r.Fail(fmt.Sprintf("[C14] halted L1 info syncer: exported query %s panicked instead of returning ErrInconsistentState: %v", m.Name, e), append([]string{"new"}, w.lines...))
				}
			}()
			outs = v.Method(i).Call(args)
		}()
		if outs == nil {
			continue
		}
		r.Count("halted-query:" + m.Name)
		err, _ := outs[len(outs)-1].Interface().(error)
		if err == nil || !errors.Is(err, sync.ErrInconsistentState) {
			r.Fail(fmt.Sprintf("[C14] halted L1 info syncer: exported query %s returned %v instead of ErrInconsistentState", m.Name, err), append([]string{"new"}, w.lines...))
		}
	}
}

func liReplay(r *Run, lines []string) {
	w := &liWorld{}
	defer w.close()
	for _, l := range lines {
		w.exec(r, l)
	}
	if w.p != nil {
		w.checkHaltedQueries(r)
		if !w.p.IsHalted() {
			w.checkAgainstContracts(r, "replay")
			w.compareWithTwin(r, "replay")
		}
	}
}

var _ = db.ErrNotFound

// ---- the same events as ABI-encoded logs, decoded by the real log handlers (l1infotreesync/downloader.go) ----

var liAppender sync.LogAppenderMap

func liMkLog(a *abi.ABI, name string, index uint, args ...interface{}) types.Log {
	ev, ok := a.Events[name]
	if !ok {
		panic("no event " + name)
	}
	topics := []common.Hash{ev.ID}
	var plain []interface{}
	var plainArgs abi.Arguments
	for i, in := range ev.Inputs {
		if in.Indexed {
			t, err := abi.MakeTopics([]interface{}{args[i]})
			must(err)
			topics = append(topics, t[0][0])
		} else {
			plain = append(plain, args[i])
			plainArgs = append(plainArgs, in)
		}
	}
	data, err := plainArgs.Pack(plain...)
	must(err)
	// the transaction index is deliberately NOT the log index: several logs of one transaction, later transactions first, …
	return types.Log{Topics: topics, Data: data, Index: index, TxIndex: index / 3}
}

// possible only when every info update of the block names the same parent hash and timestamp (they are the block's)
func liEventsViaLogs(toks []string) ([]interface{}, bool) {
	var ph common.Hash
	var ts uint64
	seen := false
	for _, tok := range toks {
		f := strings.Split(tok, ";")
		if f[0] == "i" {
			p, t := common.BytesToHash(unhx(f[4])), bigOf(f[5]).Uint64()
			if seen && (p != ph || t != ts) {
				return nil, false
			}
			ph, ts, seen = p, t, true
		}
	}
	if liAppender == nil {
		var err error
		liAppender, err = l1infotreesync.VerifBuildAppender()
		must(err)
	}
	gerABI, err := polygonzkevmglobalexitrootv2.Polygonzkevmglobalexitrootv2MetaData.GetAbi()
	must(err)
	rmABI, err := polygonrollupmanager.PolygonrollupmanagerMetaData.GetAbi()
	must(err)
	b := &sync.EVMBlock{EVMBlockHeader: sync.EVMBlockHeader{ParentHash: ph, Timestamp: ts}}
	u := func(s string) uint64 { return bigOf(s).Uint64() }
	h := func(s string) [32]byte { return common.BytesToHash(unhx(s)) }
	for k, tok := range toks {
		f := strings.Split(tok, ";")
		var l types.Log
		switch f[0] {
		case "i":
			l = liMkLog(gerABI, "UpdateL1InfoTree", uint(u(f[1])), h(f[2]), h(f[3]))
		case "v":
			l = liMkLog(gerABI, "UpdateL1InfoTreeV2", uint(1000+k), h(f[1]), uint32(u(f[2])), big.NewInt(int64(k)+77), uint64(k))
		case "vb":
			name := "VerifyBatches"
			if u(f[3])%2 == 1 {
				name = "VerifyBatchesTrustedAggregator"
			}
			l = liMkLog(rmABI, name, uint(u(f[1])), uint32(u(f[2])), u(f[3]), h(f[4]), h(f[5]), common.BytesToAddress(unhx(f[6])))
		case "in":
			l = liMkLog(gerABI, "InitL1InfoRootMap", uint(2000+k), uint32(u(f[1])), h(f[2]))
		default:
			panic("bad token " + tok)
		}
		fn, ok := liAppender[l.Topics[0]]
		if !ok {
			panic("no log handler for " + f[0])
		}
		must(fn(b, l))
	}
	return b.Events, true
}
