package main

// Scenario `globalindex` (C19): GenerateGlobalIndex / DecodeGlobalIndex and the four consumers.

import (
	"bytes"
	"fmt"
	"github.com/agglayer/aggkit/aggsender/optimistic/optimistichash"
	"math/big"
	"strings"

	agglayergrpc "github.com/agglayer/aggkit/agglayer/grpc"
	agglayertypes "github.com/agglayer/aggkit/agglayer/types"
	"github.com/agglayer/aggkit/aggsender/aggchainproofclient"
	"github.com/agglayer/aggkit/aggsender/flows"
	aggsendertypes "github.com/agglayer/aggkit/aggsender/types"
	"github.com/agglayer/aggkit/bridgesync"
	"github.com/ethereum/go-ethereum/crypto"
)

func init() {
	scenarios["globalindex"] = Scenario{Gen: giGen, Replay: giReplay}
}

var giBoundary = []uint64{0, 1, 2, 255, 256, 257, 65535, 65536, 1<<24 - 1, 1 << 24, 1<<24 + 1, 1<<31 - 1, 1 << 31, 1<<32 - 2, 1<<32 - 1}

func giExec(r *Run, line string) {
	ws := strings.Fields(line)
	r.Count("op:" + ws[0])
	switch ws[0] {
	case "enc":
		m := ws[1] == "1"
		ri := uint32(bigOf(ws[2]).Uint64())
		li := uint32(bigOf(ws[3]).Uint64())
		obs := guard(func() string {
			g := bridgesync.GenerateGlobalIndex(m, ri, li)
			return fmt.Sprintf("enc %s %s", g.String(), strings.TrimPrefix(hx(g.Bytes()), "-"))
		})
		r.Emit(line, obs)
		// monitor: layout and round trip (the property itself, on the implementation only)
		g := bridgesync.GenerateGlobalIndex(m, ri, li)
		want := new(big.Int)
		if m {
			want.Lsh(big.NewInt(1), 64)
		} else {
			want.Lsh(new(big.Int).SetUint64(uint64(ri)), 32)
		}
		want.Add(want, new(big.Int).SetUint64(uint64(li)))
		if g.Cmp(want) != 0 {
			r.Fail(fmt.Sprintf("layout: GenerateGlobalIndex(%v,%d,%d)=%s, contract layout gives %s", m, ri, li, g, want), []string{line})
		}
		dm, dr, dl, err := bridgesync.DecodeGlobalIndex(g)
		wr := ri
		if m {
			wr = 0
		}
		if err != nil || dm != m || dr != wr || dl != li {
			r.Fail(fmt.Sprintf("roundtrip: decode(generate(%v,%d,%d)) = (%v,%d,%d,%v)", m, ri, li, dm, dr, dl, err), []string{line})
		}
	case "dec":
		x := bigOf(ws[1])
		obs := guard(func() string {
			m, ri, li, err := bridgesync.DecodeGlobalIndex(x)
			if err != nil {
				return "dec err"
			}
			return fmt.Sprintf("dec %s %d %d", b2s(m), ri, li)
		})
		r.Emit(line, obs)
	case "cons":
		x := bigOf(ws[1])
		var parts [5][]byte
		var opt [32]byte
		obs := guard(func() string {
			f := flows.NewBaseFlow(lg(), nil, nil, nil, nil, flows.NewBaseFlowConfigDefault())
			ibe, err := f.ConvertClaimToImportedBridgeExit(bridgesync.Claim{GlobalIndex: x, Amount: big.NewInt(0)})
			if err != nil {
				return "cons err"
			}
			ibe.ClaimData = &agglayertypes.ClaimFromMainnnet{
				ProofLeafMER: &agglayertypes.MerkleProof{}, ProofGERToL1Root: &agglayertypes.MerkleProof{},
				L1Leaf: &agglayertypes.L1InfoTreeLeaf{Inner: &agglayertypes.L1InfoTreeLeafInner{}},
			}
			h := ibe.GlobalIndex.Hash()
			fep := ibe.GlobalIndexToLittleEndianBytes()
			p, err := agglayergrpc.VerifConvertToProtoImportedBridgeExit(ibe)
			if err != nil {
				return "cons err"
			}
			// the request carries a second, different claim after this one (entries must not share storage)
			other := &agglayertypes.ImportedBridgeExit{BridgeExit: ibe.BridgeExit, ClaimData: ibe.ClaimData,
				GlobalIndex: &agglayertypes.GlobalIndex{MainnetFlag: !ibe.GlobalIndex.MainnetFlag, RollupIndex: ibe.GlobalIndex.RollupIndex + 1, LeafIndex: ibe.GlobalIndex.LeafIndex + 7}}
			req := aggsendertypes.NewAggchainProofRequest(0, 0, h, zeroL1Leaf(), agglayertypes.MerkleProof{}, nil,
				[]*agglayertypes.ImportedBridgeExitWithBlockNumber{{BlockNumber: 1, ImportedBridgeExit: ibe}, {BlockNumber: 1, ImportedBridgeExit: other}})
			pr := aggchainproofclient.VerifConvertAggchainProofRequest(req)
			parts[0], parts[1], parts[2], parts[3] = h.Bytes(), fep, p.GlobalIndex.Value, pr.ImportedBridgeExits[0].GlobalIndex.Value
			// the optimistic-mode signed commitment over the same claim
			opt = optimistichash.CalculateCommitImportedBrdigeExitsHashFromClaims([]bridgesync.Claim{{GlobalIndex: x, Amount: big.NewInt(0)}})
			return fmt.Sprintf("cons %s %d %d hash=%s fep=%s wire=%s prover=%s opt=%s", b2s(ibe.GlobalIndex.MainnetFlag),
				ibe.GlobalIndex.RollupIndex, ibe.GlobalIndex.LeafIndex, hx(h.Bytes()), hx(fep), hx(p.GlobalIndex.Value), hx(pr.ImportedBridgeExits[0].GlobalIndex.Value), hx(opt[:]))
		})
		r.Emit(line, obs)
		// monitor: for canonical on-chain values every consumer carries the value x itself
		if giCanonical(x) && obs != "panic" && obs != "cons err" {
			be := make([]byte, 32)
			x.FillBytes(be)
			le := make([]byte, 32)
			for i := range be {
				le[i] = be[31-i]
			}
			zeroExit := (&agglayertypes.BridgeExit{TokenInfo: &agglayertypes.TokenInfo{}, Amount: big.NewInt(0)}).Hash()
			if !bytes.Equal(parts[1], le) || !bytes.Equal(parts[2], be) || !bytes.Equal(parts[3], be) || !bytes.Equal(parts[0], crypto.Keccak256(le)) ||
				opt != [32]byte(crypto.Keccak256Hash(le, zeroExit[:])) {
				r.Fail(fmt.Sprintf("consumers disagree with on-chain value %s: %s", x, obs), []string{line})
			}
		} else if giCanonical(x) {
			r.Fail(fmt.Sprintf("canonical value %s rejected: %s", x, obs), []string{line})
		}
	default:
		r.Emit(line, "bad-op")
	}
	r.Evals++
}

func giCanonical(x *big.Int) bool {
	two64 := new(big.Int).Lsh(big.NewInt(1), 64)
	if x.Cmp(two64) < 0 {
		return true
	}
	return x.Cmp(new(big.Int).Add(two64, new(big.Int).Lsh(big.NewInt(1), 32))) < 0
}

func giVal(rng *Rng) uint64 {
	switch rng.Intn(4) {
	case 0:
		return giBoundary[rng.Intn(len(giBoundary))]
	case 1:
		return uint64(rng.U32()) >> uint(rng.Intn(32))
	default:
		return uint64(rng.U32())
	}
}

func giGen(r *Run, rng *Rng) {
	// boundary triples exhaustively
	for _, m := range []bool{false, true} {
		for _, a := range giBoundary {
			for _, b := range giBoundary {
				line := fmt.Sprintf("enc %s %d %d", b2s(m), a, b)
				giExec(r, line)
				r.Case(line)
				g := bridgesync.GenerateGlobalIndex(m, uint32(a), uint32(b))
				giExec(r, "dec "+g.String())
				giExec(r, "cons "+g.String())
			}
		}
	}
	n := 3000
	if r.Tier == "thorough" {
		n = 60000
	}
	for i := 0; i < n; i++ {
		m := rng.Bool()
		a, b := giVal(rng), giVal(rng)
		line := fmt.Sprintf("enc %s %d %d", b2s(m), a, b)
		giExec(r, line)
		r.Case(line)
		if i < 3 {
			r.Sample(line)
		}
		// canonical on-chain value
		x := new(big.Int)
		if rng.Bool() {
			x.Lsh(big.NewInt(1), 64)
			x.Add(x, new(big.Int).SetUint64(b))
		} else {
			x.Lsh(new(big.Int).SetUint64(a), 32)
			x.Add(x, new(big.Int).SetUint64(b))
		}
		giExec(r, "dec "+x.String())
		giExec(r, "cons "+x.String())
		if i < 3 {
			r.Sample("cons " + x.String())
		}
		// malformed / non-canonical stream (kept small): arbitrary widths up to 12 bytes
		if rng.Chance(15) {
			y := new(big.Int).SetBytes(rng.Bytes(1 + rng.Intn(12)))
			giExec(r, "dec "+y.String())
			giExec(r, "cons "+y.String())
			r.Count("malformed")
		}
	}
}

func giReplay(r *Run, lines []string) {
	for _, l := range lines {
		giExec(r, l)
	}
}
