package main

// Scenario `evmbridge` (C01, oracle = the real contract): PolygonZkEVMBridgeV2 bytecode runs in go-ethereum's simulated EVM
// behind a proxy; deposits (native-asset bridges and messages, several per block) are sent to it; after every block the
// emitted BridgeEvent logs are read with eth_getLogs, pushed through the syncer's OWN log handlers (sender and calldata from
// a scripted trace, the simulated backend has no debug_traceTransaction) into the real bridge processor, and for every
// deposit three answers are compared: the contract's `getLeafValue` / `getRoot()` at that moment, the node's leaf hash /
// `GetExitRootByIndex`, and (through the op line) the Lean deposit-contract model over the Lean Keccak.

import (
	"context"
	"encoding/json"
	"errors"
	"fmt"
	"math/big"
	"os"
	"path/filepath"
	"strings"

	"github.com/0xPolygon/cdk-contracts-tooling/contracts/pp/l2-sovereign-chain/polygonzkevmbridgev2"
	"github.com/agglayer/aggkit/bridgesync"
	"github.com/agglayer/aggkit/sync"
	"github.com/agglayer/aggkit/test/contracts/transparentupgradableproxy"
	"github.com/ethereum/go-ethereum"
	"github.com/ethereum/go-ethereum/accounts/abi/bind"
	"github.com/ethereum/go-ethereum/common"
	"github.com/ethereum/go-ethereum/core/types"
	"github.com/ethereum/go-ethereum/crypto"
	"github.com/ethereum/go-ethereum/ethclient/simulated"
)

func init() { scenarios["evmbridge"] = Scenario{Gen: ebGen, Replay: ebReplay} }

// the simulated chain as an EthClienter: contract backend + scripted transaction traces
type ebClient struct {
	simulated.Client
	traces map[common.Hash]string
}

func (c *ebClient) Call(result any, method string, args ...any) error {
	h, ok := args[0].(common.Hash)
	if !ok {
		return errors.New("verif: unexpected trace argument")
	}
	t, ok := c.traces[h]
	if !ok {
		return errors.New("verif: unknown transaction")
	}
	return json.Unmarshal([]byte(t), result)
}

type ebWorld struct {
	backend  *simulated.Backend
	cl       *ebClient
	user     *bind.TransactOpts
	bridge   *polygonzkevmbridgev2.Polygonzkevmbridgev2
	addr     common.Address
	p        *bridgesync.VerifProcessor
	f        *bridgesync.BridgeSync
	appender sync.LogAppenderMap
	dir      string
	from     uint64 // first block not yet synced
	lines    []string
}

func (w *ebWorld) close() {
	if w.p != nil {
		w.p.Close()
		w.p = nil
	}
	if w.backend != nil {
		w.backend.Close()
		w.backend = nil
	}
	if w.dir != "" {
		os.RemoveAll(w.dir)
		w.dir = ""
	}
}

func ebKey(b byte) *bind.TransactOpts {
	raw := make([]byte, 32)
	raw[31], raw[0] = b, 0x11
	k, err := crypto.ToECDSA(raw)
	must(err)
	a, err := bind.NewKeyedTransactorWithChainID(k, big.NewInt(1337))
	must(err)
	return a
}

func (w *ebWorld) open(r *Run) {
	w.close()
	*w = ebWorld{}
	dir, err := os.MkdirTemp(r.OutDir, "evmb")
	must(err)
	w.dir = dir
	deployer, user := ebKey(1), ebKey(2)
	bal, _ := new(big.Int).SetString("1000000000000000000000000000000", 10)
	w.backend = simulated.NewBackend(map[common.Address]types.Account{deployer.From: {Balance: bal}, user.From: {Balance: bal}},
		simulated.WithBlockGasLimit(999999999999999999))
	w.user = user
	w.cl = &ebClient{Client: w.backend.Client(), traces: map[common.Hash]string{}}
	impl, _, _, err := polygonzkevmbridgev2.DeployPolygonzkevmbridgev2(deployer, w.cl)
	must(err)
	w.backend.Commit()
	a, err := polygonzkevmbridgev2.Polygonzkevmbridgev2MetaData.GetAbi()
	must(err)
	// network 0, ether as gas token, a global-exit-root manager that is never called (forceUpdateGlobalExitRoot = false)
	initData, err := a.Pack("initialize", uint32(0), common.Address{}, uint32(0), common.HexToAddress("0x6e7"), common.Address{}, []byte{})
	must(err)
	w.addr, _, _, err = transparentupgradableproxy.DeployTransparentupgradableproxy(deployer, w.cl, impl, deployer.From, initData)
	must(err)
	w.backend.Commit()
	w.bridge, err = polygonzkevmbridgev2.NewPolygonzkevmbridgev2(w.addr, w.cl)
	must(err)
	w.p, err = bridgesync.VerifNewProcessor(filepath.Join(dir, "b.sqlite"), "verif-evm", lg())
	must(err)
	w.f = w.p.Facade(0)
	w.appender, err = bridgesync.VerifBuildAppender(w.cl, w.addr, false, lg())
	must(err)
	h, err := w.cl.HeaderByNumber(context.Background(), nil)
	must(err)
	w.from = h.Number.Uint64() + 1
}

// `blk <call>*`, call = a:<destNet>:<destAddr>:<amount> (bridgeAsset of the native token) | m:<destNet>:<destAddr>:<value>:<metadata>
// (bridgeMessage): the calls are mined in ONE block, then the block is synced. For every deposit a line
// `dep <leafType> <origNet> <origAddr> <destNet> <destAddr> <amount> <metadata>` (the EVENT's fields) is emitted for the model.
func (w *ebWorld) exec(r *Run, line string) {
	ws := strings.Fields(line)
	r.Count("op:" + ws[0])
	ctx := context.Background()
	switch ws[0] {
	case "new":
		w.open(r)
		w.lines = []string{line}
		r.Emit(line, "ok")
		return
	case "blk":
	default:
		r.Emit(line, "bad-op")
		return
	}
	w.lines = append(w.lines, line)
	cp := func() []string { return append([]string{}, w.lines...) }
	type want struct {
		root  common.Hash
		count uint32
	}
	var roots []want // the contract's root after each deposit of this block, read by replaying the calls one block each? no:
	// all calls are mined together; the contract's intermediate roots are recomputed by the contract itself via eth_call
	// simulation is not available, so each call is mined in its own block when the root is to be read — two modes:
	together := len(ws) > 2 && w.from%2 == 0
	for _, c := range ws[1:] {
		f := strings.Split(c, ":")
		opts := *w.user
		opts.Value = bigOf(f[3])
		var tx *types.Transaction
		var err error
		dn, da := uint32(bigOf(f[1]).Uint64()), common.BytesToAddress(unhx(f[2]))
		if f[0] == "a" {
			tx, err = w.bridge.BridgeAsset(&opts, dn, da, bigOf(f[3]), common.Address{}, false, nil)
		} else {
			tx, err = w.bridge.BridgeMessage(&opts, dn, da, false, unhx(f[4]))
		}
		if err != nil {
			r.Count("call-rejected")
			continue
		}
		w.cl.traces[tx.Hash()] = fmt.Sprintf(`{"from":"%s","to":"%s","input":"0x%s","calls":[]}`, w.user.From.Hex(), w.addr.Hex(), common.Bytes2Hex(tx.Data()))
		if !together {
			w.backend.Commit()
			rt, err := w.bridge.GetRoot(&bind.CallOpts{})
			must(err)
			dc, err := w.bridge.DepositCount(&bind.CallOpts{})
			must(err)
			roots = append(roots, want{rt, uint32(dc.Uint64())})
		}
	}
	if together {
		w.backend.Commit()
		rt, err := w.bridge.GetRoot(&bind.CallOpts{})
		must(err)
		dc, err := w.bridge.DepositCount(&bind.CallOpts{})
		must(err)
		roots = append(roots, want{rt, uint32(dc.Uint64())})
		r.Count("branch:several-deposits-in-one-block")
	}
	// sync every new block: logs -> the syncer's log handlers -> processor
	head, err := w.cl.HeaderByNumber(ctx, nil)
	must(err)
	for bn := w.from; bn <= head.Number.Uint64(); bn++ {
		hd, err := w.cl.HeaderByNumber(ctx, new(big.Int).SetUint64(bn))
		must(err)
		logs, err := w.cl.FilterLogs(ctx, ethereum.FilterQuery{FromBlock: hd.Number, ToBlock: hd.Number, Addresses: []common.Address{w.addr}})
		must(err)
		b := &sync.EVMBlock{EVMBlockHeader: sync.EVMBlockHeader{Num: bn, Hash: hd.Hash(), ParentHash: hd.ParentHash, Timestamp: hd.Time}}
		for _, l := range logs {
			fn, ok := w.appender[l.Topics[0]]
			if !ok {
				continue // Initialized / proxy events
			}
			must(fn(b, l))
		}
		if err := w.p.ProcessBlock(ctx, sync.Block{Num: bn, Hash: b.Hash, Events: b.Events}); err != nil {
			r.Fail(fmt.Sprintf("[C01] the block %d mined by the real bridge contract was refused by the syncer: %v", bn, err), cp())
			panic(stopRun{})
		}
		for _, e := range b.Events {
			ev, ok := e.(bridgesync.Event)
			if !ok || ev.Bridge == nil {
				continue
			}
			br := ev.Bridge
			r.Evals++
			// the contract's own leaf value for the event's fields
			var mh [32]byte
			copy(mh[:], crypto.Keccak256(br.Metadata))
			cLeaf, err := w.bridge.GetLeafValue(&bind.CallOpts{}, br.LeafType, br.OriginNetwork, br.OriginAddress, br.DestinationNetwork,
				br.DestinationAddress, br.Amount, mh)
			must(err)
			nLeaf := br.Hash()
			if common.Hash(cLeaf) != nLeaf {
				r.Fail(fmt.Sprintf("[C01] deposit %d: the node's leaf %s is not the contract's getLeafValue %s", br.DepositCount, nLeaf.Hex(), common.Hash(cLeaf).Hex()), cp())
			}
			nRoot, err := w.f.GetExitRootByIndex(ctx, br.DepositCount)
			obs := ""
			if err != nil {
				obs = "err " + err.Error()
				r.Fail(fmt.Sprintf("[C01] deposit %d: the node reports no exit root: %v", br.DepositCount, err), cp())
			} else {
				obs = fmt.Sprintf("leaf=%s root=%s count=%d", hx(nLeaf[:]), hx(nRoot.Hash[:]), br.DepositCount+1)
				for _, x := range roots {
					if x.count == br.DepositCount+1 && x.root != nRoot.Hash {
						r.Fail(fmt.Sprintf("[C01] deposit count %d: the node's exit root %s is not the contract's getRoot() %s", br.DepositCount, nRoot.Hash.Hex(), x.root.Hex()), cp())
					}
				}
			}
			r.Emit(fmt.Sprintf("dep %d %d %s %d %s %s %s", br.LeafType, br.OriginNetwork, hx(br.OriginAddress[:]), br.DestinationNetwork,
				hx(br.DestinationAddress[:]), br.Amount.String(), hx(br.Metadata)), obs)
			r.Case(fmt.Sprintf("dep:%d:%d", br.LeafType, min(len(br.Metadata), 40)))
		}
	}
	w.from = head.Number.Uint64() + 1
}

func ebGen(r *Run, rng *Rng) {
	w := &ebWorld{}
	defer w.close()
	nw, nb := 2, 14
	if r.Tier == "thorough" {
		nw, nb = 6, 60
	}
	for i := 0; i < nw; i++ {
		w.exec(r, "new")
		for b := 0; b < nb; b++ {
			n := 1 + rng.Intn(3)
			var calls []string
			for j := 0; j < n; j++ {
				dn := []uint32{1, 2, 7, 4294967295}[rng.Intn(4)]
				da := hx(rng.Bytes(20))
				var amt *big.Int
				switch rng.Intn(4) {
				case 0:
					amt = big.NewInt(0)
				case 1:
					amt = big.NewInt(1)
				case 2:
					amt = new(big.Int).SetBytes(rng.Bytes(1 + rng.Intn(8)))
				default:
					amt, _ = new(big.Int).SetString("123456789012345678901234", 10)
				}
				if rng.Bool() {
					if amt.Sign() == 0 {
						amt = big.NewInt(7) // bridging nothing is rejected by the contract
					}
					calls = append(calls, fmt.Sprintf("a:%d:%s:%s", dn, da, amt))
				} else {
					md := "-"
					if k := []int{0, 1, 31, 32, 33, 100}[rng.Intn(6)]; k > 0 {
						md = hx(rng.Bytes(k))
					}
					calls = append(calls, fmt.Sprintf("m:%d:%s:%s:%s", dn, da, amt, md))
				}
			}
			w.exec(r, "blk "+strings.Join(calls, " "))
		}
		if i == 0 {
			r.Sample(strings.Join(w.lines[:min(len(w.lines), 3)], " ; "))
		}
	}
}

func ebReplay(r *Run, lines []string) {
	w := &ebWorld{}
	defer w.close()
	for _, l := range lines {
		if strings.HasPrefix(l, "new") || strings.HasPrefix(l, "blk") {
			w.exec(r, l)
		}
	}
}
