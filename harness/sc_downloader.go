package main

// Scenario `downloader` (C05): the real sync.EVMDownloader.Download loop (incl. GetEventsByBlockRange, GetLogs
// filtering, header cross-check, empty-block markers) against a scripted Ethereum client whose answers are a
// function of the call count, for a fixed number of iterations.

import (
	"context"
	"encoding/binary"
	"errors"
	"fmt"
	"math/big"
	"net/url"
	"sort"
	"strings"
	"time"

	"github.com/agglayer/aggkit/sync"
	aggkittypes "github.com/agglayer/aggkit/types"
	"github.com/ethereum/go-ethereum"
	"github.com/ethereum/go-ethereum/common"
	"github.com/ethereum/go-ethereum/core/types"
)

func init() { scenarios["downloader"] = Scenario{Gen: dlGen, Replay: dlReplay} }

type dlInput struct {
	tip, fin uint64
	ok       bool
}

type dlClient struct {
	aggkittypes.BaseEthereumClienter
	tip0     uint64
	inputs   []dlInput
	finCalls int
	tipCalls int
	chain    map[uint64][]uint64 // watched log ids per block
	noise    map[uint64]int      // unwatched / removed logs per block
	filterCalls int
	filterErrs  map[int]byte // k-th FilterLogs call fails once: 'g' generic transient error, 'd' wrapped context.DeadlineExceeded
	hdrCalls    int
	hdrFaults   map[int]byte // k-th header-by-number call: 'm' answers with a foreign block (hash differs from the logs'), 'n' not found once, 'e' transient error
	tipTag   *big.Int
	finTag   *big.Int
	exhausted bool
	sameTag   bool // tip and finalized queries use the same tag: every such query answers the (fixed) tip
}

var dlWatched = common.HexToHash("0xaaaa000000000000000000000000000000000000000000000000000000000001")
var dlOther = common.HexToHash("0xbbbb000000000000000000000000000000000000000000000000000000000002")
var dlAddr = common.HexToAddress("0x00000000000000000000000000000000000000c0")

func (c *dlClient) header(n uint64) *types.Header {
	return &types.Header{Number: new(big.Int).SetUint64(n), Time: 1000 + n, ParentHash: common.BigToHash(new(big.Int).SetUint64(n * 31)), Difficulty: big.NewInt(0)}
}

func (c *dlClient) HeaderByNumber(ctx context.Context, number *big.Int) (*types.Header, error) {
	if number != nil && number.Sign() >= 0 {
		k := c.hdrCalls
		c.hdrCalls++
		if kind, ok := c.hdrFaults[k]; ok {
			delete(c.hdrFaults, k)
			switch kind {
			case 'm': // a lagging / forked backend: the header of another block at this height
				h := c.header(number.Uint64())
				h.Extra = []byte("foreign")
				return h, nil
			case 'n':
				c.hdrCalls--
				return nil, ethereum.NotFound
			default:
				c.hdrCalls--
				return nil, errors.New("transient rpc failure")
			}
		}
		return c.header(number.Uint64()), nil
	}
	if c.sameTag {
		return c.header(c.tip0), nil
	}
	if number != nil && number.Cmp(c.finTag) == 0 && c.finTag.Cmp(c.tipTag) != 0 {
		k := c.finCalls
		c.finCalls++
		if k >= len(c.inputs) {
			c.exhausted = true
			return nil, errors.New("script exhausted")
		}
		if !c.inputs[k].ok {
			return nil, errors.New("transient failure of the finalized-block query")
		}
		return c.header(c.inputs[k].fin), nil
	}
	// tip poll
	c.tipCalls++
	if c.tipCalls == 1 {
		return c.header(c.tip0), nil
	}
	k := c.finCalls
	if k >= len(c.inputs) {
		c.exhausted = true
		return c.header(1 << 40), nil
	}
	return c.header(c.inputs[k].tip), nil
}

func (c *dlClient) ChainID(ctx context.Context) (*big.Int, error) { return big.NewInt(1), nil }

func (c *dlClient) FilterLogs(ctx context.Context, q ethereum.FilterQuery) ([]types.Log, error) {
	k := c.filterCalls
	c.filterCalls++
	if kind, ok := c.filterErrs[k]; ok {
		delete(c.filterErrs, k)
		c.filterCalls-- // the retry is the same logical call
		if kind == 'd' {
			return nil, &url.Error{Op: "Post", URL: "http://rpc", Err: context.DeadlineExceeded}
		}
		return nil, errors.New("transient rpc failure")
	}
	var out []types.Log
	from, to := q.FromBlock.Uint64(), q.ToBlock.Uint64()
	var nums []uint64
	for b := range c.chain {
		nums = append(nums, b)
	}
	for b := range c.noise {
		if _, ok := c.chain[b]; !ok {
			nums = append(nums, b)
		}
	}
	sort.Slice(nums, func(i, j int) bool { return nums[i] < nums[j] })
	for _, b := range nums {
		if b < from || b > to {
			continue
		}
		h := c.header(b).Hash()
		idx := uint(0)
		// a removed watched log comes from the block that was dropped at this height: it carries THAT block's hash
		gone := c.header(b)
		gone.Extra = []byte("dropped")
		if c.noise[b] > 2 {
			out = append(out, types.Log{Address: dlAddr, Topics: []common.Hash{dlWatched}, Data: []byte{0, 0, 0, 0, 0, 0, 0x27, 0x0e}, BlockNumber: b, BlockHash: gone.Hash(), Index: idx, Removed: true})
			idx++
		}
		// noise first and in between: a log from another topic, a removed watched log
		if c.noise[b] > 0 {
			out = append(out, types.Log{Address: dlAddr, Topics: []common.Hash{dlOther}, BlockNumber: b, BlockHash: h, Index: idx})
			idx++
		}
		for _, id := range c.chain[b] {
			d := make([]byte, 8)
			binary.BigEndian.PutUint64(d, id)
			out = append(out, types.Log{Address: dlAddr, Topics: []common.Hash{dlWatched}, Data: d, BlockNumber: b, BlockHash: h, Index: idx})
			idx++
			if c.noise[b] > 1 {
				out = append(out, types.Log{Address: dlAddr, Topics: []common.Hash{dlWatched}, Data: []byte{0, 0, 0, 0, 0, 0, 0x27, 0x0f}, BlockNumber: b, BlockHash: gone.Hash(), Index: idx, Removed: true})
				idx++
			}
		}
	}
	return out, nil
}

func dlParse(ws []string) (start, chunk uint64, finTag bool, cl *dlClient) {
	start, chunk = bigOf(ws[1]).Uint64(), bigOf(ws[2]).Uint64()
	finTag = ws[3] == "1"
	cl = &dlClient{tip0: bigOf(ws[4]).Uint64(), chain: map[uint64][]uint64{}, noise: map[uint64]int{}, filterErrs: map[int]byte{}}
	if len(ws) > 8 && ws[8] != "-" {
		for _, it := range strings.Split(ws[8], ";") {
			p := strings.Split(it, ":")
			cl.filterErrs[int(bigOf(p[0]).Uint64())] = p[1][0]
		}
	}
	cl.hdrFaults = map[int]byte{}
	if len(ws) > 9 && ws[9] != "-" {
		for _, it := range strings.Split(ws[9], ";") {
			p := strings.Split(it, ":")
			cl.hdrFaults[int(bigOf(p[0]).Uint64())] = p[1][0]
		}
	}
	if ws[5] != "-" {
		for _, it := range strings.Split(ws[5], ";") {
			p := strings.Split(it, ":")
			b := bigOf(p[0]).Uint64()
			for _, id := range strings.Split(p[1], ",") {
				cl.chain[b] = append(cl.chain[b], bigOf(id).Uint64())
			}
		}
	}
	if ws[6] != "-" {
		for _, it := range strings.Split(ws[6], ";") {
			p := strings.Split(it, ",")
			cl.inputs = append(cl.inputs, dlInput{bigOf(p[0]).Uint64(), bigOf(p[1]).Uint64(), p[2] == "1"})
		}
	}
	if len(ws) > 7 && ws[7] != "-" {
		for _, it := range strings.Split(ws[7], ";") {
			p := strings.Split(it, ":")
			cl.noise[bigOf(p[0]).Uint64()] = int(bigOf(p[1]).Uint64())
		}
	}
	return
}

func dlExec(r *Run, line string) {
	ws := strings.Fields(line)
	r.Evals++
	if ws[0] != "run" {
		r.Emit(line, "bad-op")
		return
	}
	start, chunk, finTag, cl := dlParse(ws)
	finType := aggkittypes.FinalizedBlock
	if !finTag {
		finType = aggkittypes.SafeBlock
	}
	cl.tipTag, _ = aggkittypes.LatestBlock.ToBlockNum()
	cl.finTag, _ = finType.ToBlockNum()
	var delivered []string
	// every fifth watched log makes the appender fail once (the bridge syncer's appenders make RPC calls of their own): the
	// loop must retry that log, not drop it
	appFailed := map[uint64]bool{}
	appender := sync.LogAppenderMap{dlWatched: func(b *sync.EVMBlock, l types.Log) error {
		id := binary.BigEndian.Uint64(l.Data)
		if id%5 == 0 && !appFailed[id] {
			appFailed[id] = true
			return errors.New("transient failure inside the log appender")
		}
		b.Events = append(b.Events, id)
		return nil
	}}
	d, err := sync.NewEVMDownloader("verif", cl, chunk, aggkittypes.LatestBlock, time.Millisecond, appender, []common.Address{dlAddr},
		&sync.RetryHandler{RetryAfterErrorPeriod: time.Millisecond, MaxRetryAttemptsAfterError: -1}, finType)
	must(err)
	n := 0
	for _, in := range cl.inputs {
		if in.ok {
			n++
		}
	}
	if n == 0 {
		r.Emit(line, "bad-op")
		return
	}
	sync.VerifSetStopDownloaderOnIterationN(d, n)
	ch := make(chan sync.EVMBlock, 100000)
	done := make(chan struct{})
	ctx, cancel := context.WithCancel(context.Background())
	go func() { d.Download(ctx, start, ch); close(done) }()
	select {
	case <-done:
	case <-time.After(20 * time.Second):
		cancel()
		r.Emit(line, "timeout")
		r.Notes = append(r.Notes, "downloader run timed out: "+line)
		if line == dlStall {
			r.Fail("[C05] the download loop stalls: the tip advanced to block 7 (watched event in it), the next read of the finalized pointer failed once, and the loop went back to waiting for a block newer than 7 without ever fetching blocks 6-7 — on a quiet chain the event is never handed over", []string{line})
		}
		return
	}
	cancel()
	type del struct {
		num uint64
		evs []uint64
	}
	var ds []del
	for len(ch) > 0 {
		b := <-ch
		var evs []string
		var ids []uint64
		for _, e := range b.Events {
			evs = append(evs, fmt.Sprint(e.(uint64)))
			ids = append(ids, e.(uint64))
		}
		delivered = append(delivered, fmt.Sprintf("%d:%s:%s", b.Num, strings.Join(evs, ","), b2s(b.IsFinalizedBlock)))
		ds = append(ds, del{b.Num, ids})
	}
	obs := strings.TrimSpace("out " + strings.Join(delivered, " "))
	// the model also reports where the loop stands; recover it from the script: not observable here, so only `out` is compared
	r.Emit(line, obs)
	// ---- monitor (property on the implementation's output only) ----
	last := int64(-1)
	seen := map[uint64]bool{}
	for _, x := range ds {
		if int64(x.num) <= last {
			r.Fail(fmt.Sprintf("[C05] block %d handed over after block %d (not strictly increasing / handed over twice)", x.num, last), []string{line})
			return
		}
		last = int64(x.num)
		seen[x.num] = true
		want := cl.chain[x.num]
		if fmt.Sprint(want) != fmt.Sprint(x.evs) && !(len(want) == 0 && len(x.evs) == 0) {
			r.Fail(fmt.Sprintf("[C05] block %d handed over with events %v, the chain has %v there", x.num, x.evs, want), []string{line})
			return
		}
	}
	for b := range cl.chain {
		if b >= start && int64(b) < last && !seen[b] {
			tag := "[C05]"
			if len(ws) > 10 {
				tag = "[C05] F6 after six consecutive header answers that disagree with the logs the range fetch gives up and the loop treats the range as empty:"
			}
			r.Fail(fmt.Sprintf("%s block %d with watched events was skipped: a later block (%d) was handed over without it", tag, b, last), []string{line})
			return
		}
	}
}

// directed schedule for known finding F6: the first range lies below the finalized block and its only event block meets
// six disagreeing header answers in a row (calls 0..5), so the fetch gives up in iteration 0
const dlF6 = "run 1 10 1 20 3:31;15:151 20,20,1;20,20,1 - - 0:m;1:m;2:m;3:m;4:m;5:m G:0"

// directed schedule: idle at the top (tip 5 = finalized), the tip moves to 7 with a watched event, the first read of the
// finalized pointer after the wake-up fails, and the chain stays quiet: blocks 6-7 must still be fetched and handed over
const dlStall = "run 1 10 1 5 3:31;7:71 5,5,1;7,7,0;7,7,1 - - -"

// directed configuration check: a syncer that follows the SAFE block while the node's finality setting is FINALIZED. The
// constructor then has to fall back to the safe block for "finalized" as well — and must stop calling it finalized: a block
// at or below the safe head can still be replaced, so it has to be handed over as non-final (and hence tracked by the driver)
func dlSafeConfig(r *Run) {
	cl := &dlClient{tip0: 20, chain: map[uint64][]uint64{3: {31}, 15: {151}}, noise: map[uint64]int{}, filterErrs: map[int]byte{}, hdrFaults: map[int]byte{},
		inputs: []dlInput{{20, 20, true}, {20, 20, true}}}
	cl.tipTag, _ = aggkittypes.SafeBlock.ToBlockNum()
	cl.finTag, _ = aggkittypes.SafeBlock.ToBlockNum()
	cl.sameTag = true
	appender := sync.LogAppenderMap{dlWatched: func(b *sync.EVMBlock, l types.Log) error {
		b.Events = append(b.Events, binary.BigEndian.Uint64(l.Data))
		return nil
	}}
	d, err := sync.NewEVMDownloader("verif", cl, 10, aggkittypes.SafeBlock, time.Millisecond, appender, []common.Address{dlAddr},
		&sync.RetryHandler{RetryAfterErrorPeriod: time.Millisecond, MaxRetryAttemptsAfterError: -1}, aggkittypes.FinalizedBlock)
	must(err)
	sync.VerifSetStopDownloaderOnIterationN(d, 2)
	ch := make(chan sync.EVMBlock, 100)
	done := make(chan struct{})
	ctx, cancel := context.WithCancel(context.Background())
	defer cancel()
	go func() { d.Download(ctx, 1, ch); close(done) }()
	select {
	case <-done:
	case <-time.After(20 * time.Second):
		r.Notes = append(r.Notes, "downloader safe-config run timed out")
		return
	}
	r.Evals++
	n := 0
	for len(ch) > 0 {
		b := <-ch
		n++
		if b.IsFinalizedBlock {
			r.Fail(fmt.Sprintf("[C06,C05] a syncer configured to follow the safe block (node finality: finalized) hands over block %d as FINALIZED although only the safe head is known: the driver will never track it, a reorg of it goes unseen", b.Num), []string{"safe-config"})
			return
		}
	}
	if n == 0 {
		r.Notes = append(r.Notes, "downloader safe-config run delivered nothing")
	}
	r.Count("directed:safe-block-syncer-with-finalized-node-setting")
}

func dlGen(r *Run, rng *Rng) {
	dlSafeConfig(r)
	n := 250
	if r.Tier == "thorough" {
		n = 3000
	}
	dlExec(r, dlF6)
	dlExec(r, dlStall)
	for i := 0; i < n; i++ {
		chunk := []uint64{0, 1, 2, 3, 7, 10, 50}[rng.Intn(7)]
		span := uint64(8 + rng.Intn(40))
		tip0 := uint64(1 + rng.Intn(12))
		start := uint64(rng.Intn(int(tip0) + 2))
		if start == 0 && rng.Bool() {
			start = 1
		}
		// chain: event blocks with density
		dens := []int{5, 15, 40, 80}[rng.Intn(4)]
		var chain, noise []string
		id := uint64(100)
		for b := uint64(0); b <= span+30; b++ {
			if rng.Chance(dens) {
				k := 1 + rng.Intn(3)
				var ids []string
				for j := 0; j < k; j++ {
					id++
					ids = append(ids, fmt.Sprint(id))
				}
				chain = append(chain, fmt.Sprintf("%d:%s", b, strings.Join(ids, ",")))
			}
			if rng.Chance(20) {
				noise = append(noise, fmt.Sprintf("%d:%d", b, 1+rng.Intn(3)))
			}
		}
		// observation script: tips strictly increasing (what WaitForNewBlocks can return), finalized anywhere
		var inputs []string
		tip := tip0
		fin := uint64(0)
		iters := 4 + rng.Intn(14)
		lag := []uint64{0, 0, 1, 3, 8, 100}[rng.Intn(6)]
		for k := 0; k < iters; k++ {
			tip += 1 + uint64(rng.Intn(3))
			if rng.Chance(15) {
				tip += uint64(rng.Intn(20))
			}
			switch rng.Intn(4) {
			case 0: // finalized does not move
			case 1:
				fin = tip + uint64(rng.Intn(3)) // at / above the tip seen by the loop
			default:
				if tip > lag {
					if f := tip - lag; f > fin {
						fin = f
					}
				}
			}
			ok := "1"
			if rng.Chance(8) && k < iters-1 {
				ok = "0"
			}
			inputs = append(inputs, fmt.Sprintf("%d,%d,%s", tip, fin, ok))
		}
		cs, ns := "-", "-"
		if len(chain) > 0 {
			cs = strings.Join(chain, ";")
		}
		if len(noise) > 0 {
			ns = strings.Join(noise, ";")
		}
		// transient eth_getLogs failures (retried by the loop): generic errors and request timeouts
		es := "-"
		if rng.Chance(40) {
			var errs []string
			for k := 0; k < iters; k++ {
				if rng.Chance(25) {
					errs = append(errs, fmt.Sprintf("%d:%c", k, "gd"[rng.Intn(2)]))
				}
			}
			if len(errs) > 0 {
				es = strings.Join(errs, ";")
			}
		}
		// header answers that disagree with the logs once (a reorg or a lagging backend between eth_getLogs and the header
		// query: the range is fetched again), block not found, transient errors — at most 4 per run, so that the
		// give-up path after 6 consecutive mismatches (C06's subject) stays out of reach
		hs := "-"
		if rng.Chance(40) {
			var hf []string
			nh := 1 + rng.Intn(4)
			used := map[int]bool{}
			for k := 0; k < nh; k++ {
				at := rng.Intn(3 * iters)
				if used[at] || used[at-1] || used[at+1] {
					continue
				}
				used[at] = true
				hf = append(hf, fmt.Sprintf("%d:%c", at, "mmmne"[rng.Intn(5)]))
			}
			if len(hf) > 0 {
				hs = strings.Join(hf, ";")
				r.Count("branch:header-faults")
			}
		}
		line := fmt.Sprintf("run %d %d %s %d %s %s %s %s %s", start, chunk, b2s(rng.Chance(70)), tip0, cs, strings.Join(inputs, ";"), ns, es, hs)
		dlExec(r, line)
		r.Case(line)
		if i < 2 {
			r.Sample(line)
		}
	}
}

func dlReplay(r *Run, lines []string) {
	for _, l := range lines {
		dlExec(r, l)
	}
}
