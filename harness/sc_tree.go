package main

// Scenario `tree` (C01 core, C08): the real tree package (append-only and updatable trees) on a real SQLite
// file, driven op by op; reference = the deposit-contract algorithm and an independent sparse tree.

import (
	"context"
	"database/sql"
	"errors"
	"fmt"
	"os"
	"path/filepath"
	"strings"

	"github.com/agglayer/aggkit/db"
	dbtypes "github.com/agglayer/aggkit/db/types"
	"github.com/agglayer/aggkit/tree"
	treemig "github.com/agglayer/aggkit/tree/migrations"
	treetypes "github.com/agglayer/aggkit/tree/types"
	"github.com/ethereum/go-ethereum/common"
	"github.com/ethereum/go-ethereum/crypto"
	"github.com/mattn/go-sqlite3"
)

func init() { scenarios["tree"] = Scenario{Gen: treeGen, Replay: treeReplay} }

var zeroHashesRef = func() [33]common.Hash {
	var z [33]common.Hash
	for i := 1; i <= 32; i++ {
		z[i] = crypto.Keccak256Hash(z[i-1][:], z[i-1][:])
	}
	return z
}()

// reference: the deposit contract's incremental Merkle tree (DepositContractBase)
type depTree struct {
	branch [32]common.Hash
	count  uint64
}

func (d *depTree) add(leaf common.Hash) {
	node := leaf
	d.count++
	size := d.count
	for h := 0; h < 32; h++ {
		if size&1 == 1 {
			d.branch[h] = node
			return
		}
		node = crypto.Keccak256Hash(d.branch[h][:], node[:])
		size >>= 1
	}
}
func (d *depTree) root() common.Hash {
	var node common.Hash
	size := d.count
	for h := 0; h < 32; h++ {
		if size&1 == 1 {
			node = crypto.Keccak256Hash(d.branch[h][:], node[:])
		} else {
			node = crypto.Keccak256Hash(node[:], zeroHashesRef[h][:])
		}
		size >>= 1
	}
	return node
}

type treeWorld struct {
	dir    string
	sqldb  *sql.DB
	path   string
	ao     *tree.AppendOnlyTree
	upd    *tree.UpdatableTree
	tx     dbtypes.Txer
	lines  []string // ops since `new`
	// monitor state: committed leaves / roots per version (reference), pending within tx
	ref        depTree
	refBroken  bool
	poisoned   bool // a fault was injected into the open transaction: it must be rolled back
	fabRef     depTree
	refPending []common.Hash
	refSnap    depTree
	leaves     []common.Hash          // committed append-only leaves (index = position); may start at a fabricated offset
	base       uint64                 // first real index (after a fabricated pre-state)
	rootsByIdx map[uint64]common.Hash // reference root after leaf idx
	bnByIdx    map[uint64]uint64
	pendIdx    []uint64
	pendBn     []uint64
	sparse     map[uint32]common.Hash // reference for the updatable tree: current leaves
	updRoots   []updVersion
	pendUpd    []updVersion
}

type updVersion struct {
	root   common.Hash
	bn     uint64
	leaves map[uint32]common.Hash
}

func (w *treeWorld) close() {
	if w.tx != nil {
		_ = w.tx.Rollback()
		w.tx = nil
	}
	if w.sqldb != nil {
		w.sqldb.Close()
		w.sqldb = nil
	}
	if w.dir != "" {
		os.RemoveAll(w.dir)
	}
}

func errKind(err error) string {
	if err == nil {
		return "ok"
	}
	if errors.Is(err, tree.ErrInvalidIndex) {
		return "err invalidIndex"
	}
	if errors.Is(err, db.ErrNotFound) {
		return "err notFound"
	}
	var se sqlite3.Error
	if errors.As(err, &se) {
		if se.Code == sqlite3.ErrConstraint {
			return "err constraint"
		}
	}
	if strings.Contains(err.Error(), "constraint") {
		return "err constraint"
	}
	return "err other"
}

func rootObs(r treetypes.Root) string {
	return fmt.Sprintf("root %s %d %d %d", hx(r.Hash[:]), r.Index, r.BlockNum, r.BlockPosition)
}

func sparseRoot(leaves map[uint32]common.Hash) common.Hash {
	// recursive sparse Merkle root over 2^32 positions
	type kv struct {
		k uint32
		v common.Hash
	}
	var rec func(items []kv, h int) common.Hash
	rec = func(items []kv, h int) common.Hash {
		if len(items) == 0 {
			return zeroHashesRef[h]
		}
		if h == 0 {
			return items[0].v
		}
		var l, r []kv
		for _, it := range items {
			if it.k&(1<<(h-1)) == 0 {
				l = append(l, it)
			} else {
				r = append(r, it)
			}
		}
		a, b := rec(l, h-1), rec(r, h-1)
		return crypto.Keccak256Hash(a[:], b[:])
	}
	var items []kv
	for k, v := range leaves {
		items = append(items, kv{k, v})
	}
	return rec(items, 32)
}

func (w *treeWorld) exec(r *Run, line string) {
	ws := strings.Fields(line)
	r.Count("op:" + ws[0])
	if ws[0] != "new" {
		w.lines = append(w.lines, line)
	}
	cp := func() []string { return append([]string{"new"}, w.lines...) }
	switch ws[0] {
	case "new":
		w.close()
		*w = treeWorld{}
		w.lines = nil
		dir, err := os.MkdirTemp(r.OutDir, "treedb")
		must(err)
		w.dir = dir
		w.path = filepath.Join(dir, "t.sqlite")
		must(treemig.RunMigrations(w.path))
		w.sqldb, err = db.NewSQLiteDB(w.path)
		must(err)
		w.ao = tree.NewAppendOnlyTree(w.sqldb, "")
		w.upd = tree.NewUpdatableTree(w.sqldb, "")
		w.rootsByIdx, w.bnByIdx, w.sparse = map[uint64]common.Hash{}, map[uint64]uint64{}, map[uint32]common.Hash{}
		r.Emit(line, "ok")
	case "par":
		// `par <k> <n>`: k independent trees (own database each) are filled concurrently, as the node's syncers do; every
		// tree must end with the contract root of its own leaves and serve verifying proofs (no shared state between trees)
		k, n := int(bigOf(ws[1]).Uint64()), int(bigOf(ws[2]).Uint64())
		type res struct{ bad string }
		out := make(chan res, k)
		for t := 0; t < k; t++ {
			go func(t int) {
				dir, err := os.MkdirTemp(r.OutDir, "partree")
				must(err)
				defer os.RemoveAll(dir)
				path := filepath.Join(dir, "t.sqlite")
				must(treemig.RunMigrations(path))
				sq, err := db.NewSQLiteDB(path)
				must(err)
				defer sq.Close()
				ao := tree.NewAppendOnlyTree(sq, "")
				var ref depTree
				var leaves []common.Hash
				for i := 0; i < n; i++ {
					leaf := crypto.Keccak256Hash([]byte{byte(t), byte(i), byte(i >> 8), 0x77})
					tx, err := db.NewTx(context.Background(), sq)
					must(err)
					if err := ao.AddLeaf(tx, uint64(i+1), 0, treetypes.Leaf{Index: uint32(i), Hash: leaf}); err != nil {
						tx.Rollback()
						out <- res{fmt.Sprintf("tree %d: AddLeaf(%d) failed: %v", t, i, err)}
						return
					}
					must(tx.Commit())
					ref.add(leaf)
					leaves = append(leaves, leaf)
				}
				last, err := ao.GetLastRoot(nil)
				if err != nil || last.Hash != ref.root() {
					out <- res{fmt.Sprintf("tree %d: last root %s (err=%v), the contract algorithm over its own %d leaves gives %s", t, last.Hash.Hex(), err, n, ref.root().Hex())}
					return
				}
				for _, i := range []int{0, n / 2, n - 1} {
					proof, err := ao.GetProof(context.Background(), uint32(i), last.Hash)
					if err != nil || refCalcRoot(leaves[i], proof[:], uint32(i)) != last.Hash {
						out <- res{fmt.Sprintf("tree %d: the proof served for position %d does not verify against its last root (err=%v)", t, i, err)}
						return
					}
				}
				out <- res{}
			}(t)
		}
		obs := "par ok"
		for t := 0; t < k; t++ {
			if x := <-out; x.bad != "" {
				obs = "par bad"
				r.Fail("[C01,C08] trees filled concurrently: "+x.bad, []string{"new", line})
			}
		}
		r.Evals += k * n
		r.Emit(line, obs)
	case "begin":
		if w.tx != nil {
			r.Emit(line, "bad-op")
			return
		}
		tx, err := db.NewTx(context.Background(), w.sqldb)
		must(err)
		w.tx = tx
		w.refSnap = w.ref
		w.pendIdx, w.pendBn, w.refPending, w.pendUpd = nil, nil, nil, nil
		r.Emit(line, "ok")
	case "commit":
		if w.tx == nil {
			r.Emit(line, "bad-op")
			return
		}
		if w.poisoned {
			r.Emit(line, "bad-op")
			return
		}
		err := w.tx.Commit()
		w.tx = nil
		r.Emit(line, errKind(err))
		for i, idx := range w.pendIdx {
			w.bnByIdx[idx] = w.pendBn[i]
		}
		w.leaves = append(w.leaves, w.refPending...)
		w.updRoots = append(w.updRoots, w.pendUpd...)
	case "rollback":
		if w.tx == nil {
			r.Emit(line, "bad-op")
			return
		}
		err := w.tx.Rollback()
		w.tx = nil
		w.poisoned = false
		r.Emit(line, errKind(err))
		w.ref = w.refSnap
		for _, idx := range w.pendIdx {
			delete(w.rootsByIdx, idx)
		}
		if len(w.pendUpd) > 0 {
			// restore sparse reference to the last committed version
			w.sparse = map[uint32]common.Hash{}
			if len(w.updRoots) > 0 {
				for k, v := range w.updRoots[len(w.updRoots)-1].leaves {
					w.sparse[k] = v
				}
			}
		}
	case "restart":
		if w.tx != nil {
			r.Emit(line, "bad-op")
			return
		}
		w.sqldb.Close()
		var err error
		w.sqldb, err = db.NewSQLiteDB(w.path)
		must(err)
		w.ao = tree.NewAppendOnlyTree(w.sqldb, "")
		w.upd = tree.NewUpdatableTree(w.sqldb, "")
		r.Emit(line, "ok")
	case "reorg":
		if w.tx == nil {
			r.Emit(line, "bad-op")
			return
		}
		b := bigOf(ws[1]).Uint64()
		err := w.ao.Reorg(w.tx, b)
		r.Emit(line, errKind(err))
		// reference: drop versions of blocks >= b (generator only reorgs in its own transaction)
		keep := uint64(0)
		for idx := w.base; idx < w.base+uint64(len(w.leaves)); idx++ {
			if w.bnByIdx[idx] < b {
				keep = idx - w.base + 1
			}
		}
		for idx := w.base + keep; idx < w.base+uint64(len(w.leaves)); idx++ {
			delete(w.rootsByIdx, idx)
			delete(w.bnByIdx, idx)
		}
		if keep < uint64(len(w.leaves)) {
			if w.base > 0 && keep == 0 && w.bnByIdx[w.base-1] >= b {
				r.Notes = append(r.Notes, "reorg removed a fabricated pre-state; reference disabled for this world")
			}
			w.leaves = w.leaves[:keep]
			// rebuild reference frontier
			w.ref = w.fabRef
			for _, l := range w.leaves {
				w.ref.add(l)
			}
			w.refSnap = w.ref
		}
		var nu []updVersion
		for _, v := range w.updRoots {
			if v.bn < b {
				nu = append(nu, v)
			}
		}
		if len(nu) != len(w.updRoots) {
			w.updRoots = nu
			w.sparse = map[uint32]common.Hash{}
			if len(nu) > 0 {
				for k, v := range nu[len(nu)-1].leaves {
					w.sparse[k] = v
				}
			}
		}
	case "add":
		if w.tx == nil {
			r.Emit(line, "bad-op")
			return
		}
		bn, bp, idx := bigOf(ws[1]).Uint64(), bigOf(ws[2]).Uint64(), bigOf(ws[3]).Uint64()
		leaf := common.BytesToHash(unhx(ws[4]))
		err := w.ao.AddLeaf(w.tx, bn, bp, treetypes.Leaf{Index: uint32(idx), Hash: leaf})
		r.Emit(line, errKind(err))
		if err != nil && idx == w.ref.count && !w.refBroken && leaf != (common.Hash{}) { // an all-zero leaf leaves the root unchanged (PK on root.hash); real leaves are Keccak outputs
			// monitor C01: the next consecutive deposit of a well-formed sequence must be accepted (no fault is
			// injected by a plain `add`); a node that refuses it never reports the root for this deposit count
			r.Fail(fmt.Sprintf("[C01] the next consecutive deposit (count %d) was refused with `%v`: the node reports no exit root for it", idx, err), cp())
		}
		if err == nil {
			w.ref.add(leaf)
			w.refPending = append(w.refPending, leaf)
			w.rootsByIdx[idx] = w.ref.root()
			w.pendIdx = append(w.pendIdx, idx)
			w.pendBn = append(w.pendBn, bn)
			if idx+1 != w.ref.count {
				// accepted out-of-sequence index: only possible through the stale in-memory index right after a
				// shrinking reorg (see C01_gap_rejected_partial); outside every property's quantifier — the world's
				// reference is no longer meaningful, so its monitors are switched off from here on
				r.Count("branch:stale-index-accepted")
				w.refBroken = true
			}
		}
	case "addF", "upsertF":
		// AddLeaf / UpsertLeaf with the k-th storage statement failing; the generator rolls back afterwards
		if w.tx == nil {
			r.Emit(line, "bad-op")
			return
		}
		k := int(bigOf(ws[1]).Uint64())
		bn, bp, idx := bigOf(ws[2]).Uint64(), bigOf(ws[3]).Uint64(), bigOf(ws[4]).Uint64()
		leaf := common.BytesToHash(unhx(ws[5]))
		ft := &faultTx{Txer: w.tx, failAt: k}
		if ws[0] == "addF" {
			err := w.ao.AddLeaf(ft, bn, bp, treetypes.Leaf{Index: uint32(idx), Hash: leaf})
			if ft.hit {
				if err == nil {
					r.Emit(line, "ok")
					r.Fail(fmt.Sprintf("[C07] AddLeaf swallowed a storage error at statement %d", k), cp())
					// what the tree now reports for this deposit count against the contract's algorithm
					refc := w.ref // a copy (value type)
					refc.add(leaf)
					if root, e := w.ao.GetLastRoot(w.tx); e == nil && root.Hash != refc.root() {
						r.Fail(fmt.Sprintf("[C01] after a storage error that AddLeaf did not report (statement %d) the tree records root %s for leaf %d, the contract's root is %s", k, root.Hash.Hex(), idx, refc.root().Hex()), cp())
					}
				} else {
					r.Emit(line, "err fault")
				}
				w.poisoned = true
			} else {
				r.Emit(line, errKind(err))
				if err == nil {
					w.ref.add(leaf)
					w.refPending = append(w.refPending, leaf)
					w.rootsByIdx[idx] = w.ref.root()
					w.pendIdx = append(w.pendIdx, idx)
					w.pendBn = append(w.pendBn, bn)
				}
			}
		} else {
			root, err := w.upd.UpsertLeaf(ft, bn, bp, treetypes.Leaf{Index: uint32(idx), Hash: leaf})
			if ft.hit {
				if err == nil {
					r.Emit(line, "root "+hx(root[:]))
					r.Fail(fmt.Sprintf("[C07,C08,C11] UpsertLeaf swallowed a storage error at statement %d and recorded root %s", k, root.Hex()), cp())
				} else {
					r.Emit(line, "err fault")
				}
				w.poisoned = true
			} else if err != nil {
				r.Emit(line, errKind(err))
			} else {
				r.Emit(line, "root "+hx(root[:]))
				w.sparse[uint32(idx)] = leaf
				cpLeaves := map[uint32]common.Hash{}
				for k, v := range w.sparse {
					cpLeaves[k] = v
				}
				w.pendUpd = append(w.pendUpd, updVersion{root: root, bn: bn, leaves: cpLeaves})
			}
		}
	case "upsert":
		if w.tx == nil {
			r.Emit(line, "bad-op")
			return
		}
		bn, bp, idx := bigOf(ws[1]).Uint64(), bigOf(ws[2]).Uint64(), bigOf(ws[3]).Uint64()
		leaf := common.BytesToHash(unhx(ws[4]))
		root, err := w.upd.UpsertLeaf(w.tx, bn, bp, treetypes.Leaf{Index: uint32(idx), Hash: leaf})
		if err != nil {
			r.Emit(line, errKind(err))
			return
		}
		r.Emit(line, "root "+hx(root[:]))
		w.sparse[uint32(idx)] = leaf
		cpLeaves := map[uint32]common.Hash{}
		for k, v := range w.sparse {
			cpLeaves[k] = v
		}
		want := sparseRoot(w.sparse)
		if want != root {
			r.Fail(fmt.Sprintf("[C08,C11] UpsertLeaf root %s differs from the reference sparse root %s after writing position %d", root.Hex(), want.Hex(), idx), cp())
		}
		w.pendUpd = append(w.pendUpd, updVersion{root: root, bn: bn, leaves: cpLeaves})
	case "fab":
		// fabricated pre-state: root row + path nodes for index idx built from given left siblings
		if w.tx != nil {
			r.Emit(line, "bad-op")
			return
		}
		bn, bp, idx := bigOf(ws[1]).Uint64(), bigOf(ws[2]).Uint64(), bigOf(ws[3]).Uint64()
		leaf := common.BytesToHash(unhx(ws[4]))
		seed := common.BytesToHash(unhx(ws[5]))
		cur := leaf
		type nd struct{ h, l, rr common.Hash }
		var nodes []nd
		var fr depTree
		fr.count = idx + 1
		for h := 0; h < 32; h++ {
			var l, rr common.Hash
			if idx&(1<<uint(h)) != 0 {
				l = crypto.Keccak256Hash(seed[:], []byte{byte(h)})
				rr = cur
			} else {
				l = cur
				rr = zeroHashesRef[h]
			}
			p := crypto.Keccak256Hash(l[:], rr[:])
			nodes = append(nodes, nd{p, l, rr})
			cur = p
		}
		// contract-style branch for count = idx+1: for set bits of count the completed left subtree
		{
			node := leaf
			size := idx + 1
			for h := 0; h < 32; h++ {
				if size&1 == 1 {
					fr.branch[h] = node
					break
				}
				l := crypto.Keccak256Hash(seed[:], []byte{byte(h)})
				node = crypto.Keccak256Hash(l[:], node[:])
				size >>= 1
			}
			for h := 0; h < 32; h++ {
				if (idx+1)&(1<<uint(h)) != 0 && fr.branch[h] == (common.Hash{}) {
					fr.branch[h] = crypto.Keccak256Hash(seed[:], []byte{byte(h)})
				}
			}
		}
		_, err := w.sqldb.Exec(`INSERT INTO root (hash, position, block_num, block_position) VALUES ($1,$2,$3,$4)`, cur.Hex(), idx, bn, bp)
		must(err)
		for _, n := range nodes {
			_, err := w.sqldb.Exec(`INSERT OR IGNORE INTO rht (hash, left, right) VALUES ($1,$2,$3)`, n.h.Hex(), n.l.Hex(), n.rr.Hex())
			must(err)
		}
		w.ref, w.fabRef, w.refSnap = fr, fr, fr
		w.base = idx + 1
		w.leaves = nil
		w.rootsByIdx[idx] = cur
		w.bnByIdx[idx] = bn
		if fr.root() != cur {
			r.Fail("harness bug: fabricated contract state does not reproduce the fabricated root", cp())
		}
		r.Emit(line, "root "+hx(cur[:]))
	case "q":
		if w.tx != nil {
			r.Emit(line, "bad-op")
			return
		}
		switch ws[1] {
		case "lastroot":
			rt, err := w.ao.GetLastRoot(nil)
			if err != nil {
				r.Emit(line, strings.Replace(errKind(err), "err notFound", "notfound", 1))
			} else {
				r.Emit(line, rootObs(rt))
			}
		case "rootidx!":
			// the root table cannot be read while the lookup runs (renamed away): an error has to come back, never a root
			i := bigOf(ws[2]).Uint64()
			_, e1 := w.sqldb.Exec(`ALTER TABLE root RENAME TO root_verif_away`)
			must(e1)
			rt, err := w.ao.GetRootByIndex(context.Background(), uint32(i))
			_, e2 := w.sqldb.Exec(`ALTER TABLE root_verif_away RENAME TO root`)
			must(e2)
			r.Emit(line, "err fault")
			if err == nil {
				r.Fail(fmt.Sprintf("[C08,C01] GetRootByIndex(%d) answered root %s (index %d) without an error while the root table could not be read: a root that was never recorded is served", i, rt.Hash.Hex(), rt.Index), cp())
			}
			r.Count("q:rootidx-under-read-fault")
		case "rootidx":
			i := bigOf(ws[2]).Uint64()
			rt, err := w.ao.GetRootByIndex(context.Background(), uint32(i))
			if err != nil {
				r.Emit(line, strings.Replace(errKind(err), "err notFound", "notfound", 1))
			} else {
				r.Emit(line, rootObs(rt))
			}
			// monitor C01: node root == contract-algorithm root at every deposit
			want, ok := w.rootsByIdx[i]
			if w.refBroken {
				return
			}
			if ok && (err != nil || rt.Hash != want) {
				r.Fail(fmt.Sprintf("[C01,C07] exit root for deposit count %d is %v (err=%v), the contract algorithm gives %s", i, rt.Hash.Hex(), err, want.Hex()), cp())
			}
			if !ok && err == nil && !w.updUsed() {
				r.Fail(fmt.Sprintf("[C01,C04] a root is served for deposit count %d which no surviving block contains", i), cp())
			}
		case "roothash":
			h := common.BytesToHash(unhx(ws[2]))
			rt, err := w.ao.GetRootByHash(context.Background(), h)
			if err != nil {
				r.Emit(line, strings.Replace(errKind(err), "err notFound", "notfound", 1))
			} else {
				r.Emit(line, rootObs(*rt))
			}
		case "proof", "calc":
			i := bigOf(ws[2]).Uint64()
			root := common.BytesToHash(unhx(ws[3]))
			p, err := w.ao.GetProof(context.Background(), uint32(i), root)
			if err != nil {
				r.Emit(line, errKind(err))
				return
			}
			if ws[1] == "proof" {
				var cat []byte
				for _, s := range p {
					cat = append(cat, s[:]...)
				}
				r.Emit(line, "proof "+hx(crypto.Keccak256(cat)))
			} else {
				leaf := common.BytesToHash(unhx(ws[4]))
				c := tree.CalculateRoot(leaf, p, uint32(i))
				r.Emit(line, "calc "+hx(c[:]))
			}
		case "leaf":
			i := bigOf(ws[2]).Uint64()
			root := common.BytesToHash(unhx(ws[3]))
			l, err := w.ao.GetLeaf(w.sqldb, uint32(i), root)
			if err != nil {
				r.Emit(line, errKind(err))
			} else {
				r.Emit(line, "leaf "+hx(l[:]))
			}
		case "verify":
			// C08 monitor op (no model output beyond the calc): proof for (root, i) must hash leaf to root
			i := bigOf(ws[2]).Uint64()
			root := common.BytesToHash(unhx(ws[3]))
			wantLeaf := common.BytesToHash(unhx(ws[4]))
			p, err := w.ao.GetProof(context.Background(), uint32(i), root)
			l, err2 := w.ao.GetLeaf(w.sqldb, uint32(i), root)
			if err != nil || err2 != nil {
				r.Emit(line, "verify err")
				if w.refBroken {
					return
				}
				r.Fail(fmt.Sprintf("[C08,C07] proof/leaf lookup failed for covered position %d under root %s: %v %v", i, root.Hex(), err, err2), cp())
				return
			}
			c := tree.CalculateRoot(l, p, uint32(i))
			r.Emit(line, fmt.Sprintf("verify %s %s", hx(l[:]), hx(c[:])))
			if w.refBroken {
				return
			}
			if c != root {
				r.Fail(fmt.Sprintf("[C08,C07] proof for position %d does not verify against the root %s it was asked for (got %s)", i, root.Hex(), c.Hex()), cp())
			}
			if l != wantLeaf {
				r.Fail(fmt.Sprintf("[C08,C07] leaf reported for position %d under root %s is %s, last written value as of that root is %s", i, root.Hex(), l.Hex(), wantLeaf.Hex()), cp())
			}
		default:
			r.Emit(line, "bad-op")
		}
	default:
		r.Emit(line, "bad-op")
	}
	r.Evals++
}

func (w *treeWorld) updUsed() bool { return len(w.updRoots) > 0 || len(w.pendUpd) > 0 }

func treeReplay(r *Run, lines []string) {
	w := &treeWorld{}
	defer w.close()
	for _, l := range lines {
		w.exec(r, l)
	}
}
