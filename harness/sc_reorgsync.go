package main

// Scenario `reorgsync` (C06): the real ReorgDetector (SQLite tracked blocks, one detection pass per op through the verif
// hook) and two real EVMDrivers (their own goroutines, the real select loop, real handleNewBlock / handleReorg) over two
// real bridge processors, fed by a scripted downloader that hands out the block the chain has at that moment, against a
// scripted chain client: new blocks, reorgs above the finalized block, finality, subscribers progressing at different
// speeds, detection at arbitrary moments, restarts at arbitrary moments.

import (
	"context"
	"database/sql"
	"fmt"
	"math/big"
	"os"
	"path/filepath"
	"sort"
	"strings"
	gosync "sync"
	"time"

	"github.com/agglayer/aggkit/bridgesync"
	cfgtypes "github.com/agglayer/aggkit/config/types"
	dbtypes "github.com/agglayer/aggkit/db/types"
	"github.com/agglayer/aggkit/reorgdetector"
	"github.com/agglayer/aggkit/sync"
	aggkittypes "github.com/agglayer/aggkit/types"
	"github.com/ethereum/go-ethereum/common"
	ethtypes "github.com/ethereum/go-ethereum/core/types"
)

func init() { scenarios["reorgsync"] = Scenario{Gen: rsGen, Replay: rsReplay} }

type rsBlock struct {
	ver    int // version of this block number (1 = first ever, +1 per replacement)
	hash   common.Hash
	extras int // further events besides the marker
	quiet  bool // no events at all: the downloader does not deliver this block, so it is neither stored nor tracked
}

type rsChain struct {
	mu     gosync.Mutex
	blocks []rsBlock // blocks[i] = block number i+1
	fin    uint64
	nextV  map[uint64]int
}

func rsHeader(n uint64, ver int) *ethtypes.Header {
	return &ethtypes.Header{Number: new(big.Int).SetUint64(n), Extra: []byte(fmt.Sprintf("verif-%d", ver))}
}

type rsClient struct {
	aggkittypes.BaseEthereumClienter
	c *rsChain
}

func (c rsClient) HeaderByNumber(ctx context.Context, n *big.Int) (*ethtypes.Header, error) {
	c.c.mu.Lock()
	defer c.c.mu.Unlock()
	num := c.c.fin
	if n.Sign() >= 0 {
		num = n.Uint64()
	}
	if num == 0 {
		return rsHeader(0, 0), nil
	}
	if num > uint64(len(c.c.blocks)) {
		return nil, fmt.Errorf("verif: block %d not found", num)
	}
	return rsHeader(num, c.c.blocks[num-1].ver), nil
}

// scripted downloader: delivers block `cursor` of the chain as it is at that moment, one block per permit
type rsRun struct {
	permits chan chan bool // the harness sends a reply channel; the run answers whether it delivered a block
	from    uint64         // the block this run was asked to start from
}
type rsDownloader struct {
	mu    gosync.Mutex
	c     *rsChain
	cur   *rsRun
	gen   int
	evsOf func(n uint64, b rsBlock) []interface{}
}

func (d *rsDownloader) RuntimeData(ctx context.Context) (sync.RuntimeData, error) {
	return sync.RuntimeData{ChainID: 1, Addresses: []common.Address{common.HexToAddress("0xb1d6e")}}, nil
}

func (d *rsDownloader) Download(ctx context.Context, from uint64, ch chan sync.EVMBlock) {
	run := &rsRun{permits: make(chan chan bool), from: from}
	d.mu.Lock()
	d.cur = run
	d.gen++
	d.mu.Unlock()
	cursor := from
	for {
		select {
		case <-ctx.Done():
			return
		case reply := <-run.permits:
			d.c.mu.Lock()
			next := cursor // the first block with events at or after the cursor, as the chain is now
			for next <= uint64(len(d.c.blocks)) && d.c.blocks[next-1].quiet {
				next++
			}
			if next > uint64(len(d.c.blocks)) {
				d.c.mu.Unlock()
				reply <- false
				continue
			}
			b := d.c.blocks[next-1]
			fin := next <= d.c.fin
			d.c.mu.Unlock()
			blk := sync.EVMBlock{EVMBlockHeader: sync.EVMBlockHeader{Num: next, Hash: b.hash}, IsFinalizedBlock: fin, Events: d.evsOf(next, b)}
			select {
			case ch <- blk:
				cursor = next + 1
				reply <- true
			case <-ctx.Done():
				reply <- false
				return
			}
		}
	}
}

type rsSub struct {
	id   string
	path string
	proc *bridgesync.VerifProcessor
	dl   *rsDownloader
	drv  *sync.EVMDriver
	done chan struct{}
	rw   *rsRewinds
}

type rsRewinds struct {
	afterReorg func() // called after a committed rewind, before the driver acknowledges it
	mu         gosync.Mutex
	at         []uint64
	crash      bool // the next rewind never completes (the node is stopped during it)
	dead       bool // this driver instance belongs to a stopped node
	entered    int
	failLPB    int // the next reads of the last-processed marker fail (a transiently busy database)
	failPB     int // the next ProcessBlock calls fail before touching the store (transient storage fault)
}

type rsWorld struct {
	failLPBNext int
	r      *Run
	dir    string
	lines  []string
	chain  *rsChain
	rd     *reorgdetector.ReorgDetector
	subs   []*rsSub
	cancel context.CancelFunc
	ctx    context.Context
	hashOf map[common.Hash]string // hash -> "num.ver"
}

func (w *rsWorld) fail(d string) { w.r.Fail(d, append([]string{}, w.lines...)) }

func (w *rsWorld) stop() {
	if w.cancel != nil {
		w.cancel()
		for _, s := range w.subs {
			if s.done != nil {
				s.rw.mu.Lock()
				dead := s.rw.dead
				s.rw.mu.Unlock()
				if !dead { // a driver caught in an endless handleReorg retry loop is left behind (it only ever gets errors)
					select {
					case <-s.done:
					case <-time.After(5 * time.Second):
						w.fail("[C06,C05] a syncer's driver did not stop within 5 s of its context being cancelled")
						panic(stopRun{})
					}
				}
				s.done = nil
			}
		}
		w.cancel = nil
	}
	if w.rd != nil {
		w.rd.VerifClose()
		w.rd = nil
	}
	for _, s := range w.subs {
		if s.proc != nil {
			s.proc.Close()
			s.proc = nil
		}
	}
}

func (w *rsWorld) close() {
	w.stop()
	if w.dir != "" {
		os.RemoveAll(w.dir)
		w.dir = ""
	}
}

// the events of a block: one marker claim whose tx hash is the block hash (so the store shows which version it holds),
// plus `extras` further claims
func rsEvents(n uint64, b rsBlock) []interface{} {
	var out []interface{}
	for i := 0; i <= b.extras; i++ {
		g := NewRng(uint64(b.ver)*100000 + n*100 + uint64(i))
		c := &bridgesync.Claim{BlockNum: n, BlockPos: uint64(i), TxHash: b.hash, GlobalIndex: new(big.Int).SetUint64(n*1000 + uint64(b.ver)*10 + uint64(i)),
			OriginAddress: common.BytesToAddress(g.Bytes(20)), DestinationAddress: common.BytesToAddress(g.Bytes(20)),
			Amount: big.NewInt(int64(g.Intn(1000))), GlobalExitRoot: common.BytesToHash(g.Bytes(32)), BlockTimestamp: n * 12}
		out = append(out, bridgesync.Event{Claim: c})
	}
	return out
}

// wrapper so that the driver's rewinds are observable; everything else is the real processor
type rsFull interface {
	GetLastProcessedBlock(ctx context.Context) (uint64, error)
	ProcessBlock(ctx context.Context, block sync.Block) error
	Reorg(ctx context.Context, firstReorgedBlock uint64) error
	GetCompatibilityData(ctx context.Context, tx dbtypes.Querier) (bool, sync.RuntimeData, error)
	SetCompatibilityData(ctx context.Context, tx dbtypes.Querier, data sync.RuntimeData) error
}
type rsProcWrap struct {
	rsFull
	rw *rsRewinds
}

func (p *rsProcWrap) GetLastProcessedBlock(ctx context.Context) (uint64, error) {
	p.rw.mu.Lock()
	f := p.rw.failLPB
	if f > 0 {
		p.rw.failLPB--
	}
	p.rw.mu.Unlock()
	if f > 0 {
		return 0, fmt.Errorf("verif: database is locked")
	}
	return p.rsFull.GetLastProcessedBlock(ctx)
}

func (p *rsProcWrap) ProcessBlock(ctx context.Context, b sync.Block) error {
	p.rw.mu.Lock()
	f := p.rw.failPB
	if f > 0 {
		p.rw.failPB--
	}
	p.rw.mu.Unlock()
	if f > 0 {
		return fmt.Errorf("verif: database is locked")
	}
	return p.rsFull.ProcessBlock(ctx, b)
}

func (p *rsProcWrap) Reorg(ctx context.Context, first uint64) error {
	p.rw.mu.Lock()
	crash := p.rw.crash
	dead := p.rw.dead
	if crash && !dead {
		p.rw.dead = true
		p.rw.entered++
	}
	p.rw.mu.Unlock()
	if crash || dead {
		// the node is being stopped while the rewind is in progress: it is never committed
		time.Sleep(time.Millisecond)
		return fmt.Errorf("verif: node stopped")
	}
	err := p.rsFull.Reorg(ctx, first)
	if err == nil {
		p.rw.mu.Lock()
		p.rw.at = append(p.rw.at, first)
		hook := p.rw.afterReorg
		p.rw.mu.Unlock()
		if hook != nil {
			hook()
		}
	}
	return err
}

func (w *rsWorld) start() {
	var err error
	w.rd, err = reorgdetector.New(rsClient{c: w.chain}, reorgdetector.Config{DBPath: filepath.Join(w.dir, "rd.sqlite"),
		CheckReorgsInterval: cfgtypes.NewDuration(time.Hour), FinalizedBlock: aggkittypes.FinalizedBlock}, reorgdetector.L1)
	must(err)
	ctx, cancel := context.WithCancel(context.Background())
	w.cancel = cancel
	w.ctx = ctx
	must(w.rd.Start(ctx))
	for _, s := range w.subs {
		s.proc, err = bridgesync.VerifNewProcessor(s.path, "verif-"+s.id, lg())
		must(err)
		s.dl = &rsDownloader{c: w.chain, evsOf: rsEvents}
		s.rw = &rsRewinds{failLPB: w.failLPBNext}
		drv, err := sync.NewEVMDriver(w.rd, rsWrap(s.proc, s.rw), s.dl, s.id, 1,
			&sync.RetryHandler{RetryAfterErrorPeriod: time.Millisecond, MaxRetryAttemptsAfterError: -1}, false)
		must(err)
		s.drv = drv
		done := make(chan struct{})
		s.done = done
		go func() { drv.Sync(ctx); close(done) }()
		w.waitRun(s, 0)
		w.checkResume(s, "after a (re)start")
	}
	w.failLPBNext = 0
}

// C05/C06 monitor: whenever the driver (re)starts its downloader it must resume right after the last block its store
// holds — earlier and stored blocks are handed over twice, later and a block is skipped
func (w *rsWorld) checkResume(s *rsSub, when string) {
	s.dl.mu.Lock()
	from := s.dl.cur.from
	s.dl.mu.Unlock()
	lpb, err := s.proc.GetLastProcessedBlock(context.Background())
	must(err)
	w.r.Evals++
	if from != lpb+1 {
		w.fail(fmt.Sprintf("[C05,C06] %s subscriber %s resumed downloading at block %d although its store ends at block %d", when, s.id, from, lpb))
		panic(stopRun{}) // the driver now retries a duplicate block forever
	}
}

// wait until the driver has (re)started its downloader (generation above `after`)
func (w *rsWorld) waitRun(s *rsSub, after int) {
	for i := 0; i < 50000; i++ {
		s.dl.mu.Lock()
		g := s.dl.gen
		s.dl.mu.Unlock()
		if g > after {
			return
		}
		time.Sleep(100 * time.Microsecond)
	}
	w.fail(fmt.Sprintf("[C06,C05] subscriber %s's driver did not (re)start its downloader within 5 s (after a start or an acknowledged rewind)", s.id))
	panic(stopRun{})
}

func (w *rsWorld) name(h common.Hash) string {
	if s, ok := w.hashOf[h]; ok {
		return s
	}
	return "?" + hx(h[:3])
}

func (w *rsWorld) stored(s *rsSub) []string {
	rows, err := s.proc.DB().Query("SELECT block_num, tx_hash FROM claim WHERE block_pos = 0 ORDER BY block_num")
	must(err)
	defer rows.Close()
	var out []string
	for rows.Next() {
		var n uint64
		var h string
		must(rows.Scan(&n, &h))
		out = append(out, w.name(common.HexToHash(h)))
	}
	return out
}

func (w *rsWorld) tracked(s *rsSub) []string {
	t := w.rd.VerifTracked(s.id)
	var nums []uint64
	for n := range t {
		nums = append(nums, n)
	}
	sort.Slice(nums, func(i, j int) bool { return nums[i] < nums[j] })
	var out []string
	for _, n := range nums {
		out = append(out, w.name(common.Hash(t[n])))
	}
	return out
}

// the rows of table tracked_block of a subscriber, by number (then hash: duplicates of a number would show)
func (w *rsWorld) trackedRows(s *rsSub) []string {
	ctl, err := openCtl(filepath.Join(w.dir, "rd.sqlite"))
	must(err)
	defer ctl.Close()
	rows, err := ctl.Query("SELECT hash FROM tracked_block WHERE subscriber_id = $1 ORDER BY num, hash", s.id)
	must(err)
	defer rows.Close()
	var out []string
	for rows.Next() {
		var h string
		must(rows.Scan(&h))
		out = append(out, w.name(common.HexToHash(h)))
	}
	return out
}

func lst(xs []string) string {
	if len(xs) == 0 {
		return "-"
	}
	return strings.Join(xs, ",")
}

func (w *rsWorld) sub(id string) *rsSub {
	for _, s := range w.subs {
		if s.id == id {
			return s
		}
	}
	panic("no subscriber " + id)
}

func (w *rsWorld) canonical(n uint64) string {
	if n == 0 || n > uint64(len(w.chain.blocks)) {
		return ""
	}
	return fmt.Sprintf("%d.%d", n, w.chain.blocks[n-1].ver)
}

func (w *rsWorld) exec(line string) string {
	w.lines = append(w.lines, line)
	ws := strings.Fields(line)
	u := func(s string) uint64 { return bigOf(s).Uint64() }
	switch ws[0] {
	case "new":
		w.close()
		*w = rsWorld{r: w.r}
		dir, err := os.MkdirTemp(w.r.OutDir, "rsdb")
		must(err)
		w.dir = dir
		w.lines = []string{line}
		w.chain = &rsChain{nextV: map[uint64]int{}}
		w.hashOf = map[common.Hash]string{}
		for _, id := range []string{"A", "B"} {
			w.subs = append(w.subs, &rsSub{id: id, path: filepath.Join(dir, id+".sqlite")})
		}
		w.start()
		return "ok"
	case "blk": // blk <extras>|q: the chain grows by one block (q: a block without events)
		w.chain.mu.Lock()
		n := uint64(len(w.chain.blocks) + 1)
		w.chain.nextV[n]++
		v := w.chain.nextV[n]
		b := rsBlock{ver: v, hash: rsHeader(n, v).Hash()}
		if ws[1] == "q" {
			b.quiet = true
		} else {
			b.extras = int(u(ws[1]))
		}
		w.chain.blocks = append(w.chain.blocks, b)
		w.hashOf[b.hash] = fmt.Sprintf("%d.%d", n, v)
		w.chain.mu.Unlock()
		return "ok"
	case "reorg": // reorg <k>: blocks k.. are dropped from the chain (k above the finalized block)
		k := u(ws[1])
		w.chain.mu.Lock()
		w.chain.blocks = w.chain.blocks[:k-1]
		w.chain.mu.Unlock()
		return "ok"
	case "fin":
		w.chain.mu.Lock()
		w.chain.fin = u(ws[1])
		w.chain.mu.Unlock()
		return "ok"
	case "step", "step!": // step <sub> <n>: the subscriber's driver receives and processes up to n more blocks
		s := w.sub(ws[1])
		n := int(u(ws[2]))
		if ws[0] == "step!" {
			// the first attempt(s) at the next block fail with a transient storage error: the driver must retry, not move on
			s.rw.mu.Lock()
			s.rw.failPB = 1 + len(w.lines)%2
			s.rw.mu.Unlock()
			w.r.Count("step-with-storage-fault")
		}
		for i := 0; i < n; i++ {
			s.dl.mu.Lock()
			run := s.dl.cur
			s.dl.mu.Unlock()
			reply := make(chan bool)
			before := len(w.stored(s))
			select {
			case run.permits <- reply:
			case <-time.After(5 * time.Second):
				w.fail(fmt.Sprintf("[C06,C05] subscriber %s's downloader run is not taking blocks any more (the driver is not consuming its channel)", s.id))
				panic(stopRun{})
			}
			if !<-reply {
				break
			}
			// wait until the block is in the store
			deadline := time.Now().Add(5 * time.Second)
			for len(w.stored(s)) == before {
				if time.Now().After(deadline) {
					w.fail(fmt.Sprintf("[C05,C06,C07] a block handed to subscriber %s's driver was never stored (op `%s`): after a failed ProcessBlock the driver must retry the same block, not drop it", s.id, ws[0]))
					panic(stopRun{})
				}
				time.Sleep(100 * time.Microsecond)
			}
		}
		return fmt.Sprintf("store=%s tracked=%s", lst(w.stored(s)), lst(w.tracked(s)))
	case "detect":
		type pre struct {
			stale bool
			first uint64
			gen   int
			nRw   int
		}
		pres := map[string]pre{}
		for _, s := range w.subs {
			p := pre{}
			for _, name := range w.stored(s) {
				var n uint64
				var v int
				fmt.Sscanf(name, "%d.%d", &n, &v)
				if w.canonical(n) != name && !p.stale {
					p.stale, p.first = true, n
				}
			}
			s.dl.mu.Lock()
			p.gen = s.dl.gen
			s.dl.mu.Unlock()
			s.rw.mu.Lock()
			p.nRw = len(s.rw.at)
			s.rw.mu.Unlock()
			pres[s.id] = p
		}
		err := w.rd.VerifDetectOnce(context.Background())
		if err != nil {
			// the reorg_event table is keyed by (second, subscriber, range): re-detecting a range within the same second
			// fails once; the periodic check simply tries again at its next tick — so does the harness, one second later
			time.Sleep(time.Until(time.Now().Truncate(time.Second).Add(time.Second + 5*time.Millisecond)))
			err = w.rd.VerifDetectOnce(context.Background())
			w.r.Count("detect:retried")
		}
		out := "detect"
		if err != nil {
			out += " err"
		}
		for _, s := range w.subs {
			p := pres[s.id]
			s.rw.mu.Lock()
			rws := append([]uint64{}, s.rw.at[p.nRw:]...)
			s.rw.mu.Unlock()
			w.r.Evals++
			if len(rws) > 0 {
				w.waitRun(s, p.gen)
				w.checkResume(s, "after the rewind")
				out += fmt.Sprintf(" %s:%d", s.id, rws[0])
				w.r.Count("detect:rewind")
				if !p.stale {
					w.fail(fmt.Sprintf("[C06] subscriber %s was rewound to block %d although none of the blocks it processed had been replaced", s.id, rws[0]))
				} else if rws[0] > p.first {
					w.fail(fmt.Sprintf("[C06] subscriber %s was rewound to block %d, the first replaced block it had processed is %d", s.id, rws[0], p.first))
				}
			} else {
				out += fmt.Sprintf(" %s:-", s.id)
				if p.stale && err == nil {
					w.fail(fmt.Sprintf("[C06] subscriber %s processed block %d which the chain has replaced, a detection pass did not rewind it", s.id, p.first))
				}
			}
			// after a pass that rewound (or found nothing), nothing that the chain has replaced remains stored
			if err == nil {
				for _, name := range w.stored(s) {
					var n uint64
					var v int
					fmt.Sscanf(name, "%d.%d", &n, &v)
					if w.canonical(n) != name {
						w.fail(fmt.Sprintf("[C06] after a detection pass subscriber %s still stores block %s, the chain has %s", s.id, name, w.canonical(n)))
						break
					}
				}
			}
			out += fmt.Sprintf(" store%s=%s tracked%s=%s", s.id, lst(w.stored(s)), s.id, lst(w.tracked(s)))
		}
		return out
	case "detect!": // a detection pass during which the node is stopped while a syncer rewinds; then the node restarts
		for _, s := range w.subs {
			s.rw.mu.Lock()
			s.rw.crash = true
			s.rw.mu.Unlock()
		}
		done := make(chan struct{})
		rd := w.rd
		nodeCtx := w.ctx // the periodic check runs under the node's context, which the stop cancels
		go func() { rd.VerifDetectOnce(nodeCtx); close(done) }()
		entered := func() int {
			n := 0
			for _, s := range w.subs {
				s.rw.mu.Lock()
				n += s.rw.entered
				s.rw.mu.Unlock()
			}
			return n
		}
		// wait until the pass has finished, or every subscriber that is going to rewind is stuck in its rewind
		expected := 0
		for _, s := range w.subs {
			for _, name := range w.tracked(s) { // ascending
				var n uint64
				var v int
				fmt.Sscanf(name, "%d.%d", &n, &v)
				c := w.canonical(n)
				if c == "" {
					break // the header cannot be fetched: the pass stops there
				}
				if c != name {
					expected++
					break
				}
			}
		}
		deadline := time.Now().Add(10 * time.Second)
		for entered() < expected && time.Now().Before(deadline) {
			select {
			case <-done:
				deadline = time.Now()
			default:
				time.Sleep(200 * time.Microsecond)
			}
		}
		if expected == 0 {
			select {
			case <-done:
			case <-time.After(10 * time.Second):
				w.fail("[C06] a detection pass in which nothing had to be rewound did not finish within 10 s")
				panic(stopRun{})
			}
		} else {
			// the passes of the subscribers that do not rewind are a few deletes; let the tracked lists settle
			prev := ""
			for i := 0; i < 200; i++ {
				cur := ""
				for _, s := range w.subs {
					cur += lst(w.tracked(s)) + "|"
				}
				if cur == prev && i > 10 {
					break
				}
				prev = cur
				time.Sleep(time.Millisecond)
			}
		}
		// stop: cancel the node's context, give the detection pass a moment to react to it, then close everything
		w.cancel()
		select {
		case <-done:
		case <-time.After(50 * time.Millisecond):
		}
		w.stop()
		w.start()
		out := "crashed"
		for _, s := range w.subs {
			out += fmt.Sprintf(" store%s=%s tracked%s=%s", s.id, lst(w.stored(s)), s.id, lst(w.tracked(s)))
		}
		for _, s := range w.subs {
			out += fmt.Sprintf(" db%s=%s", s.id, lst(w.trackedRows(s)))
		}
		w.r.Count("detect-crash")
		return out
	case "race": // directed schedule for known finding F5, in a world of its own
		w.raceExperiment()
		return "race done"
	case "crashtrack": // directed schedule: stopped between tracking a block and storing it, the block replaced meanwhile
		w.crashTrackExperiment()
		return "crashtrack done"
	case "restart", "restart!":
		if ws[0] == "restart!" {
			w.failLPBNext = 1 + len(w.lines)%2 // the first read(s) of the marker fail: the driver must retry, not assume an empty store
			w.r.Count("restart-marker-read-fails")
		}
		w.stop()
		w.start()
		out := "up"
		for _, s := range w.subs {
			out += fmt.Sprintf(" store%s=%s tracked%s=%s", s.id, lst(w.stored(s)), s.id, lst(w.tracked(s)))
		}
		for _, s := range w.subs {
			out += fmt.Sprintf(" db%s=%s", s.id, lst(w.trackedRows(s)))
		}
		w.r.Count("restart")
		return out
	case "end": // the chain has stopped changing: detection and syncing until nothing moves, then compare with the chain
		for round := 0; round < 4; round++ {
			w.exec("detect")
			for _, s := range w.subs {
				w.exec(fmt.Sprintf("step %s %d", s.id, len(w.chain.blocks)+1))
			}
		}
		w.lines = w.lines[:len(w.lines)-4*(1+len(w.subs))]
		out := "end"
		for _, s := range w.subs {
			w.r.Evals++
			var want []string
			for n := uint64(1); n <= uint64(len(w.chain.blocks)); n++ {
				if !w.chain.blocks[n-1].quiet {
					want = append(want, w.canonical(n))
				}
			}
			got := w.stored(s)
			if lst(got) != lst(want) {
				w.fail(fmt.Sprintf("[C06] the chain stopped changing, but subscriber %s stores %s, the chain is %s", s.id, lst(got), lst(want)))
			}
			out += fmt.Sprintf(" store%s=%s", s.id, lst(got))
		}
		return out
	}
	panic("bad op " + line)
}

// F5: the detector drops the tracked range only after the driver has acknowledged the reorg. If the detector is slow at
// that point (here: its database is busy) the resumed driver re-tracks the first block of the new fork in between, and the
// detector then wipes that entry: a processed, non-finalized block is no longer tracked, so a later reorg of it goes unseen.
func (w *rsWorld) raceExperiment() {
	x := &rsWorld{r: w.r}
	defer x.close()
	dir, err := os.MkdirTemp(w.r.OutDir, "rsrace")
	must(err)
	x.dir = dir
	x.chain = &rsChain{nextV: map[uint64]int{}}
	x.hashOf = map[common.Hash]string{}
	x.subs = []*rsSub{{id: "A", path: filepath.Join(dir, "A.sqlite")}}
	x.start()
	for i := 0; i < 5; i++ {
		x.exec("blk 0")
	}
	x.exec("step A 5")
	x.exec("reorg 4")
	x.exec("blk 0")
	x.exec("blk 0")
	s := x.subs[0]
	locked := make(chan *sql.Tx, 1)
	s.rw.mu.Lock()
	s.rw.afterReorg = func() {
		ctl, err := openCtl(filepath.Join(dir, "rd.sqlite"))
		must(err)
		tx, err := ctl.Begin() // _txlock=exclusive: the detector's next write waits for this transaction
		must(err)
		locked <- tx
	}
	s.rw.mu.Unlock()
	s.dl.mu.Lock()
	gen := s.dl.gen
	s.dl.mu.Unlock()
	done := make(chan struct{})
	go func() { x.rd.VerifDetectOnce(context.Background()); close(done) }()
	var tx *sql.Tx
	select {
	case tx = <-locked:
	case <-time.After(5 * time.Second):
		panic("harness: race experiment: no rewind happened")
	}
	s.rw.mu.Lock()
	s.rw.afterReorg = nil
	s.rw.mu.Unlock()
	x.waitRun(s, gen) // the driver has acknowledged the reorg and restarted its downloader
	s.dl.mu.Lock()
	run := s.dl.cur
	s.dl.mu.Unlock()
	reply := make(chan bool)
	run.permits <- reply
	<-reply                            // block 4 of the new fork is with the driver: it tracks it (memory first) …
	time.Sleep(150 * time.Millisecond) // … while the detector still waits for its database
	must(tx.Commit())
	select {
	case <-done:
	case <-time.After(10 * time.Second):
		panic("harness: race experiment: detection pass did not finish")
	}
	deadline := time.Now().Add(5 * time.Second)
	for len(x.stored(s)) < 4 && time.Now().Before(deadline) {
		time.Sleep(time.Millisecond)
	}
	st, tr := x.stored(s), x.tracked(s)
	w.r.Evals++
	has := func(l []string, v string) bool {
		for _, e := range l {
			if e == v {
				return true
			}
		}
		return false
	}
	if has(st, "4.2") && !has(tr, "4.2") {
		w.r.Fail("[C06] F5 a block re-tracked between the driver's acknowledgement of a reorg and the detector's removal of the tracked range is wiped: block 4.2 is processed (store "+lst(st)+") but not tracked (tracked "+lst(tr)+"), a later reorg of it would go unseen",
			[]string{"race"})
	}
}

// The node is stopped after the driver has had block N tracked and before N is stored (its ProcessBlock keeps failing until
// the stop); while it is down the chain replaces N; after the restart the driver downloads the new N and handles it. The
// detector must then hold the NEW hash for N: with the old one the next pass "detects" a reorg of a block that is canonical
// and rewinds a syncer none of whose blocks was replaced.
func (w *rsWorld) crashTrackExperiment() {
	x := &rsWorld{r: w.r}
	defer x.close()
	dir, err := os.MkdirTemp(w.r.OutDir, "rscrash")
	must(err)
	x.dir = dir
	x.chain = &rsChain{nextV: map[uint64]int{}}
	x.hashOf = map[common.Hash]string{}
	x.subs = []*rsSub{{id: "A", path: filepath.Join(dir, "A.sqlite")}}
	x.start()
	for i := 0; i < 3; i++ {
		x.exec("blk 0")
	}
	x.exec("step A 2")
	s := x.subs[0]
	// block 3: tracked, then every ProcessBlock attempt fails until the node is stopped
	s.rw.mu.Lock()
	s.rw.failPB = 1 << 30
	s.rw.mu.Unlock()
	s.dl.mu.Lock()
	run := s.dl.cur
	s.dl.mu.Unlock()
	reply := make(chan bool)
	run.permits <- reply
	<-reply
	deadline := time.Now().Add(5 * time.Second)
	for len(x.tracked(s)) < 3 && time.Now().Before(deadline) {
		time.Sleep(time.Millisecond)
	}
	if len(x.tracked(s)) < 3 {
		w.r.Notes = append(w.r.Notes, "crashtrack: block 3 was not tracked before its ProcessBlock")
		return
	}
	s.rw.mu.Lock()
	s.rw.dead = true // the driver of the stopped node: its retries keep failing, it is left behind
	s.rw.mu.Unlock()
	x.stop()
	x.exec("reorg 3") // block 3 is replaced while the node is down
	x.exec("blk 0")
	x.start()
	s = x.subs[0]
	x.exec("step A 1")
	st, tr := x.stored(s), x.tracked(s)
	w.r.Evals++
	has := func(l []string, v string) bool {
		for _, e := range l {
			if e == v {
				return true
			}
		}
		return false
	}
	if has(st, "3.2") && !has(tr, "3.2") {
		w.r.Fail("[C06] stopped between tracking block 3 and storing it, block 3 replaced meanwhile: after the restart the new block 3.2 is processed (store "+lst(st)+") but the detector still holds the old hash for it (tracked "+lst(tr)+"): the next pass rewinds a syncer none of whose blocks was replaced",
			[]string{"crashtrack"})
	}
	w.r.Count("directed:crash-between-track-and-store")
}

func rsWrap(p *bridgesync.VerifProcessor, rw *rsRewinds) *rsProcWrap {
	return &rsProcWrap{rsFull: p.P, rw: rw}
}

func rsReplay(r *Run, lines []string) {
	w := &rsWorld{r: r}
	defer w.close()
	for _, l := range lines {
		r.Emit(l, w.exec(l))
	}
}

func rsGen(r *Run, rng *Rng) {
	w := &rsWorld{r: r}
	defer w.close()
	defer func() {
		r.Emit("race", w.exec("race"))
		r.Emit("crashtrack", w.exec("crashtrack"))
	}()
	nw, steps := 10, 40
	if r.Tier == "thorough" {
		nw, steps = 60, 80
	}
	do := func(l string) {
		r.Emit(l, w.exec(l))
		r.Count("op:" + strings.Fields(l)[0])
	}
	for wi := 0; wi < nw; wi++ {
		do("new")
		// two worlds in three are sparse: many blocks have no events, are not delivered and so are neither stored nor
		// tracked (the normal situation on L1) — the tracked numbers are then far apart
		quietPct := []int{0, 45, 70}[wi%3]
		blk := func(maxExtras int) string {
			if rng.Chance(quietPct) {
				r.Count("blk:without-events")
				return "blk q"
			}
			return fmt.Sprintf("blk %d", rng.Intn(maxExtras))
		}
		for i := 0; i < 3; i++ {
			do(blk(2))
		}
		maxLen := 0
		for st := 0; st < steps; st++ {
			tip := uint64(len(w.chain.blocks))
			maxLen = max(maxLen, len(w.chain.blocks))
			x := rng.Intn(100)
			switch {
			case x < 25:
				do(blk(3))
			case x < 55:
				op := "step"
				if rng.Chance(20) {
					op = "step!"
				}
				do(fmt.Sprintf("%s %s %d", op, []string{"A", "B"}[rng.Intn(2)], 1+rng.Intn(3)))
			case x < 66:
				do("detect")
			case x < 70:
				do("detect!")
			case x < 82:
				if tip > w.chain.fin {
					k := w.chain.fin + 1 + uint64(rng.Intn(int(tip-w.chain.fin)))
					do(fmt.Sprintf("reorg %d", k))
					// the new fork, usually at least as long as the old one
					n := int(tip-k) + rng.Intn(3)
					if rng.Chance(15) {
						n = rng.Intn(int(tip-k) + 1)
					}
					for j := 0; j < n; j++ {
						do(blk(3))
					}
					w.r.Case(fmt.Sprintf("reorg:%d:%d", min(int(tip-k), 4), min(n, 4)))
				}
			case x < 92:
				if tip > w.chain.fin && rng.Chance(60) {
					do(fmt.Sprintf("fin %d", w.chain.fin+uint64(1+rng.Intn(int(tip-w.chain.fin)))))
				}
			default:
				if rng.Chance(40) {
					do("restart!")
				} else {
					do("restart")
				}
			}
		}
		// let the chain grow past everything that was ever tracked (the detector cannot judge a tracked block the chain does not
		// reach yet: it waits), then require convergence
		for i := 0; i < 4 || len(w.chain.blocks) < maxLen; i++ {
			do(blk(2))
		}
		do("end")
		if wi < 2 {
			s := strings.Join(w.lines[:min(len(w.lines), 14)], " ; ")
			r.Sample(s[:min(len(s), 500)])
		}
	}
}
