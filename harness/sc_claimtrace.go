package main

// Scenario `claimtrace` (C20): the real Claim.setClaimCalldata (findCall + tryDecodeClaimCalldata + ABI decoding)
// over generated call traces served by a fake RPC client; calldata is packed with the real contract ABIs.

import (
	"encoding/json"
	"fmt"
	"math/big"
	"strings"

	"github.com/0xPolygon/cdk-contracts-tooling/contracts/fep/etrog/polygonzkevmbridge"
	"github.com/0xPolygon/cdk-contracts-tooling/contracts/pp/l2-sovereign-chain/polygonzkevmbridgev2"
	"github.com/agglayer/aggkit/bridgesync"
	"github.com/agglayer/aggkit/sync"
	"github.com/ethereum/go-ethereum/accounts/abi"
	"github.com/ethereum/go-ethereum/common"
	"github.com/ethereum/go-ethereum/crypto"
)

func init() { scenarios["claimtrace"] = Scenario{Gen: ctGen, Replay: ctReplay} }

var ctBridge = common.HexToAddress("0xB0B0B0B0B0B0B0B0B0B0B0B0B0B0B0B0B0B0B0B0")

type ctFrame struct {
	err, toBridge bool
	sender        uint64
	kind          byte
	id            uint64
	gi            *big.Int
	kids          []*ctFrame
}

func ctAddr(n uint64) common.Address { return common.BigToAddress(new(big.Int).SetUint64(0x1000 + n)) }

func (f *ctFrame) ser(sb *strings.Builder) {
	fmt.Fprintf(sb, "F%s,%s,%d,%c,%s,%d{", b2s(f.err), b2s(f.toBridge), f.sender, f.kind, f.gi.String(), f.id)
	for _, k := range f.kids {
		k.ser(sb)
	}
	sb.WriteString("}")
}

func ctParse(s string, pos *int) *ctFrame {
	// F<e>,<b>,<sender>,<kind>,<gi>,<id>{...}
	if s[*pos] != 'F' {
		panic("parse")
	}
	*pos++
	num := func() uint64 {
		var n uint64
		for *pos < len(s) && s[*pos] >= '0' && s[*pos] <= '9' {
			n = n*10 + uint64(s[*pos]-'0')
			*pos++
		}
		return n
	}
	f := &ctFrame{}
	f.err = num() == 1
	*pos++
	f.toBridge = num() == 1
	*pos++
	f.sender = num()
	*pos++
	f.kind = s[*pos]
	*pos += 2
	st := *pos
	for *pos < len(s) && s[*pos] >= '0' && s[*pos] <= '9' {
		*pos++
	}
	f.gi = bigOf(s[st:*pos])
	*pos++
	f.id = num()
	*pos++ // {
	for s[*pos] == 'F' {
		f.kids = append(f.kids, ctParse(s, pos))
	}
	*pos++ // }
	return f
}

type ctJSON struct {
	From  string   `json:"from"`
	To    string   `json:"to"`
	Error *string  `json:"error,omitempty"`
	Input string   `json:"input"`
	Calls []ctJSON `json:"calls,omitempty"`
}

func (f *ctFrame) input() []byte {
	var proof [32][32]byte
	for i := range proof {
		proof[i][0] = byte(f.id)
		proof[i][31] = byte(i)
	}
	var mer, rer [32]byte
	mer[0], rer[0] = byte(f.id), byte(f.id+1)
	meta := []byte(fmt.Sprintf("meta-%d", f.id))
	switch f.kind {
	case 'a', 'm':
		abi, err := polygonzkevmbridgev2.Polygonzkevmbridgev2MetaData.GetAbi()
		must(err)
		name := "claimAsset"
		if f.kind == 'm' {
			name = "claimMessage"
		}
		b, err := abi.Pack(name, proof, proof, f.gi, mer, rer, uint32(1), ctAddr(77), uint32(f.id), ctAddr(78), big.NewInt(5), meta)
		must(err)
		return b
	case 'A', 'M':
		abi, err := polygonzkevmbridge.PolygonzkevmbridgeMetaData.GetAbi()
		must(err)
		name := "claimAsset"
		if f.kind == 'M' {
			name = "claimMessage"
		}
		b, err := abi.Pack(name, proof, uint32(f.gi.Uint64()), mer, rer, uint32(1), ctAddr(77), uint32(f.id), ctAddr(78), big.NewInt(5), meta)
		must(err)
		return b
	case 's':
		return []byte{0xcc, 0xaa}
	default:
		return []byte{0xde, 0xad, 0xbe, 0xef, 1, 2, 3}
	}
}

func (f *ctFrame) toJSON() ctJSON {
	j := ctJSON{From: ctAddr(f.sender).Hex(), To: ctAddr(9000 + f.sender).Hex(), Input: "0x" + hx(f.input())}
	if f.toBridge {
		j.To = ctBridge.Hex()
	}
	if f.err {
		// what geth's callTracer reports for a failed frame: not only explicit reverts
		e := ctErrs[(int(f.sender)+len(f.kids))%len(ctErrs)]
		j.Error = &e
	}
	for _, k := range f.kids {
		j.Calls = append(j.Calls, k.toJSON())
	}
	return j
}

var ctErrs = []string{"execution reverted", "out of gas", "invalid opcode: INVALID", "execution reverted", "stack underflow (0 <=> 2)",
	"write protection", "invalid jump destination", "max call depth exceeded", "insufficient balance for transfer"}

// every recorded detail, field by field, against what the call `m` carried (see ctFrame.input): both proofs in full, both
// exit roots, the global exit root derived from them; the old contract generation has no rollup proof at all
func ctAllFields(c *bridgesync.Claim, m *ctFrame) bool {
	var mer, rer common.Hash
	mer[0], rer[0] = byte(m.id), byte(m.id+1)
	if c.MainnetExitRoot != mer || c.RollupExitRoot != rer || c.GlobalExitRoot != crypto.Keccak256Hash(mer[:], rer[:]) {
		return false
	}
	etrog := m.kind == 'a' || m.kind == 'm'
	for i := 0; i < 32; i++ {
		var want common.Hash
		want[0], want[31] = byte(m.id), byte(i)
		if c.ProofLocalExitRoot[i] != want {
			return false
		}
		if etrog && c.ProofRollupExitRoot[i] != want {
			return false
		}
		if !etrog && c.ProofRollupExitRoot[i] != (common.Hash{}) {
			return false
		}
	}
	return true
}

type ctClient struct{ trace []byte }

func (c *ctClient) Call(result any, method string, args ...any) error {
	return json.Unmarshal(c.trace, result)
}

// reference: live frames addressed to the bridge with the event's global index
func (f *ctFrame) liveMatches(gi *big.Int, out *[]*ctFrame, onlyClaims *bool) {
	if f.err {
		return
	}
	if f.toBridge {
		switch f.kind {
		case 'a', 'm', 'A', 'M':
			if f.gi.Cmp(gi) == 0 {
				*out = append(*out, f)
			}
		default:
			*onlyClaims = false
		}
	}
	for _, k := range f.kids {
		k.liveMatches(gi, out, onlyClaims)
	}
}

func ctExec(r *Run, line string) {
	ws := strings.Fields(line)
	r.Evals++
	if ws[0] != "trace" {
		r.Emit(line, "bad-op")
		return
	}
	gi := bigOf(ws[1])
	pos := 0
	root := ctParse(ws[2], &pos)
	tj, _ := json.Marshal(root.toJSON())
	c := &bridgesync.Claim{GlobalIndex: new(big.Int).Set(gi)}
	err := bridgesync.VerifSetClaimCalldata(c, &ctClient{trace: tj}, ctBridge, common.Hash{}, lg())
	obs := ""
	if err != nil {
		switch {
		case strings.Contains(err.Error(), "root call reverted"):
			obs = "err rootreverted"
		case strings.Contains(err.Error(), "not found"):
			obs = "err notfound"
		default:
			obs = "err decode"
		}
	} else {
		// the decoded fields identify the call: destination network carries the id, sender the frame
		sender := new(big.Int).SetBytes(c.FromAddress[:]).Uint64() - 0x1000
		obs = fmt.Sprintf("ok id=%d from=%d msg=%s", c.DestinationNetwork, sender, b2s(c.IsMessage))
	}
	r.Emit(line, obs)
	r.Count(strings.SplitN(obs, " id=", 2)[0])
	// monitor
	var matches []*ctFrame
	only := true
	root.liveMatches(gi, &matches, &only)
	if err == nil {
		okm := false
		for _, m := range matches {
			if uint32(m.id) == c.DestinationNetwork && ctAddr(m.sender) == c.FromAddress && (m.kind == 'm' || m.kind == 'M') == c.IsMessage &&
				string(c.Metadata) == fmt.Sprintf("meta-%d", m.id) && c.MainnetExitRoot[0] == byte(m.id) && c.ProofLocalExitRoot[3][0] == byte(m.id) &&
				ctAllFields(c, m) {
				okm = true
			}
		}
		if !okm {
			r.Fail(fmt.Sprintf("claim details recorded (id=%d sender=%s msg=%v) are not those of a non-reverted bridge call with global index %s", c.DestinationNetwork, c.FromAddress.Hex(), c.IsMessage, gi), []string{line})
		}
	} else if only && len(matches) > 0 && !root.err {
		r.Fail(fmt.Sprintf("a non-reverted bridge call with global index %s exists but an error was raised: %v", gi, err), []string{line})
	}
	if err == nil && len(matches) == 0 {
		r.Fail(fmt.Sprintf("no live bridge call has global index %s, yet claim details were recorded", gi), []string{line})
	}
	// the same trace behind the real log handler of the claim event (full-claims mode), called the way the downloader calls
	// it: on an error the block must be left as it was (the downloader calls the handler again on the same block), on
	// success exactly one claim with the details found above is appended
	if ctAppender == nil {
		var e error
		ctAppender, e = bridgesync.VerifBuildAppender(ctLogClient, ctBridge, true, lg())
		must(e)
		ctABI, e = polygonzkevmbridgev2.Polygonzkevmbridgev2MetaData.GetAbi()
		must(e)
	}
	l := liMkLog(ctABI, "ClaimEvent", 3, gi, uint32(1), ctAddr(77), ctAddr(78), big.NewInt(5))
	l.Address = ctBridge
	l.TxHash = common.BytesToHash(gi.Bytes())
	ctLogClient.traces[l.TxHash] = string(tj)
	blk := &sync.EVMBlock{EVMBlockHeader: sync.EVMBlockHeader{Num: 9}}
	attempts := 1
	herr := ctAppender[l.Topics[0]](blk, l)
	if herr != nil && len(blk.Events) == 0 {
		attempts++
		herr = ctAppender[l.Topics[0]](blk, l) // the downloader's retry
	}
	delete(ctLogClient.traces, l.TxHash)
	switch {
	case (herr == nil) != (err == nil):
		r.Fail(fmt.Sprintf("[C20] the claim log handler and setClaimCalldata disagree on global index %s: handler %v, direct %v", gi, herr, err), []string{line})
	case herr != nil && len(blk.Events) != 0:
		r.Fail(fmt.Sprintf("[C20] the claim log handler raised an error (%v) for global index %s and still left %d event(s) in the block after %d call(s): a claim is recorded although no call was found", herr, gi, len(blk.Events), attempts), []string{line})
	case herr == nil:
		var hc *bridgesync.Claim
		if len(blk.Events) == 1 {
			if ev, ok := blk.Events[0].(bridgesync.Event); ok {
				hc = ev.Claim
			}
		}
		if hc == nil || hc.DestinationNetwork != c.DestinationNetwork || hc.FromAddress != c.FromAddress || hc.IsMessage != c.IsMessage ||
			string(hc.Metadata) != string(c.Metadata) || hc.MainnetExitRoot != c.MainnetExitRoot || hc.ProofLocalExitRoot != c.ProofLocalExitRoot ||
			hc.GlobalIndex.Cmp(gi) != 0 {
			r.Fail(fmt.Sprintf("[C20] the claim log handler left %d event(s) for global index %s whose details are not those of the call found in the transaction", len(blk.Events), gi), []string{line})
		}
	}
	r.Count("via-log-handler")
}

var ctLogClient = &bsEthClient{traces: map[common.Hash]string{}}
var ctAppender sync.LogAppenderMap
var ctABI *abi.ABI

func ctGenTree(rng *Rng, depth, maxFan int, ids *uint64, malformed bool, gis []*big.Int) *ctFrame {
	f := &ctFrame{sender: uint64(1 + rng.Intn(200)), kind: 'x', gi: big.NewInt(0)}
	f.err = rng.Chance(22)
	if rng.Chance(45) {
		f.toBridge = true
		f.kind = []byte{'a', 'm', 'A', 'M'}[rng.Intn(4)]
		if rng.Chance(70) {
			f.kind = []byte{'a', 'm'}[rng.Intn(2)]
		}
		f.gi = gis[rng.Intn(len(gis))]
		if f.kind == 'A' || f.kind == 'M' {
			f.gi = new(big.Int).And(f.gi, big.NewInt(0xffffffff)) // the pre-Etrog call carries a uint32 index
		}
		*ids++
		f.id = *ids
		if malformed && rng.Chance(25) {
			f.kind = []byte{'x', 's'}[rng.Intn(2)]
		}
	}
	if depth > 0 {
		n := rng.Intn(maxFan + 1)
		for i := 0; i < n; i++ {
			f.kids = append(f.kids, ctGenTree(rng, depth-1, maxFan, ids, malformed, gis))
		}
	}
	return f
}

func ctGen(r *Run, rng *Rng) {
	n := 1500
	if r.Tier == "thorough" {
		n = 20000
	}
	for i := 0; i < n; i++ {
		malformed := rng.Chance(12)
		// global indexes: small, uint32 range (both generations can match), mainnet-flag values differing only above bit 63
		two64 := new(big.Int).Lsh(big.NewInt(1), 64)
		gis := []*big.Int{big.NewInt(5), big.NewInt(6), new(big.Int).SetUint64(uint64(rng.U32())), big.NewInt(1<<32 + 5),
			new(big.Int).Add(two64, big.NewInt(5)), new(big.Int).Add(two64, big.NewInt(6)), new(big.Int).Add(two64, big.NewInt(1<<32+5))}
		var ids uint64
		root := ctGenTree(rng, 1+rng.Intn(5), 1+rng.Intn(4), &ids, malformed, gis)
		if rng.Chance(85) {
			root.err = false
		}
		gi := gis[rng.Intn(len(gis))]
		if rng.Chance(75) { // mostly an index that some bridge call in the tree carries (live or not)
			var used []*big.Int
			var walk func(f *ctFrame)
			walk = func(f *ctFrame) {
				if f.toBridge && (f.kind == 'a' || f.kind == 'm' || f.kind == 'A' || f.kind == 'M') {
					used = append(used, f.gi)
				}
				for _, k := range f.kids {
					walk(k)
				}
			}
			walk(root)
			if len(used) > 0 {
				gi = used[rng.Intn(len(used))]
			}
		}
		var sb strings.Builder
		root.ser(&sb)
		line := fmt.Sprintf("trace %s %s", gi.String(), sb.String())
		if malformed {
			r.Count("malformed")
		}
		ctExec(r, line)
		r.Case(line)
		if i < 3 {
			r.Sample(line)
		}
	}
}

func ctReplay(r *Run, lines []string) {
	for _, l := range lines {
		ctExec(r, l)
	}
}
