package main

// Scenario `gersync` (C16): the real lastgersync PP downloader (real log parsing through the contract binding) feeding
// the real processor exactly as the EVM driver does (ProcessBlock per delivered block, Reorg + restart at
// lastProcessed+1), over a scripted L2 client whose tip advances by arbitrary amounts between polls.

import (
	"context"
	"database/sql"
	"errors"
	"fmt"
	"math/big"
	"os"
	"path/filepath"
	"sort"
	"strings"
	gosync "sync"
	"time"

	"github.com/agglayer/aggkit/db"
	"github.com/agglayer/aggkit/l1infotreesync"
	"github.com/agglayer/aggkit/lastgersync"
	"github.com/agglayer/aggkit/sync"
	treetypes "github.com/agglayer/aggkit/tree/types"
	aggkittypes "github.com/agglayer/aggkit/types"
	"github.com/ethereum/go-ethereum"
	"github.com/ethereum/go-ethereum/common"
	"github.com/ethereum/go-ethereum/core/types"
	"github.com/ethereum/go-ethereum/crypto"
)

func init() { scenarios["gersync"] = Scenario{Gen: gsGen, Replay: gsReplay} }

type gsEv struct {
	insert bool
	ger    uint64
	idx    uint64
}

type gsClient struct {
	aggkittypes.BaseEthereumClienter
	mu             gosync.Mutex
	tip            uint64
	polls          int
	chain          map[uint64]gsEv
	queried        [][2]uint64
	injected       map[common.Hash]bool
	injectedAtPoll map[common.Hash]bool
	hdrFault       int // > 0: the hdrFault-th header-by-number call from now answers once with a foreign block
}

var gsAddr = common.HexToAddress("0x00000000000000000000000000000000000000a1")
var gsInsertSig = crypto.Keccak256Hash([]byte("UpdateHashChainValue(bytes32,bytes32)"))
var gsRemoveSig = crypto.Keccak256Hash([]byte("UpdateRemovalHashChainValue(bytes32,bytes32)"))

func gsGER(g uint64) common.Hash { return common.BigToHash(new(big.Int).SetUint64(0x6e720000 + g)) }

func (c *gsClient) hdr(n uint64) *types.Header {
	return &types.Header{Number: new(big.Int).SetUint64(n), Time: 5000 + n, Difficulty: big.NewInt(0)}
}
func (c *gsClient) HeaderByNumber(ctx context.Context, number *big.Int) (*types.Header, error) {
	c.mu.Lock()
	defer c.mu.Unlock()
	if number != nil && number.Sign() >= 0 {
		if c.hdrFault > 0 {
			c.hdrFault--
			if c.hdrFault == 0 {
				h := c.hdr(number.Uint64())
				h.Extra = []byte("foreign") // a reorg / lagging backend between eth_getLogs and the header query
				return h, nil
			}
		}
		return c.hdr(number.Uint64()), nil
	}
	c.polls++
	return c.hdr(c.tip), nil
}
func (c *gsClient) ChainID(ctx context.Context) (*big.Int, error) { return big.NewInt(2), nil }
func (c *gsClient) FilterLogs(ctx context.Context, q ethereum.FilterQuery) ([]types.Log, error) {
	c.mu.Lock()
	defer c.mu.Unlock()
	from, to := q.FromBlock.Uint64(), q.ToBlock.Uint64()
	c.queried = append(c.queried, [2]uint64{from, to})
	var nums []uint64
	for b := range c.chain {
		if b >= from && b <= to && b <= c.tip {
			nums = append(nums, b)
		}
	}
	sort.Slice(nums, func(i, j int) bool { return nums[i] < nums[j] })
	var out []types.Log
	for _, b := range nums {
		e := c.chain[b]
		sig := gsRemoveSig
		if e.insert {
			sig = gsInsertSig
		}
		out = append(out, types.Log{Address: gsAddr, Topics: []common.Hash{sig, gsGER(e.ger), common.BigToHash(big.NewInt(int64(b)))}, BlockNumber: b, BlockHash: c.hdr(b).Hash()})
	}
	return out, nil
}

var gsMapSelector = crypto.Keccak256([]byte("globalExitRootMap(bytes32)"))[:4]

// eth_call of globalExitRootMap(ger): non-zero iff the GER is present in the L2 GER map (FEP mode)
func (c *gsClient) CallContract(ctx context.Context, msg ethereum.CallMsg, blockNumber *big.Int) ([]byte, error) {
	c.mu.Lock()
	defer c.mu.Unlock()
	out := make([]byte, 32)
	if len(msg.Data) == 36 && string(msg.Data[:4]) == string(gsMapSelector) {
		var ger common.Hash
		copy(ger[:], msg.Data[4:])
		if c.injected[ger] {
			out[31] = 0x2a
		}
	}
	return out, nil
}
func (c *gsClient) CodeAt(ctx context.Context, contract common.Address, blockNumber *big.Int) ([]byte, error) {
	return []byte{1}, nil
}

// L1 info tree querier: GER -> index as registered by the scenario
type gsQuerier struct {
	mu     gosync.Mutex
	idx    map[common.Hash]uint32
	lag    map[common.Hash]int // the node's own L1 syncer has not indexed this leaf yet: that many lookups fail first
	leaves []common.Hash       // FEP: L1 info leaves by index
	first  uint32
}

func (q *gsQuerier) GetLastL1InfoTreeRoot(ctx context.Context) (treetypes.Root, error) {
	q.mu.Lock()
	defer q.mu.Unlock()
	if len(q.leaves) == 0 {
		return treetypes.Root{}, db.ErrNotFound
	}
	return treetypes.Root{Index: uint32(len(q.leaves) - 1)}, nil
}
func (q *gsQuerier) GetInfoByIndex(ctx context.Context, index uint32) (*l1infotreesync.L1InfoTreeLeaf, error) {
	q.mu.Lock()
	defer q.mu.Unlock()
	if int(index) >= len(q.leaves) {
		return nil, db.ErrNotFound
	}
	return &l1infotreesync.L1InfoTreeLeaf{L1InfoTreeIndex: index, GlobalExitRoot: q.leaves[index]}, nil
}
func (q *gsQuerier) GetInfoByGlobalExitRoot(ger common.Hash) (*l1infotreesync.L1InfoTreeLeaf, error) {
	q.mu.Lock()
	defer q.mu.Unlock()
	if q.lag[ger] > 0 {
		q.lag[ger]--
		return nil, db.ErrNotFound
	}
	i, ok := q.idx[ger]
	if !ok {
		return nil, db.ErrNotFound
	}
	return &l1infotreesync.L1InfoTreeLeaf{L1InfoTreeIndex: i, GlobalExitRoot: ger}, nil
}

type gsWorld struct {
	dir            string
	p              *lastgersync.VerifProcessor
	cl             *gsClient
	q              *gsQuerier
	ch             chan sync.EVMBlock
	finalizedSeen  uint64 // first block the downloader handed over as finalized (it follows the latest block and knows no finality)
	cancel         context.CancelFunc
	done           chan struct{}
	lines          []string
	polled         uint64 // highest tip the downloader has been shown
	removalReorged bool
	fep            bool
	fepFrom        uint64
	reorged        bool
	dl             sync.Downloader
	ctl            *sql.DB // second connection: arms the one-shot storage fault of `poll!`
	faulted        int
}

func (w *gsWorld) stopDownloader() {
	if w.cancel != nil {
		w.cancel()
		<-w.done
		w.cancel = nil
	}
}

func (w *gsWorld) close() {
	w.stopDownloader()
	if w.p != nil {
		w.p.Close()
		w.p = nil
	}
	if w.ctl != nil {
		w.ctl.Close()
		w.ctl = nil
	}
	if w.dir != "" {
		os.RemoveAll(w.dir)
		w.dir = ""
	}
}

func (w *gsWorld) startDownloader() {
	lpb, err := w.p.GetLastProcessedBlock(context.Background())
	must(err)
	w.fepFrom = lpb + 1
	finality, _ := aggkittypes.LatestBlock.ToBlockNum()
	mode := lastgersync.PP
	if w.fep {
		mode = lastgersync.FEP
	}
	// as in the node: ONE downloader object per process; after a reorg the driver calls Download on it again
	// (only a restart of the node creates a new one)
	if w.dl == nil {
		w.dl, err = lastgersync.VerifNewDownloader(mode, w.cl, gsAddr, w.q, w.p,
			&sync.RetryHandler{RetryAfterErrorPeriod: time.Millisecond, MaxRetryAttemptsAfterError: -1}, finality, time.Millisecond)
		must(err)
	}
	d := w.dl
	ctx, cancel := context.WithCancel(context.Background())
	w.cancel = cancel
	w.ch = make(chan sync.EVMBlock, 100000)
	w.done = make(chan struct{})
	ch := w.ch
	go func() { d.Download(ctx, lpb+1, ch); close(w.done) }()
}

// let the downloader see the current tip, then act as the driver: process every delivered block in order
func (w *gsWorld) settle() string {
	w.cl.mu.Lock()
	base := w.cl.polls
	w.cl.mu.Unlock()
	deadline := time.Now().Add(10 * time.Second)
	for {
		w.cl.mu.Lock()
		p := w.cl.polls
		w.cl.mu.Unlock()
		if p >= base+3 && len(w.ch) == 0 {
			break
		}
		for len(w.ch) > 0 {
			b := <-w.ch
			if err := w.process(b); err != nil {
				return "err " + err.Error()
			}
		}
		if time.Now().After(deadline) {
			return "timeout"
		}
		time.Sleep(200 * time.Microsecond)
	}
	for len(w.ch) > 0 {
		b := <-w.ch
		if err := w.process(b); err != nil {
			return "err " + err.Error()
		}
	}
	return "ok"
}

// the driver's handling of one delivered block: a failed ProcessBlock is retried (the injected fault is one-shot)
func (w *gsWorld) process(b sync.EVMBlock) error {
	if b.IsFinalizedBlock && w.finalizedSeen == 0 {
		w.finalizedSeen = b.Num // reported by the caller (which has the run)
	}
	blk := sync.Block{Num: b.Num, Events: b.Events, Hash: b.Hash}
	err := w.p.ProcessBlock(context.Background(), blk)
	if err != nil && strings.Contains(err.Error(), "verif fault") {
		w.faulted++
		// the rolled-back transaction also undid the trigger's counter: disarm before the driver's retry
		_, e2 := w.ctl.Exec(`UPDATE verif_fault SET armed=0`)
		must(e2)
		err = w.p.ProcessBlock(context.Background(), blk)
	}
	return err
}

func (w *gsWorld) exec(r *Run, line string) string {
	ws := strings.Fields(line)
	r.Count("op:" + ws[0])
	r.Evals++
	if ws[0] != "new" {
		w.lines = append(w.lines, line)
	}
	ctx := context.Background()
	obs := "bad-op"
	switch ws[0] {
	case "new":
		w.close()
		*w = gsWorld{}
		w.lines = []string{}
		dir, err := os.MkdirTemp(r.OutDir, "gsdb")
		must(err)
		w.dir = dir
		w.p, err = lastgersync.VerifNewProcessor(filepath.Join(dir, "g.sqlite"))
		must(err)
		w.ctl, err = db.NewSQLiteDB(filepath.Join(dir, "g.sqlite"))
		must(err)
		_, err = w.ctl.Exec(`CREATE TABLE verif_fault (id INTEGER PRIMARY KEY CHECK (id=1), armed INTEGER, target INTEGER, n INTEGER);
			INSERT INTO verif_fault VALUES (1,0,0,0);`)
		must(err)
		for ti, t := range []string{"INSERT ON block", "INSERT ON imported_global_exit_root", "DELETE ON imported_global_exit_root"} {
			cond := "=1"
			if ti > 0 {
				cond = " IN (1,2)" // mode 2 counts the GER statements only (row insert / removal delete)
			}
			_, err = w.ctl.Exec(fmt.Sprintf(`CREATE TRIGGER verif_f_%d BEFORE %s WHEN (SELECT armed FROM verif_fault)`+cond+` BEGIN
				UPDATE verif_fault SET n = n + 1;
				SELECT CASE WHEN (SELECT n FROM verif_fault) - 1 = (SELECT target FROM verif_fault) THEN RAISE(FAIL,'verif fault') END; END;`, ti, t))
			must(err)
		}
		w.cl = &gsClient{chain: map[uint64]gsEv{}, injected: map[common.Hash]bool{}}
		w.q = &gsQuerier{idx: map[common.Hash]uint32{}, lag: map[common.Hash]int{}}
		w.fep = len(ws) > 1 && ws[1] == "fep"
		w.startDownloader()
		obs = "ok"
	case "l2blk":
		b := bigOf(ws[1]).Uint64()
		w.cl.mu.Lock()
		if ws[2] == "ins" {
			g, i := bigOf(ws[3]).Uint64(), bigOf(ws[4]).Uint64()
			w.cl.chain[b] = gsEv{insert: true, ger: g, idx: i}
			w.q.mu.Lock()
			w.q.idx[gsGER(g)] = uint32(i)
			if len(ws) > 5 {
				w.q.lag[gsGER(g)] = int(bigOf(strings.TrimPrefix(ws[5], "lag=")).Uint64())
			}
			w.q.mu.Unlock()
		} else {
			w.cl.chain[b] = gsEv{insert: false, ger: bigOf(ws[3]).Uint64()}
		}
		w.cl.mu.Unlock()
		obs = "ok"
	case "l1leaf":
		// FEP: the L1 info tree gets leaf ws[1] with GER ws[2] (indices are consecutive from 0)
		w.q.mu.Lock()
		w.q.leaves = append(w.q.leaves, gsGER(bigOf(ws[2]).Uint64()))
		w.q.mu.Unlock()
		obs = "ok"
	case "hdrfault":
		w.cl.mu.Lock()
		w.cl.hdrFault = int(bigOf(ws[1]).Uint64())
		w.cl.mu.Unlock()
		obs = "ok"
	case "inject":
		w.cl.mu.Lock()
		w.cl.injected[gsGER(bigOf(ws[1]).Uint64())] = true
		w.cl.mu.Unlock()
		obs = "ok"
	case "poll", "poll!":
		t := bigOf(ws[1]).Uint64()
		if ws[0] == "poll!" {
			// one storage statement of this poll's block processing fails once; the driver retries the block
			k, mode := bigOf(ws[2]).Uint64(), 1
			if k >= 1000 {
				k, mode = k-1000, 2
			}
			_, err := w.ctl.Exec(`UPDATE verif_fault SET armed=$1, target=$2, n=0`, mode, k)
			must(err)
			defer func() {
				_, err := w.ctl.Exec(`UPDATE verif_fault SET armed=0`)
				must(err)
			}()
		}
		w.cl.mu.Lock()
		w.cl.tip = t
		w.cl.mu.Unlock()
		advanced := t > w.polled
		if advanced {
			w.polled = t
		}
		// the FEP downloader acts only on a tip strictly above its position (WaitForNewBlocks(fromBlock))
		if w.fep && t > w.fepFrom {
			w.fepFrom = t
			w.cl.injectedAtPoll = map[common.Hash]bool{}
			for k, v := range w.cl.injected {
				w.cl.injectedAtPoll[k] = v
			}
		}
		obs = w.settle()
		if w.finalizedSeen != 0 {
			r.Fail(fmt.Sprintf("[C16,C06] the injected-GER downloader handed block %d over as FINALIZED although it follows the latest block and has no finalized pointer: the driver will not have the reorg detector track it, so an L2 reorg of it is never reported and a removed injection stays in the index", w.finalizedSeen),
				append([]string{"new"}, w.lines...))
			w.finalizedSeen = 0
		}
	case "reorg":
		b := bigOf(ws[1]).Uint64()
		w.reorged = true
		// as EVMDriver.handleReorg: stop the downloader, Reorg, restart at lastProcessed+1
		w.stopDownloader()
		w.cl.mu.Lock()
		for k, e := range w.cl.chain {
			if k >= b {
				if !e.insert {
					w.removalReorged = true
				}
				delete(w.cl.chain, k)
			}
		}
		if w.cl.tip >= b {
			w.cl.tip = b - 1
		}
		w.cl.mu.Unlock()
		if w.polled >= b {
			w.polled = b - 1
		}
		// FEP: what was recorded for the dropped tip blocks is gone; completeness is owed again only after the next effective poll
		w.cl.mu.Lock()
		w.cl.injectedAtPoll = map[common.Hash]bool{}
		w.cl.mu.Unlock()
		if err := w.p.Reorg(ctx, b); err != nil {
			obs = "err " + err.Error()
		} else {
			obs = "ok"
		}
		if w.fep {
			// the FEP downloader acts on ANY tip above its restart position, on its own clock: a tip left above
			// lastProcessed+1 would be picked up at some moment between this op and the next ones (a race of the harness,
			// seen once under load as a round that ran after a later `inject`). Until the next `poll` the L2 node shows
			// no block above the restart position; the round for a higher tip is the next poll's.
			lpb, err := w.p.GetLastProcessedBlock(ctx)
			must(err)
			w.cl.mu.Lock()
			if w.cl.tip > lpb+1 {
				w.cl.tip = lpb + 1
			}
			w.cl.mu.Unlock()
		}
		w.startDownloader()
	case "restart":
		w.stopDownloader()
		w.dl = nil
		w.startDownloader()
		obs = "ok"
	case "q":
		switch ws[1] {
		case "lpb":
			n, err := w.p.GetLastProcessedBlock(ctx)
			must(err)
			obs = fmt.Sprintf("lpb %d", n)
		case "first":
			x := bigOf(ws[2]).Uint64()
			g, err := w.p.GetFirstGERAfterL1InfoTreeIndex(ctx, uint32(x))
			if err != nil {
				if errors.Is(err, db.ErrNotFound) {
					obs = "notfound"
				} else {
					obs = "err other"
				}
			} else {
				obs = fmt.Sprintf("ger %d idx=%d", new(big.Int).SetBytes(g.GlobalExitRoot[:]).Uint64()-0x6e720000, g.L1InfoTreeIndex)
			}
			if w.fep {
				// FEP monitor: the answer is an injected GER with index >= x; one is found whenever an injected GER with
				// index >= x existed at the last poll
				w.q.mu.Lock()
				w.cl.mu.Lock()
				exists := false
				for i, g := range w.q.leaves {
					if uint64(i) >= x && w.cl.injectedAtPoll[g] {
						exists = true
					}
				}
				cpf := append([]string{"new fep"}, w.lines...)
				if obs == "notfound" && exists {
					r.Fail(fmt.Sprintf("[C16] FEP: query for index >= %d finds nothing although an injected GER with such an index existed at the last poll", x), cpf)
				}
				if strings.HasPrefix(obs, "ger ") {
					var g, i uint64
					fmt.Sscanf(obs, "ger %d idx=%d", &g, &i)
					if i < x || !w.cl.injected[gsGER(g)] || int(i) >= len(w.q.leaves) || w.q.leaves[i] != gsGER(g) {
						r.Fail(fmt.Sprintf("[C16] FEP: query for index >= %d returns `%s`, which is not an injected GER with that L1 info index", x, obs), cpf)
					}
				}
				w.cl.mu.Unlock()
				w.q.mu.Unlock()
				break
			}
			// ---- monitor: the property on the implementation's answer ----
			// injected (in a block up to the last tip shown to the downloader), not removed since, index >= x
			w.cl.mu.Lock()
			var nums []uint64
			for b := range w.cl.chain {
				if b <= w.polled {
					nums = append(nums, b)
				}
			}
			sort.Slice(nums, func(i, j int) bool { return nums[i] < nums[j] })
			live := map[uint64]uint64{} // ger -> idx
			for _, b := range nums {
				e := w.cl.chain[b]
				if e.insert {
					live[e.ger] = e.idx
				} else {
					delete(live, e.ger)
				}
			}
			w.cl.mu.Unlock()
			best := int64(-1)
			for _, i := range live {
				if i >= x && (best < 0 || int64(i) < best) {
					best = int64(i)
				}
			}
			cp := append([]string{"new pp"}, w.lines...)
			tag := "[C16]"
			if w.reorged {
				tag = "[C16,C04] (after a reorg in this world)"
			}
			if w.faulted > 0 {
				tag = "[C16,C07] (a storage fault was injected and the block retried earlier in this world)"
			}
			if w.removalReorged {
				tag = "[C16] F4 a GER removal that was reorged away is not undone:"
			}
			if best < 0 && obs != "notfound" {
				r.Fail(fmt.Sprintf("%s query for index >= %d returns `%s` although no injected, not-removed GER with such an index exists in the processed blocks", tag, x, obs), cp)
			}
			if best >= 0 {
				if obs == "notfound" {
					r.Fail(fmt.Sprintf("%s query for index >= %d finds nothing although a GER with index %d was injected on L2 (and not removed) in a block up to the polled tip %d", tag, x, best, w.polled), cp)
				} else if !strings.HasSuffix(obs, fmt.Sprintf("idx=%d", best)) {
					r.Fail(fmt.Sprintf("%s query for index >= %d returns `%s`, the first injected not-removed GER at or after it has index %d", tag, x, obs, best), cp)
				}
			}
		}
	}
	r.Emit(line, obs)
	return obs
}

func gsGen(r *Run, rng *Rng) {
	w := &gsWorld{}
	defer w.close()
	nw := 25
	if r.Tier == "thorough" {
		nw = 200
	}
	for i := 0; i < nw; i++ {
		if i%4 == 3 {
			gsGenFEP(r, rng, w, i)
			continue
		}
		w.exec(r, "new pp")
		tip := uint64(0)
		nextGER, nextIdx := uint64(1), uint64(rng.Intn(3))
		var live []uint64
		var past [][2]uint64 // (GER, index) pairs injected so far
		steps := 6 + rng.Intn(10)
		allowRm := i%3 != 2
		for s := 0; s < steps; s++ {
			// the chain grows by 1..12 blocks between two polls, some of them carrying a GER event
			grow := uint64(1 + rng.Intn(3))
			if rng.Chance(40) {
				grow = uint64(2 + rng.Intn(11))
			}
			if rng.Chance(6) {
				// the node was down (or the chain raced ahead): thousands of blocks between two polls, a few of them with events,
				// spread over the whole stretch (the downloader fetches logs in windows)
				grow = uint64(1000 + rng.Intn(1600))
				for _, off := range []uint64{uint64(1 + rng.Intn(900)), uint64(1001 + rng.Intn(int(grow)-1000)), grow - uint64(rng.Intn(3))} {
					w.exec(r, fmt.Sprintf("l2blk %d ins %d %d", tip+off, nextGER, nextIdx))
					live = append(live, nextGER)
					past = append(past, [2]uint64{nextGER, nextIdx})
					nextGER++
					nextIdx += 1 + uint64(rng.Intn(3))
				}
				r.Count("branch:long-gap-between-polls")
				tip += grow
				w.exec(r, fmt.Sprintf("poll %d", tip))
				grow = 0
			}
			for b := tip + 1; b <= tip+grow; b++ {
				if rng.Chance(35) {
					if allowRm && len(live) > 0 && rng.Chance(25) {
						k := rng.Intn(len(live))
						w.exec(r, fmt.Sprintf("l2blk %d rm %d", b, live[k]))
						live = append(live[:k], live[k+1:]...)
					} else {
						lag := ""
						if rng.Chance(20) {
							lag = fmt.Sprintf(" lag=%d", 1+rng.Intn(3)) // the node's own L1 syncer indexes that leaf a little later
							r.Count("branch:l1-lag")
						}
						if len(past) > 0 && rng.Chance(15) {
							// the same root is injected again (e.g. after its removal, or by a second oracle round)
							p := past[rng.Intn(len(past))]
							w.exec(r, fmt.Sprintf("l2blk %d ins %d %d", b, p[0], p[1]))
							live = append(live, p[0])
							r.Count("branch:re-injection")
						} else {
							w.exec(r, fmt.Sprintf("l2blk %d ins %d %d%s", b, nextGER, nextIdx, lag))
							live = append(live, nextGER)
							past = append(past, [2]uint64{nextGER, nextIdx})
							nextGER++
							nextIdx += 1 + uint64(rng.Intn(3))
						}
					}
				}
			}
			tip += grow
			if rng.Chance(15) {
				w.exec(r, fmt.Sprintf("hdrfault %d", 1+rng.Intn(3)))
				r.Count("branch:header-mismatch")
			}
			if rng.Chance(15) {
				// a storage fault on one of the first statements of this poll's blocks (block row / GER row / GER delete)
				f0 := w.faulted
				k := rng.Intn(4)
				if rng.Bool() {
					k = 1000 + rng.Intn(3) // one of the poll's first GER statements (insert or removal)
				}
				w.exec(r, fmt.Sprintf("poll! %d %d", tip, k))
				if w.faulted > f0 {
					r.Count("branch:storage-fault-hit")
				}
			} else {
				w.exec(r, fmt.Sprintf("poll %d", tip))
			}
			r.Case(fmt.Sprintf("gs:%d:%d:%d", i, s, tip))
			if rng.Chance(20) {
				w.exec(r, "restart")
			}
			if rng.Chance(12) && tip > 2 {
				b := tip - uint64(rng.Intn(int(min(tip-1, 6))))
				w.exec(r, fmt.Sprintf("reorg %d", b))
				tip = b - 1
				r.Count("branch:reorg")
				live = nil // recomputed lazily: only used to pick removal targets
			}
			w.exec(r, "q lpb")
			for _, x := range []uint64{0, nextIdx / 2, nextIdx - 1, nextIdx, uint64(rng.Intn(int(nextIdx) + 2))} {
				w.exec(r, fmt.Sprintf("q first %d", x))
			}
		}
		if i < 2 {
			s := strings.Join(w.lines[:min(len(w.lines), 10)], " ; ")
			r.Sample(s)
		}
	}
}

// FEP worlds: L1 leaves appear, some get injected on L2 (not necessarily in order), polls see growing tips
func gsGenFEP(r *Run, rng *Rng, w *gsWorld, i int) {
	w.exec(r, "new fep")
	tip := uint64(0)
	nLeaves := uint64(0)
	for s := 0; s < 5+rng.Intn(8); s++ {
		for k := 0; k < rng.Intn(4); k++ {
			w.exec(r, fmt.Sprintf("l1leaf %d %d", nLeaves, 100+nLeaves))
			nLeaves++
		}
		// the oracle injects only the latest GER of a round: gaps in injection are normal
		if nLeaves > 0 && rng.Chance(60) {
			w.exec(r, fmt.Sprintf("inject %d", 100+nLeaves-1-uint64(rng.Intn(int(min(nLeaves, 2))))))
		}
		tip += 1 + uint64(rng.Intn(4))
		w.exec(r, fmt.Sprintf("poll %d", tip))
		r.Case(fmt.Sprintf("gsf:%d:%d:%d", i, s, tip))
		if rng.Chance(15) {
			w.exec(r, "restart")
		}
		if rng.Chance(10) && tip > 2 {
			b := tip - uint64(rng.Intn(2))
			w.exec(r, fmt.Sprintf("reorg %d", b))
			tip = b - 1
		}
		w.exec(r, "q lpb")
		for x := uint64(0); x <= nLeaves; x++ {
			w.exec(r, fmt.Sprintf("q first %d", x))
		}
	}
}

func gsReplay(r *Run, lines []string) {
	w := &gsWorld{}
	defer w.close()
	for _, l := range lines {
		w.exec(r, l)
	}
}
