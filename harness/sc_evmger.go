package main

// Scenario `evmger` (C11, oracle = the real contracts): PolygonZkEVMGlobalExitRootV2 bytecode and the repository's
// verify-batches mock (which computes the rollup exit root in Solidity, as the rollup manager does) run in go-ethereum's
// simulated EVM. Mainnet exit-root updates and batch verifications are sent to them; every mined block's logs go through the
// L1 info tree syncer's OWN log handlers into the real processor (the V2 announcement makes the processor compare its root
// with the contract's on its own); then the contract's `getRoot()` / `getLastGlobalExitRoot()` / the mock's
// `getRollupExitRoot()` are compared with the node's answers. The op lines are those of scenario `l1infostore`, so the
// same Lean model answers them.

import (
	"context"
	"fmt"
	"math/big"
	"strings"

	"github.com/0xPolygon/cdk-contracts-tooling/contracts/pp/l2-sovereign-chain/polygonzkevmglobalexitrootv2"
	"github.com/agglayer/aggkit/l1infotreesync"
	"github.com/agglayer/aggkit/sync"
	"github.com/agglayer/aggkit/test/contracts/verifybatchesmock"
	"github.com/ethereum/go-ethereum"
	"github.com/ethereum/go-ethereum/accounts/abi/bind"
	"github.com/ethereum/go-ethereum/common"
	"github.com/ethereum/go-ethereum/core/types"
	"github.com/ethereum/go-ethereum/crypto"
	"github.com/ethereum/go-ethereum/ethclient/simulated"
)

func init() { scenarios["evmger"] = Scenario{Gen: egGen, Replay: egReplay} }

type egWorld struct {
	backend    *simulated.Backend
	cl         simulated.Client
	user       *bind.TransactOpts
	ger        *polygonzkevmglobalexitrootv2.Polygonzkevmglobalexitrootv2
	verify     *verifybatchesmock.Verifybatchesmock
	gerAddr    common.Address
	verifyAddr common.Address
	li         *liWorld
	from       uint64
	calls      []string
	seenRER    map[common.Hash]bool // rollup exit roots the mock has computed so far in this world
	ended      bool
}

func (w *egWorld) close() {
	if w.li != nil {
		w.li.close()
		w.li = nil
	}
	if w.backend != nil {
		w.backend.Close()
		w.backend = nil
	}
}

func (w *egWorld) open(r *Run) {
	w.close()
	*w = egWorld{}
	user := ebKey(3)
	bal, _ := new(big.Int).SetString("1000000000000000000000000000000", 10)
	w.backend = simulated.NewBackend(map[common.Address]types.Account{user.From: {Balance: bal}}, simulated.WithBlockGasLimit(999999999999999999))
	w.cl, w.user = w.backend.Client(), user
	ctx := context.Background()
	nonce, err := w.cl.PendingNonceAt(ctx, user.From)
	must(err)
	gerWillBe := crypto.CreateAddress(user.From, nonce+1)
	w.verifyAddr, _, w.verify, err = verifybatchesmock.DeployVerifybatchesmock(user, w.cl, gerWillBe)
	must(err)
	w.backend.Commit()
	// the rollup manager is the mock, the bridge is the user's own account (it may call updateExitRoot directly)
	w.gerAddr, _, w.ger, err = polygonzkevmglobalexitrootv2.DeployPolygonzkevmglobalexitrootv2(user, w.cl, w.verifyAddr, user.From)
	must(err)
	w.backend.Commit()
	if w.gerAddr != gerWillBe {
		panic("evmger: unexpected contract address")
	}
	w.li = &liWorld{}
	w.li.exec(r, "new")
	h, err := w.cl.HeaderByNumber(ctx, nil)
	must(err)
	w.from = h.Number.Uint64() + 1
	w.calls = []string{"new"}
}

func egToken(e l1infotreesync.Event) string {
	switch {
	case e.UpdateL1InfoTree != nil:
		x := e.UpdateL1InfoTree
		return fmt.Sprintf("i;%d;%s;%s;%s;%d", x.BlockPosition, hx(x.MainnetExitRoot[:]), hx(x.RollupExitRoot[:]), hx(x.ParentHash[:]), x.Timestamp)
	case e.UpdateL1InfoTreeV2 != nil:
		x := e.UpdateL1InfoTreeV2
		return fmt.Sprintf("v;%s;%d", hx(x.CurrentL1InfoRoot[:]), x.LeafCount)
	case e.VerifyBatches != nil:
		x := e.VerifyBatches
		return fmt.Sprintf("vb;%d;%d;%d;%s;%s;%s", x.BlockPosition, x.RollupID, x.NumBatch, hx(x.StateRoot[:]), hx(x.ExitRoot[:]), hx(x.Aggregator[:]))
	case e.InitL1InfoRootMap != nil:
		x := e.InitL1InfoRootMap
		return fmt.Sprintf("in;%d;%s", x.LeafCount, hx(x.CurrentL1InfoRoot[:]))
	}
	panic("evmger: unknown event")
}

// `mine <call>*`, call = m:<root> (the bridge reports a new mainnet exit root) | v:<rollup id>:<batch>:<exit root>:<0|1 update GER>
func (w *egWorld) exec(r *Run, line string) {
	ws := strings.Fields(line)
	r.Count("op:" + ws[0])
	ctx := context.Background()
	if ws[0] == "new" {
		w.open(r)
		w.seenRER, w.ended = map[common.Hash]bool{}, false
		return
	}
	if w.ended {
		return
	}
	w.calls = append(w.calls, line)
	cp := func() []string { return append([]string{}, w.calls...) }
	for _, c := range ws[1:] {
		f := strings.Split(c, ":")
		var err error
		if f[0] == "m" {
			_, err = w.ger.UpdateExitRoot(w.user, common.BytesToHash(unhx(f[1])))
		} else if f[2] != "" && bigOf(f[2]).Uint64()%2 == 1 {
			_, err = w.verify.VerifyBatchesTrustedAggregator(w.user, uint32(bigOf(f[1]).Uint64()), bigOf(f[2]).Uint64(), common.BytesToHash(unhx(f[3])), common.Hash{0x57}, f[4] == "1")
		} else {
			_, err = w.verify.VerifyBatches(w.user, uint32(bigOf(f[1]).Uint64()), bigOf(f[2]).Uint64(), common.BytesToHash(unhx(f[3])), common.Hash{0x57}, f[4] == "1")
		}
		if err != nil {
			r.Count("call-rejected")
		}
	}
	w.backend.Commit()
	if liAppender == nil {
		var err error
		liAppender, err = l1infotreesync.VerifBuildAppender()
		must(err)
	}
	head, err := w.cl.HeaderByNumber(ctx, nil)
	must(err)
	for bn := w.from; bn <= head.Number.Uint64(); bn++ {
		hd, err := w.cl.HeaderByNumber(ctx, new(big.Int).SetUint64(bn))
		must(err)
		logs, err := w.cl.FilterLogs(ctx, ethereum.FilterQuery{FromBlock: hd.Number, ToBlock: hd.Number, Addresses: []common.Address{w.gerAddr, w.verifyAddr}})
		must(err)
		b := &sync.EVMBlock{EVMBlockHeader: sync.EVMBlockHeader{Num: bn, Hash: hd.Hash(), ParentHash: hd.ParentHash, Timestamp: hd.Time}}
		for _, l := range logs {
			if fn, ok := liAppender[l.Topics[0]]; ok {
				must(fn(b, l))
			}
		}
		var toks []string
		for _, e := range b.Events {
			toks = append(toks, egToken(e.(l1infotreesync.Event)))
		}
		w.li.override = b.Events
		if len(b.Events) == 0 {
			w.li.override = []interface{}{}
		}
		obs := w.li.exec(r, strings.TrimSpace(fmt.Sprintf("blk %d %s", bn, strings.Join(toks, " "))))
		if obs == "err constraint" {
			// the verify mock accepts any exit root, so the rollup exit tree can return to a state it has been in before (also
			// in the middle of a block); the syncer cannot store a recurring root (root.hash is a key) and refuses the block for
			// good. A rollup's exit root is the root of an append-only tree, so no chain does that: outside C11 (DESIGN §0,
			// observations). Whether `err constraint` is the right answer for THIS block is decided by the correspondence (the
			// model answers the same op line); the world ends here
			r.Count("world-ended:rollup-exit-root-recurs")
			w.ended = true
			return
		}
		if obs != "ok" {
			r.Fail(fmt.Sprintf("[C11] block %d mined by the real GER contract / verify mock was answered with `%s` by the syncer", bn, obs), cp())
			panic(stopRun{})
		}
	}
	w.from = head.Number.Uint64() + 1
	// the contracts' own answers against the node's
	r.Evals++
	cRoot, err := w.ger.GetRoot(&bind.CallOpts{})
	must(err)
	cnt, err := w.ger.DepositCount(&bind.CallOpts{})
	must(err)
	if cnt.Sign() > 0 {
		got := w.li.exec(r, "q lastinforoot")
		if !strings.HasPrefix(got, "root "+hx(cRoot[:])+" ") {
			r.Fail(fmt.Sprintf("[C11] after %d updates the GER contract's getRoot() is %s, the node's last L1 info root is `%s`", cnt, common.Hash(cRoot).Hex(), got), cp())
		}
		// the node's last leaf carries a global exit root the contract knows (its own "last global exit root" may be newer than
		// the last leaf: an update that produces an already known root adds no leaf)
		last := w.li.exec(r, "q lastinfo")
		if i := strings.Index(last, "ger="); i >= 0 && len(last) >= i+4+64 {
			var g [32]byte
			copy(g[:], unhx(last[i+4:i+4+64]))
			ts, err := w.ger.GlobalExitRootMap(&bind.CallOpts{}, g)
			must(err)
			if ts.Sign() == 0 {
				r.Fail(fmt.Sprintf("[C11] the node's last L1 info leaf is `%s`, a global exit root the GER contract does not have", last), cp())
			}
		}
	}
	cRER, err := w.verify.GetRollupExitRoot(&bind.CallOpts{})
	must(err)
	w.seenRER[cRER] = true
	got := w.li.exec(r, "q lastrer")
	if strings.HasPrefix(got, "root ") && !strings.HasPrefix(got, "root "+hx(cRER[:])+" ") {
		r.Fail(fmt.Sprintf("[C11] the rollup manager (mock) computes the rollup exit root %s, the node's last recorded one is `%s`", common.Hash(cRER).Hex(), got), cp())
	}
	r.Case(fmt.Sprintf("mine:%d:%d", len(ws)-1, cnt.Uint64()%7))
}

func egGen(r *Run, rng *Rng) {
	w := &egWorld{}
	defer w.close()
	nw, nb := 2, 14
	if r.Tier == "thorough" {
		nw, nb = 6, 50
	}
	for i := 0; i < nw; i++ {
		w.exec(r, "new")
		pool := []common.Hash{common.BytesToHash(rng.Bytes(32)), common.BytesToHash(rng.Bytes(32)), common.BytesToHash(rng.Bytes(32))}
		for b := 0; b < nb; b++ {
			var calls []string
			for j := 0; j < 1+rng.Intn(3); j++ {
				if rng.Chance(45) {
					root := common.BytesToHash(rng.Bytes(32))
					if rng.Chance(20) {
						root = pool[rng.Intn(len(pool))] // a repeated root: the GER may have been seen already (no new leaf)
					}
					calls = append(calls, "m:"+hx(root[:]))
				} else {
					er := pool[rng.Intn(len(pool))]
					if rng.Chance(50) {
						er = common.BytesToHash(rng.Bytes(32))
					}
					calls = append(calls, fmt.Sprintf("v:%d:%d:%s:%d", 1+rng.Intn(3), rng.Intn(500), hx(er[:]), boolInt(rng.Chance(75))))
				}
			}
			w.exec(r, "mine "+strings.Join(calls, " "))
		}
		if i == 0 {
			r.Sample(strings.Join(w.calls[:min(len(w.calls), 3)], " ; "))
		}
	}
}

func egReplay(r *Run, lines []string) {
	w := &egWorld{}
	defer w.close()
	for _, l := range lines {
		if strings.HasPrefix(l, "new") || strings.HasPrefix(l, "mine") {
			w.exec(r, l)
		}
	}
}
