package main

// Scenario `bridgestore` (C01 leaf/roots, C04, C07, C14): the real bridge processor (SQLite, real transactions,
// rollback callbacks, cascade deletes) behind the real BridgeSync facade, with storage faults injected at a chosen
// write statement through SQL triggers installed from a second connection. The fault is one-shot (the trigger counts
// first and raises FAIL, which keeps the count): code that swallows the error sees the following statements succeed.

import (
	sqlite3 "github.com/mattn/go-sqlite3"
	"context"
	"database/sql"
	"encoding/json"
	"errors"
	"fmt"
	"github.com/0xPolygon/cdk-contracts-tooling/contracts/pp/l2-sovereign-chain/polygonzkevmbridgev2"
	aggkittypes "github.com/agglayer/aggkit/types"
	"github.com/ethereum/go-ethereum"
	"math/big"
	"os"
	"path/filepath"
	"reflect"
	"sort"
	"strings"
	"time"

	"github.com/agglayer/aggkit/aggsender/query"
	aggsendertypes "github.com/agglayer/aggkit/aggsender/types"
	bridgetypes "github.com/agglayer/aggkit/bridgeservice/types"
	"github.com/agglayer/aggkit/bridgesync"
	"github.com/agglayer/aggkit/db"
	"github.com/agglayer/aggkit/sync"
	"github.com/agglayer/aggkit/tree"
	"github.com/ethereum/go-ethereum/common"
	"github.com/ethereum/go-ethereum/crypto"
)

func init() { scenarios["bridgestore"] = Scenario{Gen: bsGen, Replay: bsReplay} }

type bsWorld struct {
	dir   string
	path  string
	p     *bridgesync.VerifProcessor
	f     *bridgesync.BridgeSync
	ctl   *sql.DB // second connection: fault control
	lines []string
	// reference bookkeeping (monitors)
	survivors    []string // `blk` lines (fault-free form) of the blocks that were committed and not reorged away
	survNums     []uint64
	rmLegacySeen bool
	reorgs       int
	q            aggsendertypes.BridgeQuerier
	qMismatch    string
}

var bsFaultTables = []string{"block", "bridge", "claim", "token_mapping", "legacy_token_migration", "root", "rht"}

func (w *bsWorld) close() {
	if w.p != nil {
		w.p.Close()
		w.p = nil
	}
	if w.ctl != nil {
		w.ctl.Close()
		w.ctl = nil
	}
	if w.dir != "" {
		os.RemoveAll(w.dir)
		w.dir = ""
	}
}

func (w *bsWorld) open(r *Run, fresh bool) {
	if fresh {
		dir, err := os.MkdirTemp(r.OutDir, "bsdb")
		must(err)
		w.dir = dir
		w.path = filepath.Join(dir, "b.sqlite")
	}
	p, err := bridgesync.VerifNewProcessor(w.path, "verif", lg())
	must(err)
	w.p = p
	w.f = p.Facade(0)
	w.q = query.NewBridgeDataQuerier(lg(), w.f, time.Millisecond)
	if fresh {
		w.ctl, err = db.NewSQLiteDB(w.path)
		must(err)
		_, err = w.ctl.Exec(`CREATE TABLE verif_fault (id INTEGER PRIMARY KEY CHECK (id=1), armed INTEGER, target INTEGER, n INTEGER);
			INSERT INTO verif_fault VALUES (1,0,0,0);`)
		must(err)
		for _, t := range bsFaultTables {
			_, err = w.ctl.Exec(fmt.Sprintf(`CREATE TRIGGER verif_f_%s_i BEFORE INSERT ON %s WHEN (SELECT armed FROM verif_fault)=1 BEGIN
				UPDATE verif_fault SET n = n + 1;
				SELECT CASE WHEN (SELECT n FROM verif_fault) - 1 = (SELECT target FROM verif_fault) THEN RAISE(FAIL,'verif fault') END; END;`, t, t))
			must(err)
		}
		_, err = w.ctl.Exec(`CREATE TRIGGER verif_f_root_d BEFORE DELETE ON root WHEN (SELECT armed FROM verif_fault)=2 BEGIN SELECT RAISE(ABORT,'verif fault'); END;
			CREATE TRIGGER verif_f_block_d BEFORE DELETE ON block WHEN (SELECT armed FROM verif_fault)=3 BEGIN SELECT RAISE(ABORT,'verif fault'); END;`)
		must(err)
		_, err = w.ctl.Exec(`CREATE TRIGGER verif_f_legacy_d BEFORE DELETE ON legacy_token_migration WHEN (SELECT armed FROM verif_fault)=1 BEGIN
				UPDATE verif_fault SET n = n + 1;
				SELECT CASE WHEN (SELECT n FROM verif_fault) - 1 = (SELECT target FROM verif_fault) THEN RAISE(FAIL,'verif fault') END; END;`)
		must(err)
	}
}

func bsErr(err error) string {
	if err == nil {
		return "ok"
	}
	if errors.Is(err, sync.ErrInconsistentState) {
		return "err inconsistent"
	}
	if strings.Contains(err.Error(), "verif fault") {
		return "err fault"
	}
	if strings.Contains(err.Error(), "constraint") {
		return "err constraint"
	}
	return "err other"
}

func hxA(a common.Address) string { return hx(a[:]) }

// parse an event token into the real event (and the canonical payload the implementation should store)
func bsParseEv(bn uint64, tok string) any {
	f := strings.Split(tok, ";")
	u := func(s string) uint64 { return bigOf(s).Uint64() }
	switch f[0] {
	case "b":
		return bridgesync.Event{Bridge: &bridgesync.Bridge{BlockNum: bn, BlockPos: u(f[1]), DepositCount: uint32(u(f[2])), LeafType: uint8(u(f[3])),
			OriginNetwork: uint32(u(f[4])), OriginAddress: common.BytesToAddress(unhx(f[5])), DestinationNetwork: uint32(u(f[6])),
			DestinationAddress: common.BytesToAddress(unhx(f[7])), Amount: bigOf(f[8]), Metadata: unhx(f[9]), BlockTimestamp: u(f[10]),
			TxHash: common.BytesToHash(unhx(f[11])), FromAddress: common.BytesToAddress(unhx(f[12])), Calldata: unhx(f[13]), IsNativeToken: f[14] == "1"}}
	case "c":
		return bridgesync.Event{Claim: &bridgesync.Claim{BlockNum: bn, BlockPos: u(f[1]), GlobalIndex: bigOf(f[2]), OriginNetwork: uint32(u(f[3])),
			OriginAddress: common.BytesToAddress(unhx(f[4])), DestinationAddress: common.BytesToAddress(unhx(f[5])), Amount: bigOf(f[6]),
			DestinationNetwork: uint32(u(f[7])), Metadata: unhx(f[8]), IsMessage: f[9] == "1", MainnetExitRoot: common.BytesToHash(unhx(f[10])),
			RollupExitRoot: common.BytesToHash(unhx(f[11])), GlobalExitRoot: common.BytesToHash(unhx(f[12])), BlockTimestamp: u(f[13]),
			TxHash: common.BytesToHash(unhx(f[14])), FromAddress: common.BytesToAddress(unhx(f[15]))}}
	case "t":
		return bridgesync.Event{TokenMapping: &bridgesync.TokenMapping{BlockNum: bn, BlockPos: u(f[1]), OriginNetwork: uint32(u(f[2])),
			OriginTokenAddress: common.BytesToAddress(unhx(f[3])), WrappedTokenAddress: common.BytesToAddress(unhx(f[4])), Metadata: unhx(f[5]),
			IsNotMintable: f[6] == "1", Type: bridgetypes.TokenMappingType(u(f[7])), BlockTimestamp: u(f[8]), TxHash: common.BytesToHash(unhx(f[9])), Calldata: unhx(f[10])}}
	case "l":
		return bridgesync.Event{LegacyTokenMigration: &bridgesync.LegacyTokenMigration{BlockNum: bn, BlockPos: u(f[1]), Sender: common.BytesToAddress(unhx(f[2])),
			LegacyTokenAddress: common.BytesToAddress(unhx(f[3])), UpdatedTokenAddress: common.BytesToAddress(unhx(f[4])), Amount: bigOf(f[5]),
			BlockTimestamp: u(f[6]), TxHash: common.BytesToHash(unhx(f[7])), Calldata: unhx(f[8])}}
	case "r":
		return bridgesync.Event{RemoveLegacyToken: &bridgesync.RemoveLegacyToken{BlockNum: bn, BlockPos: u(f[1]), LegacyTokenAddress: common.BytesToAddress(unhx(f[2]))}}
	}
	panic("bad event token " + tok)
}

func bsBridgePayload(b *bridgesync.Bridge) string {
	am := "0"
	if b.Amount != nil {
		am = b.Amount.String()
	}
	return fmt.Sprintf("lt=%d,on=%d,oa=%s,dn=%d,da=%s,am=%s,md=%s,dc=%d,ts=%d,tx=%s,fa=%s,cd=%s,nat=%s", b.LeafType, b.OriginNetwork, hxA(b.OriginAddress),
		b.DestinationNetwork, hxA(b.DestinationAddress), am, hx(b.Metadata), b.DepositCount, b.BlockTimestamp, hx(b.TxHash[:]), hxA(b.FromAddress), hx(b.Calldata), b2s(b.IsNativeToken))
}
func bsClaimPayload(c *bridgesync.Claim) string {
	return fmt.Sprintf("gi=%s,on=%d,oa=%s,da=%s,am=%s,dn=%d,md=%s,msg=%s,mer=%s,rer=%s,ger=%s,ts=%d,tx=%s,fa=%s", c.GlobalIndex.String(), c.OriginNetwork,
		hxA(c.OriginAddress), hxA(c.DestinationAddress), c.Amount.String(), c.DestinationNetwork, hx(c.Metadata), b2s(c.IsMessage), hx(c.MainnetExitRoot[:]),
		hx(c.RollupExitRoot[:]), hx(c.GlobalExitRoot[:]), c.BlockTimestamp, hx(c.TxHash[:]), hxA(c.FromAddress))
}
func bsTMPayload(t *bridgesync.TokenMapping) string {
	return fmt.Sprintf("on=%d,ota=%s,wta=%s,md=%s,nm=%s,ty=%d,ts=%d,tx=%s,cd=%s", t.OriginNetwork, hxA(t.OriginTokenAddress), hxA(t.WrappedTokenAddress),
		hx(t.Metadata), b2s(t.IsNotMintable), t.Type, t.BlockTimestamp, hx(t.TxHash[:]), hx(t.Calldata))
}
func bsLegacyPayload(l *bridgesync.LegacyTokenMigration) string {
	return fmt.Sprintf("se=%s,la=%s,ua=%s,am=%s,ts=%d,tx=%s,cd=%s", hxA(l.Sender), hxA(l.LegacyTokenAddress), hxA(l.UpdatedTokenAddress), l.Amount.String(),
		l.BlockTimestamp, hx(l.TxHash[:]), hx(l.Calldata))
}

func bsDigest(items []string) string {
	return fmt.Sprintf("n=%d d=%s", len(items), hx(crypto.Keccak256([]byte(strings.Join(items, "\n")))[:8]))
}

// runs one query op against the facade of world w; returns the canonical observation
func (w *bsWorld) query(ws []string) string {
	ctx := context.Background()
	u := func(s string) uint64 { return bigOf(s).Uint64() }
	switch ws[1] {
	case "halted":
		return b2s(w.p.IsHalted())
	case "lpb":
		n, err := w.f.GetLastProcessedBlock(ctx)
		if err != nil {
			return bsErr(err)
		}
		return fmt.Sprintf("lpb %d", n)
	case "bridges":
		bs, err := w.f.GetBridges(ctx, u(ws[2]), u(ws[3]))
		if err != nil {
			if strings.Contains(err.Error(), "not processed") {
				return "err notprocessed"
			}
			return bsErr(err)
		}
		var it []string
		for i := range bs {
			it = append(it, fmt.Sprintf("%d/%d:%s", bs[i].BlockNum, bs[i].BlockPos, bsBridgePayload(&bs[i])))
		}
		return bsDigest(it)
	case "claims":
		cs, err := w.f.GetClaims(ctx, u(ws[2]), u(ws[3]))
		if err != nil {
			if strings.Contains(err.Error(), "not processed") {
				return "err notprocessed"
			}
			return bsErr(err)
		}
		var it []string
		for i := range cs {
			it = append(it, fmt.Sprintf("%d/%d:%s", cs[i].BlockNum, cs[i].BlockPos, bsClaimPayload(&cs[i])))
		}
		return bsDigest(it)
	case "bridgespaged":
		bs, total, err := w.f.GetBridgesPaged(ctx, uint32(u(ws[2])), uint32(u(ws[3])), nil, nil, "")
		if err != nil {
			if strings.Contains(err.Error(), "invalid page number") {
				return "err invalidpage"
			}
			return bsErr(err)
		}
		if total == 0 {
			return "n=0 total=0"
		}
		var it []string
		for _, b := range bs {
			it = append(it, fmt.Sprintf("%d/%d:%s", b.BlockNum, b.BlockPos, bsBridgePayload(b)))
		}
		return fmt.Sprintf("%s total=%d", bsDigest(it), total)
	case "claimspaged":
		cs, total, err := w.f.GetClaimsPaged(ctx, uint32(u(ws[2])), uint32(u(ws[3])), nil, "")
		if err != nil {
			if strings.Contains(err.Error(), "invalid page number") {
				return "err invalidpage"
			}
			return bsErr(err)
		}
		if total == 0 {
			return "n=0 total=0"
		}
		var it []string
		for _, c := range cs {
			it = append(it, fmt.Sprintf("%d/%d:%s", c.BlockNum, c.BlockPos, bsClaimPayload(c)))
		}
		return fmt.Sprintf("%s total=%d", bsDigest(it), total)
	case "tms":
		ts, total, err := w.f.GetTokenMappings(ctx, uint32(u(ws[2])), uint32(u(ws[3])))
		if err != nil {
			switch {
			case errors.Is(err, bridgesync.ErrInvalidPageNumber):
				return "err badpage"
			case errors.Is(err, bridgesync.ErrInvalidPageSize):
				return "err badsize"
			case strings.Contains(err.Error(), "invalid page number"):
				return "err invalidpage"
			}
			return bsErr(err)
		}
		if total == 0 {
			return "n=0 total=0"
		}
		var it []string
		for _, t := range ts {
			it = append(it, fmt.Sprintf("%d/%d:%s", t.BlockNum, t.BlockPos, bsTMPayload(t)))
		}
		return fmt.Sprintf("%s total=%d", bsDigest(it), total)
	case "legacy":
		ls, total, err := w.f.GetLegacyTokenMigrations(ctx, uint32(u(ws[2])), uint32(u(ws[3])))
		if err != nil {
			switch {
			case errors.Is(err, bridgesync.ErrInvalidPageNumber):
				return "err badpage"
			case errors.Is(err, bridgesync.ErrInvalidPageSize):
				return "err badsize"
			case strings.Contains(err.Error(), "invalid page number"):
				return "err invalidpage"
			}
			return bsErr(err)
		}
		if total == 0 {
			return "n=0 total=0"
		}
		var it []string
		for _, l := range ls {
			it = append(it, fmt.Sprintf("%d/%d:%s", l.BlockNum, l.BlockPos, bsLegacyPayload(l)))
		}
		return fmt.Sprintf("%s total=%d", bsDigest(it), total)
	case "exitroot":
		rt, err := w.f.GetExitRootByIndex(ctx, uint32(u(ws[2])))
		// the aggsender reads the same thing through its bridge data querier, which lives as long as the process: whatever
		// happened in between (other lookups, reorgs), it must answer what the syncer answers now
		if qh, qerr := w.q.GetExitRootByIndex(ctx, uint32(u(ws[2]))); (qerr == nil) != (err == nil) || (err == nil && qh != rt.Hash) {
			w.qMismatch = fmt.Sprintf("exit root for deposit count %s through the aggsender's bridge data querier is %s (err=%v), the syncer answers %s (err=%v)", ws[2], qh.Hex(), qerr, rt.Hash.Hex(), err)
		}
		if err != nil {
			if errors.Is(err, db.ErrNotFound) {
				return "notfound"
			}
			return bsErr(err)
		}
		return rootObs(rt)
	case "rootbyler":
		rt, err := w.f.GetRootByLER(ctx, common.BytesToHash(unhx(ws[2])))
		if err != nil {
			if errors.Is(err, db.ErrNotFound) {
				return "notfound"
			}
			return bsErr(err)
		}
		return rootObs(*rt)
	case "verify":
		root := common.BytesToHash(unhx(ws[3]))
		i := uint32(u(ws[2]))
		p, err := w.f.GetProof(ctx, i, root)
		if err != nil {
			if errors.Is(err, sync.ErrInconsistentState) {
				return "err inconsistent"
			}
			return "verify err"
		}
		l, err := w.p.ExitTree().GetLeaf(w.ctl, i, root)
		if err != nil {
			return "verify err"
		}
		c := tree.CalculateRoot(l, p, i)
		return fmt.Sprintf("verify %s %s", hx(l[:]), hx(c[:]))
	}
	return "bad-op"
}

// independent leaf value: keccak(abi.encodePacked(uint8,uint32,address,uint32,address,uint256,bytes32 keccak(metadata)))
func bsRefLeaf(b *bridgesync.Bridge) common.Hash {
	buf := []byte{b.LeafType}
	buf = append(buf, byte(b.OriginNetwork>>24), byte(b.OriginNetwork>>16), byte(b.OriginNetwork>>8), byte(b.OriginNetwork))
	buf = append(buf, b.OriginAddress[:]...)
	buf = append(buf, byte(b.DestinationNetwork>>24), byte(b.DestinationNetwork>>16), byte(b.DestinationNetwork>>8), byte(b.DestinationNetwork))
	buf = append(buf, b.DestinationAddress[:]...)
	am := make([]byte, 32)
	b.Amount.FillBytes(am)
	buf = append(buf, am...)
	buf = append(buf, crypto.Keccak256(b.Metadata)...)
	return crypto.Keccak256Hash(buf)
}

func (w *bsWorld) exec(r *Run, line string) string {
	ws := strings.Fields(line)
	r.Count("op:" + ws[0])
	r.Evals++
	if ws[0] != "new" {
		w.lines = append(w.lines, line)
	}
	ctx := context.Background()
	obs := "bad-op"
	switch ws[0] {
	case "new":
		w.close()
		*w = bsWorld{}
		w.open(r, true)
		obs = "ok"
	case "blk":
		bn := bigOf(ws[1]).Uint64()
		blk := sync.Block{Num: bn, Hash: common.BigToHash(new(big.Int).SetUint64(bn*7919 + 13))}
		hasRm := false
		evs, ok := bsEventsViaLogs(bn, ws[3:])
		if bsHandlerFailure != "" {
			r.Fail(bsHandlerFailure, append([]string{"new"}, w.lines...))
			bsHandlerFailure = ""
		}
		if ok {
			// bridge events as the syncer gets them: ABI-encoded logs through the downloader's own log handlers, the
			// sender and calldata from the transaction trace
			blk.Events = evs
			r.Count("branch:events-decoded-from-logs")
		} else {
			for _, tok := range ws[3:] {
				blk.Events = append(blk.Events, bsParseEv(bn, tok))
				if strings.HasPrefix(tok, "r;") {
					hasRm = true
				}
			}
		}
		commitFault := ws[2] == "9000"
		if commitFault {
			// the COMMIT of the block's transaction fails once (SQLite's commit hook vetoes it; the engine rolls the transaction
			// back, as it does on a full disk or an I/O error at commit time). The pool is held to ONE connection meanwhile so
			// that the hook sits on the connection the processor uses.
			pool := w.p.DB()
			pool.SetMaxOpenConns(1)
			fired := false
			setHook := func(f func() int) {
				c, e := pool.Conn(ctx)
				must(e)
				must(c.Raw(func(dc any) error { dc.(*sqlite3.SQLiteConn).RegisterCommitHook(f); return nil }))
				must(c.Close())
			}
			setHook(func() int {
				if fired {
					return 0
				}
				fired = true
				return 1
			})
			err := w.p.ProcessBlock(ctx, blk)
			setHook(nil)
			pool.SetMaxOpenConns(0)
			var nrow int
			must(w.ctl.QueryRow("SELECT COUNT(*) FROM block WHERE num = $1", bn).Scan(&nrow))
			stored := nrow > 0
			switch {
			case !fired:
				obs = bsErr(err) // the transaction never reached its commit
			case err == nil && !stored:
				r.Fail(fmt.Sprintf("[C01,C07] the commit of block %d failed (the engine rolled the transaction back) and ProcessBlock reported success: the driver moves on, the block's deposits have no root, no row", bn),
					append([]string{"new"}, w.lines...))
				obs = "ok"
			case err != nil && stored:
				r.Fail(fmt.Sprintf("[C07] ProcessBlock(%d) returned `%v` although the block is stored", bn, err), append([]string{"new"}, w.lines...))
				obs = "err fault"
			case err != nil:
				obs = "err fault"
			default:
				obs = "ok"
			}
			r.Count("branch:commit-fault")
			if obs == "ok" && stored {
				w.survivors = append(w.survivors, "blk "+ws[1]+" - "+strings.Join(ws[3:], " "))
				w.survNums = append(w.survNums, bn)
				if hasRm {
					w.rmLegacySeen = true
				}
			}
			// for the model a failed commit is a fault that undoes the whole transaction (statement 0); a block that never
			// reached its commit is the plain block
			if fired {
				r.Emit("blk "+ws[1]+" 0 "+strings.Join(ws[3:], " "), obs)
			} else {
				r.Emit("blk "+ws[1]+" - "+strings.Join(ws[3:], " "), obs)
			}
			return obs
		}
		if ws[2] != "-" {
			_, err := w.ctl.Exec(`UPDATE verif_fault SET armed=1, target=$1, n=0`, bigOf(ws[2]).Uint64())
			mustUnlocked(r, w.lines, "bridge store", err)
		}
		err := w.p.ProcessBlock(ctx, blk)
		if ws[2] != "-" && err == nil {
			// the trigger's counter survives only if the transaction was committed: was the armed statement reached all the same?
			var n, target int64
			if e := w.ctl.QueryRow(`SELECT n, target FROM verif_fault`).Scan(&n, &target); e == nil && n > target {
				r.Fail(fmt.Sprintf("[C07,C08,C01] write statement %d of block %d's transaction failed (injected fault) and ProcessBlock reported success and committed: the error was swallowed, the store now misses what that statement wrote", target, bn),
					append([]string{"new"}, w.lines...))
			}
		}
		if ws[2] != "-" {
			_, e2 := w.ctl.Exec(`UPDATE verif_fault SET armed=0`)
			if e2 != nil && strings.Contains(e2.Error(), "locked") {
				// the processor still holds its write transaction: neither committed nor rolled back
				r.Fail(fmt.Sprintf("[C07] after ProcessBlock(%d) returned `%v` the store stays locked for every other connection: the block's transaction was neither committed nor rolled back, so no retry can succeed", bn, err),
					append([]string{"new"}, w.lines...))
				panic(stopRun{})
			}
			must(e2)
		}
		obs = bsErr(err)
		if err == nil {
			w.survivors = append(w.survivors, "blk "+ws[1]+" - "+strings.Join(ws[3:], " "))
			w.survNums = append(w.survNums, bn)
			if hasRm {
				w.rmLegacySeen = true
			}
		}
	case "reorg":
		b := bigOf(ws[1]).Uint64()
		// every other reorg runs while a read is in flight on the same pool, so that the reorg transaction gets
		// another pooled connection (foreign keys / cascade must hold on every connection)
		var inflight *sql.Rows
		if w.reorgs%2 == 1 {
			inflight, _ = w.p.DB().Query(`SELECT num FROM block`)
		}
		w.reorgs++
		obs = bsErr(w.p.Reorg(ctx, b))
		if inflight != nil {
			inflight.Close()
		}
		{
			// whatever the reorg removed (possibly nothing), its transaction must be over
			_, e := w.ctl.Exec(`UPDATE verif_fault SET armed=0`)
			mustUnlocked(r, w.lines, "bridge store (after Reorg)", e)
		}
		var ks []string
		var kn []uint64
		for i, n := range w.survNums {
			if n < b {
				ks = append(ks, w.survivors[i])
				kn = append(kn, n)
			}
		}
		w.survivors, w.survNums = ks, kn
	case "reorgF":
		// Reorg whose first row delete on `block` / `root` fails; the driver retries until it succeeds
		b := bigOf(ws[1]).Uint64()
		mode := 2
		if ws[2] == "block" {
			mode = 3
		}
		_, e1 := w.ctl.Exec(`UPDATE verif_fault SET armed=$1`, mode)
		mustUnlocked(r, w.lines, "bridge store", e1)
		err := w.p.Reorg(ctx, b)
		_, e2 := w.ctl.Exec(`UPDATE verif_fault SET armed=0`)
		must(e2)
		obs = bsErr(err)
		if err == nil {
			var ks []string
			var kn []uint64
			for i, n := range w.survNums {
				if n < b {
					ks = append(ks, w.survivors[i])
					kn = append(kn, n)
				}
			}
			w.survivors, w.survNums = ks, kn
		}
	case "restart":
		w.p.Close()
		w.open(r, false)
		obs = "ok"
	case "q":
		obs = w.query(ws)
		if w.qMismatch != "" {
			r.Fail("[C03,C04] "+w.qMismatch, append([]string{"new"}, w.lines...))
			w.qMismatch = ""
		}
	}
	r.Emit(line, obs)
	return obs
}

// the set of queries used to compare a store with its reference twin
func bsProbe(maxBlock uint64, nLeaves uint64) []string {
	qs := []string{"q lpb", fmt.Sprintf("q bridges 0 %d", maxBlock), fmt.Sprintf("q claims 0 %d", maxBlock),
		"q bridgespaged 1 100", "q bridgespaged 2 3", "q claimspaged 1 100", "q claimspaged 2 2", "q tms 1 100", "q legacy 1 100", "q legacy 2 1",
		fmt.Sprintf("q bridges %d %d", maxBlock/2, maxBlock), fmt.Sprintf("q claims 1 %d", maxBlock/2)}
	// the newest deposit count first and last: a reader that remembers its previous lookup meets the same index again
	// right after whatever happened in between (a reorg that replaced that deposit, for instance)
	if nLeaves > 0 {
		qs = append(qs, fmt.Sprintf("q exitroot %d", nLeaves-1))
	}
	for i := uint64(0); i < nLeaves+1; i++ {
		qs = append(qs, fmt.Sprintf("q exitroot %d", i))
	}
	if nLeaves > 0 {
		qs = append(qs, fmt.Sprintf("q exitroot %d", nLeaves-1))
	}
	return qs
}

// C04/C07 monitor: the store must answer every query exactly like a fresh store that only ever processed the
// surviving blocks, fault-free (the twin is built from scratch each time)
func (w *bsWorld) compareWithTwin(r *Run, why string) {
	if w.p.IsHalted() {
		r.Fail("[C01,C04,C07,C14] "+why+": the syncer is halted although every block it was given was well-formed", append([]string{"new"}, w.lines...))
		return
	}
	twin := &bsWorld{}
	twin.open(r, true)
	defer twin.close()
	scratch := &Run{Hist: map[string]int{}, Distinct: map[string]struct{}{}, OutDir: r.OutDir}
	scratch.ops, scratch.impl = devNull(), devNull()
	var maxB uint64
	leaves := uint64(0)
	for i, l := range w.survivors {
		twin.exec(scratch, l)
		if w.survNums[i] > maxB {
			maxB = w.survNums[i]
		}
		leaves += uint64(strings.Count(l, " b;"))
	}
	for _, q := range bsProbe(maxB+1, leaves) {
		a := w.query(strings.Fields(q))
		b := twin.query(strings.Fields(q))
		r.Evals++
		if a != b {
			desc := fmt.Sprintf("[C04,C07] %s: query `%s` answers `%s`, a node that only ever processed the surviving blocks answers `%s`", why, q, a, b)
			if w.rmLegacySeen && strings.HasPrefix(q, "q legacy") {
				desc = "[C04] F3 legacy-token removal is not undone by a reorg: " + desc
			}
			r.Fail(desc, append([]string{"new"}, w.lines...))
			return
		}
	}
	r.Case(fmt.Sprintf("twin:%d:%d:%s", len(w.survivors), leaves, why))
	// C01 monitor: every deposit's exit root against the contract algorithm over independently computed leaf values
	var ref depTree
	for i, l := range w.survivors {
		ws := strings.Fields(l)
		for _, tok := range ws[3:] {
			if !strings.HasPrefix(tok, "b;") {
				continue
			}
			ev := bsParseEv(w.survNums[i], tok).(bridgesync.Event)
			ref.add(bsRefLeaf(ev.Bridge))
			got := w.query([]string{"q", "exitroot", fmt.Sprint(ev.Bridge.DepositCount)})
			want := ref.root()
			r.Evals++
			if !strings.HasPrefix(got, "root "+hx(want[:])+" ") {
				r.Fail(fmt.Sprintf("[C01,C12] exit root for deposit count %d is `%s`; the contract algorithm over getLeafValue(deposit) gives %s (amount=%s)", ev.Bridge.DepositCount, got, want.Hex(), ev.Bridge.Amount.String()),
					append([]string{"new"}, w.lines...))
				return
			}
		}
	}
}

// C14 monitor: on a halted processor every exported data query must fail with ErrInconsistentState
func (w *bsWorld) checkHaltedQueries(r *Run) {
	if !w.p.IsHalted() {
		return
	}
	skip := map[string]bool{"Start": true, "OriginNetwork": true, "BlockFinality": true, "GetLastReorgEvent": true}
	v := reflect.ValueOf(w.f)
	t := v.Type()
	for i := 0; i < t.NumMethod(); i++ {
		m := t.Method(i)
		if skip[m.Name] {
			continue
		}
		var args []reflect.Value
		for j := 1; j < m.Type.NumIn(); j++ {
			at := m.Type.In(j)
			if at.String() == "context.Context" {
				args = append(args, reflect.ValueOf(context.Background()))
			} else if at.Kind() == reflect.Uint32 || at.Kind() == reflect.Uint64 {
				args = append(args, reflect.ValueOf(1).Convert(at))
			} else {
				args = append(args, reflect.Zero(at))
			}
		}
		var outs []reflect.Value
		func() {
			defer func() {
				if e := recover(); e != nil {
					outs = nil
					r.Fail(fmt.Sprintf("[C14] halted syncer: exported query %s panicked instead of returning ErrInconsistentState: %v", m.Name, e), append([]string{"new"}, w.lines...))
				}
			}()
			outs = v.Method(i).Call(args)
		}()
		if outs == nil {
			continue
		}
		r.Count("halted-query:" + m.Name)
		last := outs[len(outs)-1]
		err, _ := last.Interface().(error)
		if err == nil || !errors.Is(err, sync.ErrInconsistentState) {
			r.Fail(fmt.Sprintf("[C14] halted syncer: exported query %s returned %v instead of ErrInconsistentState", m.Name, err), append([]string{"new"}, w.lines...))
		}
	}
}

func bsReplay(r *Run, lines []string) {
	w := &bsWorld{}
	defer w.close()
	for _, l := range lines {
		w.exec(r, l)
	}
	if w.p != nil {
		w.checkHaltedQueries(r)
		if !w.p.IsHalted() {
			w.compareWithTwin(r, "replay")
		}
	}
}

var _ = sort.Strings

// ---- bridge events as ABI-encoded logs, decoded by the real log handlers (bridgesync/downloader.go) ----

var bsGasToken = common.HexToAddress("0x00000000000000000000000000000000000064a5")
var bsBridgeAddr = common.HexToAddress("0x0000000000000000000000000000000000b41d6e")

type bsEthClient struct {
	aggkittypes.BaseEthereumClienter
	traces map[common.Hash]string // tx hash -> call trace (JSON)
}

func (c *bsEthClient) CodeAt(ctx context.Context, a common.Address, b *big.Int) ([]byte, error) {
	return []byte{1}, nil
}
func (c *bsEthClient) CallContract(ctx context.Context, m ethereum.CallMsg, b *big.Int) ([]byte, error) {
	out := make([]byte, 32) // gasTokenAddress()
	copy(out[12:], bsGasToken[:])
	return out, nil
}
func (c *bsEthClient) Call(result any, method string, args ...any) error {
	h, ok := args[0].(common.Hash)
	if !ok {
		return errors.New("verif: unexpected trace argument")
	}
	t, ok := c.traces[h]
	if !ok {
		return errors.New("verif: unknown transaction")
	}
	return json.Unmarshal([]byte(t), result)
}

var bsLogClient = &bsEthClient{traces: map[common.Hash]string{}}
var bsAppender sync.LogAppenderMap
var bsHandlerFailure string // set by bsEventsViaLogs, reported by the caller (which has the run and the history)

// possible when the block holds bridge events only, all with the block's timestamp, and the native-token flag is what the
// handler derives (origin address zero or the gas token)
func bsEventsViaLogs(bn uint64, toks []string) ([]interface{}, bool) {
	if len(toks) == 0 {
		return nil, false
	}
	var ts uint64
	for i, tok := range toks {
		f := strings.Split(tok, ";")
		if f[0] != "b" {
			return nil, false
		}
		t := bigOf(f[10]).Uint64()
		if i > 0 && t != ts {
			return nil, false
		}
		ts = t
		oa := common.BytesToAddress(unhx(f[5]))
		if (f[14] == "1") != (oa == (common.Address{}) || oa == bsGasToken) {
			return nil, false
		}
	}
	if bsAppender == nil {
		var err error
		bsAppender, err = bridgesync.VerifBuildAppender(bsLogClient, bsBridgeAddr, false, lg())
		must(err)
	}
	a, err := polygonzkevmbridgev2.Polygonzkevmbridgev2MetaData.GetAbi()
	must(err)
	b := &sync.EVMBlock{EVMBlockHeader: sync.EVMBlockHeader{Num: bn, Timestamp: ts}}
	u := func(s string) uint64 { return bigOf(s).Uint64() }
	for _, tok := range toks {
		f := strings.Split(tok, ";")
		l := liMkLog(a, "BridgeEvent", uint(u(f[1])), uint8(u(f[3])), uint32(u(f[4])), common.BytesToAddress(unhx(f[5])), uint32(u(f[6])),
			common.BytesToAddress(unhx(f[7])), bigOf(f[8]), unhx(f[9]), uint32(u(f[2])))
		l.TxHash = common.BytesToHash(unhx(f[11]))
		l.Address = bsBridgeAddr
		// the transaction: an outer call from the sender to some contract which calls the bridge with the calldata
		if l.TxHash[31]%4 == 0 {
			// the node's RPC cannot serve this transaction's trace right now: the handler has to report the failure (the
			// downloader then calls it again) and must leave the block as it was — never skip the deposit
			before := len(b.Events)
			if err := bsAppender[l.Topics[0]](b, l); err == nil || len(b.Events) != before {
				bsHandlerFailure = fmt.Sprintf("[C01,C05] the bridge log handler answered `%v` and left %d new event(s) in block %d although the trace of transaction %s could not be fetched: the deposit with count %s is dropped (or recorded without its call) instead of being retried",
					err, len(b.Events)-before, bn, l.TxHash.Hex()[:10], f[2])
				b.Events = b.Events[:before]
			}
		}
		bsLogClient.traces[l.TxHash] = fmt.Sprintf(`{"from":"%s","to":"%s","input":"0x%s","calls":[]}`,
			common.BytesToAddress(unhx(f[12])).Hex(), bsBridgeAddr.Hex(), strings.TrimPrefix(hx(unhx(f[13])), "-"))
		must(bsAppender[l.Topics[0]](b, l))
		delete(bsLogClient.traces, l.TxHash)
	}
	return b.Events, true
}
