package main

import (
	"github.com/agglayer/aggkit/l1infotreesync"
)

func zeroL1Leaf() l1infotreesync.L1InfoTreeLeaf { return l1infotreesync.L1InfoTreeLeaf{} }
