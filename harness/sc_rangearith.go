package main

// Scenario `rangearith` (C17): BlockRange arithmetic, CertificateBuildParams.Range, limitCertSize,
// MaxL2BlockNumberLimiter.AdaptCertificate — the real functions vs the (partly regenerated) model.

import (
	"errors"
	"fmt"
	"math/big"
	"strconv"
	"strings"

	"github.com/agglayer/aggkit/aggsender/flows"
	"github.com/agglayer/aggkit/aggsender/types"
	"github.com/agglayer/aggkit/bridgesync"
)

func init() { scenarios["rangearith"] = Scenario{Gen: raGen, Replay: raReplay} }

type raEv struct{ blk, mlen, id uint64 }

func raParseEvs(s string) []raEv {
	s = s[2:]
	if s == "-" {
		return nil
	}
	var out []raEv
	for _, it := range strings.Split(s, ",") {
		p := strings.Split(it, "/")
		a, _ := strconv.ParseUint(p[0], 10, 64)
		b, _ := strconv.ParseUint(p[1], 10, 64)
		c, _ := strconv.ParseUint(p[2], 10, 64)
		out = append(out, raEv{a, b, c})
	}
	return out
}

func raParams(fep, retry, from, to, b, c string) *types.CertificateBuildParams {
	p := &types.CertificateBuildParams{FromBlock: bigOf(from).Uint64(), ToBlock: bigOf(to).Uint64(), CertificateType: types.CertificateTypePP}
	if fep == "1" {
		p.CertificateType = types.CertificateTypeFEP
	}
	if retry == "1" {
		p.RetryCount = 1
		p.LastSentCertificate = &types.CertificateHeader{}
	}
	p.Bridges = []bridgesync.Bridge{}
	p.Claims = []bridgesync.Claim{}
	for _, e := range raParseEvs(b) {
		// the id rides in DepositCount / BlockPos so that identity and order of events are observable
		p.Bridges = append(p.Bridges, bridgesync.Bridge{BlockNum: e.blk, Metadata: make([]byte, e.mlen), DepositCount: uint32(e.id), BlockPos: e.id})
	}
	for _, e := range raParseEvs(c) {
		p.Claims = append(p.Claims, bridgesync.Claim{BlockNum: e.blk, Metadata: make([]byte, e.mlen), BlockPos: e.id})
	}
	return p
}

func raIDs(p *types.CertificateBuildParams) (string, string) {
	var b, c []string
	for _, x := range p.Bridges {
		b = append(b, fmt.Sprint(x.BlockPos))
	}
	for _, x := range p.Claims {
		c = append(c, fmt.Sprint(x.BlockPos))
	}
	bs, cs := "-", "-"
	if len(b) > 0 {
		bs = strings.Join(b, ",")
	}
	if len(c) > 0 {
		cs = strings.Join(c, ",")
	}
	return bs, cs
}

func raShow(tag string, q *types.CertificateBuildParams) string {
	b, c := raIDs(q)
	// what a cut must carry over besides the events: whether this is a retry, and the certificate type
	return fmt.Sprintf("%s %d %d b=%s c=%s size=%d retry=%s fep=%s", tag, q.FromBlock, q.ToBlock, b, c, q.EstimatedSize(),
		b2s(q.IsARetry()), b2s(q.CertificateType == types.CertificateTypeFEP))
}

// expected ids of the events of p whose block lies in [f,t], in order
func raFilterIDs(p *types.CertificateBuildParams, f, t uint64) (string, string) {
	q := &types.CertificateBuildParams{}
	for _, x := range p.Bridges {
		if x.BlockNum >= f && x.BlockNum <= t {
			q.Bridges = append(q.Bridges, x)
		}
	}
	for _, x := range p.Claims {
		if x.BlockNum >= f && x.BlockNum <= t {
			q.Claims = append(q.Claims, x)
		}
	}
	return raIDs(q)
}

func raExec(r *Run, line string) {
	ws := strings.Fields(line)
	r.Count("op:" + ws[0])
	r.Evals++
	switch ws[0] {
	case "gap":
		a := types.NewBlockRange(bigOf(ws[1]).Uint64(), bigOf(ws[2]).Uint64())
		b := types.NewBlockRange(bigOf(ws[3]).Uint64(), bigOf(ws[4]).Uint64())
		g := a.Gap(b)
		r.Emit(line, fmt.Sprintf("gap %d %d empty=%s count=%d", g.FromBlock, g.ToBlock, b2s(g.IsEmpty()), g.CountBlocks()))
		// monitor: touching or overlapping (unbounded arithmetic) => no gap reported; otherwise exactly the blocks between
		if a.FromBlock <= a.ToBlock && b.FromBlock <= b.ToBlock {
			at, bf := new(big.Int).SetUint64(a.ToBlock), new(big.Int).SetUint64(b.FromBlock)
			bt, af := new(big.Int).SetUint64(b.ToBlock), new(big.Int).SetUint64(a.FromBlock)
			one := big.NewInt(1)
			touch := new(big.Int).Add(at, one).Cmp(bf) >= 0 && new(big.Int).Add(bt, one).Cmp(af) >= 0
			if touch && !g.IsEmpty() {
				r.Fail(fmt.Sprintf("gap reported between touching/overlapping ranges [%d,%d] and [%d,%d]: [%d,%d]", a.FromBlock, a.ToBlock, b.FromBlock, b.ToBlock, g.FromBlock, g.ToBlock), []string{line})
			}
			if !touch {
				var wf, wt uint64
				if a.ToBlock < b.FromBlock {
					wf, wt = a.ToBlock+1, b.FromBlock-1
				} else {
					wf, wt = b.ToBlock+1, a.FromBlock-1
				}
				if g.FromBlock != wf || g.ToBlock != wt || g.IsEmpty() {
					r.Fail(fmt.Sprintf("wrong gap between [%d,%d] and [%d,%d]: got [%d,%d] empty=%v, want [%d,%d]", a.FromBlock, a.ToBlock, b.FromBlock, b.ToBlock, g.FromBlock, g.ToBlock, g.IsEmpty(), wf, wt), []string{line})
				}
			}
		}
	case "count":
		a := types.NewBlockRange(bigOf(ws[1]).Uint64(), bigOf(ws[2]).Uint64())
		r.Emit(line, fmt.Sprintf("count %d empty=%s", a.CountBlocks(), b2s(a.IsEmpty())))
	case "allowed":
		l := flows.NewMaxL2BlockNumberLimiter(bigOf(ws[1]).Uint64(), lg(), false, false)
		r.Emit(line, "allowed "+b2s(l.IsAllowedBlockNumber(bigOf(ws[2]).Uint64())))
	case "range":
		p := raParams(ws[3], ws[4], ws[5], ws[6], ws[7], ws[8])
		f, t := bigOf(ws[1]).Uint64(), bigOf(ws[2]).Uint64()
		q, err := p.Range(f, t)
		if err != nil {
			r.Emit(line, "range err")
			return
		}
		r.Emit(line, raShow("range", q))
		if q.IsARetry() != p.IsARetry() || q.CertificateType != p.CertificateType {
			r.Fail(fmt.Sprintf("Range(%d,%d) of [%d,%d]: the cut is a retry: %v / type %v, the certificate it was cut from: %v / %v — a cut certificate loses what decides whether it may be cut at all", f, t, p.FromBlock, p.ToBlock, q.IsARetry(), q.CertificateType, p.IsARetry(), p.CertificateType), []string{line})
		}
		wb, wc := raFilterIDs(p, f, t)
		gb, gc := raIDs(q)
		if gb != wb || gc != wc || q.FromBlock != f || q.ToBlock != t {
			r.Fail(fmt.Sprintf("Range(%d,%d) of [%d,%d]: events b=%s c=%s, the kept blocks hold b=%s c=%s", f, t, p.FromBlock, p.ToBlock, gb, gc, wb, wc), []string{line})
		}
	case "limit":
		p := raParams(ws[2], ws[3], ws[4], ws[5], ws[6], ws[7])
		mx := bigOf(ws[1]).Uint64()
		q, err := flows.VerifLimitCertSize(uint(mx), lg(), p)
		if err != nil {
			r.Emit(line, "limit err")
			r.Fail("limitCertSize failed on well-formed parameters: "+err.Error(), []string{line})
			return
		}
		r.Emit(line, raShow("limit", q))
		// monitor: same first block, exact events, over the limit only as a single block, maximal
		wb, wc := raFilterIDs(p, p.FromBlock, q.ToBlock)
		gb, gc := raIDs(q)
		if q.FromBlock != p.FromBlock || q.ToBlock > p.ToBlock || q.ToBlock < q.FromBlock {
			r.Fail(fmt.Sprintf("limitCertSize changed the range [%d,%d] to [%d,%d]", p.FromBlock, p.ToBlock, q.FromBlock, q.ToBlock), []string{line})
		}
		if gb != wb || gc != wc {
			r.Fail(fmt.Sprintf("limitCertSize result [%d,%d] holds b=%s c=%s, its blocks hold b=%s c=%s", q.FromBlock, q.ToBlock, gb, gc, wb, wc), []string{line})
		}
		if mx != 0 && uint64(q.EstimatedSize()) > mx && q.ToBlock != q.FromBlock {
			r.Fail(fmt.Sprintf("limitCertSize result [%d,%d] exceeds the limit %d with more than one block", q.FromBlock, q.ToBlock, mx), []string{line})
		}
		for t := q.ToBlock + 1; t <= p.ToBlock && t > q.ToBlock; t++ {
			full := raParams(ws[2], ws[3], ws[4], ws[5], ws[6], ws[7])
			c, err := full.Range(p.FromBlock, t)
			if err == nil && (mx == 0 || uint64(c.EstimatedSize()) <= mx) {
				r.Fail(fmt.Sprintf("limitCertSize stopped at block %d although the prefix up to %d fits the limit %d (size %d)", q.ToBlock, t, mx, c.EstimatedSize()), []string{line})
				break
			}
		}
	case "adapt":
		p := raParams(ws[4], ws[5], ws[6], ws[7], ws[8], ws[9])
		m := bigOf(ws[1]).Uint64()
		l := flows.NewMaxL2BlockNumberLimiter(m, lg(), ws[2] == "1", ws[3] == "1")
		q, err := l.AdaptCertificate(p)
		if err != nil {
			switch {
			case errors.Is(err, flows.ErrMaxL2BlockNumberExceededInARetryCert):
				r.Emit(line, "adapt err retry")
			case errors.Is(err, flows.ErrComplete):
				r.Emit(line, "adapt err complete")
				if m == 0 || p.FromBlock <= m {
					// legitimate only when the permitted prefix holds nothing to certify
					if wb, wc := raFilterIDs(p, p.FromBlock, m); m == 0 || wb != "-" || wc != "-" {
						r.Fail(fmt.Sprintf("AdaptCertificate(max=%d) declared the chain complete for [%d,%d] although its first block is permitted and the permitted blocks hold b=%s c=%s: these events never reach a certificate", m, p.FromBlock, p.ToBlock, wb, wc), []string{line})
					}
				}
			default:
				r.Emit(line, "adapt err other")
			}
			return
		}
		r.Emit(line, raShow("adapt", q))
		if m != 0 && q.ToBlock > m {
			r.Fail(fmt.Sprintf("AdaptCertificate returned ToBlock %d above the configured last block %d", q.ToBlock, m), []string{line})
		}
		want := p.ToBlock
		if m != 0 && want > m {
			want = m
		}
		wb, wc := raFilterIDs(p, p.FromBlock, want)
		gb, gc := raIDs(q)
		if q.FromBlock != p.FromBlock || q.ToBlock != want || gb != wb || gc != wc {
			r.Fail(fmt.Sprintf("AdaptCertificate(max=%d) of [%d,%d] gave [%d,%d] b=%s c=%s; expected [%d,%d] b=%s c=%s", m, p.FromBlock, p.ToBlock, q.FromBlock, q.ToBlock, gb, gc, p.FromBlock, want, wb, wc), []string{line})
		}
	default:
		r.Emit(line, "bad-op")
	}
}

var raBoundary = []uint64{0, 1, 2, 3, 1<<32 - 1, 1 << 32, 1<<32 + 1, 1<<64 - 3, 1<<64 - 2, 1<<64 - 1}

func raEvents(rng *Rng, from, to uint64, n int, tag string, idBase uint64) string {
	if n == 0 || to < from {
		return tag + ":-"
	}
	span := to - from + 1
	var blks []uint64
	for i := 0; i < n; i++ {
		if span == 0 { // full uint64 range
			blks = append(blks, rng.U64())
		} else {
			blks = append(blks, from+rng.U64()%span)
		}
	}
	// chain order: sorted by block
	for i := range blks {
		for j := i + 1; j < len(blks); j++ {
			if blks[j] < blks[i] {
				blks[i], blks[j] = blks[j], blks[i]
			}
		}
	}
	var parts []string
	for i, b := range blks {
		ml := 0
		switch rng.Intn(5) {
		case 0:
			ml = rng.Intn(64)
		case 1:
			ml = rng.Intn(2000)
		case 2:
			ml = []int{8, 16, 84, 184, 284}[rng.Intn(5)] // sizes that make the estimate land on exact integers / the limit
		}
		parts = append(parts, fmt.Sprintf("%d/%d/%d", b, ml, idBase+uint64(i)))
	}
	return tag + ":" + strings.Join(parts, ",")
}

func raGen(r *Run, rng *Rng) {
	// block-range arithmetic: boundary^4 exhaustively
	for _, a1 := range raBoundary {
		for _, a2 := range raBoundary {
			if a1 > a2 {
				continue
			}
			raExec(r, fmt.Sprintf("count %d %d", a1, a2))
			for _, b1 := range raBoundary {
				for _, b2 := range raBoundary {
					if b1 > b2 {
						continue
					}
					line := fmt.Sprintf("gap %d %d %d %d", a1, a2, b1, b2)
					raExec(r, line)
					r.Case(line)
				}
			}
		}
	}
	n := 1500
	if r.Tier == "thorough" {
		n = 20000
	}
	for i := 0; i < n; i++ {
		a1 := rng.U64() >> uint(rng.Intn(64))
		a2 := a1 + rng.U64()>>uint(rng.Intn(64))
		if a2 < a1 {
			a2 = 1<<64 - 1
		}
		b1 := a2 + uint64(rng.Intn(5)) - 2
		if rng.Bool() {
			b1 = rng.U64() >> uint(rng.Intn(64))
		}
		b2 := b1 + rng.U64()>>uint(rng.Intn(64))
		if b2 < b1 {
			b2 = 1<<64 - 1
		}
		if rng.Bool() {
			a1, a2, b1, b2 = b1, b2, a1, a2
		}
		raExec(r, fmt.Sprintf("gap %d %d %d %d", a1, a2, b1, b2))
		if rng.Chance(5) { // malformed: from > to
			raExec(r, fmt.Sprintf("gap %d %d %d %d", a2, a1, b1, b2))
			raExec(r, fmt.Sprintf("count %d %d", a2, a1+0))
			r.Count("malformed")
		}
		raExec(r, fmt.Sprintf("allowed %d %d", rng.U64()>>uint(rng.Intn(64)), rng.U64()>>uint(rng.Intn(64))))
	}
	// range cutting
	m := 600
	if r.Tier == "thorough" {
		m = 8000
	}
	for i := 0; i < m; i++ {
		from := uint64(rng.Intn(50))
		if rng.Chance(10) {
			from = rng.U64() >> uint(rng.Intn(40))
		}
		to := from + uint64(rng.Intn(14))
		nb, nc := rng.Intn(8), rng.Intn(4)
		if rng.Chance(15) {
			nb = 20 + rng.Intn(30)
		}
		B := raEvents(rng, from, to, nb, "B", 100)
		C := raEvents(rng, from, to, nc, "C", 500)
		fep, retry := b2s(rng.Chance(30)), b2s(rng.Chance(25))
		base := fmt.Sprintf("%s %s %d %d %s %s", fep, retry, from, to, B, C)
		// sizes: the true size of some prefix (equality with the limit), one below, one above, tiny, zero
		p := raParams(fep, retry, fmt.Sprint(from), fmt.Sprint(to), B, C)
		var limits []uint64
		t := from + uint64(rng.Intn(int(to-from)+1))
		if q, err := p.Range(from, t); err == nil {
			s := uint64(q.EstimatedSize())
			limits = append(limits, s, s+1)
			if s > 0 {
				limits = append(limits, s-1)
			}
		}
		limits = append(limits, 0, 1, uint64(rng.Intn(4000)))
		for _, mx := range limits {
			line := fmt.Sprintf("limit %d %s", mx, base)
			raExec(r, line)
			r.Case(line)
		}
		if i < 3 {
			r.Sample(fmt.Sprintf("limit %d %s", limits[0], base))
		}
		// last-block limiter
		for _, ml := range []uint64{0, from, from + 1, t, to, to + 1, from - 1} {
			raExec(r, fmt.Sprintf("adapt %d %s %s %s", ml, b2s(rng.Bool()), b2s(rng.Bool()), base))
		}
		// Range directly, including invalid requests
		f2 := from + uint64(rng.Intn(int(to-from)+1))
		t2 := f2 + uint64(rng.Intn(int(to-f2)+1))
		raExec(r, fmt.Sprintf("range %d %d %s", f2, t2, base))
		if rng.Chance(20) {
			raExec(r, fmt.Sprintf("range %d %d %s", t2+1, f2, base))
			raExec(r, fmt.Sprintf("range %d %d %s", from, to+1, base))
			r.Count("malformed")
		}
	}
}

func raReplay(r *Run, lines []string) {
	for _, l := range lines {
		raExec(r, l)
	}
}
