package main

import (
	"fmt"
	"strings"

	"github.com/ethereum/go-ethereum/common"
)

func liEvents(rng *Rng, w *liWorld, bn uint64, pool []common.Hash, wrongV2 bool, allowInit bool) string {
	var toks []string
	pos := uint64(rng.Intn(3))
	n := rng.Intn(5)
	if rng.Chance(25) {
		n = 3 + rng.Intn(3) // several info updates in one block
	}
	// on the chain every info update of a block carries that block's parent hash and timestamp (then the harness feeds the
	// block as logs through the real log handlers); a third of the blocks keep independent values per update
	same := rng.Chance(67)
	sph, sts := hx(rng.Bytes(32)), liTimestamp(rng, bn, 0)
	for i := 0; i < n; i++ {
		switch k := rng.Intn(10); {
		case k < 5:
			ph, ts := hx(rng.Bytes(32)), liTimestamp(rng, bn, uint64(i))
			if same {
				ph, ts = sph, sts
			}
			toks = append(toks, fmt.Sprintf("i;%d;%s;%s;%s;%d", pos, hx(rng.Bytes(32)), hx(pool[1+rng.Intn(len(pool)-1)][:]), ph, ts))
		case k < 9:
			rid := []uint64{1, 1, 2, 3, 5, 4294967295}[rng.Intn(6)]
			er := pool[rng.Intn(len(pool))]
			if rng.Chance(15) {
				er = common.BytesToHash(rng.Bytes(32))
			}
			toks = append(toks, fmt.Sprintf("vb;%d;%d;%d;%s;%s;%s", pos, rid, rng.Intn(1000), hx(rng.Bytes(32)), hx0(er), hx(rng.Bytes(20))))
		default:
			if allowInit {
				toks = append(toks, fmt.Sprintf("in;%d;%s", rng.Intn(50), hx(rng.Bytes(32))))
				allowInit = false
			}
		}
		pos += 1 + uint64(rng.Intn(3))
	}
	if rng.Chance(12) {
		// one rollup verified twice in this block, back to the value an earlier block left (another rollup moves in between,
		// so that the rollup exit root never returns to a recorded one): the second verification is a new value as of its
		// position in the block although it equals what was committed before the block
		for _, v := range []struct {
			rid uint64
			er  common.Hash
		}{{1, pool[2]}, {2, common.BytesToHash(rng.Bytes(32))}, {1, pool[1]}} {
			toks = append(toks, fmt.Sprintf("vb;%d;%d;%d;%s;%s;%s", pos, v.rid, rng.Intn(1000), hx(rng.Bytes(32)), hx0(v.er), hx(rng.Bytes(20))))
			pos += 1 + uint64(rng.Intn(3))
		}
	}
	// root announcement (V2): correct w.r.t. the tree after this block's updates, or deliberately wrong
	if rng.Chance(35) || wrongV2 {
		ref := liBuildRef(append(append([]string{}, w.survivors...), fmt.Sprintf("blk %d %s", bn, strings.Join(toks, " "))))
		if len(ref.leaves) > 0 {
			root, cnt := ref.roots[len(ref.roots)-1], len(ref.leaves)
			if wrongV2 {
				if rng.Bool() {
					cnt += 1 + rng.Intn(2)
				} else {
					root = common.BytesToHash(rng.Bytes(32))
				}
			}
			toks = append(toks, fmt.Sprintf("v;%s;%d", hx(root[:]), cnt))
		}
	}
	return strings.Join(toks, " ")
}

func liWorldGen(r *Run, rng *Rng, w *liWorld, steps int) {
	w.exec(r, "new")
	pool := []common.Hash{{}, common.BytesToHash(rng.Bytes(32)), common.BytesToHash(rng.Bytes(32)), common.BytesToHash(rng.Bytes(32))}
	first := uint64(1 + rng.Intn(4))
	bn, tip := first, first-1
	initDone := false
	probe := func() {
		ref := liBuildRef(w.survivors)
		for _, q := range liProbe(tip+1, len(ref.leaves), liRollupIDs) {
			w.exec(r, q)
		}
		for _, lf := range ref.leaves {
			if rng.Chance(30) {
				w.exec(r, "q infobyger "+hx(lf.ger[:]))
				w.exec(r, "q firstwithrer "+hx(lf.rer[:]))
			}
		}
		for i, rt := range ref.roots {
			for j := 0; j <= i; j += 1 + i/4 {
				w.exec(r, fmt.Sprintf("q verifyinfoat %d %s", j, hx(rt[:])))
			}
		}
		for _, v := range ref.updRoots {
			for idx, leaf := range v.leaves {
				w.exec(r, fmt.Sprintf("q ler %d %s", uint64(idx)+1, hx(v.root[:])))
				w.exec(r, fmt.Sprintf("q verifyrollup %d %s %s", uint64(idx)+1, hx(v.root[:]), hx(leaf[:])))
				break
			}
		}
		w.exec(r, "q ler 0 "+hx(pool[1][:]))
		w.exec(r, "q verifyrollup 0 "+hx(pool[1][:])+" "+hx(pool[2][:]))
	}
	if rng.Chance(25) {
		// directed: the very FIRST block the syncer is given announces a root that does not match (the store is still empty when
		// it halts); reorgs from block 0 and from the block itself remove nothing and must leave it halted
		evs := liEvents(rng, w, bn, pool, true, false)
		if strings.Contains(evs, "v;") && w.exec(r, fmt.Sprintf("blk %d %s", bn, evs)) == "err inconsistent" {
			for _, b := range []uint64{0, bn} {
				w.exec(r, fmt.Sprintf("reorg %d", b))
				if w.exec(r, "q halted") != "1" {
					r.Fail(fmt.Sprintf("[C14] a reorg from block %d on an empty store (it removed nothing) cleared the halted condition of the L1 info syncer", b), append([]string{"new"}, w.lines...))
				}
			}
			w.checkHaltedQueries(r)
			r.Count("branch:directed-halt-on-first-block")
			w.exec(r, "restart")
		}
	}
	for s := 0; s < steps; s++ {
		halted := w.p.IsHalted()
		if s == steps/2 && !halted {
			// directed: a block with four info updates starting at an ODD leaf index whose last leaf row fails to be stored
			// (three leaves are already in the frontier when the transaction is rolled back), retried in the same process
			mk := func(n int) string {
				ph, ts := hx(rng.Bytes(32)), liTimestamp(rng, bn, 0)
				var toks []string
				for i := 0; i < n; i++ {
					toks = append(toks, fmt.Sprintf("i;%d;%s;%s;%s;%d", i, hx(rng.Bytes(32)), hx(pool[1+rng.Intn(len(pool)-1)][:]), ph, ts))
				}
				return strings.Join(toks, " ")
			}
			if len(liBuildRef(w.survivors).leaves)%2 == 0 {
				if w.exec(r, fmt.Sprintf("blk %d %s", bn, mk(1))) == "ok" {
					tip = bn
					bn++
				}
			}
			evs := mk(4)
			w.exec(r, fmt.Sprintf("blk! %d %d %s", bn, 1000+4, evs))
			if !(len(w.survNums) > 0 && w.survNums[len(w.survNums)-1] == bn) {
				if o := w.exec(r, fmt.Sprintf("blk %d %s", bn, evs)); o != "ok" {
					r.Fail("[C07] retrying a well-formed L1 block after a storage fault did not succeed: "+o, append([]string{"new"}, w.lines...))
				}
			}
			tip = bn
			bn++
			r.Count("branch:directed-odd-index-rollback")
			// directed: one info update whose ninth write statement (a node of the L1 info tree) fails; then a VerifyBatches event
			// whose own row fails: each time the block must fail as a whole and be retried
			for _, d := range []struct {
				k   int
				evs string
			}{{9, mk(1)}, {1001, fmt.Sprintf("vb;0;2;%d;%s;%s;%s", rng.Intn(1000), hx(rng.Bytes(32)), hx0(common.BytesToHash(rng.Bytes(32))), hx(rng.Bytes(20)))}} {
				if o := w.exec(r, fmt.Sprintf("blk! %d %d %s", bn, d.k, d.evs)); o != "ok" {
					if o2 := w.exec(r, fmt.Sprintf("blk %d %s", bn, d.evs)); o2 != "ok" {
						r.Fail("[C07] retrying a well-formed L1 block after a storage fault did not succeed: "+o2, append([]string{"new"}, w.lines...))
					}
				}
				tip = bn
				bn++
			}
			r.Count("branch:directed-node-and-row-faults")
			// directed: a block with one VerifyBatches event while the rollup exit tree's root table cannot be read (a transient
			// fault at the "is this a new value" lookup): the block must fail and be retried — never be accepted without its event
			{
				er := common.BytesToHash(rng.Bytes(32))
				evs := fmt.Sprintf("vb;0;1;%d;%s;%s;%s", rng.Intn(1000), hx(rng.Bytes(32)), hx0(er), hx(rng.Bytes(20)))
				o := w.exec(r, fmt.Sprintf("blk! %d 5001 %s", bn, evs))
				if o == "ok" {
					if vb := w.exec(r, "q lastvb 1"); !strings.Contains(vb, hx(er[:])) {
						r.Fail(fmt.Sprintf("[C05,C07,C11] block %d was accepted (the last-processed marker moved on) while the rollup exit tree could not be read, and its VerifyBatches event is not stored: last verified batch of rollup 1 is `%s`", bn, vb), append([]string{"new"}, w.lines...))
					}
				} else if o2 := w.exec(r, fmt.Sprintf("blk %d %s", bn, evs)); o2 != "ok" {
					r.Fail("[C07] retrying a well-formed L1 block after a read fault did not succeed: "+o2, append([]string{"new"}, w.lines...))
				}
				tip = bn
				bn++
				r.Count("branch:directed-verify-batches-under-read-fault")
			}
			w.checkAgainstContracts(r, "after a rolled-back block of four updates at an odd index, retried")
			w.compareWithTwin(r, "after a rolled-back block of four updates at an odd index, retried")
			continue
		}
		c := rng.Intn(100)
		switch {
		case halted || c < 12:
			lo := first - 1
			b := lo + uint64(rng.Intn(int(tip-lo)+3))
			if tip > lo && rng.Chance(30) {
				b = tip // the most common reorg: exactly the last stored block
			}
			if rng.Chance(35) {
				// the reorg transaction fails at the first row of one of its three deletes; the driver retries (the plain reorg below)
				tbl := []string{"block", "inforoot", "rolluproot"}[rng.Intn(3)]
				if o := w.exec(r, fmt.Sprintf("reorgF %d %s", b, tbl)); o == "err fault" && !halted {
					w.compareWithTwin(r, "after a reorg attempt that failed on a "+tbl+" row")
				}
				r.Count("branch:reorg-fault")
			}
			var lastStored uint64 // the last block row of the store
			must(w.p.DB().QueryRow("SELECT COALESCE(MAX(num), 0) FROM block").Scan(&lastStored))
			var nRemoved int
			must(w.p.DB().QueryRow("SELECT COUNT(*) FROM block WHERE num >= $1", b).Scan(&nRemoved))
			removes := nRemoved > 0
			w.exec(r, fmt.Sprintf("reorg %d", b))
			r.Count("branch:reorg")
			if halted && removes && w.p.IsHalted() {
				// a node that only ever saw the blocks below b is not halted and serves data
				r.Fail(fmt.Sprintf("[C04,C14] a reorg from block %d removed processed blocks (the store ended at %d) and the L1 info syncer is still halted: its queries keep failing where a node that never saw those blocks answers", b, tip), append([]string{"new"}, w.lines...))
			}
			if b <= tip {
				r.Count("branch:reorg-removes")
				tip = b - 1
				bn = b
				if bn < first {
					bn, tip = first, first-1
				}
			}
			if w.exec(r, "q halted") == "1" {
				w.checkHaltedQueries(r)
				if rng.Chance(40) {
					w.exec(r, "restart")
				}
			} else {
				w.compareWithTwin(r, "after reorg")
				w.checkAgainstContracts(r, "after reorg")
				probe()
			}
			initDone = strings.Contains(strings.Join(w.survivors, " "), " in;")
		case c < 20:
			w.exec(r, "restart")
			r.Count("branch:restart")
		case c < 32:
			// announced root / leaf count that does not match: the syncer must halt (and roll the block back)
			evs := liEvents(rng, w, bn, pool, true, false)
			if !strings.Contains(evs, "v;") {
				continue
			}
			obs := w.exec(r, fmt.Sprintf("blk %d %s", bn, evs))
			switch obs {
			case "err inconsistent":
				r.Count("branch:halt")
				w.checkHaltedQueries(r)
				for _, q := range []string{"q lpb", "q lastinfo", "q infobyidx 0", "q lastrer", "q lastvb 1"} {
					w.exec(r, q)
				}
				if o := w.exec(r, fmt.Sprintf("blk %d", bn+1)); o != "err inconsistent" {
					r.Fail("[C14] a halted L1 info syncer accepted a block: "+o, append([]string{"new"}, w.lines...))
				}
				w.exec(r, fmt.Sprintf("reorg %d", tip+1+uint64(rng.Intn(3))))
				if w.exec(r, "q halted") != "1" {
					r.Fail("[C14] a reorg that removed no processed block cleared the halted condition of the L1 info syncer", append([]string{"new"}, w.lines...))
				}
				w.checkHaltedQueries(r)
			case "err constraint", "err other":
				// the block failed before reaching the announcement (e.g. a rollup exit tree state that recurs): dropped
				r.Count("branch:block-unprocessable")
			default:
				r.Fail("[C14] a block announcing a root / leaf count that does not match the synced tree was answered with "+obs, append([]string{"new"}, w.lines...))
			}
		default:
			evs := liEvents(rng, w, bn, pool, false, !initDone)
			faulted := false
			if rng.Chance(25) {
				// C07: one or two attempts in which a write statement of the block's transaction fails, then the driver's retry
				nev := len(strings.Fields(evs))
				for a := 0; a < 1+rng.Intn(2); a++ {
					k := rng.Intn(3 + 36*nev)
					if rng.Chance(50) {
						k = 1000 + rng.Intn(1+nev) // the block row or one of the events' own rows
					}
					if rng.Chance(20) {
						k = 5000 + rng.Intn(2) // a read fault: one of the root tables is unreadable during the block
						r.Count("branch:read-fault")
					}
					if o := w.exec(r, strings.TrimSpace(fmt.Sprintf("blk! %d %d %s", bn, k, evs))); o == "err fault" {
						faulted = true
						if rng.Chance(30) {
							w.exec(r, "restart")
						}
					} else if o == "ok" {
						faulted = false
						break // the fault index lay beyond the block's statements: the block is in
					}
				}
			}
			var obs string
			if len(w.survNums) > 0 && w.survNums[len(w.survNums)-1] == bn {
				obs = "ok"
			} else {
				obs = w.exec(r, strings.TrimSpace(fmt.Sprintf("blk %d %s", bn, evs)))
				if faulted && obs != "ok" && obs != "err constraint" {
					r.Fail("[C07] retrying a well-formed L1 block after a storage fault did not succeed: "+obs, append([]string{"new"}, w.lines...))
				}
			}
			if obs == "ok" && faulted {
				w.checkAgainstContracts(r, "after fault and retry")
				w.compareWithTwin(r, "after fault and retry")
			}
			if obs == "ok" {
				if strings.Contains(evs, "in;") {
					initDone = true
				}
				tip = bn
				bn += 1 + uint64(rng.Intn(2))
				if rng.Chance(40) {
					w.checkAgainstContracts(r, "after block")
					probe()
				}
			} else if obs == "err constraint" {
				// a rollup-exit-tree state that recurs (root is the table's primary key): excluded by collision-freedom on the real chain
				r.Count("branch:block-unprocessable")
			} else {
				r.Fail("[C04,C07,C11] a well-formed L1 block was refused: "+obs, append([]string{"new"}, w.lines...))
			}
		}
	}
	if !w.p.IsHalted() {
		w.checkAgainstContracts(r, "end of history")
		w.compareWithTwin(r, "end of history")
		probe()
	}
}

func liGen(r *Run, rng *Rng) {
	w := &liWorld{}
	defer w.close()
	nw, steps := 10, 14
	if r.Tier == "thorough" {
		nw, steps = 60, 25
	}
	for i := 0; i < nw; i++ {
		liWorldGen(r, rng, w, steps)
		if i < 2 {
			s := strings.Join(w.lines[:min(len(w.lines), 3)], " ; ")
			r.Sample(s[:min(500, len(s))])
		}
	}
}

// block timestamps: mostly realistic, sometimes 0 / small / beyond 32 bits (the contract hashes uint64(block.timestamp))
func liTimestamp(rng *Rng, bn, i uint64) uint64 {
	switch k := rng.Intn(20); {
	case k == 0:
		return 0
	case k == 1:
		return uint64(rng.Intn(1000))
	case k == 2:
		return 1<<32 + uint64(rng.Intn(1<<20))
	case k == 3:
		return 1<<32 - 1 + uint64(rng.Intn(3))
	case k == 4:
		return uint64(1)<<(33+uint(rng.Intn(29))) + uint64(rng.Intn(1<<30))
	default:
		return 1700000000 + bn*12 + i
	}
}
