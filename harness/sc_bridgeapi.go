package main

// Scenario `bridgeapi` (C12): the real bridge service handlers (/l1-info-tree-index, /claim-proof) called through the
// service's own HTTP router, over the real L1 and L2 bridge processors and the real L1 info tree processor, in a joint
// L1/L2 world: mainnet deposits, L2 deposits, info-tree updates at arbitrary points (several per block), verified
// batches of this and of other rollups.

import (
	"database/sql"
	"context"
	"encoding/json"
	"fmt"
	"github.com/0xPolygon/cdk-contracts-tooling/contracts/pp/l2-sovereign-chain/polygonzkevmbridgev2"
	"github.com/ethereum/go-ethereum/accounts/abi/bind"
	"github.com/ethereum/go-ethereum/core/types"
	"github.com/ethereum/go-ethereum/ethclient/simulated"
	"math/big"
	"net/http"
	"net/http/httptest"
	"os"
	"path/filepath"
	"strings"
	"time"

	"github.com/agglayer/aggkit/bridgeservice"
	bridgetypes "github.com/agglayer/aggkit/bridgeservice/types"
	"github.com/agglayer/aggkit/bridgesync"
	"github.com/agglayer/aggkit/l1infotreesync"
	"github.com/agglayer/aggkit/lastgersync"
	"github.com/agglayer/aggkit/sync"
	"github.com/ethereum/go-ethereum/common"
	"github.com/ethereum/go-ethereum/crypto"
)

func init() { scenarios["bridgeapi"] = Scenario{Gen: baGen, Replay: baReplay} }

const baNet = uint32(3) // this L2's network id (rollup id 3, index 2 in the rollup exit tree)

type baInfo struct {
	mcount   int // MER = root of the first mcount L1 deposits
	lers     [5]common.Hash
	lcount   int // number of L2 deposits the LER of this network covers (0 = never verified)
	mer, rer common.Hash
	block    uint64
}

type baWorld struct {
	r      *Run
	dir    string
	lines  []string
	l1b    *bridgesync.VerifProcessor
	l2b    *bridgesync.VerifProcessor
	l1i    *l1infotreesync.VerifProcessor
	ger    *lastgersync.VerifProcessor
	h      http.Handler
	l1deps []common.Hash
	l2deps []common.Hash
	lers   [5]common.Hash
	lcount int
	infos  []baInfo
	injected []int // L1 info leaf indexes whose global exit root has been injected on the L2
}

func (w *baWorld) fail(d string) { w.r.Fail(d, append([]string{}, w.lines...)) }

func (w *baWorld) close() {
	for _, c := range []interface{ Close() error }{w.l1b, w.l2b, w.l1i, w.ger} {
		if c != nil && !isNilIface(c) {
			c.Close()
		}
	}
	w.l1b, w.l2b, w.l1i, w.ger = nil, nil, nil, nil
	if w.dir != "" {
		os.RemoveAll(w.dir)
		w.dir = ""
	}
}

func isNilIface(c interface{ Close() error }) bool {
	switch v := c.(type) {
	case *bridgesync.VerifProcessor:
		return v == nil
	case *l1infotreesync.VerifProcessor:
		return v == nil
	case *lastgersync.VerifProcessor:
		return v == nil
	}
	return false
}

func (w *baWorld) reset(r *Run) {
	w.close()
	*w = baWorld{r: r}
	dir, err := os.MkdirTemp(r.OutDir, "badb")
	must(err)
	w.dir = dir
	w.l1b, err = bridgesync.VerifNewProcessor(filepath.Join(dir, "l1b.sqlite"), "verif-l1b", lg())
	must(err)
	w.l2b, err = bridgesync.VerifNewProcessor(filepath.Join(dir, "l2b.sqlite"), "verif-l2b", lg())
	must(err)
	w.l1i, err = l1infotreesync.VerifNewProcessor(filepath.Join(dir, "l1i.sqlite"))
	must(err)
	w.ger, err = lastgersync.VerifNewProcessor(filepath.Join(dir, "ger.sqlite"))
	must(err)
	svc := bridgeservice.New(&bridgeservice.Config{Logger: lg(), Address: "verif", ReadTimeout: time.Minute, WriteTimeout: time.Minute,
		NetworkID: baNet}, w.l1i.Facade(), w.ger, w.l1b.Facade(0), w.l2b.Facade(baNet))
	w.h = svc.VerifHandler()
}

func baBridge(bn, pos uint64, dc uint32, seed uint64, dest uint32) *bridgesync.Bridge {
	g := NewRng(seed)
	b := &bridgesync.Bridge{BlockNum: bn, BlockPos: pos, DepositCount: dc, LeafType: uint8(g.Intn(2)), OriginNetwork: uint32(g.Intn(4)),
		DestinationNetwork: dest, OriginAddress: common.BytesToAddress(g.Bytes(20)), DestinationAddress: common.BytesToAddress(g.Bytes(20)),
		FromAddress: common.BytesToAddress(g.Bytes(20)), TxHash: common.BytesToHash(g.Bytes(32)), BlockTimestamp: bn * 12,
		Amount: new(big.Int).SetBytes(g.Bytes(1 + g.Intn(31))), Metadata: g.Bytes(g.Intn(3) * 16)}
	if len(b.Metadata) == 0 {
		b.Metadata = nil
	}
	return b
}

func (w *baWorld) get(path string) (int, []byte) {
	rec := httptest.NewRecorder()
	req := httptest.NewRequest(http.MethodGet, path, nil)
	w.h.ServeHTTP(rec, req)
	return rec.Code, rec.Body.Bytes()
}

func (w *baWorld) exec(line string) string {
	w.lines = append(w.lines, line)
	ws := strings.Fields(line)
	u := func(s string) uint64 { return bigOf(s).Uint64() }
	ctx := context.Background()
	switch ws[0] {
	case "new":
		w.reset(w.r)
		w.lines = []string{line}
		return "ok"
	case "l1blk", "l1blk!": // l1blk! = the row of the block's LAST bridge fails to be stored once (all its leaves are already in the frontier), then the driver's retry
	// l1blk <num> tok*  tok = b:<seed> | i:<mcount> | v:<rollup id>:<lcount or seed>
		bn := u(ws[1])
		hash := common.BigToHash(new(big.Int).SetUint64(bn + 1000))
		bb := sync.Block{Num: bn, Hash: hash}
		ib := sync.Block{Num: bn, Hash: hash}
		for i, tok := range ws[2:] {
			f := strings.Split(tok, ":")
			switch f[0] {
			case "b":
				b := baBridge(bn, uint64(i), uint32(len(w.l1deps)), u(f[1]), baNet)
				w.l1deps = append(w.l1deps, bsRefLeaf(b))
				bb.Events = append(bb.Events, bridgesync.Event{Bridge: b})
			case "i":
				mc := int(u(f[1]))
				inf := baInfo{mcount: mc, lers: w.lers, lcount: w.lcount, mer: refRoot(w.l1deps[:mc]), rer: refRoot(w.lers[:]), block: bn}
				if len(f) > 2 && f[2] == "z" {
					inf.mer = common.Hash{}
				}
				w.infos = append(w.infos, inf)
				ib.Events = append(ib.Events, l1infotreesync.Event{UpdateL1InfoTree: &l1infotreesync.UpdateL1InfoTree{
					BlockPosition: uint64(i), MainnetExitRoot: inf.mer, RollupExitRoot: inf.rer,
					ParentHash: common.BigToHash(new(big.Int).SetUint64(bn + 999)), Timestamp: bn * 12}})
			case "v":
				rid := uint32(u(f[1]))
				var er common.Hash
				if rid == baNet {
					w.lcount = int(u(f[2]))
					er = refRoot(w.l2deps[:w.lcount])
				} else {
					er = crypto.Keccak256Hash([]byte(tok), []byte{byte(bn)})
				}
				w.lers[rid-1] = er
				ib.Events = append(ib.Events, l1infotreesync.Event{VerifyBatches: &l1infotreesync.VerifyBatches{
					BlockPosition: uint64(i), RollupID: rid, NumBatch: bn, StateRoot: common.BigToHash(big.NewInt(int64(bn))), ExitRoot: er}})
			}
		}
		if ws[0] == "l1blk!" && len(bb.Events) > 0 {
			last := bb.Events[len(bb.Events)-1].(bridgesync.Event).Bridge.DepositCount
			ctl, err := openCtl(filepath.Join(w.dir, "l1b.sqlite"))
			must(err)
			_, err = ctl.Exec(fmt.Sprintf(`CREATE TRIGGER verif_l1f BEFORE INSERT ON bridge WHEN NEW.deposit_count = %d BEGIN SELECT RAISE(ABORT,'verif fault'); END;`, last))
			must(err)
			err1 := w.l1b.ProcessBlock(ctx, bb)
			_, err = ctl.Exec(`DROP TRIGGER verif_l1f`)
			must(err)
			ctl.Close()
			if err1 == nil {
				w.fail("[C07] a storage fault on a bridge row of the L1 bridge syncer was not reported")
			}
			w.r.Count("branch:l1-bridge-block-faulted-then-retried")
		}
		if err := w.l1b.ProcessBlock(ctx, bb); err != nil {
			w.fail(fmt.Sprintf("[C12,C01] the L1 bridge syncer rejected a well-formed block (%s): %v — no exit root, hence no claim proof, for its deposits", line, err))
			panic(stopRun{})
		}
		if err := w.l1i.ProcessBlock(ctx, ib); err != nil {
			w.fail(fmt.Sprintf("[C12,C11] the L1 info syncer rejected a well-formed block (%s): %v — no L1 info leaf, hence no claim proof, for its updates", line, err))
			panic(stopRun{})
		}
		return "ok"
	case "l2blk": // l2blk <num> b:<seed>*
		bn := u(ws[1])
		blk := sync.Block{Num: bn, Hash: common.BigToHash(new(big.Int).SetUint64(bn + 2000))}
		for i, tok := range ws[2:] {
			f := strings.Split(tok, ":")
			b := baBridge(bn, uint64(i), uint32(len(w.l2deps)), u(f[1]), 0)
			w.l2deps = append(w.l2deps, bsRefLeaf(b))
			blk.Events = append(blk.Events, bridgesync.Event{Bridge: b})
		}
		if err := w.l2b.ProcessBlock(ctx, blk); err != nil {
			return "err l2 bridge"
		}
		return "ok"
	case "inj": // inj <l2 block> <l1 info leaf index>: the oracle injected that leaf's global exit root on this L2
		bn, idx := u(ws[1]), int(u(ws[2]))
		if idx >= len(w.infos) {
			return "bad-op"
		}
		ger := crypto.Keccak256Hash(w.infos[idx].mer[:], w.infos[idx].rer[:])
		blk := sync.Block{Num: bn, Hash: common.BigToHash(new(big.Int).SetUint64(bn + 5000)),
			Events: []interface{}{&lastgersync.Event{GERInfo: &lastgersync.GlobalExitRootInfo{GlobalExitRoot: ger, L1InfoTreeIndex: uint32(idx)}}}}
		if err := w.ger.ProcessBlock(ctx, blk); err != nil {
			return "err ger"
		}
		w.injected = append(w.injected, idx)
		return "ok"
	case "q":
		switch ws[1] {
		case "inj": // q inj <net> <l1 info leaf index>: /injected-l1-info-leaf
			net, idx := uint32(u(ws[2])), uint32(u(ws[3]))
			code, body := w.get(fmt.Sprintf("%s/injected-l1-info-leaf?network_id=%d&leaf_index=%d", bridgeservice.BridgeV1Prefix, net, idx))
			w.r.Evals++
			// the first injected leaf at or after the requested index (the model's answer is compared line by line; this is
			// the property's own reading: the leaf handed out must be one whose global exit root this L2 really has)
			want := -1
			for _, k := range w.injected {
				if k >= int(idx) && (want < 0 || k < want) {
					want = k
				}
			}
			if net == 0 {
				want = -1
				if int(idx) < len(w.infos) {
					want = int(idx)
				}
			}
			if code != http.StatusOK {
				if want >= 0 {
					w.fail(fmt.Sprintf("[C12] /injected-l1-info-leaf failed (%d) for network %d, index %d although leaf %d qualifies", code, net, idx, want))
				}
				return fmt.Sprintf("err %d", code)
			}
			var lf bridgetypes.L1InfoTreeLeafResponse
			if err := json.Unmarshal(body, &lf); err != nil {
				return "badjson"
			}
			got := int(lf.L1InfoTreeIndex)
			if got != want {
				w.fail(fmt.Sprintf("[C12] /injected-l1-info-leaf for network %d, index %d returned leaf %d; the first leaf at or after %d whose global exit root this network has is %d (injected: %v) — a claim against the returned leaf is rejected by the bridge contract", net, idx, got, idx, want, w.injected))
			} else if got < len(w.infos) && common.HexToHash(string(lf.GlobalExitRoot)) != crypto.Keccak256Hash(w.infos[got].mer[:], w.infos[got].rer[:]) {
				w.fail(fmt.Sprintf("[C12] /injected-l1-info-leaf returned leaf %d with a global exit root that is not that leaf's", got))
			}
			w.r.Count("injq:ok")
			return fmt.Sprintf("leaf %d", got)
		case "idx": // q idx <net> <deposit count>
			net, dc := uint32(u(ws[2])), uint32(u(ws[3]))
			code, body := w.get(fmt.Sprintf("%s/l1-info-tree-index?network_id=%d&deposit_count=%d", bridgeservice.BridgeV1Prefix, net, dc))
			w.r.Evals++
			if code != http.StatusOK {
				w.r.Count("idx:error")
				return fmt.Sprintf("err %d", code)
			}
			var idx uint32
			if err := json.Unmarshal(body, &idx); err != nil {
				return "badjson"
			}
			w.r.Count("idx:ok")
			// the named leaf's exit roots cover the bridge
			if int(idx) >= len(w.infos) {
				w.fail(fmt.Sprintf("[C12] /l1-info-tree-index returned leaf %d, the tree has %d leaves", idx, len(w.infos)))
			} else if net == 0 && w.infos[idx].mcount <= int(dc) {
				w.fail(fmt.Sprintf("[C12] /l1-info-tree-index returned leaf %d for mainnet deposit %d, but that leaf's mainnet exit root covers only %d deposits", idx, dc, w.infos[idx].mcount))
			} else if net == baNet && w.infos[idx].lcount <= int(dc) {
				w.fail(fmt.Sprintf("[C12] /l1-info-tree-index returned leaf %d for L2 deposit %d, but that leaf's rollup exit root covers only %d deposits of this network", idx, dc, w.infos[idx].lcount))
			}
			w.r.Case(fmt.Sprintf("idx:%d:%d", net, min(int(idx), 6)))
			return fmt.Sprintf("idx %d", idx)
		case "proof", "proof!": // q proof <net> <leaf> <deposit count>; `proof!`: the exit tree's node table cannot be read meanwhile
			net, leaf, dc := uint32(u(ws[2])), uint32(u(ws[3])), uint32(u(ws[4]))
			readFault := ws[1] == "proof!"
			var fdb *sql.DB
			if readFault {
				fdb = w.l1b.DB()
				if net != 0 {
					fdb = w.l2b.DB()
				}
				_, err := fdb.Exec(`ALTER TABLE rht RENAME TO rht_verif_away`)
				must(err)
			}
			code, body := w.get(fmt.Sprintf("%s/claim-proof?network_id=%d&leaf_index=%d&deposit_count=%d", bridgeservice.BridgeV1Prefix, net, leaf, dc))
			if readFault {
				_, err := fdb.Exec(`ALTER TABLE rht_verif_away RENAME TO rht`)
				must(err)
				w.r.Count("proof-with-unreadable-exit-tree-nodes")
				if code != http.StatusOK {
					return "err 500" // the proof cannot be computed: an error, not a proof
				}
				// an answer was given all the same: it is judged like any other (it must verify)
			}
			w.r.Evals++
			if code != http.StatusOK {
				w.fail(fmt.Sprintf("[C12] /claim-proof failed (%d) for network %d, leaf %d, deposit %d although that leaf covers the bridge", code, net, leaf, dc))
				return fmt.Sprintf("err %d", code)
			}
			var cp bridgetypes.ClaimProof
			if err := json.Unmarshal(body, &cp); err != nil {
				return "badjson"
			}
			toH := func(p bridgetypes.Proof) []common.Hash {
				out := make([]common.Hash, len(p))
				for i, s := range p {
					out[i] = common.HexToHash(string(s))
				}
				return out
			}
			inf := w.infos[leaf]
			mer, rer := common.HexToHash(string(cp.L1InfoTreeLeaf.MainnetExitRoot)), common.HexToHash(string(cp.L1InfoTreeLeaf.RollupExitRoot))
			if mer != inf.mer || rer != inf.rer || cp.L1InfoTreeLeaf.L1InfoTreeIndex != leaf ||
				common.HexToHash(string(cp.L1InfoTreeLeaf.GlobalExitRoot)) != crypto.Keccak256Hash(inf.mer[:], inf.rer[:]) {
				w.fail(fmt.Sprintf("[C12] /claim-proof: the returned L1 info leaf is not leaf %d", leaf))
			}
			// the literal reading: would the bridge contract accept these proofs? Its own verifyMerkleProof (real bytecode in the
			// simulated EVM, a pure function) is asked
			accepts := func(leafHash common.Hash, proof []common.Hash, index uint32, root common.Hash) bool {
				var p [32][32]byte
				for i := 0; i < 32 && i < len(proof); i++ {
					p[i] = proof[i]
				}
				ok, err := baBridgeContract().VerifyMerkleProof(&bind.CallOpts{}, leafHash, p, index, root)
				must(err)
				w.r.Evals++
				return ok
			}
			if net == 0 {
				if !accepts(w.l1deps[dc], toH(cp.ProofLocalExitRoot), dc, mer) {
					w.fail(fmt.Sprintf("[C12] /claim-proof: the bridge contract's verifyMerkleProof rejects the returned proof of mainnet deposit %d against the mainnet exit root of leaf %d", dc, leaf))
				}
			} else if !accepts(w.l2deps[dc], toH(cp.ProofLocalExitRoot), dc, inf.lers[baNet-1]) || !accepts(inf.lers[baNet-1], toH(cp.ProofRollupExitRoot), baNet-1, rer) {
				w.fail(fmt.Sprintf("[C12] /claim-proof: the bridge contract's verifyMerkleProof rejects the returned proofs of L2 deposit %d under leaf %d", dc, leaf))
			}
			if net == 0 {
				if refCalcRoot(w.l1deps[dc], toH(cp.ProofLocalExitRoot), dc) != mer {
					w.fail(fmt.Sprintf("[C12] /claim-proof: mainnet deposit %d does not hash with the returned proof to the mainnet exit root of leaf %d", dc, leaf))
				}
			} else {
				ler := refCalcRoot(w.l2deps[dc], toH(cp.ProofLocalExitRoot), dc)
				if ler != inf.lers[baNet-1] {
					w.fail(fmt.Sprintf("[C12] /claim-proof: L2 deposit %d does not hash with the returned proof to the local exit root inside leaf %d", dc, leaf))
				}
				if refCalcRoot(ler, toH(cp.ProofRollupExitRoot), baNet-1) != rer {
					w.fail(fmt.Sprintf("[C12] /claim-proof: the local exit root does not hash with the returned rollup proof to the rollup exit root of leaf %d", leaf))
				}
			}
			w.r.Case(fmt.Sprintf("proof:%d:%d:%d", net, min(int(dc), 4), min(int(leaf), 6)))
			return fmt.Sprintf("proof leaf=%d", cp.L1InfoTreeLeaf.L1InfoTreeIndex)
		}
	}
	panic("bad op " + line)
}

func baReplay(r *Run, lines []string) {
	w := &baWorld{r: r}
	defer w.close()
	for _, l := range lines {
		r.Emit(l, w.exec(l))
	}
}

func baGen(r *Run, rng *Rng) {
	w := &baWorld{r: r}
	defer w.close()
	nw, steps := 12, 16
	if r.Tier == "thorough" {
		nw, steps = 80, 30
	}
	do := func(l string) {
		r.Emit(l, w.exec(l))
		r.Count("op:" + strings.Join(strings.Fields(l)[:min(2, len(strings.Fields(l)))], " "))
	}
	for wi := 0; wi < nw; wi++ {
		do("new")
		l1, l2 := uint64(0), uint64(0)
		l1n, l2n := 0, 0 // deposits so far
		injBlk := uint64(0)
		lastMc, lastLc := 0, 0
		rerV, lastKey := 0, [2]int{-1, -1} // the contract records an info leaf only when the global exit root changed
		zeroMER := rng.Chance(60) || wi%4 == 0
		info := func(mc int) string {
			if lastKey == [2]int{mc, rerV} {
				return ""
			}
			lastKey = [2]int{mc, rerV}
			if mc == 0 && zeroMER {
				return "i:0:z" // the GER contract's mainnet exit root is still bytes32(0): no mainnet deposit has updated it
			}
			return fmt.Sprintf("i:%d", mc)
		}
		add := func(toks []string, t string) []string {
			if t == "" {
				return toks
			}
			return append(toks, t)
		}
		startEmpty := rng.Chance(30) || wi%4 == 0 // worlds whose first info leaves predate any deposit
		var seeds1, seeds2 []uint64               // a user repeating a bridge produces the same leaf again
		bseed := func(pool *[]uint64) uint64 {
			if len(*pool) > 0 && rng.Chance(30) {
				return (*pool)[rng.Intn(len(*pool))]
			}
			x := rng.U64() % 1000000
			*pool = append(*pool, x)
			return x
		}
		if wi == 0 {
			// directed prelude: the info tree is updated (a rollup is verified) before the first mainnet deposit, so leaf 0
			// carries the all-zero mainnet exit root; deposit 0 and the first covering leaf follow in the next block
			l1 += 5
			do(fmt.Sprintf("l1blk %d v:1:%d %s", l1, rng.U64()%1000000, "i:0:z"))
			rerV++
			lastKey = [2]int{0, rerV}
			l1++
			do(fmt.Sprintf("l1blk %d b:%d i:1", l1, bseed(&seeds1)))
			l1n, lastMc = 1, 1
			lastKey = [2]int{1, rerV}
			do("q idx 0 0")
			do("q idx 0 1")
			r.Count("branch:prelude-zero-mainnet-exit-root")
		}
		for st := 0; st < steps; st++ {
			if rng.Chance(35) {
				l2 += uint64(1 + rng.Intn(2))
				n := 1 + rng.Intn(3)
				var toks []string
				for j := 0; j < n; j++ {
					toks = append(toks, fmt.Sprintf("b:%d", bseed(&seeds2)))
				}
				l2n += n
				do(fmt.Sprintf("l2blk %d %s", l2, strings.Join(toks, " ")))
				continue
			}
			l1 += uint64(1 + rng.Intn(3))
			n := 1 + rng.Intn(4)
			var toks []string
			for j := 0; j < n; j++ {
				x := rng.Intn(100)
				switch {
				case x < 40:
					toks = append(toks, fmt.Sprintf("b:%d", bseed(&seeds1)))
					l1n++
				case x < 75:
					mc := lastMc
					if l1n > lastMc {
						mc = lastMc + 1 + rng.Intn(l1n-lastMc)
					}
					if mc == 0 && !startEmpty {
						toks = append(toks, fmt.Sprintf("b:%d", bseed(&seeds1)))
						l1n++
						mc = 1
					}
					lastMc = mc
					toks = add(toks, info(mc))
				case x < 90:
					if lastLc > 0 && rng.Chance(25) {
						// the rollup is verified again with the SAME local exit root (no new batch content): nothing to record
						toks = append(toks, fmt.Sprintf("v:%d:%d", baNet, lastLc))
						r.Count("branch:re-verification-unchanged")
					} else if l2n > lastLc {
						lastLc = lastLc + 1 + rng.Intn(l2n-lastLc)
						toks = append(toks, fmt.Sprintf("v:%d:%d", baNet, lastLc))
						rerV++
						if rng.Chance(70) {
							toks = add(toks, info(lastMc))
						}
					}
				default:
					toks = append(toks, fmt.Sprintf("v:%d:%d", []int{1, 2, 5}[rng.Intn(3)], rng.U64()%1000000))
					rerV++
					if rng.Chance(50) {
						toks = add(toks, info(lastMc))
					}
				}
			}
			if len(toks) == 0 {
				continue
			}
			nb := 0
			for _, t := range toks {
				if strings.HasPrefix(t, "b:") {
					nb++
				}
			}
			if nb >= 2 && rng.Chance(50) {
				do(fmt.Sprintf("l1blk! %d %s", l1, strings.Join(toks, " ")))
			} else {
				do(fmt.Sprintf("l1blk %d %s", l1, strings.Join(toks, " ")))
			}
			if len(w.infos) > 0 && rng.Chance(45) {
				// the oracle injects one of the newer L1 info leaves on the L2 (never all of them: several updates lie between
				// two injections)
				k := len(w.infos) - 1 - rng.Intn(min(3, len(w.infos)))
				dup := false
				for _, j := range w.injected {
					dup = dup || j == k
				}
				if !dup {
					injBlk++
					do(fmt.Sprintf("inj %d %d", injBlk, k))
				}
			}
			if st%3 == 2 || st == steps-1 {
				for k := 0; k <= len(w.infos); k++ {
					do(fmt.Sprintf("q inj %d %d", baNet, k))
					if rng.Chance(30) {
						do(fmt.Sprintf("q inj 0 %d", k))
					}
				}
				// ask for every deposit (and one beyond) on both networks; for a few covering leaves ask for the proof
				for dc := 0; dc <= l1n; dc++ {
					do(fmt.Sprintf("q idx 0 %d", dc))
				}
				for dc := 0; dc <= l2n; dc++ {
					do(fmt.Sprintf("q idx %d %d", baNet, dc))
				}
				for k := range w.infos {
					if w.infos[k].mcount > 0 && rng.Chance(50) {
						do(fmt.Sprintf("q proof 0 %d %d", k, rng.Intn(w.infos[k].mcount)))
					}
					if w.infos[k].lcount > 0 && rng.Chance(50) {
						do(fmt.Sprintf("q proof %d %d %d", baNet, k, rng.Intn(w.infos[k].lcount)))
					}
					if w.infos[k].mcount > 0 && rng.Chance(15) {
						do(fmt.Sprintf("q proof! 0 %d %d", k, rng.Intn(w.infos[k].mcount)))
					}
					if w.infos[k].lcount > 0 && rng.Chance(15) {
						do(fmt.Sprintf("q proof! %d %d %d", baNet, k, rng.Intn(w.infos[k].lcount)))
					}
				}
			}
		}
		if wi < 2 {
			s := strings.Join(w.lines[:min(len(w.lines), 8)], " ; ")
			r.Sample(s[:min(len(s), 500)])
		}
	}
}

// the bridge contract's implementation bytecode in a simulated EVM (its verifyMerkleProof / getLeafValue are pure functions)
var baContract *polygonzkevmbridgev2.Polygonzkevmbridgev2

func baBridgeContract() *polygonzkevmbridgev2.Polygonzkevmbridgev2 {
	if baContract == nil {
		dep := ebKey(9)
		bal, _ := new(big.Int).SetString("1000000000000000000000000000000", 10)
		be := simulated.NewBackend(map[common.Address]types.Account{dep.From: {Balance: bal}}, simulated.WithBlockGasLimit(999999999999999999))
		_, _, c, err := polygonzkevmbridgev2.DeployPolygonzkevmbridgev2(dep, be.Client())
		must(err)
		be.Commit()
		baContract = c
	}
	return baContract
}
