package main

import (
	"time"
	"flag"
	"fmt"
	"os"
	"strconv"

	"github.com/agglayer/aggkit/log"
)

var theLogger *log.Logger

// lg returns a logger that discards everything below fatal (the code under test logs heavily)
func lg() *log.Logger {
	if theLogger == nil {
		out := "/dev/null"
		if os.Getenv("VERIF_LOG") != "" {
			out = "stderr"
		}
		lvl := "fatal"
		if os.Getenv("VERIF_LOG") != "" {
			lvl = os.Getenv("VERIF_LOG")
		}
		log.Init(log.Config{Environment: "production", Level: lvl, Outputs: []string{out}})
		theLogger = log.WithFields("m", "verif")
	}
	return theLogger
}

// A scenario generates ops (unless replaying), runs them on the real code and records observations.
type Scenario struct {
	Gen    func(r *Run, rng *Rng)          // generate + execute
	Replay func(r *Run, lines []string)    // execute given op lines
}

var scenarios = map[string]Scenario{}

func main() {
	if len(os.Args) < 2 {
		fmt.Println("usage: harness <scenario> [-seed n] [-tier quick|thorough] [-out dir] [-replay file]")
		os.Exit(2)
	}
	sc := os.Args[1]
	fs := flag.NewFlagSet("harness", flag.ExitOnError)
	seed := fs.Uint64("seed", 1, "seed")
	tier := fs.String("tier", "quick", "tier")
	out := fs.String("out", "", "output dir")
	replay := fs.String("replay", "", "replay ops file")
	fs.Parse(os.Args[2:])
	if v := os.Getenv("VERIF_SEED"); v != "" && !isFlagSet(fs, "seed") {
		if n, err := strconv.ParseUint(v, 10, 64); err == nil {
			*seed = n
		}
	}
	s, ok := scenarios[sc]
	if !ok {
		fmt.Println("unknown scenario", sc)
		os.Exit(2)
	}
	if *out == "" {
		fmt.Println("-out required")
		os.Exit(2)
	}
	lg()
	r := NewRun(sc, *tier, *seed, *out)
	r.Watchdog(5 * time.Minute)
	func() {
		// a monitor that found the implementation unable to continue (e.g. a store left locked) ends the run
		// after recording its failure; everything emitted so far is still compared
		defer func() {
			if x := recover(); x != nil {
				if _, ok := x.(stopRun); !ok {
					panic(x)
				}
			}
		}()
		if *replay != "" {
			s.Replay(r, readLines(*replay))
		} else {
			s.Gen(r, NewRng(*seed))
		}
	}()
	r.Close()
}

func isFlagSet(fs *flag.FlagSet, name string) bool {
	found := false
	fs.Visit(func(f *flag.Flag) {
		if f.Name == name {
			found = true
		}
	})
	return found
}
