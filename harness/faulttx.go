package main

import (
	"database/sql"
	"errors"

	dbtypes "github.com/agglayer/aggkit/db/types"
)

var errVerifFault = errors.New("verif injected storage fault")

// faultTx wraps a real transaction and fails the failAt-th statement (Exec/Query, 0-based) issued through it.
type faultTx struct {
	dbtypes.Txer
	n      int
	failAt int
	hit    bool
}

func (f *faultTx) tick() bool {
	k := f.n
	f.n++
	if k == f.failAt {
		f.hit = true
		return true
	}
	return false
}

func (f *faultTx) Exec(q string, args ...interface{}) (sql.Result, error) {
	if f.tick() {
		return nil, errVerifFault
	}
	return f.Txer.Exec(q, args...)
}

func (f *faultTx) Query(q string, args ...interface{}) (*sql.Rows, error) {
	if f.tick() {
		return nil, errVerifFault
	}
	return f.Txer.Query(q, args...)
}

func (f *faultTx) QueryRow(q string, args ...interface{}) *sql.Row {
	f.n++ // cannot inject into *sql.Row; the tree package reads through Query (meddler)
	return f.Txer.QueryRow(q, args...)
}
