package main

// aggsender scenario: monitors (independent references, no model involved) and the world generator.

import (
	"bytes"
	"context"
	"database/sql"
	"encoding/json"
	"fmt"
	"github.com/ethereum/go-ethereum/accounts/abi/bind"
	"math/big"
	"os"
	"sort"
	"strings"

	v1nodetypes "buf.build/gen/go/agglayer/agglayer/protocolbuffers/go/agglayer/node/types/v1"
	v1 "buf.build/gen/go/agglayer/agglayer/protocolbuffers/go/agglayer/node/v1"
	v1types "buf.build/gen/go/agglayer/interop/protocolbuffers/go/agglayer/interop/types/v1"
	agglayergrpc "github.com/agglayer/aggkit/agglayer/grpc"
	agglayertypes "github.com/agglayer/aggkit/agglayer/types"
	aggsenderdb "github.com/agglayer/aggkit/aggsender/db"
	aggsendertypes "github.com/agglayer/aggkit/aggsender/types"
	"github.com/agglayer/aggkit/bridgesync"
	cfgtypes "github.com/agglayer/aggkit/config/types"
	"github.com/agglayer/aggkit/db"
	aggkitgrpc "github.com/agglayer/aggkit/grpc"
	"github.com/ethereum/go-ethereum/common"
	"github.com/ethereum/go-ethereum/crypto"
	"google.golang.org/grpc"
	"google.golang.org/protobuf/proto"
	"time"
)

func openCtl(path string) (*sql.DB, error) { return db.NewSQLiteDB(path) }

func be4(x uint32) []byte { return []byte{byte(x >> 24), byte(x >> 16), byte(x >> 8), byte(x)} }

// ---------- reference conversions ----------

type refExit struct {
	leafType         uint8
	origNet, destNet uint32
	origAddr, dest   common.Address
	amount           [32]byte
	metaHash         []byte // keccak(metadata) or nil when the metadata is empty
}

func refExitOf(leafType uint8, on uint32, oa common.Address, dn uint32, da common.Address, amt *big.Int, meta []byte) refExit {
	e := refExit{leafType: leafType, origNet: on, destNet: dn, origAddr: oa, dest: da}
	amt.FillBytes(e.amount[:])
	if len(meta) > 0 {
		e.metaHash = crypto.Keccak256(meta)
	}
	return e
}

func (e refExit) diff(p *v1types.BridgeExit) string {
	if p == nil {
		return "missing"
	}
	wantLT := v1types.LeafType_LEAF_TYPE_TRANSFER
	if e.leafType == 1 {
		wantLT = v1types.LeafType_LEAF_TYPE_MESSAGE
	}
	switch {
	case p.LeafType != wantLT:
		return "leaf type"
	case p.TokenInfo == nil || p.TokenInfo.OriginNetwork != e.origNet:
		return "origin network"
	case p.TokenInfo.OriginTokenAddress == nil || !bytes.Equal(p.TokenInfo.OriginTokenAddress.Value, e.origAddr[:]):
		return "origin address"
	case p.DestNetwork != e.destNet:
		return "destination network"
	case p.DestAddress == nil || !bytes.Equal(p.DestAddress.Value, e.dest[:]):
		return "destination address"
	case p.Amount == nil || !bytes.Equal(p.Amount.Value, e.amount[:]):
		return "amount"
	case e.metaHash == nil && p.Metadata != nil:
		return "metadata (expected none)"
	case e.metaHash != nil && (p.Metadata == nil || !bytes.Equal(p.Metadata.Value, e.metaHash)):
		return "metadata hash"
	}
	return ""
}

// the exit leaf as the Agglayer hashes it, from the wire message alone
func wireExitHash(p *v1types.BridgeExit) common.Hash {
	lt := byte(0)
	if p.LeafType == v1types.LeafType_LEAF_TYPE_MESSAGE {
		lt = 1
	}
	buf := []byte{lt}
	buf = append(buf, be4(p.TokenInfo.OriginNetwork)...)
	buf = append(buf, p.TokenInfo.OriginTokenAddress.Value...)
	buf = append(buf, be4(p.DestNetwork)...)
	buf = append(buf, p.DestAddress.Value...)
	if p.Amount != nil {
		buf = append(buf, p.Amount.Value...)
	} else {
		buf = append(buf, make([]byte, 32)...)
	}
	if p.Metadata != nil {
		buf = append(buf, p.Metadata.Value...)
	} else {
		buf = append(buf, crypto.Keccak256(nil)...)
	}
	return crypto.Keccak256Hash(buf)
}

func (w *asWorld) eventsIn(from, to uint64) (bs []*bridgesync.Bridge, cs []*bridgesync.Claim) {
	var nums []uint64
	for n := range w.l2Blocks {
		if n >= from && n <= to {
			nums = append(nums, n)
		}
	}
	sort.Slice(nums, func(i, j int) bool { return nums[i] < nums[j] })
	for _, n := range nums {
		for _, e := range w.l2Blocks[n] {
			if e.bridge != nil {
				bs = append(bs, e.bridge)
			} else {
				cs = append(cs, e.claim)
			}
		}
	}
	return
}

// ---------- monitors ----------

func (w *asWorld) checkSubmission(c *asCert) {
	r := w.r
	r.Evals++
	q := c.req
	tag := "[C02]"
	if c.afterRe {
		tag = "[C13]"
	}
	prior := w.agg.certs[:len(w.agg.certs)-1]
	// --- C02 / C13: position in the chain
	for _, p := range prior {
		if p.status.IsOpen() {
			w.fail(fmt.Sprintf("%s certificate %d submitted while certificate %d is still undecided (%s)", tag, c.id, p.id, p.status))
		}
	}
	expH, expFrom, expPrev := uint64(0), w.start+1, w.rootAt[0]
	for i := len(prior) - 1; i >= 0; i-- {
		if prior[i].status == agglayertypes.Settled {
			pf, po, _, _ := asDecodeMeta(prior[i].req.Metadata.Value)
			expH, expFrom, expPrev = prior[i].req.Height+1, pf+uint64(po)+1, common.BytesToHash(prior[i].req.NewLocalExitRoot.Value)
			break
		}
	}
	from, off, _, ver := asDecodeMeta(q.Metadata.Value)
	to := from + uint64(off)
	prev, newR := common.BytesToHash(q.PrevLocalExitRoot.Value), common.BytesToHash(q.NewLocalExitRoot.Value)
	if q.Height != expH {
		w.fail(fmt.Sprintf("%s certificate %d has height %d, expected %d (last settled + 1)", tag, c.id, q.Height, expH))
	}
	if prev != expPrev {
		w.fail(fmt.Sprintf("%s certificate %d starts from exit root %s, expected %s (new exit root of the last settled certificate)",
			tag, c.id, w.lerName(prev), w.lerName(expPrev)))
	}
	if from != expFrom {
		w.fail(fmt.Sprintf("%s certificate %d starts at block %d, expected %d (block after the last settled certificate)", tag, c.id, from, expFrom))
	}
	if n := len(prior); n > 0 && prior[n-1].status == agglayertypes.InError {
		pf, _, _, _ := asDecodeMeta(prior[n-1].req.Metadata.Value)
		if q.Height != prior[n-1].req.Height || from != pf {
			w.fail(fmt.Sprintf("%s replacement %d does not reuse height/first block of the in-error certificate %d", tag, c.id, prior[n-1].id))
		}
		r.Count("branch:replacement")
	}
	if q.NetworkId != asNet {
		w.fail("[C03] network id")
	}
	// --- C03: content
	if ver != 2 {
		w.fail("[C03] metadata version")
	}
	if to < from || to > w.l2Last {
		w.fail(fmt.Sprintf("[C03] certificate %d metadata names blocks %d..%d (last L2 block %d)", c.id, from, to, w.l2Last))
		return
	}
	bs, cs := w.eventsIn(from, to)
	if len(bs) != len(q.BridgeExits) || len(cs) != len(q.ImportedBridgeExits) {
		w.fail(fmt.Sprintf("[C03] certificate %d for blocks %d..%d carries %d exits / %d imported exits, the blocks hold %d / %d",
			c.id, from, to, len(q.BridgeExits), len(q.ImportedBridgeExits), len(bs), len(cs)))
		return
	}
	for i, b := range bs {
		if d := refExitOf(b.LeafType, b.OriginNetwork, b.OriginAddress, b.DestinationNetwork, b.DestinationAddress, b.Amount, b.Metadata).diff(q.BridgeExits[i]); d != "" {
			w.fail(fmt.Sprintf("[C03] certificate %d bridge exit %d (deposit %d) differs from the bridge event: %s", c.id, i, b.DepositCount, d))
		}
	}
	for i, cl := range cs {
		ib := q.ImportedBridgeExits[i]
		lt := uint8(0)
		if cl.IsMessage {
			lt = 1
		}
		if d := refExitOf(lt, cl.OriginNetwork, cl.OriginAddress, cl.DestinationNetwork, cl.DestinationAddress, cl.Amount, cl.Metadata).diff(ib.BridgeExit); d != "" {
			w.fail(fmt.Sprintf("[C03] certificate %d imported exit %d differs from the claim event: %s", c.id, i, d))
		}
		if ib.GlobalIndex == nil || new(big.Int).SetBytes(ib.GlobalIndex.Value).Cmp(cl.GlobalIndex) != 0 {
			w.fail(fmt.Sprintf("[C03] certificate %d imported exit %d carries another global index than the claim", c.id, i))
		}
	}
	w.checkClaimProofs(c, cs)
	// the exit root follows from the exits: append the wire exits' hashes to the tree of the previous root
	if pc, ok := w.roots[prev]; ok {
		var t depTree
		for _, lh := range w.leafHash[:pc] {
			t.add(lh)
		}
		for _, e := range q.BridgeExits {
			t.add(wireExitHash(e))
		}
		if t.root() != newR {
			w.fail(fmt.Sprintf("[C03,C02] certificate %d: appending its %d exits to the tree of its previous exit root (%d leaves) does not give its new exit root %s",
				c.id, len(q.BridgeExits), pc, w.lerName(newR)))
		}
		r.Case(fmt.Sprintf("root:%d+%d", pc%4, len(q.BridgeExits)))
	} else {
		w.fail(fmt.Sprintf("[C03] certificate %d: previous exit root is not a root of the L2 exit tree", c.id))
	}
	// --- C10: the signed hash is the PP commitment of what was sent
	var gis [][]byte
	for _, ib := range q.ImportedBridgeExits {
		le := make([]byte, 32)
		for i := 0; i < 32; i++ {
			le[i] = ib.GlobalIndex.Value[31-i]
		}
		gis = append(gis, crypto.Keccak256(le))
	}
	commit := crypto.Keccak256Hash(newR[:], crypto.Keccak256(gis...))
	var wireSig []byte
	if w.fep {
		// FEP commitment: new exit root, (little-endian global index, exit leaf) per imported exit, height, aggchain params
		var chunks []byte
		for _, ib := range q.ImportedBridgeExits {
			for i := 0; i < 32; i++ {
				chunks = append(chunks, ib.GlobalIndex.Value[31-i])
			}
			eh := wireExitHash(ib.BridgeExit)
			chunks = append(chunks, eh[:]...)
		}
		l8 := make([]byte, 8)
		for i := 0; i < 8; i++ {
			l8[i] = byte(q.Height >> (8 * i))
		}
		gen, ok := q.AggchainData.GetData().(*v1types.AggchainData_Generic)
		if !ok || gen.Generic.AggchainParams == nil {
			w.fail(fmt.Sprintf("[C10] certificate %d: an aggchain-prover certificate without aggchain proof data", c.id))
			return
		}
		commit = crypto.Keccak256Hash(newR[:], crypto.Keccak256(chunks), l8, gen.Generic.AggchainParams.Value)
		if gen.Generic.Signature != nil {
			wireSig = gen.Generic.Signature.Value
		}
	} else if sig, ok := q.AggchainData.GetData().(*v1types.AggchainData_Signature); ok {
		wireSig = sig.Signature.Value
	}
	if c.signed != commit {
		w.fail(fmt.Sprintf("[C10] certificate %d: the hash handed to the signer is not the commitment of the submitted content", c.id))
	}
	want, _ := w.signer.SignHash(context.Background(), commit)
	w.signer.hashes = w.signer.hashes[:len(w.signer.hashes)-1]
	if !bytes.Equal(wireSig, want) {
		w.fail(fmt.Sprintf("[C10] certificate %d: the submitted signature is not the signer's output for the commitment", c.id))
	}
	// the stored copy reproduces the same wire message
	if w.node != nil && w.storage != nil {
		if row, err := w.storage.GetCertificateByHeight(q.Height); err == nil && row != nil && row.SignedCertificate != nil &&
			row.Header.CertificateID == idHash(c.id) {
			var back agglayertypes.Certificate
			if err := json.Unmarshal([]byte(*row.SignedCertificate), &back); err != nil {
				w.fail(fmt.Sprintf("[C10] certificate %d: stored copy does not parse: %v", c.id, err))
			} else {
				cap := &captureSub{}
				cl := agglayergrpc.VerifNewAgglayerGRPCClient(&aggkitgrpc.ClientConfig{RequestTimeout: cfgtypes.NewDuration(time.Minute)}, nil, nil, cap)
				if _, err := cl.SendCertificate(context.Background(), &back); err != nil || cap.got == nil || !proto.Equal(cap.got, q) {
					w.fail(fmt.Sprintf("[C10] certificate %d: the stored copy does not reproduce the submitted message", c.id))
				}
				// an imported exit that cannot be put on the wire (claim data lost, e.g. restored from `"claim_data":null`): the
				// client must refuse the whole certificate — what reaches the Agglayer may never be less than what was signed
				if n := len(back.ImportedBridgeExits); n > 0 {
					k := int(c.id) % n
					saved := back.ImportedBridgeExits[k].ClaimData
					back.ImportedBridgeExits[k].ClaimData = nil
					cap2 := &captureSub{}
					cl2 := agglayergrpc.VerifNewAgglayerGRPCClient(&aggkitgrpc.ClientConfig{RequestTimeout: cfgtypes.NewDuration(time.Minute)}, nil, nil, cap2)
					_, err := cl2.SendCertificate(context.Background(), &back)
					back.ImportedBridgeExits[k].ClaimData = saved
					r.Evals++
					if cap2.got != nil && len(cap2.got.ImportedBridgeExits) != n {
						w.fail(fmt.Sprintf("[C10] certificate %d with an unconvertible imported exit (#%d of %d) was submitted with %d imported exits (err=%v): the message is not what the signature covers",
							c.id, k, n, len(cap2.got.ImportedBridgeExits), err))
					}
				}
			}
		}
	}
	r.Count(fmt.Sprintf("sub:nb%d", min(len(bs), 3)))
	r.Count(fmt.Sprintf("sub:nc%d", min(len(cs), 3)))
	if to < w.l2Last {
		r.Count("branch:range-cut")
	}
	if c.afterRe {
		r.Count("branch:first-after-restart")
	}
	r.Case(fmt.Sprintf("sub:h%d:%d:%d:%v", min(int(q.Height), 5), min(len(bs), 3), min(len(cs), 3), c.afterRe))
}

type captureSub struct{ got *v1nodetypes.Certificate }

func (c *captureSub) SubmitCertificate(ctx context.Context, in *v1.SubmitCertificateRequest,
	opts ...grpc.CallOption) (*v1.SubmitCertificateResponse, error) {
	c.got = in.Certificate
	return &v1.SubmitCertificateResponse{CertificateId: &v1nodetypes.CertificateId{Value: &v1types.FixedBytes32{Value: make([]byte, 32)}}}, nil
}

// a refusal at start-up is legitimate only when the records contradict the Agglayer's (or a call failed)
func (w *asWorld) checkRefusal(callFailed bool) {
	w.r.Evals++
	w.r.Count("restart:refused")
	if callFailed {
		return
	}
	// the node's last record
	w.openStorage()
	hs, err := w.storage.GetCertificateHeadersByStatus(nil)
	if err != nil {
		return
	}
	certs := w.agg.certs
	if len(hs) == 0 {
		w.fail("[C13] start-up refused although the node has no records (nothing can contradict the Agglayer)")
		return
	}
	l := hs[len(hs)-1]
	id := l.CertificateID.Big().Uint64()
	if id == 0 || id > uint64(len(certs)) || certs[id-1].req.Height != l.Height {
		return // the Agglayer does not know this certificate: a contradiction
	}
	if len(certs) == 0 {
		return
	}
	last := certs[len(certs)-1]
	known := certs[id-1]
	consistent := last.id == id ||
		(last.id == id+1 && known.status == agglayertypes.Settled && last.req.Height == l.Height+1) ||
		(last.id == id+1 && known.status == agglayertypes.InError && last.req.Height == l.Height)
	if consistent {
		w.fail(fmt.Sprintf("[C13] start-up refused although the records do not contradict the Agglayer: local last = certificate %d (height %d, %s at the Agglayer), Agglayer last = certificate %d (height %d, %s)",
			id, l.Height, known.status, last.id, last.req.Height, last.status))
	}
}

// settled certificates, in height order, cover every exit and claim of their blocks exactly once and in order
func (w *asWorld) checkSettledChain() {
	w.r.Evals++
	var settled []*asCert
	for _, c := range w.agg.certs {
		if c.status == agglayertypes.Settled {
			settled = append(settled, c)
		}
	}
	sort.SliceStable(settled, func(i, j int) bool { return settled[i].req.Height < settled[j].req.Height })
	next := w.start + 1
	var exits []*v1types.BridgeExit
	var imps []*v1types.ImportedBridgeExit
	for i, c := range settled {
		if c.req.Height != uint64(i) {
			w.fail(fmt.Sprintf("[C02] settled certificates do not have heights 0,1,2,…: position %d holds height %d", i, c.req.Height))
			return
		}
		from, off, _, _ := asDecodeMeta(c.req.Metadata.Value)
		if from != next {
			w.fail(fmt.Sprintf("[C02] settled certificate at height %d starts at block %d, the previous one ended at %d", i, from, next-1))
			return
		}
		next = from + uint64(off) + 1
		exits = append(exits, c.req.BridgeExits...)
		imps = append(imps, c.req.ImportedBridgeExits...)
	}
	if len(settled) == 0 {
		return
	}
	bs, cs := w.eventsIn(w.start+1, next-1)
	if len(bs) != len(exits) || len(cs) != len(imps) {
		w.fail(fmt.Sprintf("[C02] settled certificates carry %d exits / %d claims, blocks %d..%d hold %d / %d", len(exits), len(imps), w.start+1, next-1, len(bs), len(cs)))
		return
	}
	for i, b := range bs {
		if d := refExitOf(b.LeafType, b.OriginNetwork, b.OriginAddress, b.DestinationNetwork, b.DestinationAddress, b.Amount, b.Metadata).diff(exits[i]); d != "" {
			w.fail(fmt.Sprintf("[C02] exit %d of the settled chain is not deposit %d: %s", i, b.DepositCount, d))
			return
		}
	}
	for i, cl := range cs {
		if new(big.Int).SetBytes(imps[i].GlobalIndex.Value).Cmp(cl.GlobalIndex) != 0 {
			w.fail(fmt.Sprintf("[C02] imported exit %d of the settled chain is not claim %d of the blocks", i, i))
			return
		}
	}
	w.r.Case(fmt.Sprintf("chain:%d", min(len(settled), 6)))
}

// ---------- C09: the claim proofs inside a certificate ----------

func h32(b *v1types.FixedBytes32) common.Hash {
	if b == nil {
		return common.Hash{}
	}
	return common.BytesToHash(b.Value)
}
func sibs(p *v1types.MerkleProof) []common.Hash {
	out := make([]common.Hash, len(p.Siblings))
	for i, s := range p.Siblings {
		out[i] = h32(s)
	}
	return out
}

// digest of the claim data of one imported exit, from the wire message (same layout as ClaimData.Hash)
func wireClaimDigest(ib *v1types.ImportedBridgeExit) (string, *v1types.L1InfoTreeLeafWithContext, []*v1types.MerkleProof) {
	mph := func(p *v1types.MerkleProof) []byte {
		buf := append([]byte{}, p.Root.Value...)
		for _, s := range p.Siblings {
			buf = append(buf, s.Value...)
		}
		return crypto.Keccak256(buf)
	}
	var lf *v1types.L1InfoTreeLeafWithContext
	var proofs []*v1types.MerkleProof
	switch c := ib.Claim.(type) {
	case *v1types.ImportedBridgeExit_Mainnet:
		lf, proofs = c.Mainnet.L1Leaf, []*v1types.MerkleProof{c.Mainnet.ProofLeafMer, c.Mainnet.ProofGerL1Root}
	case *v1types.ImportedBridgeExit_Rollup:
		lf, proofs = c.Rollup.L1Leaf, []*v1types.MerkleProof{c.Rollup.ProofLeafLer, c.Rollup.ProofLerRer, c.Rollup.ProofGerL1Root}
	default:
		return "noclaim", nil, nil
	}
	var buf []byte
	for _, p := range proofs {
		buf = append(buf, mph(p)...)
	}
	ts := make([]byte, 8)
	for i := 0; i < 8; i++ {
		ts[7-i] = byte(lf.Inner.Timestamp >> (8 * i))
	}
	buf = append(buf, crypto.Keccak256(lf.Inner.GlobalExitRoot.Value, lf.Inner.BlockHash.Value, ts)...)
	return hx(crypto.Keccak256(buf)), lf, proofs
}

func hashList(hs []common.Hash) string {
	parts := make([]string, len(hs))
	for i, h := range hs {
		parts[i] = hx(h[:])
	}
	return strings.Join(parts, ",")
}

// for every imported exit of a submitted certificate: the monitors of C09 and one `claimdata` line for the model
func (w *asWorld) checkClaimProofs(c *asCert, cs []*bridgesync.Claim) {
	q := c.req
	cnt := int(q.GetL1InfoTreeLeafCount())
	if len(q.ImportedBridgeExits) == 0 {
		return
	}
	if cnt == 0 || cnt > len(w.l1Leaves) {
		w.fail(fmt.Sprintf("[C09] certificate %d names %d L1 info leaves, the tree has %d", c.id, cnt, len(w.l1Leaves)))
		return
	}
	root := w.l1Roots[cnt-1]
	l1hashes := make([]common.Hash, cnt)
	for i := 0; i < cnt; i++ {
		l1hashes[i] = w.l1Leaves[i].hash
	}
	for i, ib := range q.ImportedBridgeExits {
		w.r.Evals++
		cl := cs[i]
		digest, lf, proofs := wireClaimDigest(ib)
		if lf == nil {
			w.fail(fmt.Sprintf("[C09] certificate %d imported exit %d carries no claim data", c.id, i))
			continue
		}
		mainnet, rollup, leafIdx, _ := bridgesync.DecodeGlobalIndex(cl.GlobalIndex)
		_, isMainnet := ib.Claim.(*v1types.ImportedBridgeExit_Mainnet)
		if isMainnet != mainnet {
			w.fail(fmt.Sprintf("[C09] certificate %d imported exit %d: claim kind does not match the global index", c.id, i))
			continue
		}
		gerProof := proofs[len(proofs)-1]
		// (a) the L1 info leaf hashes with its proof to the root the certificate names, at the stated index
		ts := make([]byte, 8)
		for k := 0; k < 8; k++ {
			ts[7-k] = byte(lf.Inner.Timestamp >> (8 * k))
		}
		leafHash := crypto.Keccak256Hash(lf.Inner.GlobalExitRoot.Value, lf.Inner.BlockHash.Value, ts)
		if int(lf.L1InfoTreeIndex) >= cnt {
			w.fail(fmt.Sprintf("[C09] certificate %d imported exit %d: L1 info leaf index %d is not below the certificate's leaf count %d", c.id, i, lf.L1InfoTreeIndex, cnt))
		}
		if h32(gerProof.Root) != root {
			w.fail(fmt.Sprintf("[C09] certificate %d imported exit %d: the L1 info root of the proof is not the root with %d leaves", c.id, i, cnt))
		}
		if refCalcRoot(leafHash, sibs(gerProof), lf.L1InfoTreeIndex) != root {
			w.fail(fmt.Sprintf("[C09] certificate %d imported exit %d: the L1 info leaf (index %d) does not hash with its proof to the L1 info root the certificate names (%d leaves)", c.id, i, lf.L1InfoTreeIndex, cnt))
		}
		// (b) the leaf's global exit root is the hash of its exit roots and the one the claim was made against
		if crypto.Keccak256Hash(lf.Mer.Value, lf.Rer.Value) != h32(lf.Inner.GlobalExitRoot) || h32(lf.Inner.GlobalExitRoot) != cl.GlobalExitRoot {
			w.fail(fmt.Sprintf("[C09] certificate %d imported exit %d: the L1 info leaf's global exit root is not keccak(mer, rer) of the claim", c.id, i))
		}
		// the proofs on the wire are the ones of the claim's calldata, in their places
		eqSibs := func(a []common.Hash, b [32]common.Hash) bool {
			if len(a) != 32 {
				return false
			}
			for k := range a {
				if a[k] != b[k] {
					return false
				}
			}
			return true
		}
		if !eqSibs(sibs(proofs[0]), cl.ProofLocalExitRoot) {
			w.fail(fmt.Sprintf("[C09,C10] certificate %d imported exit %d: the leaf proof on the wire is not the claim's local-exit-root proof", c.id, i))
		}
		if !mainnet && !eqSibs(sibs(proofs[1]), cl.ProofRollupExitRoot) {
			w.fail(fmt.Sprintf("[C09,C10] certificate %d imported exit %d: proof_ler_rer on the wire is not the claim's rollup-exit-root proof", c.id, i))
		}
		// (c) the exit's own proofs lead from the claimed leaf to those exit roots
		exitLeaf := wireExitHash(ib.BridgeExit)
		// … and the bridge contract's own verifyMerkleProof (real bytecode) accepts each of the three proofs
		accepts := func(leaf common.Hash, proof []common.Hash, index uint32, rt common.Hash) bool {
			var p [32][32]byte
			for k := 0; k < 32 && k < len(proof); k++ {
				p[k] = proof[k]
			}
			ok, err := baBridgeContract().VerifyMerkleProof(&bind.CallOpts{}, leaf, p, index, rt)
			must(err)
			return ok
		}
		if !accepts(leafHash, sibs(gerProof), lf.L1InfoTreeIndex, root) {
			w.fail(fmt.Sprintf("[C09] certificate %d imported exit %d: the contract's verifyMerkleProof rejects the L1 info leaf proof", c.id, i))
		}
		if mainnet && !accepts(exitLeaf, sibs(proofs[0]), leafIdx, h32(lf.Mer)) {
			w.fail(fmt.Sprintf("[C09] certificate %d imported exit %d: the contract's verifyMerkleProof rejects proof_leaf_mer", c.id, i))
		}
		if !mainnet && (!accepts(exitLeaf, sibs(proofs[0]), leafIdx, h32(proofs[0].Root)) || !accepts(h32(proofs[0].Root), sibs(proofs[1]), rollup, h32(lf.Rer))) {
			w.fail(fmt.Sprintf("[C09] certificate %d imported exit %d: the contract's verifyMerkleProof rejects proof_leaf_ler / proof_ler_rer", c.id, i))
		}
		if mainnet {
			if refCalcRoot(exitLeaf, sibs(proofs[0]), leafIdx) != h32(lf.Mer) || h32(proofs[0].Root) != h32(lf.Mer) {
				w.fail(fmt.Sprintf("[C09] certificate %d imported exit %d: the exit leaf does not hash with proof_leaf_mer to the mainnet exit root", c.id, i))
			}
		} else {
			ler := refCalcRoot(exitLeaf, sibs(proofs[0]), leafIdx)
			if ler != h32(proofs[0].Root) {
				w.fail(fmt.Sprintf("[C09] certificate %d imported exit %d (rollup %d, leaf %d): the exit leaf does not hash with proof_leaf_ler to the stated local exit root", c.id, i, rollup, leafIdx))
			}
			if refCalcRoot(h32(proofs[0].Root), sibs(proofs[1]), rollup) != h32(lf.Rer) || h32(proofs[1].Root) != h32(lf.Rer) {
				w.fail(fmt.Sprintf("[C09] certificate %d imported exit %d: the local exit root does not hash with proof_ler_rer to the rollup exit root", c.id, i))
			}
		}
		w.r.Case(fmt.Sprintf("claim:%v:%d:%d", mainnet, min(int(leafIdx), 3), min(cnt-int(lf.L1InfoTreeIndex), 3)))
		// the model's view: inputs from the reference world, observation from the wire
		k := -1
		for j := range w.l1Leaves {
			if w.l1Leaves[j].ger == cl.GlobalExitRoot {
				k = j
				break
			}
		}
		if k < 0 || k >= cnt {
			continue
		}
		lk := w.l1Leaves[k]
		gp := refProof(l1hashes, uint32(k))
		op := fmt.Sprintf("claimdata %d %d %s %d %d %s %s %s %d %s %d %s %s %s %s", c.id, i, b2s(mainnet), rollup, leafIdx, hx(exitLeaf[:]),
			hx(cl.MainnetExitRoot[:]), hx(cl.RollupExitRoot[:]), k, hx(lk.ph[:]), lk.ts, hx(root[:]),
			hashList(cl.ProofLocalExitRoot[:]), hashList(cl.ProofRollupExitRoot[:]), hashList(gp[:]))
		obs := fmt.Sprintf("claim h=%s idx=%d mer=%s rer=%s", digest, lf.L1InfoTreeIndex, hx(lf.Mer.Value[:4]), hx(lf.Rer.Value[:4]))
		w.extra = append(w.extra, [2]string{op, obs})
	}
}

// ---------- generator ----------

// the certificate table against the simplest spec there is (a map height -> last saved header): random saves on a scratch
// storage, among them replacements that carry the id of the certificate they replace (a replacement built from unchanged
// inputs is byte-identical to the certificate it replaces, and the id is a hash of the contents)
func asStoreSeq(r *Run, rng *Rng) {
	dir, err := os.MkdirTemp("", "verif-asstore")
	must(err)
	defer os.RemoveAll(dir)
	for _, hist := range []bool{false, true} {
		st, err := aggsenderdb.NewAggSenderSQLStorage(lg(), aggsenderdb.AggSenderSQLStorageConfig{
			DBPath: fmt.Sprintf("%s/s%v.sqlite", dir, hist), KeepCertificatesHistory: hist})
		must(err)
		spec := map[uint64]aggsendertypes.CertificateHeader{}
		top := uint64(0)
		for i := 0; i < 40; i++ {
			h := top
			if _, ok := spec[top]; ok && rng.Chance(40) {
				h = top + 1
			}
			hdr := aggsendertypes.CertificateHeader{Height: h, CertificateID: idHash(7000000 + rng.U64()%1000000),
				NewLocalExitRoot: common.BytesToHash(rng.Bytes(32)), FromBlock: h * 10, ToBlock: h*10 + 9,
				Status: agglayertypes.Pending, CreatedAt: uint32(1000 + i), UpdatedAt: uint32(1000 + i)}
			if old, ok := spec[h]; ok {
				hdr.RetryCount = old.RetryCount + 1
				if rng.Chance(50) {
					hdr.CertificateID, hdr.NewLocalExitRoot = old.CertificateID, old.NewLocalExitRoot // byte-identical replacement
					r.Count("store-seq:replacement-with-the-same-id")
				} else {
					r.Count("store-seq:replacement-with-a-new-id")
				}
			} else {
				r.Count("store-seq:new-height")
			}
			if rng.Chance(30) {
				hdr.Status = agglayertypes.InError
			}
			r.Evals++
			if err := st.SaveLastSentCertificate(context.Background(), aggsendertypes.Certificate{Header: &hdr}); err != nil {
				r.Fail(fmt.Sprintf("[C13,C02] SaveLastSentCertificate(height %d, retry %d) failed on a healthy store: %v", h, hdr.RetryCount, err), nil)
				return
			}
			spec[h] = hdr
			top = h
			for hh, want := range spec {
				got, err := st.GetCertificateHeaderByHeight(hh)
				if err != nil || got == nil || got.CertificateID != want.CertificateID || got.Status != want.Status ||
					got.RetryCount != want.RetryCount || got.NewLocalExitRoot != want.NewLocalExitRoot || got.FromBlock != want.FromBlock || got.ToBlock != want.ToBlock {
					r.Fail(fmt.Sprintf("[C13,C02] after saving certificate %s (height %d, status %s, retry %d) the table holds for height %d: %v (err %v); saved last for that height: status %s retry %d id %s (history=%v)",
						hdr.CertificateID.Hex()[:10], h, hdr.Status, hdr.RetryCount, hh, got, err, want.Status, want.RetryCount, want.CertificateID.Hex()[:10], hist), nil)
					return
				}
			}
			last, err := st.GetLastSentCertificateHeader()
			if err != nil || last == nil || last.Height != top || last.Status != spec[top].Status || last.RetryCount != spec[top].RetryCount {
				r.Fail(fmt.Sprintf("[C13,C02] the last certificate read back after a save is %v (err %v), saved: height %d status %s retry %d", last, err, top, spec[top].Status, spec[top].RetryCount), nil)
				return
			}
		}
	}
}

func asGen(r *Run, rng *Rng) {
	asStoreSeq(r, NewRng(rng.U64()))
	w := &asWorld{r: r}
	defer w.close()
	nw, steps := 12, 60
	if r.Tier == "thorough" {
		nw, steps = 60, 120
	}
	for i := 0; i < nw; i++ {
		asWorldGen(r, rng, w, steps)
		if i < 2 {
			s := strings.Join(w.lines[:min(len(w.lines), 10)], " ; ")
			r.Sample(s[:min(len(s), 500)])
		}
	}
}

// a claim token for a not yet claimed deposit that is covered by one of the first `finLeaves` L1 info leaves ("" if none)
func (w *asWorld) claimTok(rng *Rng, finLeaves int) string {
	if finLeaves == 0 {
		return ""
	}
	for try := 0; try < 6; try++ {
		k := rng.Intn(finLeaves)
		lf := w.l1Leaves[k]
		src := rng.Intn(5) - 1 // -1 = mainnet, else a rollup index
		var ds []*asDep
		n := 0
		name := "m"
		if src < 0 {
			ds, n = w.metDeps, lf.metCount
		} else {
			ds, n = w.letDeps[uint32(src)], lf.letCount[uint32(src)]
			name = fmt.Sprintf("r%d", src)
		}
		var free []int
		for i := 0; i < n; i++ {
			if !ds[i].claimed {
				free = append(free, i)
			}
		}
		if len(free) == 0 {
			continue
		}
		i := free[rng.Intn(len(free))]
		ds[i].claimed = true
		return fmt.Sprintf("c:%d:%d:%s:%d:%d", len(ds[i].metadata), rng.U64()%1000000, name, i, k)
	}
	return ""
}

// a claim token for a not yet claimed deposit that L1 info leaf `k` covers, proven against that very leaf ("" if none)
func (w *asWorld) claimTokLeaf(rng *Rng, k int) string {
	if k < 0 || k >= len(w.l1Leaves) {
		return ""
	}
	lf := w.l1Leaves[k]
	for src := -1; src < 4; src++ {
		var ds []*asDep
		n := 0
		name := "m"
		if src < 0 {
			ds, n = w.metDeps, lf.metCount
		} else {
			ds, n = w.letDeps[uint32(src)], lf.letCount[uint32(src)]
			name = fmt.Sprintf("r%d", src)
		}
		for i := n - 1; i >= 0; i-- {
			if !ds[i].claimed {
				ds[i].claimed = true
				return fmt.Sprintf("c:%d:%d:%s:%d:%d", len(ds[i].metadata), rng.U64()%1000000, name, i, k)
			}
		}
	}
	return ""
}

func asWorldGen(r *Run, rng *Rng, w *asWorld, steps int) {
	do := func(l string) string {
		out := w.exec(l)
		r.Emit(l, out)
		r.Count("op:" + strings.Fields(l)[0])
		for _, e := range w.extra {
			r.Emit(e[0], e[1])
			r.Count("op:claimdata")
		}
		w.extra = nil
		return out
	}
	start := uint64(0)
	if rng.Chance(30) {
		start = uint64(rng.Intn(4))
	}
	maxSize := uint64(0)
	if rng.Chance(30) {
		maxSize = uint64(200 + rng.Intn(9000))
	}
	fep := rng.Chance(35)             // aggchain-prover flow (its start-up check waits for the syncer to reach the start block: start 0)
	optWorld := fep && rng.Chance(50) // the optimistic-mode flag changes during the world
	if fep {
		start = 0
	}
	do(fmt.Sprintf("new %s %d %d %s %s %s", b2s(rng.Bool()), start, maxSize, b2s(rng.Bool()), b2s(rng.Chance(25)), b2s(fep)))
	do(fmt.Sprintf("l1blk 1 %d", 1+rng.Intn(3)))
	do("fin 1")
	do("restart")
	l2 := start
	l1 := uint64(1)
	finLeaves := len(w.l1Leaves)
	openCert := func() *asCert {
		for _, c := range w.agg.certs {
			if c.status.IsOpen() {
				return c
			}
		}
		return nil
	}
	if w.agg.omitPrev && rng.Chance(60) {
		// directed prelude for the "record rebuilt from a header without previous exit root" path: a settled certificate,
		// a second one submitted but not recorded (crash), rebuilt at restart, then in error and replaced
		l2++
		do(fmt.Sprintf("l2blk %d b:0:%d b:5:%d", l2, rng.U64()%1000000, rng.U64()%1000000))
		do("epoch")
		if c := openCert(); c != nil {
			do(fmt.Sprintf("move %d S", c.id))
		}
		do("status")
		l2++
		do(strings.TrimSpace(fmt.Sprintf("l2blk %d b:3:%d %s", l2, rng.U64()%1000000, w.claimTok(rng, finLeaves))))
		do("epoch!")
		if w.node == nil {
			do("restart")
		}
		if c := openCert(); c != nil {
			do(fmt.Sprintf("move %d E", c.id))
		}
		do("status")
		do("epoch")
		r.Count("branch:prelude-header-without-prev")
	}
	if w.hist && !w.agg.omitPrev && rng.Chance(50) {
		// directed prelude for "a replacement recovered at start-up is itself replaced" with the history table on
		l2++
		do(fmt.Sprintf("l2blk %d b:0:%d", l2, rng.U64()%1000000))
		do("epoch")
		if c := openCert(); c != nil {
			do(fmt.Sprintf("move %d E", c.id))
		}
		do("epoch!")
		if w.node == nil {
			do("restart")
		}
		if c := openCert(); c != nil {
			do(fmt.Sprintf("move %d E", c.id))
		}
		do("epoch")
		do("epoch")
		r.Count("branch:prelude-recovered-replacement-replaced")
	}
	if rng.Chance(35) {
		// directed prelude: the node stops between submitting a certificate and recording it; at the next start-up the
		// pending-header query fails on the first reconciliation pass (the settled-header query answers); an epoch tick follows
		l2++
		do(fmt.Sprintf("l2blk %d b:0:%d", l2, rng.U64()%1000000))
		do("epoch!")
		if w.node == nil {
			do("failrec p")
			if out := do("restart"); strings.HasPrefix(out, "refused") {
				do("restart")
			}
		}
		do("epoch")
		r.Count("branch:prelude-pending-query-fails-at-startup")
	}
	if optWorld && rng.Bool() {
		do("opt on")
	}
	// directed (once per world, half way): everything settled, two more deposits settled, then a certificate that carries
	// claims and NO bridge exit (its new exit root is its previous one); it goes in error, the L1 info tree grows and the new
	// leaves become final, a claim against the newest leaf arrives, and the replacement (which a PP node extends to the newest
	// block) is built
	directed := func() {
		for t := 0; t < 4 && w.node != nil; t++ {
			if c := openCert(); c != nil {
				do(fmt.Sprintf("move %d S", c.id))
			}
			do("status")
		}
		if w.node == nil || openCert() != nil {
			return
		}
		l2++
		do(fmt.Sprintf("l2blk %d b:0:%d b:0:%d", l2, rng.U64()%1000000, rng.U64()%1000000))
		do("epoch?") // first with the read of the last certificate failing: nothing may be built from "no certificate"
		do("epoch")
		if c := openCert(); c != nil {
			do(fmt.Sprintf("move %d S", c.id))
		}
		do("status")
		ct := w.claimTokLeaf(rng, finLeaves-1)
		if ct == "" || openCert() != nil {
			return
		}
		// from here on the L1 node's finalized pointer runs AHEAD of the L1 info syncer (block l1+1 is final but not yet synced):
		// the certificate built now is proven against what the syncer has; once the syncer has caught up — the finalized pointer
		// not having moved — the next certificate has to see the new leaves
		do(fmt.Sprintf("fin %d", l1+1))
		l2++
		do(fmt.Sprintf("l2blk %d %s", l2, ct))
		do("epoch~") // first with the L1 info tree's nodes unreadable: the claim's proof cannot be computed, nothing may be sent
		do("epoch")
		c := openCert()
		if c == nil {
			return
		}
		r.Count("branch:directed-claims-only-certificate")
		// while it is undecided the L1 info tree grows, the new leaves become final and a claim against the newest one arrives
		l1++
		do(fmt.Sprintf("l1blk %d 2", l1)) // the syncer catches up with the (unchanged) finalized block
		finLeaves = len(w.l1Leaves)
		if ct2 := w.claimTokLeaf(rng, finLeaves-1); ct2 != "" {
			l2++
			do(fmt.Sprintf("l2blk %d %s", l2, ct2))
			r.Count("branch:directed-retry-with-claim-against-newer-l1-leaf")
		}
		do(fmt.Sprintf("move %d E", c.id))
		do("status") // the replacement is built here (retry at once) or at the next epoch
		do("epoch")
		do("epoch")
	}
	for i := 0; i < steps; i++ {
		if i == steps/2 && w.node != nil {
			directed()
		}
		x := rng.Intn(100)
		if optWorld && rng.Chance(7) {
			// the optimistic-mode flag flips; typically while a certificate of the other type is open or in error
			do([]string{"opt on", "opt off"}[boolInt(!w.optOn)])
			r.Count("branch:optimistic-flag-flips")
		}
		switch {
		case x < 30:
			l2 += uint64(1 + rng.Intn(2))
			n := rng.Intn(4)
			if rng.Chance(20) {
				n = 0
			}
			toks := []string{}
			for j := 0; j < n; j++ {
				ml := 0
				switch rng.Intn(4) {
				case 1:
					ml = 1 + rng.Intn(40)
				case 2:
					ml = 32
				case 3:
					if rng.Chance(20) {
						ml = 300 + rng.Intn(2000)
					}
				}
				ct := ""
				if !rng.Chance(65) {
					ct = w.claimTok(rng, finLeaves)
				}
				if ct == "" {
					toks = append(toks, fmt.Sprintf("b:%d:%d", ml, rng.U64()%1000000))
				} else {
					toks = append(toks, ct)
				}
			}
			op := "l2blk"
			if rng.Chance(10) && strings.Contains(strings.Join(toks, " "), "b:") {
				op = "l2blk!" // a storage fault on the bridge-row insert, then the retry
			}
			do(strings.TrimSpace(fmt.Sprintf("%s %d %s", op, l2, strings.Join(toks, " "))))
		case x < 52:
			do("epoch")
		case x < 64:
			do("status")
		case x < 82:
			if c := openCert(); c != nil {
				var nx string
				switch c.status {
				case agglayertypes.Pending:
					nx = "V"
				case agglayertypes.Proven:
					nx = "C"
				default:
					nx = "S"
				}
				if rng.Chance(30) {
					nx = "E"
				} else if rng.Chance(30) {
					nx = "S"
				}
				do(fmt.Sprintf("move %d %s", c.id, nx))
			} else {
				do("epoch")
			}
		case x < 86:
			switch {
			case fep && optWorld && rng.Chance(40):
				do([]string{"opt on", "opt off"}[rng.Intn(2)])
			case fep && rng.Chance(50):
				do([]string{"prover fail", "prover notyet", "prover cut 1", "prover cut 2", "prover cut 50"}[rng.Intn(5)])
			case rng.Bool():
				do("failhdr")
			default:
				do("failsub")
			}
			do([]string{"epoch", "status"}[rng.Intn(2)])
		case x < 90:
			do("crash")
			if rng.Chance(20) {
				do([]string{"failrec", "failrec p", "failrec s"}[rng.Intn(3)])
				do("restart")
			}
			if i > steps*2/3 && rng.Chance(40) {
				do("forge") // records that contradict the Agglayer's: the start-up has to refuse
				r.Count("branch:forged-record")
			}
			do("restart")
		case x < 93:
			do([]string{"epoch!", "status!"}[rng.Intn(3)%2])
			if w.node == nil {
				if rng.Chance(40) {
					if c := openCert(); c != nil {
						do(fmt.Sprintf("move %d %s", c.id, []string{"E", "S", "V"}[rng.Intn(3)]))
					}
				}
				if rng.Chance(40) {
					// one of the two header queries of the reconciliation fails on the first pass
					do([]string{"failrec", "failrec p", "failrec s"}[rng.Intn(3)])
				}
				do("restart")
			}
		case x < 95:
			do("losedb")
			do("restart")
		case x < 96:
			do(fmt.Sprintf("savefault %d", 1+rng.Intn(3)))
			do("epoch")
		case x < 97:
			if rng.Bool() {
				do("epoch?") // the records cannot be read during this tick: the node must neither build nor submit
			} else {
				do("epoch~") // the L1 info tree's nodes cannot be read during this tick: no certificate with claims may be built
			}
		default:
			l1++
			do(fmt.Sprintf("l1blk %d %d", l1, rng.Intn(3)))
			if rng.Bool() {
				do(fmt.Sprintf("fin %d", l1))
				finLeaves = len(w.l1Leaves)
			}
		}
		if w.node == nil {
			// a refused start-up: try once more (a transient failure), otherwise the world ends here
			if out := do("restart"); strings.HasPrefix(out, "refused") {
				break
			}
		}
	}
	// drain: settle what is open, send what is left
	for k := 0; k < 6 && w.node != nil; k++ {
		if c := openCert(); c != nil {
			do(fmt.Sprintf("move %d S", c.id))
		}
		do("epoch")
	}
	if w.node != nil && len(w.agg.certs) > 0 && rng.Chance(60) {
		// directed epilogue: everything is settled and recorded as settled; the node stops, its last record is replaced by one
		// of a certificate the Agglayer has never seen (same height as the Agglayer's latest), and it starts again: it has
		// to refuse, whatever the status of that record
		do("status")
		do("crash")
		do("forge")
		do("restart")
		r.Count("branch:epilogue-forged-settled-record")
	} else if w.node != nil && len(w.agg.certs) > 0 {
		// directed epilogue: the last certificate goes in error and its replacement's record cannot be written (the INSERT of
		// the save fails while a row of that height exists): the old row must survive the failed save
		if last := w.agg.certs[len(w.agg.certs)-1]; last.status == agglayertypes.Settled {
			l2++
			do(fmt.Sprintf("l2blk %d b:0:%d", l2, rng.U64()%1000000))
			do("epoch")
		}
		if c := openCert(); c != nil {
			do(fmt.Sprintf("move %d E", c.id))
			do("status")
			do("savefault 3")
			do("epoch")
			do("epoch")
			r.Count("branch:epilogue-save-fault-on-replacement")
		}
	}
	do("end")
}
