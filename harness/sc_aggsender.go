package main

// Scenario `aggsender` (C02, C03, C13, parts of C09/C10): the real AggSender loop (one iteration per op through the
// verif hook), real AggSenderSQLStorage, real PPFlow/baseFlow, real status checker, real query layer, real L2 bridge
// processor and real L1 info tree processor, real gRPC client — against a fake Agglayer that implements the three
// gRPC service-client interfaces (so it sees the exact wire messages), a recording signer and a scripted epoch notifier.

import (
	"context"
	"encoding/binary"
	"errors"
	"fmt"
	"math/big"
	"os"
	"path/filepath"
	"strconv"
	"strings"
	"time"

	node "buf.build/gen/go/agglayer/agglayer/grpc/go/agglayer/node/v1/nodev1grpc"
	v1nodetypes "buf.build/gen/go/agglayer/agglayer/protocolbuffers/go/agglayer/node/types/v1"
	v1 "buf.build/gen/go/agglayer/agglayer/protocolbuffers/go/agglayer/node/v1"
	v1types "buf.build/gen/go/agglayer/interop/protocolbuffers/go/agglayer/interop/types/v1"
	agglayergrpc "github.com/agglayer/aggkit/agglayer/grpc"
	agglayertypes "github.com/agglayer/aggkit/agglayer/types"
	"github.com/agglayer/aggkit/aggsender"
	aggsendercfg "github.com/agglayer/aggkit/aggsender/config"
	aggsenderdb "github.com/agglayer/aggkit/aggsender/db"
	"github.com/agglayer/aggkit/aggsender/flows"
	"github.com/agglayer/aggkit/aggsender/query"
	aggsendertypes "github.com/agglayer/aggkit/aggsender/types"
	"github.com/agglayer/aggkit/bridgesync"
	cfgtypes "github.com/agglayer/aggkit/config/types"
	aggkitgrpc "github.com/agglayer/aggkit/grpc"
	"github.com/agglayer/aggkit/l1infotreesync"
	"github.com/agglayer/aggkit/sync"
	aggkittypes "github.com/agglayer/aggkit/types"
	"github.com/ethereum/go-ethereum/common"
	ethtypes "github.com/ethereum/go-ethereum/core/types"
	"github.com/ethereum/go-ethereum/crypto"
	"google.golang.org/grpc"
	"google.golang.org/grpc/codes"
	treetypes "github.com/agglayer/aggkit/tree/types"
)

func init() { scenarios["aggsender"] = Scenario{Gen: asGen, Replay: asReplay} }

const asNet = uint32(7)

// ---------- fake Agglayer (gRPC service clients) ----------

type asCert struct {
	id      uint64
	req     *v1nodetypes.Certificate
	status  agglayertypes.CertificateStatus
	signed  common.Hash // hash handed to the signer while this certificate was built
	afterRe bool        // first submission after a crash / restart / db loss (C13 rather than C02)
}

type fakeAgglayer struct {
	certs    []*asCert
	failHdr  bool // next GetCertificateHeader fails
	failSub  bool // next SubmitCertificate fails (not applied)
	failRec  bool // next GetLatestCertificateHeader fails
	failRecOnly string // "" = whichever comes first, "p" = the pending-header query only, "s" = the settled-header query only
	omitPrev bool // headers carry no prev_local_exit_root (older Agglayer)
	onSubmit func(c *asCert)
}

var _ node.CertificateSubmissionServiceClient = (*fakeAgglayer)(nil)
var _ node.NodeStateServiceClient = (*fakeAgglayer)(nil)
var _ node.ConfigurationServiceClient = (*fakeAgglayer)(nil)

func idHash(id uint64) common.Hash { return common.BigToHash(new(big.Int).SetUint64(id)) }

func (f *fakeAgglayer) SubmitCertificate(ctx context.Context, in *v1.SubmitCertificateRequest,
	opts ...grpc.CallOption) (*v1.SubmitCertificateResponse, error) {
	if f.failSub {
		f.failSub = false
		return nil, errors.New("verif: agglayer unavailable")
	}
	c := &asCert{id: uint64(len(f.certs) + 1), req: in.Certificate, status: agglayertypes.Pending}
	f.certs = append(f.certs, c)
	if f.onSubmit != nil {
		f.onSubmit(c)
	}
	return &v1.SubmitCertificateResponse{CertificateId: &v1nodetypes.CertificateId{
		Value: &v1types.FixedBytes32{Value: idHash(c.id).Bytes()}}}, nil
}

func statusToProto(s agglayertypes.CertificateStatus) v1nodetypes.CertificateStatus {
	switch s {
	case agglayertypes.Pending:
		return v1nodetypes.CertificateStatus_CERTIFICATE_STATUS_PENDING
	case agglayertypes.Proven:
		return v1nodetypes.CertificateStatus_CERTIFICATE_STATUS_PROVEN
	case agglayertypes.Candidate:
		return v1nodetypes.CertificateStatus_CERTIFICATE_STATUS_CANDIDATE
	case agglayertypes.InError:
		return v1nodetypes.CertificateStatus_CERTIFICATE_STATUS_IN_ERROR
	default:
		return v1nodetypes.CertificateStatus_CERTIFICATE_STATUS_SETTLED
	}
}

func (f *fakeAgglayer) header(c *asCert) *v1nodetypes.CertificateHeader {
	if c == nil {
		return nil
	}
	h := &v1nodetypes.CertificateHeader{
		NetworkId:        c.req.NetworkId,
		Height:           c.req.Height,
		CertificateId:    &v1nodetypes.CertificateId{Value: &v1types.FixedBytes32{Value: idHash(c.id).Bytes()}},
		NewLocalExitRoot: c.req.NewLocalExitRoot,
		Metadata:         c.req.Metadata,
		Status:           statusToProto(c.status),
	}
	if !f.omitPrev {
		h.PrevLocalExitRoot = c.req.PrevLocalExitRoot
	}
	return h
}

func (f *fakeAgglayer) GetCertificateHeader(ctx context.Context, in *v1.GetCertificateHeaderRequest,
	opts ...grpc.CallOption) (*v1.GetCertificateHeaderResponse, error) {
	if f.failHdr {
		f.failHdr = false
		return nil, errors.New("verif: agglayer unavailable")
	}
	id := new(big.Int).SetBytes(in.CertificateId.Value.Value).Uint64()
	if id == 0 || id > uint64(len(f.certs)) {
		return nil, errors.New("verif: certificate not found")
	}
	return &v1.GetCertificateHeaderResponse{CertificateHeader: f.header(f.certs[id-1])}, nil
}

func (f *fakeAgglayer) lastSettled() *asCert {
	for i := len(f.certs) - 1; i >= 0; i-- {
		if f.certs[i].status == agglayertypes.Settled {
			return f.certs[i]
		}
	}
	return nil
}

// latest pending = the most recently submitted certificate unless it is already settled
func (f *fakeAgglayer) lastPending() *asCert {
	if n := len(f.certs); n > 0 && f.certs[n-1].status != agglayertypes.Settled {
		return f.certs[n-1]
	}
	return nil
}

func (f *fakeAgglayer) GetLatestCertificateHeader(ctx context.Context, in *v1.GetLatestCertificateHeaderRequest,
	opts ...grpc.CallOption) (*v1.GetLatestCertificateHeaderResponse, error) {
	isSettled := in.Type == v1.LatestCertificateRequestType_LATEST_CERTIFICATE_REQUEST_TYPE_SETTLED
	if f.failRec && (f.failRecOnly == "" || (f.failRecOnly == "s") == isSettled) {
		f.failRec = false
		return nil, errors.New("verif: agglayer unavailable")
	}
	if in.Type == v1.LatestCertificateRequestType_LATEST_CERTIFICATE_REQUEST_TYPE_SETTLED {
		return &v1.GetLatestCertificateHeaderResponse{CertificateHeader: f.header(f.lastSettled())}, nil
	}
	return &v1.GetLatestCertificateHeaderResponse{CertificateHeader: f.header(f.lastPending())}, nil
}

func (f *fakeAgglayer) GetEpochConfiguration(ctx context.Context, in *v1.GetEpochConfigurationRequest,
	opts ...grpc.CallOption) (*v1.GetEpochConfigurationResponse, error) {
	return nil, errors.New("verif: not used")
}

// ---------- other fakes ----------

type asSigner struct{ hashes []common.Hash }

func (s *asSigner) Initialize(context.Context) error { return nil }
func (s *asSigner) PublicAddress() common.Address    { return common.HexToAddress("0x5157") }
func (s *asSigner) String() string                   { return "verif signer" }
func (s *asSigner) SignHash(_ context.Context, h common.Hash) ([]byte, error) {
	s.hashes = append(s.hashes, h)
	sig := make([]byte, 65)
	copy(sig, crypto.Keccak256(h[:], []byte("sig")))
	copy(sig[32:], crypto.Keccak256(h[:], []byte("sig2")))
	return sig, nil
}
func (s *asSigner) SignTx(ctx context.Context, tx *ethtypes.Transaction) (*ethtypes.Transaction, error) {
	return nil, errors.New("verif: not used")
}

type asEpoch struct {
	ch chan aggsendertypes.EpochEvent
}

func (e *asEpoch) Subscribe(id string) <-chan aggsendertypes.EpochEvent { return e.ch }
func (e *asEpoch) Start(ctx context.Context)                            {}
func (e *asEpoch) GetEpochStatus() aggsendertypes.EpochStatus           { return aggsendertypes.EpochStatus{} }
func (e *asEpoch) String() string                                       { return "verif epoch notifier" }

type asLER struct{ ler common.Hash }

func (l asLER) GetLastLocalExitRoot() (common.Hash, error) { return l.ler, nil }

// aggchain prover: proves the requested range, or a prefix of it, or fails, as scripted
type asProver struct{ w *asWorld }

func (p *asProver) GenerateAggchainProof(ctx context.Context, req *aggsendertypes.AggchainProofRequest) (*aggsendertypes.AggchainProof, error) {
	mode := p.w.prover
	p.w.prover = ""
	switch {
	case mode == "fail":
		return nil, errors.New("verif: prover unavailable")
	case mode == "notyet":
		return nil, &aggkitgrpc.GRPCError{Code: codes.Unavailable, Message: "Proposer service has not built any proof yet"}
	}
	end := req.RequestedEndBlock
	if strings.HasPrefix(mode, "cut:") {
		k := bigOf(mode[4:]).Uint64()
		if k > end {
			end = 0
		} else {
			end -= k
		}
	}
	p.w.nProofs++
	g := NewRng(uint64(p.w.nProofs) + 4242)
	return &aggsendertypes.AggchainProof{LastProvenBlock: req.LastProvenBlock, EndBlock: end, CustomChainData: g.Bytes(8),
		AggchainParams: common.BytesToHash(g.Bytes(32)), Context: map[string][]byte{"k": g.Bytes(4)},
		SP1StarkProof: &aggsendertypes.SP1StarkProof{Version: "v1", Proof: g.Bytes(16 * (p.w.nProofs % 4 / 3 ^ 1)), Vkey: g.Bytes(8)}}, nil // every fourth proof is empty (a placeholder prover)
}
func (p *asProver) GenerateOptimisticAggchainProof(req *aggsendertypes.AggchainProofRequest, sig []byte) (*aggsendertypes.AggchainProof, error) {
	if !p.w.optOn {
		p.w.r.Fail("[C10,C13] an optimistic proof was requested although the optimistic mode is off", append([]string{}, p.w.lines...))
	}
	if len(sig) == 0 || string(sig) != string(p.w.optSig) {
		p.w.r.Fail("[C10] the optimistic proof was requested with a signature the optimistic signer did not produce for this request", append([]string{}, p.w.lines...))
	}
	return p.GenerateAggchainProof(context.Background(), req)
}

type asGER struct{}

func (asGER) GetInjectedGERsProofs(ctx context.Context, root *treetypes.Root, from, to uint64) (map[common.Hash]*agglayertypes.ProvenInsertedGERWithBlockNumber, error) {
	return map[common.Hash]*agglayertypes.ProvenInsertedGERWithBlockNumber{}, nil
}

type asOptimistic struct{ w *asWorld }

func (o asOptimistic) IsOptimisticModeOn() (bool, error) { return o.w.optOn, nil }

// optimistic signer: a deterministic "signature" over what it is given (recorded, so that the prover call can be matched)
func (o asOptimistic) Sign(ctx context.Context, req aggsendertypes.AggchainProofRequest, newLER common.Hash, claims []bridgesync.Claim) ([]byte, string, error) {
	b := make([]byte, 16)
	binary.BigEndian.PutUint64(b, req.RequestedEndBlock)
	binary.BigEndian.PutUint64(b[8:], uint64(len(claims)))
	o.w.optSig = crypto.Keccak256([]byte("optimistic"), newLER[:], b)
	return o.w.optSig, "verif", nil
}

// L1 client: only HeaderByNumber is used (by the L1 info tree data querier)
type asL1Client struct {
	aggkittypes.BaseEthereumClienter
	w *asWorld
}

func asL1Header(n uint64) *ethtypes.Header {
	return &ethtypes.Header{Number: new(big.Int).SetUint64(n), Extra: []byte("verif-l1")}
}
func (c asL1Client) HeaderByNumber(ctx context.Context, n *big.Int) (*ethtypes.Header, error) {
	if n.Sign() < 0 { // finalized
		return asL1Header(c.w.l1Final), nil
	}
	return asL1Header(n.Uint64()), nil
}

// storage wrapper: crash (panic) or a transient statement fault at the next SaveLastSentCertificate
type asStorage struct {
	aggsenderdb.AggSenderStorage
	w *asWorld
}

type asCrash struct{}

// one-shot read fault: the certificate table is renamed away for the duration of the one "last certificate" read
func (s *asStorage) hidden(f func()) {
	w := s.w
	if !w.hideRead {
		f()
		return
	}
	w.hideRead = false
	ctl, err := openCtl(w.storePath)
	must(err)
	defer ctl.Close()
	_, err = ctl.Exec(`ALTER TABLE certificate_info RENAME TO certificate_info_verif_away`)
	must(err)
	f()
	_, err = ctl.Exec(`ALTER TABLE certificate_info_verif_away RENAME TO certificate_info`)
	must(err)
}

func (s *asStorage) GetLastSentCertificateHeader() (h *aggsendertypes.CertificateHeader, err error) {
	s.hidden(func() { h, err = s.AggSenderStorage.GetLastSentCertificateHeader() })
	return
}

func (s *asStorage) GetLastSentCertificateHeaderWithProofIfInError(ctx context.Context) (h *aggsendertypes.CertificateHeader, p *aggsendertypes.AggchainProof, err error) {
	s.hidden(func() { h, p, err = s.AggSenderStorage.GetLastSentCertificateHeaderWithProofIfInError(ctx) })
	return
}

func (s *asStorage) SaveLastSentCertificate(ctx context.Context, c aggsendertypes.Certificate) error {
	w := s.w
	if w.crashAtSave {
		w.crashAtSave = false
		panic(asCrash{})
	}
	if w.saveFault > 0 {
		k := w.saveFault
		w.saveFault = 0
		before := w.rowsDump()
		w.armFault(k)
		err := s.AggSenderStorage.SaveLastSentCertificate(ctx, c)
		w.armFault(0)
		w.saveFaultHit = err != nil
		if err != nil {
			if after := w.rowsDump(); after != before {
				w.fail("[C13] a failed SaveLastSentCertificate changed the stored records: before " + before + " after " + after)
			}
		}
		return err
	}
	return s.AggSenderStorage.SaveLastSentCertificate(ctx, c)
}

// ---------- world ----------

type asL2Ev struct {
	bridge *bridgesync.Bridge
	claim  *bridgesync.Claim
}

type asL1Leaf struct {
	mer, rer, ger, ph, hash common.Hash
	ts                      uint64
	bn                      uint64
	// snapshot of the other networks' exit trees this leaf commits to
	metCount int
	letCount map[uint32]int
	lers     []common.Hash // rollup exit tree leaves (index = rollup index)
}

// a deposit on another network towards this L2
type asDep struct {
	leafType       uint8
	origNet        uint32
	origAddr, dest common.Address
	amount         *big.Int
	metadata       []byte
	leaf           common.Hash
	claimed        bool
}

type asWorld struct {
	r     *Run
	dir   string
	lines []string
	// configuration
	retry   bool
	fep     bool   // aggchain-prover flow instead of the PP flow
	prover  string // behaviour of the next prover call: "" (proves the whole range), "fail", "notyet", "cut:<k>"
	nProofs int
	optOn   bool   // what the rollup contract's optimistic-mode flag says
	optSig  []byte // the optimistic signer's last signature
	start   uint64
	maxSize uint64
	hist    bool
	// components
	l2        *bridgesync.VerifProcessor
	l1        *l1infotreesync.VerifProcessor
	agg       *fakeAgglayer
	signer    *asSigner
	epoch     *asEpoch
	node      *aggsender.AggSender
	storage   *aggsenderdb.AggSenderSQLStorage
	storePath string
	// reference data
	l2Blocks  map[uint64][]asL2Ev
	hideRead  bool
	l2Last    uint64
	nDeposits uint32
	dep       depTree
	roots     map[common.Hash]int // exit root -> number of leaves
	rootAt    []common.Hash       // number of leaves -> exit root
	leafHash  []common.Hash
	l1Leaves  []asL1Leaf
	// exits on the other networks (what the L2 claims refer to): the mainnet exit tree and the rollups' local exit trees
	metDeps []*asDep
	letDeps map[uint32][]*asDep
	extra   [][2]string // further (op, observation) pairs produced by the last op (claim data lines)
	l1dep   depTree
	l1Roots []common.Hash // root after leaf i
	l1Last  uint64
	l1Final uint64
	// fault arming
	crashAtSave  bool
	saveFault    int
	saveFaultHit bool
	sinceRestart bool
	abandoned    bool
}

func (w *asWorld) fail(desc string) { w.r.Fail(desc, append([]string{}, w.lines...)) }

func (w *asWorld) close() {
	if w.l2 != nil {
		w.l2.Close()
		w.l2 = nil
	}
	if w.l1 != nil {
		w.l1.Close()
		w.l1 = nil
	}
	w.node = nil
	if w.dir != "" {
		os.RemoveAll(w.dir)
		w.dir = ""
	}
}

func (w *asWorld) reset(r *Run) {
	w.close()
	*w = asWorld{r: r}
	dir, err := os.MkdirTemp(r.OutDir, "asdb")
	must(err)
	w.dir = dir
	w.storePath = filepath.Join(dir, "aggsender.sqlite")
	w.l2, err = bridgesync.VerifNewProcessor(filepath.Join(dir, "l2.sqlite"), "verif-l2", lg())
	must(err)
	w.l1, err = l1infotreesync.VerifNewProcessor(filepath.Join(dir, "l1.sqlite"))
	must(err)
	w.agg = &fakeAgglayer{}
	w.signer = &asSigner{}
	w.epoch = &asEpoch{ch: make(chan aggsendertypes.EpochEvent, 4)}
	w.l2Blocks = map[uint64][]asL2Ev{}
	w.letDeps = map[uint32][]*asDep{}
	w.roots = map[common.Hash]int{}
	w.rootAt = []common.Hash{w.dep.root()}
	w.roots[w.dep.root()] = 0
	w.agg.onSubmit = func(c *asCert) {
		if n := len(w.signer.hashes); n > 0 {
			c.signed = w.signer.hashes[n-1]
		}
		c.afterRe = w.sinceRestart
		w.sinceRestart = false
	}
}

func (w *asWorld) armFault(k int) {
	// statement faults through triggers installed from a second connection (1 = history insert, 2 = delete, 3 = insert)
	ctl, err := openCtl(w.storePath)
	must(err)
	defer ctl.Close()
	for _, t := range []string{"verif_f1", "verif_f2", "verif_f3"} {
		_, err := ctl.Exec("DROP TRIGGER IF EXISTS " + t)
		must(err)
	}
	switch k {
	case 1:
		_, err = ctl.Exec(`CREATE TRIGGER verif_f1 BEFORE INSERT ON certificate_info_history BEGIN SELECT RAISE(ABORT,'verif fault'); END;`)
	case 2:
		_, err = ctl.Exec(`CREATE TRIGGER verif_f2 BEFORE DELETE ON certificate_info BEGIN SELECT RAISE(ABORT,'verif fault'); END;`)
	case 3:
		_, err = ctl.Exec(`CREATE TRIGGER verif_f3 BEFORE INSERT ON certificate_info BEGIN SELECT RAISE(ABORT,'verif fault'); END;`)
	}
	must(err)
}

func (w *asWorld) lerName(h common.Hash) string {
	if n, ok := w.roots[h]; ok {
		return strconv.Itoa(n)
	}
	return "?" + hx(h[:4])
}

func stName(s agglayertypes.CertificateStatus) string {
	return [...]string{"P", "V", "C", "E", "S"}[s]
}
func stParse(s string) agglayertypes.CertificateStatus {
	return map[string]agglayertypes.CertificateStatus{"P": agglayertypes.Pending, "V": agglayertypes.Proven,
		"C": agglayertypes.Candidate, "E": agglayertypes.InError, "S": agglayertypes.Settled}[s]
}

// rows of certificate_info in height order: h:id:status:from:to:retry:prev:new
func (w *asWorld) rowsDump() string {
	if w.storage == nil {
		return "-"
	}
	hs, err := w.storage.GetCertificateHeadersByStatus(nil)
	if err != nil {
		return "err"
	}
	var out []string
	for _, h := range hs {
		prev := "nil"
		if h.PreviousLocalExitRoot != nil {
			prev = w.lerName(*h.PreviousLocalExitRoot)
		}
		typ := ""
		if h.CertType == aggsendertypes.CertificateTypeOptimistic {
			typ = ":o"
		}
		out = append(out, fmt.Sprintf("%d:%d:%s:%d:%d:%d:%s:%s%s", h.Height, h.CertificateID.Big().Uint64(), stName(h.Status),
			h.FromBlock, h.ToBlock, h.RetryCount, prev, w.lerName(h.NewLocalExitRoot), typ))
	}
	if len(out) == 0 {
		return "-"
	}
	return strings.Join(out, ";")
}

func (w *asWorld) openStorage() {
	st, err := aggsenderdb.NewAggSenderSQLStorage(lg(), aggsenderdb.AggSenderSQLStorageConfig{
		DBPath: w.storePath, KeepCertificatesHistory: w.hist})
	must(err)
	w.storage = st
}

// build the node exactly as aggsender.New does, from parts
func (w *asWorld) buildNode() {
	w.openStorage()
	st := &asStorage{AggSenderStorage: w.storage, w: w}
	client := agglayergrpc.VerifNewAgglayerGRPCClient(&aggkitgrpc.ClientConfig{RequestTimeout: cfgtypes.NewDuration(time.Minute)},
		w.agg, w.agg, w.agg)
	l2q := query.NewBridgeDataQuerier(lg(), w.l2.Facade(asNet), time.Millisecond)
	l1q := query.NewL1InfoTreeDataQuerier(asL1Client{w: w}, w.l1.Facade())
	base := flows.NewBaseFlow(lg(), l2q, st, l1q, asLER{}, flows.NewBaseFlowConfig(uint(w.maxSize), w.start, false))
	var flow aggsendertypes.AggsenderFlow = flows.NewPPFlow(lg(), base, st, l1q, l2q, w.signer, false, 0)
	if w.fep {
		flow = flows.NewAggchainProverFlow(lg(), flows.NewAggchainProverFlowConfigDefault(), base, &asProver{w: w}, st, l1q, l2q,
			asGER{}, nil, w.signer, asOptimistic{w: w}, asOptimistic{w: w})
	}
	cfg := aggsendercfg.Config{
		MaxRetriesStoreCertificate: map[bool]int{true: 3, false: 0}[w.hist], // 0 = retry the local write for ever (worlds without the history table)
		DelayBetweenRetries:        cfgtypes.NewDuration(0),
		RetryCertAfterInError:      w.retry,
		KeepCertificatesHistory:    w.hist,
	}
	w.node = aggsender.VerifNew(lg(), cfg, st, client, w.epoch, flow, asNet)
}

// restart: what Start does before the loop; "refused" when the initial reconciliation reports an error
func (w *asWorld) restart() string {
	w.buildNode()
	ctx, cancel := context.WithCancel(context.Background())
	done := make(chan error, 1)
	n := w.node
	go func() { done <- n.VerifStartChecks(ctx, time.Hour) }()
	for {
		select {
		case err := <-done:
			cancel()
			if err != nil {
				w.node = nil
				return "refused"
			}
			return "up"
		default:
		}
		if n.VerifLastError() != "" {
			cancel()
			<-done
			w.node = nil
			return "refused"
		}
		time.Sleep(50 * time.Microsecond)
	}
}

// ---------- deterministic event contents ----------

func asBridge(bn uint64, pos uint64, dc uint32, seed uint64, metaLen int) *bridgesync.Bridge {
	g := NewRng(seed)
	b := &bridgesync.Bridge{BlockNum: bn, BlockPos: pos, DepositCount: dc,
		LeafType: uint8(g.Intn(2)), OriginNetwork: uint32(g.Intn(4)), DestinationNetwork: uint32(g.Intn(4)),
		OriginAddress: common.BytesToAddress(g.Bytes(20)), DestinationAddress: common.BytesToAddress(g.Bytes(20)),
		FromAddress: common.BytesToAddress(g.Bytes(20)), TxHash: common.BytesToHash(g.Bytes(32)),
		Metadata: g.Bytes(metaLen), BlockTimestamp: bn * 12,
	}
	switch g.Intn(4) {
	case 0:
		b.Amount = big.NewInt(0)
	case 1:
		b.Amount = new(big.Int).Sub(new(big.Int).Lsh(big.NewInt(1), 256), big.NewInt(1))
	default:
		b.Amount = new(big.Int).SetBytes(g.Bytes(1 + g.Intn(31)))
	}
	if g.Chance(30) { // the native token: zero origin address on network 0
		b.OriginAddress = common.Address{}
		b.OriginNetwork = 0
		b.IsNativeToken = true
	}
	if metaLen == 0 {
		b.Metadata = nil
	}
	return b
}

// reference Merkle tree over a list of leaves (32 levels, zero leaves beyond the list)
func refNode(leaves []common.Hash, h uint, q uint64) common.Hash {
	if h < 64 && (q<<h) >= uint64(len(leaves)) {
		return zeroHashesRef[h]
	}
	if h == 0 {
		return leaves[q]
	}
	l, r := refNode(leaves, h-1, 2*q), refNode(leaves, h-1, 2*q+1)
	return crypto.Keccak256Hash(l[:], r[:])
}
func refRoot(leaves []common.Hash) common.Hash { return refNode(leaves, 32, 0) }
func refProof(leaves []common.Hash, idx uint32) (p [32]common.Hash) {
	for h := uint(0); h < 32; h++ {
		p[h] = refNode(leaves, h, uint64(idx>>h)^1)
	}
	return
}
func refCalcRoot(leaf common.Hash, proof []common.Hash, idx uint32) common.Hash {
	node := leaf
	for h := 0; h < len(proof); h++ {
		if (idx>>uint(h))&1 == 1 {
			node = crypto.Keccak256Hash(proof[h][:], node[:])
		} else {
			node = crypto.Keccak256Hash(node[:], proof[h][:])
		}
	}
	return node
}

func asNewDep(g *Rng) *asDep {
	d := &asDep{leafType: uint8(g.Intn(2)), origNet: uint32(g.Intn(4)), origAddr: common.BytesToAddress(g.Bytes(20)),
		dest: common.BytesToAddress(g.Bytes(20))}
	switch g.Intn(4) {
	case 0:
		d.amount = big.NewInt(0)
	case 1:
		d.amount = new(big.Int).Sub(new(big.Int).Lsh(big.NewInt(1), 256), big.NewInt(1))
	default:
		d.amount = new(big.Int).SetBytes(g.Bytes(1 + g.Intn(31)))
	}
	switch g.Intn(3) {
	case 1:
		d.metadata = g.Bytes(1 + g.Intn(40))
	case 2:
		d.metadata = g.Bytes(32)
	}
	b := bridgesync.Bridge{LeafType: d.leafType, OriginNetwork: d.origNet, OriginAddress: d.origAddr, DestinationNetwork: asNet,
		DestinationAddress: d.dest, Amount: d.amount, Metadata: d.metadata}
	d.leaf = bsRefLeaf(&b)
	return d
}

func depLeaves(ds []*asDep, n int) []common.Hash {
	out := make([]common.Hash, n)
	for i := 0; i < n; i++ {
		out[i] = ds[i].leaf
	}
	return out
}

// the claim of deposit `idx` of the mainnet (rollup < 0) or of rollup index `rollup`, made against L1 info leaf `k`:
// exactly what the claimer submitted to the L2 bridge contract (proofs towards the exit roots of that leaf)
func (w *asWorld) asClaim(bn uint64, pos uint64, seed uint64, rollup int, idx int, k int) *bridgesync.Claim {
	g := NewRng(seed)
	lf := w.l1Leaves[k]
	var d *asDep
	var leaves []common.Hash
	if rollup < 0 {
		d, leaves = w.metDeps[idx], depLeaves(w.metDeps, lf.metCount)
	} else {
		d, leaves = w.letDeps[uint32(rollup)][idx], depLeaves(w.letDeps[uint32(rollup)], lf.letCount[uint32(rollup)])
	}
	c := &bridgesync.Claim{BlockNum: bn, BlockPos: pos,
		OriginNetwork: d.origNet, DestinationNetwork: asNet, OriginAddress: d.origAddr, DestinationAddress: d.dest,
		FromAddress: common.BytesToAddress(g.Bytes(20)), TxHash: common.BytesToHash(g.Bytes(32)),
		Metadata: d.metadata, BlockTimestamp: bn * 12, IsMessage: d.leafType == 1, Amount: d.amount,
		MainnetExitRoot: lf.mer, RollupExitRoot: lf.rer, GlobalExitRoot: lf.ger,
	}
	c.ProofLocalExitRoot = refProof(leaves, uint32(idx))
	if rollup < 0 {
		c.GlobalIndex = bridgesync.GenerateGlobalIndex(true, 0, uint32(idx))
		for i := 0; i < 32; i++ {
			c.ProofRollupExitRoot[i] = common.BytesToHash(g.Bytes(32))
		}
	} else {
		c.GlobalIndex = bridgesync.GenerateGlobalIndex(false, uint32(rollup), uint32(idx))
		c.ProofRollupExitRoot = refProof(lf.lers, uint32(rollup))
	}
	return c
}

// the L1 info leaf number (bn, i): first some new exits on the mainnet and on rollups (at least one, so that every leaf has
// its own global exit root), then the leaf commits to the resulting exit roots
func (w *asWorld) newL1Leaf(bn uint64, i int) asL1Leaf {
	g := NewRng(bn*1000 + uint64(i) + 99)
	nm := g.Intn(3)
	nr := g.Intn(4)
	if nm+nr == 0 {
		nm = 1
	}
	for j := 0; j < nm; j++ {
		w.metDeps = append(w.metDeps, asNewDep(g))
	}
	for j := 0; j < nr; j++ {
		r := []uint32{1, 1, 1, 0, 2, 4}[g.Intn(6)] // one busy rollup, so that its exit tree gets several leaves
		w.letDeps[r] = append(w.letDeps[r], asNewDep(g))
	}
	lf := asL1Leaf{ph: common.BytesToHash(g.Bytes(32)), ts: bn*12 + uint64(i), bn: bn, metCount: len(w.metDeps), letCount: map[uint32]int{}}
	lf.lers = make([]common.Hash, 5)
	for r, ds := range w.letDeps {
		lf.letCount[r] = len(ds)
		lf.lers[r] = refRoot(depLeaves(ds, len(ds)))
	}
	lf.mer = refRoot(depLeaves(w.metDeps, len(w.metDeps)))
	lf.rer = refRoot(lf.lers)
	lf.ger = crypto.Keccak256Hash(lf.mer[:], lf.rer[:])
	ts := make([]byte, 8)
	binary.BigEndian.PutUint64(ts, lf.ts)
	lf.hash = crypto.Keccak256Hash(lf.ger[:], lf.ph[:], ts)
	return lf
}

// ---------- op execution ----------

func (w *asWorld) exec(line string) string {
	w.lines = append(w.lines, line)
	ws := strings.Fields(line)
	u := func(s string) uint64 { return bigOf(s).Uint64() }
	ctx := context.Background()
	switch ws[0] {
	case "new": // new <retry> <start> <maxsize> <hist> <omitprev> [<fep>]
		w.reset(w.r)
		w.lines = []string{line}
		w.retry, w.start, w.maxSize, w.hist = ws[1] == "1", u(ws[2]), u(ws[3]), ws[4] == "1"
		w.agg.omitPrev = ws[5] == "1"
		w.fep = len(ws) > 6 && ws[6] == "1"
		return "ok"
	case "opt": // opt on|off: the rollup contract's optimistic-mode flag
		w.optOn = ws[1] == "on"
		return "ok"
	case "prover": // prover fail | notyet | cut <k>: what the next call to the aggchain prover does
		w.prover = strings.Join(ws[1:], ":")
		return "ok"
	case "l1blk": // l1blk <num> <nleaves>
		bn, n := u(ws[1]), int(u(ws[2]))
		blk := sync.Block{Num: bn, Hash: asL1Header(bn).Hash()}
		for i := 0; i < n; i++ {
			lf := w.newL1Leaf(bn, i)
			blk.Events = append(blk.Events, l1infotreesync.Event{UpdateL1InfoTree: &l1infotreesync.UpdateL1InfoTree{
				BlockPosition: uint64(i), MainnetExitRoot: lf.mer, RollupExitRoot: lf.rer, ParentHash: lf.ph, Timestamp: lf.ts}})
			w.l1Leaves = append(w.l1Leaves, lf)
			w.l1dep.add(lf.hash)
			w.l1Roots = append(w.l1Roots, w.l1dep.root())
		}
		if err := w.l1.ProcessBlock(ctx, blk); err != nil {
			return "err"
		}
		w.l1Last = bn
		return "ok"
	case "fin":
		w.l1Final = u(ws[1])
		return "ok"
	case "l2blk", "l2blk!": // l2blk! = a statement fault on the first bridge-row insert of the first attempt, then the retry
		// l2blk <num> <tok>*   tok = b:<metalen>:<seed> | c:<metalen>:<seed>:<m|rN>:<deposit>:<l1leaf>
		bn := u(ws[1])
		blk := sync.Block{Num: bn, Hash: common.BigToHash(new(big.Int).SetUint64(bn + 77))}
		var evs []asL2Ev
		for i, tok := range ws[2:] {
			f := strings.Split(tok, ":")
			if f[0] == "b" {
				b := asBridge(bn, uint64(i), w.nDeposits, u(f[2]), int(u(f[1])))
				w.nDeposits++
				evs = append(evs, asL2Ev{bridge: b})
				cp := *b
				blk.Events = append(blk.Events, bridgesync.Event{Bridge: &cp})
				lh := bsRefLeaf(b)
				w.leafHash = append(w.leafHash, lh)
				w.dep.add(lh)
				w.roots[w.dep.root()] = int(w.nDeposits)
				w.rootAt = append(w.rootAt, w.dep.root())
			} else {
				rollup := -1
				if f[3] != "m" {
					rollup = int(u(f[3][1:]))
				}
				c := w.asClaim(bn, uint64(i), u(f[2]), rollup, int(u(f[4])), int(u(f[5])))
				if len(c.Metadata) != int(u(f[1])) {
					panic("claim token metadata length mismatch")
				}
				evs = append(evs, asL2Ev{claim: c})
				cp := *c
				blk.Events = append(blk.Events, bridgesync.Event{Claim: &cp})
			}
		}
		if ws[0] == "l2blk!" {
			ctl, err := openCtl(filepath.Join(w.dir, "l2.sqlite"))
			must(err)
			// the row of the block's LAST bridge (if any): every leaf of the block is already in the frontier when it fails
			cond := ""
			for k := len(blk.Events) - 1; k >= 0; k-- {
				if b := blk.Events[k].(bridgesync.Event).Bridge; b != nil {
					cond = fmt.Sprintf(" WHEN NEW.deposit_count = %d", b.DepositCount)
					break
				}
			}
			_, err = ctl.Exec(`CREATE TRIGGER verif_l2f BEFORE INSERT ON bridge` + cond + ` BEGIN SELECT RAISE(ABORT,'verif fault'); END;`)
			must(err)
			err1 := w.l2.ProcessBlock(ctx, blk)
			_, err = ctl.Exec(`DROP TRIGGER verif_l2f`)
			must(err)
			ctl.Close()
			if err1 == nil {
				w.r.Count("l2fault:not-reported")
			} else if err := w.l2.ProcessBlock(ctx, blk); err != nil { // the driver retries the block
				return "err"
			}
		} else if err := w.l2.ProcessBlock(ctx, blk); err != nil {
			return "err"
		}
		w.l2Blocks[bn] = evs
		w.l2Last = bn
		return "ok"
	case "move": // move <id> <status>
		id := u(ws[1])
		w.agg.certs[id-1].status = stParse(ws[2])
		return "ok"
	case "failhdr":
		w.agg.failHdr = true
		return "ok"
	case "failsub":
		w.agg.failSub = true
		return "ok"
	case "failrec": // failrec [p|s]
		w.agg.failRec = true
		w.agg.failRecOnly = ""
		if len(ws) > 1 {
			w.agg.failRecOnly = ws[1]
		}
		return "ok"
	case "savefault":
		w.saveFault = int(u(ws[1]))
		return "ok"
	case "crash":
		w.node = nil
		w.sinceRestart = true
		return "ok"
	case "losedb":
		w.node = nil
		w.storage = nil
		w.sinceRestart = true
		for _, sfx := range []string{"", "-wal", "-shm"} {
			os.Remove(w.storePath + sfx)
		}
		return "ok"
	case "forge": // the node's last record is replaced by one of a certificate the Agglayer has never seen (node down)
		if w.node != nil {
			return "running"
		}
		w.openStorage()
		hs, err := w.storage.GetCertificateHeadersByStatus(nil)
		if err != nil || len(hs) == 0 {
			return "ok rows=" + w.rowsDump()
		}
		l := hs[len(hs)-1]
		ctl, err := openCtl(w.storePath)
		must(err)
		_, err = ctl.Exec(`UPDATE certificate_info SET certificate_id = $1 WHERE height = $2`,
			idHash(9000000+l.CertificateID.Big().Uint64()).Hex(), l.Height)
		must(err)
		ctl.Close()
		return "ok rows=" + w.rowsDump()
	case "restart":
		if w.node != nil {
			return "already"
		}
		w.sinceRestart = true
		callFails := w.agg.failRec
		var preLast *aggsendertypes.CertificateHeader
		w.openStorage()
		if hs, err := w.storage.GetCertificateHeadersByStatus(nil); err == nil && len(hs) > 0 {
			preLast = hs[len(hs)-1]
		}
		res := w.restart()
		if res == "up" && preLast != nil && len(w.agg.certs) > 0 {
			id := preLast.CertificateID.Big().Uint64()
			last := w.agg.certs[len(w.agg.certs)-1]
			unknown := id == 0 || id > uint64(len(w.agg.certs))
			w.r.Evals++
			if unknown && last.req.Height == preLast.Height && preLast.Status != agglayertypes.InError {
				w.fail(fmt.Sprintf("[C13] start-up proceeded although the node's last record (certificate %d at height %d, %s) is unknown to the Agglayer, which holds certificate %d at that height", id, preLast.Height, preLast.Status, last.id))
			}
		}
		w.agg.failRec, w.agg.failHdr = false, false
		if res == "refused" {
			w.checkRefusal(callFails)
		}
		return res + " rows=" + w.rowsDump()
	case "epoch?": // an epoch tick in which the read of the last certificate fails (table renamed away for that one read)
		if w.node == nil {
			return "down"
		}
		nBefore := len(w.agg.certs)
		w.hideRead = true
		w.node.VerifClearLastError()
		w.epoch.ch <- aggsendertypes.EpochEvent{Epoch: 1}
		w.node.VerifLoopOnce(ctx, false)
		w.hideRead = false
		w.agg.failHdr, w.agg.failSub = false, false
		out := "tick"
		if len(w.agg.certs) > nBefore {
			c := w.agg.certs[len(w.agg.certs)-1]
			out += " " + w.describeSubmission(c)
			w.fail(fmt.Sprintf("[C13,C02] a certificate (id %d, height %d) was built and submitted although the node could not read its own records: a failed read was taken for an empty store", c.id, c.req.Height))
		} else if w.node.VerifLastError() != "" {
			out += " nosub err"
		} else {
			out += " nosub noerr"
		}
		w.r.Count("tick-with-unreadable-records")
		return out + " rows=" + w.rowsDump()
	case "epoch", "status", "epoch!", "status!", "epoch~":
		if w.node == nil {
			return "down"
		}
		if ws[0] == "epoch~" && w.fep {
			return "n/a" // the aggchain-prover flow reads those nodes for every proof request
		}
		if ws[0] == "epoch~" {
			// the nodes of the L1 info tree cannot be read during this tick (table renamed away): a certificate that imports
			// claims cannot get their L1 info proofs and must not be built
			_, err := w.l1.DB().Exec(`ALTER TABLE l1_info_rht RENAME TO l1_info_rht_verif_away`)
			must(err)
			defer func() {
				_, err := w.l1.DB().Exec(`ALTER TABLE l1_info_rht_verif_away RENAME TO l1_info_rht`)
				must(err)
			}()
			w.r.Count("tick-with-unreadable-l1-info-nodes")
		}
		crash := strings.HasSuffix(ws[0], "!")
		w.crashAtSave = crash
		w.saveFaultHit = false
		nBefore := len(w.agg.certs)
		crashed := false
		func() {
			defer func() {
				if e := recover(); e != nil {
					if _, ok := e.(asCrash); !ok {
						panic(e)
					}
					crashed = true
				}
			}()
			w.node.VerifClearLastError()
			if ws[0][0] == 'e' {
				w.epoch.ch <- aggsendertypes.EpochEvent{Epoch: 1}
				w.node.VerifLoopOnce(ctx, false)
			} else {
				w.node.VerifLoopOnce(ctx, true)
			}
		}()
		w.crashAtSave = false
		w.saveFault = 0
		w.agg.failHdr, w.agg.failSub = false, false
		out := "tick"
		if crashed {
			w.node = nil
			w.sinceRestart = true
			out += " crashed"
		}
		if len(w.agg.certs) > nBefore {
			c := w.agg.certs[len(w.agg.certs)-1]
			out += " " + w.describeSubmission(c)
			w.checkSubmission(c)
			if !crashed && w.node != nil && w.storage != nil {
				// the submission is on record (the generator injects only transient write faults)
				if hs, err := w.storage.GetCertificateHeadersByStatus(nil); err == nil {
					if len(hs) == 0 || hs[len(hs)-1].CertificateID != idHash(c.id) {
						w.fail(fmt.Sprintf("[C02,C13] certificate %d was submitted but the node's records do not end with it (rows %s): the next tick will submit again while it is undecided", c.id, w.rowsDump()))
					}
				}
			}
		} else {
			out += " nosub"
			if !crashed && w.node != nil {
				if w.node.VerifLastError() != "" {
					out += " err"
				} else {
					out += " noerr"
				}
			}
		}
		if w.saveFaultHit {
			w.r.Count("savefault-hit")
		}
		return out + " rows=" + w.rowsDump()
	case "claimdata": // claimdata <cert id> <imported exit index> … (inputs for the model; the observation comes from the wire)
		id, i := u(ws[1]), int(u(ws[2]))
		if id == 0 || id > uint64(len(w.agg.certs)) || i >= len(w.agg.certs[id-1].req.ImportedBridgeExits) {
			return "claim missing"
		}
		ib := w.agg.certs[id-1].req.ImportedBridgeExits[i]
		digest, lf, _ := wireClaimDigest(ib)
		if lf == nil {
			return "claim none"
		}
		return fmt.Sprintf("claim h=%s idx=%d mer=%s rer=%s", digest, lf.L1InfoTreeIndex, hx(lf.Mer.Value[:4]), hx(lf.Rer.Value[:4]))
	case "end":
		w.checkSettledChain()
		return "ok"
	}
	panic("bad op " + line)
}

// what the Agglayer received: id, height, metadata-decoded range, exit roots as leaf counts, exit counts
func (w *asWorld) describeSubmission(c *asCert) string {
	q := c.req
	from, off, _, _ := asDecodeMeta(q.Metadata.Value)
	return fmt.Sprintf("sub id=%d h=%d from=%d to=%d prev=%s new=%s nb=%d nc=%d", c.id, q.Height, from, from+uint64(off),
		w.lerName(common.BytesToHash(q.PrevLocalExitRoot.Value)), w.lerName(common.BytesToHash(q.NewLocalExitRoot.Value)),
		len(q.BridgeExits), len(q.ImportedBridgeExits))
}

// independent decoder of the certificate metadata (version 2 layout)
func asDecodeMeta(b []byte) (from uint64, off uint32, created uint32, ver byte) {
	if len(b) != 32 {
		return 0, 0, 0, 255
	}
	return binary.BigEndian.Uint64(b[1:9]), binary.BigEndian.Uint32(b[9:13]), binary.BigEndian.Uint32(b[13:17]), b[0]
}

func asReplay(r *Run, lines []string) {
	w := &asWorld{r: r}
	defer w.close()
	for _, l := range lines {
		r.Emit(l, guardAs(w, l))
		w.extra = nil
	}
}

func guardAs(w *asWorld, l string) string {
	return w.exec(l)
}
