module verifharness

go 1.24.4

require (
	buf.build/gen/go/agglayer/agglayer/grpc/go v1.5.1-20250520190516-57743a879f16.2
	buf.build/gen/go/agglayer/agglayer/protocolbuffers/go v1.36.6-20250520190516-57743a879f16.1
	buf.build/gen/go/agglayer/interop/protocolbuffers/go v1.36.6-20250519093743-85e8a3d9f59c.1
	github.com/0xPolygon/cdk-contracts-tooling v0.0.4
	github.com/agglayer/aggkit v0.0.0
	github.com/ethereum/go-ethereum v1.15.5
	github.com/mattn/go-sqlite3 v1.14.28
	google.golang.org/grpc v1.73.0
	google.golang.org/protobuf v1.36.6
)

require (
	buf.build/gen/go/agglayer/provers/grpc/go v1.5.1-20250520163122-7efa0a2f81a8.2 // indirect
	buf.build/gen/go/agglayer/provers/protocolbuffers/go v1.36.6-20250520163122-7efa0a2f81a8.1 // indirect
	cloud.google.com/go/auth v0.13.0 // indirect
	cloud.google.com/go/auth/oauth2adapt v0.2.6 // indirect
	cloud.google.com/go/compute/metadata v0.6.0 // indirect
	cloud.google.com/go/iam v1.2.2 // indirect
	cloud.google.com/go/kms v1.20.1 // indirect
	cloud.google.com/go/longrunning v0.6.2 // indirect
	github.com/0xPolygon/cdk-rpc v0.0.0-20250213125803-179882ad6229 // indirect
	github.com/0xPolygon/zkevm-ethtx-manager v0.2.15 // indirect
	github.com/0xPolygonHermez/zkevm-synchronizer-l1 v1.0.7 // indirect
	github.com/DataDog/zstd v1.5.6 // indirect
	github.com/KyleBanks/depth v1.2.1 // indirect
	github.com/VictoriaMetrics/fastcache v1.12.2 // indirect
	github.com/agglayer/go_signer v0.0.7 // indirect
	github.com/aws/aws-sdk-go-v2 v1.32.8 // indirect
	github.com/aws/aws-sdk-go-v2/config v1.28.11 // indirect
	github.com/aws/aws-sdk-go-v2/credentials v1.17.52 // indirect
	github.com/aws/aws-sdk-go-v2/feature/ec2/imds v1.16.23 // indirect
	github.com/aws/aws-sdk-go-v2/internal/configsources v1.3.27 // indirect
	github.com/aws/aws-sdk-go-v2/internal/endpoints/v2 v2.6.27 // indirect
	github.com/aws/aws-sdk-go-v2/internal/ini v1.8.1 // indirect
	github.com/aws/aws-sdk-go-v2/service/internal/accept-encoding v1.12.1 // indirect
	github.com/aws/aws-sdk-go-v2/service/internal/presigned-url v1.12.8 // indirect
	github.com/aws/aws-sdk-go-v2/service/kms v1.37.11 // indirect
	github.com/aws/aws-sdk-go-v2/service/sso v1.24.9 // indirect
	github.com/aws/aws-sdk-go-v2/service/ssooidc v1.28.8 // indirect
	github.com/aws/aws-sdk-go-v2/service/sts v1.33.7 // indirect
	github.com/aws/smithy-go v1.22.1 // indirect
	github.com/bahlo/generic-list-go v0.2.0 // indirect
	github.com/beorn7/perks v1.0.1 // indirect
	github.com/bits-and-blooms/bitset v1.20.0 // indirect
	github.com/buger/jsonparser v1.1.1 // indirect
	github.com/cespare/xxhash/v2 v2.3.0 // indirect
	github.com/cockroachdb/errors v1.11.3 // indirect
	github.com/cockroachdb/fifo v0.0.0-20240816210425-c5d0cb0b6fc0 // indirect
	github.com/cockroachdb/logtags v0.0.0-20230118201751-21c54148d20b // indirect
	github.com/cockroachdb/pebble v1.1.4 // indirect
	github.com/cockroachdb/redact v1.1.5 // indirect
	github.com/cockroachdb/tokenbucket v0.0.0-20230807174530-cc333fc44b06 // indirect
	github.com/consensys/bavard v0.1.27 // indirect
	github.com/consensys/gnark-crypto v0.16.0 // indirect
	github.com/cpuguy83/go-md2man/v2 v2.0.7 // indirect
	github.com/crate-crypto/go-ipa v0.0.0-20240724233137-53bbb0ceb27a // indirect
	github.com/crate-crypto/go-kzg-4844 v1.1.0 // indirect
	github.com/davecgh/go-spew v1.1.2-0.20180830191138-d8f796af33cc // indirect
	github.com/deckarep/golang-set/v2 v2.6.0 // indirect
	github.com/didip/tollbooth/v6 v6.1.2 // indirect
	github.com/dustin/go-humanize v1.0.1 // indirect
	github.com/ethereum-optimism/infra/op-signer v1.4.1 // indirect
	github.com/ethereum/go-verkle v0.2.2 // indirect
	github.com/felixge/httpsnoop v1.0.4 // indirect
	github.com/fsnotify/fsnotify v1.8.0 // indirect
	github.com/gabriel-vasile/mimetype v1.4.9 // indirect
	github.com/getsentry/sentry-go v0.28.1 // indirect
	github.com/gin-contrib/sse v1.1.0 // indirect
	github.com/gin-gonic/gin v1.10.1 // indirect
	github.com/go-gorp/gorp/v3 v3.1.0 // indirect
	github.com/go-logr/logr v1.4.2 // indirect
	github.com/go-logr/stdr v1.2.2 // indirect
	github.com/go-openapi/jsonpointer v0.21.1 // indirect
	github.com/go-openapi/jsonreference v0.21.0 // indirect
	github.com/go-openapi/spec v0.21.0 // indirect
	github.com/go-openapi/swag v0.23.1 // indirect
	github.com/go-pkgz/expirable-cache v0.0.3 // indirect
	github.com/go-playground/locales v0.14.1 // indirect
	github.com/go-playground/universal-translator v0.18.1 // indirect
	github.com/go-playground/validator/v10 v10.26.0 // indirect
	github.com/gofrs/flock v0.12.1 // indirect
	github.com/gogo/protobuf v1.3.2 // indirect
	github.com/golang-collections/collections v0.0.0-20130729185459-604e922904d3 // indirect
	github.com/golang-jwt/jwt/v4 v4.5.2 // indirect
	github.com/golang/mock v1.6.0 // indirect
	github.com/golang/snappy v0.0.5-0.20220116011046-fa5810519dcb // indirect
	github.com/google/s2a-go v0.1.8 // indirect
	github.com/google/uuid v1.6.0 // indirect
	github.com/googleapis/enterprise-certificate-proxy v0.3.4 // indirect
	github.com/googleapis/gax-go v1.0.3 // indirect
	github.com/googleapis/gax-go/v2 v2.14.1 // indirect
	github.com/gorilla/websocket v1.5.3 // indirect
	github.com/hashicorp/go-bexpr v0.1.11 // indirect
	github.com/hermeznetwork/tracerr v0.3.2 // indirect
	github.com/holiman/billy v0.0.0-20240216141850-2abb0c79d3c4 // indirect
	github.com/holiman/bloomfilter/v2 v2.0.3 // indirect
	github.com/holiman/uint256 v1.3.2 // indirect
	github.com/huin/goupnp v1.3.0 // indirect
	github.com/iden3/go-iden3-crypto v0.0.17 // indirect
	github.com/invopop/jsonschema v0.13.0 // indirect
	github.com/jackpal/go-nat-pmp v1.0.2 // indirect
	github.com/jmoiron/sqlx v1.2.0 // indirect
	github.com/josharian/intern v1.0.0 // indirect
	github.com/kr/pretty v0.3.1 // indirect
	github.com/kr/text v0.2.0 // indirect
	github.com/leodido/go-urn v1.4.0 // indirect
	github.com/logrusorgru/aurora v2.0.3+incompatible // indirect
	github.com/mailru/easyjson v0.9.0 // indirect
	github.com/mattn/go-colorable v0.1.13 // indirect
	github.com/mattn/go-isatty v0.0.20 // indirect
	github.com/mattn/go-runewidth v0.0.16 // indirect
	github.com/mitchellh/mapstructure v1.5.0 // indirect
	github.com/mitchellh/pointerstructure v1.2.1 // indirect
	github.com/mmcloughlin/addchain v0.4.0 // indirect
	github.com/munnerz/goautoneg v0.0.0-20191010083416-a7dc8b61c822 // indirect
	github.com/olekukonko/tablewriter v0.0.5 // indirect
	github.com/pelletier/go-toml/v2 v2.2.4 // indirect
	github.com/pion/dtls/v2 v2.2.12 // indirect
	github.com/pion/logging v0.2.2 // indirect
	github.com/pion/stun/v2 v2.0.0 // indirect
	github.com/pion/transport/v2 v2.2.10 // indirect
	github.com/pion/transport/v3 v3.0.7 // indirect
	github.com/pkg/errors v0.9.1 // indirect
	github.com/pmezard/go-difflib v1.0.1-0.20181226105442-5d4384ee4fb2 // indirect
	github.com/prometheus/client_golang v1.22.0 // indirect
	github.com/prometheus/client_model v0.6.2 // indirect
	github.com/prometheus/common v0.62.0 // indirect
	github.com/prometheus/procfs v0.15.1 // indirect
	github.com/remyoudompheng/bigfft v0.0.0-20230129092748-24d4a6f8daec // indirect
	github.com/rivo/uniseg v0.4.7 // indirect
	github.com/rogpeppe/go-internal v1.13.1 // indirect
	github.com/rs/cors v1.11.0 // indirect
	github.com/rubenv/sql-migrate v1.8.0 // indirect
	github.com/russross/blackfriday/v2 v2.1.0 // indirect
	github.com/russross/meddler v1.0.1 // indirect
	github.com/shirou/gopsutil v3.21.11+incompatible // indirect
	github.com/stretchr/objx v0.5.2 // indirect
	github.com/stretchr/testify v1.10.0 // indirect
	github.com/swaggo/files v1.0.1 // indirect
	github.com/swaggo/gin-swagger v1.6.0 // indirect
	github.com/swaggo/swag v1.16.4 // indirect
	github.com/syndtr/goleveldb v1.0.1-0.20220614013038-64ee5596c38a // indirect
	github.com/tklauser/go-sysconf v0.3.12 // indirect
	github.com/tklauser/numcpus v0.6.1 // indirect
	github.com/ugorji/go/codec v1.2.12 // indirect
	github.com/urfave/cli/v2 v2.27.7 // indirect
	github.com/wk8/go-ordered-map/v2 v2.1.8 // indirect
	github.com/wlynxg/anet v0.0.4 // indirect
	github.com/xrash/smetrics v0.0.0-20240521201337-686a1a2994c1 // indirect
	go.opentelemetry.io/auto/sdk v1.1.0 // indirect
	go.opentelemetry.io/contrib/instrumentation/google.golang.org/grpc/otelgrpc v0.54.0 // indirect
	go.opentelemetry.io/contrib/instrumentation/net/http/otelhttp v0.54.0 // indirect
	go.opentelemetry.io/otel v1.36.0 // indirect
	go.opentelemetry.io/otel/metric v1.36.0 // indirect
	go.opentelemetry.io/otel/trace v1.36.0 // indirect
	go.uber.org/multierr v1.10.0 // indirect
	go.uber.org/zap v1.27.0 // indirect
	golang.org/x/crypto v0.39.0 // indirect
	golang.org/x/exp v0.0.0-20250408133849-7e4ce0ab07d0 // indirect
	golang.org/x/net v0.41.0 // indirect
	golang.org/x/oauth2 v0.28.0 // indirect
	golang.org/x/sync v0.15.0 // indirect
	golang.org/x/sys v0.33.0 // indirect
	golang.org/x/text v0.26.0 // indirect
	golang.org/x/time v0.10.0 // indirect
	golang.org/x/tools v0.33.0 // indirect
	google.golang.org/api v0.215.0 // indirect
	google.golang.org/genproto v0.0.0-20241118233622-e639e219e697 // indirect
	google.golang.org/genproto/googleapis/api v0.0.0-20250324211829-b45e905df463 // indirect
	google.golang.org/genproto/googleapis/rpc v0.0.0-20250324211829-b45e905df463 // indirect
	gopkg.in/natefinch/lumberjack.v2 v2.2.1 // indirect
	gopkg.in/yaml.v3 v3.0.1 // indirect
	modernc.org/libc v1.65.10 // indirect
	modernc.org/mathutil v1.7.1 // indirect
	modernc.org/memory v1.11.0 // indirect
	modernc.org/sqlite v1.38.0 // indirect
	rsc.io/tmplfunc v0.0.3 // indirect
)

replace github.com/agglayer/aggkit => /repo
