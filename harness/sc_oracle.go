package main

// Scenario `oracle` (C15): the real AggOracle tick (verif hook) over the REAL L1 info tree processor + facade
// (GetLatestInfoUntilBlock), a scripted L1 client (finality sample) and a recording L2 sender.

import (
	"context"
	"errors"
	"fmt"
	"math/big"
	"os"
	"path/filepath"
	"strings"
	"time"

	"github.com/agglayer/aggkit/aggoracle"
	"github.com/agglayer/aggkit/l1infotreesync"
	"github.com/agglayer/aggkit/sync"
	aggkittypes "github.com/agglayer/aggkit/types"
	"github.com/ethereum/go-ethereum"
	"github.com/ethereum/go-ethereum/common"
	"github.com/ethereum/go-ethereum/core/types"
	"github.com/ethereum/go-ethereum/crypto"
)

func init() { scenarios["oracle"] = Scenario{Gen: orGen, Replay: orReplay} }

type orL1 struct {
	ethereum.ChainReader
	fin     uint64
	finErr  bool
	sampled bool
	head      uint64 // the chain's head: what a query without the finality tag answers
	headAsked bool
}

func (c *orL1) HeaderByNumber(ctx context.Context, number *big.Int) (*types.Header, error) {
	if number == nil || number.Sign() >= 0 {
		// the chain's head (or a block by number): always answered — far beyond the finalized block, nothing there is final
		n := c.head
		if number != nil {
			n = number.Uint64()
		}
		c.headAsked = true
		return &types.Header{Number: new(big.Int).SetUint64(n)}, nil
	}
	c.sampled = true
	if c.finErr {
		return nil, errors.New("l1 rpc failure")
	}
	return &types.Header{Number: new(big.Int).SetUint64(c.fin)}, nil
}

type orSyncer struct {
	f       *l1infotreesync.L1InfoTreeSync
	syncErr bool
}

func (s *orSyncer) GetLatestInfoUntilBlock(ctx context.Context, blockNum uint64) (*l1infotreesync.L1InfoTreeLeaf, error) {
	if s.syncErr {
		return nil, errors.New("syncer database failure")
	}
	return s.f.GetLatestInfoUntilBlock(ctx, blockNum)
}

type orSender struct {
	l2       map[common.Hash]bool
	isInjErr bool
	injErr   bool
	injected []common.Hash
}

func (s *orSender) IsGERInjected(ger common.Hash) (bool, error) {
	if s.isInjErr {
		return false, errors.New("l2 read failure")
	}
	return s.l2[ger], nil
}
func (s *orSender) InjectGER(ctx context.Context, ger common.Hash) error {
	if s.injErr {
		return errors.New("l2 tx failure")
	}
	s.injected = append(s.injected, ger)
	return nil
}

type orWorld struct {
	dir     string
	p       *l1infotreesync.VerifProcessor
	l1      *orL1
	sy      *orSyncer
	snd     *orSender
	o       *aggoracle.AggOracle
	target  uint64
	gerOf   map[uint64]common.Hash // id -> GER hash
	idOf    map[common.Hash]uint64
	lines   []string
	// monitor
	samples []uint64
	leaves  []struct{ block, id uint64 }
	lpb     uint64
	blocks  []uint64 // numbers of the blocks the syncer holds
	pos     uint64
	stall int
	owed    uint64
}

func (w *orWorld) close() {
	if w.p != nil {
		w.p.Close()
		w.p = nil
	}
	if w.dir != "" {
		os.RemoveAll(w.dir)
		w.dir = ""
	}
}

func (w *orWorld) latestUntil(t uint64) (uint64, bool) {
	best, ok := uint64(0), false
	for _, l := range w.leaves {
		if l.block <= t {
			best, ok = l.id, true
		}
	}
	return best, ok
}

func (w *orWorld) exec(r *Run, line string) string {
	ws := strings.Fields(line)
	r.Count("op:" + ws[0])
	r.Evals++
	if ws[0] != "new" {
		w.lines = append(w.lines, line)
	}
	ctx := context.Background()
	obs := "bad-op"
	switch ws[0] {
	case "new":
		w.close()
		*w = orWorld{gerOf: map[uint64]common.Hash{}, idOf: map[common.Hash]uint64{}}
		w.lines = []string{}
		dir, err := os.MkdirTemp(r.OutDir, "ordb")
		must(err)
		w.dir = dir
		w.p, err = l1infotreesync.VerifNewProcessor(filepath.Join(dir, "l.sqlite"))
		must(err)
		w.l1 = &orL1{}
		w.sy = &orSyncer{f: w.p.Facade()}
		w.snd = &orSender{l2: map[common.Hash]bool{}}
		w.o, err = aggoracle.New(lg(), w.snd, w.l1, w.sy, aggkittypes.FinalizedBlock, time.Hour)
		must(err)
		obs = "ok"
	case "l1blk":
		bn := bigOf(ws[1]).Uint64()
		blk := sync.Block{Num: bn, Hash: common.BigToHash(new(big.Int).SetUint64(bn))}
		for _, g := range ws[2:] {
			id := bigOf(g).Uint64()
			mer := common.BigToHash(new(big.Int).SetUint64(0xabc000 + id))
			w.pos++
			blk.Events = append(blk.Events, l1infotreesync.Event{UpdateL1InfoTree: &l1infotreesync.UpdateL1InfoTree{BlockPosition: w.pos, MainnetExitRoot: mer, ParentHash: common.BigToHash(big.NewInt(int64(bn))), Timestamp: bn}})
			ger := crypto.Keccak256Hash(mer[:], make([]byte, 32))
			w.gerOf[id], w.idOf[ger] = ger, id
			w.leaves = append(w.leaves, struct{ block, id uint64 }{bn, id})
		}
		if err := w.p.ProcessBlock(ctx, blk); err != nil {
			r.Fail(fmt.Sprintf("[C15,C04] the L1 info syncer cannot store block %d of the chain (%v): an earlier reorg did not remove what it had to", bn, err), append([]string{"new"}, w.lines...))
			panic(stopRun{})
		}
		w.lpb = bn
		w.blocks = append(w.blocks, bn)
		obs = "ok"
	case "l1reorg": // l1reorg k: the L1 blocks k.. (all above every finalized block so far) are replaced; the syncer rewinds
		k := bigOf(ws[1]).Uint64()
		must(w.p.Reorg(ctx, k))
		kept := w.leaves[:0:0]
		for _, l := range w.leaves {
			if l.block < k {
				kept = append(kept, l)
			}
		}
		w.leaves = kept
		w.lpb = 0
		for _, b := range w.blocks {
			if b < k {
				w.lpb = b
			}
		}
		for len(w.blocks) > 0 && w.blocks[len(w.blocks)-1] >= k {
			w.blocks = w.blocks[:len(w.blocks)-1]
		}
		// the driver resumes right after the last block the store still holds
		got, err := w.p.Facade().GetLastProcessedBlock(ctx)
		must(err)
		if got != w.lpb {
			r.Fail(fmt.Sprintf("[C15,C04] after a reorg from block %d the L1 info syncer's store ends at block %d, the last block below the reorg is %d", k, got, w.lpb), append([]string{"new"}, w.lines...))
		}
		obs = "ok"
	case "tick":
		w.l1.fin, w.l1.finErr, w.l1.sampled = bigOf(ws[1]).Uint64(), ws[2] == "1", false
		w.l1.head, w.l1.headAsked = max(w.lpb, w.l1.fin), false // the head is where the syncer is (nothing above the finalized block is final)
		w.sy.syncErr, w.snd.isInjErr, w.snd.injErr = ws[3] == "1", ws[4] == "1", ws[5] == "1"
		w.snd.l2 = map[common.Hash]bool{}
		l2ids := map[uint64]bool{}
		if ws[6] != "-" {
			for _, g := range strings.Split(ws[6], ",") {
				id := bigOf(g).Uint64()
				l2ids[id] = true
				if h, ok := w.gerOf[id]; ok {
					w.snd.l2[h] = true
				}
			}
		}
		before := len(w.snd.injected)
		prevTarget := w.target
		err := aggoracle.VerifTick(w.o, ctx, &w.target)
		usedT := prevTarget
		if w.l1.sampled {
			usedT = w.l1.fin
			if !w.l1.finErr {
				w.samples = append(w.samples, w.l1.fin)
			}
		}
		switch {
		case len(w.snd.injected) > before:
			g := w.snd.injected[len(w.snd.injected)-1]
			obs = fmt.Sprintf("injected %d %d", w.idOf[g], usedT)
			if err != nil {
				obs += " ERR"
			}
		case err == nil:
			// already injected: which one? the latest until the used target
			id, _ := w.latestUntil(usedT)
			obs = fmt.Sprintf("already %d", id)
		case errors.Is(err, l1infotreesync.ErrBlockNotProcessed):
			obs = fmt.Sprintf("notready %d", usedT)
		case errors.Is(err, l1infotreesync.ErrNotFound):
			obs = "noger"
		default:
			obs = "failed"
		}
		// ---- monitors ----
		cp := append([]string{"new"}, w.lines...)
		depsOK := !(w.l1.finErr && w.l1.sampled) && !w.sy.syncErr && !w.snd.isInjErr && !w.snd.injErr
		if len(w.snd.injected) > before {
			g := w.snd.injected[len(w.snd.injected)-1]
			id := w.idOf[g]
			just := false
			for _, T := range w.samples {
				if T <= w.lpb {
					if l, ok := w.latestUntil(T); ok && l == id {
						just = true
					}
				}
			}
			if !just {
				r.Fail(fmt.Sprintf("[C15] injected GER #%d which is not the most recent L1 info root at or below any finalized block sampled so far that the syncer has reached (samples %v, syncer at %d)", id, w.samples, w.lpb), cp)
			}
			if l2ids[id] {
				r.Fail(fmt.Sprintf("[C15] injected GER #%d although the L2 contract already has it", id), cp)
			}
		}
		// progress: a finalized block F was sampled at a tick where only the syncer was behind; over the following ticks
		// (no dependency error in between) the first one at which the syncer has reached F must serve F — newer finalized
		// blocks appearing meanwhile must not starve the oracle
		served := len(w.snd.injected) > before || strings.HasPrefix(obs, "already")
		if !depsOK {
			w.owed = 0
		} else if w.owed != 0 && w.owed <= w.lpb {
			if l, ok := w.latestUntil(w.owed); ok && !served {
				r.Fail(fmt.Sprintf("[C15] finalized block %d was sampled at an earlier tick and the syncer has now reached it (%d), but nothing was injected for it (its latest root is #%d; outcome: %s): the oracle is starved by newer finalized blocks", w.owed, w.lpb, l, obs), cp)
			}
			w.owed = 0
		}
		if depsOK && w.l1.sampled && w.l1.fin > w.lpb && w.owed == 0 {
			w.owed = w.l1.fin
		}
		// no freeze: with every dependency answering and the syncer at or beyond both the finalized block and the block
		// the oracle asked for, a tick may spend itself on a remembered older block once (and find its root present);
		// the next such tick must inject the newest finalized root when the L2 contract does not have it
		if l, ok := w.latestUntil(w.l1.fin); depsOK && ok && !l2ids[l] && w.lpb >= w.l1.fin && w.lpb >= usedT && len(w.snd.injected) == before {
			w.stall++
			if w.stall >= 2 {
				r.Fail(fmt.Sprintf("[C15] %d consecutive fault-free ticks with the syncer (%d) at or beyond the finalized block %d injected nothing although its latest root #%d is not on L2 (outcome: %s): newer finalized roots are no longer injected", w.stall, w.lpb, w.l1.fin, l, obs), cp)
			}
		} else {
			w.stall = 0
		}
	}
	r.Emit(line, obs)
	return obs
}

func boolInt(b bool) int {
	if b {
		return 1
	}
	return 0
}

// a root newer than `id` (later leaf) is already on L2: injecting the older one is not owed any more
func (w *orWorld) anyNewerInjected(id uint64, l2 map[uint64]bool) bool {
	seen := false
	for _, l := range w.leaves {
		if seen && l2[l.id] {
			return true
		}
		if l.id == id {
			seen = true
		}
	}
	return false
}

func orGen(r *Run, rng *Rng) {
	w := &orWorld{}
	defer w.close()
	nw := 60
	if r.Tier == "thorough" {
		nw = 500
	}
	for i := 0; i < nw; i++ {
		w.exec(r, "new")
		// relative speeds: finality advance per tick, syncer lag behind the newest finalized block (can be negative = ahead)
		finStep := uint64(1 + rng.Intn(12))
		lag := int64(rng.Intn(16)) - 4
		fin := uint64(20 + rng.Intn(30))
		synced := uint64(0)
		nextID := uint64(1)
		l2 := []string{}
		for t := 0; t < 5+rng.Intn(12); t++ {
			fin += finStep
			if rng.Chance(15) {
				fin += uint64(rng.Intn(30))
			}
			target := int64(fin) - lag
			if rng.Chance(20) {
				target += int64(rng.Intn(9)) - 4
			}
			// the syncer processes blocks up to `target`, some of them with info updates
			for int64(synced) < target {
				step := uint64(1 + rng.Intn(6))
				synced += step
				if int64(synced) > target {
					synced = uint64(target)
				}
				var gs []string
				if rng.Chance(35) {
					for k := 0; k < 1+rng.Intn(2); k++ {
						gs = append(gs, fmt.Sprint(nextID))
						nextID++
					}
				}
				w.exec(r, strings.TrimSpace(fmt.Sprintf("l1blk %d %s", synced, strings.Join(gs, " "))))
			}
			// an L1 reorg above the finalized block: at the syncer's tip, or deeper; the new fork has its own updates
			if synced > fin && rng.Chance(35) {
				k := synced
				if rng.Chance(50) {
					k = fin + 1 + uint64(rng.Intn(int(synced-fin)))
				}
				w.exec(r, fmt.Sprintf("l1reorg %d", k))
				r.Count(fmt.Sprintf("l1reorg:at-tip=%v", k == synced))
				synced = k - 1
				for int64(synced) < target {
					synced += uint64(1 + rng.Intn(6))
					if int64(synced) > target {
						synced = uint64(target)
					}
					var gs []string
					if rng.Chance(35) {
						gs = append(gs, fmt.Sprint(nextID))
						nextID++
					}
					w.exec(r, strings.TrimSpace(fmt.Sprintf("l1blk %d %s", synced, strings.Join(gs, " "))))
				}
			}
			e := func(p int) string { return b2s(rng.Chance(p)) }
			l2s := "-"
			if len(l2) > 0 {
				l2s = strings.Join(l2, ",")
			}
			obs := w.exec(r, fmt.Sprintf("tick %d %s %s %s %s %s", fin, e(6), e(6), e(6), e(6), l2s))
			r.Case(fmt.Sprintf("or:%d:%d:%s", i, t, strings.Fields(obs)[0]))
			if strings.HasPrefix(obs, "injected ") {
				l2 = append(l2, strings.Fields(obs)[1])
			}
			if rng.Chance(10) && nextID > 1 { // someone else injects a root on L2
				l2 = append(l2, fmt.Sprint(1+rng.Intn(int(nextID-1))))
			}
		}
		if i < 2 {
			r.Sample(strings.Join(w.lines[:min(len(w.lines), 8)], " ; "))
		}
	}
}

func orReplay(r *Run, lines []string) {
	w := &orWorld{}
	defer w.close()
	for _, l := range lines {
		w.exec(r, l)
	}
}
