package main

// Scenario `epoch` (C18): the real EpochNotifierPerBlock goroutine, driven through a fake block
// notifier; events recorded synchronously by a recording subscriber.

import (
	"context"
	"fmt"
	"strings"
	"time"

	"github.com/agglayer/aggkit/aggsender"
	"github.com/agglayer/aggkit/aggsender/types"
)

func init() { scenarios["epoch"] = Scenario{Gen: epGen, Replay: epReplay} }

type fakeBlockNotifier struct{ ch chan types.EventNewBlock }

func (f *fakeBlockNotifier) Subscribe(string) <-chan types.EventNewBlock { return f.ch }
func (f *fakeBlockNotifier) GetCurrentBlockNumber() uint64               { return 0 }
func (f *fakeBlockNotifier) String() string                              { return "fake" }

// records synchronously and forwards to the node's default publisher, whose one subscriber reads only at the end
type recSub struct {
	evs  []types.EpochEvent
	real *aggsender.GenericSubscriberImpl[types.EpochEvent]
	ch   <-chan types.EpochEvent
	ch2  <-chan types.EpochEvent // a second subscription under the SAME name (two components of the node naming themselves alike)
	late <-chan types.EpochEvent // a component that subscribes only after the first announcement has gone out
}

func (r *recSub) Subscribe(string) <-chan types.EpochEvent { return nil }
func (r *recSub) Publish(e types.EpochEvent) {
	r.evs = append(r.evs, e)
	if r.real != nil {
		r.real.Publish(e)
		if len(r.evs) == 1 {
			r.late = r.real.Subscribe("verif-late") // from now on it must get every announcement
		}
	}
}

// a subscriber of the default publisher that was busy while the epochs went by must still get every announcement
func (s *epState) drain(r *Run) {
	if s.sub == nil || s.sub.ch == nil || len(s.sub.evs) == 0 {
		return
	}
	if s.sub.late != nil {
		// the late subscriber: everything after the first announcement
		want := s.sub.evs[1:]
		wait := 2 * time.Second
		if s.lateFailed {
			wait = time.Millisecond
		}
		timeout := time.After(wait)
		n := 0
		left := map[uint64]int{}
		for _, e := range want {
			left[e.Epoch]++
		}
	lateLoop:
		for n < len(want) {
			select {
			case e := <-s.sub.late: // (the publisher hands each announcement to a goroutine of its own: no order is promised)
				left[e.Epoch]--
				n++
			case <-timeout:
				break lateLoop
			}
		}
		r.Evals++
		bad := n != len(want)
		for _, k := range left {
			bad = bad || k != 0
		}
		if bad {
			s.lateFailed = true
			r.Fail(fmt.Sprintf("a component that subscribed to the default publisher after the first announcement received %d of the %d announcements made since", n, len(want)), append([]string{}, s.lines...))
		}
		s.sub.late = nil
	}
	if s.sub.ch2 != nil {
		// the second subscription first (with a short patience once something has already failed)
		c2 := s.sub.ch2
		s.sub.ch2 = nil
		first := s.sub.ch
		s.sub.ch = c2
		s.drain(r)
		s.sub.ch = first
	}
	got := map[uint64]int{}
	n := 0
	wait := 2 * time.Second
	if s.lateFailed {
		wait = time.Millisecond // already reported once in this run: do not wait for what will not come
	}
	timeout := time.After(wait)
loop:
	for n < len(s.sub.evs) {
		select {
		case e := <-s.sub.ch:
			got[e.Epoch]++
			n++
		case <-timeout:
			break loop
		}
	}
	r.Evals++
	for _, e := range s.sub.evs {
		got[e.Epoch]--
	}
	for ep, k := range got {
		if k != 0 {
			s.lateFailed = true
			r.Fail(fmt.Sprintf("a subscriber of the default publisher that read late received %d of %d announcements (epoch %d: %+d)", n, len(s.sub.evs), ep, k), append([]string{}, s.lines...))
			break
		}
	}
	s.sub.ch = nil
}

type epState struct {
	S, N, P uint64
	bn      *fakeBlockNotifier
	sub     *recSub
	cancel  context.CancelFunc
	valid   bool
	// monitor state (property decided on implementation observations only)
	blocks     []uint64
	notified   map[uint64]uint64 // epoch -> block
	lastEp     uint64
	lines      []string
	lateFailed bool
}

func (s *epState) stop() {
	if s.cancel != nil {
		s.cancel()
	}
}

// integer reference for "block b is at or beyond the configured percentage of its epoch"
func epRef(S, N, P, b uint64) (epoch uint64, reached bool) {
	if b < S {
		return 0, false
	}
	epoch = 1 + (b-S)/N
	el := (b - S) % N
	// threshold min(P/100, (N-1)/N) compared exactly
	if P*N > 100*(N-1) {
		return epoch, el >= N-1
	}
	return epoch, 100*el >= P*N
}

func epExec(r *Run, s *epState, line string) {
	ws := strings.Fields(line)
	r.Count("op:" + ws[0])
	switch ws[0] {
	case "cfg":
		s.drain(r)
		s.stop()
		s.S, s.N, s.P = bigOf(ws[1]).Uint64(), bigOf(ws[2]).Uint64(), bigOf(ws[3]).Uint64()
		s.bn = &fakeBlockNotifier{ch: make(chan types.EventNewBlock)}
		s.sub = &recSub{real: aggsender.NewGenericSubscriberImpl[types.EpochEvent]()}
		s.sub.ch = s.sub.real.Subscribe("verif")
		s.sub.ch2 = s.sub.real.Subscribe("verif")
		s.blocks, s.notified, s.lastEp, s.lines = nil, map[uint64]uint64{}, 0, []string{line}
		n, err := aggsender.NewEpochNotifierPerBlock(s.bn, lg(),
			aggsender.ConfigEpochNotifierPerBlock{StartingEpochBlock: s.S, NumBlockPerEpoch: uint(s.N), EpochNotificationPercentage: uint(s.P)}, s.sub)
		if err != nil {
			s.valid = false
			r.Emit(line, "invalid")
			return
		}
		s.valid = true
		ctx, cancel := context.WithCancel(context.Background())
		s.cancel = cancel
		n.StartAsync(ctx)
		r.Emit(line, "ok")
	case "blk":
		b := bigOf(ws[1]).Uint64()
		if !s.valid {
			r.Emit(line, "bad-op")
			return
		}
		s.lines = append(s.lines, line)
		before := len(s.sub.evs)
		s.bn.ch <- types.EventNewBlock{BlockNumber: b}
		s.bn.ch <- types.EventNewBlock{BlockNumber: b} // flush: ignored (not above lastBlockSeen / below S), returns after the first was fully handled
		obs := "none"
		var got *types.EpochEvent
		if len(s.sub.evs) > before {
			e := s.sub.evs[len(s.sub.evs)-1]
			got = &e
			pend := -1
			if x, ok := e.ExtraInfo.(*aggsender.ExtraInfoEventEpoch); ok {
				pend = x.PendingBlocks
			}
			obs = fmt.Sprintf("notify %d pending=%d", e.Epoch, pend)
			if len(s.sub.evs) > before+1 {
				obs += " DUP"
			}
			r.Count("notify")
		}
		r.Emit(line, obs)
		// ---- monitor ----
		increasing := len(s.blocks) == 0 || b > s.blocks[len(s.blocks)-1]
		if !increasing || b < s.S {
			return // outside the property's quantifier (malformed stream)
		}
		s.blocks = append(s.blocks, b)
		ep, reached := epRef(s.S, s.N, s.P, b)
		_, already := s.notified[ep]
		want := reached && !already
		cp := append([]string{}, s.lines...)
		if want && got == nil {
			r.Fail(fmt.Sprintf("missing notification: S=%d N=%d P=%d block %d is the first at/after the threshold in epoch %d", s.S, s.N, s.P, b, ep), cp)
		}
		if got != nil {
			if !want {
				r.Fail(fmt.Sprintf("spurious notification: S=%d N=%d P=%d block %d epoch %d (reached=%v alreadyNotified=%v) got epoch %d", s.S, s.N, s.P, b, ep, reached, already, got.Epoch), cp)
			} else if got.Epoch != ep {
				r.Fail(fmt.Sprintf("wrong epoch: S=%d N=%d P=%d block %d expected %d got %d", s.S, s.N, s.P, b, ep, got.Epoch), cp)
			}
			if got.Epoch <= s.lastEp && s.lastEp != 0 {
				r.Fail(fmt.Sprintf("epochs not strictly increasing: %d after %d", got.Epoch, s.lastEp), cp)
			}
			s.lastEp = got.Epoch
			s.notified[got.Epoch] = b
		}
	default:
		r.Emit(line, "bad-op")
	}
	r.Evals++
}

// enumerate all strictly increasing sequences inside [lo, hi] (as subsets), feeding each to a fresh notifier
func epGen(r *Run, rng *Rng) {
	s := &epState{}
	defer func() { s.drain(r); s.stop() }()
	runSeq := func(S, N, P uint64, seq []uint64) {
		epExec(r, s, fmt.Sprintf("cfg %d %d %d", S, N, P))
		for _, b := range seq {
			epExec(r, s, fmt.Sprintf("blk %d", b))
		}
		r.Case(fmt.Sprintf("%d/%d/%d/%v", S, N, P, seq))
	}
	// exhaustive small scope: N<=maxN, S<=2, every P, all subsets of the first `span` blocks from S (S itself included)
	maxN, span := uint64(4), uint64(7)
	if r.Tier == "thorough" {
		maxN, span = 8, 10
	}
	for N := uint64(1); N <= maxN; N++ {
		for S := uint64(0); S <= 2; S++ {
			for P := uint64(0); P <= 99; P++ {
				if r.Tier != "thorough" && P%7 != 0 && P != 99 && P != 50 && P != 67 && P != 86 && P != 75 && P != 34 {
					continue
				}
				nsub := uint64(1) << span
				step := uint64(1)
				if r.Tier != "thorough" {
					step = 5
				}
				for m := uint64(1 + (P+N+S)%step); m < nsub; m += step {
					var seq []uint64
					for i := uint64(0); i < span; i++ {
						if m&(1<<i) != 0 {
							seq = append(seq, S+i)
						}
					}
					runSeq(S, N, P, seq)
				}
			}
		}
	}
	// random: large N, gaps, float/rational agreement up to 2^44
	n := 400
	if r.Tier == "thorough" {
		n = 6000
	}
	for i := 0; i < n; i++ {
		var N uint64
		switch rng.Intn(4) {
		case 0:
			N = 1 + uint64(rng.Intn(70))
		case 1:
			N = 1 + uint64(rng.Intn(1000))
		case 2:
			N = 1 + rng.U64()%(1<<20)
		default:
			N = 1 + rng.U64()%(1<<44)
		}
		S := rng.U64() % (1 << uint(rng.Intn(40)))
		P := uint64(rng.Intn(100))
		var seq []uint64
		b := S
		if rng.Chance(70) {
			b = S + rng.U64()%(N+1)
		}
		cnt := 3 + rng.Intn(25)
		for j := 0; j < cnt; j++ {
			seq = append(seq, b)
			switch rng.Intn(5) {
			case 0:
				b++
			case 1:
				// jump to just around the threshold of the current or a later epoch
				ep := (b-S)/N + uint64(rng.Intn(3))
				thr := (P*N + 99) / 100
				if thr > N-1 {
					thr = N - 1
				}
				nb := S + ep*N + thr + uint64(rng.Intn(3)) - 1
				if nb <= b {
					nb = b + 1
				}
				b = nb
			case 2:
				b += 1 + rng.U64()%(N+1)
			case 3:
				b += 1 + rng.U64()%(3*N+1)
			default:
				b += 1 + uint64(rng.Intn(3))
			}
		}
		if i < 4 {
			r.Sample(fmt.Sprintf("cfg %d %d %d ; blocks %v", S, N, P, seq))
		}
		runSeq(S, N, P, seq)
		// malformed stream: repeated / decreasing / below-start blocks
		if rng.Chance(20) {
			r.Count("malformed")
			for j := 0; j < 5; j++ {
				epExec(r, s, fmt.Sprintf("blk %d", seq[rng.Intn(len(seq))]-uint64(rng.Intn(2))))
			}
		}
	}
	// invalid configurations are rejected
	epExec(r, s, "cfg 5 0 10")
	epExec(r, s, "cfg 5 10 100")
}

func epReplay(r *Run, lines []string) {
	s := &epState{}
	defer func() { s.drain(r); s.stop() }()
	for _, l := range lines {
		epExec(r, s, l)
	}
}
