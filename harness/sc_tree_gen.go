package main

import (
	"fmt"

	"github.com/ethereum/go-ethereum/common"
)

func rndHash(rng *Rng) common.Hash { return common.BytesToHash(rng.Bytes(32)) }

// append-only world: random transactions, rollbacks, failing adds, restarts, reorgs; verification of every
// (root, covered position) pair at the end
func treeWorldAO(r *Run, rng *Rng, w *treeWorld, maxLeaves int, fabIdx int64) {
	w.exec(r, "new")
	bn := uint64(1 + rng.Intn(5))
	next := uint64(0)
	if fabIdx >= 0 {
		w.exec(r, fmt.Sprintf("fab %d 0 %d %s %s", bn, fabIdx, hx(rndHash(rng).Bytes()), hx(rndHash(rng).Bytes())))
		next = uint64(fabIdx) + 1
		bn++
	}
	type lf struct {
		idx uint64
		h   common.Hash
		bn  uint64
	}
	var committed []lf
	var allLeaves []common.Hash
	steps := 4 + rng.Intn(10)
	for s := 0; s < steps && len(committed) < maxLeaves; s++ {
		switch {
		case rng.Chance(12):
			w.exec(r, "restart")
			r.Count("branch:restart")
		case rng.Chance(12) && len(committed) > 0:
			// reorg at a random block in [first-1, tip+2]
			lo := committed[0].bn
			if lo > 0 {
				lo--
			}
			b := lo + uint64(rng.Intn(int(bn-lo)+3))
			if fabIdx >= 0 && b <= committed[0].bn-0 && b <= w.bnByIdx[uint64(fabIdx)] {
				b = w.bnByIdx[uint64(fabIdx)] + 1 // never remove the fabricated pre-state
			}
			w.exec(r, "begin")
			w.exec(r, fmt.Sprintf("reorg %d", b))
			w.exec(r, "commit")
			r.Count("branch:reorg")
			var keep []lf
			for _, l := range committed {
				if l.bn < b {
					keep = append(keep, l)
				}
			}
			if len(keep) != len(committed) {
				r.Count("branch:reorg-removes")
			}
			committed = keep
			next = uint64(len(committed))
			if fabIdx >= 0 {
				next += uint64(fabIdx) + 1
			}
		default:
			w.exec(r, "begin")
			k := 1 + rng.Intn(6)
			var pend []lf
			outcome := rng.Intn(100)
			failed := false
			faultAt := rng.Intn(k)
			if rng.Chance(50) {
				faultAt = 0 // the first AddLeaf of a transaction is the one that may have to rebuild the cache
			}
			for j := 0; j < k; j++ {
				if next > 0xfffffffe { // the deposit contract holds at most 2^32-1 leaves (last index 2^32-2)
					break
				}
				idx := next
				leaf := rndHash(rng)
				if rng.Chance(12) && len(allLeaves) > 0 {
					leaf = allLeaves[rng.Intn(len(allLeaves))] // a value seen before (identical deposits / same leaf re-added after a reorg)
					r.Count("branch:dup-leaf")
				}
				allLeaves = append(allLeaves, leaf)
				if outcome >= 82 && outcome < 90 && j == faultAt {
					// storage fault at a random statement of this AddLeaf (reads included), then rollback
					w.exec(r, fmt.Sprintf("addF %d %d %d %d %s", faultStmt(rng), bn, j, idx, hx0(leaf)))
					r.Count("branch:addF")
					failed = true
					break
				}
				if outcome >= 90 && j == k-1 {
					// failing add: index gap, repeated index, or a zero leaf (root primary key collision)
					switch rng.Intn(3) {
					case 0:
						idx = next + 1 + uint64(rng.Intn(3))
						r.Count("branch:gap")
					case 1:
						if next > 0 {
							idx = next - 1
						}
						r.Count("branch:repeat")
					default:
						leaf = common.Hash{}
						r.Count("branch:zero-leaf")
					}
					if idx > 0xfffffffe {
						idx = next
						leaf = common.Hash{}
					}
					w.exec(r, fmt.Sprintf("add %d %d %d %s", bn, j, idx, hx0(leaf)))
					failed = true
					break
				}
				w.exec(r, fmt.Sprintf("add %d %d %d %s", bn, j, idx, hx0(leaf)))
				pend = append(pend, lf{idx, leaf, bn})
				next++
			}
			if failed || (outcome >= 70 && outcome < 82) {
				w.exec(r, "rollback")
				r.Count("branch:rollback")
				next -= uint64(len(pend))
			} else {
				w.exec(r, "commit")
				committed = append(committed, pend...)
			}
			bn += 1 + uint64(rng.Intn(2))
		}
		if rng.Chance(50) {
			w.exec(r, "q lastroot")
			if len(committed) > 0 {
				c := committed[rng.Intn(len(committed))]
				w.exec(r, fmt.Sprintf("q rootidx %d", c.idx))
			}
		}
	}
	// every deposit's root vs the contract algorithm, every (root, covered position) pair
	w.exec(r, "q lastroot")
	if fabIdx >= 0 {
		w.exec(r, fmt.Sprintf("q rootidx %d", fabIdx))
	}
	for vi, v := range committed {
		w.exec(r, fmt.Sprintf("q rootidx %d", v.idx))
		if w.tx == nil && (vi == 0 || rng.Chance(10)) {
			w.exec(r, fmt.Sprintf("q rootidx! %d", v.idx))
		}
		root, ok := w.rootsByIdx[v.idx]
		if !ok {
			continue
		}
		for pi := 0; pi <= vi; pi++ {
			if len(committed) > 24 && rng.Intn(len(committed)) > 24 {
				continue
			}
			w.exec(r, fmt.Sprintf("q verify %d %s %s", committed[pi].idx, hx(root[:]), hx0(committed[pi].h)))
			r.Case(fmt.Sprintf("ao:%s:%d", hx(root[:8]), committed[pi].idx))
		}
		if vi == len(committed)-1 {
			// raw proof / leaf observables, incl. an uncovered position (documented zero-padded path)
			w.exec(r, fmt.Sprintf("q proof %d %s", committed[rng.Intn(len(committed))].idx, hx(root[:])))
			w.exec(r, fmt.Sprintf("q proof %d %s", v.idx+1+uint64(rng.Intn(5)), hx(root[:])))
			w.exec(r, fmt.Sprintf("q leaf %d %s", v.idx+1, hx(root[:])))
			w.exec(r, fmt.Sprintf("q roothash %s", hx(root[:])))
		}
	}
	w.exec(r, fmt.Sprintf("q rootidx %d", next+3))
}

func hx0(h common.Hash) string { return hx(h[:]) }

// updatable world
func treeWorldUpd(r *Run, rng *Rng, w *treeWorld, nUpserts int) {
	w.exec(r, "new")
	positions := []uint64{0, 1, 2, 3, 5, 8, 1 << 31, 1<<32 - 1, uint64(rng.U32()), uint64(rng.U32())}
	bn := uint64(1)
	directedF := []int{0, 1, 34} // directed: once per world, on a tree that already has leaves — the read of the root to build on, the first node read, a node write
	for i := 0; i < nUpserts; {
		switch {
		case len(directedF) > 0 && len(w.updRoots) > 0 && w.tx == nil:
			w.exec(r, "begin")
			// (takes nothing from the random stream and leaves bn and i alone: the rest of the world is what it was before this was added)
			w.exec(r, fmt.Sprintf("upsertF %d %d 0 %d %s", directedF[0], bn, positions[len(directedF)], hx0(common.BytesToHash([]byte{0xd1, 0xec, 0x7e, 0xd0, byte(bn >> 8), byte(bn)}))))
			r.Count("directed:upsertF-on-non-empty-tree")
			w.exec(r, "rollback")
			directedF = directedF[1:]
		case rng.Chance(10):
			w.exec(r, "restart")
		case rng.Chance(10) && len(w.updRoots) > 0:
			b := uint64(rng.Intn(int(bn) + 2))
			w.exec(r, "begin")
			w.exec(r, fmt.Sprintf("reorg %d", b))
			w.exec(r, "commit")
			r.Count("branch:upd-reorg")
		default:
			w.exec(r, "begin")
			k := 1 + rng.Intn(3)
			for j := 0; j < k; j++ {
				pos := positions[rng.Intn(len(positions))]
				if rng.Chance(15) {
					w.exec(r, fmt.Sprintf("upsertF %d %d %d %d %s", faultStmt(rng), bn, j, pos, hx0(rndHash(rng))))
					r.Count("branch:upsertF")
					i++
					break // the failed statement leaves partial writes in the transaction: the caller must roll back
				}
				w.exec(r, fmt.Sprintf("upsert %d %d %d %s", bn, j, pos, hx0(rndHash(rng))))
				i++
			}
			if w.poisoned || rng.Chance(20) {
				w.exec(r, "rollback")
				r.Count("branch:upd-rollback")
			} else {
				w.exec(r, "commit")
			}
			bn++
		}
	}
	for _, v := range w.updRoots {
		for pos, leaf := range v.leaves {
			_ = leaf
			_ = pos
		}
		// deterministic order over positions
		for _, pos := range positions {
			if leaf, ok := v.leaves[uint32(pos)]; ok {
				w.exec(r, fmt.Sprintf("q verify %d %s %s", pos, hx(v.root[:]), hx0(leaf)))
				r.Case(fmt.Sprintf("upd:%s:%d", hx(v.root[:8]), pos))
			}
		}
		w.exec(r, fmt.Sprintf("q proof %d %s", 77, hx(v.root[:])))
	}
}

func treeGen(r *Run, rng *Rng) {
	w := &treeWorld{}
	defer w.close()
	nAO, nUpd, maxLeaves := 14, 6, 30
	if r.Tier == "thorough" {
		nAO, nUpd, maxLeaves = 60, 25, 120
	}
	// the node runs several syncers, each with trees of its own, at the same time
	w.exec(r, "new")
	w.exec(r, fmt.Sprintf("par %d %d", 4, maxLeaves*4))
	for i := 0; i < nAO; i++ {
		treeWorldAO(r, rng, w, maxLeaves, -1)
		if i < 2 {
			r.Sample(fmt.Sprintf("%v", w.lines[:min(len(w.lines), 12)]))
		}
	}
	// carry boundaries and high indices through fabricated pre-states: counts 2^k-1, 2^k, 2^k+1
	ks := []uint{1, 2, 3, 5, 8, 16, 24, 31, 32}
	if r.Tier == "thorough" {
		ks = nil
		for k := uint(1); k <= 32; k++ {
			ks = append(ks, k)
		}
	}
	for _, k := range ks {
		for _, d := range []int64{-1, 0, 1} {
			cnt := int64(1)<<k + d
			if cnt < 1 || cnt >= int64(1)<<32-1 {
				continue
			}
			treeWorldAO(r, rng, w, 6, cnt-1)
			r.Count("branch:fab")
		}
	}
	treeWorldAO(r, rng, w, 3, int64(1)<<32-4)
	for i := 0; i < nUpd; i++ {
		treeWorldUpd(r, rng, w, 8+rng.Intn(12))
	}
}

// statement index of an injected fault: the boundaries between the phases of AddLeaf / UpsertLeaf
// (last-root read, node reads, root insert, node inserts) half of the time, uniform otherwise
func faultStmt(rng *Rng) int {
	if rng.Bool() {
		return []int{0, 1, 2, 31, 32, 33, 34, 35, 64, 65, 66}[rng.Intn(11)]
	}
	return rng.Intn(70)
}
