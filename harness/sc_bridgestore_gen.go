package main

import (
	"fmt"
	"math/big"
	"strings"

	"github.com/ethereum/go-ethereum/common"
)

type bsGenState struct {
	rng       *Rng
	nextDC    uint64 // next deposit count on the current fork
	dcAtBlock map[uint64]uint64
	tip       uint64
	first     uint64
	legacy    []common.Address
	uniq      uint64
	bounds    []int // statement index of each generated event's own row insert
	staleIdx  bool  // a reorg removed deposits and no deposit has been stored since: the tree's in-memory index may be ahead
}

func bsAmount(rng *Rng) string {
	two := big.NewInt(2)
	switch rng.Intn(7) {
	case 0:
		return "0"
	case 1:
		return "1"
	case 2:
		return new(big.Int).Sub(new(big.Int).Exp(two, big.NewInt(255), nil), big.NewInt(1)).String()
	case 3:
		return new(big.Int).Exp(two, big.NewInt(255), nil).String()
	case 4:
		return new(big.Int).Sub(new(big.Int).Exp(two, big.NewInt(256), nil), big.NewInt(1)).String()
	default:
		return new(big.Int).SetBytes(rng.Bytes(1 + rng.Intn(32))).String()
	}
}

func bsMeta(rng *Rng) string {
	n := []int{0, 0, 1, 31, 32, 33, 100, 7}[rng.Intn(8)]
	return hx(rng.Bytes(n))
}

func bsNet(rng *Rng) uint32 {
	return []uint32{0, 1, 2, 1<<32 - 1, rng.U32()}[rng.Intn(5)]
}

func (g *bsGenState) events(bn uint64, n int, gapBridge bool) (string, int) {
	g.bounds = g.bounds[:0]
	rng := g.rng
	var toks []string
	stmts := 1
	pos := uint64(rng.Intn(3))
	tmDone := false
	for i := 0; i < n; i++ {
		g.uniq++
		ts, tx, fa := 1700000000+bn, hx(rng.Bytes(32)), hx(rng.Bytes(20))
		switch k := rng.Intn(10); {
		case k < 5:
			dc := g.nextDC
			if gapBridge && i == n-1 {
				if dc > 0 && rng.Chance(35) {
					dc = uint64(rng.Intn(int(dc))) // the chain announces a deposit count the node already holds
				} else {
					dc += 1 + uint64(rng.Intn(3))
				}
			} else {
				g.nextDC++
			}
			// origin token: mostly some ERC-20, sometimes the native token (zero address) or the chain's gas token; the
			// native-token flag is what the syncer derives from it
			oa := common.BytesToAddress(rng.Bytes(20))
			switch rng.Intn(10) {
			case 0, 1:
				oa = common.Address{}
			case 2:
				oa = bsGasToken
			}
			nat := oa == (common.Address{}) || oa == bsGasToken
			if rng.Chance(10) {
				nat = !nat // a record the log handlers would never produce: fed to the processor directly
			}
			toks = append(toks, fmt.Sprintf("b;%d;%d;%d;%d;%s;%d;%s;%s;%s;%d;%s;%s;%s;%s", pos, dc, rng.Intn(2), bsNet(rng), hx(oa[:]), bsNet(rng),
				hx(rng.Bytes(20)), bsAmount(rng), bsMeta(rng), ts, tx, fa, hx(rng.Bytes(rng.Intn(12))), b2s(nat)))
			stmts += 34
			g.bounds = append(g.bounds, stmts-1) // the event's own row is its last statement
		case k < 7:
			gi := new(big.Int).SetUint64(uint64(rng.U32()))
			if rng.Bool() {
				gi.Add(gi, new(big.Int).Lsh(big.NewInt(1), 64))
			}
			toks = append(toks, fmt.Sprintf("c;%d;%s;%d;%s;%s;%s;%d;%s;%s;%s;%s;%s;%d;%s;%s", pos, gi.String(), bsNet(rng), hx(rng.Bytes(20)), hx(rng.Bytes(20)),
				bsAmount(rng), bsNet(rng), bsMeta(rng), b2s(rng.Bool()), hx(rng.Bytes(32)), hx(rng.Bytes(32)), hx(rng.Bytes(32)), ts, tx, fa))
			stmts++
			g.bounds = append(g.bounds, stmts-1)
		case k < 8 && !tmDone:
			tmDone = true
			toks = append(toks, fmt.Sprintf("t;%d;%d;%s;%s;%s;%s;%d;%d;%s;%s", pos, bsNet(rng), hx(rng.Bytes(20)), hx(rng.Bytes(20)), bsMeta(rng), b2s(rng.Bool()),
				rng.Intn(2), ts, tx, hx(rng.Bytes(rng.Intn(9)))))
			stmts++
			g.bounds = append(g.bounds, stmts-1)
		case k < 9:
			la := common.BytesToAddress(rng.Bytes(20))
			if len(g.legacy) > 0 && rng.Chance(30) {
				la = g.legacy[rng.Intn(len(g.legacy))]
			}
			g.legacy = append(g.legacy, la)
			toks = append(toks, fmt.Sprintf("l;%d;%s;%s;%s;%s;%d;%s;%s", pos, hx(rng.Bytes(20)), hx(la[:]), hx(rng.Bytes(20)), bsAmount(rng), ts, tx, hx(rng.Bytes(rng.Intn(9)))))
			stmts++
			g.bounds = append(g.bounds, stmts-1)
		default:
			if len(g.legacy) == 0 {
				continue
			}
			la := g.legacy[rng.Intn(len(g.legacy))]
			toks = append(toks, fmt.Sprintf("r;%d;%s", pos, hx(la[:])))
			stmts += 2
		}
		pos += 1 + uint64(rng.Intn(3))
	}
	return strings.Join(toks, " "), stmts
}

func (w *bsWorld) probe(r *Run, g *bsGenState) {
	for _, q := range bsProbe(g.tip+1, g.nextDC) {
		obs := w.exec(r, q)
		// proofs for every served exit root x a few covered positions
		if strings.HasPrefix(q, "q exitroot") && strings.HasPrefix(obs, "root ") {
			f := strings.Fields(obs)
			idx := bigOf(f[2]).Uint64()
			for _, i := range []uint64{0, idx / 2, idx} {
				w.exec(r, fmt.Sprintf("q verify %d %s -", i, f[1]))
				r.Case("verify:" + f[1][:16] + fmt.Sprint(i))
			}
			if g.rng.Chance(30) {
				w.exec(r, "q rootbyler "+f[1])
			}
		}
	}
}

func bsWorldGen(r *Run, rng *Rng, w *bsWorld, steps int, allowRm bool) {
	w.exec(r, "new")
	g := &bsGenState{rng: rng, dcAtBlock: map[uint64]uint64{}}
	g.first = uint64(1 + rng.Intn(4))
	bn := g.first
	g.tip = bn - 1
	halted := false
	directedBack := false
	directedOdd := false
	for s := 0; s < steps; s++ {
		if !directedOdd && !halted && s >= steps/2 && !w.p.IsHalted() {
			// directed: a block of three deposits whose first index is ODD; one write statement in the middle of the SECOND
			// deposit's tree update fails (the first deposit's hashes are already in the frontier, the second has begun to
			// overwrite them), the transaction is rolled back and the driver retries the block in the same process
			directedOdd = true
			pos := 0
			mkDep := func() string {
				pos++
				tok := fmt.Sprintf("b;%d;%d;%d;%d;%s;%d;%s;%s;%s;%d;%s;%s;%s;%s", pos, g.nextDC, rng.Intn(2), bsNet(rng), hx(rng.Bytes(20)), bsNet(rng),
					hx(rng.Bytes(20)), bsAmount(rng), bsMeta(rng), 1700000000+bn, hx(rng.Bytes(32)), hx(rng.Bytes(20)), hx(rng.Bytes(rng.Intn(12))), "0")
				g.nextDC++
				return tok
			}
			ok := true
			if g.nextDC%2 == 0 {
				g.dcAtBlock[bn] = g.nextDC
				if w.exec(r, fmt.Sprintf("blk %d - %s", bn, mkDep())) != "ok" {
					ok = false
				}
				g.tip = bn
				bn++
			}
			if ok {
				g.dcAtBlock[bn] = g.nextDC
				evs := mkDep() + " " + mkDep() + " " + mkDep()
				// statements: 1 block row, then 34 per deposit (33 tree writes + its own row)
				for i, k := range []int{1 + 7, 1 + 34 + 7, 1 + 34 + 20} { // inside the first deposit's tree update, then twice inside the second's
					obs := w.exec(r, fmt.Sprintf("blk %d %d %s", bn, k, evs))
					if obs == "ok" {
						break
					}
					if i == 0 && obs == "err fault" && !g.staleIdx {
						// before the retry a block arrives whose first deposit count is one PAST the first deposit that just failed to
						// be stored (a gap): the syncer has to halt, whatever its in-memory frontier went through
						first := g.nextDC - 3
						gapTok := fmt.Sprintf("b;%d;%d;%d;%d;%s;%d;%s;%s;%s;%d;%s;%s;%s;%s", 0, first+1, rng.Intn(2), bsNet(rng), hx(rng.Bytes(20)), bsNet(rng),
							hx(rng.Bytes(20)), bsAmount(rng), bsMeta(rng), 1700000000+bn, hx(rng.Bytes(32)), hx(rng.Bytes(20)), hx(rng.Bytes(rng.Intn(12))), "0")
						if o := w.exec(r, fmt.Sprintf("blk %d - %s", bn+1, gapTok)); o != "err inconsistent" {
							r.Fail("[C14,C01] after a failed store of deposit "+fmt.Sprint(first)+" a block starting at deposit "+fmt.Sprint(first+1)+" (a gap) was answered with "+o+" instead of halting", append([]string{"new"}, w.lines...))
						}
						r.Count("branch:directed-gap-after-failed-store")
						w.checkHaltedQueries(r)
						w.exec(r, "restart") // a restart clears the in-memory flag; the tables are consistent
					}
				}
				if !w.lastBlockStored(bn) {
					if obs := w.exec(r, fmt.Sprintf("blk %d - %s", bn, evs)); obs != "ok" {
						r.Fail("[C07] retrying a well-formed block after a storage fault did not succeed: "+obs, append([]string{"new"}, w.lines...))
					}
				}
				w.compareWithTwin(r, "after a fault inside the second deposit of a block starting at an odd index, retried")
				g.tip = bn
				bn++
				w.probe(r, g)
				r.Count("branch:directed-odd-index-fault-in-second-deposit")
			}
			continue
		}
		if !directedBack && !halted && s >= steps/3 && g.nextDC >= 2 && !w.p.IsHalted() {
			// directed: the chain announces a deposit count the node already holds (it went BACKWARDS): as much an inconsistency
			// as a forward gap — the syncer has to halt
			directedBack = true
			tok := fmt.Sprintf("b;%d;%d;%d;%d;%s;%d;%s;%s;%s;%d;%s;%s;%s;%s", 0, g.nextDC-2, rng.Intn(2), bsNet(rng), hx(rng.Bytes(20)), bsNet(rng),
				hx(rng.Bytes(20)), bsAmount(rng), bsMeta(rng), 1700000000+bn, hx(rng.Bytes(32)), hx(rng.Bytes(20)), hx(rng.Bytes(rng.Intn(12))), "0")
			if o := w.exec(r, fmt.Sprintf("blk %d - %s", bn, tok)); o != "err inconsistent" {
				r.Fail("[C14] a block announcing a deposit count the node already holds was answered with "+o+" (expected the syncer to halt with an inconsistency error)", append([]string{"new"}, w.lines...))
			} else {
				halted = true
				w.checkHaltedQueries(r)
			}
			r.Count("branch:directed-backward-deposit-count")
			continue
		}
		c := rng.Intn(100)
		switch {
		case halted || c < 12:
			// reorg: anywhere in [first-1, tip+2]
			lo := g.first - 1
			b := lo + uint64(rng.Intn(int(g.tip-lo)+3))
			if g.tip > lo && rng.Chance(30) {
				b = g.tip // the most common reorg: exactly the last stored block
			}
			if rng.Chance(35) {
				// the reorg transaction fails at its block / root delete first; the driver retries
				wasHalted := w.p.IsHalted()
				obs := w.exec(r, fmt.Sprintf("reorgF %d %s", b, []string{"block", "root"}[rng.Intn(2)]))
				r.Count("branch:reorg-fault")
				if obs == "err fault" {
					if wasHalted && w.exec(r, "q halted") != "1" {
						r.Fail("[C14] a reorg that failed and removed nothing cleared the halted condition", append([]string{"new"}, w.lines...))
					}
				}
				if !wasHalted && !w.p.IsHalted() {
					w.compareWithTwin(r, "after a reorg attempt with a storage fault ("+obs+")")
				}
			}
			dcBefore := g.nextDC
			refill := rng.Chance(40) && dcBefore > 0 && !w.p.IsHalted()
			if refill {
				w.exec(r, fmt.Sprintf("q exitroot %d", dcBefore-1)) // the last lookup before the reorg …
			}
			haltedBefore := w.p.IsHalted()
			var lastStored uint64 // the last block row of the store (block numbers may skip)
			must(w.p.DB().QueryRow("SELECT COALESCE(MAX(num), 0) FROM block").Scan(&lastStored))
			var nRemoved int
			must(w.p.DB().QueryRow("SELECT COUNT(*) FROM block WHERE num >= $1", b).Scan(&nRemoved))
			w.exec(r, fmt.Sprintf("reorg %d", b))
			r.Count("branch:reorg")
			if haltedBefore && nRemoved > 0 && w.p.IsHalted() {
				// a node that only ever saw the blocks below b is not halted and serves data
				r.Fail(fmt.Sprintf("[C04,C14] a reorg from block %d removed processed blocks (the store ended at %d) and the bridge syncer is still halted: its queries keep failing where a node that never saw those blocks answers", b, lastStored), append([]string{"new"}, w.lines...))
			}
			if b <= g.tip {
				r.Count("branch:reorg-removes")
				// deposit count on the surviving chain = count before the first removed block
				best := uint64(1<<63 - 1)
				for k, dc := range g.dcAtBlock {
					if k >= b && k < best {
						best = k
						g.nextDC = dc
					}
				}
				for k := range g.dcAtBlock {
					if k >= b {
						delete(g.dcAtBlock, k)
					}
				}
				if b <= g.tip {
					g.tip = b - 1
				}
				bn = b
				if bn < g.first {
					bn = g.first
					g.tip = g.first - 1
				}
			}
			if g.nextDC < dcBefore {
				g.staleIdx = true
			}
			halted = w.exec(r, "q halted") == "1"
			if halted && rng.Chance(40) {
				w.exec(r, "restart") // nothing left to reorg away (e.g. the very first block had the gap): only a restart clears the flag
				halted = false
			}
			if !w.p.IsHalted() {
				halted = false
				if !(refill && g.nextDC < dcBefore) {
					w.compareWithTwin(r, "after reorg")
					w.probe(r, g)
				}
				if refill && g.nextDC < dcBefore {
					// the new fork grows, one deposit per block, until it holds as many deposits as the old one did: every
					// deposit count of the old fork now names a different tree
					for g.nextDC < dcBefore {
						g.dcAtBlock[bn] = g.nextDC
						g.uniq++
						tok := fmt.Sprintf("b;%d;%d;%d;%d;%s;%d;%s;%s;%s;%d;%s;%s;%s;%s", 0, g.nextDC, rng.Intn(2), bsNet(rng), hx(rng.Bytes(20)), bsNet(rng),
							hx(rng.Bytes(20)), bsAmount(rng), bsMeta(rng), 1700000000+bn, hx(rng.Bytes(32)), hx(rng.Bytes(20)), hx(rng.Bytes(rng.Intn(12))), b2s(rng.Bool()))
						g.nextDC++
						if obs := w.exec(r, fmt.Sprintf("blk %d - %s", bn, tok)); obs != "ok" {
							r.Fail("[C01,C04,C07,C14] a well-formed block was refused: "+obs, append([]string{"new"}, w.lines...))
							break
						}
						g.tip = bn
						bn++
					}
					r.Count("branch:refill-after-reorg")
					w.exec(r, fmt.Sprintf("q exitroot %d", dcBefore-1)) // … and the first one after the new fork caught up
					w.compareWithTwin(r, "after the new fork reached the old fork's deposit count")
				}
			} else {
				w.checkHaltedQueries(r)
			}
		case c < 20:
			w.exec(r, "restart")
			r.Count("branch:restart")
			halted = false // a restart clears the in-memory flag; the tables are consistent (the failed block was rolled back)
		case c < 28:
			// deposit-count gap: the syncer must halt, serve no data and refuse blocks until a reorg removes something
			g.dcAtBlock[bn] = g.nextDC
			save := g.nextDC
			evs, _ := g.events(bn, 1+rng.Intn(3), true)
			after := g.nextDC
			g.nextDC = save
			obs := w.exec(r, fmt.Sprintf("blk %d - %s", bn, evs))
			if obs == "ok" && after == save+uint64(strings.Count(" "+evs, " b;")) {
				// the last event was not a deposit: no gap, an ordinary block
				g.nextDC = after
				g.tip = bn
				bn += 1 + uint64(rng.Intn(2))
			} else if obs == "ok" {
				// a gap was accepted: only possible through the stale in-memory index right after a shrinking reorg
				// (C01_gap_rejected_partial's excluded point; model and implementation agree). No listed property covers
				// such input; the world's reference is meaningless from here on.
				r.Count("branch:stale-index-accepted")
				return
			} else if obs == "err inconsistent" {
				r.Count("branch:halt")
				halted = true
				w.checkHaltedQueries(r)
				for _, q := range []string{"q lpb", "q bridges 0 5", "q exitroot 0", "q tms 1 10"} {
					w.exec(r, q)
				}
				w.exec(r, fmt.Sprintf("blk %d - ", bn+1))                       // refused while halted
				w.exec(r, fmt.Sprintf("reorg %d", g.tip+1+uint64(rng.Intn(2)))) // removes nothing: stays halted
				w.exec(r, "q halted")
				w.checkHaltedQueries(r)
			} else {
				r.Fail("[C14] a block with a deposit-count gap was answered with "+obs+" (expected the syncer to halt with an inconsistency error)", append([]string{"new"}, w.lines...))
			}
		default:
			g.dcAtBlock[bn] = g.nextDC
			save := *g
			saveLegacy := append([]common.Address{}, g.legacy...)
			n := rng.Intn(6)
			if rng.Chance(10) {
				n = 0
			}
			evs, stmts := g.events(bn, n, false)
			if !allowRm && strings.Contains(evs, "r;") {
				*g = save
				g.legacy = saveLegacy
				continue
			}
			if rng.Chance(35) {
				// a storage fault at one write statement of this block's transaction (sometimes two in a row), then a clean retry
				nf := 1 + rng.Intn(2)
				sawCommitFault := false
				for i := 0; i < nf; i++ {
					k := rng.Intn(stmts + 1)
					if len(g.bounds) > 0 && rng.Chance(35) {
						k = g.bounds[rng.Intn(len(g.bounds))] // the row insert of one of the events (after its tree writes)
					}
					if rng.Chance(15) {
						k = 9000 // the COMMIT itself fails
						sawCommitFault = true
					}
					obs := w.exec(r, fmt.Sprintf("blk %d %d %s", bn, k, evs))
					r.Count("branch:fault")
					if obs == "ok" {
						break
					}
					if obs == "err fault" && !sawCommitFault && !g.staleIdx && rng.Chance(12) && strings.HasPrefix(evs, "b;") {
						// (not after a failed COMMIT: database/sql marks the transaction done, so the wrapper's Rollback — and with it
						// the tree's rollback callbacks — does not run; the in-memory index stays ahead until the retry of the SAME
						// block, which is what a driver does, finds the mismatch and rebuilds. A different block in between is the
						// stale-index observation of C01_gap_rejected_partial, not a listed property.)
						// instead of the retry another block arrives whose first deposit count is one PAST the deposit that just
						// failed to be stored (a gap): the syncer has to halt, whatever its in-memory frontier went through
						first := bigOf(strings.Split(strings.Fields(evs)[0], ";")[2]).Uint64()
						gapTok := fmt.Sprintf("b;%d;%d;%d;%d;%s;%d;%s;%s;%s;%d;%s;%s;%s;%s", 0, first+1, rng.Intn(2), bsNet(rng), hx(rng.Bytes(20)), bsNet(rng),
							hx(rng.Bytes(20)), bsAmount(rng), bsMeta(rng), 1700000000+bn, hx(rng.Bytes(32)), hx(rng.Bytes(20)), hx(rng.Bytes(rng.Intn(12))), "0")
						if o := w.exec(r, fmt.Sprintf("blk %d - %s", bn+1, gapTok)); o != "err inconsistent" {
							r.Fail("[C14,C01] after a failed store of deposit "+fmt.Sprint(first)+" a block starting at deposit "+fmt.Sprint(first+1)+" (a gap) was answered with "+o+" instead of halting", append([]string{"new"}, w.lines...))
						}
						r.Count("branch:gap-after-failed-store")
						w.checkHaltedQueries(r)
						w.exec(r, "restart") // a restart clears the in-memory flag; the tables are consistent
					}
					if rng.Chance(20) {
						w.exec(r, "restart")
					}
				}
				if w.lastBlockStored(bn) {
					// the fault index was past the last statement: the block went through
				} else if obs := w.exec(r, fmt.Sprintf("blk %d - %s", bn, evs)); obs != "ok" {
					r.Fail("[C07] retrying a well-formed block after a storage fault did not succeed: "+obs, append([]string{"new"}, w.lines...))
				}
				w.compareWithTwin(r, "after fault and retry")
			} else if obs := w.exec(r, fmt.Sprintf("blk %d - %s", bn, evs)); obs != "ok" {
				r.Fail("[C01,C04,C07,C14] a well-formed block was refused: "+obs, append([]string{"new"}, w.lines...))
			}
			if strings.Contains(" "+evs, " b;") && w.lastBlockStored(bn) {
				g.staleIdx = false // a deposit went through AddLeaf: the frontier was rebuilt if it had to be
			}
			g.tip = bn
			bn += 1 + uint64(rng.Intn(2))
			if rng.Chance(40) {
				w.probe(r, g)
			}
		}
	}
	if !w.p.IsHalted() {
		w.probe(r, g)
		w.compareWithTwin(r, "end of history")
	}
}

func (w *bsWorld) lastBlockStored(bn uint64) bool {
	return len(w.survNums) > 0 && w.survNums[len(w.survNums)-1] == bn
}

func bsGen(r *Run, rng *Rng) {
	w := &bsWorld{}
	defer w.close()
	nw, steps := 10, 14
	if r.Tier == "thorough" {
		nw, steps = 60, 25
	}
	for i := 0; i < nw; i++ {
		// legacy-token removals only in a minority of worlds (their interaction with reorgs is a recorded finding)
		bsWorldGen(r, rng, w, steps, i%4 == 3)
		if i < 2 {
			r.Sample(strings.Join(w.lines[:min(len(w.lines), 4)], " ; ")[:min(600, len(strings.Join(w.lines[:min(len(w.lines), 4)], " ; ")))])
		}
	}
}
