package main

// Scenario `certcodec` (C03 exit leaf / metadata, C10 commitments and wire form, C13 metadata recovery, C19 global index in
// the commitments): the real conversion functions of the flow, the real hash functions of agglayer/types and bridgesync,
// the real gRPC conversion, the real metadata codec — on generated bridges, claims and certificates; the Lean model
// recomputes every value byte for byte with its own Keccak. Monitors perturb every covered field of a certificate and
// require the real commitments to change.

import (
	"bytes"
	"fmt"
	"math/big"
	"strings"

	agglayergrpc "github.com/agglayer/aggkit/agglayer/grpc"
	agglayertypes "github.com/agglayer/aggkit/agglayer/types"
	"github.com/agglayer/aggkit/aggsender/flows"
	aggsendertypes "github.com/agglayer/aggkit/aggsender/types"
	"github.com/agglayer/aggkit/bridgesync"
	"github.com/ethereum/go-ethereum/common"
	"github.com/ethereum/go-ethereum/crypto"
)

func init() { scenarios["certcodec"] = Scenario{Gen: ccGen, Replay: ccReplay} }

func ccAmount(g *Rng) *big.Int {
	switch g.Intn(5) {
	case 0:
		return big.NewInt(0)
	case 1:
		return new(big.Int).Sub(new(big.Int).Lsh(big.NewInt(1), 256), big.NewInt(1))
	case 2:
		return big.NewInt(int64(g.Intn(1000)))
	default:
		return new(big.Int).SetBytes(g.Bytes(1 + g.Intn(32)))
	}
}

func ccMeta(g *Rng) []byte {
	switch g.Intn(5) {
	case 0:
		return nil
	case 1:
		return g.Bytes(32)
	case 2:
		return g.Bytes(1 + g.Intn(4))
	default:
		return g.Bytes(1 + g.Intn(100))
	}
}

func ccNet(g *Rng) uint32 {
	switch g.Intn(4) {
	case 0:
		return 0
	case 1:
		return 0xffffffff
	default:
		return uint32(g.Intn(1000))
	}
}

func ccAddr(g *Rng) common.Address {
	if g.Chance(20) {
		return common.Address{}
	}
	return common.BytesToAddress(g.Bytes(20))
}

// op token of a bridge event / exit: lt on oa dn da amount meta
func ccFields(lt uint8, on uint32, oa common.Address, dn uint32, da common.Address, am *big.Int, md []byte, sep string) string {
	return strings.Join([]string{fmt.Sprint(lt), fmt.Sprint(on), hx(oa[:]), fmt.Sprint(dn), hx(da[:]), am.String(), hx(md)}, sep)
}

func ccExitFields(e *agglayertypes.BridgeExit, sep string) string {
	return ccFields(e.LeafType.Uint8(), e.TokenInfo.OriginNetwork, e.TokenInfo.OriginTokenAddress, e.DestinationNetwork,
		e.DestinationAddress, e.Amount, e.Metadata, sep)
}

func ccRandBridge(g *Rng) bridgesync.Bridge {
	return bridgesync.Bridge{LeafType: uint8(g.Intn(2)), OriginNetwork: ccNet(g), OriginAddress: ccAddr(g),
		DestinationNetwork: ccNet(g), DestinationAddress: ccAddr(g), Amount: ccAmount(g), Metadata: ccMeta(g)}
}

func ccRandClaim(g *Rng) bridgesync.Claim {
	c := bridgesync.Claim{OriginNetwork: ccNet(g), OriginAddress: ccAddr(g), DestinationNetwork: ccNet(g),
		DestinationAddress: ccAddr(g), Amount: ccAmount(g), Metadata: ccMeta(g), IsMessage: g.Bool(),
		MainnetExitRoot: common.BytesToHash(g.Bytes(32)), RollupExitRoot: common.BytesToHash(g.Bytes(32)),
		GlobalExitRoot: common.BytesToHash(g.Bytes(32))}
	mainnet := g.Bool()
	rollup := uint32(0)
	if !mainnet {
		rollup = []uint32{0, 1, 7, 0xffffffff}[g.Intn(4)]
	}
	leaf := []uint32{0, 1, 2, 0xffffffff, g.U32()}[g.Intn(5)]
	c.GlobalIndex = bridgesync.GenerateGlobalIndex(mainnet, rollup, leaf)
	if mainnet && g.Chance(25) {
		// a non-canonical on-chain index: mainnet flag AND rollup bits set. The decoder keeps the rollup bits, every consumer
		// (wire conversion, both commitments) has to drop them the same way
		c.GlobalIndex.Or(c.GlobalIndex, new(big.Int).Lsh(big.NewInt(int64(1+g.Intn(9))), 32))
	}
	for i := 0; i < 32; i++ {
		c.ProofLocalExitRoot[i] = common.BytesToHash(g.Bytes(32))
		c.ProofRollupExitRoot[i] = common.BytesToHash(g.Bytes(32))
	}
	return c
}

func ccClaimData(g *Rng, ibe *agglayertypes.ImportedBridgeExit, c bridgesync.Claim) {
	leaf := &agglayertypes.L1InfoTreeLeaf{L1InfoTreeIndex: g.U32(), RollupExitRoot: c.RollupExitRoot, MainnetExitRoot: c.MainnetExitRoot,
		Inner: &agglayertypes.L1InfoTreeLeafInner{GlobalExitRoot: c.GlobalExitRoot, Timestamp: g.U64(), BlockHash: common.BytesToHash(g.Bytes(32))}}
	ger := &agglayertypes.MerkleProof{Root: common.BytesToHash(g.Bytes(32)), Proof: c.ProofRollupExitRoot}
	if ibe.GlobalIndex.MainnetFlag {
		ibe.ClaimData = &agglayertypes.ClaimFromMainnnet{L1Leaf: leaf,
			ProofLeafMER:     &agglayertypes.MerkleProof{Root: c.MainnetExitRoot, Proof: c.ProofLocalExitRoot},
			ProofGERToL1Root: ger}
	} else {
		ibe.ClaimData = &agglayertypes.ClaimFromRollup{L1Leaf: leaf,
			ProofLeafLER:     &agglayertypes.MerkleProof{Root: common.BytesToHash(g.Bytes(32)), Proof: c.ProofLocalExitRoot},
			ProofLERToRER:    &agglayertypes.MerkleProof{Root: c.RollupExitRoot, Proof: c.ProofRollupExitRoot},
			ProofGERToL1Root: ger}
	}
}

type ccState struct {
	r     *Run
	lines []string
}

func (s *ccState) fail(d string, line string) { s.r.Fail(d, []string{line}) }

// ---- ops ----

// bridge <lt> <on> <oa> <dn> <da> <amount> <meta>
func ccExecBridge(s *ccState, line string) string {
	ws := strings.Fields(line)
	b := bridgesync.Bridge{LeafType: uint8(bigOf(ws[1]).Uint64()), OriginNetwork: uint32(bigOf(ws[2]).Uint64()),
		OriginAddress: common.BytesToAddress(unhx(ws[3])), DestinationNetwork: uint32(bigOf(ws[4]).Uint64()),
		DestinationAddress: common.BytesToAddress(unhx(ws[5])), Amount: bigOf(ws[6]), Metadata: unhx(ws[7])}
	leaf := b.Hash()
	ex := flows.VerifGetBridgeExits(lg(), []bridgesync.Bridge{b})[0]
	eh := ex.Hash()
	w := agglayergrpc.VerifConvertToProtoBridgeExit(ex)
	wh := wireExitHash(w)
	s.r.Evals++
	if leaf != eh {
		s.fail("[C03] the exit built for a bridge event hashes to another leaf than the event in the L2 exit tree", line)
	}
	if wh != eh {
		s.fail("[C10] the exit leaf recomputed from the wire message differs from the one the node hashed", line)
	}
	if d := refExitOf(b.LeafType, b.OriginNetwork, b.OriginAddress, b.DestinationNetwork, b.DestinationAddress, b.Amount, b.Metadata).diff(w); d != "" {
		s.fail("[C03,C10] wire exit differs from the bridge event: "+d, line)
	}
	s.r.Case(fmt.Sprintf("bridge:%d:%v:%v", len(b.Metadata)%3, b.Amount.Sign() == 0, b.OriginAddress == common.Address{}))
	return fmt.Sprintf("leaf=%s exit=%s meta=%s wire=%s", hx(leaf[:]), hx(eh[:]), hx(ex.Metadata), hx(wh[:]))
}

func ccParseExit(f []string) *agglayertypes.BridgeExit {
	return &agglayertypes.BridgeExit{LeafType: agglayertypes.LeafType(bigOf(f[0]).Uint64()),
		TokenInfo:          &agglayertypes.TokenInfo{OriginNetwork: uint32(bigOf(f[1]).Uint64()), OriginTokenAddress: common.BytesToAddress(unhx(f[2]))},
		DestinationNetwork: uint32(bigOf(f[3]).Uint64()), DestinationAddress: common.BytesToAddress(unhx(f[4])),
		Amount: bigOf(f[5]), Metadata: unhx(f[6])}
}

type ccHashOnly struct{ h common.Hash }

func (c ccHashOnly) Type() string                 { return "verif" }
func (c ccHashOnly) Hash() common.Hash            { return c.h }
func (c ccHashOnly) MarshalJSON() ([]byte, error) { return []byte("null"), nil }
func (c ccHashOnly) String() string               { return "verif" }

// cert <net> <height> <prev> <new> <params|sig> E:… I:…
func ccParseCert(ws []string) *agglayertypes.Certificate {
	c := &agglayertypes.Certificate{NetworkID: uint32(bigOf(ws[1]).Uint64()), Height: bigOf(ws[2]).Uint64(),
		PrevLocalExitRoot: common.BytesToHash(unhx(ws[3])), NewLocalExitRoot: common.BytesToHash(unhx(ws[4]))}
	if ws[5] == "sig" {
		c.AggchainData = &agglayertypes.AggchainDataSignature{Signature: make([]byte, 65)}
	} else {
		c.AggchainData = &agglayertypes.AggchainDataProof{AggchainParams: common.BytesToHash(unhx(ws[5])), Signature: make([]byte, 65)}
	}
	for _, t := range ws[6:] {
		f := strings.Split(t, ":")
		if f[0] == "E" {
			c.BridgeExits = append(c.BridgeExits, ccParseExit(f[1:8]))
		} else {
			ib := &agglayertypes.ImportedBridgeExit{BridgeExit: ccParseExit(f[1:8]),
				GlobalIndex: &agglayertypes.GlobalIndex{MainnetFlag: f[8] == "1", RollupIndex: uint32(bigOf(f[9]).Uint64()), LeafIndex: uint32(bigOf(f[10]).Uint64())},
				ClaimData:   ccHashOnly{common.BytesToHash(unhx(f[11]))}}
			c.ImportedBridgeExits = append(c.ImportedBridgeExits, ib)
		}
	}
	return c
}

// reference: the commitments spelled out over the certificate's fields (own code, no aggkit hashing helpers)
func ccRefCommitments(c *agglayertypes.Certificate) [3]common.Hash {
	le32 := func(g *agglayertypes.GlobalIndex) []byte {
		v := new(big.Int)
		if g.MainnetFlag {
			v.Lsh(big.NewInt(1), 64)
		} else {
			v.Lsh(new(big.Int).SetUint64(uint64(g.RollupIndex)), 32)
		}
		v.Add(v, new(big.Int).SetUint64(uint64(g.LeafIndex)))
		be := make([]byte, 32)
		v.FillBytes(be)
		le := make([]byte, 32)
		for i := range be {
			le[i] = be[31-i]
		}
		return le
	}
	exitLeaf := func(e *agglayertypes.BridgeExit) []byte {
		buf := []byte{e.LeafType.Uint8()}
		buf = append(buf, be4(e.TokenInfo.OriginNetwork)...)
		buf = append(buf, e.TokenInfo.OriginTokenAddress[:]...)
		buf = append(buf, be4(e.DestinationNetwork)...)
		buf = append(buf, e.DestinationAddress[:]...)
		am := make([]byte, 32)
		e.Amount.FillBytes(am)
		buf = append(buf, am...)
		if len(e.Metadata) == 0 {
			buf = append(buf, crypto.Keccak256(nil)...)
		} else {
			buf = append(buf, e.Metadata...)
		}
		return crypto.Keccak256(buf)
	}
	var exits, imps, gis, chunks []byte
	for _, e := range c.BridgeExits {
		exits = append(exits, exitLeaf(e)...)
	}
	for _, i := range c.ImportedBridgeExits {
		gh := crypto.Keccak256(le32(i.GlobalIndex))
		ch := i.ClaimData.Hash()
		imps = append(imps, crypto.Keccak256(exitLeaf(i.BridgeExit), ch[:], gh)...)
		gis = append(gis, gh...)
		chunks = append(chunks, le32(i.GlobalIndex)...)
		chunks = append(chunks, exitLeaf(i.BridgeExit)...)
	}
	h8 := make([]byte, 8)
	for i := 0; i < 8; i++ {
		h8[7-i] = byte(c.Height >> (8 * i))
	}
	l8 := make([]byte, 8)
	for i := 0; i < 8; i++ {
		l8[i] = byte(c.Height >> (8 * i))
	}
	params := crypto.Keccak256(nil)
	if p, ok := c.AggchainData.(*agglayertypes.AggchainDataProof); ok {
		params = p.AggchainParams[:]
	}
	return [3]common.Hash{
		crypto.Keccak256Hash(be4(c.NetworkID), h8, c.PrevLocalExitRoot[:], c.NewLocalExitRoot[:], crypto.Keccak256(exits), crypto.Keccak256(imps)),
		crypto.Keccak256Hash(c.NewLocalExitRoot[:], crypto.Keccak256(gis)),
		crypto.Keccak256Hash(c.NewLocalExitRoot[:], crypto.Keccak256(chunks), l8, params),
	}
}

func ccCommitments(c *agglayertypes.Certificate) [3]common.Hash {
	return [3]common.Hash{c.Hash(), c.PPHashToSign(), c.FEPHashToSign()}
}

func ccExecCert(s *ccState, line string) string {
	ws := strings.Fields(line)
	c := ccParseCert(ws)
	h := ccCommitments(c)
	s.r.Evals++
	// independent reference of the three commitments
	if ref := ccRefCommitments(c); ref != h {
		names := [3]string{"certificate id", "PP commitment", "FEP commitment"}
		for k := 0; k < 3; k++ {
			if ref[k] != h[k] {
				tag := "[C10]"
				if k > 0 {
					tag = "[C10,C19]" // these embed the little-endian global index of every imported exit
				}
				s.fail(fmt.Sprintf("%s the %s differs from the reference computed from the certificate's fields", tag, names[k]), line)
			}
		}
	}
	// the commitments are functions of the content: computing them twice gives the same values
	if h2 := ccCommitments(ccParseCert(ws)); h2 != h {
		s.fail("[C10] commitments are not a function of the certificate content", line)
	}
	// single-field perturbations (covers: 0 = certificate id, 1 = PP commitment, 2 = FEP commitment)
	type pert struct {
		name   string
		apply  func(c *agglayertypes.Certificate) bool
		covers [3]bool
	}
	flipH := func(h *common.Hash) { h[31] ^= 1 }
	var perts []pert
	perts = append(perts,
		pert{"network id", func(c *agglayertypes.Certificate) bool { c.NetworkID ^= 1; return true }, [3]bool{true, false, false}},
		pert{"height", func(c *agglayertypes.Certificate) bool { c.Height ^= 1; return true }, [3]bool{true, false, true}},
		pert{"height high byte", func(c *agglayertypes.Certificate) bool { c.Height ^= 1 << 56; return true }, [3]bool{true, false, true}},
		pert{"previous exit root", func(c *agglayertypes.Certificate) bool { flipH(&c.PrevLocalExitRoot); return true }, [3]bool{true, false, false}},
		pert{"new exit root", func(c *agglayertypes.Certificate) bool { flipH(&c.NewLocalExitRoot); return true }, [3]bool{true, true, true}},
		pert{"aggchain params", func(c *agglayertypes.Certificate) bool {
			if p, ok := c.AggchainData.(*agglayertypes.AggchainDataProof); ok {
				flipH(&p.AggchainParams)
				return true
			}
			return false
		}, [3]bool{false, false, true}},
	)
	exitPerts := func(get func(c *agglayertypes.Certificate) *agglayertypes.BridgeExit, what string, cov [3]bool) {
		perts = append(perts,
			pert{what + " leaf type", func(c *agglayertypes.Certificate) bool {
				e := get(c)
				if e == nil {
					return false
				}
				e.LeafType ^= 1
				return true
			}, cov},
			pert{what + " origin network", func(c *agglayertypes.Certificate) bool {
				e := get(c)
				if e == nil {
					return false
				}
				e.TokenInfo.OriginNetwork ^= 1 << 31
				return true
			}, cov},
			pert{what + " origin address", func(c *agglayertypes.Certificate) bool {
				e := get(c)
				if e == nil {
					return false
				}
				e.TokenInfo.OriginTokenAddress[0] ^= 1
				return true
			}, cov},
			pert{what + " destination network", func(c *agglayertypes.Certificate) bool {
				e := get(c)
				if e == nil {
					return false
				}
				e.DestinationNetwork ^= 1
				return true
			}, cov},
			pert{what + " destination address", func(c *agglayertypes.Certificate) bool {
				e := get(c)
				if e == nil {
					return false
				}
				e.DestinationAddress[19] ^= 1
				return true
			}, cov},
			pert{what + " amount", func(c *agglayertypes.Certificate) bool {
				e := get(c)
				if e == nil {
					return false
				}
				e.Amount = new(big.Int).Xor(e.Amount, big.NewInt(1))
				return true
			}, cov},
			pert{what + " amount high bit", func(c *agglayertypes.Certificate) bool {
				e := get(c)
				if e == nil {
					return false
				}
				e.Amount = new(big.Int).Xor(e.Amount, new(big.Int).Lsh(big.NewInt(1), 255))
				return true
			}, cov},
			pert{what + " metadata", func(c *agglayertypes.Certificate) bool {
				e := get(c)
				if e == nil {
					return false
				}
				if len(e.Metadata) == 0 {
					e.Metadata = bytes.Repeat([]byte{7}, 32)
				} else {
					e.Metadata = append([]byte{}, e.Metadata...)
					e.Metadata[len(e.Metadata)-1] ^= 1
				}
				return true
			}, cov},
		)
	}
	for _, idx := range []int{0, -1} {
		idx := idx
		exitPerts(func(c *agglayertypes.Certificate) *agglayertypes.BridgeExit {
			if len(c.BridgeExits) == 0 {
				return nil
			}
			if idx < 0 {
				return c.BridgeExits[len(c.BridgeExits)-1]
			}
			return c.BridgeExits[0]
		}, fmt.Sprintf("bridge exit[%d]", idx), [3]bool{true, false, false})
		exitPerts(func(c *agglayertypes.Certificate) *agglayertypes.BridgeExit {
			if len(c.ImportedBridgeExits) == 0 {
				return nil
			}
			if idx < 0 {
				return c.ImportedBridgeExits[len(c.ImportedBridgeExits)-1].BridgeExit
			}
			return c.ImportedBridgeExits[0].BridgeExit
		}, fmt.Sprintf("imported exit[%d]", idx), [3]bool{true, false, true})
		imp := func(c *agglayertypes.Certificate) *agglayertypes.ImportedBridgeExit {
			if len(c.ImportedBridgeExits) == 0 {
				return nil
			}
			if idx < 0 {
				return c.ImportedBridgeExits[len(c.ImportedBridgeExits)-1]
			}
			return c.ImportedBridgeExits[0]
		}
		perts = append(perts,
			pert{fmt.Sprintf("imported exit[%d] leaf index", idx), func(c *agglayertypes.Certificate) bool {
				i := imp(c)
				if i == nil {
					return false
				}
				i.GlobalIndex.LeafIndex ^= 1
				return true
			}, [3]bool{true, true, true}},
			pert{fmt.Sprintf("imported exit[%d] leaf index high bit", idx), func(c *agglayertypes.Certificate) bool {
				i := imp(c)
				if i == nil {
					return false
				}
				i.GlobalIndex.LeafIndex ^= 1 << 31
				return true
			}, [3]bool{true, true, true}},
			pert{fmt.Sprintf("imported exit[%d] rollup index", idx), func(c *agglayertypes.Certificate) bool {
				i := imp(c)
				if i == nil || i.GlobalIndex.MainnetFlag {
					return false // not encoded when the mainnet flag is set (C19)
				}
				i.GlobalIndex.RollupIndex ^= 1
				return true
			}, [3]bool{true, true, true}},
			pert{fmt.Sprintf("imported exit[%d] mainnet flag", idx), func(c *agglayertypes.Certificate) bool {
				i := imp(c)
				if i == nil {
					return false
				}
				i.GlobalIndex.MainnetFlag = !i.GlobalIndex.MainnetFlag
				return true
			}, [3]bool{true, true, true}},
			pert{fmt.Sprintf("imported exit[%d] claim data", idx), func(c *agglayertypes.Certificate) bool {
				i := imp(c)
				if i == nil {
					return false
				}
				h := i.ClaimData.Hash()
				flipH(&h)
				i.ClaimData = ccHashOnly{h}
				return true
			}, [3]bool{true, false, false}},
		)
	}
	perts = append(perts,
		pert{"order of the first two imported exits", func(c *agglayertypes.Certificate) bool {
			if len(c.ImportedBridgeExits) < 2 || c.ImportedBridgeExits[0].Hash() == c.ImportedBridgeExits[1].Hash() {
				return false
			}
			a, b := c.ImportedBridgeExits[0], c.ImportedBridgeExits[1]
			if a.GlobalIndex.Hash() == b.GlobalIndex.Hash() {
				return false
			}
			c.ImportedBridgeExits[0], c.ImportedBridgeExits[1] = b, a
			return true
		}, [3]bool{true, true, true}},
		pert{"order of the first two bridge exits", func(c *agglayertypes.Certificate) bool {
			if len(c.BridgeExits) < 2 || c.BridgeExits[0].Hash() == c.BridgeExits[1].Hash() {
				return false
			}
			c.BridgeExits[0], c.BridgeExits[1] = c.BridgeExits[1], c.BridgeExits[0]
			return true
		}, [3]bool{true, false, false}},
		pert{"dropping the last imported exit", func(c *agglayertypes.Certificate) bool {
			if len(c.ImportedBridgeExits) == 0 {
				return false
			}
			c.ImportedBridgeExits = c.ImportedBridgeExits[:len(c.ImportedBridgeExits)-1]
			return true
		}, [3]bool{true, true, true}},
		pert{"dropping the last bridge exit", func(c *agglayertypes.Certificate) bool {
			if len(c.BridgeExits) == 0 {
				return false
			}
			c.BridgeExits = c.BridgeExits[:len(c.BridgeExits)-1]
			return true
		}, [3]bool{true, false, false}},
	)
	names := [3]string{"certificate id", "PP commitment", "FEP commitment"}
	for _, p := range perts {
		pc := ccParseCert(ws)
		if !p.apply(pc) {
			continue
		}
		s.r.Evals++
		h2 := ccCommitments(pc)
		for k := 0; k < 3; k++ {
			if p.covers[k] && h2[k] == h[k] {
				s.fail(fmt.Sprintf("[C10] changing the %s does not change the %s", p.name, names[k]), line)
			}
		}
	}
	s.r.Case(fmt.Sprintf("cert:%d:%d:%v", min(len(c.BridgeExits), 3), min(len(c.ImportedBridgeExits), 3), ws[5] == "sig"))
	return fmt.Sprintf("id=%s pp=%s fep=%s", hx(h[0][:]), hx(h[1][:]), hx(h[2][:]))
}

func ccExecMeta(s *ccState, line string) string {
	ws := strings.Fields(line)
	f, t, cr, ty := bigOf(ws[1]).Uint64(), bigOf(ws[2]).Uint64(), uint32(bigOf(ws[3]).Uint64()), uint8(bigOf(ws[4]).Uint64())
	m := aggsendertypes.NewCertificateMetadata(f, uint32(t-f), cr, ty)
	h := m.ToHash()
	s.r.Evals++
	back, err := aggsendertypes.NewCertificateMetadataFromHash(h)
	if err != nil || back.FromBlock != f || back.FromBlock+uint64(back.Offset) != t || back.CreatedAt != cr || back.CertType != ty {
		s.fail(fmt.Sprintf("[C03,C13] metadata of range %d..%d does not decode to that range", f, t), line)
	}
	return "meta=" + hx(h[:])
}

func ccExecUnmeta(s *ccState, line string) string {
	ws := strings.Fields(line)
	m, err := aggsendertypes.NewCertificateMetadataFromHash(common.BytesToHash(unhx(ws[1])))
	if err != nil {
		return "err"
	}
	to := m.FromBlock + uint64(m.Offset)
	if m.Version == 0 {
		to = m.ToBlock
	}
	return fmt.Sprintf("v=%d from=%d to=%d created=%d type=%d", m.Version, m.FromBlock, to, m.CreatedAt, m.CertType)
}

func ccExec(s *ccState, line string) string {
	switch strings.Fields(line)[0] {
	case "bridge":
		return ccExecBridge(s, line)
	case "cert":
		return ccExecCert(s, line)
	case "meta":
		return ccExecMeta(s, line)
	case "unmeta":
		return ccExecUnmeta(s, line)
	}
	panic("bad op " + line)
}

func ccReplay(r *Run, lines []string) {
	s := &ccState{r: r}
	for _, l := range lines {
		r.Emit(l, ccExec(s, l))
	}
}

func ccGen(r *Run, rng *Rng) {
	s := &ccState{r: r}
	do := func(l string) {
		r.Emit(l, ccExec(s, l))
		r.Count("op:" + strings.Fields(l)[0])
	}
	n := 150
	if r.Tier == "thorough" {
		n = 1200
	}
	base := flows.NewBaseFlow(lg(), nil, nil, nil, nil, flows.NewBaseFlowConfigDefault())
	for i := 0; i < n; i++ {
		// bridges through the real conversion
		b := ccRandBridge(rng)
		do("bridge " + ccFields(b.LeafType, b.OriginNetwork, b.OriginAddress, b.DestinationNetwork, b.DestinationAddress, b.Amount, b.Metadata, " "))
		// a certificate: exits and imported exits produced by the real conversions
		nb, nc := rng.Intn(4), rng.Intn(4)
		var toks []string
		var bs []bridgesync.Bridge
		for j := 0; j < nb; j++ {
			bs = append(bs, ccRandBridge(rng))
		}
		for _, e := range flows.VerifGetBridgeExits(lg(), bs) {
			toks = append(toks, "E:"+ccExitFields(e, ":"))
		}
		for j := 0; j < nc; j++ {
			cl := ccRandClaim(rng)
			ibe, err := base.ConvertClaimToImportedBridgeExit(cl)
			must(err)
			ccClaimData(rng, ibe, cl)
			ch := ibe.ClaimData.Hash()
			toks = append(toks, fmt.Sprintf("I:%s:%s:%d:%d:%s", ccExitFields(ibe.BridgeExit, ":"), b2s(ibe.GlobalIndex.MainnetFlag),
				ibe.GlobalIndex.RollupIndex, ibe.GlobalIndex.LeafIndex, hx(ch[:])))
		}
		params := "sig"
		if rng.Bool() {
			params = hx(rng.Bytes(32))
		}
		height := []uint64{0, 1, 255, 256, 1 << 32, ^uint64(0), rng.U64()}[rng.Intn(7)]
		do(strings.TrimSpace(fmt.Sprintf("cert %d %d %s %s %s %s", ccNet(rng), height, hx(rng.Bytes(32)), hx(rng.Bytes(32)), params, strings.Join(toks, " "))))
		// metadata
		from := []uint64{0, 1, 1000, 1 << 32, rng.U64() >> 1}[rng.Intn(5)]
		width := []uint64{0, 1, 100, 1<<32 - 1, uint64(rng.U32())}[rng.Intn(5)]
		do(fmt.Sprintf("meta %d %d %d %d", from, from+width, rng.U32(), rng.Intn(4)))
		// decoding arbitrary words (all versions, unsupported ones)
		w := rng.Bytes(32)
		w[0] = byte(rng.Intn(4))
		if w[0] == 0 && rng.Bool() {
			w = common.BigToHash(new(big.Int).SetUint64(rng.U64())).Bytes()
		}
		do("unmeta " + hx(w))
	}
}
