#!/usr/bin/env python3
"""writes /verif/MANIFEST.json from tools/checks_config.py (run after editing the config)"""
import json, os, sys, subprocess
V = os.path.dirname(os.path.dirname(os.path.abspath(__file__)))
sys.path.insert(0, os.path.join(V, "tools"))
from checks_config import CHECKS
props = [json.loads(l) for l in open(os.path.join(V, "properties.jsonl"))]
hooks = subprocess.run(["git", "-C", "/repo", "log", "--format=%H %s"], capture_output=True, text=True).stdout.split("\n")
hook_commits = [l.split()[0] for l in hooks if "verif hook" in l]
checks = []
na = []
for p in props:
    pid = p["id"]
    c = CHECKS.get(pid)
    if not c or c.get("disabled"):
        na.append({"property_id": pid, "reason": (c or {}).get("na_reason", "check not built yet in this round (design in DESIGN.md §5); not claimed")})
        continue
    checks.append({
        "property_id": pid,
        "quick_cmd": f"./check {pid} --tier quick",
        "thorough_cmd": f"./check {pid} --tier thorough",
        "evidence_file": f"/verif/evidence/{pid}.json",
        "replay_cmd_template": f"./check {pid} --replay {{path}}",
        "engine": "lean4-model+correspondence",
        "level_claimed": {"category": "proof", "text": c["level_text"], "design_ref": c.get("design_ref", "DESIGN.md §5 " + pid)},
        "level_note": c["level_note"],
        "technique": c.get("technique", "Lean 4 theorems about a hand-written model + differential correspondence run against the Go code"),
    })
m = {
    "version": 1,
    "setup_cmd": "./setup.sh",
    "hooks": {
        "guard": "verif",
        "enable": "go build -tags verif (harness module /verif/harness with replace github.com/agglayer/aggkit => /repo)",
        "baseline_off_cmd": "cd /repo && GOFLAGS=-mod=mod GOPROXY=off go test -vet=off -count=1 -timeout 25m ./...",
        "source_commits": hook_commits,
        "add_only": True,
    },
    "engines": [
        {"name": "lean4-model+correspondence", "path": "/verif/lean", "serves_properties": [c["property_id"] for c in checks],
         "kind_free_text": "Lean 4 model (AggkitModel/Model), helper lemmas (Proofs), property theorems (Properties/Cxx.lean); "
                           "line-protocol driver (Driver/, compiled core-only exe); Go harness /verif/harness runs the same ops on the real code; /verif/check orchestrates"},
        {"name": "goextract", "path": "/verif/tools/goextract", "serves_properties": [c["property_id"] for c in checks if CHECKS[c["property_id"]].get("generated")],
         "kind_free_text": "go/ast fact extractor + mini Go->Lean translator regenerating AggkitModel/Generated/*.lean from /repo on every run"},
    ],
    "checks": checks,
    "not_applicable": na,
    "notes": "All checks: exit 0 = held; exit 1 + VIOLATION line = violation; exit 3 + INFRA-ERROR = the machinery could not run (no verdict). "
             "Known findings are listed in /verif/known_findings.jsonl. Go env: GOFLAGS=-mod=mod GOPROXY=off (GOTOOLCHAIN/GOSUMDB left at defaults).",
}
json.dump(m, open(os.path.join(V, "MANIFEST.json"), "w"), indent=1)
print("checks:", [c["property_id"] for c in checks], "na:", len(na))
