#!/bin/bash
# usage: [REGRESS_FILTER=<regex over seed ids>] tools/regress_seeds.sh [jobs]   — applies every seeded change under /verif/seeded to a PRIVATE copy of /repo (never to
# /repo itself), runs the quick check of its property in a private copy of /verif, and prints one line per seed. The check is
# relocatable (VERIF from its own location, REPO from $VERIF_REPO); only the harness' go.mod replace path is rewritten in the
# copies. Scratch copies live under /tmp and are removed at the end.
J=${1:-4}
ls /verif/seeded | grep -E "${REGRESS_FILTER:-.}" > /tmp/regress_all.txt
for k in $(seq 1 $J); do
  rm -rf /tmp/regress$k; mkdir -p /tmp/regress$k && cp -r /repo /tmp/regress$k/repo && rsync -a --exclude .work --exclude .git /verif/ /tmp/regress$k/verif/ \
    && sed -i "s#=> /repo#=> /tmp/regress$k/repo#" /tmp/regress$k/verif/harness/go.mod
  awk -v k=$k -v j=$J 'NR%j==k%j' /tmp/regress_all.txt > /tmp/regress$k/list.txt
  (
    export VERIF_REPO=/tmp/regress$k/repo
    cd /tmp/regress$k/verif
    for id in $(cat /tmp/regress$k/list.txt); do
      p=$(python3 -c "import json;print(json.load(open('seeded/$id/meta.json'))['property'])")
      git -C $VERIF_REPO apply /tmp/regress$k/verif/seeded/$id/patch.diff || { echo "$id $p :: patch does not apply"; continue; }
      res=$(timeout 1500 ./check $p --tier quick 2>&1 | grep -E "VIOLATION|^OK|INFRA" | tr '\n' ' ' | cut -c1-170)
      git -C $VERIF_REPO checkout -- .
      echo "$id $p :: $res"
    done
  ) > /tmp/regress$k.log 2>&1 &
done
wait
cat /tmp/regress[0-9]*.log | sort
echo "not detected by the property's own check:"; cat /tmp/regress[0-9]*.log | grep -v VIOLATION
for k in $(seq 1 $J); do rm -rf /tmp/regress$k /tmp/regress$k.log; done
