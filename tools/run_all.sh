#!/bin/sh
# runs every registered check (quick tier unless $1 given), 4 at a time; prints one line per check
TIER="${1:-quick}"
cd /verif
ids=$(python3 -c "import json;print(' '.join(c['property_id'] for c in json.load(open('MANIFEST.json'))['checks']))")
echo $ids | tr ' ' '\n' | xargs -P 4 -I{} sh -c "./check {} --tier $TIER 2>&1 | tail -2 | sed 's/^/{}: /'"
