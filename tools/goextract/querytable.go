package main

import (
	"fmt"
	"go/ast"
	"go/parser"
	"go/token"
	"path/filepath"
	"strings"
)

// queryTable extracts, for every exported method of the two syncer facades, whether its first statement is the
// halted guard  `if s.processor.isHalted() { … return …, sync.ErrInconsistentState }`,
// and for the processors' Reorg whether the un-halt decision is fed by the block-delete's rowsAffected.
func queryTable(repo string, w *strings.Builder) error {
	type target struct{ file, recv string }
	w.WriteString("structure Query where\n  syncer : String\n  name : String\n  guarded : Bool\n  deriving Repr, DecidableEq\n\n")
	w.WriteString("def queries : List Query := [\n")
	for _, t := range []target{{"bridgesync/bridgesync.go", "BridgeSync"}, {"l1infotreesync/l1infotreesync.go", "L1InfoTreeSync"}} {
		fset := token.NewFileSet()
		af, err := parser.ParseFile(fset, filepath.Join(repo, t.file), nil, 0)
		if err != nil {
			return err
		}
		for _, d := range af.Decls {
			fd, ok := d.(*ast.FuncDecl)
			if !ok || recvName(fd) != t.recv || !fd.Name.IsExported() {
				continue
			}
			fmt.Fprintf(w, "  { syncer := %q, name := %q, guarded := %v },\n", t.recv, fd.Name.Name, isGuarded(fd))
		}
	}
	w.WriteString("  { syncer := \"\", name := \"\", guarded := true } ]\n\n")
	// Reorg facts
	for _, f := range []struct{ file, name string }{{"bridgesync/processor.go", "bridge"}, {"l1infotreesync/processor.go", "l1info"}} {
		fset := token.NewFileSet()
		af, err := parser.ParseFile(fset, filepath.Join(repo, f.file), nil, 0)
		if err != nil {
			return err
		}
		fact := false
		guardPB := false
		for _, d := range af.Decls {
			fd, ok := d.(*ast.FuncDecl)
			if !ok || recvName(fd) != "processor" {
				continue
			}
			if fd.Name.Name == "Reorg" {
				fact = reorgUnhaltFact(fd)
			}
			if fd.Name.Name == "ProcessBlock" {
				guardPB = firstStmtIsHaltedGuard(fd, "p")
			}
		}
		fmt.Fprintf(w, "/-- %s processor: Reorg un-halts through UnhaltIfAffectedRows fed by RowsAffected() of the `DELETE FROM block`, after the commit -/\n", f.name)
		fmt.Fprintf(w, "def %sReorgUnhaltsByBlockRows : Bool := %v\n", f.name, fact)
		fmt.Fprintf(w, "/-- %s processor: ProcessBlock starts with the halted guard returning ErrInconsistentState -/\n", f.name)
		fmt.Fprintf(w, "def %sProcessBlockGuarded : Bool := %v\n\n", f.name, guardPB)
	}
	return nil
}

func isGuarded(fd *ast.FuncDecl) bool {
	recv := ""
	if len(fd.Recv.List[0].Names) > 0 {
		recv = fd.Recv.List[0].Names[0].Name
	}
	if len(fd.Body.List) == 0 {
		return false
	}
	ifs, ok := fd.Body.List[0].(*ast.IfStmt)
	if !ok || ifs.Init != nil {
		return false
	}
	call, ok := ifs.Cond.(*ast.CallExpr)
	if !ok {
		return false
	}
	if exprStringDeep(call.Fun) != recv+".processor.isHalted" {
		return false
	}
	return blockReturnsInconsistent(ifs.Body)
}

func firstStmtIsHaltedGuard(fd *ast.FuncDecl, recv string) bool {
	if len(fd.Body.List) == 0 {
		return false
	}
	ifs, ok := fd.Body.List[0].(*ast.IfStmt)
	if !ok {
		return false
	}
	call, ok := ifs.Cond.(*ast.CallExpr)
	if !ok || exprStringDeep(call.Fun) != recv+".isHalted" {
		return false
	}
	return blockReturnsInconsistent(ifs.Body)
}

func blockReturnsInconsistent(b *ast.BlockStmt) bool {
	if len(b.List) == 0 {
		return false
	}
	ret, ok := b.List[len(b.List)-1].(*ast.ReturnStmt)
	if !ok || len(ret.Results) == 0 {
		return false
	}
	return exprStringDeep(ret.Results[len(ret.Results)-1]) == "sync.ErrInconsistentState"
}

func exprStringDeep(e ast.Expr) string {
	switch t := e.(type) {
	case *ast.Ident:
		return t.Name
	case *ast.SelectorExpr:
		return exprStringDeep(t.X) + "." + t.Sel.Name
	case *ast.UnaryExpr:
		return t.Op.String() + exprStringDeep(t.X)
	}
	return "?"
}

// rowsAffected := res.RowsAffected() where res is the result of the DELETE FROM block Exec, and
// sync.UnhaltIfAffectedRows(..., rowsAffected) is called after tx.Commit()
func reorgUnhaltFact(fd *ast.FuncDecl) bool {
	resVar, rowsVar := "", ""
	commitSeen, unhaltAfterCommit := false, false
	ast.Inspect(fd.Body, func(n ast.Node) bool {
		switch s := n.(type) {
		case *ast.AssignStmt:
			if len(s.Rhs) == 1 {
				if call, ok := s.Rhs[0].(*ast.CallExpr); ok {
					fn := exprStringDeep(call.Fun)
					if strings.HasSuffix(fn, ".Exec") && len(call.Args) > 0 {
						if lit, ok := call.Args[0].(*ast.BasicLit); ok && strings.Contains(lit.Value, "DELETE FROM block") {
							resVar = exprStringDeep(s.Lhs[0])
						}
					}
					if resVar != "" && fn == resVar+".RowsAffected" {
						rowsVar = exprStringDeep(s.Lhs[0])
					}
					if strings.HasSuffix(fn, ".Commit") {
						commitSeen = true
					}
				}
			}
		case *ast.IfStmt:
			if as, ok := s.Init.(*ast.AssignStmt); ok && len(as.Rhs) == 1 {
				if call, ok := as.Rhs[0].(*ast.CallExpr); ok && strings.HasSuffix(exprStringDeep(call.Fun), ".Commit") {
					commitSeen = true
				}
			}
		case *ast.ExprStmt:
			if call, ok := s.X.(*ast.CallExpr); ok && exprStringDeep(call.Fun) == "sync.UnhaltIfAffectedRows" {
				if commitSeen && rowsVar != "" && len(call.Args) > 0 && exprStringDeep(call.Args[len(call.Args)-1]) == rowsVar {
					unhaltAfterCommit = true
				}
			}
		}
		return true
	})
	return unhaltAfterCommit
}
