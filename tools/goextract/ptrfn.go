package main

import (
	"fmt"
	"go/ast"
	"go/token"
	"sort"
	"strings"
)

// ptrfn: a second, small translator for decision functions that work on POINTERS to records (nil checks, field reads
// through pointers, early returns of (result, error)). Everything is translated into the `Option` monad: `none` = the Go
// code would dereference a nil pointer (panic). A pointer to a record is `Option <Record>`.
//
// Supported (anything else fails loudly):
//   statements  if [x := call(); ] cond { … } [else …] (bodies may fall through to what follows) · x := expr · return …
//               · logging / `logData` calls (skipped: they do not influence the result)
//   expressions identifiers, integer literals, field reads (through the receiver, through pointers), == != < <= > >= + && || !,
//               comparisons with nil, calls to other translated functions / methods
//   returns     (*Result, error): `return nil, <err>` = error · `return &T{action: a, …, cert: c}, nil` = result a c
//               error:            `return nil` = false · `return <err>` = true
//               *Record:          `return p`

type ptrCfg struct {
	recvType  string          // receiver type of the functions of this unit
	ptrFields map[string]bool // receiver fields that are pointers to records
	ptrFns    map[string]bool // methods of the receiver returning a pointer
	errFns    map[string]bool // methods of the receiver returning only `error`
	valMeths  map[string]string // methods on values (e.g. IsInError) -> Lean function
	skipCalls map[string]bool // methods called for their side effect on the log only
	resFields [2]string       // names of the (action, cert) fields of the result literal
	getters   map[string]string // receiver methods that only read a (configuration) field: method -> Lean field
	paramTypes map[string]string // Go parameter type (as written) -> Lean type; pointer types make the parameter a pointer variable
	extCalls  map[string]extCall // calls into the environment returning (value, error): source text of the callee -> description
	ptrRecFields map[string]bool // fields of records that are themselves pointers (e.g. PreviousLocalExitRoot)
}

// an environment call `v, err := <callee>(args)`: in Lean a field of the receiver record of type `… → Option T` (none = the call
// returned an error); `ptr`: T is a pointer to a record
type extCall struct {
	lean string
	ptr  bool
}

type ptrTr struct {
	cfg     ptrCfg
	fset    *token.FileSet
	recv    string
	ptrVars map[string]bool
	kind    string // "result" | "error" | "ptr" | "tuple" | "valerr"
	errVar  string // name of the error variable bound by the last environment call ("" = none in scope)
	errSet  bool   // … and whether we are translating the continuation in which that call FAILED
}

func (t *ptrTr) isPtr(e ast.Expr) bool {
	switch x := e.(type) {
	case *ast.Ident:
		return t.ptrVars[x.Name]
	case *ast.SelectorExpr:
		if id, ok := x.X.(*ast.Ident); ok && id.Name == t.recv && t.cfg.ptrFields[x.Sel.Name] {
			return true
		}
	case *ast.CallExpr:
		if sel, ok := x.Fun.(*ast.SelectorExpr); ok {
			if id, ok := sel.X.(*ast.Ident); ok && id.Name == t.recv && t.cfg.ptrFns[sel.Sel.Name] {
				return true
			}
		}
	case *ast.ParenExpr:
		return t.isPtr(x.X)
	}
	if sel, ok := e.(*ast.SelectorExpr); ok && t.cfg.ptrRecFields[sel.Sel.Name] {
		return true
	}
	return false
}

func isNil(e ast.Expr) bool {
	id, ok := e.(*ast.Ident)
	return ok && id.Name == "nil"
}

func (t *ptrTr) expr(e ast.Expr) (string, error) {
	switch x := e.(type) {
	case *ast.ParenExpr:
		return t.expr(x.X)
	case *ast.Ident:
		return "(pure " + x.Name + ")", nil
	case *ast.BasicLit:
		if x.Kind == token.INT {
			return "(pure " + strings.ReplaceAll(x.Value, "_", "") + ")", nil
		}
		return "", fmt.Errorf("unsupported literal %s", x.Value)
	case *ast.SelectorExpr:
		if id, ok := x.X.(*ast.Ident); ok && id.Name == t.recv {
			return fmt.Sprintf("(pure %s.%s)", t.recv, x.Sel.Name), nil
		}
		b, err := t.expr(x.X)
		if err != nil {
			return "", err
		}
		if t.isPtr(x.X) {
			// a field read through a pointer: nil = panic
			return fmt.Sprintf("(do let p__ ← %s; let v__ ← p__; pure v__.%s)", b, x.Sel.Name), nil
		}
		if _, ok := x.X.(*ast.Ident); ok {
			// package-qualified constant (e.g. agglayertypes.InError)
			return "(pure " + x.Sel.Name + ")", nil
		}
		return fmt.Sprintf("(do let v__ ← %s; pure v__.%s)", b, x.Sel.Name), nil
	case *ast.StarExpr:
		if !t.isPtr(x.X) {
			return "", fmt.Errorf("dereference of a non-pointer at %s", t.fset.Position(x.Pos()))
		}
		b, err := t.expr(x.X)
		if err != nil {
			return "", err
		}
		return fmt.Sprintf("(do let p__ ← %s; let v__ ← p__; pure v__)", b), nil
	case *ast.UnaryExpr:
		if x.Op != token.NOT {
			return "", fmt.Errorf("unsupported unary %s", x.Op)
		}
		b, err := t.expr(x.X)
		if err != nil {
			return "", err
		}
		return fmt.Sprintf("(do let b__ ← %s; pure (!b__))", b), nil
	case *ast.BinaryExpr:
		if (x.Op == token.EQL || x.Op == token.NEQ) && (isNil(x.X) || isNil(x.Y)) {
			other := x.X
			if isNil(x.X) {
				other = x.Y
			}
			if !t.isPtr(other) {
				return "", fmt.Errorf("comparison of a non-pointer with nil at %s", t.fset.Position(x.Pos()))
			}
			b, err := t.expr(other)
			if err != nil {
				return "", err
			}
			if x.Op == token.EQL {
				return fmt.Sprintf("(do let p__ ← %s; pure p__.isNone)", b), nil
			}
			return fmt.Sprintf("(do let p__ ← %s; pure p__.isSome)", b), nil
		}
		l, err := t.expr(x.X)
		if err != nil {
			return "", err
		}
		r, err := t.expr(x.Y)
		if err != nil {
			return "", err
		}
		switch x.Op {
		case token.LAND: // short circuit: the right side is evaluated only when the left side holds
			return fmt.Sprintf("(do let a__ ← %s; if a__ then %s else pure false)", l, r), nil
		case token.LOR:
			return fmt.Sprintf("(do let a__ ← %s; if a__ then pure true else %s)", l, r), nil
		}
		op := map[token.Token]string{token.EQL: "(a__ == b__)", token.NEQ: "(a__ != b__)", token.LSS: "(decide (a__ < b__))",
			token.LEQ: "(decide (a__ ≤ b__))", token.GTR: "(decide (a__ > b__))", token.GEQ: "(decide (a__ ≥ b__))",
			token.ADD: "(add64 a__ b__)", token.SUB: "(sub64 a__ b__)"}[x.Op]
		if op == "" {
			return "", fmt.Errorf("unsupported operator %s", x.Op)
		}
		return fmt.Sprintf("(do let a__ ← %s; let b__ ← %s; pure %s)", l, r, op), nil
	case *ast.CallExpr:
		if id, ok := x.Fun.(*ast.Ident); ok && (id.Name == "uint64" || id.Name == "uint") && len(x.Args) == 1 {
			return t.expr(x.Args[0])
		}
		sel, ok := x.Fun.(*ast.SelectorExpr)
		if !ok || len(x.Args) != 0 {
			return "", fmt.Errorf("unsupported call at %s", t.fset.Position(x.Pos()))
		}
		if id, ok := sel.X.(*ast.Ident); ok && id.Name == t.recv {
			if fld, ok := t.cfg.getters[sel.Sel.Name]; ok {
				return fmt.Sprintf("(pure %s.%s)", t.recv, fld), nil
			}
			if t.cfg.ptrFns[sel.Sel.Name] || t.cfg.errFns[sel.Sel.Name] {
				return fmt.Sprintf("(%s_%s %s)", t.cfg.recvType, sel.Sel.Name, t.recv), nil
			}
			return "", fmt.Errorf("call to untranslated method %s", sel.Sel.Name)
		}
		if fn, ok := t.cfg.valMeths[sel.Sel.Name]; ok {
			b, err := t.expr(sel.X)
			if err != nil {
				return "", err
			}
			return fmt.Sprintf("(do let v__ ← %s; pure (%s v__))", b, fn), nil
		}
		return "", fmt.Errorf("call to untranslated method %s at %s", sel.Sel.Name, t.fset.Position(x.Pos()))
	}
	return "", fmt.Errorf("unsupported expression %T at %s", e, t.fset.Position(e.Pos()))
}

func (t *ptrTr) ret(s *ast.ReturnStmt) (string, error) {
	switch t.kind {
	case "valerr":
		// (v1, …, vn, error): `some (v1, …)` when the error returned is nil, `none` when it is not
		n := len(s.Results)
		last := s.Results[n-1]
		if id, ok := last.(*ast.Ident); ok && id.Name == t.errVar && t.errVar != "" {
			if t.errSet {
				return "(pure none)", nil
			}
		} else if !isNil(last) {
			return "(pure none)", nil // fmt.Errorf(…) or another non-nil error value
		}
		var binds, names []string
		for i, e := range s.Results[:n-1] {
			x, err := t.expr(e)
			if err != nil {
				return "", err
			}
			binds = append(binds, fmt.Sprintf("let r%d__ ← %s", i, x))
			names = append(names, fmt.Sprintf("r%d__", i))
		}
		return fmt.Sprintf("(do %s; pure (some (%s)))", strings.Join(binds, "; "), strings.Join(names, ", ")), nil
	case "tuple":
		var binds, names []string
		for i, e := range s.Results {
			x, err := t.expr(e)
			if err != nil {
				return "", err
			}
			binds = append(binds, fmt.Sprintf("let r%d__ ← %s", i, x))
			names = append(names, fmt.Sprintf("r%d__", i))
		}
		return fmt.Sprintf("(do %s; pure (%s))", strings.Join(binds, "; "), strings.Join(names, ", ")), nil
	case "ptr":
		if len(s.Results) != 1 {
			return "", fmt.Errorf("return arity")
		}
		return t.expr(s.Results[0])
	case "error":
		if len(s.Results) != 1 {
			return "", fmt.Errorf("return arity")
		}
		if isNil(s.Results[0]) {
			return "(pure false)", nil
		}
		return "(pure true)", nil // any non-nil error value (its text is not part of the decision)
	case "result":
		if len(s.Results) != 2 {
			return "", fmt.Errorf("return arity")
		}
		if isNil(s.Results[0]) {
			if isNil(s.Results[1]) {
				return "", fmt.Errorf("return nil, nil at %s", t.fset.Position(s.Pos()))
			}
			return "(pure Ret.error)", nil
		}
		if !isNil(s.Results[1]) {
			return "", fmt.Errorf("a result together with an error at %s", t.fset.Position(s.Pos()))
		}
		u, ok := s.Results[0].(*ast.UnaryExpr)
		if !ok || u.Op != token.AND {
			return "", fmt.Errorf("unsupported result expression at %s", t.fset.Position(s.Pos()))
		}
		cl, ok := u.X.(*ast.CompositeLit)
		if !ok {
			return "", fmt.Errorf("unsupported result expression at %s", t.fset.Position(s.Pos()))
		}
		var act, cert string
		for _, el := range cl.Elts {
			kv, ok := el.(*ast.KeyValueExpr)
			if !ok {
				return "", fmt.Errorf("positional result literal")
			}
			k := exprString(kv.Key)
			switch k {
			case t.cfg.resFields[0]:
				a, err := t.expr(kv.Value)
				if err != nil {
					return "", err
				}
				act = a
			case t.cfg.resFields[1]:
				if isNil(kv.Value) {
					cert = "(pure none)"
				} else {
					if !t.isPtr(kv.Value) {
						return "", fmt.Errorf("result certificate is not a pointer expression at %s", t.fset.Position(kv.Pos()))
					}
					c, err := t.expr(kv.Value)
					if err != nil {
						return "", err
					}
					cert = c
				}
			}
		}
		if act == "" || cert == "" {
			return "", fmt.Errorf("result literal without %v at %s", t.cfg.resFields, t.fset.Position(s.Pos()))
		}
		return fmt.Sprintf("(do let a__ ← %s; let c__ ← %s; pure (Ret.result a__ c__))", act, cert), nil
	}
	return "", fmt.Errorf("unknown function kind")
}

func (t *ptrTr) isSkippable(s ast.Stmt) bool {
	es, ok := s.(*ast.ExprStmt)
	if !ok {
		return false
	}
	c, ok := es.X.(*ast.CallExpr)
	if !ok {
		return false
	}
	sel, ok := c.Fun.(*ast.SelectorExpr)
	if !ok {
		return false
	}
	if id, ok := sel.X.(*ast.Ident); ok && id.Name == t.recv && t.cfg.skipCalls[sel.Sel.Name] {
		return true
	}
	// i.log.Infof(...) and friends
	if inner, ok := sel.X.(*ast.SelectorExpr); ok && inner.Sel.Name == "log" {
		return true
	}
	return false
}

func (t *ptrTr) stmts(list []ast.Stmt, depth int) (string, error) {
	if len(list) == 0 {
		return "", fmt.Errorf("control reaches the end of the function without a return")
	}
	in := ind(depth)
	switch s := list[0].(type) {
	case *ast.ReturnStmt:
		r, err := t.ret(s)
		if err != nil {
			return "", err
		}
		return in + r, nil
	case *ast.ExprStmt:
		if t.isSkippable(s) {
			return t.stmts(list[1:], depth)
		}
		return "", fmt.Errorf("unsupported expression statement at %s", t.fset.Position(s.Pos()))
	case *ast.AssignStmt:
		if s.Tok == token.DEFINE && len(s.Lhs) == 2 && len(s.Rhs) == 1 {
			// v, err := <environment call>(args): two continuations — the call failed (v is not to be used), the call answered
			call, ok := s.Rhs[0].(*ast.CallExpr)
			if !ok {
				return "", fmt.Errorf("unsupported two-value assignment at %s", t.fset.Position(s.Pos()))
			}
			ec, ok := t.cfg.extCalls[nodeStr(t.fset, call.Fun)]
			if !ok {
				return "", fmt.Errorf("call to %s is not in the unit's table of environment calls", nodeStr(t.fset, call.Fun))
			}
			v, e := s.Lhs[0].(*ast.Ident).Name, s.Lhs[1].(*ast.Ident).Name
			callee := "(" + t.recv + "." + ec.lean
			for _, a := range call.Args {
				x, err := t.expr(a)
				if err != nil {
					return "", err
				}
				callee += " (← " + x + ")"
			}
			callee += ")"
			savedErr, savedSet, savedPtr := t.errVar, t.errSet, t.ptrVars[v]
			t.errVar, t.errSet = e, true
			failB, err := t.stmts(list[1:], depth+2)
			if err != nil {
				return "", fmt.Errorf("(continuation after a failed %s) %v", ec.lean, err)
			}
			t.errSet = false
			if ec.ptr {
				t.ptrVars[v] = true
			}
			okB, err := t.stmts(list[1:], depth+2)
			if err != nil {
				return "", err
			}
			t.errVar, t.errSet = savedErr, savedSet
			t.ptrVars[v] = savedPtr
			return fmt.Sprintf("%s(do\n%s  match %s with\n%s  | none =>\n%s\n%s  | some %s =>\n%s)", in, in, callee, in, failB, in, v, okB), nil
		}
		if (s.Tok != token.DEFINE && s.Tok != token.ASSIGN) || len(s.Lhs) != 1 || len(s.Rhs) != 1 {
			return "", fmt.Errorf("unsupported assignment at %s", t.fset.Position(s.Pos()))
		}
		if _, ok := s.Lhs[0].(*ast.Ident); !ok {
			return "", fmt.Errorf("assignment to something that is not a local variable at %s", t.fset.Position(s.Pos()))
		}
		name := s.Lhs[0].(*ast.Ident).Name
		v, err := t.expr(s.Rhs[0])
		if err != nil {
			return "", err
		}
		if t.isPtr(s.Rhs[0]) {
			t.ptrVars[name] = true
		}
		rest, err := t.stmts(list[1:], depth+1)
		if err != nil {
			return "", err
		}
		return fmt.Sprintf("%s(do\n%s  let %s ← %s\n%s)", in, in, name, v, rest), nil
	case *ast.IfStmt:
		if t.errVar != "" && s.Init == nil && s.Else == nil {
			if be, ok := s.Cond.(*ast.BinaryExpr); ok && be.Op == token.NEQ && exprString(be.X) == t.errVar && isNil(be.Y) {
				if t.errSet {
					return t.stmts(append(append([]ast.Stmt{}, s.Body.List...), list[1:]...), depth)
				}
				return t.stmts(list[1:], depth)
			}
		}
		if vars, ok := assignOnly(s); ok && s.Init == nil {
			// an `if` that only assigns local variables: the variables it may change are re-bound to the branch's result
			c, err := t.expr(s.Cond)
			if err != nil {
				return "", err
			}
			tup := strings.Join(vars, ", ")
			if len(vars) > 1 {
				tup = "(" + tup + ")"
			}
			thenB, err := t.assignBlock(s.Body.List, tup, depth+3)
			if err != nil {
				return "", err
			}
			elseB := ind(depth+3) + "(pure " + tup + ")"
			if s.Else != nil {
				eb, ok := s.Else.(*ast.BlockStmt)
				if !ok {
					return "", fmt.Errorf("unsupported else at %s", t.fset.Position(s.Pos()))
				}
				if elseB, err = t.assignBlock(eb.List, tup, depth+3); err != nil {
					return "", err
				}
			}
			rest, err := t.stmts(list[1:], depth+1)
			if err != nil {
				return "", err
			}
			return fmt.Sprintf("%s(do\n%s  let %s ← (do\n%s    let c__ ← %s\n%s    if c__ then\n%s\n%s    else\n%s)\n%s)", in, in, tup, in, c, in, thenB, in, elseB, rest), nil
		}
		var cond string
		if s.Init != nil {
			// if err := i.check(); err != nil { … }
			as, ok := s.Init.(*ast.AssignStmt)
			if !ok || len(as.Lhs) != 1 || len(as.Rhs) != 1 {
				return "", fmt.Errorf("unsupported if-init at %s", t.fset.Position(s.Pos()))
			}
			name := as.Lhs[0].(*ast.Ident).Name
			be, ok := s.Cond.(*ast.BinaryExpr)
			if !ok || be.Op != token.NEQ || exprString(be.X) != name || !isNil(be.Y) {
				return "", fmt.Errorf("unsupported if-init condition at %s", t.fset.Position(s.Pos()))
			}
			call, ok := as.Rhs[0].(*ast.CallExpr)
			if !ok {
				return "", fmt.Errorf("unsupported if-init at %s", t.fset.Position(s.Pos()))
			}
			sel, ok := call.Fun.(*ast.SelectorExpr)
			if !ok || !t.cfg.errFns[sel.Sel.Name] {
				return "", fmt.Errorf("if-init calls an untranslated function at %s", t.fset.Position(s.Pos()))
			}
			c, err := t.expr(call)
			if err != nil {
				return "", err
			}
			cond = c // true = an error was returned
		} else {
			c, err := t.expr(s.Cond)
			if err != nil {
				return "", err
			}
			cond = c
		}
		rest := list[1:]
		var elseList []ast.Stmt
		if s.Else != nil {
			switch e := s.Else.(type) {
			case *ast.BlockStmt:
				elseList = append(append([]ast.Stmt{}, e.List...), rest...)
			case *ast.IfStmt:
				elseList = append([]ast.Stmt{e}, rest...)
			}
		} else {
			elseList = rest
		}
		// a body that does not end in a return falls through to what follows the if
		saved := map[string]bool{}
		for k, v := range t.ptrVars {
			saved[k] = v
		}
		thenB, err := t.stmts(append(append([]ast.Stmt{}, s.Body.List...), rest...), depth+2)
		if err != nil {
			return "", err
		}
		t.ptrVars = saved
		elseB, err := t.stmts(elseList, depth+2)
		if err != nil {
			return "", err
		}
		return fmt.Sprintf("%s(do\n%s  let c__ ← %s\n%s  if c__ then\n%s\n%s  else\n%s)", in, in, cond, in, thenB, in, elseB), nil
	}
	return "", fmt.Errorf("unsupported statement %T at %s", list[0], t.fset.Position(list[0].Pos()))
}

// assignOnly: the statement (an if, recursively) contains nothing but assignments to local variables; returns them sorted
func assignOnly(s ast.Stmt) ([]string, bool) {
	seen := map[string]bool{}
	var walk func(list []ast.Stmt) bool
	walk = func(list []ast.Stmt) bool {
		for _, st := range list {
			switch x := st.(type) {
			case *ast.AssignStmt:
				if x.Tok != token.ASSIGN || len(x.Lhs) != 1 {
					return false
				}
				id, ok := x.Lhs[0].(*ast.Ident)
				if !ok {
					return false
				}
				seen[id.Name] = true
			case *ast.IfStmt:
				if x.Init != nil || !walk(x.Body.List) {
					return false
				}
				if x.Else != nil {
					eb, ok := x.Else.(*ast.BlockStmt)
					if !ok || !walk(eb.List) {
						return false
					}
				}
			default:
				return false
			}
		}
		return true
	}
	ifs, ok := s.(*ast.IfStmt)
	if !ok || !walk([]ast.Stmt{ifs}) || len(seen) == 0 {
		return nil, false
	}
	var out []string
	for k := range seen {
		out = append(out, k)
	}
	sort.Strings(out)
	return out, true
}

// assignBlock: a list of assignments (and assignment-only ifs) followed by `pure <tuple of the joined variables>`
func (t *ptrTr) assignBlock(list []ast.Stmt, tup string, depth int) (string, error) {
	in := ind(depth)
	if len(list) == 0 {
		return in + "(pure " + tup + ")", nil
	}
	switch s := list[0].(type) {
	case *ast.AssignStmt:
		name := s.Lhs[0].(*ast.Ident).Name
		v, err := t.expr(s.Rhs[0])
		if err != nil {
			return "", err
		}
		rest, err := t.assignBlock(list[1:], tup, depth+1)
		if err != nil {
			return "", err
		}
		return fmt.Sprintf("%s(do\n%s  let %s ← %s\n%s)", in, in, name, v, rest), nil
	case *ast.IfStmt:
		vars, _ := assignOnly(s)
		c, err := t.expr(s.Cond)
		if err != nil {
			return "", err
		}
		inner := strings.Join(vars, ", ")
		if len(vars) > 1 {
			inner = "(" + inner + ")"
		}
		thenB, err := t.assignBlock(s.Body.List, inner, depth+3)
		if err != nil {
			return "", err
		}
		elseB := ind(depth+3) + "(pure " + inner + ")"
		if s.Else != nil {
			if elseB, err = t.assignBlock(s.Else.(*ast.BlockStmt).List, inner, depth+3); err != nil {
				return "", err
			}
		}
		rest, err := t.assignBlock(list[1:], tup, depth+1)
		if err != nil {
			return "", err
		}
		return fmt.Sprintf("%s(do\n%s  let %s ← (do\n%s    let c__ ← %s\n%s    if c__ then\n%s\n%s    else\n%s)\n%s)", in, in, inner, in, c, in, thenB, in, elseB, rest), nil
	}
	return "", fmt.Errorf("unsupported statement in an assignment block at %s", t.fset.Position(list[0].Pos()))
}

func (t *ptrTr) fn(fd *ast.FuncDecl, kind, retType string) (string, error) {
	t.kind = kind
	t.ptrVars = map[string]bool{}
	t.recv = fd.Recv.List[0].Names[0].Name
	params := ""
	for _, p := range fd.Type.Params.List {
		gt := typeString(p.Type)
		lt, ok := t.cfg.paramTypes[gt]
		if !ok {
			return "", fmt.Errorf("%s: parameter type %s is not in the unit's table", fd.Name.Name, gt)
		}
		for _, n := range p.Names {
			params += fmt.Sprintf(" (%s : %s)", n.Name, lt)
			if strings.HasPrefix(gt, "*") {
				t.ptrVars[n.Name] = true
			}
		}
	}
	body, err := t.stmts(fd.Body.List, 1)
	if err != nil {
		return "", fmt.Errorf("%s: %v", fd.Name.Name, err)
	}
	return fmt.Sprintf("def %s_%s (%s : %s)%s : Option %s :=\n%s\n", t.cfg.recvType, fd.Name.Name, t.recv, t.cfg.recvType, params, retType, body), nil
}

// iota constants of a named type, in declaration order
func iotaConsts(af *ast.File, typeName string) []string {
	var out []string
	for _, d := range af.Decls {
		gd, ok := d.(*ast.GenDecl)
		if !ok || gd.Tok != token.CONST {
			continue
		}
		collecting := false
		for _, sp := range gd.Specs {
			vs := sp.(*ast.ValueSpec)
			if !collecting {
				if id, ok := vs.Type.(*ast.Ident); ok && id.Name == typeName && len(vs.Names) == 1 && len(vs.Values) == 1 && exprString(vs.Values[0]) == "iota" {
					out = append(out, vs.Names[0].Name)
					collecting = true
				}
				continue
			}
			if vs.Type == nil && len(vs.Values) == 0 && len(vs.Names) == 1 {
				out = append(out, vs.Names[0].Name)
			} else {
				break
			}
		}
		if len(out) > 0 {
			return out
		}
	}
	return out
}

// unit InitialStatus: aggsender/statuschecker/initial_state.go — the start-up reconciliation decision
func initialStatusUnit(repo string, w *strings.Builder) error {
	_, tf, err := parseOne(repo, "agglayer/types/types.go")
	if err != nil {
		return err
	}
	sts := iotaConsts(tf, "CertificateStatus")
	if len(sts) == 0 {
		return fmt.Errorf("CertificateStatus constants not found")
	}
	for i, s := range sts {
		fmt.Fprintf(w, "def %s : Nat := %d\n", s, i)
	}
	// the two status predicates the decision uses, translated from their bodies (`return c == X`)
	for _, m := range []string{"IsInError", "IsSettled"} {
		fd := findFunc(tf, "CertificateStatus", m)
		if fd == nil {
			return fmt.Errorf("CertificateStatus.%s not found", m)
		}
		tr := &translator{known: map[string]bool{}}
		src, err := tr.fn(fd)
		if err != nil {
			return fmt.Errorf("CertificateStatus.%s: %v", m, err)
		}
		w.WriteString(strings.Replace(src, "(c : CertificateStatus)", "(c : Nat)", 1) + "\n")
	}
	fset, af, err := parseOne(repo, "aggsender/statuschecker/initial_state.go")
	if err != nil {
		return err
	}
	acts := iotaConsts(af, "initialStatusAction")
	if len(acts) == 0 {
		return fmt.Errorf("initialStatusAction constants not found")
	}
	for i, s := range acts {
		fmt.Fprintf(w, "def %s : Nat := %d\n", s, i)
	}
	w.WriteString("\n")
	t := &ptrTr{fset: fset, cfg: ptrCfg{recvType: "initialStatus",
		ptrFields: set("SettledCert", "PendingCert", "LocalCert"), ptrFns: set("getLatestAggLayerCert"),
		errFns: set("checkAgglayerConsistenceCerts"), skipCalls: set("logData"),
		valMeths:  map[string]string{"IsInError": "CertificateStatus_IsInError", "IsSettled": "CertificateStatus_IsSettled"},
		resFields: [2]string{"action", "cert"}}}
	for _, f := range []struct{ name, kind, ret string }{
		{"getLatestAggLayerCert", "ptr", "(Option CertHdr)"},
		{"checkAgglayerConsistenceCerts", "error", "Bool"},
		{"process", "result", "Ret"},
	} {
		fd := findFunc(af, "initialStatus", f.name)
		if fd == nil {
			return fmt.Errorf("initialStatus.%s not found (renamed or removed?)", f.name)
		}
		src, err := t.fn(fd, f.kind, f.ret)
		if err != nil {
			return err
		}
		w.WriteString(src + "\n")
	}
	return nil
}

func typeString(e ast.Expr) string {
	switch x := e.(type) {
	case *ast.Ident:
		return x.Name
	case *ast.StarExpr:
		return "*" + typeString(x.X)
	case *ast.SelectorExpr:
		return typeString(x.X) + "." + x.Sel.Name
	}
	return "?"
}

// unit FlowBase: aggsender/flows/flow_base.go — where the next certificate starts and how often it has been retried
func flowBaseUnit(repo string, w *strings.Builder) error {
	_, tf, err := parseOne(repo, "agglayer/types/types.go")
	if err != nil {
		return err
	}
	sts := iotaConsts(tf, "CertificateStatus")
	if len(sts) == 0 {
		return fmt.Errorf("CertificateStatus constants not found")
	}
	for i, s := range sts {
		fmt.Fprintf(w, "def %s : Nat := %d\n", s, i)
	}
	w.WriteString("\n")
	fset, af, err := parseOne(repo, "aggsender/flows/flow_base.go")
	if err != nil {
		return err
	}
	// the getter the function calls must be the plain field read the table below says it is
	if g := findFunc(af, "baseFlow", "StartL2Block"); g == nil || len(g.Body.List) != 1 || nodeStr(fset, g.Body.List[0]) != "return f.cfg.StartL2Block" {
		return fmt.Errorf("baseFlow.StartL2Block is no longer `return f.cfg.StartL2Block`")
	}
	t := &ptrTr{fset: fset, cfg: ptrCfg{recvType: "baseFlow", ptrFields: set(), ptrFns: set(), errFns: set(), skipCalls: set(),
		valMeths: map[string]string{}, getters: map[string]string{"StartL2Block": "StartL2Block"},
		paramTypes: map[string]string{"*types.CertificateHeader": "Option SentHdr"}}}
	fd := findFunc(af, "baseFlow", "getLastSentBlockAndRetryCount")
	if fd == nil {
		return fmt.Errorf("baseFlow.getLastSentBlockAndRetryCount not found (renamed or removed?)")
	}
	src, err := t.fn(fd, "tuple", "(Nat × Nat)")
	if err != nil {
		return err
	}
	w.WriteString(src + "\n")
	return nil
}

// unit NextHeight: aggsender/flows/flow_base.go getNextHeightAndPreviousLER — height and previous exit root of the next certificate
func nextHeightUnit(repo string, w *strings.Builder) error {
	_, tf, err := parseOne(repo, "agglayer/types/types.go")
	if err != nil {
		return err
	}
	sts := iotaConsts(tf, "CertificateStatus")
	if len(sts) == 0 {
		return fmt.Errorf("CertificateStatus constants not found")
	}
	for i, s := range sts {
		fmt.Fprintf(w, "def %s : Nat := %d\n", s, i)
	}
	// IsOpen = membership in NonSettledStatuses; IsClosed = !IsOpen; the two equality predicates are translated
	var open []string
	for _, d := range tf.Decls {
		gd, ok := d.(*ast.GenDecl)
		if !ok || gd.Tok != token.VAR {
			continue
		}
		for _, sp := range gd.Specs {
			vs := sp.(*ast.ValueSpec)
			for i, n := range vs.Names {
				if n.Name == "NonSettledStatuses" && i < len(vs.Values) {
					if cl, ok := vs.Values[i].(*ast.CompositeLit); ok {
						for _, e := range cl.Elts {
							open = append(open, exprString(e))
						}
					}
				}
			}
		}
	}
	if len(open) == 0 {
		return fmt.Errorf("NonSettledStatuses not found")
	}
	fsetT, _, _ := parseOne(repo, "agglayer/types/types.go")
	_ = fsetT
	for name, want := range map[string]string{"IsOpen": "return slices.Contains(NonSettledStatuses, c)", "IsClosed": "return !c.IsOpen()"} {
		fd := findFunc(tf, "CertificateStatus", name)
		fs, af2, _ := parseOne(repo, "agglayer/types/types.go")
		fd = findFunc(af2, "CertificateStatus", name)
		if fd == nil || len(fd.Body.List) != 1 || nodeStr(fs, fd.Body.List[0]) != want {
			return fmt.Errorf("CertificateStatus.%s is no longer `%s`", name, want)
		}
	}
	fmt.Fprintf(w, "def CertificateStatus_IsOpen (c : Nat) : Bool := [%s].contains c\n", strings.Join(open, ", "))
	w.WriteString("def CertificateStatus_IsClosed (c : Nat) : Bool := !(CertificateStatus_IsOpen c)\n")
	for _, m := range []string{"IsInError", "IsSettled"} {
		fd := findFunc(tf, "CertificateStatus", m)
		if fd == nil {
			return fmt.Errorf("CertificateStatus.%s not found", m)
		}
		tr := &translator{known: map[string]bool{}}
		src, err := tr.fn(fd)
		if err != nil {
			return fmt.Errorf("CertificateStatus.%s: %v", m, err)
		}
		w.WriteString(strings.Replace(src, "(c : CertificateStatus)", "(c : Nat)", 1))
	}
	w.WriteString("\n")
	fset, af, err := parseOne(repo, "aggsender/flows/flow_base.go")
	if err != nil {
		return err
	}
	t := &ptrTr{fset: fset, cfg: ptrCfg{recvType: "baseFlowEnv", ptrFields: set(), ptrFns: set(), errFns: set(), skipCalls: set(),
		valMeths: map[string]string{"IsInError": "CertificateStatus_IsInError", "IsSettled": "CertificateStatus_IsSettled",
			"IsClosed": "CertificateStatus_IsClosed", "IsOpen": "CertificateStatus_IsOpen"},
		getters:      map[string]string{},
		paramTypes:   map[string]string{"*types.CertificateHeader": "Option FullHdr"},
		ptrRecFields: set("PreviousLocalExitRoot"),
		extCalls: map[string]extCall{"f.getStartLER": {lean: "getStartLER"},
			"f.storage.GetCertificateHeaderByHeight": {lean: "headerByHeight", ptr: true}}}}
	fd := findFunc(af, "baseFlow", "getNextHeightAndPreviousLER")
	if fd == nil {
		return fmt.Errorf("baseFlow.getNextHeightAndPreviousLER not found (renamed or removed?)")
	}
	src, err := t.fn(fd, "valerr", "(Option (Nat × Nat))")
	if err != nil {
		return err
	}
	w.WriteString(src + "\n")
	return nil
}
