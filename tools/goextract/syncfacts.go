package main

// Unit SyncFacts: structural facts about the download / drive / store code paths that the hand-written models take for
// granted — every storage error inside a block transaction is propagated (C07), the rollback guard (C07), the header-
// mismatch retry covers the whole range (C05), the driver retries a failed marker read and resumes at marker+1 (C05),
// blocks are tracked before they are processed (C06), the injected-GER processor returns its statement errors (C16).

import (
	"fmt"
	"go/ast"
	"go/printer"
	"go/token"
	"sort"
	"strings"
)

func nodeStr(fset *token.FileSet, n ast.Node) string {
	var b strings.Builder
	_ = printer.Fprint(&b, fset, n)
	return strings.Join(strings.Fields(b.String()), " ")
}

// does the block's control flow end in leaving the enclosing function / iteration with the error handled upstream?
func endsInExit(b *ast.BlockStmt) bool {
	if len(b.List) == 0 {
		return false
	}
	switch s := b.List[len(b.List)-1].(type) {
	case *ast.ReturnStmt:
		return true
	case *ast.BranchStmt:
		return s.Tok == token.CONTINUE || s.Tok == token.BREAK || s.Tok == token.GOTO
	case *ast.ExprStmt:
		if c, ok := s.X.(*ast.CallExpr); ok {
			name := ""
			switch f := c.Fun.(type) {
			case *ast.Ident:
				name = f.Name
			case *ast.SelectorExpr:
				name = f.Sel.Name
			}
			return name == "panic" || strings.HasPrefix(name, "Fatal")
		}
	}
	return false
}

func condMentionsErrNotNil(e ast.Expr) bool {
	found := false
	ast.Inspect(e, func(x ast.Node) bool {
		if be, ok := x.(*ast.BinaryExpr); ok && be.Op == token.NEQ {
			l, lok := be.X.(*ast.Ident)
			r, rok := be.Y.(*ast.Ident)
			if lok && rok && r.Name == "nil" && strings.HasPrefix(strings.ToLower(l.Name), "err") {
				found = true
			}
		}
		return true
	})
	return found
}

// the call whose error an `if` statement looks at: the statement's own init (`if err := f(); …`) or the statement before it
func errSource(fset *token.FileSet, list []ast.Stmt, i int) string {
	is := list[i].(*ast.IfStmt)
	callName := func(n ast.Node) string {
		name := ""
		ast.Inspect(n, func(x ast.Node) bool {
			if c, ok := x.(*ast.CallExpr); ok && name == "" {
				name = nodeStr(fset, c.Fun)
			}
			return name == ""
		})
		return name
	}
	if is.Init != nil {
		if n := callName(is.Init); n != "" {
			return n
		}
	}
	if n := callName(is.Cond); n != "" && !strings.HasPrefix(n, "errors.") {
		return n
	}
	for k := i - 1; k >= 0 && k >= i-2; k-- {
		if n := callName(list[k]); n != "" {
			return n
		}
	}
	return "?"
}

// every statement list of a function body, recursively
func stmtLists(body *ast.BlockStmt, f func(list []ast.Stmt)) {
	ast.Inspect(body, func(x ast.Node) bool {
		switch b := x.(type) {
		case *ast.BlockStmt:
			f(b.List)
		case *ast.CaseClause:
			f(b.Body)
		case *ast.CommClause:
			f(b.Body)
		}
		return true
	})
}

// "func:call" for every `if … err != nil { … }` of the file whose body does not end in return / continue / break / panic:
// the places where an error is handled locally instead of being propagated (named by the call that failed, so that
// unrelated edits do not renumber them)
func handledLocally(repo, file string) ([]string, error) {
	fset, af, err := parseOne(repo, file)
	if err != nil {
		return nil, err
	}
	var out []string
	for _, d := range af.Decls {
		fd, ok := d.(*ast.FuncDecl)
		if !ok || fd.Body == nil {
			continue
		}
		stmtLists(fd.Body, func(list []ast.Stmt) {
			for i, st := range list {
				if is, ok := st.(*ast.IfStmt); ok && condMentionsErrNotNil(is.Cond) && !endsInExit(is.Body) {
					out = append(out, fd.Name.Name+":"+errSource(fset, list, i))
				}
			}
		})
	}
	sort.Strings(out)
	return out, nil
}

// "func:call" for every `if` whose condition mentions an error value (err != nil, errors.Is(err, …), …) and whose body
// returns with a nil error: the places where a failure is turned into success
func errToNil(repo, file string) ([]string, error) {
	fset, af, err := parseOne(repo, file)
	if err != nil {
		return nil, err
	}
	mentionsErr := func(e ast.Expr) bool {
		found := false
		ast.Inspect(e, func(x ast.Node) bool {
			if id, ok := x.(*ast.Ident); ok && strings.HasPrefix(strings.ToLower(id.Name), "err") && id.Name != "errors" {
				found = true
			}
			return true
		})
		return found
	}
	var out []string
	for _, d := range af.Decls {
		fd, ok := d.(*ast.FuncDecl)
		if !ok || fd.Body == nil || fd.Type.Results == nil {
			continue
		}
		rs := fd.Type.Results.List
		if id, ok := rs[len(rs)-1].Type.(*ast.Ident); !ok || id.Name != "error" {
			continue
		}
		stmtLists(fd.Body, func(list []ast.Stmt) {
			for i, st := range list {
				is, ok := st.(*ast.IfStmt)
				if !ok || !mentionsErr(is.Cond) {
					continue
				}
				for _, b := range is.Body.List {
					if rt, ok := b.(*ast.ReturnStmt); ok && len(rt.Results) > 0 {
						if id, ok := rt.Results[len(rt.Results)-1].(*ast.Ident); ok && id.Name == "nil" {
							out = append(out, fd.Name.Name+":"+errSource(fset, list, i))
						}
					}
				}
			}
		})
	}
	sort.Strings(out)
	return out, nil
}

// value expressions given to the block-position field of the events built by a downloader's log handlers
func blockPosExprs(repo, file string) ([]string, error) {
	fset, af, err := parseOne(repo, file)
	if err != nil {
		return nil, err
	}
	seen := map[string]bool{}
	ast.Inspect(af, func(x ast.Node) bool {
		if kv, ok := x.(*ast.KeyValueExpr); ok {
			if k, ok := kv.Key.(*ast.Ident); ok && (k.Name == "BlockPosition" || k.Name == "BlockPos") {
				seen[nodeStr(fset, kv.Value)] = true
			}
		}
		return true
	})
	var out []string
	for k := range seen {
		out = append(out, k)
	}
	sort.Strings(out)
	return out, nil
}

func syncFacts(repo string, w *strings.Builder) error {
	// 0. failures turned into success, log positions, the loop's sampling order
	for _, f := range []struct{ name, file string }{
		{"bridgeProcessor", "bridgesync/processor.go"},
		{"l1infoProcessor", "l1infotreesync/processor.go"},
		{"gerProcessor", "lastgersync/processor.go"},
		{"evmDriver", "sync/evmdriver.go"},
		{"dbTx", "db/tx.go"},
	} {
		xs, err := errToNil(repo, f.file)
		if err != nil {
			return err
		}
		fmt.Fprintf(w, "/-- %s: `if <condition on an error>` blocks that return a nil error (function#ordinal) -/\ndef errToNil_%s : List String := %s\n", f.file, f.name, leanStrList(xs))
	}
	for _, f := range []struct{ name, file string }{
		{"l1info", "l1infotreesync/downloader.go"},
		{"bridge", "bridgesync/downloader.go"},
		{"ger", "lastgersync/evmdownloader_pp.go"},
	} {
		xs, err := blockPosExprs(repo, f.file)
		if err != nil {
			return err
		}
		fmt.Fprintf(w, "/-- %s: what the log handlers store as an event's position inside its block -/\ndef blockPosExprs_%s : List String := %s\n", f.file, f.name, leanStrList(xs))
	}
	// the transaction wrapper's Commit and Rollback, whole (they are a few lines): a commit that did not happen must be an error
	{
		fset, af, err := parseOne(repo, "db/tx.go")
		if err != nil {
			return err
		}
		for _, fn := range []string{"Commit", "Rollback"} {
			body := ""
			if fd := findFunc(af, "Tx", fn); fd != nil {
				body = nodeStr(fset, fd.Body)
			}
			fmt.Fprintf(w, "/-- db/tx.go: body of `Tx.%s` (whitespace-normalised) -/\ndef txBody_%s : String := %q\n", fn, fn, body)
		}
	}
	// what makes a store declare itself inconsistent (halt): the conditions of the `if`s that set the flag
	for _, f := range []struct{ name, file string }{
		{"bridge", "bridgesync/processor.go"},
		{"l1info", "l1infotreesync/processor.go"},
	} {
		fset, af, err := parseOne(repo, f.file)
		if err != nil {
			return err
		}
		var conds []string
		if fd := findFunc(af, "processor", "ProcessBlock"); fd != nil {
			ast.Inspect(fd.Body, func(x ast.Node) bool {
				is, ok := x.(*ast.IfStmt)
				if !ok {
					return true
				}
				for _, st := range is.Body.List {
					if as, ok := st.(*ast.AssignStmt); ok && len(as.Lhs) == 1 && strings.HasSuffix(nodeStr(fset, as.Lhs[0]), ".halted") && nodeStr(fset, as.Rhs[0]) == "true" {
						conds = append(conds, nodeStr(fset, is.Cond))
					}
				}
				return true
			})
		}
		fmt.Fprintf(w, "/-- %s ProcessBlock: the conditions under which the processor halts -/\ndef haltConds_%s : List String := %s\n", f.file, f.name, leanStrList(conds))
	}
	{
		_, af, err := parseOne(repo, "sync/evmdownloader.go")
		if err != nil {
			return err
		}
		var order []string
		if fd := findFunc(af, "EVMDownloader", "Download"); fd != nil {
			order = callOrder(fd, set("GetLastFinalizedBlock", "GetEventsByBlockRange", "reportBlocks", "reportEmptyBlock"))
		}
		fmt.Fprintf(w, "/-- `EVMDownloader.Download`: the finalized block is sampled BEFORE the range is fetched (so a block reported as finalized was finalized when its header was checked) -/\ndef downloadLoopOrder : List String := %s\n\n", leanStrList(order))
	}

	// 1. error propagation in the stores' write paths
	for _, f := range []struct{ name, file string }{
		{"bridgeProcessor", "bridgesync/processor.go"},
		{"l1infoProcessor", "l1infotreesync/processor.go"},
		{"l1infoVerifyBatches", "l1infotreesync/processor_verifybatches.go"},
		{"l1infoInitial", "l1infotreesync/processor_initl1inforootmap.go"},
		{"gerProcessor", "lastgersync/processor.go"},
		{"treeCore", "tree/tree.go"},
		{"treeAppendOnly", "tree/appendonlytree.go"},
		{"treeUpdatable", "tree/updatabletree.go"},
	} {
		hl, err := handledLocally(repo, f.file)
		if err != nil {
			return err
		}
		fmt.Fprintf(w, "/-- %s: `if … err != nil` blocks that do NOT end in return / continue / break / panic (function#ordinal) -/\ndef errHandledLocally_%s : List String := %s\n", f.file, f.name, leanStrList(hl))
	}
	w.WriteString("\n")

	// 2. the rollback guard of the three ProcessBlock transactions: what the deferred function tests before tx.Rollback()
	for _, f := range []struct{ name, file, recv string }{
		{"bridge", "bridgesync/processor.go", "processor"},
		{"l1info", "l1infotreesync/processor.go", "processor"},
		{"ger", "lastgersync/processor.go", "processor"},
	} {
		fset, af, err := parseOne(repo, f.file)
		if err != nil {
			return err
		}
		guard, resets := "", []string{}
		if fd := findFunc(af, f.recv, "ProcessBlock"); fd != nil {
			ast.Inspect(fd.Body, func(x ast.Node) bool {
				if ds, ok := x.(*ast.DeferStmt); ok {
					if fl, ok := ds.Call.Fun.(*ast.FuncLit); ok {
						ast.Inspect(fl.Body, func(y ast.Node) bool {
							if is, ok := y.(*ast.IfStmt); ok && guard == "" {
								has := false
								ast.Inspect(is.Body, func(z ast.Node) bool {
									if c, ok := z.(*ast.CallExpr); ok {
										if s, ok := c.Fun.(*ast.SelectorExpr); ok && (s.Sel.Name == "Rollback" || s.Sel.Name == "rollbackTransaction") {
											has = true
										}
									}
									return true
								})
								if has {
									guard = nodeStr(fset, is.Cond)
								}
							}
							return true
						})
					}
				}
				return true
			})
			// assignments to the guard variable after the deferred function: where the transaction is declared done
			if id := strings.TrimSpace(guard); id != "" && !strings.ContainsAny(id, " !=") {
				type hit struct {
					pos token.Pos
					s   string
				}
				var hits []hit
				ast.Inspect(fd.Body, func(x ast.Node) bool {
					if as, ok := x.(*ast.AssignStmt); ok && len(as.Lhs) == 1 {
						if l, ok := as.Lhs[0].(*ast.Ident); ok && l.Name == id {
							hits = append(hits, hit{as.Pos(), nodeStr(fset, as)})
						}
					}
					if c, ok := x.(*ast.CallExpr); ok {
						if s, ok := c.Fun.(*ast.SelectorExpr); ok && s.Sel.Name == "Commit" {
							hits = append(hits, hit{c.Pos(), "Commit"})
						}
					}
					return true
				})
				sort.Slice(hits, func(i, j int) bool { return hits[i].pos < hits[j].pos })
				for _, h := range hits {
					resets = append(resets, h.s)
				}
			}
		}
		// the flag's name is irrelevant: only that it is ONE flag, set before the first statement and cleared after Commit
		if id := strings.TrimSpace(guard); id != "" && !strings.ContainsAny(id, " !=.()") {
			for k := range resets {
				resets[k] = strings.ReplaceAll(resets[k], id, "FLAG")
			}
			guard = "FLAG"
		}
		fmt.Fprintf(w, "/-- %s ProcessBlock: condition under which the deferred function rolls the transaction back -/\ndef rollbackGuard_%s : String := %q\n", f.file, f.name, guard)
		fmt.Fprintf(w, "/-- … and the assignments to that flag together with the Commit call, in source order -/\ndef rollbackFlagFlow_%s : List String := %s\n", f.name, leanStrList(resets))
	}
	w.WriteString("\n")

	// 3. the downloader's header-mismatch retry and grouping condition
	fset, af, err := parseOne(repo, "sync/evmdownloader.go")
	if err != nil {
		return err
	}
	maxRetry := ""
	ast.Inspect(af, func(x ast.Node) bool {
		if vs, ok := x.(*ast.ValueSpec); ok {
			for i, n := range vs.Names {
				if n.Name == "MaxRetryCountBlockHashMismatch" && i < len(vs.Values) {
					maxRetry = nodeStr(fset, vs.Values[i])
				}
			}
		}
		return true
	})
	var retryArgs, giveUp, openCond []string
	if fd := findFunc(af, "EVMDownloaderImplementation", "getEventsByBlockRangeWithRetry"); fd != nil {
		ast.Inspect(fd.Body, func(x ast.Node) bool {
			switch n := x.(type) {
			case *ast.CallExpr:
				if s, ok := n.Fun.(*ast.SelectorExpr); ok && s.Sel.Name == "getEventsByBlockRangeWithRetry" {
					for _, a := range n.Args {
						retryArgs = append(retryArgs, nodeStr(fset, a))
					}
				}
			case *ast.IfStmt:
				c := nodeStr(fset, n.Cond)
				if strings.Contains(c, "MaxRetryCountBlockHashMismatch") {
					giveUp = append(giveUp, c)
				}
				if strings.Contains(c, "latestBlock") {
					openCond = append(openCond, c)
				}
			}
			return true
		})
	}
	fmt.Fprintf(w, "def maxRetryCountBlockHashMismatch : String := %q\n", maxRetry)
	fmt.Fprintf(w, "/-- arguments of the recursive retry call after a header-hash mismatch -/\ndef mismatchRetryArgs : List String := %s\n", leanStrList(retryArgs))
	fmt.Fprintf(w, "def mismatchGiveUpCond : List String := %s\n", leanStrList(giveUp))
	fmt.Fprintf(w, "/-- when the grouping loop opens a new block -/\ndef groupOpenCond : List String := %s\n\n", leanStrList(openCond))

	// 4. the driver: marker read retried, resume at marker+1, track before process, rewind before acknowledging
	fset, af, err = parseOne(repo, "sync/evmdriver.go")
	if err != nil {
		return err
	}
	markerLoop, downloadArgs := []string{}, []string{}
	if fd := findFunc(af, "EVMDriver", "Sync"); fd != nil {
		ast.Inspect(fd.Body, func(x ast.Node) bool {
			if fs, ok := x.(*ast.ForStmt); ok && fs.Cond == nil {
				calls := callOrder(fs.Body, set("GetLastProcessedBlock"))
				if len(calls) == 1 {
					// shape of the loop body: each top-level statement reduced to its kind (+ how an error block ends)
					for _, st := range fs.Body.List {
						switch s := st.(type) {
						case *ast.AssignStmt:
							markerLoop = append(markerLoop, "assign")
						case *ast.IfStmt:
							end := "falls-through"
							if n := len(s.Body.List); n > 0 {
								if b, ok := s.Body.List[n-1].(*ast.BranchStmt); ok {
									end = b.Tok.String()
								} else if _, ok := s.Body.List[n-1].(*ast.ReturnStmt); ok {
									end = "return"
								}
							}
							markerLoop = append(markerLoop, "if("+nodeStr(fset, s.Cond)+"):"+end)
						case *ast.BranchStmt:
							markerLoop = append(markerLoop, s.Tok.String())
						default:
							markerLoop = append(markerLoop, "other")
						}
					}
				}
			}
			if c, ok := x.(*ast.CallExpr); ok {
				if s, ok := c.Fun.(*ast.SelectorExpr); ok && s.Sel.Name == "Download" {
					for _, a := range c.Args {
						downloadArgs = append(downloadArgs, nodeStr(fset, a))
					}
				}
			}
			return true
		})
	}
	fmt.Fprintf(w, "/-- `EVMDriver.Sync`: shape of the loop that reads the last-processed marker -/\ndef markerReadLoop : List String := %s\n", leanStrList(markerLoop))
	fmt.Fprintf(w, "/-- … and the arguments of the Download call that follows -/\ndef downloadCallArgs : List String := %s\n", leanStrList(downloadArgs))
	var newBlockSteps, trackCond, reorgSteps []string
	if fd := findFunc(af, "EVMDriver", "handleNewBlock"); fd != nil {
		newBlockSteps = callOrder(fd, set("AddBlockToTrack", "ProcessBlock"))
		ast.Inspect(fd.Body, func(x ast.Node) bool {
			if is, ok := x.(*ast.IfStmt); ok && len(callOrder(is.Body, set("AddBlockToTrack"))) > 0 && len(trackCond) == 0 {
				trackCond = append(trackCond, nodeStr(fset, is.Cond))
			}
			return true
		})
	}
	if fd := findFunc(af, "EVMDriver", "handleReorg"); fd != nil {
		type hit struct {
			pos token.Pos
			s   string
		}
		var hits []hit
		ast.Inspect(fd.Body, func(x ast.Node) bool {
			switch n := x.(type) {
			case *ast.CallExpr:
				if s, ok := n.Fun.(*ast.SelectorExpr); ok && s.Sel.Name == "Reorg" {
					hits = append(hits, hit{n.Pos(), "Reorg"})
				}
				if id, ok := n.Fun.(*ast.Ident); ok && id.Name == "cancel" {
					hits = append(hits, hit{n.Pos(), "cancel"})
				}
			case *ast.SendStmt:
				hits = append(hits, hit{n.Pos(), "send:" + nodeStr(fset, n.Chan)})
			}
			return true
		})
		sort.Slice(hits, func(i, j int) bool { return hits[i].pos < hits[j].pos })
		for _, h := range hits {
			reorgSteps = append(reorgSteps, h.s)
		}
	}
	fmt.Fprintf(w, "/-- `handleNewBlock`: tracking and processing, in source order, and the condition under which a block is tracked -/\ndef newBlockSteps : List String := %s\ndef trackCond : List String := %s\n", leanStrList(newBlockSteps), leanStrList(trackCond))
	fmt.Fprintf(w, "/-- `handleReorg`: stop the downloader, rewind the store, acknowledge — in source order -/\ndef handleReorgSteps : List String := %s\n\n", leanStrList(reorgSteps))

	// the read path of the three stores: (1) a loop over `rows.Next()` whose function never asks `rows.Err()` (nor hands the
	// rows to meddler, which does) takes a read that failed half way for a complete answer; (2) the querier the range reads of
	// the bridge store run on (the "is the range processed" check and the range SELECT must see one snapshot)
	var noErrCheck []string
	for _, file := range []string{"bridgesync/processor.go", "l1infotreesync/processor.go", "l1infotreesync/processor_verifybatches.go",
		"lastgersync/processor.go", "aggsender/db/aggsender_db_storage.go"} {
		_, af, err := parseOne(repo, file)
		if err != nil {
			return err
		}
		for _, d := range af.Decls {
			fd, ok := d.(*ast.FuncDecl)
			if !ok || fd.Body == nil {
				continue
			}
			next, errc := false, false
			ast.Inspect(fd.Body, func(n ast.Node) bool {
				if c, ok := n.(*ast.CallExpr); ok {
					if sel, ok := c.Fun.(*ast.SelectorExpr); ok {
						switch sel.Sel.Name {
						case "Next":
							next = true
						case "Err":
							errc = true
						}
					}
				}
				return true
			})
			if next && !errc {
				noErrCheck = append(noErrCheck, file+":"+fd.Name.Name)
			}
		}
	}
	fmt.Fprintf(w, "/-- functions of the stores that iterate `rows.Next()` themselves and never ask `rows.Err()` -/\ndef rowLoopsWithoutErrCheck : List String := %s\n", leanStrList(noErrCheck))

	// an error assigned to one variable and a DIFFERENT variable tested right after it: `if a := f(); b != nil`, or
	// `xErr := f()` immediately followed by `if err != nil` (the failure of f is then never seen)
	var mism []string
	isErrName := func(n string) bool { return n == "err" || strings.HasSuffix(n, "Err") || strings.HasPrefix(n, "err") }
	testedNotNil := func(e ast.Expr) string {
		be, ok := e.(*ast.BinaryExpr)
		if !ok || be.Op != token.NEQ {
			return ""
		}
		if id, ok := be.Y.(*ast.Ident); !ok || id.Name != "nil" {
			return ""
		}
		if id, ok := be.X.(*ast.Ident); ok {
			return id.Name
		}
		return ""
	}
	lastErrDefined := func(as *ast.AssignStmt) string {
		if len(as.Rhs) != 1 {
			return ""
		}
		if _, ok := as.Rhs[0].(*ast.CallExpr); !ok {
			return ""
		}
		if id, ok := as.Lhs[len(as.Lhs)-1].(*ast.Ident); ok && isErrName(id.Name) {
			return id.Name
		}
		return ""
	}
	for _, file := range []string{"bridgesync/processor.go", "l1infotreesync/processor.go", "l1infotreesync/processor_verifybatches.go",
		"l1infotreesync/processor_initl1inforootmap.go", "lastgersync/processor.go", "tree/tree.go", "tree/appendonlytree.go", "tree/updatabletree.go",
		"aggsender/db/aggsender_db_storage.go", "db/tx.go"} {
		_, af, err := parseOne(repo, file)
		if err != nil {
			return err
		}
		for _, d := range af.Decls {
			fd, ok := d.(*ast.FuncDecl)
			if !ok || fd.Body == nil {
				continue
			}
			stmtLists(fd.Body, func(list []ast.Stmt) {
				for i, st := range list {
					if is, ok := st.(*ast.IfStmt); ok && is.Init != nil {
						if as, ok := is.Init.(*ast.AssignStmt); ok {
							if def, tested := lastErrDefined(as), testedNotNil(is.Cond); def != "" && tested != "" && isErrName(tested) && def != tested {
								mism = append(mism, fmt.Sprintf("%s:%s assigns %s, tests %s", file, fd.Name.Name, def, tested))
							}
						}
					}
					if as, ok := st.(*ast.AssignStmt); ok && i+1 < len(list) {
						if is, ok := list[i+1].(*ast.IfStmt); ok && is.Init == nil {
							if def, tested := lastErrDefined(as), testedNotNil(is.Cond); def != "" && tested != "" && isErrName(tested) && def != tested {
								mism = append(mism, fmt.Sprintf("%s:%s assigns %s, tests %s", file, fd.Name.Name, def, tested))
							}
						}
					}
				}
			})
		}
	}
	fmt.Fprintf(w, "/-- the stores: an error assigned to one variable while another one is tested right after it -/\ndef errVarMismatch : List String := %s\n", leanStrList(mism))
	var rangeQ []string
	{
		fset, af, err := parseOne(repo, "bridgesync/processor.go")
		if err != nil {
			return err
		}
		for _, d := range af.Decls {
			fd, ok := d.(*ast.FuncDecl)
			if !ok || fd.Body == nil {
				continue
			}
			ast.Inspect(fd.Body, func(n ast.Node) bool {
				if c, ok := n.(*ast.CallExpr); ok {
					if sel, ok := c.Fun.(*ast.SelectorExpr); ok && sel.Sel.Name == "queryBlockRange" && len(c.Args) > 0 {
						rangeQ = append(rangeQ, fd.Name.Name+":"+nodeStr(fset, c.Args[0]))
					}
				}
				return true
			})
		}
	}
	fmt.Fprintf(w, "/-- bridge store: what each `queryBlockRange` call reads through -/\ndef rangeQueryQuerier : List String := %s\n\n", leanStrList(rangeQ))
	return nil
}
