package main

import (
	"fmt"
	"os"
	"path/filepath"
	"regexp"
	"sort"
	"strings"
)

// schemaFacts: which tables reference block(num) with ON DELETE CASCADE (from the *.sql migrations of the three
// stores, "Up" sections only), and whether the SQLite DSN in db/sqlite.go switches foreign keys on for EVERY
// connection (DSN parameter, not a per-connection PRAGMA).
func schemaFacts(repo string, w *strings.Builder) error {
	w.WriteString("structure ChildTable where\n  store : String\n  table : String\n  cascade : Bool\n  deriving Repr, DecidableEq\n\n")
	w.WriteString("def childTables : List ChildTable := [\n")
	createRe := regexp.MustCompile(`(?is)CREATE\s+TABLE\s+(?:IF\s+NOT\s+EXISTS\s+)?([a-zA-Z0-9_/*]+)\s*\((.*?)\)\s*;`)
	for _, store := range []string{"bridgesync", "l1infotreesync", "lastgersync"} {
		files, _ := filepath.Glob(filepath.Join(repo, store, "migrations", "*.sql"))
		sort.Strings(files)
		seen := map[string]bool{}
		for _, f := range files {
			b, err := os.ReadFile(f)
			if err != nil {
				return err
			}
			src := string(b)
			if i := strings.Index(src, "+migrate Up"); i >= 0 {
				src = src[i:]
				if j := strings.Index(src, "+migrate Down"); j >= 0 {
					src = src[:j]
				}
			}
			for _, m := range createRe.FindAllStringSubmatch(src, -1) {
				name, body := m[1], m[2]
				if name == "block" || seen[name] {
					continue
				}
				seen[name] = true
				hasBlockNum := regexp.MustCompile(`(?i)\bblock_num\b`).MatchString(body)
				if !hasBlockNum {
					continue
				}
				casc := regexp.MustCompile(`(?is)block_num[^,]*REFERENCES\s+block\s*\(\s*num\s*\)\s*ON\s+DELETE\s+CASCADE`).MatchString(body)
				fmt.Fprintf(w, "  { store := %q, table := %q, cascade := %v },\n", store, name, casc)
			}
		}
	}
	w.WriteString("  { store := \"\", table := \"\", cascade := true } ]\n\n")
	b, err := os.ReadFile(filepath.Join(repo, "db/sqlite.go"))
	if err != nil {
		return err
	}
	dsn := regexp.MustCompile(`sql\.Open\("sqlite3",\s*fmt\.Sprintf\("([^"]*)"`).FindStringSubmatch(string(b))
	on := len(dsn) == 2 && strings.Contains(dsn[1], "_foreign_keys=on")
	fmt.Fprintf(w, "/-- db.NewSQLiteDB opens every pooled connection with `_foreign_keys=on` in the DSN -/\ndef dsnForeignKeysOn : Bool := %v\n\n", on)
	return nil
}
