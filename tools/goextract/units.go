package main

var units = map[string]unit{
	"BlockRange": {
		Files:     []string{"aggsender/types/block_range.go"},
		Namespace: "Aggkit.Gen.BlockRange",
		Imports:   []string{"AggkitModel.Model.GenPrelude"},
		Fns:       []fnSpec{{"", "getBlockMinusOne"}, {"BlockRange", "CountBlocks"}, {"BlockRange", "IsEmpty"}, {"BlockRange", "Gap"}},
	},
	"Limiter": {
		Files:     []string{"aggsender/flows/max_l2blocknumber_limiter.go"},
		Namespace: "Aggkit.Gen.Limiter",
		Imports:   []string{"AggkitModel.Model.GenPrelude"},
		Fns:       []fnSpec{{"MaxL2BlockNumberLimiter", "IsEnabled"}, {"MaxL2BlockNumberLimiter", "IsAllowedBlockNumber"}, {"MaxL2BlockNumberLimiter", "isUpcomingNextRange"}},
	},
	"EpochFns": {
		Files:     []string{"aggsender/epoch_notifier_per_block.go"},
		Namespace: "Aggkit.Gen.EpochFns",
		Imports:   []string{"AggkitModel.Model.GenPrelude"},
		Fns:       []fnSpec{{"EpochNotifierPerBlock", "startingBlockEpoch"}, {"EpochNotifierPerBlock", "endBlockEpoch"}, {"EpochNotifierPerBlock", "epochNumber"}},
	},
	"QueryTable": {
		Files:     []string{"bridgesync/bridgesync.go", "l1infotreesync/l1infotreesync.go", "bridgesync/processor.go", "l1infotreesync/processor.go"},
		Namespace: "Aggkit.Gen.QueryTable",
		Imports:   []string{"AggkitModel.Model.GenPrelude"},
		Custom:    queryTable,
	},
	"CertFacts": {
		Files: []string{"agglayer/types/types.go", "aggsender/types/certificate_metadata.go", "reorgdetector/reorgdetector.go",
			"aggsender/aggsender.go", "aggsender/flows/flow_base.go", "bridgeservice/bridge.go", "aggsender/flows/factory.go"},
		Namespace: "Aggkit.Gen.CertFacts",
		Imports:   []string{"AggkitModel.Model.GenPrelude"},
		Custom:    certFacts,
	},
	"SyncFacts": {
		Files: []string{"sync/evmdownloader.go", "sync/evmdriver.go", "bridgesync/processor.go", "l1infotreesync/processor.go",
			"l1infotreesync/processor_verifybatches.go", "l1infotreesync/processor_initl1inforootmap.go", "lastgersync/processor.go",
			"tree/tree.go", "tree/appendonlytree.go", "tree/updatabletree.go", "db/tx.go"},
		Namespace: "Aggkit.Gen.SyncFacts",
		Imports:   []string{"AggkitModel.Model.GenPrelude"},
		Custom:    syncFacts,
	},
	"InitialStatus": {
		Files:     []string{"aggsender/statuschecker/initial_state.go", "agglayer/types/types.go"},
		Namespace: "Aggkit.Gen.InitialStatus",
		Imports:   []string{"AggkitModel.Model.GenPrelude"},
		Custom:    initialStatusUnit,
	},
	"FlowBase": {
		Files:     []string{"aggsender/flows/flow_base.go", "agglayer/types/types.go"},
		Namespace: "Aggkit.Gen.FlowBase",
		Imports:   []string{"AggkitModel.Model.GenPrelude"},
		Custom:    flowBaseUnit,
	},
	"NextHeight": {
		Files:     []string{"aggsender/flows/flow_base.go", "agglayer/types/types.go"},
		Namespace: "Aggkit.Gen.NextHeight",
		Imports:   []string{"AggkitModel.Model.GenPrelude"},
		Custom:    nextHeightUnit,
	},
	"Schema": {
		Files:     []string{"*/migrations/*.sql", "db/sqlite.go"},
		Namespace: "Aggkit.Gen.Schema",
		Imports:   []string{"AggkitModel.Model.GenPrelude"},
		Custom:    schemaFacts,
	},
}
