module goextract

go 1.23
