package main

import (
	"fmt"
	"go/ast"
	"go/parser"
	"go/token"
	"path/filepath"
	"sort"
	"strings"
)

// certFacts: source-level facts that the hand models of the certificate protocol, the reorg detector and the bridge API
// assume; each is compared with a hand-written expectation by a theorem (`decide`/`rfl`) in the property files, so a change
// of the code at these points breaks a proof obligation even before the correspondence runs.

func parseOne(repo, file string) (*token.FileSet, *ast.File, error) {
	fset := token.NewFileSet()
	af, err := parser.ParseFile(fset, filepath.Join(repo, file), nil, 0)
	return fset, af, err
}

func findFunc(af *ast.File, recv, name string) *ast.FuncDecl {
	for _, d := range af.Decls {
		if fd, ok := d.(*ast.FuncDecl); ok && fd.Name.Name == name && (recv == "*" || recvName(fd) == recv) {
			return fd
		}
	}
	return nil
}

// names of the calls (selector or plain) among `want`, in source order, inside node
func callOrder(n ast.Node, want map[string]bool) []string {
	type hit struct {
		pos  token.Pos
		name string
	}
	var hits []hit
	ast.Inspect(n, func(x ast.Node) bool {
		c, ok := x.(*ast.CallExpr)
		if !ok {
			return true
		}
		name := ""
		switch f := c.Fun.(type) {
		case *ast.SelectorExpr:
			name = f.Sel.Name
		case *ast.Ident:
			name = f.Name
		}
		if want[name] {
			hits = append(hits, hit{c.Pos(), name})
		}
		return true
	})
	sort.Slice(hits, func(i, j int) bool { return hits[i].pos < hits[j].pos })
	out := make([]string, len(hits))
	for i, h := range hits {
		out[i] = h.name
	}
	return out
}

func leanStrList(xs []string) string {
	q := make([]string, len(xs))
	for i, x := range xs {
		q[i] = fmt.Sprintf("%q", x)
	}
	return "[" + strings.Join(q, ", ") + "]"
}

func set(xs ...string) map[string]bool {
	m := map[string]bool{}
	for _, x := range xs {
		m[x] = true
	}
	return m
}

func certFacts(repo string, w *strings.Builder) error {
	// 1. certificate statuses: declaration order (iota) and the two status classes
	_, af, err := parseOne(repo, "agglayer/types/types.go")
	if err != nil {
		return err
	}
	var order []string
	classes := map[string][]string{}
	for _, d := range af.Decls {
		gd, ok := d.(*ast.GenDecl)
		if !ok {
			continue
		}
		if gd.Tok == token.CONST && len(order) == 0 {
			collecting := false
			for _, sp := range gd.Specs {
				vs := sp.(*ast.ValueSpec)
				if !collecting {
					if id, ok := vs.Type.(*ast.Ident); ok && id.Name == "CertificateStatus" && len(vs.Names) == 1 {
						order = append(order, vs.Names[0].Name)
						collecting = true
					}
					continue
				}
				if vs.Type == nil && len(vs.Values) == 0 && len(vs.Names) == 1 {
					order = append(order, vs.Names[0].Name)
				} else {
					break
				}
			}
		}
		if gd.Tok != token.VAR {
			continue
		}
		for _, sp := range gd.Specs {
			vs, ok := sp.(*ast.ValueSpec)
			if !ok {
				continue
			}
			for i, n := range vs.Names {
				if (n.Name == "NonSettledStatuses" || n.Name == "ClosedStatuses") && i < len(vs.Values) {
					if cl, ok := vs.Values[i].(*ast.CompositeLit); ok {
						for _, e := range cl.Elts {
							if id, ok := e.(*ast.Ident); ok {
								classes[n.Name] = append(classes[n.Name], id.Name)
							}
						}
					}
				}
			}
		}
	}
	fmt.Fprintf(w, "/-- `CertificateStatus` constants in declaration (iota) order -/\ndef statusOrder : List String := %s\n", leanStrList(order))
	fmt.Fprintf(w, "/-- `NonSettledStatuses` (what `IsOpen` tests and what the status checker polls) -/\ndef nonSettledStatuses : List String := %s\n", leanStrList(classes["NonSettledStatuses"]))
	fmt.Fprintf(w, "def closedStatuses : List String := %s\n\n", leanStrList(classes["ClosedStatuses"]))

	// 2. metadata layout: the slice bounds used by the decoder and the encoder
	_, af, err = parseOne(repo, "aggsender/types/certificate_metadata.go")
	if err != nil {
		return err
	}
	bounds := func(fn string) []string {
		fd := findFunc(af, "*", fn)
		var out []string
		if fd == nil {
			return out
		}
		type hit struct {
			pos token.Pos
			s   string
		}
		var hits []hit
		ast.Inspect(fd, func(x ast.Node) bool {
			switch e := x.(type) {
			case *ast.SliceExpr:
				lo, hi := "", ""
				if l, ok := e.Low.(*ast.BasicLit); ok {
					lo = l.Value
				}
				if h, ok := e.High.(*ast.BasicLit); ok {
					hi = h.Value
				}
				hits = append(hits, hit{e.Pos(), lo + ":" + hi})
			case *ast.IndexExpr:
				if l, ok := e.Index.(*ast.BasicLit); ok {
					hits = append(hits, hit{e.Pos(), l.Value})
				}
			}
			return true
		})
		sort.Slice(hits, func(i, j int) bool { return hits[i].pos < hits[j].pos })
		for _, h := range hits {
			out = append(out, h.s)
		}
		return out
	}
	fmt.Fprintf(w, "/-- byte ranges / indexes read by `NewCertificateMetadataFromHash`, in source order -/\ndef metaDecodeLayout : List String := %s\n", leanStrList(bounds("NewCertificateMetadataFromHash")))
	fmt.Fprintf(w, "/-- byte ranges / indexes written by `CertificateMetadata.ToHash`, in source order -/\ndef metaEncodeLayout : List String := %s\n\n", leanStrList(bounds("ToHash")))

	// 3. the reorg detector's order of steps after a hash mismatch
	_, af, err = parseOne(repo, "reorgdetector/reorgdetector.go")
	if err != nil {
		return err
	}
	if fd := findFunc(af, "ReorgDetector", "detectReorgInTrackedList"); fd != nil {
		// only the calls after the `event := ReorgEvent{…}` literal (the mismatch branch)
		var from token.Pos
		ast.Inspect(fd, func(x ast.Node) bool {
			if cl, ok := x.(*ast.CompositeLit); ok {
				if id, ok := cl.Type.(*ast.Ident); ok && id.Name == "ReorgEvent" {
					from = cl.Pos()
				}
			}
			return true
		})
		var seq []string
		type hit struct {
			pos  token.Pos
			name string
		}
		var hits []hit
		want := set("insertReorgEvent", "notifySubscriber", "removeTrackedBlockRange", "removeRange")
		ast.Inspect(fd, func(x ast.Node) bool {
			if c, ok := x.(*ast.CallExpr); ok && c.Pos() > from {
				if s, ok := c.Fun.(*ast.SelectorExpr); ok && want[s.Sel.Name] {
					hits = append(hits, hit{c.Pos(), s.Sel.Name})
				}
			}
			return true
		})
		sort.Slice(hits, func(i, j int) bool { return hits[i].pos < hits[j].pos })
		for _, h := range hits {
			seq = append(seq, h.name)
		}
		fmt.Fprintf(w, "/-- `detectReorgInTrackedList`, mismatch branch: order of the steps -/\ndef reorgSteps : List String := %s\n\n", leanStrList(seq))
	} else {
		w.WriteString("def reorgSteps : List String := []\n\n")
	}

	// 4. sendCertificate: order of the externally visible steps, and the fields of the stored header
	_, af, err = parseOne(repo, "aggsender/aggsender.go")
	if err != nil {
		return err
	}
	if fd := findFunc(af, "AggSender", "sendCertificate"); fd != nil {
		seq := callOrder(fd, set("GetCertificateBuildParams", "BuildCertificate", "SendCertificate", "saveNonAcceptedCert", "saveCertificateToStorage"))
		fmt.Fprintf(w, "/-- `sendCertificate`: order of build / submit / record -/\ndef sendSteps : List String := %s\n", leanStrList(seq))
		var fields []string
		ast.Inspect(fd, func(x ast.Node) bool {
			if cl, ok := x.(*ast.CompositeLit); ok {
				if s, ok := cl.Type.(*ast.SelectorExpr); ok && s.Sel.Name == "CertificateHeader" {
					for _, e := range cl.Elts {
						if kv, ok := e.(*ast.KeyValueExpr); ok {
							if k, ok := kv.Key.(*ast.Ident); ok {
								val := ""
								switch v := kv.Value.(type) {
								case *ast.SelectorExpr:
									if x, ok := v.X.(*ast.Ident); ok {
										val = x.Name + "." + v.Sel.Name
									}
								case *ast.Ident:
									val = v.Name
								case *ast.UnaryExpr:
									if id, ok := v.X.(*ast.Ident); ok {
										val = "&" + id.Name
									} else if s, ok := v.X.(*ast.SelectorExpr); ok {
										if x, ok := s.X.(*ast.Ident); ok {
											val = "&" + x.Name + "." + s.Sel.Name
										}
									}
								}
								fields = append(fields, k.Name+"="+val)
							}
						}
					}
				}
			}
			return true
		})
		sort.Strings(fields)
		fmt.Fprintf(w, "/-- the header recorded after a submission: field = source expression (sorted) -/\ndef storedHeaderFields : List String := %s\n\n", leanStrList(fields))
	}
	if fd := findFunc(af, "AggSender", "sendCertificates"); fd != nil {
		seq := callOrder(fd, set("CheckPendingCertificatesStatus", "sendCertificate"))
		fmt.Fprintf(w, "/-- the send loop: both arms poll the pending certificates before they may send -/\ndef loopSteps : List String := %s\n\n", leanStrList(seq))
	}

	// 5. constants
	_, af, err = parseOne(repo, "aggsender/flows/flow_base.go")
	if err != nil {
		return err
	}
	empty := ""
	ast.Inspect(af, func(x ast.Node) bool {
		if vs, ok := x.(*ast.ValueSpec); ok && len(vs.Names) == 1 && vs.Names[0].Name == "emptyLER" && len(vs.Values) == 1 {
			if c, ok := vs.Values[0].(*ast.CallExpr); ok && len(c.Args) == 1 {
				if l, ok := c.Args[0].(*ast.BasicLit); ok {
					empty = strings.Trim(l.Value, "\"")
				}
			}
		}
		return true
	})
	fmt.Fprintf(w, "/-- `emptyLER`: the exit root used when the rollup manager reports none -/\ndef emptyLER : String := %q\n", empty)
	_, af, err = parseOne(repo, "bridgeservice/bridge.go")
	if err != nil {
		return err
	}
	div := ""
	ast.Inspect(af, func(x ast.Node) bool {
		if vs, ok := x.(*ast.ValueSpec); ok && len(vs.Names) == 1 && vs.Names[0].Name == "binarySearchDivider" && len(vs.Values) == 1 {
			if l, ok := vs.Values[0].(*ast.BasicLit); ok {
				div = l.Value
			}
		}
		return true
	})
	fmt.Fprintf(w, "/-- `binarySearchDivider` of the bridge service's block searches -/\ndef binarySearchDivider : String := %q\n\n", div)
	// 6. which configured key each flow's certificate signer is built from (aggsender/flows/factory.go NewFlow)
	fset, af, err := parseOne(repo, "aggsender/flows/factory.go")
	if err != nil {
		return err
	}
	var keys []string
	if fd := findFunc(af, "", "NewFlow"); fd != nil {
		type hit struct {
			pos token.Pos
			s   string
		}
		var hits []hit
		ast.Inspect(fd, func(x ast.Node) bool {
			if c, ok := x.(*ast.CallExpr); ok {
				if id, ok := c.Fun.(*ast.Ident); ok && id.Name == "initializeSigner" && len(c.Args) >= 2 {
					hits = append(hits, hit{c.Pos(), nodeStr(fset, c.Args[1])})
				}
			}
			return true
		})
		sort.Slice(hits, func(i, j int) bool { return hits[i].pos < hits[j].pos })
		for _, h := range hits {
			keys = append(keys, h.s)
		}
	}
	fmt.Fprintf(w, "/-- `NewFlow`: the signer configuration handed to `initializeSigner`, per flow in source order -/\ndef flowSignerConfigs : List String := %s\n\n", leanStrList(keys))
	return nil
}
