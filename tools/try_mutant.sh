#!/bin/sh
# usage: tools/try_mutant.sh <patch.diff> <Cxx> [tier]   — applies a seeded change to /repo, runs the check, undoes it
P="$1"; ID="$2"; TIER="${3:-quick}"
git -C /repo apply "$P" || { echo "patch does not apply"; exit 9; }
cp /verif/evidence/$ID.json /verif/.build/evidence_backup_$ID.json 2>/dev/null
cd /verif && ./check "$ID" --tier "$TIER"; RC=$?
git -C /repo checkout -- .
cp /verif/.build/evidence_backup_$ID.json /verif/evidence/$ID.json 2>/dev/null
echo "mutant-exit=$RC"
for g in $(cat /verif/tools/goextract/GENERATED.list); do /verif/.build/goextract $g /repo /verif/lean/AggkitModel/Generated/$g.lean; done
# rebuild the harness from the restored tree so that no binary built from the mutant is left behind
(cd /verif/harness && GOFLAGS=-mod=mod GOPROXY=off go build -tags verif -o /verif/.build/harness . >/dev/null 2>&1)
