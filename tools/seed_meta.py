#!/usr/bin/env python3
"""writes /verif/seeded/<id>/meta.json for the confirmed seeded changes (table maintained by hand below)"""
import json, os
S = "/verif/seeded"
T = {
 # id: (property, needs, checks that catch it (what fires) | None if missed)
 "C18a": ("C18", "block sequence that skips the notification window of a whole epoch, then >=2 qualifying blocks in a later epoch", "C18: monitor 'spurious notification' (+ correspondence)"),
 "C18b": ("C18", "epoch length N in {3,7,19,27,63} with a percentage above (N-1)/N (float rounding one ulp)", "C18: monitor 'missing notification' (exhaustive small N x all P)"),
 "C19a": ("C19", "non-mainnet global index with rollup index >= 2^31", "C19: monitor 'roundtrip' at the boundary value 2^31"),
 "C19b": ("C19", "certificate with >=2 differing imported bridge exits (aliased chunk buffer in FEPHashToSign)", "C19 and C10: certcodec correspondence (FEP commitment byte for byte) + monitor 'the FEP commitment differs from the reference' + perturbation monitors"),
 "C17a": ("C17", "a prefix whose estimated size equals the limit exactly", "C17: monitor 'stopped although the prefix fits' (limits drawn at exact prefix sizes)"),
 "C17b": ("C17", "argument range ending at 2^64-1 and receiver starting at block >= 2", "C17: proof obligation on the regenerated Gap breaks + monitor 'gap reported between touching/overlapping ranges'"),
 "C20a": ("C20", "two claims in one transaction whose global indexes differ only above bit 63", "C20: monitor (field-by-field) with 2^64+k vs k indexes"),
 "C20b": ("C20", "a claim call that returns normally under a reverted non-bridge wrapper", "C20: monitor 'not those of a non-reverted bridge call'"),
 "C08a": ("C08", "a leaf whose lowest node already exists (same leaf value at two positions / re-added after a reorg)", "C08: monitor 'proof/leaf lookup failed' (duplicate-leaf generator)"),
 "C08b": ("C08", "a storage error on a single node read inside UpsertLeaf", "C08: monitor 'UpsertLeaf swallowed a storage error' (statement-level fault wrapper)"),
 "C01a": ("C01", "restart or cache rebuild with exactly 2^k leaves, then one more deposit", "C01: monitor vs the contract algorithm (fabricated pre-states at every 2^k)"),
 "C01b": ("C01", "deposit amount >= 2^255", "C01: bridgestore monitor (independent getLeafValue + contract algorithm), amounts 2^255 and 2^256-1"),
 "C14a": ("C14", "halted syncer + a reorg whose transaction fails after the block delete", "C14: monitor 'a reorg that failed and removed nothing cleared the halted condition' (reorg faults)"),
 "C14b": ("C14", "halt on an announced-root mismatch in the L1 info tree syncer, then event-less blocks", "C14: l1infostore monitor 'a halted L1 info syncer accepted a block'"),
 "C16a": ("C16", "several L1 leaves between two oracle rounds, only the latest injected (FEP downloader)", "C16: gersync FEP worlds, monitor 'finds nothing although an injected GER … existed at the last poll'"),
 "C16b": ("C16", "L2 insertion read before the node's own L1 syncer indexed the leaf (PP downloader)", "C16: gersync monitor (insertions whose L1 leaf lookup fails 1-3 times first)"),
 "C11a": ("C11", ">=3 info updates in a block whose first index is odd, fault after them, retry without restart", "C11: l1infostore monitor vs the GER-contract reference (blocks with 3-5 updates + wrong V2 announcement => rollback, re-processing in the same process)"),
 "C11b": ("C11", "a recurring rollup exit-root value", "C11: l1infostore monitor (leaf / proof under every recorded rollup exit root; exit roots drawn from a small pool)"),
 "C07a": ("C07", "block with >=2 leaves, first index odd, fault inside the second AddLeaf's store statements, retry in the same process", "C07: bridgestore twin comparison after fault+retry (SQL-trigger faults at every write statement)"),
 "C07b": ("C07", "read fault on UpsertLeaf's last-root SELECT in the L1 info store", "C07: tree scenario monitor 'UpsertLeaf swallowed a storage error at statement 0' (statement-level faults incl. reads, phase boundaries favoured)"),
 "C04a": ("C04", "another query in flight on the same pool when Reorg starts (foreign keys only on the first connection)", "C04: regenerated Schema fact dsnForeignKeysOn breaks C04_schema_cascades + twin comparison after a reorg with a read in flight"),
 "C04b": ("C04", "storage fault on the DELETE FROM root of the reorg transaction", "C04: twin comparison after a reorg attempt with a storage fault"),
 "C15a": ("C15", "transient L2 read failure on a tick where the latest finalized GER is already on L2", "C15: oracle monitor 'injected although the L2 contract already has it' (each dependency fails 6% of ticks)"),
 "C15b": ("C15", "syncer strictly ahead of the sampled finalized block with an info update in between", "C15: oracle monitor 'not the most recent root at or below any finalized block sampled' (real l1infotreesync processor behind the oracle)"),
 "C05a": ("C05", "a range past the finalized pointer holding >=2 event blocks", "C05: downloader monitor 'handed over after … / twice' (+ correspondence)"),
 "C05b": ("C05", "eth_getLogs failing with a wrapped DeadlineExceeded on a range with watched logs", "C05: downloader monitor 'handed over with events [] …' (scripted transient eth_getLogs failures incl. request timeouts)"),
 "C02a": ("C02", "KeepCertificatesHistory, an InError certificate, its replacement InError again, a third submission (history key collides; the save fails after the submission)", "C02: aggsender monitor 'submitted while certificate … is still undecided' (+ correspondence: stored retry count)"),
 "C02b": ("C02", "an InError certificate, its replacement, InError again, next replacement", "C02: aggsender monitor 'starts from exit root …, expected …' (+ C03 root monitor, correspondence on the stored previous root)"),
 "C03a": ("C03", "a native-token bridge (zero origin address on network 0) with non-empty metadata", "C03: aggsender monitor 'bridge exit … differs from the bridge event: metadata hash' + root monitor"),
 "C03b": ("C03", "Agglayer headers without previous exit root; a certificate at height >= 1 rebuilt from a header at start-up, then InError, then replaced", "C03: aggsender monitor 'appending its exits to the tree of its previous exit root does not give its new exit root' (directed prelude in header-without-prev worlds) + correspondence"),
 "C10a": ("C10", "FEP commitment of a certificate with >= 2 differing imported exits", "C10: certcodec correspondence + monitors 'FEP commitment differs from the reference' / 'changing the imported exit[0] … does not change the FEP commitment'"),
 "C10b": ("C10", "an exit with empty metadata on the wire", "C10: certcodec monitors 'wire exit differs from the bridge event: metadata (expected none)' and 'exit leaf recomputed from the wire message differs'; aggsender wire monitors"),
 "C13a": ("C13", "a certificate rebuilt from the Agglayer header at start-up (crash between submit and store, or lost database), then the next certificate", "C13: aggsender monitor 'certificate … starts at block …, expected …' on the first certificate after a restart + correspondence on the rebuilt row"),
 "C13b": ("C13", "a statement fault on the INSERT of SaveLastSentCertificate when a row of that height exists", "C13: aggsender monitor 'a failed SaveLastSentCertificate changed the stored records' (SQL-trigger faults on each statement of the save)"),
 "C06a": ("C06", ">= 2 subscribers whose tracked block numbers interleave, and a restart (tracked headers regrouped wrongly at reload)", "C06: reorgsync correspondence on the tracked lists after restart + monitor 'rewound to block …, the first replaced block it had processed is …'"),
 "C06b": ("C06", "the node is stopped while a syncer is rewinding (rewind not committed), then restarted", "C06: reorgsync op `detect!` (stop during the rewind, restart): correspondence on the tracked lists + monitors 'did not rewind' / convergence at the end of the world"),
 "C09a": ("C09", "an older finalized L1 block whose last info update has a higher log position than the newest finalized leaf, and a claim against a leaf newer than the one picked", "C09: aggsender monitor 'L1 info leaf index … is not below the certificate's leaf count' / proof does not verify (several leaves per L1 block with increasing positions)"),
 "C09b": ("C09", "a rollup-origin claim with leaf index >= 2", "C09: aggsender monitor 'the exit leaf does not hash with proof_leaf_ler to the stated local exit root' + claimdata correspondence; also C08 (tree scenario uses tree.CalculateRoot)"),
 "C12a": ("C12", "a mainnet deposit newer than the first info leaf (the search then keeps the non-covering first leaf as its answer)", "C12: bridgeapi monitor '/l1-info-tree-index returned leaf … but that leaf's mainnet exit root covers only …' + correspondence with the modelled binary search"),
 "C12b": ("C12", "a repeated bridge (same leaf hash) on an even deposit count whose exit root is named by an info leaf", "C12: bridgeapi monitor '/claim-proof: deposit does not hash with the returned proof to the exit root' (30% of bridges repeat an earlier one); also C08 (duplicate-leaf generator)"),
 "C02r2a": ("C02", "two cooperating sites (IsOpen treats Candidate as closed + the 'unknown status' guard removed): a status poll while the certificate is Candidate, then new L2 blocks and an epoch tick", "C02: aggsender monitors 'submitted while … undecided' / settled chain (+ correspondence)"),
 "C02r2b": ("C02", "two cooperating sites: the very first certificate (first block 1) goes InError and a new L2 block arrives before the retry", "C02: aggsender monitor 'starts at block …, expected …' (+ correspondence)"),
 "C03r2a": ("C03", "a statement fault exactly on the bridge-row insert of the L2 bridge processor (error swallowed, block commits without the row)", "C03: aggsender op `l2blk!` (one-shot fault on the bridge insert, then retry): monitor 'carries n exits, the blocks hold m'; also C07 (bridgestore twin comparison, fault index biased to row inserts, one-shot FAIL trigger)"),
 "C03r2b": ("C03", ">= 2 earlier deposits, then a block range with claims but no bridge", "C03: aggsender root monitor 'appending its 0 exits … does not give its new exit root'"),
 "C06r2a": ("C06", "the node is stopped (context cancelled) while a reorg notification is pending, then restarted", "C06: reorgsync op `detect!` now runs the pass under the node's context and cancels it at the stop: monitors 'rewound to block …' / convergence"),
 "C06r2b": ("C06", "restart with tracked blocks on disk, then Subscribe by the new driver", "C06: reorgsync monitor 'processed block … which the chain has replaced, a detection pass did not rewind it' + tracked lists after restart"),
 "C09r2a": ("C09", "two certificates in one process with claims against the same global exit root, the finalized L1 info root advancing in between", "C09: aggsender monitor 'the L1 info leaf does not hash with its proof to the L1 info root the certificate names'"),
 "C09r2b": ("C09", "one transaction with two claims whose global indexes differ only in bit 64 (calldata matching)", "C20 (claimtrace scenario: global indexes differing above bit 63); not reachable in the C09 scenario, which feeds claims to the processor directly"),
 "C10r2a": ("C10", "a Message-type exit read back from the stored JSON copy", "C10: aggsender monitor 'the stored copy does not reproduce the submitted message'"),
 "C10r2b": ("C10", "a rollup-origin imported exit whose two calldata proofs differ", "C10/C09: aggsender monitor 'proof_ler_rer on the wire is not the claim's rollup-exit-root proof' + claimdata correspondence"),
 "C12r2a": ("C12", ">= 2 verifications in different L1 blocks and a search ending on a non-covering probe", "C12: bridgeapi monitor '/l1-info-tree-index returned leaf … covers only …' + correspondence with the modelled search"),
 "C12r2b": ("C12", "another rollup verified before the L1 info leaf used for the claim", "C12: bridgeapi monitor '/claim-proof: the local exit root does not hash with the returned rollup proof'"),
 "C13r2a": ("C13", "a Settled local record whose certificate the Agglayer does not know, Agglayer's latest at the same height", "C13: aggsender op `forge` + monitor 'start-up proceeded although the node's last record … is unknown to the Agglayer' (+ correspondence: model refuses)"),
 "C13r2b": ("C13", "history table on; InError certificate, replacement submitted but not recorded, restart, replacement InError again, next replacement", "C13/C02: directed prelude + monitor 'certificate … was submitted but the node's records do not end with it' (+ correspondence on the retry count)"),
}
for d in sorted(os.listdir(S)):
    p = os.path.join(S, d)
    if not os.path.isdir(p) or d not in T:
        continue
    prop, needs, caught = T[d]
    meta = {"id": d, "property": prop, "needs_to_manifest": needs,
            "confirmed": "compiles; listed package tests pass with the change; demo_test.go fails with it and passes without (tools/verify_seed.sh in a scratch worktree)",
            "how_to_run": f"git -C /repo apply /verif/seeded/{d}/patch.diff && ./check {prop}; git -C /repo checkout -- .",
            "detected_by": caught if caught else "NOT YET (the check for this property / store is not built or does not reach it)"}
    json.dump(meta, open(os.path.join(p, "meta.json"), "w"), indent=1)
print("ok", len([d for d in os.listdir(S) if os.path.isdir(os.path.join(S,d))]))
