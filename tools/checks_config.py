# per-property configuration of ./check (which Lean modules hold the property theorems, which
# harness scenarios tie the model to the code, what is regenerated from source)
COMMON_TB = []

CHECKS = {
    "C19": dict(
        modules=["AggkitModel.Properties.C19"],
        scenarios=[dict(name="globalindex"), dict(name="certcodec")],
        generated=[],
        leanchecker=True,
        level_text="Proved for all inputs in Lean 4 (no bound): C19_layout (contract bit layout), C19_roundtrip (all uint32 pairs, both flags), "
                   "decode_spec (DecodeGlobalIndex characterised for EVERY integer, never panics), C19_canonical and C19_consumers (every canonical "
                   "on-chain value is carried unchanged by the certificate field, commitment input, FEP chunk, wire and prover messages). "
                   "The model is hand-written; it is tied to the Go code by running the real functions (incl. grpc/prover conversions through verif hooks) "
                   "and the compiled Lean model on the same generated inputs and comparing all outputs byte for byte.",
        level_note="Trusted: Lean kernel; the digit-list model of math/big byte conversions; the correspondence run (generator-bounded); protobuf marshalling below the field value.",
        rule="boundary set^2 x flag exhaustively + seeded random (m,r,l) triples and canonical on-chain values; "
             "each case = enc + dec + all four consumers on the real functions; non-trivial/distinct = distinct (m,r,l) enc lines; "
             "separate malformed stream (non-canonical widths up to 12 bytes)",
        assumptions=["keccak of the LE buffer is compared byte-for-byte (driver Keccak validated against go-ethereum)",
                     "gRPC/protobuf marshalling below the FixedBytes32 value is trusted"],
        trusted_base=["model of big.Int.Bytes/FillBytes/SetBytes as base-256 digit lists (Model/Bytes.lean)"],
    ),
    "C18": dict(
        modules=["AggkitModel.Properties.C18"],
        scenarios=[dict(name="epoch")],
        generated=[],
        leanchecker=True,
        level_text="Proved in Lean 4 for every configuration (S, N, P) and every strictly increasing block sequence at or after S, of any length and with "
                   "arbitrary gaps: C18_exact (the notifier's counter-based run equals the set-based specification 'announce an epoch at its first block at/after "
                   "the threshold, never again'), C18_exactly_once (no epoch twice; every notification is at a qualifying block with that block's epoch; every "
                   "qualifying block's epoch is announced), C18_increasing (announced epochs strictly increase). The exact integer threshold test of the model is "
                   "tied to the Go float64 code by driving the real EpochNotifierPerBlock goroutine (fake block notifier, recording subscriber) and the Lean model on the same sequences: "
                   "exhaustively for small N/S and all subsets of a window, randomly for N up to 2^44.",
        level_note="Trusted: Lean kernel; equivalence of the float64 threshold comparison with the exact rational one (argued for N < 2^45, sampled by the correspondence run, not proved); "
                   "uint64 wrap-around near 2^64 is outside the model; goroutine/channel plumbing of startInternal is exercised, not modelled.",
        rule="all subsets of a 7..10 block window from S (S itself included) x N<=4..8 x S<=2 x P grid, plus seeded random sequences with jumps to just around thresholds; "
             "distinct = distinct (S,N,P,sequence); non-trivial = at least one block delivered; separate malformed stream (repeated / decreasing / below-start blocks, invalid configs); every announcement is also forwarded to the node's default publisher, whose one subscriber reads only at the end of each configuration",
        assumptions=["float64 threshold comparison agrees with the exact integer test for N < 2^45 (sampled)", "block numbers + N < 2^64"],
        trusted_base=["exact-arithmetic twin of the float64 threshold test (Model/Epoch.lean reached)"],
    ),
    "C08": dict(
        modules=["AggkitModel.Properties.C08"],
        scenarios=[dict(name="tree"), dict(name="l1infostore")],
        generated=[],
        leanchecker=True,
        level_text="Proved in Lean 4 for every tree height and every hash algebra, under collision-freedom (H.Inj): C08_appendonly — after ANY well-formed history "
                   "(unbounded list of blocks that commit or are rolled back at any point incl. a fault inside AddLeaf, restarts, reorgs) every stored root version m and every "
                   "position i<m: GetLeaf returns the i-th surviving leaf and CalculateRoot(leaf, GetProof(i, root), i) = root; C08_roots_are_versions ties the quantified versions to the "
                   "rows of the root table; C08_updatable_step — an UpsertLeaf on a closed store yields the spec root of the updated leaves and every written position verifies (one step); "
                   "C08_updatable_history — from the empty tree, after ANY sequence of successful upserts (keys increasing, positions in range) and for EVERY recorded root, the value served for a written position is the value last written as of that root and the proof served hashes with it to that root, however often the position was overwritten since. Proof stack: frontier loop (addLoop_full), node-store invariants Consistent/Closed, getSiblings_spec "
                   "(zero-hash fallback included), calcRoot_spec, initCache correctness, history induction (runHistory_inv). Tie: the real tree package (SQLite, real Tx + rollback callbacks) and the "
                   "compiled Lean model run the same op lines (adds, rollbacks, failing adds, restarts, reorgs, fabricated high-index pre-states at 2^k boundaries, upserts) and all observations are compared; "
                   "monitors check every (root, covered position) pair with CalculateRoot on the implementation.",
        level_note="Trusted: Lean kernel; H.Inj idealisation of Keccak; hand-written model of tree/*.go tied by the correspondence run (generator-bounded); SQLite/meddler exercised, not modelled; "
                   "read faults (failing SELECTs inside initCache) are outside the model.",
        rule="seeded worlds: append-only (1-6 adds per tx, commit/rollback/failing add, restart, reorg at random points in [first-1, tip+2]), fabricated pre-states at counts 2^k-1,2^k,2^k+1, "
             "updatable worlds over boundary positions; distinct non-trivial case = distinct (root, covered position) pair verified",
        assumptions=["H.Inj (no Keccak collisions)", "deposit counts consecutive, block numbers increasing, leaf hashes non-zero (WFhistory)"],
        trusted_base=["model of package tree (Model/Tree.lean, TreeMachine.lean)", "Lean Keccak-256 used by the driver (validated against go-ethereum in scenario keccak)"],
    ),
    "C01": dict(
        modules=["AggkitModel.Properties.C01"],
        scenarios=[dict(name="tree"), dict(name="bridgestore"), dict(name="evmbridge")],
        generated=[],
        leanchecker=True,
        level_text="Proved in Lean 4 (any height, any hash algebra, H.Inj): C01_root — after ANY well-formed history (blocks committed or rolled back at any point, restarts, reorgs) the root reported "
                   "for deposit count i equals DC.getRoot after i+1 deposits, DC being the deposit contract's incremental tree (_addLeaf/getRoot modelled from the published algorithm; contract_root proves it equals the "
                   "spec root for all counts and carry patterns); C01_partition_irrelevant — the reported roots depend only on the surviving deposits. Tie: real tree package vs compiled model vs the "
                   "contract algorithm in Go, incl. fabricated pre-states at every 2^k boundary up to 2^32-2. Oracle = the REAL contract (scenario evmbridge): PolygonZkEVMBridgeV2 bytecode behind a proxy in go-ethereum's simulated EVM takes native-asset bridges and messages (several per block); its logs go through the syncer's own log handlers into the real processor; per deposit the contract's getLeafValue / getRoot(), the node's leaf / GetExitRootByIndex and the Lean deposit-contract model over the Lean Keccak must agree.",
        level_note="Trusted: Lean kernel; H.Inj; model/code correspondence (generator-bounded); the Solidity contract is modelled by hand (DC) and cross-checked against an independent Go port, not against bytecode. "
                   "The leaf-value half (Bridge.Hash = getLeafValue) is decided by the bridge-store correspondence/monitor, not by a theorem.",
        rule="same worlds as C08; every committed deposit's root compared with the contract algorithm; distinct non-trivial = distinct (root, position) pairs; bridge blocks without other events are fed as ABI-encoded logs through the real log handlers; evmbridge: 2 (quick) / 6 (thorough) worlds of 14 / 60 blocks mined by the real contract, 1-3 native-asset bridges / messages per block, amounts 0 / 1 / random / ~1e23, metadata of 0-100 bytes; a concurrent fill of four trees (`par`) at the start of every tree run",
        assumptions=["H.Inj", "WFhistory (consecutive deposit counts etc.)"],
        trusted_base=["model of package tree", "hand model of DepositContractBase (Model/Contract.lean)"],
    ),
    "C17": dict(
        modules=["AggkitModel.Properties.C17"],
        scenarios=[dict(name="rangearith")],
        generated=["BlockRange", "Limiter"],
        leanchecker=True,
        level_text="Proved in Lean 4: (a) about the REGENERATED translation of aggsender/types/block_range.go (uint64 wrap-around included, re-translated from the Go source on every run): "
                   "C17_gap_sound — no gap between touching/overlapping ranges for all uint64 endpoints incl. 0 and 2^64-1; C17_gap_exact — otherwise exactly the blocks in between, non-empty; "
                   "C17_count — CountBlocks characterised everywhere (the [0,0] sentinel and the wrapping full range stated explicitly). (b) about the hand model of Range/limitCertSize/AdaptCertificate: "
                   "C17_range_exact (exactly the events of the requested blocks, order kept), C17_limit (never fails, same first block, ends at the LARGEST block whose prefix fits — every longer prefix is over the limit — "
                   "exact events, over the limit only as a single block; for ANY size function, hence for the float64 EstimatedSize), C17_clamp (the last-block limiter cuts exactly at the configured block). "
                   "Tie for (b): the real functions (limitCertSize through a verif hook) and the model, with a float64 twin of EstimatedSize, on the same inputs incl. limits equal to exact prefix sizes.",
        level_note="Trusted: Lean kernel; goextract (the ~400-line Go->Lean translator) for part (a); model/code correspondence (generator-bounded) for part (b); IEEE-754 agreement of Lean Float and Go float64 additions.",
        rule="boundary set^4 for ranges (0,1,2,3,2^32-1..2^32+1,2^64-3..2^64-1) exhaustively + seeded random; random event layouts over 1-14 block ranges with size limits chosen at/around the exact size of a random prefix; "
             "distinct non-trivial = distinct gap/limit op lines",
        assumptions=["build parameters hold only events of their own block range (what GetBridgesAndClaims returns)"],
        trusted_base=["goextract translator", "hand model Model/CertRange.lean"],
    ),
    "C20": dict(
        modules=["AggkitModel.Properties.C20"],
        scenarios=[dict(name="claimtrace")],
        generated=[],
        leanchecker=True,
        level_text="Proved in Lean 4 for ALL call trees (nested inductive, any depth/fan-out, reverted frames anywhere, any number of claim calls): C20_sound — whatever is recorded comes from a call addressed to the bridge "
                   "with the event's global index that is live (not reverted, not inside a reverted call), with no assumption on other calls; C20_complete / C20_none — if every live call to the bridge is a claim call, "
                   "details are recorded iff such a call exists, else the search ends in an error and nothing is recorded. The model mirrors findCall's explicit LIFO stack and the decode dispatch. "
                   "Tie: the real Claim.setClaimCalldata (verif hook) with a fake RPC client serving generated traces whose calldata is packed with the real bridge ABIs (both generations, asset and message), compared with the model; "
                   "an independent recursive reference decides the property on the implementation's output (all decoded fields, not just the index).",
        level_note="Trusted: Lean kernel; model/code correspondence (generator-bounded); go-ethereum ABI decoding and the trace JSON decoding are exercised, not modelled; field extraction is abstracted to an id in the model and checked field by field by the monitor.",
        rule="seeded random call trees depth<=6 fan-out<=4, 22% reverted frames, 45% bridge calls, global indexes incl. values differing only above bit 63 and uint32-range values shared by both contract generations; "
             "event index drawn mostly from indexes present in the tree; separate malformed stream (non-claim selectors / short input addressed to the bridge); distinct non-trivial = distinct trace lines; failed frames carry nine different tracer error strings; every recorded field is compared",
        assumptions=["every call addressed to the bridge is a claim call (the property's own restriction) for completeness; soundness needs nothing"],
        trusted_base=["hand model Model/ClaimTrace.lean"],
    ),
    "C04": dict(
        modules=["AggkitModel.Properties.C04"],
        scenarios=[dict(name="bridgestore"), dict(name="l1infostore"), dict(name="tree"), dict(name="gersync")],
        generated=["Schema", "SyncFacts"],
        leanchecker=True,
        level_text="Proved in Lean 4: C04_tree_roots — any two well-formed histories (blocks, rollbacks, restarts, reorgs incl. nested/repeated ones and continuations on the new fork) with the same surviving leaves serve the same exit root "
                   "for every deposit count (with C08_appendonly: the same leaves and verifying proofs), i.e. tree queries after a reorg are those of a node that never saw the dropped blocks; C04_tables — after Reorg(b) block and event tables hold exactly the entries of blocks < b; "
                   "C04_event_keeps_earlier_rows — without legacy-token removals processing never touches rows of earlier blocks; C04_updatable_reorg — the updatable (rollup exit) tree: upserts below block b, upserts from b on, Reorg(b), then the new fork's upserts: the roots returned and every leaf / proof served for the versions of the surviving history are exactly those of the specification of that history (the dropped versions' nodes stay in the node table, harmlessly). PARTIAL: the full statement is FALSE for histories with RemoveLegacyToken events (C04_full_false_with_rmLegacy proves the witness on the model; "
                   "KNOWN-FINDING F3 replays it on the real code). Tie: the real bridge processor + BridgeSync facade vs the compiled model on the same blocks/faults/reorgs/restarts, all queries compared; monitor = a fresh real processor fed only the surviving blocks must answer every query identically. "
                   "The L1-info-tree and injected-GER stores are not yet covered by this check. C04_tx_code_facts (regenerated: db/tx.go Commit reports every failure of the underlying commit). Every reorg is followed by a write on a control connection (a transaction left open is a monitor failure); commit faults and reorg faults on each of the L1 info store's three deletes are injected.",
        level_note="Trusted: Lean kernel; H.Inj; model/code correspondence (generator-bounded); SQLite cascade semantics exercised through the real schema, modelled as a filter. Covers the bridge store only in this round.",
        rule="seeded worlds of 14-25 steps: blocks with 0-5 events of all five kinds, faulted attempts + retries, reorg points uniform in [first-1, tip+2] (above tip, at first block, nested), restarts, deposit-count gaps; "
             "distinct non-trivial = distinct twin comparisons and (root, position) proof checks; 30% of the reorgs hit exactly the last stored block; 40% of the reorgs that drop deposits are followed by a refill of the new fork up to the old deposit count with an exit-root lookup before and after (persistent bridge data querier); tree and gersync as for C08 / C16",
        assumptions=["H.Inj", "WFhistory", "no RemoveLegacyToken events (partial; F3 recorded)"],
        trusted_base=["hand model Model/BridgeStore.lean", "model of package tree"],
    ),
    "C07": dict(
        modules=["AggkitModel.Properties.C07"],
        scenarios=[dict(name="bridgestore"), dict(name="tree"), dict(name="l1infostore"), dict(name="gersync"), dict(name="reorgsync")],
        generated=["SyncFacts"],
        leanchecker=True,
        level_text="Proved in Lean 4: C07_atomic — for every block and EVERY index of the failing write statement (and for duplicate keys, deposit gaps, refusal while halted): a ProcessBlock that does not return success leaves blocks, event rows, exit-tree roots and nodes exactly as before; "
                   "C07_retry_clean_roots — a block attempt rolled back after any number of its leaves, incl. a fault inside AddLeaf's store statements, followed by anything, serves exactly the roots of a run in which the attempt never happened (corollary of the history induction runHistory_inv; "
                   "with C08_appendonly also the same leaves/proofs); C07_inconsistent_means_halted + C14_refuses_while_halted — the only error the driver does not retry leaves the processor halted, so no later block is recorded while an earlier one is missing. "
                   "Tie: real bridge processor with SQL-trigger faults at a chosen write statement (bridgestore) and real tree package with statement-level faults incl. reads (tree); retry compared with a fault-free twin; "
                   "the L1 info tree store (l1infostore: `blk!` — one-shot SQL-trigger fault at a chosen write statement of block / leaf / batch rows and of both trees' roots and nodes, retry, twin and contract references) and the injected-GER store (gersync: `poll!`) the same way: the model's faulted attempt (`processBlockF`, `poll!` = `poll`) changes nothing, the real stores must agree; the real EVMDriver.handleNewBlock (reorgsync: `step!` — ProcessBlock fails once or twice before it reaches the store, for finalized and non-finalized blocks) must retry the same block. "
                   "Genuine defects found by this check and fixed in /repo: F1 (rollback left the frontier polluted), F14 (initCache advanced lastIndex before the cache was rebuilt), F2 (transient AddLeaf error reported as inconsistency without halting).",
        level_note="Trusted: Lean kernel; H.Inj; model/code correspondence (generator-bounded). Process kill = rollback of the open transaction + restart (SQLite atomic commit trusted). The driver's retry loop is argued from the two theorems, not modelled as a goroutine. For the L1 info and injected-GER stores: C07_l1info_atomic / C07_ger_atomic prove all-or-nothing for every LOGICAL failure (halted, duplicate block, announced-root mismatch, recurring tree state); for a failing storage statement the faulted attempt is the model's definition (state unchanged), justified by C07_code_facts (every statement error is returned, rollback unless committed — regenerated from the source) and checked against the real stores by the correspondence run.",
        rule="bridgestore: 35% of blocks get 1-2 faulted attempts at a uniformly chosen write statement (block insert, root/rht inserts inside AddLeaf, row inserts, legacy deletes) before a clean retry, some with a restart in between; "
             "tree: statement-level faults incl. SELECTs in initCache; distinct non-trivial = distinct twin comparisons; l1infostore / gersync / reorgsync faults as described under C11 / C16 / C06 (`step!`: ProcessBlock fails once or twice before reaching the store)",
        assumptions=["H.Inj", "WFhistory"],
        trusted_base=["hand model Model/BridgeStore.lean", "model of package tree"],
    ),
    "C14": dict(
        modules=["AggkitModel.Properties.C14"],
        scenarios=[dict(name="bridgestore"), dict(name="l1infostore")],
        generated=["QueryTable"],
        leanchecker=True,
        level_text="Proved in Lean 4: C14_all_queries_guarded — `decide` over the table of ALL exported methods of *BridgeSync and *L1InfoTreeSync, REGENERATED from the Go source on every run (entry points added later appear in the table automatically): every data query starts with the halted guard returning ErrInconsistentState; "
                   "C14_processor_facts — both ProcessBlock start with the guard and both Reorg un-halt through RowsAffected() of the block delete, after commit (facts extracted from source); C14_refuses_while_halted, C14_unhalt_iff (cleared iff the reorg removed at least one processed block) on the store model. "
                   "Tie: on a really halted real processor every exported method of the facade is called by reflection and must return ErrInconsistentState; reorgs above the tip must not clear the flag.",
        level_note="Trusted: Lean kernel; goextract's syntactic guard recognition (first statement is `if s.processor.isHalted() { … return …, sync.ErrInconsistentState }`); correspondence run. L1InfoTreeSync's runtime half is not yet exercised by a scenario (its table half is).",
        rule="halting through deposit-count gaps in 8% of steps, then reflection over every exported facade method, queries, a refused block, a reorg that removes nothing, then reorgs/restarts; distinct non-trivial as for C04",
        assumptions=[],
        trusted_base=["goextract QueryTable extractor", "hand model Model/BridgeStore.lean"],
    ),
    "C11": dict(
        modules=["AggkitModel.Properties.C11"],
        scenarios=[dict(name="l1infostore"), dict(name="evmger"), dict(name="tree")],
        generated=["SyncFacts"],
        leanchecker=True,
        level_text="Proved in Lean 4 (any height, any hash algebra, H.Inj where needed): C11_indices_consecutive — for every mix of events in a block the stored info leaves get consecutive indices in event order and nothing else touches the leaf table; "
                   "C11_info_root_is_contract_root — for every well-formed history the root recorded for index i is the deposit-contract algorithm's root after i+1 leaves (the GER contract uses the same incremental tree); "
                   "C11_v2_check_iff — a root announcement halts the syncer iff (root, leaf count) differs from the synced tree, and changes nothing otherwise; C11_verify_records_manager_root — an effective batch verification records the root of the tree of last exit roots with "
                   "position rollupID-1 updated (what the rollup manager computes), keeps the store closed for the new version; C11_zero_exit_root_skipped. Lookup by index / GER and the leaf hash layout are decided by the correspondence + contract-reference monitors. "
                   "Tie: the real l1infotreesync processor + L1InfoTreeSync facade vs the compiled model on the same blocks (info updates, V2 announcements right and wrong, batch verifications incl. zero/unchanged/recurring exit roots and rollup ids up to 2^32-1, init events), reorgs, restarts, halts; "
                   "monitors: GER-contract reference (Go port of the deposit tree over keccak(ger,parentHash,ts)), sparse rollup-exit-tree reference, every (historical root, covered index) proof, twin comparison. Oracle = the REAL contracts (scenario evmger): PolygonZkEVMGlobalExitRootV2 bytecode and the repository's verify-batches mock (rollup exit root computed in Solidity) in go-ethereum's simulated EVM; their logs go through the syncer's own log handlers into the real processor; getRoot() / getLastGlobalExitRoot() / getRollupExitRoot() must equal the node's answers, and the same op lines are answered by the Lean model. The tree scenario (statement-level faults incl. reads on UpsertLeaf) also runs under C11.",
        level_note="Trusted: Lean kernel; H.Inj; model/code correspondence (generator-bounded); the two L1 contracts are modelled by hand (deposit-tree algorithm; sparse tree of last exit roots) and cross-checked against independent Go ports, not against bytecode. "
                   "Hypotheses: distinct GERs (UNIQUE column); rollup id >= 1; no rollup goes from non-zero back to zero for manager-root equality; no recurrence of a previous rollup-exit-tree state (root is the table's primary key).",
        rule="seeded worlds of 14-25 steps: blocks with 0-5 events, 25% with 3-5 info updates, V2 announcements computed from the reference (35%) or deliberately wrong (12%), exit roots from a pool incl. zero and repeats; reorgs in [first-1, tip+2], restarts; "
             "distinct non-trivial = distinct historical info roots checked + twin comparisons; two thirds of the blocks are fed as ABI-encoded logs through the real log handlers; block timestamps 0 / small / around 2^32 / up to 2^62 in a quarter of the updates; 25% of the blocks get 1-2 faulted attempts (one-shot SQL-trigger fault at a write statement, half of them aimed at the events' own rows) before the retry; one directed rolled-back block of four updates at an odd leaf index per world; 30% of the reorgs hit exactly the last stored block; evmger: 2 / 6 worlds of 14 / 50 blocks mined by the real GER contract and verify-batches mock",
        assumptions=["H.Inj", "distinct GERs", "rollupID >= 1", "no zero-after-nonzero exit root for manager equality"],
        trusted_base=["hand model Model/L1InfoStore.lean", "model of package tree"],
    ),
    "C05": dict(
        modules=["AggkitModel.Properties.C05"],
        scenarios=[dict(name="downloader"), dict(name="reorgsync"), dict(name="l1infostore")],
        generated=["SyncFacts"],
        leanchecker=True,
        level_text="Proved in Lean 4 by induction over loop iterations, for every chain, chunk size (0 included), start block and EVERY admissible sequence of (tip, finalized) observations — tip jumps of any size, finalized below/at/above the tip or not moving, failing finalized lookups: "
                   "C05_exactly_once — the blocks handed to the driver are strictly increasing (so each at most once), each carries exactly the watched logs of its own block in log order (empty markers only for blocks without watched logs), and every block with watched logs between the start and the loop position has been handed over; "
                   "C05_no_gap — at the moment any block is handed over, all earlier blocks with watched logs already were (the last-processed marker cannot pass an unstored event block, the driver processing the channel in order); "
                   "C05_grouping — the grouping loop of getEventsByBlockRangeWithRetry over the raw log list (ascending by block, log order inside a block) yields exactly the event blocks of the range, each with all of its own logs in log order and none of another block's (so `eventsIn`, which the loop model uses, is what the code computes); "
                   "C05_retry_transparent — whatever the header queries answer (hash mismatches between eth_getLogs and the header query), when the range fetch returns blocks they are exactly the event blocks of the range, and it returns as soon as one of its 6 attempts sees no mismatch. "
                   "PARTIAL: the range fetch may also GIVE UP (six disagreeing header answers in a row) and the loop then treats the range as empty — runG / C05_giveup_false prove on the model that an event block below the finalized block is then skipped for good (the theorems above assume no give-up: runG_eq_run), and KNOWN-FINDING F6 replays exactly that schedule on the real code on every run. "
                   "Tie: the real sync.EVMDownloader.Download loop incl. GetEventsByBlockRange / GetLogs (topic + Removed filtering, header cross-check with scripted foreign headers / not-found / transient errors) against a scripted client serving the same chain and observation script for a fixed number of iterations (verif hook on the loop's iteration limit), output compared with the model; "
                   "the real EVMDriver.Sync (scenario reorgsync): after every start, restart (incl. restarts at which the first reads of the last-processed marker fail) and rewind the driver must start its downloader right after the last stored block. C05_no_stall_after_failed_read — the iteration after a failed read of the finalized pointer does not wait for a new block when blocks are left (directed schedule dlStall replays it on the real loop).",
        level_note="Trusted: Lean kernel; model/code correspondence (generator-bounded). Admissibility = what WaitForNewBlocks guarantees (a returned tip exceeds the last one) and start <= tip+1. The chain is fixed (reorgs: C06). The driver's retry loop and the hand-over through the Go channel are exercised by the store scenarios (C07), not modelled here; "
                   "the six-mismatch give-up path of getEventsByBlockRangeWithRetry is known finding F6 (modelled, witnessed, replayed).",
        rule="seeded: chunk in {0,1,2,3,7,10,50}, event density 5-80%, 1-3 watched logs per event block plus logs of other topics and Removed logs, 4-17 iterations of strictly increasing tips (occasional jumps of 20+), finality lag in {0,1,3,8,100} or pointer at/above the tip or frozen, 8% failing finalized lookups, 40% of the runs with 1-4 faulty header answers (foreign hash / not found / error); distinct non-trivial = distinct run lines; reorgsync as for C06 (40% of its restarts with failing marker reads); every fifth watched log makes the log appender fail once; removed logs carry the dropped block's hash and may come first in their block; one directed give-up run (F6); reorgsync as for C06",
        assumptions=["tips returned by WaitForNewBlocks exceed the last seen tip", "start <= first tip + 1", "fixed chain"],
        trusted_base=["hand model Model/Downloader.lean"],
    ),
    "C02": dict(
        modules=["AggkitModel.Properties.C02", "AggkitModel.Properties.C13"],
        scenarios=[dict(name="aggsender")],
        generated=["CertFacts", "InitialStatus", "FlowBase", "NextHeight"],
        leanchecker=True,
        level_text="Proved in Lean 4 by induction over EVERY operation sequence of any length (L2 blocks, epoch ticks, status ticks, Agglayer status moves, failing Agglayer calls, crashes between iterations, crashes between a submission and its local record, loss of the database, restarts), for both retry settings, BOTH flows (PP and aggchain-prover, incl. every scripted behaviour of the prover and the optimistic-mode flag flipping at any time: a certificate in error is resent as it was only when the type to generate is still its type), any start block, any size limit and any size function: "
                   "C02_chain — only the most recent certificate can be undecided; every certificate the Agglayer ever received has (height, previous exit root, first block) = (height+1, new exit root, last block+1) of the last settled certificate before it, or (0, empty root, start block+1) at the start; it carries exactly the bridge exits and claims of its block range; "
                   "corollaries C02_no_overlap, C02_replacement (a replacement reuses height, previous root and first block of the in-error certificate), C02_after_settled, C02_settled_heights (settled heights are 0,1,2,… without gap or repeat), C02_exactly_once (the exits/claims of the settled certificates in height order are exactly the events of the covered blocks, once, in chain order). "
                   "Proved for every configuration, including Agglayers whose headers carry no previous local exit root (the fallback to the settled record one height below is sound because settled certificates are unique per height: settled_unique). C02_code_facts — the regenerated source facts the model rests on (poll before send in both loop arms; build, submit, then record; the recorded header's fields; the open statuses). "
                   "Tie: the real AggSender loop (one iteration per op through the verif hook), real AggSenderSQLStorage, real PPFlow/baseFlow, real status checker, real query layer over the real L2 bridge processor and the real L1 info tree processor, real gRPC client — against a fake Agglayer implementing the gRPC service clients, vs the compiled model (every submission: id, height, metadata-decoded range, exit roots, exit counts; the certificate_info rows after every tick/restart). "
                   "Monitors (no model involved) evaluate the chain predicate on the fake Agglayer's log at every submission and the exactly-once clause at the end of each world. The two functions that fix where the next certificate starts and at which height on which exit root (getLastSentBlockAndRetryCount, getNextHeightAndPreviousLER) and the start-up decision (initialStatus.process) are translated from the Go source on every run and proved equal to the model functions these theorems are stated over (C13_next_start_is_the_source, C13_next_height_is_the_source, C13_process_is_the_source; Properties/C13 is built and audited by this check as well).",
        level_note="Trusted: Lean kernel; model/code correspondence (generator-bounded); the fake Agglayer fails cleanly (a submission reported as failed was not applied); no L2 reorg inside a world; exit roots are compared through an independently computed root table (deposit-contract algorithm); 35% of the worlds run the aggchain-prover flow (flow_aggchain_prover.go: stored-proof retries, prover cutting the range, failing, or not ready) with a scripted prover, the rest the PP flow; the optimistic mode of the prover flow is not exercised.",
        rule="seeded worlds (12 quick / 60 thorough) of 60/120 random ops: 30% L2 blocks with 0-3 events (bridges incl. native token / max / zero amounts, empty / short / long metadata; claims against finalized L1 info leaves), 22% epoch ticks, 12% status ticks, 18% Agglayer moves along Pending>Proven>Candidate>Settled or to InError (30%), failing header/submit calls, crashes, crashes between submit and store, database loss, transient statement faults in the save transaction, restarts (with and without a failing Agglayer call); both retry settings, start blocks 0-3, size limit in 30% of the worlds, headers without previous exit root in 25%; distinct non-trivial = distinct (height class, #exits, #claims, first-after-restart) of submissions + root/chain shapes",
        assumptions=["the Agglayer applies exactly the submissions it acknowledges", "L2 blocks are not reorged while certificates over them are in flight", "block numbers < 2^32 (metadata offset is 32 bits: DESIGN F8)"],
        trusted_base=["hand model Model/Aggsender.lean", "fake Agglayer / signer / epoch notifier in the harness"],
    ),
    "C03": dict(
        modules=["AggkitModel.Properties.C03"],
        scenarios=[dict(name="aggsender"), dict(name="certcodec"), dict(name="bridgestore"), dict(name="claimtrace")],
        generated=["CertFacts", "SyncFacts"],
        leanchecker=True,
        level_text="Proved in Lean 4. Byte level, for every field value and any 32-byte hash function: C03_exit_leaf — the exit the node builds for a bridge event hashes (BridgeExit.Hash, the Agglayer's side) to exactly the leaf the event has in the L2 exit tree (Bridge.Hash), empty and non-empty metadata alike; C03_exit_fields — every field is carried over unchanged; "
                   "C03_wire_leaf — the leaf recomputed from the submission message equals it; C03_metadata_roundtrip — the metadata of a certificate for blocks [f,t] decodes to that range, creation time and type (ranges narrower than 2^32 blocks). "
                   "Protocol level, by the induction over all histories of C02: C03_root — in every reachable state every certificate the Agglayer received carries exactly the bridge events and claims of its block range in chain order, the deposit counts of its exits are prev, prev+1, … (the leaves that follow the tree its previous exit root commits to) and its new exit root is the root after exactly these leaves — for previous-certificate states none / settled / in error alike. "
                   "Tie: aggsender scenario (real PPFlow/baseFlow/query layer over the real bridge processor; what the fake Agglayer receives on the wire) with monitors comparing every wire exit field by field with the generated event, re-deriving the new exit root by appending the WIRE exits' hashes to an independent deposit-contract tree of the previous root, and decoding the metadata; "
                   "certcodec scenario (real getBridgeExits / ConvertClaimToImportedBridgeExit / Bridge.Hash / BridgeExit.Hash / gRPC conversion / metadata codec vs the model's own Keccak, byte for byte).",
        level_note="Trusted: Lean kernel; model/code correspondence (generator-bounded); exit roots are identified with leaf counts in the protocol model (justified by C01/C08 and checked per submission by the root-table monitor); Keccak is a parameter of the theorems (the driver runs a Lean Keccak-256 validated against go-ethereum's on every op).",
        rule="aggsender: as C02. certcodec: 150 (quick) / 1200 (thorough) rounds, each: a random bridge (leaf type, networks 0 / max / random, zero / random addresses, amounts 0 / 2^256-1 / small / random width, metadata empty / 32 bytes / short / long), a certificate, a metadata word for ranges at 0, 2^32 boundaries and random, an arbitrary word to decode (versions 0-3); distinct non-trivial = distinct input shape classes; bridgestore as for C04 (persistent bridge data querier compared with the syncer on every exit-root lookup)",
        assumptions=["as C02", "range width < 2^32 blocks (F8)"],
        trusted_base=["hand models Model/Aggsender.lean, Model/Certificate.lean", "Lean Keccak-256 (driver only)"],
    ),
    "C06": dict(
        modules=["AggkitModel.Properties.C06"],
        scenarios=[dict(name="reorgsync"), dict(name="downloader")],
        generated=["CertFacts", "SyncFacts"],
        leanchecker=True,
        level_text="Proved in Lean 4 by induction over EVERY history (new blocks, reorgs at any depth above the finalized block with shorter or longer new forks, successive reorgs, finality moving at any time, two subscribers progressing at any relative speed, detection passes, restarts, a stop of the node while a syncer is rewinding — at any moment, any length): "
                   "C06_tracked_or_final — every block a syncer has processed is still tracked by the detector with the hash it was processed with, or was delivered as finalized and is on the chain; C06_detected — after a detection pass that could fetch the headers it needed no block that the chain has replaced remains in the syncer's store (it was rewound to at or before the first replaced block it had processed), and the rewind point is exactly the first tracked block whose hash differs; "
                   "C06_no_spurious_rewind — if nothing it processed was replaced, the pass leaves the store alone; C06_stopped_during_reorg — a stop while a syncer rewinds keeps the stale blocks tracked, so the next pass after the restart rewinds again; C06_restart; C06_converges — once the chain has stopped changing, one pass plus syncing to the tip leaves the store equal to the canonical chain (blocks 1…tip, each the chain's block). "
                   "PARTIAL: the schedule is sequential (an operation completes before the next starts); the window between the driver's acknowledgement and the detector's removal of the tracked range is where the full statement FAILS: the model splits the pass into its two halves (detectNotify, detectFinish; detectSub_is_notify_then_finish proves that back to back they are the sequential pass in every state the theorems speak about) and C06_race_false proves, by evaluation, the witness — a block of the new fork processed between the halves is stored, not final and no longer tracked, and its later replacement goes unseen by a complete pass; the same schedule is replayed on the real code on every run (KNOWN-FINDING F5, directed `race` op: the detector's database is kept busy for 150 ms after the rewind). "
                   "Tie: reorgsync scenario — the real ReorgDetector (SQLite tracked blocks, one pass per op via the verif hook, real reload at restart), two real EVMDrivers in their own goroutines (real select loop, handleNewBlock, handleReorg) over two real bridge processors, a scripted downloader that hands out the block the chain has at that moment, a scripted chain client; stores and tracked lists after every op are compared with the model; monitors: rewound iff something processed was replaced, to at or before the first replaced block; no replaced block left after a pass; convergence to the chain at the end of every world. Since round 5 the model has blocks WITHOUT events (never delivered, never tracked): stores and tracked lists are sparse; SubInv2 (no gap below a clean prefix; versions fresh) is inductive over every history and C06_converges states that the store ends up holding exactly the chain's blocks with events. The table tracked_block is part of the state: C06_restart is a theorem about reachable states, C06_reload_any_order shows the reload does not depend on the order of the rows. The downloader scenario also runs here (a syncer following the safe block must not flag its blocks as finalized).",
        level_note="Trusted: Lean kernel; model/code correspondence (generator-bounded); the downloader is scripted (the real EVMDownloader is C05's subject); sequential schedule; a detection pass that hits the reorg_event key within the same wall-clock second is retried once by the harness, as the periodic check would at its next tick.",
        rule="seeded worlds (10 quick / 60 thorough) of 40/80 ops: 25% new blocks, 30% a subscriber syncs 1-3 blocks, 11% detection pass, 4% detection pass during which the node is stopped while a syncer rewinds (then restart), 12% reorg at a random depth above the finalized block with a new fork usually at least as long (15% shorter), 10% finality moves, 8% restart; at the end the chain grows by 4 blocks and convergence is required; distinct non-trivial = distinct (reorg depth, new fork length) classes",
        assumptions=["finalized blocks are never replaced", "operations do not overlap in time (F5 documents the overlap that matters)"],
        trusted_base=["hand model Model/ReorgSync.lean", "scripted downloader and chain client in the harness"],
    ),
    "C09": dict(
        modules=["AggkitModel.Properties.C09"],
        scenarios=[dict(name="aggsender"), dict(name="claimtrace")],
        generated=[],
        leanchecker=True,
        level_text="Proved in Lean 4 for any collision-free hash algebra: C09_l1_proof — after ANY well-formed history of the L1 info tree store (blocks, rolled-back blocks, restarts, reorgs), for every recorded version m (the leaf count the certificate names; its root the L1 info root it names) and every leaf index i < m, the proof the node serves for (i, root m) hashes with the i-th leaf to exactly that root (C08's store theorem read for the L1 info tree); C09_leaf_count — root.Index+1 is the number of leaves of that root; "
                   "C09_ger_checked — verifyClaimGERs accepts exactly the claims whose global exit root is keccak(mer, rer); C09_exit_proofs / C09_claims_verify — if the bridge contract accepted the claim, everything packed into the imported bridge exit verifies: exit leaf + proof_leaf_mer -> mainnet exit root, or exit leaf + proof_leaf_ler -> stated local exit root and + proof_ler_rer -> rollup exit root; leaf GER = hash of its exit roots; L1 info leaf + proof_ger_l1root -> named root at the stated index. "
                   "Tie: aggsender scenario with a joint L1/L2 world — mainnet exit tree and rollups' local exit trees grow with every L1 info leaf (several leaves per L1 block, arbitrary finalized pointer), L2 claims of those deposits carry the proofs a claimer would submit; real L1InfoTreeDataQuerier over the real l1infotreesync processor, real getImportedBridgeExits / tree.CalculateRoot / gRPC conversion; "
                   "for every imported exit of every submitted certificate the monitors verify all Merkle statements on the WIRE message with an independent verifier against independently computed trees, and a `claimdata` line feeds the claim's inputs to the model, whose packed claim data must hash (ClaimData.Hash layout, Lean Keccak) to the digest of the wire message.",
        level_note="Trusted: Lean kernel; collision-freedom idealisation; model/code correspondence (generator-bounded); that the L2 bridge contract only accepts verifying claims (ContractAccepted) is an assumption about the contract, realised by the generator; which root GetLatestFinalizedL1InfoRoot picks is decided by the monitors (leaf count / root / index relations), not by a theorem about SQL ordering.",
        rule="as C02, plus: every L1 info leaf adds 0-2 mainnet deposits and 0-2 rollup deposits (rollup indexes 0,1,2,4), 1-3 leaves per L1 block with increasing log positions, finalized pointer moved in half of the L1 steps; 35% of L2 events are claims of a not-yet-claimed deposit covered by a finalized leaf (mainnet and rollup origin); distinct non-trivial adds (claim kind, leaf index class, distance of the claim's L1 leaf from the named root)",
        assumptions=["as C02", "claims on L2 were accepted by the bridge contract against a finalized global exit root"],
        trusted_base=["hand models Model/ClaimProof.lean, Model/Tree.lean", "reference Merkle trees in the harness"],
    ),
    "C10": dict(
        modules=["AggkitModel.Properties.C10"],
        scenarios=[dict(name="certcodec"), dict(name="aggsender")],
        generated=["CertFacts", "SyncFacts"],
        leanchecker=True,
        level_text="Proved in Lean 4 for every certificate (any number of exits and imported exits, any field values) and any collision-free 32-byte hash: C10_pp_sensitive — equal PPHashToSign implies equal new exit root and equal sequence of imported global indexes; C10_fep_sensitive — equal FEPHashToSign implies equal new exit root, height, aggchain params and (global index, exit leaf) sequence; "
                   "C10_exit_sensitive — equal exit leaves imply equal leaf type, token, destination, amount and metadata word; C10_id_sensitive / C10_imp_sensitive — the certificate id covers network, height, both exit roots, every exit leaf and every imported exit (leaf, claim data, global index); hence changing any covered field changes the commitment. "
                   "C10_signed_is_commit — the PP commitment does not read the field filled in after signing; C03_wire_leaf — the exit leaf survives the wire conversion. The hypotheses on the hash are shown satisfiable in the model. Stated, not hidden: the rollup index under a set mainnet flag is not covered (C19), and an empty metadata hashes like keccak(\"\"). "
                   "NOT modelled: JSON. That the hash handed to the signer is the commitment of the submitted message, that the submitted signature is the signer's output, and that the stored JSON copy reproduces the submitted message are decided on the real code by monitors (aggsender scenario: recording signer, wire capture, stored copy re-sent through the real gRPC conversion and compared with proto.Equal). "
                   "Tie: certcodec scenario — real Certificate.Hash / PPHashToSign / FEPHashToSign / BridgeExit.Hash / GlobalIndex.Hash / gRPC conversion on certificates built by the real flow conversions, vs the model byte for byte; monitors perturb every covered field (about 40 perturbations per certificate) and require the real commitments to change.",
        level_note="Trusted: Lean kernel; collision-freedom is an idealisation of Keccak-256; model/code correspondence (generator-bounded); JSON codecs and the signer call are observed, not proved; the FEP flow's own signing call is not exercised (its commitment function is).",
        rule="certcodec: as C03, certificates with 0-3 exits and 0-3 imported exits (both claim kinds, mainnet and rollup global indexes incl. 0 and 2^32-1), heights 0 / 1 / 255 / 256 / 2^32 / 2^64-1 / random, signature or aggchain-proof data; aggsender: as C02",
        assumptions=["Keccak-256 is collision-free"],
        trusted_base=["hand model Model/Certificate.lean", "Lean Keccak-256 (driver only)", "recording signer in the harness"],
    ),
    "C12": dict(
        modules=["AggkitModel.Properties.C12"],
        scenarios=[dict(name="bridgeapi"), dict(name="bridgestore")],
        generated=["CertFacts"],
        leanchecker=True,
        level_text="Proved in Lean 4 for EVERY content of the L1 info tree, the verified-batches table and the bridge stores and every deposit count: C12_index_covers_l1 / C12_index_covers_l2 — whenever the L1-info-index lookup (both binary searches, modelled loop for loop over the queries they issue: first/last/first-after-block info, first/last/first-after-block verified batches, first info with a rollup exit root, root by exit root) answers with an index, "
                   "that index is a recorded leaf whose mainnet exit root (rollup exit root) commits to more than the asked deposit count; in every other case it returns an error. C12_claim_proof — after any history of an exit tree store the proof served for (deposit, exit root of any recorded version covering it) hashes the deposit's leaf to exactly that root (C08's store theorem; the rollup exit tree half is C08_updatable_step). "
                   "Tie: bridgeapi scenario — the service's own HTTP router and handlers (/l1-info-tree-index, /claim-proof) over the real L1 and L2 bridge processors and the real L1 info tree processor (incl. the rollup exit tree) in a joint L1/L2 world; every lookup answer is compared with the model and checked by a monitor against the generated world; every returned claim proof is verified (leaf -> local/mainnet exit root -> rollup exit root, returned L1 info leaf) with an independent verifier against independently computed trees. C12_injected_leaf — for a claim on the L2 the API hands out the FIRST L1 info leaf at or after the requested index whose global exit root was injected there, and finds one whenever one exists (/injected-l1-info-leaf, exercised by ops inj / q inj); q proof! serves /claim-proof while the exit tree's node table cannot be read (an error, never an unverifiable proof).",
        level_note="Trusted: Lean kernel; model/code correspondence (generator-bounded); the lookup is safe, not live: it returns an error although a covering leaf exists when the search meets an info leaf whose mainnet exit root is the empty tree's (observed in worlds whose first info leaves predate any mainnet deposit; allowed by the property, noted in DESIGN); block numbers >= 1; /injected-l1-info-leaf is not exercised.",
        rule="seeded worlds (12 quick / 80 thorough) of 16/30 steps: L1 blocks with 1-4 events in arbitrary order (mainnet deposits, info updates naming any not-yet-named prefix of the deposits — several per block —, verified batches of this network with any not-yet-verified prefix of the L2 deposits, verified batches of other rollups), L2 blocks with 1-3 deposits; 30% of the worlds start with info leaves before any deposit; after every third step: the lookup for every deposit and one beyond on both networks, and the claim proof for random covered (leaf, deposit) pairs; distinct non-trivial = distinct (network, answered index) and (network, deposit, leaf) classes; info leaves before the first mainnet deposit carry bytes32(0) as mainnet exit root in 60% of the worlds, a directed prelude puts such a leaf in front of deposit 0 in the first world; every returned proof is also put to the real bridge contract's verifyMerkleProof",
        assumptions=["the GER contract records an info leaf only when the global exit root changed", "both bridge syncers have processed the blocks the info leaves refer to"],
        trusted_base=["hand model Model/BridgeAPI.lean", "reference Merkle trees in the harness"],
    ),
    "C13": dict(
        modules=["AggkitModel.Properties.C13"],
        scenarios=[dict(name="aggsender"), dict(name="certcodec")],
        generated=["CertFacts", "InitialStatus", "FlowBase", "NextHeight"],
        leanchecker=True,
        level_text="Proved in Lean 4 over the same machine and the same unbounded histories as C02 (crash between iterations, crash between SendCertificate and SaveLastSentCertificate — also of a replacement —, loss of the database at any time, restarts, failing Agglayer calls): "
                   "C13_next_certificate_correct — in every reachable state in which the node runs, the certificate it builds next has the height, previous exit root and first block that the Agglayer's records require, and is built only when the Agglayer's last certificate is decided; C13_restart_reconciles — a successful start-up reconciliation leaves records that describe the Agglayer's last certificate; "
                   "C13_reconciliation_succeeds — in every reachable stopped state the reconciliation succeeds unless an Agglayer call fails (so a refusal needs records that no history produces); C13_one_per_height; process_spec (the decision table of initialStatus.process is sound for every (settled?, pending?, local?) triple); C13_process_is_the_source (the Lean translation of initialStatus.process / checkAgglayerConsistenceCerts / getLatestAggLayerCert that tools/goextract REGENERATES from initial_state.go on every run — pointers as Option, nil dereference as failure — returns, for every input, what the model's decision table returns, and never dereferences nil); C13_next_height_is_the_source (likewise for baseFlow.getNextHeightAndPreviousLER — nil check, status predicates, a pointer field, two calls into the environment with their error branches — equal to the model's nextHeightPrev for every last record and store content); C13_next_start_is_the_source (likewise for baseFlow.getLastSentBlockAndRetryCount: the block after which the next certificate starts and its retry count, translated with its re-assigned local variables); C13_code_facts (regenerated metadata byte layout). "
                   "Genuine defects found and fixed in /repo: F10 (after a stop between submitting the replacement of an InError certificate and recording it, start-up refused forever; and its follow-up F10b), F15 (the aggchain-prover flow refused to start once its last certificate began after the start block). "
                   "Tie: same scenario as C02 (real status checker CheckInitialStatus through Start's own sequence, real storage with the database file deleted for `losedb`, process killed by a panic inside the storage wrapper for a crash between submit and store, SQL-trigger statement faults inside the real save transaction); monitors: first certificate after every restart is checked against the Agglayer's log; a refused start-up is checked against an independent notion of contradiction; a failed save must leave the rows unchanged.",
        level_note="Trusted: Lean kernel; model/code correspondence (generator-bounded); atomicity of the save transaction is SQLite's (observed by the savefault monitor, not proved); a crash is modelled at the two points where the outcome differs (between iterations; between submit and store).",
        rule="as C02; crash ops 4%, crash-between-submit-and-store 3% (40% followed by an Agglayer move before the restart), database loss 2%, save faults 2% (statement 1-3 of the transaction), failing reconciliation call in 20% of the restarts; distinct non-trivial as C02; optimistic-mode flag flips in half of the aggchain-prover worlds; directed epilogues: a forged record replacing a settled one (60%), a save fault on the replacement of an in-error certificate (40%)",
        assumptions=["as C02"],
        trusted_base=["hand model Model/Aggsender.lean", "fake Agglayer in the harness", "SQLite transaction atomicity"],
    ),
    "C16": dict(
        modules=["AggkitModel.Properties.C16"],
        scenarios=[dict(name="gersync")],
        generated=["SyncFacts"],
        leanchecker=True,
        level_text="Proved in Lean 4 (PP mode): C16_table — for every L2 chain with at most one GER event per block and EVERY sequence of polls (tips advancing by any amount, repeated or lagging) the table equals the fold of the insert/remove events of all blocks up to the furthest tip seen; "
                   "firstAfter_spec / C16_query — the query returns an injected, not-removed root with the smallest index at or after X and finds one whenever one exists. FEP mode: C16_fep_sound — after any sequence of polls (any tips, the L2 GER map answering differently at every poll) every row of the index is an L1 info leaf that the L2 GER map held when the row's block was polled; C16_fep_latest — the row filed at a poll is the last injected leaf at or after the downloader's start index. C16_table_ops / C16_query_ops — the same for the FULL history: any sequence of polls, restarts of the node at any point and reorgs at any block (the chain replaced from that block on), under the one hypothesis that no reorg drops an already processed removal. PARTIAL: that excluded case is real — C16_reorg_false_with_removal proves the witness on the model, KNOWN-FINDING F4 replays it on the real code. "
                   "Tie: the real PP downloader (real log parsing through the contract binding, L1 leaf lookups that lag) and the real FEP downloader (eth_call on the L2 GER map) feeding the real processor as the driver does, over a scripted L2 client whose tip jumps by 1-12 blocks between polls, with restarts and reorgs, vs the compiled model; "
                   "monitor = the property evaluated on the implementation's answers. Genuine defect found and fixed in /repo: F12 (the PP downloader queried only the new tip block).",
        level_note="Trusted: Lean kernel; model/code correspondence (generator-bounded); FEP completeness (a root injected and never seen at a poll tip is missed by design of that downloader) is not a theorem; FEP restarts/reorgs are covered by correspondence only.",
        rule="seeded worlds: chain growing by 1-12 blocks between polls, 35% of blocks with a GER event (25% removals in two thirds of the worlds), 20% of insertions whose L1 leaf is indexed late, restarts 20%, reorgs 12%; every fourth world in FEP mode; queries for boundary and random indices after each poll; distinct non-trivial = distinct (world, poll) pairs; 15% of the insertions re-inject an earlier GER; 6% of the polls follow a gap of 1000-2600 blocks; 15% of the polls with a one-shot storage fault (half aimed at the GER statements) and 15% with a header answer that disagrees with the logs once",
        assumptions=["at most one GER event per L2 block (the table's primary key)", "fixed chain between reorgs"],
        trusted_base=["hand model Model/LastGER.lean"],
    ),
    "C15": dict(
        modules=["AggkitModel.Properties.C15"],
        scenarios=[dict(name="oracle")],
        generated=[],
        leanchecker=True,
        level_text="Proved in Lean 4 for every sequence of ticks and environments (any relative speed of finality, syncing and ticking; any transient error of each dependency): C15_safe — every injected root is the most recent L1 info root at or below a block that had the configured finality when sampled "
                   "(at this or an earlier tick), which the syncer has reached, and which the L2 contract did not have when checked; C15_skip_if_present; C15_progress — once a finalized block F was sampled and only the syncer was behind, F stays the target over any number of such ticks and the first tick at which the syncer has reached F injects (or finds injected) the most recent root at or below F: newer finalized blocks cannot starve the oracle. "
                   "Tie: the real AggOracle tick (verif hook) over the REAL L1 info tree processor and facade (GetLatestInfoUntilBlock), scripted L1 client and L2 sender with injected failures, vs the compiled model; monitors evaluate safety and progress on the implementation's actions. Genuine defect found and fixed in /repo: F11 (sticky target was a dead store). C15_final_stable — an L1 reorg above the block a root was fetched for does not change the most recent root at or below that block (op l1reorg, half of them at the syncer's tip).",
        level_note="Trusted: Lean kernel; model/code correspondence (generator-bounded); the ticker/goroutine of Start is not exercised (one tick = one call); the L2 sender contract is a fake.",
        rule="seeded worlds: finality advancing 1-12 blocks per tick (+ jumps), syncer lag in [-4, 11] blocks behind the newest finalized block with jitter, 35% of synced blocks carrying 1-2 info updates, each dependency failing 6% of the time, third parties injecting roots; distinct non-trivial = distinct (world, tick, outcome kind)",
        assumptions=["one oracle instance", "finalized blocks are never replaced"],
        trusted_base=["hand model Model/Oracle.lean"],
    ),
}
