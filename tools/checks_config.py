# per-property configuration of ./check (which Lean modules hold the property theorems, which
# harness scenarios tie the model to the code, what is regenerated from source)
COMMON_TB = []

CHECKS = {
    "C19": dict(
        modules=["AggkitModel.Properties.C19"],
        scenarios=[dict(name="globalindex")],
        generated=[],
        leanchecker=True,
        level_text="Proved for all inputs in Lean 4 (no bound): C19_layout (contract bit layout), C19_roundtrip (all uint32 pairs, both flags), "
                   "decode_spec (DecodeGlobalIndex characterised for EVERY integer, never panics), C19_canonical and C19_consumers (every canonical "
                   "on-chain value is carried unchanged by the certificate field, commitment input, FEP chunk, wire and prover messages). "
                   "The model is hand-written; it is tied to the Go code by running the real functions (incl. grpc/prover conversions through verif hooks) "
                   "and the compiled Lean model on the same generated inputs and comparing all outputs byte for byte.",
        level_note="Trusted: Lean kernel; the digit-list model of math/big byte conversions; the correspondence run (generator-bounded); protobuf marshalling below the field value.",
        rule="boundary set^2 x flag exhaustively + seeded random (m,r,l) triples and canonical on-chain values; "
             "each case = enc + dec + all four consumers on the real functions; non-trivial/distinct = distinct (m,r,l) enc lines; "
             "separate malformed stream (non-canonical widths up to 12 bytes)",
        assumptions=["keccak of the LE buffer is compared byte-for-byte (driver Keccak validated against go-ethereum)",
                     "gRPC/protobuf marshalling below the FixedBytes32 value is trusted"],
        trusted_base=["model of big.Int.Bytes/FillBytes/SetBytes as base-256 digit lists (Model/Bytes.lean)"],
    ),
    "C18": dict(
        modules=["AggkitModel.Properties.C18"],
        scenarios=[dict(name="epoch")],
        generated=[],
        leanchecker=True,
        level_text="Proved in Lean 4 for every configuration (S, N, P) and every strictly increasing block sequence at or after S, of any length and with "
                   "arbitrary gaps: C18_exact (the notifier's counter-based run equals the set-based specification 'announce an epoch at its first block at/after "
                   "the threshold, never again'), C18_exactly_once (no epoch twice; every notification is at a qualifying block with that block's epoch; every "
                   "qualifying block's epoch is announced), C18_increasing (announced epochs strictly increase). The exact integer threshold test of the model is "
                   "tied to the Go float64 code by driving the real EpochNotifierPerBlock goroutine (fake block notifier, recording subscriber) and the Lean model on the same sequences: "
                   "exhaustively for small N/S and all subsets of a window, randomly for N up to 2^44.",
        level_note="Trusted: Lean kernel; equivalence of the float64 threshold comparison with the exact rational one (argued for N < 2^45, sampled by the correspondence run, not proved); "
                   "uint64 wrap-around near 2^64 is outside the model; goroutine/channel plumbing of startInternal is exercised, not modelled.",
        rule="all subsets of a 7..10 block window from S (S itself included) x N<=4..8 x S<=2 x P grid, plus seeded random sequences with jumps to just around thresholds; "
             "distinct = distinct (S,N,P,sequence); non-trivial = at least one block delivered; separate malformed stream (repeated / decreasing / below-start blocks, invalid configs)",
        assumptions=["float64 threshold comparison agrees with the exact integer test for N < 2^45 (sampled)", "block numbers + N < 2^64"],
        trusted_base=["exact-arithmetic twin of the float64 threshold test (Model/Epoch.lean reached)"],
    ),
}
