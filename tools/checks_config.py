# per-property configuration of ./check (which Lean modules hold the property theorems, which
# harness scenarios tie the model to the code, what is regenerated from source)
COMMON_TB = []

CHECKS = {
    "C19": dict(
        modules=["AggkitModel.Properties.C19"],
        scenarios=[dict(name="globalindex")],
        generated=[],
        leanchecker=True,
        level_text="Proved for all inputs in Lean 4 (no bound): C19_layout (contract bit layout), C19_roundtrip (all uint32 pairs, both flags), "
                   "decode_spec (DecodeGlobalIndex characterised for EVERY integer, never panics), C19_canonical and C19_consumers (every canonical "
                   "on-chain value is carried unchanged by the certificate field, commitment input, FEP chunk, wire and prover messages). "
                   "The model is hand-written; it is tied to the Go code by running the real functions (incl. grpc/prover conversions through verif hooks) "
                   "and the compiled Lean model on the same generated inputs and comparing all outputs byte for byte.",
        level_note="Trusted: Lean kernel; the digit-list model of math/big byte conversions; the correspondence run (generator-bounded); protobuf marshalling below the field value.",
        rule="boundary set^2 x flag exhaustively + seeded random (m,r,l) triples and canonical on-chain values; "
             "each case = enc + dec + all four consumers on the real functions; non-trivial/distinct = distinct (m,r,l) enc lines; "
             "separate malformed stream (non-canonical widths up to 12 bytes)",
        assumptions=["keccak of the LE buffer is compared byte-for-byte (driver Keccak validated against go-ethereum)",
                     "gRPC/protobuf marshalling below the FixedBytes32 value is trusted"],
        trusted_base=["model of big.Int.Bytes/FillBytes/SetBytes as base-256 digit lists (Model/Bytes.lean)"],
    ),
}
