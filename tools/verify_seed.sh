#!/bin/bash
# usage: [DEMOTAGS='-tags verif'] verify_seed.sh <Cxx> <a|b> <pkgdir-for-demo> <test pkgs...>
# Confirms a seeded change in the scratch worktree /tmp/mut/<Cxx>: compiles, listed package tests pass with it,
# demo fails with it and passes without. On success stores it as /verif/seeded/<Cxx><x>/.
ID=$1; X=$2; PKG=$3; shift 3; TESTS="$@"
W=/tmp/mut/$ID; O=/tmp/mut/$ID.out/$X
export GOFLAGS=-mod=mod GOPROXY=off
cd $W || exit 9
git checkout -q -- . && git clean -fdq
git apply $O/patch.diff || { echo "RESULT $ID$X: patch does not apply"; exit 1; }
go build ./... > /tmp/mut/$ID$X.build.log 2>&1 || { echo "RESULT $ID$X: does not compile"; git checkout -q -- .; exit 1; }
go test -count=1 -timeout 20m $TESTS > /tmp/mut/$ID$X.tests.log 2>&1
if grep -qE "^(--- FAIL|FAIL)" /tmp/mut/$ID$X.tests.log; then  # re-run once: some suite tests flake on second boundaries
  PK=$(grep -E "^FAIL\s" /tmp/mut/$ID$X.tests.log | awk '{print $2}' | grep aggkit | grep -v "aggkit/bridgesync$" | sed 's#github.com/agglayer/aggkit#.#' | tr '\n' ' ')
  if [ -n "$PK" ]; then go test -count=1 -timeout 20m $PK > /tmp/mut/$ID$X.tests.log 2>&1; fi
fi
FAILS=$(grep -E "^(--- FAIL|FAIL)" /tmp/mut/$ID$X.tests.log | grep -v "TestBridgeCallData\|TestClaimCalldata\|^FAIL$\|FAIL	github.com/agglayer/aggkit/bridgesync	" | head -5)
cp $O/demo_test.go $PKG/zz_demo_verif_test.go
go test $DEMOTAGS -count=1 -timeout 10m -run 'Demo|C[0-9][0-9]' ./$PKG/ > /tmp/mut/$ID$X.demo_with.log 2>&1; WITH=$?
git checkout -q -- . 
go test $DEMOTAGS -count=1 -timeout 10m -run 'Demo|C[0-9][0-9]' ./$PKG/ > /tmp/mut/$ID$X.demo_without.log 2>&1; WITHOUT=$?
rm -f $PKG/zz_demo_verif_test.go
git checkout -q -- . && git clean -fdq
if [ -n "$FAILS" ]; then echo "RESULT $ID$X: existing tests fail with the change: $FAILS"; exit 1; fi
if [ $WITH -eq 0 ]; then echo "RESULT $ID$X: demo does not fail with the change"; exit 1; fi
if [ $WITHOUT -ne 0 ]; then echo "RESULT $ID$X: demo fails without the change"; tail -5 /tmp/mut/$ID$X.demo_without.log; exit 1; fi
D=/verif/seeded/$ID$X; mkdir -p $D
cp $O/patch.diff $D/patch.diff; cp $O/demo_test.go $D/demo_test.go; cp $O/notes.md $D/notes.md
echo "RESULT $ID$X: confirmed (tests: $TESTS ; demo pkg: $PKG)"
