#!/bin/bash
# usage: tools/sweep.sh <scenario> <from> <to> [tier]  — runs the scenario on the CURRENT /repo for a range of seeds,
# compares with the model, prints one line per seed that shows a correspondence difference or a monitor failure
SC=$1; A=$2; B=$3; TIER=${4:-quick}
export GOFLAGS=-mod=mod GOPROXY=off
D=$(mktemp -d /verif/.build/sweep.XXXX)
(cd /verif/harness && go build -tags verif -o $D/harness .) || exit 3
bad=0
for s in $(seq $A $B); do
  rm -rf $D/o; timeout 1200 $D/harness $SC -seed $s -tier $TIER -out $D/o >/dev/null 2>$D/err || { echo "seed $s: harness exit $? $(tail -1 $D/err | cut -c1-200)"; bad=1; continue; }
  /verif/lean/.lake/build/bin/aggkit_driver $SC < $D/o/ops.txt > $D/o/model.txt
  d=$(diff $D/o/impl.txt $D/o/model.txt | grep -c '^<')
  m=$(python3 -c "
import json,re
s=json.load(open('$D/o/stats.json'));kf=[json.loads(l) for l in open('/verif/known_findings.jsonl')]
pats=[k['match'] for k in kf if k.get('status')=='known']
m=[x for x in (s['monitor_failures'] or []) if not any(re.search(p,x['desc']) for p in pats)]
print(len(m)); [print('   ',x['desc'][:200]) for x in m[:3]]")
  if [ "$d" != "0" ] || [ "$(echo "$m" | head -1)" != "0" ]; then echo "seed $s: diff=$d mon=$m"; bad=1; mkdir -p /verif/.build/sweepfail; cp $D/o/ops.txt /verif/.build/sweepfail/$SC.$s.ops.txt; fi
done
rm -rf $D
[ $bad = 0 ] && echo "sweep $SC $A..$B $TIER: clean"
