import AggkitModel.Proofs.AOTree
import AggkitModel.Model.TreeHistory
set_option linter.unusedSectionVars false
/-
Induction over whole histories (blocks that commit or roll back at any point, restarts, reorgs):
the machine's tables and in-memory object always refine "the leaves of the surviving blocks".
-/
namespace Aggkit
variable {α : Type} [DecidableEq α]

structure HInv (H : HashAlg α) (n : Nat) (s : TM α) (rows : List (Nat × α)) : Prop where
  notx : s.snap = none
  ao : AOInv H n s.t s.db (rows.map (·.2))
  blocks : s.db.roots.map (·.blockNum) = rows.map (·.1)
  mono : (rows.map (·.1)).Pairwise (· ≤ ·)

/-- well-formed input: what the chain and the bridge contract guarantee about a block's deposits -/
def WFop (H : HashAlg α) (n : Nat) (rows : List (Nat × α)) : HiOp α → Prop
  | .restart => True
  | .reorg _ => True
  | .block bn leaves o =>
    (∀ r ∈ rows, r.1 < bn) ∧
    leaves.map (·.1) = List.range' rows.length leaves.length ∧                 -- consecutive deposit counts
    (∀ l ∈ leaves, l.2 ≠ H.zero) ∧                                            -- leaf hashes are keccak outputs
    rows.length + leaves.length ≤ 2^n ∧
    (match o with | .commit => True | .rollbackAfter k _ => k ≤ leaves.length)

def WFhistory (H : HashAlg α) (n : Nat) : List (Nat × α) → List (HiOp α) → Prop
  | _, [] => True
  | rows, op :: ops => WFop H n rows op ∧ WFhistory H n (op.abs rows) ops


theorem step_begin (H : HashAlg α) (n : Nat) (s : TM α) (h : s.snap = none) :
    (TM.step H n s .begin).1 = { s with snap := some s.db, cbs := 0 } := by
  unfold TM.step; rw [h]
theorem step_commit (H : HashAlg α) (n : Nat) (s : TM α) (d : TreeDb α) (h : s.snap = some d) :
    (TM.step H n s .commit).1 = { s with snap := none, cbs := 0 } := by
  unfold TM.step; rw [h]
theorem step_rollback (H : HashAlg α) (n : Nat) (s : TM α) (d : TreeDb α) (h : s.snap = some d) :
    (TM.step H n s .rollback).1 =
      { s with db := d, snap := none, cbs := 0, t := if s.cbs > 0 then { s.t with lastIndex := -2 } else s.t } := by
  unfold TM.step; rw [h]
theorem step_restart (H : HashAlg α) (n : Nat) (s : TM α) (h : s.snap = none) :
    (TM.step H n s .restart).1 = { s with t := AOT.new H n } := by
  unfold TM.step; rw [h]
theorem step_reorg (H : HashAlg α) (n : Nat) (s : TM α) (d : TreeDb α) (b : Nat) (h : s.snap = some d) :
    (TM.step H n s (.reorg b)).1 = { s with db := s.db.reorg b } := by
  unfold TM.step; rw [h]
theorem step_add_ok (H : HashAlg α) (n : Nat) (s : TM α) (d : TreeDb α) (bn bp idx : Nat) (v : α)
    (t' : AOT α) (db' : TreeDb α) (h : s.snap = some d) (ha : addLeaf H n s.t s.db bn bp idx v = (t', .ok db')) :
    TM.step H n s (.add bn bp idx v) = ({ s with t := t', db := db', cbs := s.cbs + 1 }, .ok) := by
  unfold TM.step; rw [h]; simp only [TM.doAdd, ha]; rw [h]

theorem idx_of_range' {β : Type} (leaves : List (Nat × β)) (a : Nat)
    (h : leaves.map (·.1) = List.range' a leaves.length) :
    ∀ j, j < leaves.length → ∃ v, leaves[j]? = some (a + j, v) := by
  intro j hj
  have h1 : (leaves.map (·.1))[j]? = some (a + j) := by
    rw [h, List.getElem?_range' (by omega)]; simp
  rw [List.getElem?_map] at h1
  cases hl : leaves[j]? with
  | none => rw [hl] at h1; simp at h1
  | some x =>
    rw [hl] at h1; simp at h1
    exact ⟨x.2, by rw [← h1]⟩

theorem addAll_ok (H : HashAlg α) (hinj : H.Inj) (n bn : Nat) :
    ∀ (leaves : List (Nat × α)) (s : TM α) (ls : List α) (pos : Nat) (d : TreeDb α),
      s.snap = some d → AOInv H n s.t s.db ls →
      (∀ j, j < leaves.length → ∃ v, leaves[j]? = some (ls.length + j, v)) →
      (∀ l ∈ leaves, l.2 ≠ H.zero) → ls.length + leaves.length ≤ 2^n →
      (∀ r ∈ s.db.roots, r.blockNum < bn ∨ (r.blockNum = bn ∧ r.blockPos < pos)) →
      ∃ s', addAll H n bn s pos leaves = (s', true) ∧ s'.snap = some d ∧
        AOInv H n s'.t s'.db (ls ++ leaves.map (·.2)) ∧ s'.cbs = s.cbs + leaves.length ∧
        s'.db.roots.map (·.blockNum) = s.db.roots.map (·.blockNum) ++ List.replicate leaves.length bn := by
  intro leaves
  induction leaves with
  | nil => intro s ls pos d hs inv _ _ _ _; exact ⟨s, rfl, hs, by simpa using inv, by simp, by simp⟩
  | cons x rest ih =>
    intro s ls pos d hs inv hidx hnz hb hpos
    obtain ⟨idx, v⟩ := x
    obtain ⟨v0, hv0⟩ := hidx 0 (by simp)
    simp at hv0
    obtain ⟨hi, hvv⟩ := hv0; subst hi; subst hvv
    have hv : v ≠ H.zero := hnz (ls.length, v) (by simp)
    have hlt : ls.length < 2^n := by simp at hb; omega
    have hafter : ∀ r ∈ s.db.roots, (RootRow.after (α := α) ⟨v, 0, bn, pos⟩ r) = true := by
      intro r hr
      rcases hpos r hr with h | ⟨h1, h2⟩
      · simp [RootRow.after]; left; exact h
      · simp [RootRow.after]; right; exact ⟨h1.symm, h2⟩
    obtain ⟨t', db', h1, h2, h3⟩ := addLeaf_ok H hinj n s.t s.db ls inv bn pos v hv hlt hafter
    unfold addAll
    rw [step_add_ok H n s d bn pos ls.length v t' db' hs h1]
    simp only
    have := ih { s with t := t', db := db', cbs := s.cbs + 1 } (ls ++ [v]) (pos+1) d hs h2
      (by
        intro j hj
        obtain ⟨w, hw⟩ := hidx (j+1) (by simp; omega)
        refine ⟨w, ?_⟩
        simp only [List.getElem?_cons_succ] at hw
        rw [hw]; simp; omega)
      (fun l hl => hnz l (by simp [hl]))
      (by simp at hb ⊢; omega)
      (by
        intro r hr
        simp only [h3] at hr
        rcases List.mem_append.mp hr with h | h
        · rcases hpos r h with h' | ⟨h1', h2'⟩
          · left; exact h'
          · right; exact ⟨h1', by omega⟩
        · simp at h; subst h; right; simp)
    obtain ⟨s', e1, e2, e3, e4, e5⟩ := this
    refine ⟨s', e1, e2, ?_, ?_, ?_⟩
    · simpa [List.append_assoc] using e3
    · simp at e4 ⊢; omega
    · rw [e5]; simp [h3, List.replicate_succ]

/-- filtering a key-sorted list by `key < b` takes a prefix -/
theorem filter_lt_eq_take {β : Type} (key : β → Nat) (b : Nat) :
    ∀ (l : List β), (l.map key).Pairwise (· ≤ ·) →
      l.filter (fun x => key x < b) = l.take (l.filter (fun x => key x < b)).length := by
  intro l
  induction l with
  | nil => intro _; simp
  | cons x xs ih =>
    intro hs
    simp only [List.map_cons, List.pairwise_cons] at hs
    by_cases hx : key x < b
    · simp only [List.filter_cons, hx, decide_true, if_true, List.length_cons, List.take_succ_cons]
      rw [← ih hs.2]
    · have : xs.filter (fun y => key y < b) = [] := by
        rw [List.filter_eq_nil_iff]
        intro y hy
        have := hs.1 (key y) (List.mem_map.mpr ⟨y, hy, rfl⟩)
        simp; omega
      simp [hx, this]

theorem AOInv.take (H : HashAlg α) (n : Nat) (t : AOT α) (db : TreeDb α) (ls : List α)
    (inv : AOInv H n t db ls) (k : Nat)
    (hm : MemOK H n t (ls.take k)) : AOInv H n t { db with roots := db.roots.take k } (ls.take k) := by
  constructor
  · exact inv.cons
  · intro m hm'
    simp only [List.length_take] at hm'
    rw [List.take_take, Nat.min_eq_left (by omega)]
    exact inv.closed m (by omega)
  · refine ⟨by simp [inv.roots.1], ?_⟩
    intro i hi
    simp only [List.length_take] at hi
    obtain ⟨r, hr1, hr2, hr3⟩ := inv.roots.2 i (by omega)
    refine ⟨r, ?_, ?_, hr3⟩
    · simp only; rw [List.getElem?_take]; simp [show i < k by omega, hr1]
    · rw [hr2, vroot, vroot, List.take_take, Nat.min_eq_left (by omega)]
  · exact List.Pairwise.sublist (List.take_sublist _ _) inv.sorted
  · exact hm.1
  · exact hm.2
  · intro v hv; exact inv.nonzero v (List.mem_of_mem_take hv)
  · have := inv.bound; simp only [List.length_take]; omega

theorem filter_len_eq {β γ : Type} (k1 : β → Nat) (k2 : γ → Nat) (b : Nat) (l1 : List β) (l2 : List γ)
    (h : l1.map k1 = l2.map k2) :
    (l1.filter (fun x => k1 x < b)).length = (l2.filter (fun x => k2 x < b)).length := by
  induction l1 generalizing l2 with
  | nil => cases l2 with
    | nil => rfl
    | cons y ys => simp at h
  | cons x xs ih => cases l2 with
    | nil => simp at h
    | cons y ys =>
      simp only [List.map_cons, List.cons.injEq] at h
      simp only [List.filter_cons, h.1]
      split <;> simp [ih ys h.2]



theorem restart_inv (H : HashAlg α) (n : Nat) (s : TM α) (rows : List (Nat × α)) (inv : HInv H n s rows) :
    HInv H n (HiOp.run H n s .restart) rows := by
  simp only [HiOp.run]
  rw [step_restart H n s inv.notx]
  exact ⟨inv.notx, inv.ao.change_t _ ⟨fun h => by simp [AOT.new] at h, Or.inl rfl⟩, inv.blocks, inv.mono⟩

theorem reorg_inv (H : HashAlg α) (n : Nat) (s : TM α) (rows : List (Nat × α)) (inv : HInv H n s rows) (b : Nat) :
    HInv H n (HiOp.run H n s (.reorg b)) (rows.filter (fun r => r.1 < b)) := by
  simp only [HiOp.run]
  rw [step_begin H n s inv.notx, step_reorg H n _ s.db b rfl, step_commit H n _ s.db rfl]
  have hk := filter_len_eq (fun r : RootRow α => r.blockNum) (fun r : Nat × α => r.1) b s.db.roots rows inv.blocks
  have hroots := filter_lt_eq_take (fun r : RootRow α => r.blockNum) b s.db.roots (by rw [inv.blocks]; exact inv.mono)
  have hrows := filter_lt_eq_take (fun r : Nat × α => r.1) b rows inv.mono
  refine ⟨rfl, ?_, ?_, ?_⟩
  · simp only [TreeDb.reorg]
    rw [hroots, hrows, hk, List.map_take]
    apply AOInv.take H n _ _ _ inv.ao
    have hm := inv.ao.memOK
    by_cases hlen : (rows.filter (fun r => decide (r.1 < b))).length < (rows.map (·.2)).length
    · refine ⟨fun h => ?_, ?_⟩
      · exfalso
        rcases hm.2 with h2 | h2
        · rw [h2] at h; simp at h
        · simp only [List.length_take, List.length_map] at h h2 hlen; omega
      · rcases hm.2 with h2 | h2
        · left; exact h2
        · right; simp only [List.length_take, List.length_map] at h2 ⊢; omega
    · have : (rows.map (·.2)).take (rows.filter (fun r => decide (r.1 < b))).length = rows.map (·.2) :=
        List.take_of_length_le (by omega)
      rw [this]; exact hm
  · simp only [TreeDb.reorg]
    rw [hroots, hrows, hk, List.map_take, List.map_take, inv.blocks]
  · rw [hrows, List.map_take]
    exact List.Pairwise.sublist (List.take_sublist _ _) inv.mono

theorem block_commit_inv (H : HashAlg α) (hinj : H.Inj) (n : Nat) (s : TM α) (rows : List (Nat × α))
    (inv : HInv H n s rows) (bn : Nat) (leaves : List (Nat × α)) (wf : WFop H n rows (.block bn leaves .commit)) :
    HInv H n (HiOp.run H n s (.block bn leaves .commit)) (rows ++ leaves.map (fun l => (bn, l.2))) := by
  obtain ⟨w1, w2', w3, w4, _⟩ := wf
  have w2 := idx_of_range' leaves rows.length w2'
  simp only [HiOp.run]
  rw [step_begin H n s inv.notx]
  have hpos : ∀ r ∈ s.db.roots, r.blockNum < bn ∨ (r.blockNum = bn ∧ r.blockPos < 0) := by
    intro r hr
    left
    have : r.blockNum ∈ s.db.roots.map (·.blockNum) := List.mem_map.mpr ⟨r, hr, rfl⟩
    rw [inv.blocks] at this
    obtain ⟨x, hx, hxe⟩ := List.mem_map.mp this
    rw [← hxe]; exact w1 x hx
  obtain ⟨s', e1, e2, e3, _, e5⟩ := addAll_ok H hinj n bn leaves { s with snap := some s.db, cbs := 0 }
    (rows.map (·.2)) 0 s.db rfl inv.ao (by simpa using w2) w3 (by simpa using w4) hpos
  rw [e1]
  simp only [if_true]
  rw [step_commit H n s' s.db e2]
  refine ⟨rfl, ?_, ?_, ?_⟩
  · simpa [List.map_append, List.map_map, Function.comp_def] using e3
  · simp only [e5, inv.blocks, List.map_append, List.map_map, Function.comp_def]
    congr 1
    exact List.map_const'.symm
  · rw [List.map_append, List.pairwise_append]
    refine ⟨inv.mono, ?_, ?_⟩
    · simp only [List.map_map, Function.comp_def]
      rw [List.pairwise_map]
      exact List.pairwise_of_forall (fun _ _ => Nat.le_refl _)
    · intro a ha b hb
      obtain ⟨x, hx, rfl⟩ := List.mem_map.mp ha
      simp only [List.map_map, Function.comp_def, List.mem_map] at hb
      obtain ⟨y, _, rfl⟩ := hb
      exact Nat.le_of_lt (w1 x hx)


theorem block_rollback_inv (H : HashAlg α) (hinj : H.Inj) (n : Nat) (s : TM α) (rows : List (Nat × α))
    (inv : HInv H n s rows) (bn : Nat) (leaves : List (Nat × α)) (k : Nat) (mid : Bool)
    (wf : WFop H n rows (.block bn leaves (.rollbackAfter k mid))) :
    HInv H n (HiOp.run H n s (.block bn leaves (.rollbackAfter k mid))) rows := by
  obtain ⟨w1, w2', w3, w4, w5⟩ := wf
  have w2 := idx_of_range' leaves rows.length w2'
  simp only at w5
  simp only [HiOp.run]
  rw [step_begin H n s inv.notx]
  have hpos : ∀ r ∈ s.db.roots, r.blockNum < bn ∨ (r.blockNum = bn ∧ r.blockPos < 0) := by
    intro r hr
    left
    have : r.blockNum ∈ s.db.roots.map (·.blockNum) := List.mem_map.mpr ⟨r, hr, rfl⟩
    rw [inv.blocks] at this
    obtain ⟨x, hx, hxe⟩ := List.mem_map.mp this
    rw [← hxe]; exact w1 x hx
  have hlen : (leaves.take k).length = k := by simp; omega
  obtain ⟨s2, e1, e2, e3, e4, _⟩ := addAll_ok H hinj n bn (leaves.take k) { s with snap := some s.db, cbs := 0 }
    (rows.map (·.2)) 0 s.db rfl inv.ao
    (by
      intro j hj
      rw [hlen] at hj
      obtain ⟨v, hv⟩ := w2 j (by omega)
      exact ⟨v, by rw [List.getElem?_take]; simp [hj]; simpa using hv⟩)
    (fun l hl => w3 l (List.mem_of_mem_take hl))
    (by simp only [List.length_map, hlen]; omega) hpos
  rw [e1]
  simp only
  rw [hlen] at e4
  simp only [Nat.zero_add] at e4
  -- the state just before the rollback statement
  generalize hs3 : (if mid = true then
      match leaves[k]? with
      | some (idx, v) => { s2 with t := addLeafStoreFault H n s2.t s2.db idx v }
      | none => s2
    else s2) = s3
  have h3snap : s3.snap = some s.db := by
    rw [← hs3]; split
    · split <;> simp [e2]
    · exact e2
  have h3cbs : s3.cbs = k := by
    rw [← hs3]; split
    · split <;> simp [e4]
    · exact e4
  rw [step_rollback H n s3 s.db h3snap]
  refine ⟨rfl, ?_, inv.blocks, inv.mono⟩
  apply inv.ao.change_t
  by_cases hk : k > 0
  · simp only [h3cbs, hk, if_true]
    exact ⟨fun h => by simp at h, Or.inl rfl⟩
  · have hk0 : k = 0 := by omega
    subst hk0
    simp only [h3cbs, Nat.lt_irrefl, if_false]
    -- no AddLeaf succeeded: s2 is the state after `begin`
    have hs2 : s2 = { s with snap := some s.db, cbs := 0 } := by
      simp [addAll] at e1; exact e1.symm
    rw [← hs3]
    split
    · split
      · rename_i idx v hl
        obtain ⟨v', hv'⟩ := w2 0 (by
          rcases leaves with _ | ⟨x, xs⟩
          · simp at hl
          · simp)
        rw [hl] at hv'; simp at hv'
        obtain ⟨hi, _⟩ := hv'
        subst hi hs2
        simp only
        have := addLeafStoreFault_memOK H hinj n s.t s.db (rows.map (·.2)) inv.ao v
        simpa using this
      · subst hs2; exact inv.ao.memOK
    · subst hs2; exact inv.ao.memOK

/-- one history step preserves the refinement -/
theorem HiOp.run_inv (H : HashAlg α) (hinj : H.Inj) (n : Nat) (s : TM α) (rows : List (Nat × α))
    (inv : HInv H n s rows) (op : HiOp α) (wf : WFop H n rows op) :
    HInv H n (op.run H n s) (op.abs rows) := by
  cases op with
  | restart => exact restart_inv H n s rows inv
  | reorg b => exact reorg_inv H n s rows inv b
  | block bn leaves o =>
    cases o with
    | commit => exact block_commit_inv H hinj n s rows inv bn leaves wf
    | rollbackAfter k mid => exact block_rollback_inv H hinj n s rows inv bn leaves k mid wf

theorem runHistory_inv (H : HashAlg α) (hinj : H.Inj) (n : Nat) :
    ∀ (ops : List (HiOp α)) (s : TM α) (rows : List (Nat × α)),
      HInv H n s rows → WFhistory H n rows ops →
      HInv H n (runHistory H n s ops) (absHistory rows ops) := by
  intro ops
  induction ops with
  | nil => intro s rows inv _; exact inv
  | cons op ops ih =>
    intro s rows inv wf
    simp only [runHistory, absHistory, List.foldl_cons]
    exact ih _ _ (HiOp.run_inv H hinj n s rows inv op wf.1) wf.2

theorem init_inv (H : HashAlg α) (n : Nat) : HInv H n (TM.init H n) [] := by
  refine ⟨rfl, ?_, rfl, by simp⟩
  constructor
  · intro nd hnd; simp [TM.init] at hnd
  · intro m hm hh q _ ⟨p, hp, _⟩
    simp at hm; subst hm; omega
  · exact ⟨rfl, fun i hi => by simp at hi⟩
  · simp [Sorted, TM.init]
  · intro h; simp [TM.init, AOT.new] at h
  · left; rfl
  · intro v hv; simp at hv
  · simp

end Aggkit
