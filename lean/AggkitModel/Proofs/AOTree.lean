import AggkitModel.Proofs.Merkle
import AggkitModel.Model.TreeMachine
set_option linter.unusedSectionVars false
/-
The append-only tree object + its tables refine "a list of leaves": invariant `AOInv`, preserved by
AddLeaf (any index, any carry pattern), by rebuilding the cache (restart / reorg), by rollback.
-/
namespace Aggkit
variable {α : Type} [DecidableEq α]

theorem leafFn_ge (H : HashAlg α) (ls : List α) (j : Nat) (h : ls.length ≤ j) : leafFn H ls j = H.zero := by
  simp [leafFn, List.getD_eq_getElem?_getD, List.getElem?_eq_none h]

theorem leafFn_append (H : HashAlg α) (ls : List α) (v : α) :
    updateFn (leafFn H ls) ls.length v = leafFn H (ls ++ [v]) := by
  funext j
  simp only [updateFn, leafFn, List.getD_eq_getElem?_getD]
  by_cases e : j = ls.length
  · subst e; simp
  · simp only [e, if_false]
    by_cases l : j < ls.length
    · rw [List.getElem?_append_left l]
    · rw [List.getElem?_eq_none (by omega), List.getElem?_eq_none (by simp; omega)]

theorem leafFn_take_lt (H : HashAlg α) (ls : List α) (m j : Nat) (h : j < m) :
    leafFn H (ls.take m) j = leafFn H ls j := by
  simp [leafFn, List.getD_eq_getElem?_getD, List.getElem?_take, h]

/-- root hash of the version holding the first `m` leaves -/
def vroot (H : HashAlg α) (n : Nat) (ls : List α) (m : Nat) : α := tn H (leafFn H (ls.take m)) n 0

theorem vroot_eq_specRoot (H : HashAlg α) (n : Nat) (ls : List α) (m : Nat) :
    vroot H n ls m = specRoot H n (ls.take m) := by simp [vroot, specRoot, tn]

def RootsOK (H : HashAlg α) (n : Nat) (db : TreeDb α) (ls : List α) : Prop :=
  db.roots.length = ls.length ∧
  ∀ i, i < ls.length → ∃ r, db.roots[i]? = some r ∧ r.hash = vroot H n ls (i+1) ∧ r.index = i

def Sorted (db : TreeDb α) : Prop := db.roots.Pairwise (fun a b => b.after a = true)

structure AOInv (H : HashAlg α) (n : Nat) (t : AOT α) (db : TreeDb α) (ls : List α) : Prop where
  cons : Consistent H db.rht
  closed : ∀ m, m ≤ ls.length → Closed H n db.rht (leafFn H (ls.take m)) (fun p => p < m)
  roots : RootsOK H n db ls
  sorted : Sorted db
  frontier : t.lastIndex + 1 = ls.length → FrontierOK H n (leafFn H ls) t.cache ls.length
  ge : t.lastIndex = -2 ∨ (ls.length : Int) ≤ t.lastIndex + 1
  nonzero : ∀ v ∈ ls, v ≠ H.zero
  bound : ls.length ≤ 2^n

/-- foldl of `getLastRoot` returns a member, and the last element on sorted input -/
theorem getLastRoot_foldl_mem (rs : List (RootRow α)) (b0 : Option (RootRow α)) :
    ∀ r, rs.foldl (fun best r => match best with
      | none => some r
      | some b => if r.after b then some r else some b) b0 = some r → r ∈ rs ∨ b0 = some r := by
  induction rs generalizing b0 with
  | nil => intro r h; right; simpa using h
  | cons x rs ih =>
    intro r h
    simp only [List.foldl_cons] at h
    rcases ih _ r h with h1 | h1
    · left; simp [h1]
    · cases b0 with
      | none => simp at h1; left; simp [h1]
      | some b =>
        simp only at h1
        split at h1
        · simp at h1; left; simp [h1]
        · right; exact h1

theorem getLastRoot_snoc (db : TreeDb α) (rs : List (RootRow α)) (r : RootRow α)
    (hr : db.roots = rs ++ [r]) (hs : Sorted db) : getLastRoot db = some r := by
  unfold getLastRoot
  rw [hr, List.foldl_append]
  simp only [List.foldl_cons, List.foldl_nil]
  cases hb : rs.foldl (fun best r => match best with
      | none => some r
      | some b => if r.after b then some r else some b) none with
  | none => rfl
  | some b =>
    simp only
    have hmem : b ∈ rs := by
      rcases getLastRoot_foldl_mem rs none b hb with h | h
      · exact h
      · simp at h
    unfold Sorted at hs
    rw [hr, List.pairwise_append] at hs
    have := hs.2.2 b hmem r (by simp)
    simp [this]

theorem getLastRoot_nil (db : TreeDb α) (h : db.roots = []) : getLastRoot db = none := by
  simp [getLastRoot, h]

/-- rebuilding the cache from the tables yields a valid frontier for the stored leaves -/
theorem initCache_ok (H : HashAlg α) (hinj : H.Inj) (n : Nat) (t : AOT α) (db : TreeDb α) (ls : List α)
    (inv : AOInv H n t db ls) :
    ∃ t', initCache H n db = .ok t' ∧ t'.lastIndex + 1 = ls.length ∧
      FrontierOK H n (leafFn H ls) t'.cache ls.length := by
  rcases List.eq_nil_or_concat ls with hnil | ⟨ls0, v, hls⟩
  · -- empty tree
    subst hnil
    have hr : db.roots = [] := by
      have := inv.roots.1; simpa using this
    unfold initCache
    rw [getLastRoot_nil db hr]
    refine ⟨_, rfl, by simp, ?_⟩
    refine ⟨by simp, ?_⟩
    intro h _ hb; simp at hb
  · -- last root row = version with all leaves
    have hlen : ls.length = ls0.length + 1 := by rw [hls]; simp
    obtain ⟨r, hr1, hr2, hr3⟩ := inv.roots.2 ls0.length (by omega)
    have hrl : db.roots.length = ls0.length + 1 := by rw [inv.roots.1, hlen]
    have hsplit : db.roots = db.roots.take ls0.length ++ [r] := by
      have := List.take_append_drop ls0.length db.roots
      conv => lhs; rw [← this]
      congr 1
      have hd : (db.roots.drop ls0.length).length = 1 := by simp; omega
      match hdr : db.roots.drop ls0.length, hd with
      | [x], _ =>
        have : db.roots[ls0.length]? = some x := by
          have := List.getElem?_drop (xs := db.roots) (i := ls0.length) (j := 0)
          rw [hdr] at this; simpa using this.symm
        rw [hr1] at this; simp at this; rw [this]
    have hlast := getLastRoot_snoc db _ r hsplit inv.sorted
    unfold initCache
    rw [hlast]
    simp only
    have htake : ls.take (ls0.length + 1) = ls := by rw [← hlen]; simp
    have hroot : r.hash = tn H (leafFn H ls) n 0 := by rw [hr2, vroot, htake]
    have hcl := inv.closed ls.length (Nat.le_refl _)
    rw [List.take_length] at hcl
    have hb : ls0.length < 2^n := by have := inv.bound; omega
    have hw := initWalk_spec H hinj n db.rht (leafFn H ls) (fun p => p < ls.length) inv.cons hcl
      ls0.length (by omega) n [] (Nat.le_refl _)
    rw [Nat.div_eq_of_lt hb] at hw
    rw [hr3, hroot, hw]
    refine ⟨_, rfl, by simp; omega, ?_⟩
    simp only [List.append_nil]
    rw [hlen]
    exact frontier_of_initWalk H n (leafFn H ls) ls0.length

/-- **AddLeaf refines append**: with the invariant, the next index, a non-zero leaf and a position
    after the last root row, AddLeaf succeeds and the invariant holds for `ls ++ [v]`. -/
theorem addLeaf_ok (H : HashAlg α) (hinj : H.Inj) (n : Nat) (t : AOT α) (db : TreeDb α) (ls : List α)
    (inv : AOInv H n t db ls) (bn bp : Nat) (v : α) (hv : v ≠ H.zero) (hb : ls.length < 2^n)
    (hafter : ∀ r ∈ db.roots, (RootRow.after (α := α) ⟨v, 0, bn, bp⟩ r) = true) :
    ∃ t' db', addLeaf H n t db bn bp ls.length v = (t', .ok db') ∧ AOInv H n t' db' (ls ++ [v]) ∧
      db'.roots = db.roots ++ [⟨vroot H n (ls ++ [v]) (ls.length + 1), ls.length, bn, bp⟩] := by
  -- step 1: the frontier in use after the optional initCache
  have hpre : ∃ t1 : AOT α, (if ((ls.length : Nat) : Int) ≠ t.lastIndex + 1 then initCache H n db else .ok t) = .ok t1 ∧
      t1.lastIndex + 1 = ls.length ∧ FrontierOK H n (leafFn H ls) t1.cache ls.length := by
    by_cases e : ((ls.length : Nat) : Int) ≠ t.lastIndex + 1
    · rw [if_pos e]
      obtain ⟨t', h1, h2, h3⟩ := initCache_ok H hinj n t db ls inv
      exact ⟨t', h1, h2, h3⟩
    · rw [if_neg e]
      have e' : t.lastIndex + 1 = ls.length := by omega
      exact ⟨t, rfl, e', inv.frontier e'⟩
  obtain ⟨t1, hp1, hp2, hp3⟩ := hpre
  obtain ⟨l1, l2, l3⟩ := addLoop_full H n (leafFn H ls) ls.length v t1.cache
    (fun j hj => leafFn_ge H ls j hj) hp3
  rw [leafFn_append] at l1 l2 l3
  rw [Nat.div_eq_of_lt hb] at l1
  have htk : (ls ++ [v]).take (ls.length + 1) = ls ++ [v] := List.take_of_length_le (by simp)
  have hroot : (addLoop H ls.length n 0 t1.cache v []).2.1 = vroot H n (ls ++ [v]) (ls.length + 1) := by
    rw [l1, vroot, htk]
  -- the new root hash is not yet in the root table (primary key)
  have hfresh : db.roots.any (fun x => x.hash = vroot H n (ls ++ [v]) (ls.length + 1)) = false := by
    rw [Bool.eq_false_iff]
    intro hany
    rw [List.any_eq_true] at hany
    obtain ⟨x, hx, hxe⟩ := hany
    simp only [decide_eq_true_eq] at hxe
    obtain ⟨i, hi, hxi⟩ := List.getElem_of_mem hx
    have hi' : i < ls.length := by rw [← inv.roots.1]; exact hi
    obtain ⟨r, hr1, hr2, _⟩ := inv.roots.2 i hi'
    have : db.roots[i]? = some x := by rw [List.getElem?_eq_getElem hi]; exact congrArg some hxi
    rw [this] at hr1; simp at hr1; subst hr1
    rw [hr2] at hxe
    -- equal roots ⇒ equal leaves at position `ls.length`; one is `v`, the other zero
    have := tn_inj H hinj _ _ n 0 hxe ls.length (Nat.div_eq_of_lt hb)
    rw [htk] at this
    have e1 : leafFn H (ls ++ [v]) ls.length = v := by simp [leafFn, List.getD_eq_getElem?_getD]
    have e2 : leafFn H (ls.take (i+1)) ls.length = H.zero := leafFn_ge H _ _ (by simp <;> omega)
    rw [e1, e2] at this
    exact hv this.symm
  refine ⟨{ t1 with cache := (addLoop H ls.length n 0 t1.cache v []).1, lastIndex := t1.lastIndex + 1 },
    { roots := db.roots ++ [⟨vroot H n (ls ++ [v]) (ls.length + 1), ls.length, bn, bp⟩],
      rht := storeNodes db.rht (pathNodes H n (leafFn H (ls ++ [v])) ls.length) }, ?_, ?_, rfl⟩
  · unfold addLeaf
    simp only [hp1]
    have : ¬ (((ls.length : Nat) : Int) ≠ t1.lastIndex + 1) := by omega
    simp only [this, if_false]
    rw [show addLoop H ls.length n 0 t1.cache v [] =
      ((addLoop H ls.length n 0 t1.cache v []).1, (addLoop H ls.length n 0 t1.cache v []).2.1,
       (addLoop H ls.length n 0 t1.cache v []).2.2) from rfl]
    simp only [hroot, l2, storeRoot, hfresh, Bool.false_eq_true, if_false, pathNodes]
  · constructor
    · exact storeNodes_consistent H _ _ inv.cons (pathNodes_consistent H n _ _)
    · intro m hm
      simp only [List.length_append, List.length_cons, List.length_nil] at hm
      by_cases hm' : m ≤ ls.length
      · rw [List.take_append_of_le_length hm']
        exact closed_mono H n _ _ _ _ (inv.closed m hm')
      · have hme : m = ls.length + 1 := by omega
        subst hme
        rw [htk]
        have hc := closed_update H n db.rht (leafFn H ls) (fun p => p < ls.length) ls.length v
          (by have := inv.closed ls.length (Nat.le_refl _); rwa [List.take_length] at this)
        rw [leafFn_append] at hc
        have hW : (fun p => p < ls.length ∨ p = ls.length) = (fun p => p < ls.length + 1) := by
          funext p; exact propext (by omega)
        rwa [hW] at hc
    · refine ⟨by simp [inv.roots.1], ?_⟩
      intro i hi
      simp only [List.length_append, List.length_cons, List.length_nil] at hi
      by_cases hi' : i < ls.length
      · obtain ⟨r, hr1, hr2, hr3⟩ := inv.roots.2 i hi'
        refine ⟨r, ?_, ?_, hr3⟩
        · simp only
          rw [List.getElem?_append_left (by rw [inv.roots.1]; exact hi')]; exact hr1
        · rw [hr2, vroot, vroot, List.take_append_of_le_length (by omega)]
      · have hie : i = ls.length := by omega
        subst hie
        refine ⟨⟨vroot H n (ls ++ [v]) (ls.length + 1), ls.length, bn, bp⟩, ?_, rfl, rfl⟩
        simp only
        rw [List.getElem?_append_right (by rw [inv.roots.1])]
        simp [inv.roots.1]
    · unfold Sorted
      simp only
      rw [List.pairwise_append]
      refine ⟨inv.sorted, by simp, ?_⟩
      intro a ha b hb'
      simp at hb'; subst hb'
      have := hafter a ha
      simpa [RootRow.after] using this
    · intro _
      simp only [List.length_append, List.length_cons, List.length_nil]
      exact l3
    · right; simp only [List.length_append, List.length_cons, List.length_nil]; omega
    · intro x hx
      rcases List.mem_append.mp hx with h | h
      · exact inv.nonzero x h
      · simp at h; subst h; exact hv
    · simp; omega


/-- the part of the invariant that concerns the in-memory object only -/
def MemOK (H : HashAlg α) (n : Nat) (t : AOT α) (ls : List α) : Prop :=
  (t.lastIndex + 1 = ls.length → FrontierOK H n (leafFn H ls) t.cache ls.length) ∧
  (t.lastIndex = -2 ∨ (ls.length : Int) ≤ t.lastIndex + 1)

theorem AOInv.change_t {H : HashAlg α} {n : Nat} {t : AOT α} {db : TreeDb α} {ls : List α}
    (inv : AOInv H n t db ls) (t' : AOT α) (hm : MemOK H n t' ls) : AOInv H n t' db ls :=
  { inv with frontier := hm.1, ge := hm.2 }

theorem AOInv.memOK {H : HashAlg α} {n : Nat} {t : AOT α} {db : TreeDb α} {ls : List α}
    (inv : AOInv H n t db ls) : MemOK H n t ls := ⟨inv.frontier, inv.ge⟩

/-- the cache writes of a (later failing) AddLeaf at the next index keep the frontier valid -/
theorem addLoop_keeps_frontier (H : HashAlg α) (n : Nat) (f : Nat → α) (c : List α) (cnt : Nat) (v : α)
    (hz : ∀ j, cnt ≤ j → f j = H.zero) (hfr : FrontierOK H n f c cnt) :
    FrontierOK H n f (addLoop H cnt n 0 c v []).1 cnt := by
  have hz' : ∀ j, cnt < j → updateFn f cnt v j = H.zero := by
    intro j hj; simp only [updateFn]; rw [if_neg (by omega)]; exact hz j (by omega)
  have hcur : v = tn H (updateFn f cnt v) 0 (cnt / 2^0) := by simp [tn_zero, updateFn]
  have hc : ∀ h', 0 ≤ h' → h' < 0 + n → (cnt / 2^h') % 2 = 1 →
      c.getD h' H.zero = tn H (updateFn f cnt v) h' (cnt / 2^h' - 1) := by
    intro h' _ hh hb
    rw [hfr.2 h' (by omega) hb]
    apply tn_congr
    intro j hj
    simp only [updateFn]; rw [if_neg]; intro e; subst e; omega
  obtain ⟨_, _, r3, _, r5⟩ := addLoop_spec H (updateFn f cnt v) cnt hz' n 0 c v [] hcur hc (by rw [hfr.1]; omega)
  refine ⟨by rw [r3]; exact hfr.1, ?_⟩
  intro h hh hb
  rw [(r5 h (by omega) (by omega)).1 hb]
  exact hfr.2 h hh hb

/-- a store-statement fault inside the next AddLeaf leaves a valid in-memory object -/
theorem addLeafStoreFault_memOK (H : HashAlg α) (hinj : H.Inj) (n : Nat) (t : AOT α) (db : TreeDb α)
    (ls : List α) (inv : AOInv H n t db ls) (v : α) :
    MemOK H n (addLeafStoreFault H n t db ls.length v) ls := by
  unfold addLeafStoreFault
  by_cases e : ((ls.length : Nat) : Int) ≠ t.lastIndex + 1
  · obtain ⟨t', h1, h2, h3⟩ := initCache_ok H hinj n t db ls inv
    rw [if_pos e, h1]
    have : ¬ (((ls.length : Nat) : Int) ≠ t'.lastIndex + 1) := by omega
    simp only []
    rw [if_neg this]
    exact ⟨fun _ => addLoop_keeps_frontier H n _ _ _ v (fun j hj => leafFn_ge H ls j hj) h3, Or.inr (by simp; omega)⟩
  · rw [if_neg e]
    simp only []
    rw [if_neg e]
    have e' : t.lastIndex + 1 = ls.length := by omega
    exact ⟨fun _ => addLoop_keeps_frontier H n _ _ _ v (fun j hj => leafFn_ge H ls j hj) (inv.frontier e'),
      Or.inr (by simp; omega)⟩

end Aggkit
