import AggkitModel.Model.Aggsender
import AggkitModel.Properties.C17
/- invariants of the certificate protocol (helper lemmas; the property theorems are in Properties/C02, C13) -/
namespace Aggkit.Aggsender
open Aggkit.CertRange Aggkit.C17

/-- what the next certificate must look like, given everything the Agglayer holds: (height, previous exit root,
    first block) -/
def expect (cfg : Cfg) (pre : List ACert) : Nat × Nat × Nat :=
  match lastSettled pre with
  | none => (0, 0, cfg.start + 1)
  | some p => (p.height + 1, p.new, p.to_ + 1)

theorem lastSettled_snoc (pre : List ACert) (c : ACert) :
    lastSettled (pre ++ [c]) = if c.status = .settled then some c else lastSettled pre := by
  unfold lastSettled
  rw [List.filter_append]
  by_cases h : c.status = .settled
  · simp [h]
  · simp [h]

theorem expect_snoc_settled (cfg : Cfg) (pre : List ACert) (c : ACert) (h : c.status = .settled) :
    expect cfg (pre ++ [c]) = (c.height + 1, c.new, c.to_ + 1) := by
  unfold expect; rw [lastSettled_snoc, if_pos h]

theorem expect_snoc_not (cfg : Cfg) (pre : List ACert) (c : ACert) (h : c.status ≠ .settled) :
    expect cfg (pre ++ [c]) = expect cfg pre := by
  unfold expect; rw [lastSettled_snoc, if_neg h]

/-- a local row describes an Agglayer certificate (its status may lag behind while it is still open locally) -/
structure Matches (r : Row) (c : ACert) : Prop where
  id : r.id = c.id
  height : r.height = c.height
  from_ : r.from_ = c.from_
  to_ : r.to_ = c.to_
  new : r.new = c.new
  prev : r.prev = some c.prev ∨ r.prev = none
  status : r.status = c.status ∨ r.status.isOpen = true

/-- L2 data as the bridge syncer stores it: events carry their block number; block numbers fit the metadata offset -/
def L2WF (l2 : List L2Blk) : Prop :=
  ∀ b ∈ l2, b.num < 2^32 ∧ (∀ e ∈ b.bridges, e.block = b.num) ∧ (∀ e ∈ b.claims, e.block = b.num)

theorem bridgesIn_inRange (l2 : List L2Blk) (hw : L2WF l2) (f t : Nat) :
    ∀ e ∈ bridgesIn l2 f t, inRange f t e = true := by
  intro e he
  unfold bridgesIn at he
  rw [List.mem_flatMap] at he
  obtain ⟨b, hb, heb⟩ := he
  rw [List.mem_filter] at hb
  have := (hw b hb.1).2.1 e heb
  unfold inRange; rw [this]; exact hb.2

theorem claimsIn_inRange (l2 : List L2Blk) (hw : L2WF l2) (f t : Nat) :
    ∀ e ∈ claimsIn l2 f t, inRange f t e = true := by
  intro e he
  unfold claimsIn at he
  rw [List.mem_flatMap] at he
  obtain ⟨b, hb, heb⟩ := he
  rw [List.mem_filter] at hb
  have := (hw b hb.1).2.2 e heb
  unfold inRange; rw [this]; exact hb.2

theorem bridgesIn_narrow (l2 : List L2Blk) (hw : L2WF l2) (f t t' : Nat) (ht : t' ≤ t) :
    (bridgesIn l2 f t).filter (inRange f t') = bridgesIn l2 f t' := by
  unfold bridgesIn
  induction l2 with
  | nil => simp
  | cons b rest ih =>
    have hw' : L2WF rest := fun x hx => hw x (List.mem_cons_of_mem _ hx)
    have hb := hw b (List.mem_cons_self ..)
    simp only [List.filter_cons]
    by_cases c1 : (decide (f ≤ b.num) && decide (b.num ≤ t)) = true
    · rw [if_pos c1]
      simp only [List.flatMap_cons, List.filter_append]
      rw [ih hw']
      by_cases c2 : (decide (f ≤ b.num) && decide (b.num ≤ t')) = true
      · rw [if_pos c2]
        simp only [List.flatMap_cons]
        congr 1
        apply List.filter_eq_self.mpr
        intro e he
        unfold inRange; rw [hb.2.1 e he]; exact c2
      · rw [if_neg c2]
        have : b.bridges.filter (inRange f t') = [] := by
          apply List.filter_eq_nil_iff.mpr
          intro e he
          unfold inRange; rw [hb.2.1 e he]; exact c2
        rw [this]; simp
    · rw [if_neg c1]
      have c2 : ¬ (decide (f ≤ b.num) && decide (b.num ≤ t')) = true := by
        simp only [Bool.and_eq_true, decide_eq_true_eq] at c1 ⊢
        omega
      rw [if_neg c2]
      exact ih hw'

theorem claimsIn_narrow (l2 : List L2Blk) (hw : L2WF l2) (f t t' : Nat) (ht : t' ≤ t) :
    (claimsIn l2 f t).filter (inRange f t') = claimsIn l2 f t' := by
  unfold claimsIn
  induction l2 with
  | nil => simp
  | cons b rest ih =>
    have hw' : L2WF rest := fun x hx => hw x (List.mem_cons_of_mem _ hx)
    have hb := hw b (List.mem_cons_self ..)
    simp only [List.filter_cons]
    by_cases c1 : (decide (f ≤ b.num) && decide (b.num ≤ t)) = true
    · rw [if_pos c1]
      simp only [List.flatMap_cons, List.filter_append]
      rw [ih hw']
      by_cases c2 : (decide (f ≤ b.num) && decide (b.num ≤ t')) = true
      · rw [if_pos c2]
        simp only [List.flatMap_cons]
        congr 1
        apply List.filter_eq_self.mpr
        intro e he
        unfold inRange; rw [hb.2.2 e he]; exact c2
      · rw [if_neg c2]
        have : b.claims.filter (inRange f t') = [] := by
          apply List.filter_eq_nil_iff.mpr
          intro e he
          unfold inRange; rw [hb.2.2 e he]; exact c2
        rw [this]; simp
    · rw [if_neg c1]
      have c2 : ¬ (decide (f ≤ b.num) && decide (b.num ≤ t')) = true := by
        simp only [Bool.and_eq_true, decide_eq_true_eq] at c1 ⊢
        omega
      rw [if_neg c2]
      exact ih hw'

theorem lastProcessed_lt (l2 : List L2Blk) (hw : L2WF l2) : lastProcessed l2 < 2^32 := by
  unfold lastProcessed
  cases h : l2.getLast? with
  | none => simp
  | some b => exact (hw b (List.mem_of_getLast? h)).1


/-- `limitCertSize` on what `GetBridgesAndClaims` returned: a prefix cut that keeps the retry flag -/
theorem limit_cut (size : Params → Nat) (maxSize : Nat) (p : Params) (hp : WFp p) :
    ∃ q, limitCertSize size maxSize p = some q ∧ q = cutTo p q.to_ ∧ p.from_ ≤ q.to_ ∧ q.to_ ≤ p.to_ := by
  have hself : p = cutTo p p.to_ := by
    simp only [cutTo]
    rw [filter_inRange_self _ _ _ hp.2.1, filter_inRange_self _ _ _ hp.2.2]
  obtain ⟨q, h1, h2, h3, h4, _, _⟩ := limitAux_spec size maxSize p hp (p.to_ - p.from_ + 2) p hself hp.1
    (Nat.le_refl _) (by omega) (fun t h1 h2 => by omega)
  exact ⟨q, h1, h2, h3, h4⟩

/-- the node's last record describes the Agglayer's last certificate (both absent at the very start) -/
def SyncUp (loc : List Row) (agg : List ACert) : Prop :=
  match lastRow loc, agg.getLast? with
  | none, none => True
  | some r, some c => Matches r c
  | _, _ => False

/-- the Agglayer's most recent certificate was what the chain required when it was submitted -/
def LastOK (cfg : Cfg) (agg : List ACert) : Prop :=
  ∀ pre c, agg = pre ++ [c] → (c.height, c.prev, c.from_) = expect cfg pre

theorem St.closed_cases (s : St) (h : s.isOpen = false) : s = .settled ∨ s = .inError := by
  cases s <;> simp [St.isOpen] at h ⊢

/-- the first block a flow uses, given the node's last record -/
def FromOK (cfg : Cfg) (last : Option Row) (f : Nat) : Prop :=
  match last with
  | none => f = cfg.start + 1
  | some r => if r.status = .inError then f = r.from_ else f = r.to_ + 1

/-- **height, previous exit root and first block are what the chain requires**, whichever flow computed the block range -/
theorem position_spec (cfg : Cfg) (loc : List Row) (agg : List ACert) (hs : SyncUp loc agg) (hl : LastOK cfg agg)
    (hfb : ∀ r x q, lastRow loc = some r → agg.getLast? = some x → Matches r x →
      rowAt loc (r.height - 1) = some q → q.status = .settled → r.height ≠ 0 → q.new = x.prev)
    (hh pv f : Nat) (hn : nextHeightPrev loc (lastRow loc) = some (hh, pv)) (hf : FromOK cfg (lastRow loc) f) :
    (hh, pv, f) = expect cfg agg ∧ (∀ r, lastRow loc = some r → r.status.isOpen = false) := by
  constructor
  · unfold SyncUp at hs
    unfold FromOK at hf
    cases hlast : lastRow loc with
    | none =>
      rw [hlast] at hs hn hf
      cases hg : agg.getLast? with
      | some x => rw [hg] at hs; exact absurd hs (by simp)
      | none =>
        have : agg = [] := by simpa using hg
        subst this
        simp only [nextHeightPrev, Option.some.injEq, Prod.mk.injEq] at hn
        simp only at hf
        unfold expect lastSettled
        simp only [List.filter_nil, List.getLast?_nil]
        rw [hf, ← hn.1, ← hn.2]
    | some r =>
      rw [hlast] at hs hn hf
      simp only at hf
      cases hg : agg.getLast? with
      | none => rw [hg] at hs; exact absurd hs (by simp)
      | some x =>
        rw [hg] at hs
        have hm : Matches r x := hs
        obtain ⟨pre, hpre⟩ : ∃ pre, agg = pre ++ [x] := by
          have := List.getLast?_eq_some_iff.mp hg
          obtain ⟨ys, hys⟩ := this
          exact ⟨ys, hys⟩
        have hx := hl pre x hpre
        simp only [nextHeightPrev] at hn
        by_cases hopen : r.status.isOpen = true
        · rw [if_pos hopen] at hn; cases hn
        rw [if_neg hopen] at hn
        have hclosed : r.status.isOpen = false := by simpa using hopen
        have hst : r.status = x.status := by
          rcases hm.status with e | e
          · exact e
          · rw [hclosed] at e; cases e
        rcases St.closed_cases _ hclosed with hset | herr
        · -- last certificate settled: next height, its new exit root, the block after its last
          rw [if_pos hset] at hn
          simp only [Option.some.injEq, Prod.mk.injEq] at hn
          rw [if_neg (by rw [hset]; simp)] at hf
          rw [hpre, expect_snoc_settled cfg pre x (by rw [← hst]; exact hset)]
          rw [hf, ← hn.1, ← hn.2, hm.height, hm.new, hm.to_]
        · -- last certificate in error: same height, same previous exit root, same first block
          have hne : r.status ≠ .settled := by rw [herr]; simp
          rw [if_neg hne] at hn
          rw [if_pos herr] at hf
          have hxs : x.status ≠ .settled := by rw [← hst]; exact hne
          have hprev : hh = r.height ∧ pv = x.prev := by
            cases hp : r.prev with
            | some p =>
              rw [hp] at hn
              simp only [Option.some.injEq, Prod.mk.injEq] at hn
              rcases hm.prev with e | e
              · rw [hp] at e; simp only [Option.some.injEq] at e
                exact ⟨hn.1.symm, by rw [← hn.2, e]⟩
              · rw [hp] at e; cases e
            | none =>
              rw [hp] at hn
              simp only at hn
              by_cases h0 : r.height = 0
              · rw [if_pos h0] at hn
                simp only [Option.some.injEq, Prod.mk.injEq] at hn
                have hx0 : x.height = 0 := by rw [← hm.height]; exact h0
                have : x.prev = 0 := by
                  unfold expect at hx
                  cases hls : lastSettled pre with
                  | none => rw [hls] at hx; simp only [Prod.mk.injEq] at hx; exact hx.2.1
                  | some p0 => rw [hls] at hx; simp only [Prod.mk.injEq] at hx; omega
                exact ⟨by rw [← hn.1, h0], by rw [← hn.2, this]⟩
              · rw [if_neg h0] at hn
                cases hq : rowAt loc (r.height - 1) with
                | none => rw [hq] at hn; cases hn
                | some q0 =>
                  rw [hq] at hn
                  simp only at hn
                  by_cases hqs : q0.status = .settled
                  · rw [if_pos hqs] at hn
                    simp only [Option.some.injEq, Prod.mk.injEq] at hn
                    exact ⟨hn.1.symm, by rw [← hn.2]; exact hfb r x q0 hlast hg hm hq hqs h0⟩
                  · rw [if_neg hqs] at hn; cases hn
          rw [hpre, expect_snoc_not cfg pre x hxs, ← hx, hf, hprev.1, hprev.2, hm.height, hm.from_]
  · intro r hr
    rw [hr] at hn
    simp only [nextHeightPrev] at hn
    by_cases hopen : r.status.isOpen = true
    · rw [if_pos hopen] at hn; cases hn
    · simpa using hopen

/-- **what the node builds is what the chain requires** (one step; the induction over histories is in
    `Properties/C02`). -/
theorem build_spec (size : Params → Nat) (cfg : Cfg) (l2 : List L2Blk) (hw : L2WF l2) (loc : List Row)
    (agg : List ACert) (hs : SyncUp loc agg) (hl : LastOK cfg agg)
    (hfb : ∀ r x q, lastRow loc = some r → agg.getLast? = some x → Matches r x →
      rowAt loc (r.height - 1) = some q → q.status = .settled → r.height ≠ 0 → q.new = x.prev)
    (c : ACert) (retry tb : Nat)
    (h : build size cfg l2 loc = .cert c retry tb) :
    (c.height, c.prev, c.from_) = expect cfg agg ∧ c.from_ ≤ c.to_ ∧ c.to_ = tb ∧ tb ≤ lastProcessed l2 ∧
    c.bridges = bridgesIn l2 c.from_ c.to_ ∧ c.claims = claimsIn l2 c.from_ c.to_ ∧
    c.new = newLER c.prev c.bridges ∧ c.status = .pending ∧
    (∀ r, lastRow loc = some r → r.status.isOpen = false) := by
  unfold build at h
  simp only [] at h
  generalize hlr : lastSentBlockAndRetry cfg.start (lastRow loc) = pr at h
  obtain ⟨prevTo, retry0⟩ := pr
  simp only [] at h
  by_cases hge : prevTo ≥ lastProcessed l2
  · rw [if_pos hge] at h; cases h
  rw [if_neg hge] at h
  have hlp := lastProcessed_lt l2 hw
  -- the full range is well formed; the size limit cuts a prefix of it
  have hwf : WFp ({
      from_ := prevTo + 1, to_ := lastProcessed l2, bridges := bridgesIn l2 (prevTo + 1) (lastProcessed l2),
      claims := claimsIn l2 (prevTo + 1) (lastProcessed l2),
      retry := (decide (retry0 > 0) && (lastRow loc).isSome) } : Params) :=
    ⟨by simp only; omega, bridgesIn_inRange l2 hw _ _, claimsIn_inRange l2 hw _ _⟩
  obtain ⟨q, hq, hcut, hq1, hq2⟩ := limit_cut size cfg.maxSize _ hwf
  rw [hq] at h
  simp only [] at h
  have qfrom : q.from_ = prevTo + 1 := by rw [hcut]; rfl
  have qretry : q.retry = (decide (retry0 > 0) && (lastRow loc).isSome) := by rw [hcut]; rfl
  have qbr : q.bridges = bridgesIn l2 (prevTo + 1) q.to_ := by
    have := congrArg Params.bridges hcut
    simp only [cutTo] at this
    rw [this]; exact bridgesIn_narrow l2 hw _ _ _ hq2
  have qcl : q.claims = claimsIn l2 (prevTo + 1) q.to_ := by
    have := congrArg Params.claims hcut
    simp only [cutTo] at this
    rw [this]; exact claimsIn_narrow l2 hw _ _ _ hq2
  simp only [] at hq1 hq2
  split at h
  · cases h
  split at h
  · cases h
  rename_i hretry
  cases hn : nextHeightPrev loc (lastRow loc) with
  | none => rw [hn] at h; cases h
  | some hp =>
    obtain ⟨hh, pv⟩ := hp
    rw [hn] at h
    simp only [Build.cert.injEq] at h
    obtain ⟨hc, _, htb⟩ := h
    subst hc
    have hto : q.from_ + (q.to_ - q.from_) % 2 ^ 32 = q.to_ := by
      rw [Nat.mod_eq_of_lt (by omega)]; omega
    simp only
    refine ⟨?_, by rw [hto]; omega, by rw [hto]; exact htb, by rw [← htb]; exact hq2,
      by rw [hto, qfrom]; exact qbr, by rw [hto, qfrom]; exact qcl, trivial, trivial, ?_⟩
    · -- the chain position: the PP flow's first block is the one `position_spec` expects
      refine (position_spec cfg loc agg hs hl hfb hh pv q.from_ hn ?_).1
      unfold FromOK
      cases hlast : lastRow loc with
      | none =>
        rw [hlast] at hlr
        simp only [lastSentBlockAndRetry, Prod.mk.injEq] at hlr
        simp only; rw [qfrom, ← hlr.1]
      | some r =>
        rw [hlast] at hlr
        simp only
        by_cases herr : r.status = .inError
        · rw [if_pos herr]
          simp only [lastSentBlockAndRetry, herr, if_true, Prod.mk.injEq] at hlr
          have hr0 : retry0 > 0 := by omega
          have hqr : q.retry = true := by rw [qretry, hlast]; simp [hr0]
          rw [hqr, hlast] at hretry
          simp only [Bool.true_and, Option.map_some, ne_eq, Option.some.injEq, decide_not,
            Bool.not_eq_true', decide_eq_false_iff_not, Decidable.not_not] at hretry
          exact hretry
        · rw [if_neg herr]
          simp only [lastSentBlockAndRetry, herr, if_false, Prod.mk.injEq] at hlr
          rw [qfrom, ← hlr.1]
    · intro r hr
      rw [hr] at hn
      simp only [nextHeightPrev] at hn
      by_cases hopen : r.status.isOpen = true
      · rw [if_pos hopen] at hn; cases hn
      · simpa using hopen


/-! ### the invariant -/

/-- a certificate is where the chain required it to be when it was submitted -/
def CertOK (cfg : Cfg) (pre : List ACert) (c : ACert) : Prop :=
  (c.height, c.prev, c.from_) = expect cfg pre ∧ c.from_ ≤ c.to_

/-- the node is down: its records are empty (lost), or describe the Agglayer's last certificate, or the one before it
    (it stopped between submitting and recording) -/
def SyncDown (loc : List Row) (agg : List ACert) : Prop :=
  lastRow loc = none ∨
  ∃ r, lastRow loc = some r ∧
    ((∃ c, agg.getLast? = some c ∧ Matches r c) ∨
     (∃ pre c d, agg = pre ++ [c, d] ∧ Matches r c ∧ r.status = c.status ∧ c.status.isOpen = false))

/-- a certificate carries exactly the events of its block range, and its new exit root is the one after its last exit -/
def ContentOK (l2 : List L2Blk) (c : ACert) : Prop :=
  c.to_ ≤ lastProcessed l2 ∧ c.bridges = bridgesIn l2 c.from_ c.to_ ∧ c.claims = claimsIn l2 c.from_ c.to_ ∧
  c.new = newLER c.prev c.bridges

/-- number of deposits in the blocks up to `t` -/
def cnt (l2 : List L2Blk) (t : Nat) : Nat := (bridgesIn l2 0 t).length

def allBridges (l2 : List L2Blk) : List Ev := l2.flatMap (·.bridges)

/-- exit roots, as leaf counts: a certificate starts from the tree of all deposits before its first block and ends at
    the tree of all deposits up to its last block -/
def CountOK (l2 : List L2Blk) (c : ACert) : Prop := c.prev = cnt l2 (c.from_ - 1) ∧ c.new = cnt l2 c.to_

structure Inv (s : Sys) : Prop where
  l2wf : L2WF s.l2
  ids : ∀ i (h : i < s.agg.length), (s.agg[i]).id = i + 1
  closedPrefix : ∀ i (h : i < s.agg.length), i + 1 < s.agg.length → (s.agg[i]).status.isOpen = false
  chain : ∀ i (h : i < s.agg.length), CertOK s.cfg (s.agg.take i) s.agg[i]
  sorted : s.loc.Pairwise (fun a b => a.height < b.height)
  rows : ∀ r ∈ s.loc, ∃ c, certById s.agg r.id = some c ∧ Matches r c
  syncUp : s.up = true → SyncUp s.loc s.agg
  syncDown : s.up = false → SyncDown s.loc s.agg
  l2sorted : s.l2.Pairwise (fun a b => a.num < b.num)
  content : ∀ c ∈ s.agg, ContentOK s.l2 c
  startOK : ∀ b ∈ s.l2, b.num ≤ s.cfg.start → b.bridges = []
  deposits : (allBridges s.l2).map (·.id) = List.range (allBridges s.l2).length
  counts : ∀ c ∈ s.agg, CountOK s.l2 c
  fromGe : ∀ c ∈ s.agg, s.cfg.start + 1 ≤ c.from_

theorem init_inv (cfg : Cfg) : Inv { cfg := cfg } := by
  refine ⟨?_, ?_, ?_, ?_, ?_, ?_, ?_, ?_, ?_, ?_, ?_, ?_, ?_, fun c hc => by simp at hc⟩
  rotate_right 3
  · intro b hb; simp at hb
  · simp [allBridges]
  · intro c hc; simp at hc
  · intro b hb; simp at hb
  · intro i hi; simp at hi
  · intro i hi; simp at hi
  · intro i hi; simp at hi
  · simp
  · intro r hr; simp at hr
  · intro hu; simp at hu
  · intro _; simp [SyncDown, lastRow]
  · simp
  · intro c hc; simp at hc


/-! #### one settled certificate per height -/

theorem take_succ_getElem' (l : List ACert) (i : Nat) (h : i < l.length) : l.take (i + 1) = l.take i ++ [l[i]] := by
  rw [List.take_add_one, List.getElem?_eq_getElem h]; rfl

theorem settled_heights_agg (cfg : Cfg) (agg : List ACert)
    (hch : ∀ i (h : i < agg.length), CertOK cfg (agg.take i) agg[i]) : ∀ n, n ≤ agg.length →
    (expect cfg (agg.take n)).1 = ((agg.take n).filter (·.status = .settled)).length ∧
    ((agg.take n).filter (·.status = .settled)).map (·.height) =
      List.range ((agg.take n).filter (·.status = .settled)).length := by
  intro n
  induction n with
  | zero =>
    intro _
    simp only [List.take_zero, List.filter_nil, List.length_nil, List.map_nil, List.range_zero, and_true]
    unfold expect lastSettled; simp
  | succ n ih =>
    intro hn
    have hlt : n < agg.length := by omega
    obtain ⟨ih1, ih2⟩ := ih (by omega)
    rw [take_succ_getElem' _ n hlt, List.filter_append]
    have hpos := (hch n hlt).1
    by_cases hset : (agg[n]).status = .settled
    · rw [expect_snoc_settled _ _ _ hset]
      have hh : (agg[n]).height = (expect cfg (agg.take n)).1 := by rw [← hpos]
      simp only [List.filter_cons, hset, decide_true, if_true, List.filter_nil, List.length_append,
        List.length_cons, List.length_nil, List.map_append, List.map_cons, List.map_nil]
      rw [ih2, hh, ih1, List.range_succ]
      exact ⟨rfl, rfl⟩
    · rw [expect_snoc_not _ _ _ hset]
      simp only [List.filter_cons, hset, decide_false, Bool.false_eq_true, if_false, List.filter_nil, List.append_nil]
      exact ⟨ih1, ih2⟩

theorem inj_of_map_range {α : Type} (f : α → Nat) (l : List α) (h : l.map f = List.range l.length)
    (a b : α) (ha : a ∈ l) (hb : b ∈ l) (hab : f a = f b) : a = b := by
  obtain ⟨i, hi, ea⟩ := List.getElem_of_mem ha
  obtain ⟨j, hj, eb⟩ := List.getElem_of_mem hb
  have e1 : (l.map f)[i]'(by simpa using hi) = f a := by simp [ea]
  have e2 : (l.map f)[j]'(by simpa using hj) = f b := by simp [eb]
  have r1 : (l.map f)[i]'(by simpa using hi) = i := by simp only [h]; simp
  have r2 : (l.map f)[j]'(by simpa using hj) = j := by simp only [h]; simp
  have : i = j := by rw [← r1, ← r2, e1, e2, hab]
  subst this
  rw [← ea, ← eb]

theorem settled_unique (cfg : Cfg) (agg : List ACert)
    (hch : ∀ i (h : i < agg.length), CertOK cfg (agg.take i) agg[i]) (p q : ACert) (hp : p ∈ agg) (hq : q ∈ agg)
    (sp : p.status = .settled) (sq : q.status = .settled) (hh : p.height = q.height) : p = q := by
  have h := (settled_heights_agg cfg agg hch agg.length (Nat.le_refl _)).2
  rw [List.take_length] at h
  exact inj_of_map_range (·.height) _ h p q (List.mem_filter.mpr ⟨hp, by simpa using sp⟩)
    (List.mem_filter.mpr ⟨hq, by simpa using sq⟩) hh

/-! #### storage lemmas -/

theorem sorted_le_last (loc : List Row) (hs : loc.Pairwise (fun a b => a.height < b.height)) (r : Row)
    (hl : lastRow loc = some r) : ∀ x ∈ loc, x.height ≤ r.height := by
  unfold lastRow at hl
  obtain ⟨ys, hys⟩ := List.getLast?_eq_some_iff.mp hl
  subst hys
  intro x hx
  rw [List.pairwise_append] at hs
  rcases List.mem_append.mp hx with h | h
  · exact Nat.le_of_lt (hs.2.2 x h r (List.mem_singleton.mpr rfl))
  · rw [List.mem_singleton.mp h]; exact Nat.le_refl _

theorem saveRow_last (loc : List Row) (r : Row) (h : ∀ x ∈ loc, x.height ≤ r.height) :
    lastRow (saveRow loc r) = some r := by
  unfold saveRow lastRow
  have : loc.filter (fun x => decide (r.height < x.height)) = [] := by
    apply List.filter_eq_nil_iff.mpr
    intro x hx; have := h x hx; simp; omega
  rw [this]; simp

theorem saveRow_sorted (loc : List Row) (r : Row) (hs : loc.Pairwise (fun a b => a.height < b.height)) :
    (saveRow loc r).Pairwise (fun a b => a.height < b.height) := by
  unfold saveRow
  rw [List.pairwise_append, List.pairwise_append]
  refine ⟨⟨hs.sublist List.filter_sublist, by simp, ?_⟩, hs.sublist List.filter_sublist, ?_⟩
  · intro a ha b hb
    rw [List.mem_singleton.mp hb]
    simpa using (List.mem_filter.mp ha).2
  · intro a ha b hb
    have hb' := (List.mem_filter.mp hb).2
    simp only [decide_eq_true_eq] at hb'
    rcases List.mem_append.mp ha with h | h
    · have := (List.mem_filter.mp h).2
      simp only [decide_eq_true_eq] at this
      omega
    · rw [List.mem_singleton.mp h]; exact hb'

theorem mem_saveRow (loc : List Row) (r x : Row) (h : x ∈ saveRow loc r) : x = r ∨ x ∈ loc := by
  unfold saveRow at h
  rcases List.mem_append.mp h with h | h
  · rcases List.mem_append.mp h with h | h
    · exact Or.inr (List.mem_filter.mp h).1
    · exact Or.inl (List.mem_singleton.mp h)
  · exact Or.inr (List.mem_filter.mp h).1

/-! #### Agglayer lemmas -/

theorem certById_append (agg : List ACert) (c x : ACert) (id : Nat) (h : certById agg id = some x) :
    certById (agg ++ [c]) id = some x := by
  unfold certById at h ⊢
  by_cases h0 : id = 0
  · rw [if_pos h0] at h; cases h
  · rw [if_neg h0] at h ⊢
    have hlt : id - 1 < agg.length := by
      rcases Nat.lt_or_ge (id - 1) agg.length with hl | hl
      · exact hl
      · rw [List.getElem?_eq_none hl] at h; cases h
    rw [List.getElem?_append_left hlt]; exact h

theorem certById_new (agg : List ACert) (c : ACert) : certById (agg ++ [c]) (agg.length + 1) = some c := by
  unfold certById
  simp


theorem certById_mem (agg : List ACert) (id : Nat) (c : ACert) (h : certById agg id = some c) :
    ∃ i, ∃ (hi : i < agg.length), agg[i] = c ∧ id = i + 1 := by
  unfold certById at h
  by_cases h0 : id = 0
  · rw [if_pos h0] at h; cases h
  · rw [if_neg h0] at h
    have hlt : id - 1 < agg.length := by
      rcases Nat.lt_or_ge (id - 1) agg.length with hl | hl
      · exact hl
      · rw [List.getElem?_eq_none hl] at h; cases h
    rw [List.getElem?_eq_getElem hlt] at h
    exact ⟨id - 1, hlt, by simpa using h, by omega⟩

theorem certById_of_index (agg : List ACert) (hids : ∀ i (h : i < agg.length), (agg[i]).id = i + 1)
    (i : Nat) (hi : i < agg.length) : certById agg (agg[i]).id = some agg[i] := by
  unfold certById
  rw [hids i hi]
  simp [hi]

theorem certById_last (agg : List ACert) (hids : ∀ i (h : i < agg.length), (agg[i]).id = i + 1)
    (c : ACert) (h : agg.getLast? = some c) : certById agg c.id = some c := by
  obtain ⟨pre, hpre⟩ := List.getLast?_eq_some_iff.mp h
  have hi : pre.length < agg.length := by rw [hpre]; simp
  have : agg[pre.length] = c := by simp [hpre]
  rw [← this]; exact certById_of_index agg hids _ hi

/-! #### status polling only refreshes statuses -/

/-- a row map that at most replaces a row's status by the Agglayer's status of the same certificate -/
def StatusOnly (agg : List ACert) (f : Row → Row) : Prop :=
  ∀ r, f r = r ∨ ∃ c, certById agg r.id = some c ∧ f r = { r with status := c.status }

theorem statusOnly_id (agg : List ACert) : StatusOnly agg id := fun _ => Or.inl rfl

theorem setStatus_statusOnly (agg : List ACert) (id : Nat) (c : ACert) (h : certById agg id = some c) :
    StatusOnly agg (fun r => if r.id = id then { r with status := c.status } else r) := by
  intro r
  by_cases e : r.id = id
  · right; exact ⟨c, by rw [e]; exact h, by simp [e]⟩
  · left; simp [e]

theorem statusOnly_comp (agg : List ACert) (f g : Row → Row) (hf : StatusOnly agg f) (hg : StatusOnly agg g) :
    StatusOnly agg (f ∘ g) := by
  intro r
  simp only [Function.comp]
  rcases hg r with e | ⟨c, hc, e⟩
  · rw [e]; exact hf r
  · rcases hf (g r) with e2 | ⟨c2, hc2, e2⟩
    · rw [e2]; exact Or.inr ⟨c, hc, e⟩
    · right
      have hid : (g r).id = r.id := by rw [e]
      rw [hid] at hc2
      refine ⟨c2, hc2, ?_⟩
      rw [e2, e]

theorem pollRows_map (agg : List ACert) : ∀ (rs loc : List Row) (fh : Bool) (acc : Poll),
    ∃ f, StatusOnly agg f ∧ (pollRows agg rs loc fh acc).1 = loc.map f := by
  intro rs
  induction rs with
  | nil => intro loc fh acc; exact ⟨id, statusOnly_id agg, by simp [pollRows]⟩
  | cons r rest ih =>
    intro loc fh acc
    unfold pollRows
    by_cases hfh : fh = true
    · rw [if_pos hfh]; exact ⟨id, statusOnly_id agg, by simp⟩
    · rw [if_neg hfh]
      cases hc : certById agg r.id with
      | none => exact ⟨id, statusOnly_id agg, by simp⟩
      | some c =>
        simp only
        by_cases hst : r.status = c.status
        · rw [if_pos hst]; exact ih loc false _
        · rw [if_neg hst]
          obtain ⟨f, hf, he⟩ := ih (setStatus loc r.id c.status) false
            (if c.status.isOpen = true then
              { pending := true, newInError := acc.newInError || (r.status != St.inError && c.status == St.inError) }
            else { pending := acc.pending, newInError := acc.newInError || (r.status != St.inError && c.status == St.inError) })
          refine ⟨f ∘ (fun x => if x.id = r.id then { x with status := c.status } else x),
            statusOnly_comp agg _ _ hf (setStatus_statusOnly agg r.id c hc), ?_⟩
          rw [he]; unfold setStatus; rw [List.map_map]

theorem poll_map (s : Sys) : ∃ f, StatusOnly s.agg f ∧ (poll s).1 = { s with loc := s.loc.map f, failHdr := (poll s).1.failHdr } := by
  unfold poll
  obtain ⟨f, hf, he⟩ := pollRows_map s.agg (s.loc.filter (·.status.isOpen)) s.loc s.failHdr ⟨false, false⟩
  refine ⟨f, hf, ?_⟩
  generalize hp : pollRows s.agg (s.loc.filter (·.status.isOpen)) s.loc s.failHdr ⟨false, false⟩ = pr at he
  obtain ⟨l, fh, p⟩ := pr
  simp only at he ⊢
  rw [he]


/-! #### the invariant does not look at the failure flags -/

theorem Inv.of_eq {s s' : Sys} (hi : Inv s) (h1 : s'.cfg = s.cfg) (h2 : s'.l2 = s.l2) (h3 : s'.agg = s.agg)
    (h4 : s'.loc = s.loc) (h5 : s'.up = s.up) : Inv s' := by
  obtain ⟨a2, a3, a4, a5, a6, a7, a8, a9, a10, a11, a12, a13, a14, a15⟩ := hi
  cases s; cases s'
  simp only at h1 h2 h3 h4 h5
  subst h1 h2 h3 h4 h5
  exact ⟨a2, a3, a4, a5, a6, a7, a8, a9, a10, a11, a12, a13, a14, a15⟩

theorem statusOnly_fields (agg : List ACert) (f : Row → Row) (hf : StatusOnly agg f) (r : Row) :
    (f r).id = r.id ∧ (f r).height = r.height := by
  rcases hf r with e | ⟨c, _, e⟩ <;> rw [e] <;> exact ⟨rfl, rfl⟩

theorem matches_statusOnly (agg : List ACert) (f : Row → Row) (hf : StatusOnly agg f) (r : Row) (c : ACert)
    (hc : certById agg r.id = some c) (hm : Matches r c) : Matches (f r) c := by
  rcases hf r with e | ⟨c', hc', e⟩
  · rw [e]; exact hm
  · rw [hc] at hc'
    cases hc'
    rw [e]
    exact ⟨hm.id, hm.height, hm.from_, hm.to_, hm.new, hm.prev, Or.inl rfl⟩

theorem lastRow_map (loc : List Row) (f : Row → Row) : lastRow (loc.map f) = (lastRow loc).map f := by
  unfold lastRow; exact List.getLast?_map ..

/-- refreshing statuses keeps the invariant -/
theorem inv_map_loc (s : Sys) (hi : Inv s) (f : Row → Row) (hf : StatusOnly s.agg f) :
    Inv { s with loc := s.loc.map f } := by
  refine ⟨hi.l2wf, hi.ids, hi.closedPrefix, hi.chain, ?_, ?_, ?_, ?_, hi.l2sorted, hi.content, hi.startOK, hi.deposits, hi.counts, hi.fromGe⟩
  · simp only
    rw [List.pairwise_map]
    refine hi.sorted.imp ?_
    intro a b hab
    rw [(statusOnly_fields _ f hf a).2, (statusOnly_fields _ f hf b).2]; exact hab
  · intro r' hr'
    simp only at hr'
    obtain ⟨r, hr, e⟩ := List.mem_map.mp hr'
    obtain ⟨c, hc, hm⟩ := hi.rows r hr
    subst e
    exact ⟨c, by rw [(statusOnly_fields _ f hf r).1]; exact hc, matches_statusOnly _ f hf r c hc hm⟩
  · intro hu
    have h0 := hi.syncUp hu
    unfold SyncUp at h0 ⊢
    simp only
    rw [lastRow_map]
    cases hl : lastRow s.loc with
    | none => rw [hl] at h0; simpa using h0
    | some r =>
      rw [hl] at h0
      cases hg : s.agg.getLast? with
      | none => rw [hg] at h0; exact absurd h0 (by simp)
      | some c =>
        rw [hg] at h0
        simp only [Option.map_some]
        have hm : Matches r c := h0
        have hc : certById s.agg r.id = some c := by rw [hm.id]; exact certById_last s.agg hi.ids c hg
        exact matches_statusOnly _ f hf r c hc hm
  · intro hu
    have h0 := hi.syncDown hu
    unfold SyncDown at h0 ⊢
    simp only
    rw [lastRow_map]
    rcases h0 with h0 | ⟨r, hl, h0⟩
    · left; rw [h0]; rfl
    · right
      refine ⟨f r, by rw [hl]; rfl, ?_⟩
      rcases h0 with ⟨c, hg, hm⟩ | ⟨pre, c, d, hpre, hm, hst, hcl⟩
      · left
        have hc : certById s.agg r.id = some c := by rw [hm.id]; exact certById_last s.agg hi.ids c hg
        exact ⟨c, hg, matches_statusOnly _ f hf r c hc hm⟩
      · right
        have hidx : pre.length < s.agg.length := by rw [hpre]; simp
        have hci : s.agg[pre.length] = c := by simp [hpre]
        have hc : certById s.agg r.id = some c := by
          rw [hm.id, ← hci]; exact certById_of_index s.agg hi.ids _ hidx
        refine ⟨pre, c, d, hpre, matches_statusOnly _ f hf r c hc hm, ?_, hcl⟩
        rcases hf r with e | ⟨c', hc', e⟩
        · rw [e]; exact hst
        · rw [hc] at hc'; cases hc'; rw [e]


/-! #### events of a block range, generically -/

def evsIn (sel : L2Blk → List Ev) (l2 : List L2Blk) (f t : Nat) : List Ev :=
  (l2.filter (fun b => decide (f ≤ b.num) && decide (b.num ≤ t))).flatMap sel

theorem bridgesIn_eq (l2 : List L2Blk) (f t : Nat) : bridgesIn l2 f t = evsIn (·.bridges) l2 f t := rfl
theorem claimsIn_eq (l2 : List L2Blk) (f t : Nat) : claimsIn l2 f t = evsIn (·.claims) l2 f t := rfl

theorem evsIn_empty_of_gt (sel : L2Blk → List Ev) (l2 : List L2Blk) (f t : Nat) (h : ∀ b ∈ l2, t < b.num) :
    evsIn sel l2 f t = [] := by
  unfold evsIn
  have : l2.filter (fun b => decide (f ≤ b.num) && decide (b.num ≤ t)) = [] := by
    apply List.filter_eq_nil_iff.mpr
    intro b hb; have := h b hb; simp; omega
  rw [this]; rfl

theorem evsIn_cons (sel : L2Blk → List Ev) (b : L2Blk) (rest : List L2Blk) (f t : Nat) :
    evsIn sel (b :: rest) f t = (if f ≤ b.num ∧ b.num ≤ t then sel b else []) ++ evsIn sel rest f t := by
  unfold evsIn
  rw [List.filter_cons]
  by_cases c : f ≤ b.num ∧ b.num ≤ t
  · have : (decide (f ≤ b.num) && decide (b.num ≤ t)) = true := by simp [c.1, c.2]
    rw [if_pos this, if_pos c, List.flatMap_cons]
  · have : ¬ (decide (f ≤ b.num) && decide (b.num ≤ t)) = true := by simpa using c
    rw [if_neg this, if_neg c]; rfl

/-- on sorted blocks, the events of `[a, m]` followed by those of `[m+1, t]` are the events of `[a, t]` -/
theorem evsIn_split (sel : L2Blk → List Ev) (l2 : List L2Blk) (hs : l2.Pairwise (fun a b => a.num < b.num))
    (a m t : Nat) (h1 : a ≤ m + 1) (h2 : m ≤ t) :
    evsIn sel l2 a m ++ evsIn sel l2 (m + 1) t = evsIn sel l2 a t := by
  induction l2 with
  | nil => simp [evsIn]
  | cons b rest ih =>
    rw [List.pairwise_cons] at hs
    have ih := ih hs.2
    rw [evsIn_cons, evsIn_cons, evsIn_cons]
    by_cases c1 : a ≤ b.num ∧ b.num ≤ m
    · have c2 : ¬ (m + 1 ≤ b.num ∧ b.num ≤ t) := by omega
      have c3 : a ≤ b.num ∧ b.num ≤ t := by omega
      rw [if_pos c1, if_neg c2, if_pos c3, List.nil_append, List.append_assoc, ih]
    · rw [if_neg c1]
      by_cases c2 : m + 1 ≤ b.num ∧ b.num ≤ t
      · have c3 : a ≤ b.num ∧ b.num ≤ t := by omega
        have he : evsIn sel rest a m = [] := evsIn_empty_of_gt sel rest a m (fun x hx => by have := hs.1 x hx; omega)
        rw [if_pos c2, if_pos c3, he, List.nil_append, List.nil_append]
        rw [he, List.nil_append] at ih
        rw [ih]
      · have c3 : ¬ (a ≤ b.num ∧ b.num ≤ t) := by omega
        rw [if_neg c2, if_neg c3, List.nil_append, List.nil_append, List.nil_append, ih]

theorem evsIn_empty_range (sel : L2Blk → List Ev) (l2 : List L2Blk) (f t : Nat) (h : t < f) : evsIn sel l2 f t = [] := by
  unfold evsIn
  have : l2.filter (fun b => decide (f ≤ b.num) && decide (b.num ≤ t)) = [] := by
    apply List.filter_eq_nil_iff.mpr
    intro b _; simp; omega
  rw [this]; rfl


/-! #### L2 data only grows -/

theorem l2_le_lastProcessed (l2 : List L2Blk) (hs : l2.Pairwise (fun a b => a.num < b.num)) :
    ∀ x ∈ l2, x.num ≤ lastProcessed l2 := by
  intro x hx
  unfold lastProcessed
  cases hg : l2.getLast? with
  | none => have : l2 = [] := by simpa using hg
            subst this; simp at hx
  | some b =>
    obtain ⟨ys, hys⟩ := List.getLast?_eq_some_iff.mp hg
    subst hys
    rw [List.pairwise_append] at hs
    rcases List.mem_append.mp hx with h | h
    · exact Nat.le_of_lt (hs.2.2 x h b (List.mem_singleton.mpr rfl))
    · rw [List.mem_singleton.mp h]; exact Nat.le_refl _

theorem lastProcessed_snoc (l2 : List L2Blk) (b : L2Blk) : lastProcessed (l2 ++ [b]) = b.num := by
  unfold lastProcessed; simp

theorem bridgesIn_snoc (l2 : List L2Blk) (b : L2Blk) (f t : Nat) (h : t < b.num) :
    bridgesIn (l2 ++ [b]) f t = bridgesIn l2 f t := by
  unfold bridgesIn
  rw [List.filter_append]
  have : [b].filter (fun b => decide (f ≤ b.num) && decide (b.num ≤ t)) = [] := by
    apply List.filter_eq_nil_iff.mpr
    intro x hx; rw [List.mem_singleton.mp hx]; simp; omega
  rw [this]; simp

theorem claimsIn_snoc (l2 : List L2Blk) (b : L2Blk) (f t : Nat) (h : t < b.num) :
    claimsIn (l2 ++ [b]) f t = claimsIn l2 f t := by
  unfold claimsIn
  rw [List.filter_append]
  have : [b].filter (fun b => decide (f ≤ b.num) && decide (b.num ≤ t)) = [] := by
    apply List.filter_eq_nil_iff.mpr
    intro x hx; rw [List.mem_singleton.mp hx]; simp; omega
  rw [this]; simp

theorem contentOK_snoc (l2 : List L2Blk) (b : L2Blk) (c : ACert) (hb : lastProcessed l2 < b.num)
    (h : ContentOK l2 c) : ContentOK (l2 ++ [b]) c := by
  obtain ⟨h1, h2, h3, h4⟩ := h
  refine ⟨by rw [lastProcessed_snoc]; omega, ?_, ?_, h4⟩
  · rw [bridgesIn_snoc _ _ _ _ (by omega)]; exact h2
  · rw [claimsIn_snoc _ _ _ _ (by omega)]; exact h3

/-! #### exit roots as deposit counts -/

theorem cnt_snoc (l2 : List L2Blk) (b : L2Blk) (t : Nat) (h : t < b.num) : cnt (l2 ++ [b]) t = cnt l2 t := by
  unfold cnt; rw [bridgesIn_snoc _ _ _ _ h]

theorem cnt_start (l2 : List L2Blk) (start : Nat) (h : ∀ b ∈ l2, b.num ≤ start → b.bridges = []) :
    cnt l2 start = 0 := by
  unfold cnt bridgesIn
  rw [List.length_eq_zero_iff, List.flatMap_eq_nil_iff]
  intro b hb
  rw [List.mem_filter] at hb
  simp only [Nat.zero_le, decide_true, Bool.true_and, decide_eq_true_eq] at hb
  exact h b hb.1 hb.2

theorem mem_lastSettled (agg : List ACert) (p : ACert) (h : lastSettled agg = some p) : p ∈ agg := by
  unfold lastSettled at h
  exact (List.mem_filter.mp (List.mem_of_getLast? h)).1

theorem expect_count (cfg : Cfg) (l2 : List L2Blk) (agg : List ACert)
    (hst : ∀ b ∈ l2, b.num ≤ cfg.start → b.bridges = []) (hc : ∀ x ∈ agg, CountOK l2 x) :
    (expect cfg agg).2.1 = cnt l2 ((expect cfg agg).2.2 - 1) ∧ 1 ≤ (expect cfg agg).2.2 := by
  unfold expect
  cases h : lastSettled agg with
  | none => simp only; exact ⟨by rw [Nat.add_sub_cancel, cnt_start l2 cfg.start hst], by omega⟩
  | some p =>
    simp only
    have := (hc p (mem_lastSettled agg p h)).2
    exact ⟨by rw [Nat.add_sub_cancel]; exact this, by omega⟩

theorem cnt_split (l2 : List L2Blk) (hs : l2.Pairwise (fun a b => a.num < b.num)) (f t : Nat) (h1 : 1 ≤ f)
    (h2 : f ≤ t + 1) : bridgesIn l2 0 t = bridgesIn l2 0 (f - 1) ++ bridgesIn l2 f t := by
  have := evsIn_split (·.bridges) l2 hs 0 (f - 1) t (by omega) (by omega)
  rw [show f - 1 + 1 = f by omega] at this
  exact this.symm

theorem range_prefix (xs ys : List Nat) (n : Nat) (h : xs ++ ys = List.range n) : xs = List.range xs.length := by
  have hl : xs.length ≤ n := by
    have := congrArg List.length h
    simp at this; omega
  have h2 : (xs ++ ys).take xs.length = xs := by simp
  rw [h, List.take_range, Nat.min_eq_left hl] at h2
  exact h2.symm

theorem bridgesIn_all (l2 : List L2Blk) (m : Nat) (h : ∀ b ∈ l2, b.num ≤ m) : bridgesIn l2 0 m = allBridges l2 := by
  unfold bridgesIn allBridges
  congr 1
  apply List.filter_eq_self.mpr
  intro b hb; have := h b hb; simp; exact this

theorem prefix_ids (l2 : List L2Blk) (hs : l2.Pairwise (fun a b => a.num < b.num))
    (hd : (allBridges l2).map (·.id) = List.range (allBridges l2).length) (t : Nat) :
    (bridgesIn l2 0 t).map (·.id) = List.range (cnt l2 t) := by
  have hall := bridgesIn_all l2 (max t (lastProcessed l2)) (fun b hb => by
    have := l2_le_lastProcessed l2 hs b hb; omega)
  have hsp := cnt_split l2 hs (t + 1) (max t (lastProcessed l2)) (by omega) (by omega)
  rw [Nat.add_sub_cancel, hall] at hsp
  rw [hsp, List.map_append] at hd
  have := range_prefix _ _ _ hd
  rw [List.length_map] at this
  exact this

theorem newLER_count (l2 : List L2Blk) (hs : l2.Pairwise (fun a b => a.num < b.num))
    (hd : (allBridges l2).map (·.id) = List.range (allBridges l2).length) (f t : Nat) (h1 : 1 ≤ f) (h2 : f ≤ t + 1) :
    newLER (cnt l2 (f - 1)) (bridgesIn l2 f t) = cnt l2 t := by
  have hsp := cnt_split l2 hs f t h1 h2
  unfold newLER
  cases hg : (bridgesIn l2 f t).getLast? with
  | none =>
    have : bridgesIn l2 f t = [] := by simpa using hg
    simp only
    unfold cnt; rw [hsp, this]; simp
  | some b =>
    simp only
    obtain ⟨ys, hys⟩ := List.getLast?_eq_some_iff.mp hg
    have hid := prefix_ids l2 hs hd t
    have hc : cnt l2 t = (bridgesIn l2 0 (f - 1) ++ ys).length + 1 := by
      unfold cnt; rw [hsp, hys]; simp; omega
    rw [hsp, hys, ← List.append_assoc, List.map_append, hc, List.range_succ] at hid
    have := (List.append_inj' hid (by simp)).2
    simp only [List.map_cons, List.map_nil, List.cons.injEq, and_true] at this
    rw [hc, this]

theorem countOK_snoc (l2 : List L2Blk) (b : L2Blk) (c : ACert) (hb : lastProcessed l2 < b.num)
    (hto : c.to_ ≤ lastProcessed l2) (hft : c.from_ ≤ c.to_) (h : CountOK l2 c) : CountOK (l2 ++ [b]) c := by
  unfold CountOK at h ⊢
  rw [cnt_snoc _ _ _ (by omega), cnt_snoc _ _ _ (by omega)]
  exact h

/-! #### submitting a certificate -/

theorem getLast?_getElem (agg : List ACert) (i : Nat) (h : i < agg.length) (hl : i + 1 = agg.length) :
    agg.getLast? = some agg[i] := by
  rw [List.getLast?_eq_getElem?]
  have : agg.length - 1 = i := by omega
  rw [this, List.getElem?_eq_getElem h]

theorem agg_append (cfg : Cfg) (agg : List ACert) (c' : ACert)
    (hids : ∀ i (h : i < agg.length), (agg[i]).id = i + 1)
    (hcl : ∀ i (h : i < agg.length), i + 1 < agg.length → (agg[i]).status.isOpen = false)
    (hch : ∀ i (h : i < agg.length), CertOK cfg (agg.take i) agg[i])
    (hid : c'.id = agg.length + 1) (hok : CertOK cfg agg c')
    (hlastc : ∀ x, agg.getLast? = some x → x.status.isOpen = false) :
    (∀ i (h : i < (agg ++ [c']).length), ((agg ++ [c'])[i]).id = i + 1) ∧
    (∀ i (h : i < (agg ++ [c']).length), i + 1 < (agg ++ [c']).length → ((agg ++ [c'])[i]).status.isOpen = false) ∧
    (∀ i (h : i < (agg ++ [c']).length), CertOK cfg ((agg ++ [c']).take i) (agg ++ [c'])[i]) := by
  refine ⟨?_, ?_, ?_⟩
  · intro i h
    by_cases hi : i < agg.length
    · rw [List.getElem_append_left hi]; exact hids i hi
    · have : i = agg.length := by simp at h; omega
      subst this; simp [hid]
  · intro i h h2
    have hi : i < agg.length := by simp at h2; omega
    rw [List.getElem_append_left hi]
    by_cases h3 : i + 1 < agg.length
    · exact hcl i hi h3
    · exact hlastc _ (getLast?_getElem agg i hi (by omega))
  · intro i h
    by_cases hi : i < agg.length
    · rw [List.getElem_append_left hi, List.take_append_of_le_length (Nat.le_of_lt hi)]; exact hch i hi
    · have : i = agg.length := by simp at h; omega
      subst this; simp; exact hok

theorem lastRow_none_nil (loc : List Row) (h : lastRow loc = none) : loc = [] := by
  unfold lastRow at h; simpa using h

theorem expect_fst_ge (cfg : Cfg) (pre : List ACert) (x : ACert) (hx : CertOK cfg pre x) :
    x.height ≤ (expect cfg (pre ++ [x])).1 := by
  by_cases h : x.status = .settled
  · rw [expect_snoc_settled cfg pre x h]; simp
  · rw [expect_snoc_not cfg pre x h, ← hx.1]; simp

theorem inv_lastOK (s : Sys) (hi : Inv s) : LastOK s.cfg s.agg := by
  intro pre x hpre
  have hidx : pre.length < s.agg.length := by rw [hpre]; simp
  have := (hi.chain pre.length hidx).1
  simpa [hpre] using this

/-- the fallback of `getNextHeightAndPreviousLER` for a record without previous exit root: the settled record one height
    below carries the previous exit root of the last certificate -/
theorem inv_fallback (s : Sys) (hi : Inv s) : ∀ (r : Row) (x : ACert) (q : Row), lastRow s.loc = some r →
    s.agg.getLast? = some x → Matches r x → rowAt s.loc (r.height - 1) = some q → q.status = .settled → r.height ≠ 0 →
    q.new = x.prev := by
  intro r x q _ hg hm hq hqs h0
  have hqmem : q ∈ s.loc := List.mem_of_find?_eq_some hq
  have hqh : q.height = r.height - 1 := by
    have := List.find?_some hq; simpa using this
  obtain ⟨cq, hcq, hmq⟩ := hi.rows q hqmem
  have hcqs : cq.status = .settled := by
    rcases hmq.status with e | e
    · rw [← e]; exact hqs
    · rw [hqs] at e; simp [St.isOpen] at e
  obtain ⟨i, hi', ecq, _⟩ := certById_mem s.agg q.id cq hcq
  have hcqmem : cq ∈ s.agg := by rw [← ecq]; exact List.getElem_mem hi'
  obtain ⟨pre, hpre⟩ := List.getLast?_eq_some_iff.mp hg
  have hx := (inv_lastOK s hi) pre x hpre
  have hxh : x.height ≠ 0 := by rw [← hm.height]; exact h0
  unfold expect at hx
  cases hls : lastSettled pre with
  | none => rw [hls] at hx; simp only [Prod.mk.injEq] at hx; exact absurd hx.1 hxh
  | some p =>
    rw [hls] at hx
    simp only [Prod.mk.injEq] at hx
    have hpmem : p ∈ s.agg := by
      rw [hpre]; exact List.mem_append_left _ (mem_lastSettled pre p hls)
    have hps : p.status = .settled := by
      unfold lastSettled at hls
      have := (List.mem_filter.mp (List.mem_of_getLast? hls)).2
      simpa using this
    have hh : p.height = cq.height := by rw [← hmq.height, hqh, hm.height]; omega
    have := settled_unique s.cfg s.agg hi.chain p cq hpmem hcqmem hps hcqs hh
    rw [hmq.new, ← this, hx.2.1]

/-- what a built certificate satisfies (the conclusion of `build_spec`, for either flow) -/
def BuildOK (cfg : Cfg) (l2 : List L2Blk) (loc : List Row) (agg : List ACert) (c : ACert) (tb : Nat) : Prop :=
  (c.height, c.prev, c.from_) = expect cfg agg ∧ c.from_ ≤ c.to_ ∧ c.to_ = tb ∧ tb ≤ lastProcessed l2 ∧
  c.bridges = bridgesIn l2 c.from_ c.to_ ∧ c.claims = claimsIn l2 c.from_ c.to_ ∧
  c.new = newLER c.prev c.bridges ∧ c.status = .pending ∧
  (∀ r, lastRow loc = some r → r.status.isOpen = false)

/-! #### the aggchain-prover flow builds what the chain requires, too -/

theorem finishFEP_spec (cfg : Cfg) (l2 : List L2Blk) (hw : L2WF l2) (loc : List Row) (agg : List ACert)
    (hs : SyncUp loc agg) (hl : LastOK cfg agg)
    (hfb : ∀ r x q, lastRow loc = some r → agg.getLast? = some x → Matches r x →
      rowAt loc (r.height - 1) = some q → q.status = .settled → r.height ≠ 0 → q.new = x.prev)
    (p : Params) (retry : Nat) (hfrom : FromOK cfg (lastRow loc) p.from_) (hft : p.from_ ≤ p.to_)
    (hto : p.to_ ≤ lastProcessed l2) (hbr : p.bridges = bridgesIn l2 p.from_ p.to_)
    (hcl : p.claims = claimsIn l2 p.from_ p.to_) (c : ACert) (r' tb : Nat)
    (h : finishFEP loc (lastRow loc) p retry = .cert c r' tb) : BuildOK cfg l2 loc agg c tb := by
  unfold finishFEP at h
  cases hn : nextHeightPrev loc (lastRow loc) with
  | none => rw [hn] at h; cases h
  | some hp =>
    obtain ⟨hh, pv⟩ := hp
    rw [hn] at h
    simp only [Build.cert.injEq] at h
    obtain ⟨hc, _, htb⟩ := h
    subst hc
    have hlp := lastProcessed_lt l2 hw
    have hto' : p.from_ + (p.to_ - p.from_) % 2 ^ 32 = p.to_ := by
      rw [Nat.mod_eq_of_lt (by omega)]; omega
    obtain ⟨h1, h2⟩ := position_spec cfg loc agg hs hl hfb hh pv p.from_ hn hfrom
    unfold BuildOK
    simp only
    refine ⟨h1, by rw [hto']; exact hft, by rw [hto']; exact htb, by rw [← htb]; exact hto,
      by rw [hto']; exact hbr, by rw [hto']; exact hcl, trivial, trivial, h2⟩

theorem proveAndBuild_spec (cfg : Cfg) (l2 : List L2Blk) (hw : L2WF l2) (loc : List Row) (agg : List ACert)
    (hs : SyncUp loc agg) (hl : LastOK cfg agg)
    (hfb : ∀ r x q, lastRow loc = some r → agg.getLast? = some x → Matches r x →
      rowAt loc (r.height - 1) = some q → q.status = .settled → r.height ≠ 0 → q.new = x.prev)
    (p : Params) (retry : Nat) (prover : Prover) (hfrom : FromOK cfg (lastRow loc) p.from_) (hft : p.from_ ≤ p.to_)
    (hto : p.to_ ≤ lastProcessed l2) (hbr : p.bridges = bridgesIn l2 p.from_ p.to_)
    (hcl : p.claims = claimsIn l2 p.from_ p.to_) (c : ACert) (r' tb : Nat) (optOn : Bool)
    (h : (proveAndBuild loc (lastRow loc) p retry prover optOn).1 = .cert c r' tb) : BuildOK cfg l2 loc agg c tb := by
  unfold proveAndBuild at h
  split at h
  · cases h
  split at h
  · cases h
  cases prover with
  | fail => cases h
  | notYet => cases h
  | ok cut =>
    simp only at h
    have hwf : WFp p := ⟨hft, by rw [hbr]; exact bridgesIn_inRange l2 hw _ _, by rw [hcl]; exact claimsIn_inRange l2 hw _ _⟩
    by_cases he : p.to_ - cut = p.to_
    · rw [if_pos he] at h
      simp only at h
      exact finishFEP_spec cfg l2 hw loc agg hs hl hfb p retry hfrom hft hto hbr hcl c r' tb h
    · rw [if_neg he] at h
      cases hr : range p p.from_ (p.to_ - cut) with
      | none => rw [hr] at h; cases h
      | some q =>
        rw [hr] at h
        simp only at h
        obtain ⟨q1, q2, q3, q4, _, _, _, q8, q9⟩ := C17_range_exact p q p.from_ (p.to_ - cut) hwf hr
        have hle : p.to_ - cut ≤ p.to_ := Nat.sub_le _ _
        refine finishFEP_spec cfg l2 hw loc agg hs hl hfb q retry (by rw [q1]; exact hfrom) (by rw [q1, q2]; exact q9)
          (by rw [q2]; omega) ?_ ?_ c r' tb h
        · rw [q3, q1, q2, hbr]; exact bridgesIn_narrow l2 hw _ _ _ hle
        · rw [q4, q1, q2, hcl]; exact claimsIn_narrow l2 hw _ _ _ hle

/-- what the invariant knows about the certificate the node's last record describes -/
def LastFacts (cfg : Cfg) (l2 : List L2Blk) (loc : List Row) (agg : List ACert) : Prop :=
  ∀ r x, lastRow loc = some r → agg.getLast? = some x → Matches r x →
    x.from_ ≤ x.to_ ∧ x.to_ ≤ lastProcessed l2 ∧ cfg.start + 1 ≤ x.from_

theorem buildFEP_spec (size : Params → Nat) (cfg : Cfg) (l2 : List L2Blk) (hw : L2WF l2) (loc : List Row)
    (agg : List ACert) (hs : SyncUp loc agg) (hl : LastOK cfg agg)
    (hfb : ∀ r x q, lastRow loc = some r → agg.getLast? = some x → Matches r x →
      rowAt loc (r.height - 1) = some q → q.status = .settled → r.height ≠ 0 → q.new = x.prev)
    (hlf : LastFacts cfg l2 loc agg) (prover : Prover) (optOn : Bool) (c : ACert) (r' tb : Nat)
    (h : (buildFEP size cfg l2 loc prover optOn).1 = .cert c r' tb) : BuildOK cfg l2 loc agg c tb := by
  -- the certificate behind the last record, if any
  have hlastx : ∀ r, lastRow loc = some r → ∃ x, agg.getLast? = some x ∧ Matches r x := by
    intro r hr
    unfold SyncUp at hs
    rw [hr] at hs
    cases hg : agg.getLast? with
    | none => rw [hg] at hs; exact absurd hs (by simp)
    | some x => rw [hg] at hs; exact ⟨x, rfl, hs⟩
  unfold buildFEP at h
  simp only at h
  cases hlast : lastRow loc with
  | some r =>
    obtain ⟨x, hg, hm⟩ := hlastx r hlast
    obtain ⟨f1, f2, f3⟩ := hlf r x hlast hg hm
    rw [hlast] at h
    simp only at h
    by_cases herr : r.status = .inError ∧ r.opt = optOn
    · -- the last certificate is in error (and of the type to generate now): its block range again
      rw [if_pos herr] at h
      simp only at h
      have herr := herr.1
      have hfrom : FromOK cfg (lastRow loc) r.from_ := by unfold FromOK; rw [hlast]; simp [herr]
      have hft : r.from_ ≤ r.to_ := by rw [hm.from_, hm.to_]; exact f1
      have hto : r.to_ ≤ lastProcessed l2 := by rw [hm.to_]; exact f2
      by_cases hp : r.hasProof = true
      · rw [if_pos hp] at h
        simp only at h
        rw [← hlast] at h
        exact finishFEP_spec cfg l2 hw loc agg hs hl hfb _ _ hfrom hft hto rfl rfl c r' tb h
      · rw [if_neg hp] at h
        rw [← hlast] at h
        exact proveAndBuild_spec cfg l2 hw loc agg hs hl hfb _ _ prover hfrom hft hto rfl rfl c r' tb optOn h
    · rw [if_neg herr] at h
      simp only at h
      by_cases herr2 : r.status = .inError
      · -- in error, but the certificate type to generate has changed since: a new certificate from the same first block
        simp only [lastSentBlockAndRetry, herr2, if_true] at h
        have hpos : r.from_ > 0 := by rw [hm.from_]; omega
        simp only [hpos, if_true] at h
        have hfe : r.from_ - 1 + 1 = r.from_ := by omega
        by_cases hge : r.from_ - 1 ≥ lastProcessed l2
        · rw [if_pos hge] at h; cases h
        rw [if_neg hge] at h
        rw [hfe] at h
        have hwf : WFp ({
            from_ := r.from_, to_ := lastProcessed l2, bridges := bridgesIn l2 r.from_ (lastProcessed l2),
            claims := claimsIn l2 r.from_ (lastProcessed l2), fep := !optOn,
            retry := (decide (r.retry + 1 > 0) && (some r).isSome) } : Params) :=
          ⟨by simp only; omega, bridgesIn_inRange l2 hw _ _, claimsIn_inRange l2 hw _ _⟩
        obtain ⟨q, hq, hcut, hq1, hq2⟩ := limit_cut size cfg.maxSize _ hwf
        rw [hq] at h
        simp only at h
        have qfrom : q.from_ = r.from_ := by rw [hcut]; rfl
        have hlpi : lastProven cfg.start q.from_ (some r) + 1 = q.from_ := by
          unfold lastProven
          have h1 : ¬ r.to_ < cfg.start := by rw [hm.to_]; omega
          have h2 : r.from_ ≠ 0 := by omega
          have h3 : ¬ r.from_ - 1 < cfg.start := by rw [hm.from_]; omega
          simp only [qfrom, h2, if_false, h1, decide_false, Bool.false_eq_true, h3]
          omega
        rw [hlpi] at h
        have hq' : { q with from_ := q.from_ } = q := rfl
        rw [hq', ← hlast] at h
        simp only at hq1 hq2
        refine proveAndBuild_spec cfg l2 hw loc agg hs hl hfb q (r.retry + 1) prover ?_ (by rw [qfrom]; omega) hq2 ?_ ?_ c r' tb optOn h
        · unfold FromOK; rw [hlast]; simp only [herr2, if_true]; exact qfrom
        · have := congrArg Params.bridges hcut
          simp only [cutTo] at this
          rw [this, qfrom]; exact bridgesIn_narrow l2 hw _ _ _ hq2
        · have := congrArg Params.claims hcut
          simp only [cutTo] at this
          rw [this, qfrom]; exact claimsIn_narrow l2 hw _ _ _ hq2
      have herr := herr2
      simp only [lastSentBlockAndRetry, herr, if_false] at h
      by_cases hge : r.to_ ≥ lastProcessed l2
      · rw [if_pos hge] at h; cases h
      rw [if_neg hge] at h
      have hwf : WFp ({
          from_ := r.to_ + 1, to_ := lastProcessed l2, bridges := bridgesIn l2 (r.to_ + 1) (lastProcessed l2),
          claims := claimsIn l2 (r.to_ + 1) (lastProcessed l2), fep := !optOn,
          retry := (decide (0 > 0) && (some r).isSome) } : Params) :=
        ⟨by simp only; omega, bridgesIn_inRange l2 hw _ _, claimsIn_inRange l2 hw _ _⟩
      obtain ⟨q, hq, hcut, hq1, hq2⟩ := limit_cut size cfg.maxSize _ hwf
      rw [hq] at h
      simp only at h
      have qfrom : q.from_ = r.to_ + 1 := by rw [hcut]; rfl
      have hlpi : lastProven cfg.start q.from_ (some r) + 1 = q.from_ := by
        unfold lastProven
        have : ¬ r.to_ < cfg.start := by rw [hm.to_]; omega
        simp only [qfrom, Nat.add_one_ne_zero, if_false, this, decide_false, Bool.false_eq_true, Nat.add_sub_cancel]
      rw [hlpi] at h
      have hq' : { q with from_ := q.from_ } = q := rfl
      rw [hq', ← hlast] at h
      simp only at hq1 hq2
      refine proveAndBuild_spec cfg l2 hw loc agg hs hl hfb q 0 prover ?_ (by rw [qfrom]; omega) hq2 ?_ ?_ c r' tb optOn h
      · unfold FromOK; rw [hlast]; simp only [herr, if_false]; exact qfrom
      · have := congrArg Params.bridges hcut
        simp only [cutTo] at this
        rw [this, qfrom]; exact bridgesIn_narrow l2 hw _ _ _ hq2
      · have := congrArg Params.claims hcut
        simp only [cutTo] at this
        rw [this, qfrom]; exact claimsIn_narrow l2 hw _ _ _ hq2
  | none =>
    rw [hlast] at h
    simp only [lastSentBlockAndRetry] at h
    by_cases hge : cfg.start ≥ lastProcessed l2
    · simp only [hge, if_true] at h; cases h
    simp only [hge, if_false] at h
    have hwf : WFp ({
        from_ := cfg.start + 1, to_ := lastProcessed l2, bridges := bridgesIn l2 (cfg.start + 1) (lastProcessed l2),
        claims := claimsIn l2 (cfg.start + 1) (lastProcessed l2), fep := !optOn,
        retry := (decide (0 > 0) && (none : Option Row).isSome) } : Params) :=
      ⟨by simp only; omega, bridgesIn_inRange l2 hw _ _, claimsIn_inRange l2 hw _ _⟩
    obtain ⟨q, hq, hcut, hq1, hq2⟩ := limit_cut size cfg.maxSize _ hwf
    simp only [Nat.lt_irrefl, decide_false, Bool.false_and] at hq h
    simp only [hq] at h
    have qfrom : q.from_ = cfg.start + 1 := by rw [hcut]; rfl
    have hlpi : lastProven cfg.start q.from_ none + 1 = q.from_ := by
      unfold lastProven
      simp only [qfrom, Nat.add_one_ne_zero, if_false, Bool.false_eq_true, Nat.add_sub_cancel, Nat.lt_irrefl]
    rw [hlpi] at h
    have hq' : { q with from_ := q.from_ } = q := rfl
    rw [hq', ← hlast] at h
    simp only at hq1 hq2
    refine proveAndBuild_spec cfg l2 hw loc agg hs hl hfb q 0 prover ?_ (by rw [qfrom]; omega) hq2 ?_ ?_ c r' tb optOn h
    · unfold FromOK; rw [hlast]; exact qfrom
    · have := congrArg Params.bridges hcut
      simp only [cutTo] at this
      rw [this, qfrom]; exact bridgesIn_narrow l2 hw _ _ _ hq2
    · have := congrArg Params.claims hcut
      simp only [cutTo] at this
      rw [this, qfrom]; exact claimsIn_narrow l2 hw _ _ _ hq2

theorem expect_from_ge (cfg : Cfg) (agg : List ACert) (hge : ∀ c ∈ agg, cfg.start + 1 ≤ c.from_)
    (hft : ∀ i (h : i < agg.length), (agg[i]).from_ ≤ (agg[i]).to_) : cfg.start + 1 ≤ (expect cfg agg).2.2 := by
  unfold expect
  cases h : lastSettled agg with
  | none => simp
  | some p =>
    simp only
    have hp := mem_lastSettled agg p h
    obtain ⟨i, hi, e⟩ := List.getElem_of_mem hp
    have h1 := hge p hp
    have h2 := hft i hi
    rw [e] at h2
    omega

theorem sendCore_inv (s : Sys) (hi : Inv s) (hup : s.up = true) (b : Build) (crash : Bool)
    (hspec : ∀ c retry tb, b = .cert c retry tb → BuildOK s.cfg s.l2 s.loc s.agg c tb) :
    Inv (sendCore s b crash).1 := by
  unfold sendCore
  cases b with
  | none => exact hi
  | err => exact hi
  | cert c retry tb =>
    simp only
    by_cases hf : s.failSub = true
    · rw [if_pos hf]; exact hi.of_eq rfl rfl rfl rfl rfl
    rw [if_neg hf]
    have hsync := hi.syncUp hup
    have hlast := inv_lastOK s hi
    obtain ⟨b1, b2, b3, b4, b5, b6, b7, b8, b9⟩ := hspec c retry tb rfl
    have hcnts : ∀ x ∈ s.agg ++ [{ c with id := s.agg.length + 1 }], CountOK s.l2 x := by
      intro x hx
      rcases List.mem_append.mp hx with h | h
      · exact hi.counts x h
      · rw [List.mem_singleton.mp h]
        obtain ⟨e1, e2⟩ := expect_count s.cfg s.l2 s.agg hi.startOK hi.counts
        rw [← b1] at e1 e2
        simp only at e1 e2
        refine ⟨e1, ?_⟩
        simp only
        rw [b7, b5, e1]
        exact newLER_count s.l2 hi.l2sorted hi.deposits c.from_ c.to_ e2 (by omega)
    have hfrom : ∀ x ∈ s.agg ++ [{ c with id := s.agg.length + 1 }], s.cfg.start + 1 ≤ x.from_ := by
      intro x hx
      rcases List.mem_append.mp hx with h | h
      · exact hi.fromGe x h
      · rw [List.mem_singleton.mp h]
        simp only
        have := expect_from_ge s.cfg s.agg hi.fromGe (fun i hi' => (hi.chain i hi').2)
        rw [← b1] at this; exact this
    have hcont : ∀ x ∈ s.agg ++ [{ c with id := s.agg.length + 1 }], ContentOK s.l2 x := by
      intro x hx
      rcases List.mem_append.mp hx with h | h
      · exact hi.content x h
      · rw [List.mem_singleton.mp h]; exact ⟨by rw [b3]; exact b4, b5, b6, b7⟩
    -- the Agglayer's last certificate is decided, and the node's last record has its status
    have hlastc : ∀ x, s.agg.getLast? = some x → x.status.isOpen = false ∧
        ∃ r, lastRow s.loc = some r ∧ Matches r x ∧ r.status = x.status := by
      intro x hx
      unfold SyncUp at hsync
      rw [hx] at hsync
      cases hl : lastRow s.loc with
      | none => rw [hl] at hsync; exact absurd hsync (by simp)
      | some r =>
        rw [hl] at hsync
        have hm : Matches r x := hsync
        have hc := b9 r hl
        have hst : r.status = x.status := by
          rcases hm.status with e | e
          · exact e
          · rw [hc] at e; cases e
        exact ⟨by rw [← hst]; exact hc, r, rfl, hm, hst⟩
    have hok : CertOK s.cfg s.agg { c with id := s.agg.length + 1 } := ⟨b1, b2⟩
    obtain ⟨g1, g2, g3⟩ := agg_append s.cfg s.agg { c with id := s.agg.length + 1 } hi.ids hi.closedPrefix hi.chain rfl hok
      (fun x hx => (hlastc x hx).1)
    have hrowsOld : ∀ r ∈ s.loc, ∃ c0, certById (s.agg ++ [{ c with id := s.agg.length + 1 }]) r.id = some c0 ∧ Matches r c0 := by
      intro r hr
      obtain ⟨c0, hc0, hm⟩ := hi.rows r hr
      exact ⟨c0, certById_append _ _ _ _ hc0, hm⟩
    by_cases hcr : crash = true
    · -- the process dies between the submission and the local write
      rw [if_pos hcr]
      refine ⟨hi.l2wf, g1, g2, g3, hi.sorted, hrowsOld, fun h => by simp at h, ?_, hi.l2sorted, hcont, hi.startOK, hi.deposits, hcnts, hfrom⟩
      intro _
      unfold SyncDown
      simp only
      cases hl : lastRow s.loc with
      | none => exact Or.inl rfl
      | some r =>
        right
        refine ⟨r, rfl, Or.inr ?_⟩
        cases hg : s.agg.getLast? with
        | none =>
          unfold SyncUp at hsync; rw [hl, hg] at hsync; exact absurd hsync (by simp)
        | some x =>
          obtain ⟨hxc, r', hr', hm, hst⟩ := hlastc x hg
          rw [hl] at hr'; cases hr'
          obtain ⟨pre, hpre⟩ := List.getLast?_eq_some_iff.mp hg
          exact ⟨pre, x, _, by rw [hpre, List.append_assoc]; rfl, hm, hst, hxc⟩
    · rw [if_neg hcr]
      -- the new record is the highest one
      have hle : ∀ x ∈ s.loc, x.height ≤ (rowOfCert { c with id := s.agg.length + 1 } retry tb s.cfg.fep).height := by
        intro x hx
        simp only [rowOfCert]
        cases hl : lastRow s.loc with
        | none => rw [lastRow_none_nil _ hl] at hx; simp at hx
        | some r =>
          have h1 := sorted_le_last s.loc hi.sorted r hl x hx
          cases hg : s.agg.getLast? with
          | none => unfold SyncUp at hsync; rw [hl, hg] at hsync; exact absurd hsync (by simp)
          | some y =>
            obtain ⟨_, r', hr', hm, _⟩ := hlastc y hg
            rw [hl] at hr'; cases hr'
            obtain ⟨pre, hpre⟩ := List.getLast?_eq_some_iff.mp hg
            have hidx : pre.length < s.agg.length := by rw [hpre]; simp
            have hy : CertOK s.cfg pre y := by
              have := hi.chain pre.length hidx
              simpa [hpre] using this
            have h2 := expect_fst_ge s.cfg pre y hy
            rw [← hpre, ← b1] at h2
            simp only at h2
            rw [hm.height] at h1
            omega
      refine ⟨hi.l2wf, g1, g2, g3, saveRow_sorted _ _ hi.sorted, ?_, ?_, fun h => by simp [hup] at h,
        hi.l2sorted, hcont, hi.startOK, hi.deposits, hcnts, hfrom⟩
      · intro r hr
        rcases mem_saveRow _ _ _ hr with e | hr
        · subst e
          refine ⟨{ c with id := s.agg.length + 1 }, by simp only [rowOfCert]; exact certById_new _ _, ?_⟩
          exact ⟨rfl, rfl, rfl, b3.symm, rfl, Or.inl rfl, Or.inl (by simp only [rowOfCert]; exact b8.symm)⟩
        · exact hrowsOld r hr
      · intro _
        unfold SyncUp
        simp only
        rw [saveRow_last _ _ hle]
        simp only [List.getLast?_append, List.getLast?_singleton, Option.some_or]
        exact ⟨rfl, rfl, rfl, b3.symm, rfl, Or.inl rfl, Or.inl (by simp only [rowOfCert]; exact b8.symm)⟩

theorem inv_lastFacts (s : Sys) (hi : Inv s) : LastFacts s.cfg s.l2 s.loc s.agg := by
  intro r x _ hg _
  have hx : x ∈ s.agg := List.mem_of_getLast? hg
  obtain ⟨i, hi', e⟩ := List.getElem_of_mem hx
  have h1 := (hi.chain i hi').2
  rw [e] at h1
  exact ⟨h1, (hi.content x hx).1, hi.fromGe x hx⟩

theorem buildAny_spec (size : Params → Nat) (s : Sys) (hi : Inv s) (hup : s.up = true) (c : ACert) (retry tb : Nat)
    (h : (buildAny size s).1 = .cert c retry tb) : BuildOK s.cfg s.l2 s.loc s.agg c tb := by
  have hsync := hi.syncUp hup
  have hlast := inv_lastOK s hi
  unfold buildAny at h
  by_cases hf : s.cfg.fep = true
  · rw [if_pos hf] at h
    simp only at h
    cases hb : (buildFEP size s.cfg s.l2 s.loc s.prover s.optOn).1 with
    | none => rw [hb] at h; simp [markOpt] at h
    | err => rw [hb] at h; simp [markOpt] at h
    | cert c0 r0 t0 =>
      rw [hb] at h
      simp only [markOpt, Build.cert.injEq] at h
      obtain ⟨hc, hr, ht⟩ := h
      have h0 := buildFEP_spec size s.cfg s.l2 hi.l2wf s.loc s.agg hsync hlast (inv_fallback s hi) (inv_lastFacts s hi) s.prover
        s.optOn c0 r0 t0 hb
      subst hc; subst ht
      exact h0
  · rw [if_neg hf] at h
    exact build_spec size s.cfg s.l2 hi.l2wf s.loc s.agg hsync hlast (inv_fallback s hi) c retry tb h

theorem send_inv (size : Params → Nat) (s : Sys) (hi : Inv s) (hup : s.up = true) (crash : Bool) :
    Inv (send size s crash).1 := by
  unfold send
  have hi' : Inv { s with prover := (buildAny size s).2 } := hi.of_eq rfl rfl rfl rfl rfl
  exact sendCore_inv _ hi' hup _ crash (fun c retry tb hb => buildAny_spec size s hi hup c retry tb hb)

theorem tick_inv (size : Params → Nat) (s : Sys) (hi : Inv s) (epoch crash : Bool) :
    Inv (tick size s epoch crash).1 := by
  unfold tick
  by_cases hu : s.up = true
  · simp only [hu, Bool.not_true, Bool.false_eq_true, if_false]
    obtain ⟨f, hf, he⟩ := poll_map s
    have h1 : Inv (poll s).1 := by
      rw [he]; exact (inv_map_loc s hi f hf).of_eq rfl rfl rfl rfl rfl
    have hu1 : (poll s).1.up = true := by rw [he]; exact hu
    generalize hp : poll s = pr at h1 hu1
    obtain ⟨s1, p⟩ := pr
    simp only at h1 hu1 ⊢
    have key : ∀ go : Bool, Inv (if go = true then send size s1 crash else (s1, SendOut.none)).1 := by
      intro go; cases go
      · simpa using h1
      · simpa using send_inv size s1 h1 hu1 crash
    exact (key (if epoch = true then !p.pending else (!p.pending && p.newInError && s1.cfg.retry))).of_eq
      rfl rfl rfl rfl rfl
  · have : s.up = false := by simpa using hu
    simp only [this, Bool.not_false, if_true]; exact hi


/-! #### the Agglayer moves a certificate -/

def mv (id : Nat) (st : St) (c : ACert) : ACert :=
  if c.id = id ∧ c.status.isOpen then { c with status := st } else c

theorem moveCert_eq (agg : List ACert) (id : Nat) (st : St) : moveCert agg id st = agg.map (mv id st) := rfl

theorem mv_closed (id : Nat) (st : St) (c : ACert) (h : c.status.isOpen = false) : mv id st c = c := by
  unfold mv; rw [if_neg]; intro hh; rw [h] at hh; exact absurd hh.2 (by simp)

theorem mv_id (id : Nat) (st : St) (c : ACert) : (mv id st c).id = c.id := by
  unfold mv; split <;> rfl

theorem certOK_mv (cfg : Cfg) (pre : List ACert) (id : Nat) (st : St) (c : ACert) (h : CertOK cfg pre c) :
    CertOK cfg pre (mv id st c) := by
  unfold mv; split
  · exact h
  · exact h

theorem matches_mv (id : Nat) (st : St) (r : Row) (c : ACert) (hm : Matches r c) : Matches r (mv id st c) := by
  unfold mv
  split
  · rename_i h
    refine ⟨hm.id, hm.height, hm.from_, hm.to_, hm.new, hm.prev, Or.inr ?_⟩
    rcases hm.status with e | e
    · rw [e]; exact h.2
    · exact e
  · exact hm

theorem certById_map (agg : List ACert) (g : ACert → ACert) (id : Nat) :
    certById (agg.map g) id = (certById agg id).map g := by
  unfold certById
  by_cases h : id = 0
  · simp [h]
  · simp [h]

theorem move_inv (s : Sys) (hi : Inv s) (id : Nat) (st : St) : Inv { s with agg := moveCert s.agg id st } := by
  rw [moveCert_eq]
  have hlen : (s.agg.map (mv id st)).length = s.agg.length := List.length_map ..
  have hpre : ∀ i, i < s.agg.length → (s.agg.take i).map (mv id st) = s.agg.take i := by
    intro i hi'
    conv => rhs; rw [← List.map_id (s.agg.take i)]
    apply List.map_congr_left
    intro a ha
    obtain ⟨j, hj, e⟩ := List.getElem_of_mem ha
    have hj' : j < i := by simp at hj; omega
    have hj2 : j < s.agg.length := by omega
    have : (s.agg.take i)[j] = s.agg[j] := by simp
    rw [← e, this]
    exact mv_closed _ _ _ (hi.closedPrefix j hj2 (by omega))
  refine ⟨hi.l2wf, ?_, ?_, ?_, hi.sorted, ?_, ?_, ?_, hi.l2sorted, ?_, hi.startOK, hi.deposits, ?_, ?_⟩
  rotate_right 3
  · intro c hc
    obtain ⟨c0, hc0, e⟩ := List.mem_map.mp hc
    subst e
    have := hi.content c0 hc0
    unfold mv; split
    · exact this
    · exact this
  · intro c hc
    obtain ⟨c0, hc0, e⟩ := List.mem_map.mp hc
    subst e
    have := hi.counts c0 hc0
    unfold mv; split
    · exact this
    · exact this
  · intro c hc
    obtain ⟨c0, hc0, e⟩ := List.mem_map.mp hc
    subst e
    have := hi.fromGe c0 hc0
    unfold mv; split
    · exact this
    · exact this
  · intro i h
    simp only [List.getElem_map, mv_id]
    exact hi.ids i (by simpa using h)
  · intro i h h2
    simp only [List.getElem_map]
    have hi' : i < s.agg.length := by simpa using h
    have h3 : i + 1 < s.agg.length := by simpa using h2
    rw [mv_closed _ _ _ (hi.closedPrefix i hi' h3)]
    exact hi.closedPrefix i hi' h3
  · intro i h
    have hi' : i < s.agg.length := by simpa using h
    simp only [List.getElem_map]
    rw [← List.map_take, hpre i hi']
    exact certOK_mv _ _ _ _ _ (hi.chain i hi')
  · intro r hr
    obtain ⟨c, hc, hm⟩ := hi.rows r hr
    exact ⟨mv id st c, by simp only; rw [certById_map, hc]; rfl, matches_mv _ _ _ _ hm⟩
  · intro hu
    have h0 := hi.syncUp hu
    unfold SyncUp at h0 ⊢
    simp only
    rw [List.getLast?_map]
    cases hl : lastRow s.loc with
    | none => rw [hl] at h0; cases hg : s.agg.getLast? <;> simp_all
    | some r =>
      rw [hl] at h0
      cases hg : s.agg.getLast? with
      | none => rw [hg] at h0; exact absurd h0 (by simp)
      | some c => rw [hg] at h0; exact matches_mv _ _ _ _ h0
  · intro hu
    have h0 := hi.syncDown hu
    unfold SyncDown at h0 ⊢
    simp only
    rcases h0 with h0 | ⟨r, hl, h0⟩
    · exact Or.inl h0
    · right
      refine ⟨r, hl, ?_⟩
      rcases h0 with ⟨c, hg, hm⟩ | ⟨pre, c, d, hp, hm, hst, hcl⟩
      · left; exact ⟨mv id st c, by rw [List.getLast?_map, hg]; rfl, matches_mv _ _ _ _ hm⟩
      · right
        refine ⟨pre.map (mv id st), c, mv id st d, ?_, hm, hst, hcl⟩
        rw [hp]; simp [mv_closed _ _ _ hcl]


/-! #### start-up reconciliation -/

def lastOfPS (settled pending : Option ACert) : Option ACert :=
  match pending with
  | some p => some p
  | none => settled

def ProcPost (settled pending : Option ACert) (loc : Option Row) : Action → Prop
  | .none => loc = none ∧ (lastOfPS settled pending = none ∨ (settled = none ∧ ∃ p, pending = some p ∧ p.height ≠ 0))
  | .update c => lastOfPS settled pending = some c ∧ ∃ l, loc = some l ∧ l.id = c.id
  | .insert c => lastOfPS settled pending = some c ∧ (∀ l, loc = some l → l.height ≤ c.height)

theorem process_main (l : Row) (c : ACert) (a : Action)
    (h : (if c.height < l.height then none
      else if c.height = l.height + 1 then some (Action.insert c)
      else if l.id ≠ c.id then
        (if l.status = St.inError ∧ c.height = l.height then some (Action.insert c) else none)
      else some (Action.update c)) = some a) :
    (a = .insert c ∧ l.height ≤ c.height) ∨ (a = .update c ∧ l.id = c.id) := by
  by_cases h1 : c.height < l.height
  · rw [if_pos h1] at h; cases h
  rw [if_neg h1] at h
  by_cases h2 : c.height = l.height + 1
  · rw [if_pos h2] at h; cases h; exact Or.inl ⟨rfl, by omega⟩
  rw [if_neg h2] at h
  by_cases h3 : l.id ≠ c.id
  · rw [if_pos h3] at h
    by_cases h4 : l.status = St.inError ∧ c.height = l.height
    · rw [if_pos h4] at h; cases h; exact Or.inl ⟨rfl, by omega⟩
    · rw [if_neg h4] at h; cases h
  · rw [if_neg h3] at h; cases h; exact Or.inr ⟨rfl, by simpa using h3⟩

theorem process_spec (settled pending : Option ACert) (loc : Option Row) (a : Action)
    (h : process settled pending loc = some a) : ProcPost settled pending loc a := by
  unfold process at h
  by_cases hc : (!agglayerConsistent settled pending) = true
  · rw [if_pos hc] at h; cases h
  rw [if_neg hc] at h
  cases loc <;> cases settled <;> cases pending <;> simp only [] at h
  · cases h; exact ⟨rfl, Or.inl rfl⟩
  · rename_i p
    by_cases h0 : p.height = 0
    · simp only [h0, if_true] at h; cases h; exact ⟨rfl, fun l hl => by cases hl⟩
    · simp only [h0, if_false] at h
      by_cases h1 : (p.status != St.inError) = true
      · simp only [h1, if_true] at h; cases h
      · simp only [h1, if_false] at h; cases h; exact ⟨rfl, Or.inr ⟨rfl, p, rfl, h0⟩⟩
  · cases h; exact ⟨rfl, fun l hl => by cases hl⟩
  · cases h; exact ⟨rfl, fun l hl => by cases hl⟩
  · cases h
  all_goals
    rename_i l _
    rcases process_main _ _ _ h with ⟨e, h1⟩ | ⟨e, h1⟩
    · subst e; exact ⟨rfl, fun l' hl => by cases hl; exact h1⟩
    · subst e; exact ⟨rfl, _, rfl, h1⟩

theorem lastOf (agg : List ACert) : lastOfPS (lastSettled agg) (lastPending agg) = agg.getLast? := by
  unfold lastOfPS
  cases hg : agg.getLast? with
  | none =>
    have : agg = [] := by simpa using hg
    subst this; simp [lastPending, lastSettled]
  | some c =>
    obtain ⟨pre, hpre⟩ := List.getLast?_eq_some_iff.mp hg
    unfold lastPending
    rw [hg]
    by_cases h : c.status = .settled
    · simp only [h, if_true]; rw [hpre, lastSettled_snoc, if_pos h]
    · simp only [h, if_false]

theorem inv_set_up (s : Sys) (hi : Inv s) (h : SyncUp s.loc s.agg) : Inv { s with up := true } :=
  ⟨hi.l2wf, hi.ids, hi.closedPrefix, hi.chain, hi.sorted, hi.rows, fun _ => h, fun hu => by simp at hu,
    hi.l2sorted, hi.content, hi.startOK, hi.deposits, hi.counts, hi.fromGe⟩

theorem mem_of_lastRow (loc : List Row) (r : Row) (h : lastRow loc = some r) : r ∈ loc :=
  List.mem_of_getLast? h

theorem restart_inv (s : Sys) (hi : Inv s) : Inv (restart s).1 := by
  unfold restart
  by_cases hu : s.up = true
  · rw [if_pos hu]; exact hi
  rw [if_neg hu]
  have hdown : s.up = false := by simpa using hu
  obtain ⟨f, hf, he⟩ := poll_map s
  have h1 : Inv (poll s).1 := by rw [he]; exact (inv_map_loc s hi f hf).of_eq rfl rfl rfl rfl rfl
  generalize hp : poll s = pr at h1
  obtain ⟨s1, p⟩ := pr
  simp only at h1 ⊢
  by_cases hfr : s1.failRec = true
  · simp only [hfr, if_true]; exact h1.of_eq rfl rfl rfl rfl rfl
  simp only [hfr, Bool.false_eq_true, if_false]
  cases hpr : process (lastSettled s1.agg) (lastPending s1.agg) (lastRow s1.loc) with
  | none => exact h1.of_eq rfl rfl rfl rfl rfl
  | some a =>
    have hps := process_spec _ _ _ _ hpr
    cases a with
    | none =>
      simp only [ProcPost, lastOf] at hps
      obtain ⟨hl, hcase⟩ := hps
      refine (inv_set_up s1 h1 ?_).of_eq rfl rfl rfl rfl rfl
      unfold SyncUp
      rw [hl]
      rcases hcase with hg | ⟨hs, p0, hp0, hne⟩
      · rw [hg]; trivial
      · -- no settled certificate but a pending one above height 0: excluded by the chain
        exfalso
        unfold lastPending at hp0
        cases hg : s1.agg.getLast? with
        | none => rw [hg] at hp0; cases hp0
        | some c =>
          rw [hg] at hp0
          simp only [] at hp0
          by_cases hst : c.status = .settled
          · rw [if_pos hst] at hp0; cases hp0
          · rw [if_neg hst] at hp0
            have e : c = p0 := by simpa using hp0
            subst e
            obtain ⟨pre, hpre⟩ := List.getLast?_eq_some_iff.mp hg
            have hidx : pre.length < s1.agg.length := by rw [hpre]; simp
            have hc : CertOK s1.cfg pre c := by
              have := h1.chain pre.length hidx
              simpa [hpre] using this
            rw [hpre, lastSettled_snoc, if_neg hst] at hs
            have := hc.1
            unfold expect at this
            rw [hs] at this
            simp only [Prod.mk.injEq] at this
            exact hne this.1
    | update c =>
      simp only [ProcPost, lastOf] at hps
      obtain ⟨hg, l, hl, hid⟩ := hps
      have hcid : certById s1.agg l.id = some c := by rw [hid]; exact certById_last s1.agg h1.ids c hg
      have hmem := mem_of_lastRow _ _ hl
      obtain ⟨c0, hc0, hm⟩ := h1.rows l hmem
      rw [hcid] at hc0; cases hc0
      simp only [hl]
      have hso : StatusOnly s1.agg (fun r => if r.id = l.id then { r with status := c.status } else r) :=
        setStatus_statusOnly s1.agg l.id c hcid
      by_cases hst : l.status = c.status
      · rw [if_pos hst]
        refine (inv_set_up s1 h1 ?_).of_eq rfl rfl rfl rfl rfl
        unfold SyncUp; rw [hl, hg]; exact hm
      · rw [if_neg hst]
        have h2 := inv_map_loc s1 h1 _ hso
        refine (inv_set_up _ h2 ?_).of_eq rfl rfl rfl rfl rfl
        unfold SyncUp
        simp only
        rw [lastRow_map, hl, hg]
        exact matches_statusOnly _ _ hso l c hcid hm
    | insert c =>
      simp only [ProcPost, lastOf] at hps
      obtain ⟨hg, hle⟩ := hps
      have hcid : certById s1.agg c.id = some c := certById_last s1.agg h1.ids c hg
      have hrow : ∀ n, Matches (rowOfHeader s1.cfg.omitPrev c n) c := by
        intro n
        refine ⟨rfl, rfl, rfl, rfl, rfl, ?_, Or.inl rfl⟩
        unfold rowOfHeader
        cases s1.cfg.omitPrev
        · exact Or.inl rfl
        · exact Or.inr rfl
      have hle' : ∀ n, ∀ x ∈ s1.loc, x.height ≤ (rowOfHeader s1.cfg.omitPrev c n).height := by
        intro n
        intro x hx
        cases hl : lastRow s1.loc with
        | none => rw [lastRow_none_nil _ hl] at hx; simp at hx
        | some l =>
          have := sorted_le_last s1.loc h1.sorted l hl x hx
          have := hle l hl
          simp only [rowOfHeader]; omega
      refine ⟨h1.l2wf, h1.ids, h1.closedPrefix, h1.chain, saveRow_sorted _ _ h1.sorted, ?_, ?_,
        fun hu => by simp at hu, h1.l2sorted, h1.content, h1.startOK, h1.deposits, h1.counts, h1.fromGe⟩
      · intro r hr
        rcases mem_saveRow _ _ _ hr with e | hr
        · subst e; exact ⟨c, hcid, hrow _⟩
        · exact h1.rows r hr
      · intro _
        unfold SyncUp
        simp only
        rw [saveRow_last _ _ (hle' _), hg]
        exact hrow _


/-! #### every operation keeps the invariant -/

/-- admissible inputs (decidable, evaluated against the state the operation is applied to): an L2 block's events carry
    its number; block numbers fit the 32-bit offset of the certificate metadata (the code truncates
    `uint32(ToBlock-FromBlock)`; DESIGN F8); blocks at or below the configured start block carry no deposit; the bridge
    contract numbers deposits consecutively (C01) -/
def opOK (s : Sys) : Op → Bool
  | .l2blk b =>
    decide (b.num < 2^32) && b.bridges.all (fun e => e.block == b.num) && b.claims.all (fun e => e.block == b.num) &&
    (decide (s.cfg.start < b.num) || b.bridges.isEmpty) &&
    (b.bridges.map (·.id) == List.range' (allBridges s.l2).length b.bridges.length)
  | .forge => false      -- records that contradict the Agglayer's are outside the histories the theorems quantify over
  | _ => true

def opsOK (size : Params → Nat) (s : Sys) : List Op → Bool
  | [] => true
  | op :: rest => opOK s op && opsOK size (step size s op) rest

theorem syncDown_of_up (loc : List Row) (agg : List ACert) (h : SyncUp loc agg) : SyncDown loc agg := by
  unfold SyncUp at h
  unfold SyncDown
  cases hl : lastRow loc with
  | none => exact Or.inl rfl
  | some r =>
    rw [hl] at h
    cases hg : agg.getLast? with
    | none => rw [hg] at h; exact absurd h (by simp)
    | some c => rw [hg] at h; exact Or.inr ⟨r, rfl, Or.inl ⟨c, rfl, h⟩⟩

theorem step_inv (size : Params → Nat) (s : Sys) (hi : Inv s) (op : Op) (hop : opOK s op = true) :
    Inv (step size s op) := by
  cases op with
  | l2blk b =>
    simp only [step]
    split
    · rename_i hlt
      simp only [opOK, Bool.and_eq_true, Bool.or_eq_true, decide_eq_true_eq, List.all_eq_true, beq_iff_eq,
        List.isEmpty_iff] at hop
      obtain ⟨⟨⟨⟨hn, hbb⟩, hcb⟩, hst⟩, hids⟩ := hop
      refine ⟨?_, hi.ids, hi.closedPrefix, hi.chain, hi.sorted, hi.rows, hi.syncUp, hi.syncDown, ?_, ?_,
        ?_, ?_, ?_, hi.fromGe⟩
      · intro x hx
        simp only at hx
        rcases List.mem_append.mp hx with h | h
        · exact hi.l2wf x h
        · rw [List.mem_singleton.mp h]; exact ⟨hn, hbb, hcb⟩
      · simp only
        rw [List.pairwise_append]
        refine ⟨hi.l2sorted, by simp, ?_⟩
        intro x hx y hy
        rw [List.mem_singleton.mp hy]
        have := l2_le_lastProcessed s.l2 hi.l2sorted x hx
        omega
      · intro c hc
        exact contentOK_snoc s.l2 b c hlt (hi.content c hc)
      · intro x hx hle
        simp only at hx
        rcases List.mem_append.mp hx with h | h
        · exact hi.startOK x h hle
        · rw [List.mem_singleton.mp h] at hle ⊢
          rcases hst with h1 | h1
          · simp only at hle; omega
          · exact h1
      · simp only [allBridges, List.flatMap_append, List.flatMap_cons, List.flatMap_nil, List.append_nil,
          List.map_append, List.length_append]
        have hd := hi.deposits
        simp only [allBridges] at hd hids
        rw [hd, hids, List.range_eq_range', List.range_eq_range', ← List.range'_append_1, Nat.zero_add]
      · intro c hc
        obtain ⟨i, hi', e⟩ := List.getElem_of_mem hc
        have hft := (hi.chain i hi').2
        rw [e] at hft
        exact countOK_snoc s.l2 b c hlt (hi.content c hc).1 hft (hi.counts c hc)
    · exact hi
  | epoch c => exact tick_inv size s hi true c
  | status c => exact tick_inv size s hi false c
  | move id st => exact move_inv s hi id st
  | failHdr => exact hi.of_eq rfl rfl rfl rfl rfl
  | failSub => exact hi.of_eq rfl rfl rfl rfl rfl
  | failRec => exact hi.of_eq rfl rfl rfl rfl rfl
  | prover p => exact hi.of_eq rfl rfl rfl rfl rfl
  | opt b => exact hi.of_eq rfl rfl rfl rfl rfl
  | epochUnreadable =>
    simp only [step, tickUnreadable]
    split
    · exact hi
    · obtain ⟨f, hf, he⟩ := poll_map s
      have h1 : Inv (poll s).1 := by
        rw [he]; exact (inv_map_loc s hi f hf).of_eq rfl rfl rfl rfl rfl
      exact h1.of_eq rfl rfl rfl rfl rfl
  | epochL1Unreadable =>
    simp only [step, tickL1Unreadable]
    by_cases hfep : s.cfg.fep = true
    · simp only [hfep, Bool.or_true, if_true]; exact hi
    have hfep' : s.cfg.fep = false := by simpa using hfep
    by_cases hu : s.up = true
    · simp only [hu, hfep', Bool.not_true, Bool.or_false, Bool.false_eq_true, if_false]
      obtain ⟨f, hf, he⟩ := poll_map s
      have h1 : Inv (poll s).1 := by
        rw [he]; exact (inv_map_loc s hi f hf).of_eq rfl rfl rfl rfl rfl
      have hu1 : (poll s).1.up = true := by rw [he]; exact hu
      generalize hp : poll s = pr at h1 hu1
      obtain ⟨s1, p⟩ := pr
      simp only at h1 hu1 ⊢
      have hsend : Inv (send size s1 false).1 := send_inv size s1 h1 hu1 false
      have hprov : Inv ({ s1 with prover := (buildAny size s1).2 } : Sys) := h1.of_eq rfl rfl rfl rfl rfl
      by_cases hpp : p.pending = true
      · simp only [hpp, Bool.not_true, Bool.false_eq_true, if_false]
        exact h1.of_eq rfl rfl rfl rfl rfl
      · have : p.pending = false := by simpa using hpp
        simp only [this, Bool.not_false, if_true]
        split
        · split
          · exact hsend.of_eq rfl rfl rfl rfl rfl
          · exact hprov.of_eq rfl rfl rfl rfl rfl
        · exact hsend.of_eq rfl rfl rfl rfl rfl
    · have : s.up = false := by simpa using hu
      simp only [this, Bool.not_false, Bool.true_or, if_true]; exact hi
  | crash =>
    refine ⟨hi.l2wf, hi.ids, hi.closedPrefix, hi.chain, hi.sorted, hi.rows, fun h => by simp [step] at h, ?_,
      hi.l2sorted, hi.content, hi.startOK, hi.deposits, hi.counts, hi.fromGe⟩
    intro _
    by_cases hu : s.up = true
    · exact syncDown_of_up _ _ (hi.syncUp hu)
    · exact hi.syncDown (by simpa using hu)
  | losedb =>
    refine ⟨hi.l2wf, hi.ids, hi.closedPrefix, hi.chain, ?_, ?_, fun h => by simp [step] at h, ?_,
      hi.l2sorted, hi.content, hi.startOK, hi.deposits, hi.counts, hi.fromGe⟩
    · simp [step]
    · intro r hr; simp [step] at hr
    · intro _; exact Or.inl rfl
  | restart => exact (restart_inv s hi).of_eq rfl rfl rfl rfl rfl
  | forge => simp [opOK] at hop

theorem run_inv (size : Params → Nat) (ops : List Op) : ∀ (s : Sys), Inv s → opsOK size s ops = true →
    Inv (run size s ops) := by
  induction ops with
  | nil => intro s hi _; exact hi
  | cons op rest ih =>
    intro s hi hok
    unfold run
    simp only [List.foldl_cons]
    simp only [opsOK, Bool.and_eq_true] at hok
    exact ih _ (step_inv size s hi op hok.1) hok.2

end Aggkit.Aggsender
