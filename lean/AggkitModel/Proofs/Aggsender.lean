import AggkitModel.Model.Aggsender
import AggkitModel.Properties.C17
/- invariants of the certificate protocol (helper lemmas; the property theorems are in Properties/C02, C13) -/
namespace Aggkit.Aggsender
open Aggkit.CertRange Aggkit.C17

/-- what the next certificate must look like, given everything the Agglayer holds: (height, previous exit root,
    first block) -/
def expect (cfg : Cfg) (pre : List ACert) : Nat × Nat × Nat :=
  match lastSettled pre with
  | none => (0, 0, cfg.start + 1)
  | some p => (p.height + 1, p.new, p.to_ + 1)

theorem lastSettled_snoc (pre : List ACert) (c : ACert) :
    lastSettled (pre ++ [c]) = if c.status = .settled then some c else lastSettled pre := by
  unfold lastSettled
  rw [List.filter_append]
  by_cases h : c.status = .settled
  · simp [h]
  · simp [h]

theorem expect_snoc_settled (cfg : Cfg) (pre : List ACert) (c : ACert) (h : c.status = .settled) :
    expect cfg (pre ++ [c]) = (c.height + 1, c.new, c.to_ + 1) := by
  unfold expect; rw [lastSettled_snoc, if_pos h]

theorem expect_snoc_not (cfg : Cfg) (pre : List ACert) (c : ACert) (h : c.status ≠ .settled) :
    expect cfg (pre ++ [c]) = expect cfg pre := by
  unfold expect; rw [lastSettled_snoc, if_neg h]

/-- a local row describes an Agglayer certificate (its status may lag behind while it is still open locally) -/
structure Matches (r : Row) (c : ACert) : Prop where
  id : r.id = c.id
  height : r.height = c.height
  from_ : r.from_ = c.from_
  to_ : r.to_ = c.to_
  new : r.new = c.new
  prev : r.prev = some c.prev
  status : r.status = c.status ∨ r.status.isOpen = true

/-- L2 data as the bridge syncer stores it: events carry their block number; block numbers fit the metadata offset -/
def L2WF (l2 : List L2Blk) : Prop :=
  ∀ b ∈ l2, b.num < 2^32 ∧ (∀ e ∈ b.bridges, e.block = b.num) ∧ (∀ e ∈ b.claims, e.block = b.num)

theorem bridgesIn_inRange (l2 : List L2Blk) (hw : L2WF l2) (f t : Nat) :
    ∀ e ∈ bridgesIn l2 f t, inRange f t e = true := by
  intro e he
  unfold bridgesIn at he
  rw [List.mem_flatMap] at he
  obtain ⟨b, hb, heb⟩ := he
  rw [List.mem_filter] at hb
  have := (hw b hb.1).2.1 e heb
  unfold inRange; rw [this]; exact hb.2

theorem claimsIn_inRange (l2 : List L2Blk) (hw : L2WF l2) (f t : Nat) :
    ∀ e ∈ claimsIn l2 f t, inRange f t e = true := by
  intro e he
  unfold claimsIn at he
  rw [List.mem_flatMap] at he
  obtain ⟨b, hb, heb⟩ := he
  rw [List.mem_filter] at hb
  have := (hw b hb.1).2.2 e heb
  unfold inRange; rw [this]; exact hb.2

theorem bridgesIn_narrow (l2 : List L2Blk) (hw : L2WF l2) (f t t' : Nat) (ht : t' ≤ t) :
    (bridgesIn l2 f t).filter (inRange f t') = bridgesIn l2 f t' := by
  unfold bridgesIn
  induction l2 with
  | nil => simp
  | cons b rest ih =>
    have hw' : L2WF rest := fun x hx => hw x (List.mem_cons_of_mem _ hx)
    have hb := hw b (List.mem_cons_self ..)
    simp only [List.filter_cons]
    by_cases c1 : (decide (f ≤ b.num) && decide (b.num ≤ t)) = true
    · rw [if_pos c1]
      simp only [List.flatMap_cons, List.filter_append]
      rw [ih hw']
      by_cases c2 : (decide (f ≤ b.num) && decide (b.num ≤ t')) = true
      · rw [if_pos c2]
        simp only [List.flatMap_cons]
        congr 1
        apply List.filter_eq_self.mpr
        intro e he
        unfold inRange; rw [hb.2.1 e he]; exact c2
      · rw [if_neg c2]
        have : b.bridges.filter (inRange f t') = [] := by
          apply List.filter_eq_nil_iff.mpr
          intro e he
          unfold inRange; rw [hb.2.1 e he]; exact c2
        rw [this]; simp
    · rw [if_neg c1]
      have c2 : ¬ (decide (f ≤ b.num) && decide (b.num ≤ t')) = true := by
        simp only [Bool.and_eq_true, decide_eq_true_eq] at c1 ⊢
        omega
      rw [if_neg c2]
      exact ih hw'

theorem claimsIn_narrow (l2 : List L2Blk) (hw : L2WF l2) (f t t' : Nat) (ht : t' ≤ t) :
    (claimsIn l2 f t).filter (inRange f t') = claimsIn l2 f t' := by
  unfold claimsIn
  induction l2 with
  | nil => simp
  | cons b rest ih =>
    have hw' : L2WF rest := fun x hx => hw x (List.mem_cons_of_mem _ hx)
    have hb := hw b (List.mem_cons_self ..)
    simp only [List.filter_cons]
    by_cases c1 : (decide (f ≤ b.num) && decide (b.num ≤ t)) = true
    · rw [if_pos c1]
      simp only [List.flatMap_cons, List.filter_append]
      rw [ih hw']
      by_cases c2 : (decide (f ≤ b.num) && decide (b.num ≤ t')) = true
      · rw [if_pos c2]
        simp only [List.flatMap_cons]
        congr 1
        apply List.filter_eq_self.mpr
        intro e he
        unfold inRange; rw [hb.2.2 e he]; exact c2
      · rw [if_neg c2]
        have : b.claims.filter (inRange f t') = [] := by
          apply List.filter_eq_nil_iff.mpr
          intro e he
          unfold inRange; rw [hb.2.2 e he]; exact c2
        rw [this]; simp
    · rw [if_neg c1]
      have c2 : ¬ (decide (f ≤ b.num) && decide (b.num ≤ t')) = true := by
        simp only [Bool.and_eq_true, decide_eq_true_eq] at c1 ⊢
        omega
      rw [if_neg c2]
      exact ih hw'

theorem lastProcessed_lt (l2 : List L2Blk) (hw : L2WF l2) : lastProcessed l2 < 2^32 := by
  unfold lastProcessed
  cases h : l2.getLast? with
  | none => simp
  | some b => exact (hw b (List.mem_of_getLast? h)).1


/-- `limitCertSize` on what `GetBridgesAndClaims` returned: a prefix cut that keeps the retry flag -/
theorem limit_cut (size : Params → Nat) (maxSize : Nat) (p : Params) (hp : WFp p) :
    ∃ q, limitCertSize size maxSize p = some q ∧ q = cutTo p q.to_ ∧ p.from_ ≤ q.to_ ∧ q.to_ ≤ p.to_ := by
  have hself : p = cutTo p p.to_ := by
    simp only [cutTo]
    rw [filter_inRange_self _ _ _ hp.2.1, filter_inRange_self _ _ _ hp.2.2]
  obtain ⟨q, h1, h2, h3, h4, _, _⟩ := limitAux_spec size maxSize p hp (p.to_ - p.from_ + 2) p hself hp.1
    (Nat.le_refl _) (by omega) (fun t h1 h2 => by omega)
  exact ⟨q, h1, h2, h3, h4⟩

/-- the node's last record describes the Agglayer's last certificate (both absent at the very start) -/
def SyncUp (loc : List Row) (agg : List ACert) : Prop :=
  match lastRow loc, agg.getLast? with
  | none, none => True
  | some r, some c => Matches r c
  | _, _ => False

/-- the Agglayer's most recent certificate was what the chain required when it was submitted -/
def LastOK (cfg : Cfg) (agg : List ACert) : Prop :=
  ∀ pre c, agg = pre ++ [c] → (c.height, c.prev, c.from_) = expect cfg pre

theorem St.closed_cases (s : St) (h : s.isOpen = false) : s = .settled ∨ s = .inError := by
  cases s <;> simp [St.isOpen] at h ⊢

/-- **what the node builds is what the chain requires** (one step; the induction over histories is in
    `Properties/C02`). -/
theorem build_spec (size : Params → Nat) (cfg : Cfg) (l2 : List L2Blk) (hw : L2WF l2) (loc : List Row)
    (agg : List ACert) (hs : SyncUp loc agg) (hl : LastOK cfg agg) (c : ACert) (retry tb : Nat)
    (h : build size cfg l2 loc = .cert c retry tb) :
    (c.height, c.prev, c.from_) = expect cfg agg ∧ c.from_ ≤ c.to_ ∧ c.to_ = tb ∧ tb ≤ lastProcessed l2 ∧
    c.bridges = bridgesIn l2 c.from_ c.to_ ∧ c.claims = claimsIn l2 c.from_ c.to_ ∧
    c.new = newLER c.prev c.bridges ∧ c.status = .pending ∧
    (∀ r, lastRow loc = some r → r.status.isOpen = false) := by
  unfold build at h
  simp only [] at h
  generalize hlr : lastSentBlockAndRetry cfg.start (lastRow loc) = pr at h
  obtain ⟨prevTo, retry0⟩ := pr
  simp only [] at h
  by_cases hge : prevTo ≥ lastProcessed l2
  · rw [if_pos hge] at h; cases h
  rw [if_neg hge] at h
  have hlp := lastProcessed_lt l2 hw
  -- the full range is well formed; the size limit cuts a prefix of it
  have hwf : WFp ({
      from_ := prevTo + 1, to_ := lastProcessed l2, bridges := bridgesIn l2 (prevTo + 1) (lastProcessed l2),
      claims := claimsIn l2 (prevTo + 1) (lastProcessed l2),
      retry := (decide (retry0 > 0) && (lastRow loc).isSome) } : Params) :=
    ⟨by simp only; omega, bridgesIn_inRange l2 hw _ _, claimsIn_inRange l2 hw _ _⟩
  obtain ⟨q, hq, hcut, hq1, hq2⟩ := limit_cut size cfg.maxSize _ hwf
  rw [hq] at h
  simp only [] at h
  have qfrom : q.from_ = prevTo + 1 := by rw [hcut]; rfl
  have qretry : q.retry = (decide (retry0 > 0) && (lastRow loc).isSome) := by rw [hcut]; rfl
  have qbr : q.bridges = bridgesIn l2 (prevTo + 1) q.to_ := by
    have := congrArg Params.bridges hcut
    simp only [cutTo] at this
    rw [this]; exact bridgesIn_narrow l2 hw _ _ _ hq2
  have qcl : q.claims = claimsIn l2 (prevTo + 1) q.to_ := by
    have := congrArg Params.claims hcut
    simp only [cutTo] at this
    rw [this]; exact claimsIn_narrow l2 hw _ _ _ hq2
  simp only [] at hq1 hq2
  split at h
  · cases h
  split at h
  · cases h
  rename_i hretry
  cases hn : nextHeightPrev loc (lastRow loc) with
  | none => rw [hn] at h; cases h
  | some hp =>
    obtain ⟨hh, pv⟩ := hp
    rw [hn] at h
    simp only [Build.cert.injEq] at h
    obtain ⟨hc, _, htb⟩ := h
    subst hc
    have hto : q.from_ + (q.to_ - q.from_) % 2 ^ 32 = q.to_ := by
      rw [Nat.mod_eq_of_lt (by omega)]; omega
    simp only
    refine ⟨?_, by rw [hto]; omega, by rw [hto]; exact htb, by rw [← htb]; exact hq2,
      by rw [hto, qfrom]; exact qbr, by rw [hto, qfrom]; exact qcl, trivial, trivial, ?_⟩
    · -- the chain position
      unfold SyncUp at hs
      cases hlast : lastRow loc with
      | none =>
        rw [hlast] at hs hlr hn
        cases hg : agg.getLast? with
        | some x => rw [hg] at hs; exact absurd hs (by simp)
        | none =>
          have : agg = [] := by simpa using hg
          subst this
          simp only [lastSentBlockAndRetry, Prod.mk.injEq] at hlr
          simp only [nextHeightPrev, Option.some.injEq, Prod.mk.injEq] at hn
          unfold expect lastSettled
          simp only [List.filter_nil, List.getLast?_nil]
          rw [qfrom, ← hlr.1, ← hn.1, ← hn.2]
      | some r =>
        rw [hlast] at hs hlr hn
        cases hg : agg.getLast? with
        | none => rw [hg] at hs; exact absurd hs (by simp)
        | some x =>
          rw [hg] at hs
          have hm : Matches r x := hs
          obtain ⟨pre, hpre⟩ : ∃ pre, agg = pre ++ [x] := by
            have := List.getLast?_eq_some_iff.mp hg
            obtain ⟨ys, hys⟩ := this
            exact ⟨ys, hys⟩
          have hx := hl pre x hpre
          simp only [nextHeightPrev] at hn
          by_cases hopen : r.status.isOpen = true
          · rw [if_pos hopen] at hn; cases hn
          rw [if_neg hopen] at hn
          have hclosed : r.status.isOpen = false := by simpa using hopen
          have hst : r.status = x.status := by
            rcases hm.status with e | e
            · exact e
            · rw [hclosed] at e; cases e
          rcases St.closed_cases _ hclosed with hset | herr
          · -- last certificate settled: next height, its new exit root, the block after its last
            rw [if_pos hset] at hn
            simp only [Option.some.injEq, Prod.mk.injEq] at hn
            simp only [lastSentBlockAndRetry, hset] at hlr
            simp only [reduceCtorEq, if_false, Prod.mk.injEq] at hlr
            rw [hpre, expect_snoc_settled cfg pre x (by rw [← hst]; exact hset)]
            rw [qfrom, ← hlr.1, ← hn.1, ← hn.2, hm.height, hm.new, hm.to_]
          · -- last certificate in error: same height, same previous exit root, same first block
            have hne : r.status ≠ .settled := by rw [herr]; simp
            rw [if_neg hne, hm.prev] at hn
            simp only [Option.some.injEq, Prod.mk.injEq] at hn
            simp only [lastSentBlockAndRetry, herr, if_true, Prod.mk.injEq] at hlr
            have hr0 : retry0 > 0 := by omega
            have hqr : q.retry = true := by rw [qretry, hlast]; simp [hr0]
            rw [hqr, hlast] at hretry
            simp only [Bool.true_and, Option.map_some, ne_eq, Option.some.injEq, decide_not,
              Bool.not_eq_true', decide_eq_false_iff_not, Decidable.not_not] at hretry
            have hxs : x.status ≠ .settled := by rw [← hst]; exact hne
            rw [hpre, expect_snoc_not cfg pre x hxs, ← hx, hretry, ← hn.1, ← hn.2, hm.height, hm.from_]
    · intro r hr
      rw [hr] at hn
      simp only [nextHeightPrev] at hn
      by_cases hopen : r.status.isOpen = true
      · rw [if_pos hopen] at hn; cases hn
      · simpa using hopen


/-! ### the invariant -/

/-- a certificate is where the chain required it to be when it was submitted -/
def CertOK (cfg : Cfg) (pre : List ACert) (c : ACert) : Prop :=
  (c.height, c.prev, c.from_) = expect cfg pre ∧ c.from_ ≤ c.to_

/-- the node is down: its records are empty (lost), or describe the Agglayer's last certificate, or the one before it
    (it stopped between submitting and recording) -/
def SyncDown (loc : List Row) (agg : List ACert) : Prop :=
  lastRow loc = none ∨
  ∃ r, lastRow loc = some r ∧
    ((∃ c, agg.getLast? = some c ∧ Matches r c) ∨
     (∃ pre c d, agg = pre ++ [c, d] ∧ Matches r c ∧ r.status = c.status ∧ c.status.isOpen = false))

structure Inv (s : Sys) : Prop where
  withPrev : s.cfg.omitPrev = false
  l2wf : L2WF s.l2
  ids : ∀ i (h : i < s.agg.length), (s.agg[i]).id = i + 1
  closedPrefix : ∀ i (h : i < s.agg.length), i + 1 < s.agg.length → (s.agg[i]).status.isOpen = false
  chain : ∀ i (h : i < s.agg.length), CertOK s.cfg (s.agg.take i) s.agg[i]
  sorted : s.loc.Pairwise (fun a b => a.height < b.height)
  rows : ∀ r ∈ s.loc, ∃ c, certById s.agg r.id = some c ∧ Matches r c
  syncUp : s.up = true → SyncUp s.loc s.agg
  syncDown : s.up = false → SyncDown s.loc s.agg

theorem init_inv (cfg : Cfg) (h : cfg.omitPrev = false) : Inv { cfg := cfg } := by
  refine ⟨h, ?_, ?_, ?_, ?_, ?_, ?_, ?_, ?_⟩
  · intro b hb; simp at hb
  · intro i hi; simp at hi
  · intro i hi; simp at hi
  · intro i hi; simp at hi
  · simp
  · intro r hr; simp at hr
  · intro hu; simp at hu
  · intro _; simp [SyncDown, lastRow]

/-! #### storage lemmas -/

theorem sorted_le_last (loc : List Row) (hs : loc.Pairwise (fun a b => a.height < b.height)) (r : Row)
    (hl : lastRow loc = some r) : ∀ x ∈ loc, x.height ≤ r.height := by
  unfold lastRow at hl
  obtain ⟨ys, hys⟩ := List.getLast?_eq_some_iff.mp hl
  subst hys
  intro x hx
  rw [List.pairwise_append] at hs
  rcases List.mem_append.mp hx with h | h
  · exact Nat.le_of_lt (hs.2.2 x h r (List.mem_singleton.mpr rfl))
  · rw [List.mem_singleton.mp h]; exact Nat.le_refl _

theorem saveRow_last (loc : List Row) (r : Row) (h : ∀ x ∈ loc, x.height ≤ r.height) :
    lastRow (saveRow loc r) = some r := by
  unfold saveRow lastRow
  have : loc.filter (fun x => decide (r.height < x.height)) = [] := by
    apply List.filter_eq_nil_iff.mpr
    intro x hx; have := h x hx; simp; omega
  rw [this]; simp

theorem saveRow_sorted (loc : List Row) (r : Row) (hs : loc.Pairwise (fun a b => a.height < b.height)) :
    (saveRow loc r).Pairwise (fun a b => a.height < b.height) := by
  unfold saveRow
  rw [List.pairwise_append, List.pairwise_append]
  refine ⟨⟨hs.sublist List.filter_sublist, by simp, ?_⟩, hs.sublist List.filter_sublist, ?_⟩
  · intro a ha b hb
    rw [List.mem_singleton.mp hb]
    simpa using (List.mem_filter.mp ha).2
  · intro a ha b hb
    have hb' := (List.mem_filter.mp hb).2
    simp only [decide_eq_true_eq] at hb'
    rcases List.mem_append.mp ha with h | h
    · have := (List.mem_filter.mp h).2
      simp only [decide_eq_true_eq] at this
      omega
    · rw [List.mem_singleton.mp h]; exact hb'

theorem mem_saveRow (loc : List Row) (r x : Row) (h : x ∈ saveRow loc r) : x = r ∨ x ∈ loc := by
  unfold saveRow at h
  rcases List.mem_append.mp h with h | h
  · rcases List.mem_append.mp h with h | h
    · exact Or.inr (List.mem_filter.mp h).1
    · exact Or.inl (List.mem_singleton.mp h)
  · exact Or.inr (List.mem_filter.mp h).1

/-! #### Agglayer lemmas -/

theorem certById_append (agg : List ACert) (c x : ACert) (id : Nat) (h : certById agg id = some x) :
    certById (agg ++ [c]) id = some x := by
  unfold certById at h ⊢
  by_cases h0 : id = 0
  · rw [if_pos h0] at h; cases h
  · rw [if_neg h0] at h ⊢
    have hlt : id - 1 < agg.length := by
      rcases Nat.lt_or_ge (id - 1) agg.length with hl | hl
      · exact hl
      · rw [List.getElem?_eq_none hl] at h; cases h
    rw [List.getElem?_append_left hlt]; exact h

theorem certById_new (agg : List ACert) (c : ACert) : certById (agg ++ [c]) (agg.length + 1) = some c := by
  unfold certById
  simp


theorem certById_mem (agg : List ACert) (id : Nat) (c : ACert) (h : certById agg id = some c) :
    ∃ i, ∃ (hi : i < agg.length), agg[i] = c ∧ id = i + 1 := by
  unfold certById at h
  by_cases h0 : id = 0
  · rw [if_pos h0] at h; cases h
  · rw [if_neg h0] at h
    have hlt : id - 1 < agg.length := by
      rcases Nat.lt_or_ge (id - 1) agg.length with hl | hl
      · exact hl
      · rw [List.getElem?_eq_none hl] at h; cases h
    rw [List.getElem?_eq_getElem hlt] at h
    exact ⟨id - 1, hlt, by simpa using h, by omega⟩

theorem certById_of_index (agg : List ACert) (hids : ∀ i (h : i < agg.length), (agg[i]).id = i + 1)
    (i : Nat) (hi : i < agg.length) : certById agg (agg[i]).id = some agg[i] := by
  unfold certById
  rw [hids i hi]
  simp [hi]

theorem certById_last (agg : List ACert) (hids : ∀ i (h : i < agg.length), (agg[i]).id = i + 1)
    (c : ACert) (h : agg.getLast? = some c) : certById agg c.id = some c := by
  obtain ⟨pre, hpre⟩ := List.getLast?_eq_some_iff.mp h
  have hi : pre.length < agg.length := by rw [hpre]; simp
  have : agg[pre.length] = c := by simp [hpre]
  rw [← this]; exact certById_of_index agg hids _ hi

/-! #### status polling only refreshes statuses -/

/-- a row map that at most replaces a row's status by the Agglayer's status of the same certificate -/
def StatusOnly (agg : List ACert) (f : Row → Row) : Prop :=
  ∀ r, f r = r ∨ ∃ c, certById agg r.id = some c ∧ f r = { r with status := c.status }

theorem statusOnly_id (agg : List ACert) : StatusOnly agg id := fun _ => Or.inl rfl

theorem setStatus_statusOnly (agg : List ACert) (id : Nat) (c : ACert) (h : certById agg id = some c) :
    StatusOnly agg (fun r => if r.id = id then { r with status := c.status } else r) := by
  intro r
  by_cases e : r.id = id
  · right; exact ⟨c, by rw [e]; exact h, by simp [e]⟩
  · left; simp [e]

theorem statusOnly_comp (agg : List ACert) (f g : Row → Row) (hf : StatusOnly agg f) (hg : StatusOnly agg g) :
    StatusOnly agg (f ∘ g) := by
  intro r
  simp only [Function.comp]
  rcases hg r with e | ⟨c, hc, e⟩
  · rw [e]; exact hf r
  · rcases hf (g r) with e2 | ⟨c2, hc2, e2⟩
    · rw [e2]; exact Or.inr ⟨c, hc, e⟩
    · right
      have hid : (g r).id = r.id := by rw [e]
      rw [hid] at hc2
      refine ⟨c2, hc2, ?_⟩
      rw [e2, e]

theorem pollRows_map (agg : List ACert) : ∀ (rs loc : List Row) (fh : Bool) (acc : Poll),
    ∃ f, StatusOnly agg f ∧ (pollRows agg rs loc fh acc).1 = loc.map f := by
  intro rs
  induction rs with
  | nil => intro loc fh acc; exact ⟨id, statusOnly_id agg, by simp [pollRows]⟩
  | cons r rest ih =>
    intro loc fh acc
    unfold pollRows
    by_cases hfh : fh = true
    · rw [if_pos hfh]; exact ⟨id, statusOnly_id agg, by simp⟩
    · rw [if_neg hfh]
      cases hc : certById agg r.id with
      | none => exact ⟨id, statusOnly_id agg, by simp⟩
      | some c =>
        simp only
        by_cases hst : r.status = c.status
        · rw [if_pos hst]; exact ih loc false _
        · rw [if_neg hst]
          obtain ⟨f, hf, he⟩ := ih (setStatus loc r.id c.status) false
            (if c.status.isOpen = true then
              { pending := true, newInError := acc.newInError || (r.status != St.inError && c.status == St.inError) }
            else { pending := acc.pending, newInError := acc.newInError || (r.status != St.inError && c.status == St.inError) })
          refine ⟨f ∘ (fun x => if x.id = r.id then { x with status := c.status } else x),
            statusOnly_comp agg _ _ hf (setStatus_statusOnly agg r.id c hc), ?_⟩
          rw [he]; unfold setStatus; rw [List.map_map]

theorem poll_map (s : Sys) : ∃ f, StatusOnly s.agg f ∧ (poll s).1 = { s with loc := s.loc.map f, failHdr := (poll s).1.failHdr } := by
  unfold poll
  obtain ⟨f, hf, he⟩ := pollRows_map s.agg (s.loc.filter (·.status.isOpen)) s.loc s.failHdr ⟨false, false⟩
  refine ⟨f, hf, ?_⟩
  generalize hp : pollRows s.agg (s.loc.filter (·.status.isOpen)) s.loc s.failHdr ⟨false, false⟩ = pr at he
  obtain ⟨l, fh, p⟩ := pr
  simp only at he ⊢
  rw [he]


/-! #### the invariant does not look at the failure flags -/

theorem Inv.of_eq {s s' : Sys} (hi : Inv s) (h1 : s'.cfg = s.cfg) (h2 : s'.l2 = s.l2) (h3 : s'.agg = s.agg)
    (h4 : s'.loc = s.loc) (h5 : s'.up = s.up) : Inv s' := by
  obtain ⟨a1, a2, a3, a4, a5, a6, a7, a8, a9⟩ := hi
  cases s; cases s'
  simp only at h1 h2 h3 h4 h5
  subst h1 h2 h3 h4 h5
  exact ⟨a1, a2, a3, a4, a5, a6, a7, a8, a9⟩

theorem statusOnly_fields (agg : List ACert) (f : Row → Row) (hf : StatusOnly agg f) (r : Row) :
    (f r).id = r.id ∧ (f r).height = r.height := by
  rcases hf r with e | ⟨c, _, e⟩ <;> rw [e] <;> exact ⟨rfl, rfl⟩

theorem matches_statusOnly (agg : List ACert) (f : Row → Row) (hf : StatusOnly agg f) (r : Row) (c : ACert)
    (hc : certById agg r.id = some c) (hm : Matches r c) : Matches (f r) c := by
  rcases hf r with e | ⟨c', hc', e⟩
  · rw [e]; exact hm
  · rw [hc] at hc'
    cases hc'
    rw [e]
    exact ⟨hm.id, hm.height, hm.from_, hm.to_, hm.new, hm.prev, Or.inl rfl⟩

theorem lastRow_map (loc : List Row) (f : Row → Row) : lastRow (loc.map f) = (lastRow loc).map f := by
  unfold lastRow; exact List.getLast?_map ..

/-- refreshing statuses keeps the invariant -/
theorem inv_map_loc (s : Sys) (hi : Inv s) (f : Row → Row) (hf : StatusOnly s.agg f) :
    Inv { s with loc := s.loc.map f } := by
  refine ⟨hi.withPrev, hi.l2wf, hi.ids, hi.closedPrefix, hi.chain, ?_, ?_, ?_, ?_⟩
  · simp only
    rw [List.pairwise_map]
    refine hi.sorted.imp ?_
    intro a b hab
    rw [(statusOnly_fields _ f hf a).2, (statusOnly_fields _ f hf b).2]; exact hab
  · intro r' hr'
    simp only at hr'
    obtain ⟨r, hr, e⟩ := List.mem_map.mp hr'
    obtain ⟨c, hc, hm⟩ := hi.rows r hr
    subst e
    exact ⟨c, by rw [(statusOnly_fields _ f hf r).1]; exact hc, matches_statusOnly _ f hf r c hc hm⟩
  · intro hu
    have h0 := hi.syncUp hu
    unfold SyncUp at h0 ⊢
    simp only
    rw [lastRow_map]
    cases hl : lastRow s.loc with
    | none => rw [hl] at h0; simpa using h0
    | some r =>
      rw [hl] at h0
      cases hg : s.agg.getLast? with
      | none => rw [hg] at h0; exact absurd h0 (by simp)
      | some c =>
        rw [hg] at h0
        simp only [Option.map_some]
        have hm : Matches r c := h0
        have hc : certById s.agg r.id = some c := by rw [hm.id]; exact certById_last s.agg hi.ids c hg
        exact matches_statusOnly _ f hf r c hc hm
  · intro hu
    have h0 := hi.syncDown hu
    unfold SyncDown at h0 ⊢
    simp only
    rw [lastRow_map]
    rcases h0 with h0 | ⟨r, hl, h0⟩
    · left; rw [h0]; rfl
    · right
      refine ⟨f r, by rw [hl]; rfl, ?_⟩
      rcases h0 with ⟨c, hg, hm⟩ | ⟨pre, c, d, hpre, hm, hst, hcl⟩
      · left
        have hc : certById s.agg r.id = some c := by rw [hm.id]; exact certById_last s.agg hi.ids c hg
        exact ⟨c, hg, matches_statusOnly _ f hf r c hc hm⟩
      · right
        have hidx : pre.length < s.agg.length := by rw [hpre]; simp
        have hci : s.agg[pre.length] = c := by simp [hpre]
        have hc : certById s.agg r.id = some c := by
          rw [hm.id, ← hci]; exact certById_of_index s.agg hi.ids _ hidx
        refine ⟨pre, c, d, hpre, matches_statusOnly _ f hf r c hc hm, ?_, hcl⟩
        rcases hf r with e | ⟨c', hc', e⟩
        · rw [e]; exact hst
        · rw [hc] at hc'; cases hc'; rw [e]

end Aggkit.Aggsender
