import AggkitModel.Proofs.AOTree
import AggkitModel.Model.Contract
set_option linter.unusedSectionVars false
/- the contract's incremental tree computes the spec root (any height, any hash algebra) -/
namespace Aggkit
variable {α : Type} [DecidableEq α]

/-- `getRoot` loop: with a valid frontier for `cnt` leaves it climbs the path of the first empty position -/
theorem rootAux_spec (H : HashAlg α) (n : Nat) (f : Nat → α) (br : List α) (cnt : Nat)
    (hz : ∀ j, cnt ≤ j → f j = H.zero) (hfr : FrontierOK H n f br cnt) :
    ∀ (k h : Nat), h + k ≤ n →
      DC.rootAux H br k h (cnt / 2^h) (tn H f h (cnt / 2^h)) = tn H f (h+k) (cnt / 2^(h+k)) := by
  intro k
  induction k with
  | zero => intro h _; simp [DC.rootAux]
  | succ k ih =>
    intro h hle
    unfold DC.rootAux
    have hdiv := div_pow_succ cnt h
    have hidx : h + (k+1) = h + 1 + k := by omega
    by_cases hb : (cnt / 2^h) % 2 = 1
    · simp only [hb, if_true]
      have e : H.node (br.getD h H.zero) (tn H f h (cnt / 2^h)) = tn H f (h+1) (cnt / 2^(h+1)) := by
        rw [hfr.2 h (by omega) hb, tn_succ, hdiv]
        congr 2 <;> omega
      rw [e, ← hdiv, ih (h+1) (by omega), hidx]
    · simp only [hb, if_false]
      have hzero : tn H f h (cnt / 2^h + 1) = zeroH H h := by
        apply tn_zero_of
        intro j hj
        apply hz
        have hp : 0 < 2^h := Nat.two_pow_pos h
        have h1 := Nat.div_add_mod cnt (2^h)
        have h2 := Nat.mod_lt cnt hp
        have h3 := Nat.div_add_mod j (2^h)
        rw [hj] at h3
        have : 2^h * (cnt / 2^h + 1) = 2^h * (cnt / 2^h) + 2^h := by ring
        omega
      have e : H.node (tn H f h (cnt / 2^h)) (zeroH H h) = tn H f (h+1) (cnt / 2^(h+1)) := by
        rw [tn_succ, hdiv, ← hzero]
        congr 2 <;> omega
      rw [e, ← hdiv, ih (h+1) (by omega), hidx]

theorem getRoot_spec (H : HashAlg α) (n : Nat) (f : Nat → α) (d : DC α)
    (hz : ∀ j, d.count ≤ j → f j = H.zero) (hfr : FrontierOK H n f d.branch d.count) (hb : d.count < 2^n) :
    DC.getRoot H n d = tn H f n 0 := by
  unfold DC.getRoot
  have := rootAux_spec H n f d.branch d.count hz hfr n 0 (by omega)
  simp only [Nat.pow_zero, Nat.div_one, Nat.zero_add, tn_zero] at this
  rw [hz d.count (Nat.le_refl _)] at this
  rw [this, Nat.div_eq_of_lt hb]

/-- `_addLeaf` loop: while the low bits of the new count are zero the carried node is the completed
    subtree; at the first set bit it is stored. Returns a frontier for `cnt+1`. -/
theorem addAux_spec (H : HashAlg α) (n : Nat) (f' : Nat → α) (cnt : Nat) (br0 : List α)
    (hlen : br0.length = n)
    (hfr : ∀ h, h < n → (cnt / 2^h) % 2 = 1 → br0.getD h H.zero = tn H f' h (cnt / 2^h - 1)) :
    ∀ (k h : Nat), h + k ≤ n → (cnt + 1) / 2^h = cnt / 2^h + 1 → (cnt + 1) < 2^(h+k) →
      FrontierOK H n f' (DC.addAux H k h ((cnt + 1) / 2^h) (tn H f' h (cnt / 2^h)) br0) (cnt + 1) := by
  intro k
  induction k with
  | zero =>
    intro h _ hc hlt
    exfalso
    have hp : 0 < 2^h := Nat.two_pow_pos h
    have : (cnt + 1) / 2^h = 0 := Nat.div_eq_of_lt (by simpa using hlt)
    rw [this] at hc; exact Nat.succ_ne_zero _ hc.symm
  | succ k ih =>
    intro h hle hc hlt
    unfold DC.addAux
    by_cases hb : ((cnt + 1) / 2^h) % 2 = 1
    · simp only [hb, if_true]
      refine ⟨by simp [hlen], ?_⟩
      intro h' hh' hb'
      rw [getD_set]
      by_cases e : h = h'
      · subst e
        simp only [true_and, show h < br0.length by rw [hlen]; omega, if_true]
        rw [hc, Nat.add_sub_cancel]
      · simp only [e, false_and, if_false]
        -- other levels with a set bit in cnt+1: above `h`, same bit in cnt, untouched
        rcases Nat.lt_or_gt_of_ne e with hlt' | hgt
        · -- h < h': no carry reaches h'
          have hnc : (cnt + 1) / 2^h' = cnt / 2^h' := by
            have e2 : h' = h + (1 + (h' - h - 1)) := by omega
            rw [e2, div_pow_add (cnt+1), div_pow_add cnt, hc, Nat.pow_add, ← Nat.div_div_eq_div_mul,
              ← Nat.div_div_eq_div_mul]
            simp only [Nat.pow_one]
            have : (cnt / 2^h + 1) / 2 = (cnt / 2^h) / 2 := by rw [hc] at hb; omega
            rw [this]
          rw [hnc] at hb' ⊢
          exact hfr h' hh' hb'
        · -- h' < h: bit h' of cnt+1 is clear (the carry went through)
          exfalso
          have e2 : h = h' + (1 + (h - h' - 1)) := by omega
          have hcc : (cnt + 1) / 2^h' = cnt / 2^h' + 1 := by
            rcases succ_div_cases cnt h' with e3 | e3
            · exfalso
              rw [e2, div_pow_add (cnt+1), div_pow_add cnt, e3] at hc
              omega
            · exact e3
          -- carry through level h' means cnt/2^h' is odd, so (cnt+1)/2^h' is even
          have : (cnt / 2^h') % 2 = 1 := by
            by_contra hne
            have h0 : (cnt / 2^h') % 2 = 0 := by omega
            have : (cnt + 1) / 2^(h'+1) = cnt / 2^(h'+1) := by
              rw [div_pow_succ, div_pow_succ, hcc]; omega
            have e4 : h = (h'+1) + (h - h' - 1) := by omega
            rw [e4, div_pow_add (cnt+1), div_pow_add cnt, this] at hc
            omega
          rw [hcc] at hb'; omega
    · simp only [hb, if_false]
      have hb0 : ((cnt + 1) / 2^h) % 2 = 0 := by omega
      have hodd : (cnt / 2^h) % 2 = 1 := by rw [hc] at hb0; omega
      have hdiv := div_pow_succ cnt h
      have e : H.node (br0.getD h H.zero) (tn H f' h (cnt / 2^h)) = tn H f' (h+1) (cnt / 2^(h+1)) := by
        rw [hfr h (by omega) hodd, tn_succ, hdiv]
        congr 2 <;> omega
      rw [e, ← div_pow_succ]
      apply ih (h+1) (by omega)
      · rw [div_pow_succ, div_pow_succ, hc]; omega
      · have : h + (k+1) = h + 1 + k := by omega
        rwa [this] at hlt

/-- a deposit keeps the frontier invariant -/
theorem deposit_frontier (H : HashAlg α) (n : Nat) (f : Nat → α) (d : DC α) (v : α)
    (hfr : FrontierOK H n f d.branch d.count) (hb : d.count + 1 < 2^n) :
    FrontierOK H n (updateFn f d.count v) (DC.deposit H n d v).branch (d.count + 1) := by
  unfold DC.deposit
  simp only
  have h0 := addAux_spec H n (updateFn f d.count v) d.count d.branch hfr.1
    (by
      intro h hh hbit
      rw [hfr.2 h hh hbit]
      apply tn_congr; intro j hj; simp only [updateFn]; rw [if_neg]; intro e; subst e; omega)
    n 0 (by omega) (by simp) (by simpa using hb)
  simpa [tn_zero, updateFn] using h0

/-- **the contract's root after depositing `ls` is the spec root** (generalised over a prefix) -/
theorem depositAll_frontier (H : HashAlg α) (n : Nat) :
    ∀ (ls ls0 : List α) (d : DC α), d.count = ls0.length → FrontierOK H n (leafFn H ls0) d.branch ls0.length →
      ls0.length + ls.length < 2^n →
      (DC.depositAll H n d ls).count = ls0.length + ls.length ∧
      FrontierOK H n (leafFn H (ls0 ++ ls)) (DC.depositAll H n d ls).branch (ls0.length + ls.length) := by
  intro ls
  induction ls with
  | nil => intro ls0 d hc hfr _; simpa [DC.depositAll] using ⟨hc, hfr⟩
  | cons v ls ih =>
    intro ls0 d hc hfr hb
    simp only [List.length_cons] at hb
    have hd := deposit_frontier H n (leafFn H ls0) d v (by rw [hc]; exact hfr) (by rw [hc]; omega)
    rw [hc, leafFn_append] at hd
    have := ih (ls0 ++ [v]) (DC.deposit H n d v) (by simp [DC.deposit, hc]) (by simpa using hd) (by simp; omega)
    simp only [List.length_append, List.length_cons, List.length_nil, List.append_assoc, List.cons_append,
      List.nil_append] at this
    unfold DC.depositAll at *
    simp only [List.foldl_cons, List.length_cons]
    have e : ls0.length + (ls.length + 1) = ls0.length + 1 + ls.length := by omega
    rw [e]; exact this

theorem depositAll_spec (H : HashAlg α) (n : Nat) (ls : List α) (hb : ls.length < 2^n) :
    (DC.depositAll H n (DC.empty H n) ls).count = ls.length ∧
    FrontierOK H n (leafFn H ls) (DC.depositAll H n (DC.empty H n) ls).branch ls.length := by
  have := depositAll_frontier H n ls [] (DC.empty H n) rfl
    ⟨by simp [DC.empty], fun h _ hbit => by simp at hbit⟩ (by simpa using hb)
  simpa using this

theorem contract_root (H : HashAlg α) (n : Nat) (ls : List α) (hb : ls.length < 2^n) :
    DC.getRoot H n (DC.depositAll H n (DC.empty H n) ls) = specRoot H n ls := by
  obtain ⟨c1, c2⟩ := depositAll_spec H n ls hb
  have := getRoot_spec H n (leafFn H ls) _ (by rw [c1]; exact fun j hj => leafFn_ge H ls j hj)
    (by rw [c1]; exact c2) (by rw [c1]; exact hb)
  rw [this]; simp [specRoot, tn]

end Aggkit
