import AggkitModel.Model.ReorgSync
/- invariants of tracking / detection (helper lemmas; property theorems are in Properties/C06.lean) -/
namespace Aggkit.ReorgSync

/-- the block is the chain's current block of that number -/
def Canon (chain : List Nat) (b : Blk) : Prop := canon chain b.1 = some b.2

structure SubInv (chain : List Nat) (fin : Nat) (s : Sub) : Prop where
  /-- every stored block is tracked, or was delivered as finalized (and is then on the chain for good) -/
  covered : ∀ b ∈ s.store, b ∈ s.tracked ∨ (Canon chain b ∧ b.1 ≤ fin)
  trackedStored : ∀ b ∈ s.tracked, b ∈ s.store
  contiguous : s.store.map (·.1) = List.range' 1 s.store.length
  sortedT : s.tracked.Pairwise (fun x y => x.1 < y.1)

theorem lastNum_contig (l : List Blk) (h : l.map (·.1) = List.range' 1 l.length) : lastNum l = l.length := by
  unfold lastNum
  cases hg : l.getLast? with
  | none => have : l = [] := by simpa using hg
            subst this; rfl
  | some b =>
    obtain ⟨ys, hys⟩ := List.getLast?_eq_some_iff.mp hg
    subst hys
    simp only [List.map_append, List.map_cons, List.map_nil, List.length_append, List.length_cons, List.length_nil] at h ⊢
    rw [List.range'_concat] at h
    have := (List.append_inj' h (by simp)).2
    simp at this
    omega

theorem mem_num_le (l : List Blk) (h : l.map (·.1) = List.range' 1 l.length) (b : Blk) (hb : b ∈ l) :
    1 ≤ b.1 ∧ b.1 ≤ l.length := by
  have : b.1 ∈ l.map (·.1) := List.mem_map_of_mem hb
  rw [h, List.mem_range'_1] at this
  omega

theorem canon_append (chain : List Nat) (v n : Nat) (h : n ≤ chain.length) : canon (chain ++ [v]) n = canon chain n := by
  unfold canon
  by_cases h0 : n = 0
  · simp [h0]
  · simp only [h0, if_false]
    rw [List.getElem?_append_left (by omega)]

theorem canon_take (chain : List Nat) (k n : Nat) (h : n < k) : canon (chain.take (k - 1)) n = canon chain n := by
  unfold canon
  by_cases h0 : n = 0
  · simp [h0]
  · simp only [h0, if_false]
    rw [List.getElem?_take_of_lt (by omega)]

theorem canon_some_le (chain : List Nat) (n v : Nat) (h : canon chain n = some v) : 1 ≤ n ∧ n ≤ chain.length := by
  unfold canon at h
  by_cases h0 : n = 0
  · simp [h0] at h
  · simp only [h0, if_false] at h
    have := List.getElem?_eq_some_iff.mp h
    obtain ⟨hl, _⟩ := this
    omega

theorem mem_trackAdd (tracked : List Blk) (b x : Blk) (h : x ∈ trackAdd tracked b) : x = b ∨ x ∈ tracked := by
  unfold trackAdd at h
  split at h
  · exact Or.inr h
  · rcases List.mem_append.mp h with h | h
    · rcases List.mem_append.mp h with h | h
      · exact Or.inr (List.mem_filter.mp h).1
      · exact Or.inl (List.mem_singleton.mp h)
    · exact Or.inr (List.mem_filter.mp h).1

theorem self_mem_trackAdd (tracked : List Blk) (b : Blk) : b ∈ trackAdd tracked b := by
  unfold trackAdd
  split
  · assumption
  · simp

theorem mem_trackAdd_of_ne (tracked : List Blk) (b x : Blk) (hx : x ∈ tracked) (hne : x.1 ≠ b.1) :
    x ∈ trackAdd tracked b := by
  unfold trackAdd
  split
  · exact hx
  · rcases Nat.lt_or_gt_of_ne hne with h | h
    · exact List.mem_append_left _ (List.mem_append_left _ (List.mem_filter.mpr ⟨hx, by simpa using h⟩))
    · exact List.mem_append_right _ (List.mem_filter.mpr ⟨hx, by simpa using h⟩)

theorem trackAdd_sorted (tracked : List Blk) (b : Blk) (hs : tracked.Pairwise (fun x y => x.1 < y.1)) :
    (trackAdd tracked b).Pairwise (fun x y => x.1 < y.1) := by
  unfold trackAdd
  split
  · exact hs
  · rw [List.pairwise_append, List.pairwise_append]
    refine ⟨⟨hs.sublist List.filter_sublist, by simp, ?_⟩, hs.sublist List.filter_sublist, ?_⟩
    · intro a ha c hc
      rw [List.mem_singleton.mp hc]
      simpa using (List.mem_filter.mp ha).2
    · intro a ha c hc
      have hc' := (List.mem_filter.mp hc).2
      simp only [decide_eq_true_eq] at hc'
      rcases List.mem_append.mp ha with h | h
      · have := (List.mem_filter.mp h).2
        simp only [decide_eq_true_eq] at this
        omega
      · rw [List.mem_singleton.mp h]; exact hc'

theorem stepOnce_inv (chain : List Nat) (fin : Nat) (s s' : Sub) (hi : SubInv chain fin s)
    (h : stepOnce chain fin s = some s') : SubInv chain fin s' := by
  unfold stepOnce at h
  simp only at h
  have hlast := lastNum_contig s.store hi.contiguous
  cases hc : canon chain (lastNum s.store + 1) with
  | none => rw [hc] at h; cases h
  | some v =>
    rw [hc] at h
    simp only [Option.some.injEq] at h
    subst h
    rw [hlast] at hc ⊢
    refine ⟨?_, ?_, ?_, ?_⟩
    · intro b hb
      simp only at hb ⊢
      rcases List.mem_append.mp hb with hb | hb
      · rcases hi.covered b hb with h1 | h1
        · by_cases hf : s.store.length + 1 ≤ fin
          · rw [if_pos hf]; exact Or.inl h1
          · rw [if_neg hf]
            have := (mem_num_le s.store hi.contiguous b hb).2
            exact Or.inl (mem_trackAdd_of_ne _ _ _ h1 (by simp; omega))
        · exact Or.inr h1
      · rw [List.mem_singleton.mp hb]
        by_cases hf : s.store.length + 1 ≤ fin
        · rw [if_pos hf]; exact Or.inr ⟨hc, hf⟩
        · rw [if_neg hf]; exact Or.inl (self_mem_trackAdd _ _)
    · intro b hb
      simp only at hb ⊢
      by_cases hf : s.store.length + 1 ≤ fin
      · rw [if_pos hf] at hb; exact List.mem_append_left _ (hi.trackedStored b hb)
      · rw [if_neg hf] at hb
        rcases mem_trackAdd _ _ _ hb with e | hb
        · rw [e]; simp
        · exact List.mem_append_left _ (hi.trackedStored b hb)
    · simp only [List.map_append, List.map_cons, List.map_nil, List.length_append, List.length_cons, List.length_nil]
      rw [hi.contiguous, List.range'_concat]
      simp [Nat.add_comm]
    · simp only
      by_cases hf : s.store.length + 1 ≤ fin
      · rw [if_pos hf]; exact hi.sortedT
      · rw [if_neg hf]; exact trackAdd_sorted _ _ hi.sortedT

theorem stepN_inv (chain : List Nat) (fin : Nat) : ∀ (k : Nat) (s : Sub), SubInv chain fin s →
    SubInv chain fin (stepN chain fin k s) := by
  intro k
  induction k with
  | zero => intro s hi; exact hi
  | succ k ih =>
    intro s hi
    unfold stepN
    cases h : stepOnce chain fin s with
    | none => exact hi
    | some s' => exact ih s' (stepOnce_inv chain fin s s' hi h)


/-! ### one detection pass -/

theorem filter_lt_contig (f : Blk → Nat) (k : Nat) : ∀ (l : List Blk) (a : Nat), l.map f = List.range' a l.length →
    (l.filter (fun x => decide (f x < k))).map f = List.range' a (min l.length (k - a)) := by
  intro l
  induction l with
  | nil => intro a _; simp
  | cons x xs ih =>
    intro a h
    simp only [List.map_cons, List.length_cons, List.range'_succ, List.cons.injEq] at h
    obtain ⟨hx, hxs⟩ := h
    have ih' := ih (a + 1) hxs
    rw [List.filter_cons]
    by_cases hk : f x < k
    · simp only [hk, decide_true, if_true, List.map_cons, List.length_cons]
      rw [ih', hx]
      have : min (xs.length + 1) (k - a) = min xs.length (k - (a + 1)) + 1 := by omega
      rw [this, List.range'_succ]
    · simp only [hk, decide_false, Bool.false_eq_true, if_false, List.length_cons]
      rw [ih']
      have e1 : min xs.length (k - (a + 1)) = 0 := by omega
      have e2 : min (xs.length + 1) (k - a) = 0 := by omega
      rw [e1, e2]; simp

/-- the facts the loop carries: `pre` has been checked and found on the chain; only finalized checked entries have been
    dropped from the tracked list; the store is untouched -/
structure LoopSt (chain : List Nat) (fin : Nat) (s0 : Sub) (pre : List Blk) (s : Sub) : Prop where
  preCanon : ∀ b ∈ pre, Canon chain b
  store : s.store = s0.store
  sub : s.tracked.Sublist s0.tracked
  kept : ∀ b ∈ s0.tracked, b ∈ s.tracked ∨ (Canon chain b ∧ b.1 ≤ fin)

theorem loopSt_inv (chain : List Nat) (fin : Nat) (s0 s : Sub) (pre : List Blk) (hi0 : SubInv chain fin s0)
    (h : LoopSt chain fin s0 pre s) : SubInv chain fin s := by
  refine ⟨?_, ?_, by rw [h.store]; exact hi0.contiguous, hi0.sortedT.sublist h.sub⟩
  · intro b hb
    rw [h.store] at hb
    rcases hi0.covered b hb with h1 | h1
    · exact h.kept b h1
    · exact Or.inr h1
  · intro b hb
    rw [h.store]
    exact hi0.trackedStored b (h.sub.subset hb)

/-- result of a detection pass for one subscriber -/
structure PassOK (chain : List Nat) (fin : Nat) (s0 : Sub) (r : Sub × DetectOut) : Prop where
  inv : SubInv chain fin r.1
  /-- unless a header could not be fetched, nothing that the chain has replaced remains in the store -/
  clean : r.2 ≠ .err → ∀ b ∈ r.1.store, Canon chain b
  /-- a rewind goes to the first tracked block that the chain has replaced -/
  first : ∀ n, r.2 = .rewind n → (∃ b ∈ s0.tracked, b.1 = n ∧ ¬ Canon chain b) ∧ (∀ b ∈ s0.tracked, b.1 < n → Canon chain b) ∧
    r.1.store = s0.store.filter (fun x => decide (x.1 < n))
  /-- nothing replaced, nothing rewound -/
  quiet : (∀ b ∈ s0.tracked, Canon chain b) → r.2 = .none ∧ r.1.store = s0.store

theorem detectLoop_spec (chain : List Nat) (fin : Nat) (s0 : Sub) (hi0 : SubInv chain fin s0) :
    ∀ (ts pre : List Blk) (s : Sub), s0.tracked = pre ++ ts → LoopSt chain fin s0 pre s →
      PassOK chain fin s0 (detectLoop chain fin ts s) := by
  intro ts
  induction ts with
  | nil =>
    intro pre s hT hl
    simp only [List.append_nil] at hT
    unfold detectLoop
    have hinv := loopSt_inv chain fin s0 s pre hi0 hl
    refine ⟨hinv, ?_, fun n h => (by cases h), fun _ => ⟨rfl, hl.store⟩⟩
    intro _ b hb
    rw [hl.store] at hb
    rcases hi0.covered b hb with h1 | h1
    · rw [hT] at h1; exact hl.preCanon b h1
    · exact h1.1
  | cons t rest ih =>
    intro pre s hT hl
    have hsorted := hi0.sortedT
    rw [hT, List.pairwise_append] at hsorted
    have hpre_lt : ∀ x ∈ pre, x.1 < t.1 := fun x hx => hsorted.2.2 x hx t (List.mem_cons_self ..)
    have hrest_gt : ∀ y ∈ rest, t.1 < y.1 := fun y hy => (List.pairwise_cons.mp hsorted.2.1).1 y hy
    unfold detectLoop
    cases hc : canon chain t.1 with
    | none =>
      simp only
      refine ⟨loopSt_inv chain fin s0 s pre hi0 hl, fun h => absurd rfl h, fun n h => (by cases h), ?_⟩
      intro hall
      have := hall t (by rw [hT]; simp)
      unfold Canon at this; rw [hc] at this; cases this
    | some v =>
      simp only
      by_cases hv : v = t.2
      · rw [if_pos hv]
        have htc : Canon chain t := by unfold Canon; rw [hc, hv]
        have hT' : s0.tracked = (pre ++ [t]) ++ rest := by rw [hT]; simp
        apply ih (pre ++ [t]) _ hT'
        refine ⟨?_, ?_, ?_, ?_⟩
        · intro b hb
          rcases List.mem_append.mp hb with h | h
          · exact hl.preCanon b h
          · rw [List.mem_singleton.mp h]; exact htc
        · split <;> exact hl.store
        · split
          · exact List.filter_sublist.trans hl.sub
          · exact hl.sub
        · intro b hb
          by_cases hf : t.1 ≤ fin
          · rw [if_pos hf]
            simp only
            by_cases hbt : b.1 = t.1
            · -- the entry of that number is `t` itself (numbers are distinct in the tracked list)
              have : b = t := by
                rw [hT] at hb
                rcases List.mem_append.mp hb with h | h
                · have := hpre_lt b h; omega
                · rcases List.mem_cons.mp h with h | h
                  · exact h
                  · have := hrest_gt b h; omega
              rw [this]; exact Or.inr ⟨htc, hf⟩
            · rcases hl.kept b hb with h | h
              · exact Or.inl (List.mem_filter.mpr ⟨h, by simpa using hbt⟩)
              · exact Or.inr h
          · rw [if_neg hf]; exact hl.kept b hb
      · rw [if_neg hv]
        have hnc : ¬ Canon chain t := by unfold Canon; rw [hc]; intro h; exact hv (by simpa using h)
        have hlt_pre : ∀ b ∈ s0.tracked, b.1 < t.1 → b ∈ pre := by
          intro b hb hlt
          rw [hT] at hb
          rcases List.mem_append.mp hb with h | h
          · exact h
          · rcases List.mem_cons.mp h with h | h
            · rw [h] at hlt; omega
            · have := hrest_gt b h; omega
        have hstore : ∀ b, b ∈ s.store.filter (fun x => decide (x.1 < t.1)) → b ∈ s0.store ∧ b.1 < t.1 := by
          intro b hb
          have := List.mem_filter.mp hb
          rw [hl.store] at this
          exact ⟨this.1, by simpa using this.2⟩
        refine ⟨⟨?_, ?_, ?_, ?_⟩, ?_, ?_, ?_⟩
        · intro b hb
          obtain ⟨hb0, hlt⟩ := hstore b hb
          rcases hi0.covered b hb0 with h1 | h1
          · rcases hl.kept b h1 with h2 | h2
            · exact Or.inl (List.mem_filter.mpr ⟨h2, by simpa using hlt⟩)
            · exact Or.inr h2
          · exact Or.inr h1
        · intro b hb
          have := List.mem_filter.mp hb
          have hlt : b.1 < t.1 := by simpa using this.2
          refine List.mem_filter.mpr ⟨?_, by simpa using hlt⟩
          rw [hl.store]
          exact hi0.trackedStored b (hl.sub.subset this.1)
        · simp only
          have h1 := filter_lt_contig (·.1) t.1 s.store 1 (by rw [hl.store]; exact hi0.contiguous)
          have h2 := congrArg List.length h1
          simp only [List.length_map, List.length_range'] at h2
          rw [h1, h2]
        · exact (hi0.sortedT.sublist hl.sub).sublist List.filter_sublist
        · intro _ b hb
          obtain ⟨hb0, hlt⟩ := hstore b hb
          rcases hi0.covered b hb0 with h1 | h1
          · exact hl.preCanon b (hlt_pre b h1 hlt)
          · exact h1.1
        · intro n hn
          simp only [DetectOut.rewind.injEq] at hn
          subst hn
          refine ⟨⟨t, by rw [hT]; simp, rfl, hnc⟩, fun b hb hlt => hl.preCanon b (hlt_pre b hb hlt), ?_⟩
          simp only; rw [hl.store]
        · intro hall
          exact absurd (hall t (by rw [hT]; simp)) hnc

theorem detectSub_spec (chain : List Nat) (fin : Nat) (s : Sub) (hi : SubInv chain fin s) :
    PassOK chain fin s (detectSub chain fin s) := by
  unfold detectSub
  exact detectLoop_spec chain fin s hi s.tracked [] s (by simp)
    ⟨fun b hb => by simp at hb, rfl, List.Sublist.refl _, fun b hb => Or.inl hb⟩


theorem detectLoopCrash_inv (chain : List Nat) (fin : Nat) (s0 : Sub) (hi0 : SubInv chain fin s0) :
    ∀ (ts pre : List Blk) (s : Sub), s0.tracked = pre ++ ts → LoopSt chain fin s0 pre s →
      SubInv chain fin (detectLoopCrash chain fin ts s) := by
  intro ts
  induction ts with
  | nil => intro pre s _ hl; exact loopSt_inv chain fin s0 s pre hi0 hl
  | cons t rest ih =>
    intro pre s hT hl
    have hsorted := hi0.sortedT
    rw [hT, List.pairwise_append] at hsorted
    have hpre_lt : ∀ x ∈ pre, x.1 < t.1 := fun x hx => hsorted.2.2 x hx t (List.mem_cons_self ..)
    have hrest_gt : ∀ y ∈ rest, t.1 < y.1 := fun y hy => (List.pairwise_cons.mp hsorted.2.1).1 y hy
    unfold detectLoopCrash
    cases hc : canon chain t.1 with
    | none => exact loopSt_inv chain fin s0 s pre hi0 hl
    | some v =>
      simp only
      by_cases hv : v = t.2
      · rw [if_pos hv]
        have htc : Canon chain t := by unfold Canon; rw [hc, hv]
        have hT' : s0.tracked = (pre ++ [t]) ++ rest := by rw [hT]; simp
        apply ih (pre ++ [t]) _ hT'
        refine ⟨?_, ?_, ?_, ?_⟩
        · intro b hb
          rcases List.mem_append.mp hb with h | h
          · exact hl.preCanon b h
          · rw [List.mem_singleton.mp h]; exact htc
        · split <;> exact hl.store
        · split
          · exact List.filter_sublist.trans hl.sub
          · exact hl.sub
        · intro b hb
          by_cases hf : t.1 ≤ fin
          · rw [if_pos hf]
            simp only
            by_cases hbt : b.1 = t.1
            · have : b = t := by
                rw [hT] at hb
                rcases List.mem_append.mp hb with h | h
                · have := hpre_lt b h; omega
                · rcases List.mem_cons.mp h with h | h
                  · exact h
                  · have := hrest_gt b h; omega
              rw [this]; exact Or.inr ⟨htc, hf⟩
            · rcases hl.kept b hb with h | h
              · exact Or.inl (List.mem_filter.mpr ⟨h, by simpa using hbt⟩)
              · exact Or.inr h
          · rw [if_neg hf]; exact hl.kept b hb
      · rw [if_neg hv]; exact loopSt_inv chain fin s0 s pre hi0 hl

theorem detectCrashSub_inv (chain : List Nat) (fin : Nat) (s : Sub) (hi : SubInv chain fin s) :
    SubInv chain fin (detectCrashSub chain fin s) := by
  unfold detectCrashSub
  exact detectLoopCrash_inv chain fin s hi s.tracked [] s (by simp)
    ⟨fun b hb => by simp at hb, rfl, List.Sublist.refl _, fun b hb => Or.inl hb⟩

end Aggkit.ReorgSync
