import AggkitModel.Model.ReorgSync
/- invariants of tracking / detection (helper lemmas; property theorems are in Properties/C06.lean) -/
namespace Aggkit.ReorgSync

/-- the block is the chain's current block of that number -/
def Canon (chain : List Nat) (b : Blk) : Prop := canon chain b.1 = some b.2

structure SubInv (chain : List Nat) (fin : Nat) (s : Sub) : Prop where
  /-- every stored block is tracked, or was delivered as finalized (and is then on the chain for good) -/
  covered : ∀ b ∈ s.store, b ∈ s.tracked ∨ (Canon chain b ∧ b.1 ≤ fin)
  trackedStored : ∀ b ∈ s.tracked, b ∈ s.store
  sortedS : s.store.Pairwise (fun x y => x.1 < y.1)
  pos : ∀ b ∈ s.store, 1 ≤ b.1
  sortedT : s.tracked.Pairwise (fun x y => x.1 < y.1)
  /-- the table holds exactly the in-memory entries, in the same order (entries are only ever appended at the end) -/
  dbEq : s.db = s.tracked

theorem le_lastNum_of_sorted : ∀ (l : List Blk), l.Pairwise (fun x y => x.1 < y.1) → ∀ x ∈ l, x.1 ≤ lastNum l := by
  intro l hs x hx
  unfold lastNum
  cases hg : l.getLast? with
  | none => have : l = [] := by simpa using hg
            subst this; simp at hx
  | some b =>
    obtain ⟨ys, hys⟩ := List.getLast?_eq_some_iff.mp hg
    subst hys
    simp only
    rcases List.mem_append.mp hx with h | h
    · have := (List.pairwise_append.mp hs).2.2 x h b (by simp)
      omega
    · rw [List.mem_singleton.mp h]; exact Nat.le_refl _

/-! ### the downloader's search for the next block with events -/

theorem findFrom_some : ∀ (l : List Nat) (n : Nat) (b : Blk), findFrom l n = some b →
    n ≤ b.1 ∧ l[b.1 - n]? = some b.2 ∧ b.2 ≠ 0 ∧ ∀ m, n ≤ m → m < b.1 → l[m - n]? = some 0 := by
  intro l
  induction l with
  | nil => intro n b h; simp [findFrom] at h
  | cons v rest ih =>
    intro n b h
    unfold findFrom at h
    by_cases hv : v = 0
    · rw [if_pos hv] at h
      obtain ⟨h1, h2, h3, h4⟩ := ih (n + 1) b h
      refine ⟨by omega, ?_, h3, ?_⟩
      · have : b.1 - n = (b.1 - (n + 1)) + 1 := by omega
        rw [this, List.getElem?_cons_succ]; exact h2
      · intro m hm1 hm2
        by_cases hmn : m = n
        · subst hmn; simp [hv]
        · have : m - n = (m - (n + 1)) + 1 := by omega
          rw [this, List.getElem?_cons_succ]
          exact h4 m (by omega) hm2
    · rw [if_neg hv] at h
      simp only [Option.some.injEq] at h
      subst h
      refine ⟨Nat.le_refl _, by simp, hv, fun m h1 h2 => by simp at h2; omega⟩

theorem findFrom_none : ∀ (l : List Nat) (n : Nat), findFrom l n = none → ∀ v ∈ l, v = 0 := by
  intro l
  induction l with
  | nil => intro n _ v hv; simp at hv
  | cons x rest ih =>
    intro n h v hv
    unfold findFrom at h
    by_cases hx : x = 0
    · rw [if_pos hx] at h
      rcases List.mem_cons.mp hv with e | e
      · rw [e]; exact hx
      · exact ih (n + 1) h v e
    · rw [if_neg hx] at h; cases h

theorem canon_eq_drop (chain : List Nat) (n m : Nat) (hn : 1 ≤ n) (hm : n ≤ m) :
    canon chain m = (chain.drop (n - 1))[m - n]? := by
  unfold canon
  rw [if_neg (by omega), List.getElem?_drop]
  congr 1; omega

theorem nextDeliv_some (chain : List Nat) (n : Nat) (b : Blk) (hn : 1 ≤ n) (h : nextDeliv chain n = some b) :
    n ≤ b.1 ∧ Canon chain b ∧ b.2 ≠ 0 ∧ ∀ m, n ≤ m → m < b.1 → canon chain m = some 0 := by
  unfold nextDeliv at h
  obtain ⟨h1, h2, h3, h4⟩ := findFrom_some _ _ _ h
  refine ⟨h1, ?_, h3, ?_⟩
  · unfold Canon; rw [canon_eq_drop chain n b.1 hn h1]; exact h2
  · intro m hm1 hm2; rw [canon_eq_drop chain n m hn hm1]; exact h4 m hm1 hm2

theorem nextDeliv_none (chain : List Nat) (n : Nat) (hn : 1 ≤ n) (h : nextDeliv chain n = none) :
    ∀ m v, n ≤ m → canon chain m = some v → v = 0 := by
  intro m v hm hc
  unfold nextDeliv at h
  rw [canon_eq_drop chain n m hn hm] at hc
  exact findFrom_none _ _ h v (List.mem_of_getElem? hc)

theorem canon_append (chain : List Nat) (v n : Nat) (h : n ≤ chain.length) : canon (chain ++ [v]) n = canon chain n := by
  unfold canon
  by_cases h0 : n = 0
  · simp [h0]
  · simp only [h0, if_false]
    rw [List.getElem?_append_left (by omega)]

theorem canon_take (chain : List Nat) (k n : Nat) (h : n < k) : canon (chain.take (k - 1)) n = canon chain n := by
  unfold canon
  by_cases h0 : n = 0
  · simp [h0]
  · simp only [h0, if_false]
    rw [List.getElem?_take_of_lt (by omega)]

theorem canon_some_le (chain : List Nat) (n v : Nat) (h : canon chain n = some v) : 1 ≤ n ∧ n ≤ chain.length := by
  unfold canon at h
  by_cases h0 : n = 0
  · simp [h0] at h
  · simp only [h0, if_false] at h
    have := List.getElem?_eq_some_iff.mp h
    obtain ⟨hl, _⟩ := this
    omega

theorem mem_trackAdd (tracked : List Blk) (b x : Blk) (h : x ∈ trackAdd tracked b) : x = b ∨ x ∈ tracked := by
  unfold trackAdd at h
  split at h
  · exact Or.inr h
  · rcases List.mem_append.mp h with h | h
    · rcases List.mem_append.mp h with h | h
      · exact Or.inr (List.mem_filter.mp h).1
      · exact Or.inl (List.mem_singleton.mp h)
    · exact Or.inr (List.mem_filter.mp h).1

theorem self_mem_trackAdd (tracked : List Blk) (b : Blk) : b ∈ trackAdd tracked b := by
  unfold trackAdd
  split
  · assumption
  · simp

theorem mem_trackAdd_of_ne (tracked : List Blk) (b x : Blk) (hx : x ∈ tracked) (hne : x.1 ≠ b.1) :
    x ∈ trackAdd tracked b := by
  unfold trackAdd
  split
  · exact hx
  · rcases Nat.lt_or_gt_of_ne hne with h | h
    · exact List.mem_append_left _ (List.mem_append_left _ (List.mem_filter.mpr ⟨hx, by simpa using h⟩))
    · exact List.mem_append_right _ (List.mem_filter.mpr ⟨hx, by simpa using h⟩)

theorem trackAdd_sorted (tracked : List Blk) (b : Blk) (hs : tracked.Pairwise (fun x y => x.1 < y.1)) :
    (trackAdd tracked b).Pairwise (fun x y => x.1 < y.1) := by
  unfold trackAdd
  split
  · exact hs
  · rw [List.pairwise_append, List.pairwise_append]
    refine ⟨⟨hs.sublist List.filter_sublist, by simp, ?_⟩, hs.sublist List.filter_sublist, ?_⟩
    · intro a ha c hc
      rw [List.mem_singleton.mp hc]
      simpa using (List.mem_filter.mp ha).2
    · intro a ha c hc
      have hc' := (List.mem_filter.mp hc).2
      simp only [decide_eq_true_eq] at hc'
      rcases List.mem_append.mp ha with h | h
      · have := (List.mem_filter.mp h).2
        simp only [decide_eq_true_eq] at this
        omega
      · rw [List.mem_singleton.mp h]; exact hc'

theorem trackAdd_append (tracked : List Blk) (b : Blk) (h : ∀ x ∈ tracked, x.1 < b.1) :
    trackAdd tracked b = tracked ++ [b] := by
  unfold trackAdd
  have hn : b ∉ tracked := fun hb => by have := h b hb; omega
  rw [if_neg hn]
  have h1 : tracked.filter (fun t => decide (t.1 < b.1)) = tracked := by
    rw [List.filter_eq_self]; intro x hx; simpa using h x hx
  have h2 : tracked.filter (fun t => decide (b.1 < t.1)) = [] := by
    rw [List.filter_eq_nil_iff]; intro x hx; have := h x hx; simp only [decide_eq_true_eq]; omega
  rw [h1, h2, List.append_nil]

/-- rebuilding the map from rows that are already in ascending order gives those rows -/
theorem foldl_trackAdd_sorted : ∀ (l acc : List Blk), (acc ++ l).Pairwise (fun x y => x.1 < y.1) →
    l.foldl trackAdd acc = acc ++ l := by
  intro l
  induction l with
  | nil => intro acc _; simp
  | cons x rest ih =>
    intro acc h
    simp only [List.foldl_cons]
    have hx : ∀ a ∈ acc, a.1 < x.1 := fun a ha => (List.pairwise_append.mp h).2.2 a ha x (List.mem_cons_self ..)
    rw [trackAdd_append acc x hx, ih (acc ++ [x]) (by simpa using h)]
    simp

theorem reload_sorted_self (l : List Blk) (h : l.Pairwise (fun x y => x.1 < y.1)) : reload l = l := by
  unfold reload
  rw [foldl_trackAdd_sorted l [] (by simpa using h)]; simp

theorem stepOnce_inv (chain : List Nat) (fin : Nat) (s s' : Sub) (hi : SubInv chain fin s)
    (h : stepOnce chain fin s = some s') : SubInv chain fin s' := by
  unfold stepOnce at h
  cases hc : nextDeliv chain (lastNum s.store + 1) with
  | none => rw [hc] at h; cases h
  | some b =>
    rw [hc] at h
    simp only [Option.some.injEq] at h
    subst h
    obtain ⟨hge, hcan, _, _⟩ := nextDeliv_some chain _ b (by omega) hc
    have hlt : ∀ x ∈ s.store, x.1 < b.1 := fun x hx => by
      have := le_lastNum_of_sorted s.store hi.sortedS x hx; omega
    refine ⟨?_, ?_, ?_, ?_, ?_, ?_⟩
    · intro x hx
      simp only at hx ⊢
      rcases List.mem_append.mp hx with hx | hx
      · rcases hi.covered x hx with h1 | h1
        · by_cases hf : b.1 ≤ fin
          · rw [if_pos hf]; exact Or.inl h1
          · rw [if_neg hf]
            have := hlt x hx
            exact Or.inl (mem_trackAdd_of_ne _ _ _ h1 (by omega))
        · exact Or.inr h1
      · rw [List.mem_singleton.mp hx]
        by_cases hf : b.1 ≤ fin
        · rw [if_pos hf]; exact Or.inr ⟨hcan, hf⟩
        · rw [if_neg hf]; exact Or.inl (self_mem_trackAdd _ _)
    · intro x hx
      simp only at hx ⊢
      by_cases hf : b.1 ≤ fin
      · rw [if_pos hf] at hx; exact List.mem_append_left _ (hi.trackedStored x hx)
      · rw [if_neg hf] at hx
        rcases mem_trackAdd _ _ _ hx with e | hx
        · rw [e]; simp
        · exact List.mem_append_left _ (hi.trackedStored x hx)
    · simp only
      rw [List.pairwise_append]
      exact ⟨hi.sortedS, by simp, fun x hx y hy => by rw [List.mem_singleton.mp hy]; exact hlt x hx⟩
    · intro x hx
      simp only at hx
      rcases List.mem_append.mp hx with hx | hx
      · exact hi.pos x hx
      · rw [List.mem_singleton.mp hx]; omega
    · simp only
      by_cases hf : b.1 ≤ fin
      · rw [if_pos hf]; exact hi.sortedT
      · rw [if_neg hf]; exact trackAdd_sorted _ _ hi.sortedT
    · simp only
      by_cases hf : b.1 ≤ fin
      · rw [if_pos hf, if_pos hf]; exact hi.dbEq
      · rw [if_neg hf, if_neg hf]
        have hall : ∀ x ∈ s.tracked, x.1 < b.1 := fun x hx => hlt x (hi.trackedStored x hx)
        have hn : b ∉ s.tracked := fun hb => by have := hall b hb; omega
        rw [if_neg hn, trackAdd_append _ _ hall, hi.dbEq]

theorem stepN_inv (chain : List Nat) (fin : Nat) : ∀ (k : Nat) (s : Sub), SubInv chain fin s →
    SubInv chain fin (stepN chain fin k s) := by
  intro k
  induction k with
  | zero => intro s hi; exact hi
  | succ k ih =>
    intro s hi
    unfold stepN
    cases h : stepOnce chain fin s with
    | none => exact hi
    | some s' => exact ih s' (stepOnce_inv chain fin s s' hi h)


/-! ### one detection pass -/

/-- the facts the loop carries: `pre` has been checked and found on the chain; only finalized checked entries have been
    dropped from the tracked list; the store is untouched -/
structure LoopSt (chain : List Nat) (fin : Nat) (s0 : Sub) (pre : List Blk) (s : Sub) : Prop where
  preCanon : ∀ b ∈ pre, Canon chain b
  store : s.store = s0.store
  sub : s.tracked.Sublist s0.tracked
  kept : ∀ b ∈ s0.tracked, b ∈ s.tracked ∨ (Canon chain b ∧ b.1 ≤ fin)
  dbEq : s.db = s.tracked

theorem loopSt_inv (chain : List Nat) (fin : Nat) (s0 s : Sub) (pre : List Blk) (hi0 : SubInv chain fin s0)
    (h : LoopSt chain fin s0 pre s) : SubInv chain fin s := by
  refine ⟨?_, ?_, by rw [h.store]; exact hi0.sortedS, by rw [h.store]; exact hi0.pos, hi0.sortedT.sublist h.sub, h.dbEq⟩
  · intro b hb
    rw [h.store] at hb
    rcases hi0.covered b hb with h1 | h1
    · exact h.kept b h1
    · exact Or.inr h1
  · intro b hb
    rw [h.store]
    exact hi0.trackedStored b (h.sub.subset hb)

/-- result of a detection pass for one subscriber -/
structure PassOK (chain : List Nat) (fin : Nat) (s0 : Sub) (r : Sub × DetectOut) : Prop where
  inv : SubInv chain fin r.1
  /-- unless a header could not be fetched, nothing that the chain has replaced remains in the store -/
  clean : r.2 ≠ .err → ∀ b ∈ r.1.store, Canon chain b
  /-- a rewind goes to the first tracked block that the chain has replaced -/
  first : ∀ n, r.2 = .rewind n → (∃ b ∈ s0.tracked, b.1 = n ∧ ¬ Canon chain b) ∧ (∀ b ∈ s0.tracked, b.1 < n → Canon chain b) ∧
    r.1.store = s0.store.filter (fun x => decide (x.1 < n))
  /-- nothing replaced, nothing rewound -/
  quiet : (∀ b ∈ s0.tracked, Canon chain b) → r.2 = .none ∧ r.1.store = s0.store

theorem detectLoop_spec (chain : List Nat) (fin : Nat) (s0 : Sub) (hi0 : SubInv chain fin s0) :
    ∀ (ts pre : List Blk) (s : Sub), s0.tracked = pre ++ ts → LoopSt chain fin s0 pre s →
      PassOK chain fin s0 (detectLoop chain fin ts s) := by
  intro ts
  induction ts with
  | nil =>
    intro pre s hT hl
    simp only [List.append_nil] at hT
    unfold detectLoop
    have hinv := loopSt_inv chain fin s0 s pre hi0 hl
    refine ⟨hinv, ?_, fun n h => (by cases h), fun _ => ⟨rfl, hl.store⟩⟩
    intro _ b hb
    rw [hl.store] at hb
    rcases hi0.covered b hb with h1 | h1
    · rw [hT] at h1; exact hl.preCanon b h1
    · exact h1.1
  | cons t rest ih =>
    intro pre s hT hl
    have hsorted := hi0.sortedT
    rw [hT, List.pairwise_append] at hsorted
    have hpre_lt : ∀ x ∈ pre, x.1 < t.1 := fun x hx => hsorted.2.2 x hx t (List.mem_cons_self ..)
    have hrest_gt : ∀ y ∈ rest, t.1 < y.1 := fun y hy => (List.pairwise_cons.mp hsorted.2.1).1 y hy
    unfold detectLoop
    cases hc : canon chain t.1 with
    | none =>
      simp only
      refine ⟨loopSt_inv chain fin s0 s pre hi0 hl, fun h => absurd rfl h, fun n h => (by cases h), ?_⟩
      intro hall
      have := hall t (by rw [hT]; simp)
      unfold Canon at this; rw [hc] at this; cases this
    | some v =>
      simp only
      by_cases hv : v = t.2
      · rw [if_pos hv]
        have htc : Canon chain t := by unfold Canon; rw [hc, hv]
        have hT' : s0.tracked = (pre ++ [t]) ++ rest := by rw [hT]; simp
        apply ih (pre ++ [t]) _ hT'
        refine ⟨?_, ?_, ?_, ?_, ?_⟩
        · intro b hb
          rcases List.mem_append.mp hb with h | h
          · exact hl.preCanon b h
          · rw [List.mem_singleton.mp h]; exact htc
        · split <;> exact hl.store
        · split
          · exact List.filter_sublist.trans hl.sub
          · exact hl.sub
        · intro b hb
          by_cases hf : t.1 ≤ fin
          · rw [if_pos hf]
            simp only
            by_cases hbt : b.1 = t.1
            · -- the entry of that number is `t` itself (numbers are distinct in the tracked list)
              have : b = t := by
                rw [hT] at hb
                rcases List.mem_append.mp hb with h | h
                · have := hpre_lt b h; omega
                · rcases List.mem_cons.mp h with h | h
                  · exact h
                  · have := hrest_gt b h; omega
              rw [this]; exact Or.inr ⟨htc, hf⟩
            · rcases hl.kept b hb with h | h
              · exact Or.inl (List.mem_filter.mpr ⟨h, by simpa using hbt⟩)
              · exact Or.inr h
          · rw [if_neg hf]; exact hl.kept b hb
        · split
          · simp only; rw [hl.dbEq]
          · exact hl.dbEq
      · rw [if_neg hv]
        have hnc : ¬ Canon chain t := by unfold Canon; rw [hc]; intro h; exact hv (by simpa using h)
        have hlt_pre : ∀ b ∈ s0.tracked, b.1 < t.1 → b ∈ pre := by
          intro b hb hlt
          rw [hT] at hb
          rcases List.mem_append.mp hb with h | h
          · exact h
          · rcases List.mem_cons.mp h with h | h
            · rw [h] at hlt; omega
            · have := hrest_gt b h; omega
        have hstore : ∀ b, b ∈ s.store.filter (fun x => decide (x.1 < t.1)) → b ∈ s0.store ∧ b.1 < t.1 := by
          intro b hb
          have := List.mem_filter.mp hb
          rw [hl.store] at this
          exact ⟨this.1, by simpa using this.2⟩
        refine ⟨⟨?_, ?_, ?_, ?_, ?_, ?_⟩, ?_, ?_, ?_⟩
        · intro b hb
          obtain ⟨hb0, hlt⟩ := hstore b hb
          rcases hi0.covered b hb0 with h1 | h1
          · rcases hl.kept b h1 with h2 | h2
            · exact Or.inl (List.mem_filter.mpr ⟨h2, by simpa using hlt⟩)
            · exact Or.inr h2
          · exact Or.inr h1
        · intro b hb
          have := List.mem_filter.mp hb
          have hlt : b.1 < t.1 := by simpa using this.2
          refine List.mem_filter.mpr ⟨?_, by simpa using hlt⟩
          rw [hl.store]
          exact hi0.trackedStored b (hl.sub.subset this.1)
        · simp only
          rw [hl.store]
          exact hi0.sortedS.sublist List.filter_sublist
        · intro b hb
          exact hi0.pos b (hstore b hb).1
        · exact (hi0.sortedT.sublist hl.sub).sublist List.filter_sublist
        · -- the table's range delete [t, last of the snapshot] removes what the in-memory cut removes
          simp only
          rw [hl.dbEq]
          apply List.filter_congr
          intro x hx
          have hx0 : x ∈ s0.tracked := hl.sub.subset hx
          have hle : x.1 ≤ lastNum (t :: rest) := by
            rw [hT] at hx0
            rcases List.mem_append.mp hx0 with h | h
            · have h1 := hpre_lt x h
              have h2 := le_lastNum_of_sorted (t :: rest) hsorted.2.1 t (List.mem_cons_self ..)
              omega
            · exact le_lastNum_of_sorted (t :: rest) hsorted.2.1 x h
          simp only [decide_eq_decide]
          omega
        · intro _ b hb
          obtain ⟨hb0, hlt⟩ := hstore b hb
          rcases hi0.covered b hb0 with h1 | h1
          · exact hl.preCanon b (hlt_pre b h1 hlt)
          · exact h1.1
        · intro n hn
          simp only [DetectOut.rewind.injEq] at hn
          subst hn
          refine ⟨⟨t, by rw [hT]; simp, rfl, hnc⟩, fun b hb hlt => hl.preCanon b (hlt_pre b hb hlt), ?_⟩
          simp only; rw [hl.store]
        · intro hall
          exact absurd (hall t (by rw [hT]; simp)) hnc

theorem detectSub_spec (chain : List Nat) (fin : Nat) (s : Sub) (hi : SubInv chain fin s) :
    PassOK chain fin s (detectSub chain fin s) := by
  unfold detectSub
  exact detectLoop_spec chain fin s hi s.tracked [] s (by simp)
    ⟨fun b hb => by simp at hb, rfl, List.Sublist.refl _, fun b hb => Or.inl hb, hi.dbEq⟩


theorem detectLoopCrash_inv (chain : List Nat) (fin : Nat) (s0 : Sub) (hi0 : SubInv chain fin s0) :
    ∀ (ts pre : List Blk) (s : Sub), s0.tracked = pre ++ ts → LoopSt chain fin s0 pre s →
      SubInv chain fin (detectLoopCrash chain fin ts s) := by
  intro ts
  induction ts with
  | nil => intro pre s _ hl; exact loopSt_inv chain fin s0 s pre hi0 hl
  | cons t rest ih =>
    intro pre s hT hl
    have hsorted := hi0.sortedT
    rw [hT, List.pairwise_append] at hsorted
    have hpre_lt : ∀ x ∈ pre, x.1 < t.1 := fun x hx => hsorted.2.2 x hx t (List.mem_cons_self ..)
    have hrest_gt : ∀ y ∈ rest, t.1 < y.1 := fun y hy => (List.pairwise_cons.mp hsorted.2.1).1 y hy
    unfold detectLoopCrash
    cases hc : canon chain t.1 with
    | none => exact loopSt_inv chain fin s0 s pre hi0 hl
    | some v =>
      simp only
      by_cases hv : v = t.2
      · rw [if_pos hv]
        have htc : Canon chain t := by unfold Canon; rw [hc, hv]
        have hT' : s0.tracked = (pre ++ [t]) ++ rest := by rw [hT]; simp
        apply ih (pre ++ [t]) _ hT'
        refine ⟨?_, ?_, ?_, ?_, ?_⟩
        · intro b hb
          rcases List.mem_append.mp hb with h | h
          · exact hl.preCanon b h
          · rw [List.mem_singleton.mp h]; exact htc
        · split <;> exact hl.store
        · split
          · exact List.filter_sublist.trans hl.sub
          · exact hl.sub
        · intro b hb
          by_cases hf : t.1 ≤ fin
          · rw [if_pos hf]
            simp only
            by_cases hbt : b.1 = t.1
            · have : b = t := by
                rw [hT] at hb
                rcases List.mem_append.mp hb with h | h
                · have := hpre_lt b h; omega
                · rcases List.mem_cons.mp h with h | h
                  · exact h
                  · have := hrest_gt b h; omega
              rw [this]; exact Or.inr ⟨htc, hf⟩
            · rcases hl.kept b hb with h | h
              · exact Or.inl (List.mem_filter.mpr ⟨h, by simpa using hbt⟩)
              · exact Or.inr h
          · rw [if_neg hf]; exact hl.kept b hb
        · split
          · simp only; rw [hl.dbEq]
          · exact hl.dbEq
      · rw [if_neg hv]; exact loopSt_inv chain fin s0 s pre hi0 hl

/-- a restart changes nothing: the table holds the in-memory entries, in ascending order -/
theorem restartSub_eq (chain : List Nat) (fin : Nat) (s : Sub) (hi : SubInv chain fin s) : restartSub s = s := by
  unfold restartSub
  have h : reload s.db = s.tracked := by rw [hi.dbEq]; exact reload_sorted_self _ hi.sortedT
  rw [h]

theorem detectCrashSub_inv (chain : List Nat) (fin : Nat) (s : Sub) (hi : SubInv chain fin s) :
    SubInv chain fin (detectCrashSub chain fin s) := by
  unfold detectCrashSub
  have := detectLoopCrash_inv chain fin s hi s.tracked [] s (by simp)
    ⟨fun b hb => by simp at hb, rfl, List.Sublist.refl _, fun b hb => Or.inl hb, hi.dbEq⟩
  rw [restartSub_eq chain fin _ this]; exact this

end Aggkit.ReorgSync
