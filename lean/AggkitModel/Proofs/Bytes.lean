import AggkitModel.Model.Bytes
/- helper lemmas about byte strings -/
namespace Aggkit

theorem ofBE_foldl (bs : Bytes) (a : Nat) :
    bs.foldl (fun acc b => acc * 256 + b) a = a * 256 ^ bs.length + ofBE bs := by
  induction bs generalizing a with
  | nil => simp [ofBE]
  | cons b bs ih =>
    simp only [List.foldl_cons, ofBE, List.length_cons]
    rw [ih, ih (0 * 256 + b), Nat.pow_succ]
    simp [Nat.add_mul, Nat.mul_assoc, Nat.mul_comm 256, Nat.add_assoc]

theorem ofBE_nil : ofBE [] = 0 := rfl

theorem ofBE_cons (b : Nat) (bs : Bytes) : ofBE (b :: bs) = b * 256 ^ bs.length + ofBE bs := by
  simp only [ofBE, List.foldl_cons]
  rw [ofBE_foldl]; simp [ofBE]

theorem ofBE_append (a b : Bytes) : ofBE (a ++ b) = ofBE a * 256 ^ b.length + ofBE b := by
  simp only [ofBE, List.foldl_append]
  rw [ofBE_foldl]; simp [ofBE]

theorem ofBE_lt (bs : Bytes) (h : IsBytes bs) : ofBE bs < 256 ^ bs.length := by
  induction bs with
  | nil => simp [ofBE]
  | cons b bs ih =>
    rw [ofBE_cons, List.length_cons, Nat.pow_succ]
    have hb : b < 256 := h b (by simp)
    have := ih (fun c hc => h c (by simp [hc]))
    have hp : 0 < 256 ^ bs.length := Nat.pow_pos (by omega)
    calc b * 256 ^ bs.length + ofBE bs < b * 256 ^ bs.length + 256 ^ bs.length := by omega
      _ = (b + 1) * 256 ^ bs.length := by rw [Nat.add_mul]; simp
      _ ≤ 256 * 256 ^ bs.length := Nat.mul_le_mul_right _ (by omega)
      _ = 256 ^ bs.length * 256 := Nat.mul_comm _ _

theorem IsBytes.append {a b : Bytes} (ha : IsBytes a) (hb : IsBytes b) : IsBytes (a ++ b) := by
  intro x hx; rcases List.mem_append.mp hx with h | h
  · exact ha x h
  · exact hb x h

theorem IsBytes.take {a : Bytes} (ha : IsBytes a) (n : Nat) : IsBytes (a.take n) :=
  fun x hx => ha x (List.mem_of_mem_take hx)

theorem IsBytes.drop {a : Bytes} (ha : IsBytes a) (n : Nat) : IsBytes (a.drop n) :=
  fun x hx => ha x (List.mem_of_mem_drop hx)

@[simp] theorem fillBE_length (k x : Nat) : (fillBE k x).length = k := by
  induction k generalizing x with
  | zero => rfl
  | succ k ih => simp [fillBE, ih]

theorem isBytes_fillBE (k x : Nat) : IsBytes (fillBE k x) := by
  induction k generalizing x with
  | zero => intro b hb; simp [fillBE] at hb
  | succ k ih =>
    simp only [fillBE]
    exact (ih _).append (by intro b hb; simp at hb; omega)

theorem ofBE_fillBE (k x : Nat) : ofBE (fillBE k x) = x % 256 ^ k := by
  induction k generalizing x with
  | zero => simp [fillBE, ofBE, Nat.mod_one]
  | succ k ih =>
    simp only [fillBE]
    rw [ofBE_append, ih, ofBE_cons, ofBE_nil]
    simp only [List.length_cons, List.length_nil, Nat.pow_zero, Nat.mul_one, Nat.add_zero, Nat.pow_one, Nat.zero_add]
    rw [Nat.pow_succ, Nat.mul_comm (256 ^ k) 256, Nat.mod_mul, Nat.mul_comm]
    omega

/-- everything we need about `big.Int.Bytes()` -/
theorem beBytesAux_spec (fuel x : Nat) (h : x ≤ fuel) :
    ofBE (beBytesAux fuel x) = x ∧ IsBytes (beBytesAux fuel x) ∧
    x < 256 ^ (beBytesAux fuel x).length ∧
    (x ≠ 0 → 256 ^ ((beBytesAux fuel x).length - 1) ≤ x) ∧ (x = 0 → beBytesAux fuel x = []) := by
  induction fuel generalizing x with
  | zero =>
    have : x = 0 := by omega
    subst this; simp [beBytesAux, ofBE, IsBytes]
  | succ fuel ih =>
    unfold beBytesAux
    by_cases hx : x = 0
    · subst hx; simp [ofBE, IsBytes]
    · simp only [hx, if_false]
      have hle : x / 256 ≤ fuel := by omega
      obtain ⟨h1, h2, h3, h4, h5⟩ := ih (x / 256) hle
      refine ⟨?_, ?_, ?_, ?_, ?_⟩
      · rw [ofBE_append, h1, ofBE_cons, ofBE_nil]; simp; omega
      · exact h2.append (by intro b hb; simp at hb; omega)
      · simp only [List.length_append, List.length_cons, List.length_nil]
        rw [Nat.pow_succ]; omega
      · intro _
        simp only [List.length_append, List.length_cons, List.length_nil, Nat.add_sub_cancel]
        by_cases hq : x / 256 = 0
        · rw [h5 hq]; simp; omega
        · have := h4 hq
          have hlen : 0 < (beBytesAux fuel (x / 256)).length := by
            rcases Nat.eq_zero_or_pos (beBytesAux fuel (x / 256)).length with h0 | h0
            · rw [h0] at h3; simp at h3; omega
            · exact h0
          have e : (beBytesAux fuel (x / 256)).length = ((beBytesAux fuel (x / 256)).length - 1) + 1 := by omega
          rw [e, Nat.pow_succ]; omega
      · intro h0; exact absurd h0 (by simp)

theorem ofBE_beBytes (x : Nat) : ofBE (beBytes x) = x := (beBytesAux_spec x x (Nat.le_refl _)).1
theorem isBytes_beBytes (x : Nat) : IsBytes (beBytes x) := (beBytesAux_spec x x (Nat.le_refl _)).2.1
theorem lt_pow_beBytes_length (x : Nat) : x < 256 ^ (beBytes x).length := (beBytesAux_spec x x (Nat.le_refl _)).2.2.1
theorem pow_beBytes_length_le (x : Nat) (h : x ≠ 0) : 256 ^ ((beBytes x).length - 1) ≤ x :=
  (beBytesAux_spec x x (Nat.le_refl _)).2.2.2.1 h
theorem beBytes_zero : beBytes 0 = [] := rfl

/-- the byte length of `x` is `k` exactly when `256^(k-1) ≤ x < 256^k` (k ≥ 1) -/
theorem beBytes_length_eq (x k : Nat) (hk : 0 < k) :
    (beBytes x).length = k ↔ (256 ^ (k - 1) ≤ x ∧ x < 256 ^ k) := by
  constructor
  · intro h
    have hx : x ≠ 0 := by
      intro h0; subst h0; simp [beBytes_zero] at h; omega
    have h1 := lt_pow_beBytes_length x
    have h2 := pow_beBytes_length_le x hx
    rw [h] at h1 h2; exact ⟨h2, h1⟩
  · intro ⟨h1, h2⟩
    have hx : x ≠ 0 := by
      intro h0; subst h0
      have : 0 < 256 ^ (k - 1) := Nat.pow_pos (by omega)
      omega
    have h3 := lt_pow_beBytes_length x
    have h4 := pow_beBytes_length_le x hx
    -- 256^(k-1) ≤ x < 256^len  ⇒ k-1 < len ;  256^(len-1) ≤ x < 256^k ⇒ len-1 < k
    have a : k - 1 < (beBytes x).length := by
      apply (Nat.pow_lt_pow_iff_right (a := 256) (by omega)).mp; omega
    have b : (beBytes x).length - 1 < k := by
      apply (Nat.pow_lt_pow_iff_right (a := 256) (by omega)).mp; omega
    omega

/-- splitting a byte string `k` bytes from the right: quotient and remainder -/
theorem ofBE_take_drop (bs : Bytes) (h : IsBytes bs) (k : Nat) :
    ofBE (bs.take (bs.length - k)) = ofBE bs / 256 ^ k ∧
    ofBE (bs.drop (bs.length - k)) = ofBE bs % 256 ^ k := by
  have hsplit : ofBE bs = ofBE (bs.take (bs.length - k)) * 256 ^ (bs.drop (bs.length - k)).length
      + ofBE (bs.drop (bs.length - k)) := by
    conv => lhs; rw [← List.take_append_drop (bs.length - k) bs]
    exact ofBE_append _ _
  have hlt := ofBE_lt _ (h.drop (bs.length - k))
  by_cases hk : k ≤ bs.length
  · have hl : (bs.drop (bs.length - k)).length = k := by simp; omega
    rw [hl] at hsplit hlt
    have hp : 0 < 256 ^ k := Nat.pow_pos (by omega)
    constructor
    · rw [hsplit, Nat.mul_comm, Nat.mul_add_div hp, Nat.div_eq_of_lt hlt]; simp
    · rw [hsplit, Nat.mul_comm, Nat.mul_add_mod, Nat.mod_eq_of_lt hlt]
  · have hz : bs.length - k = 0 := by omega
    have hb := ofBE_lt bs h
    have hpow : 256 ^ bs.length ≤ 256 ^ k := Nat.pow_le_pow_right (by omega) (by omega)
    rw [hz]; simp only [List.take_zero, List.drop_zero, ofBE_nil]
    constructor
    · rw [Nat.div_eq_of_lt (by omega)]
    · rw [Nat.mod_eq_of_lt (by omega)]

theorem ofBE_replicate_zero_append (n : Nat) (bs : Bytes) : ofBE (List.replicate n 0 ++ bs) = ofBE bs := by
  induction n with
  | zero => simp
  | succ n ih => rw [List.replicate_succ, List.cons_append, ofBE_cons, ih]; simp

end Aggkit
