import Mathlib.Tactic.Ring
import AggkitModel.Model.Tree
set_option linter.unusedSectionVars false
/-
Helper lemmas for the Merkle core (any height, any hash algebra).
`tn f h q` = the spec node at level `h`, horizontal position `q` (covers leaves j with j / 2^h = q).
-/
namespace Aggkit
variable {α : Type}

theorem sub_zero_region (H : HashAlg α) (f : Nat → α) (h b : Nat)
    (hz : ∀ j, b ≤ j → f j = H.zero) : sub H f h b = zeroH H h := by
  induction h generalizing b with
  | zero => simp [sub, zeroH, hz b (Nat.le_refl _)]
  | succ h ih =>
    simp only [sub, zeroH]
    have hp : 0 < 2^h := Nat.two_pow_pos h
    rw [ih b hz, ih (b + 2^h) (fun j hj => hz j (by omega))]

theorem sub_congr (H : HashAlg α) (f g : Nat → α) (h b : Nat)
    (hfg : ∀ j, b ≤ j → j < b + 2^h → f j = g j) : sub H f h b = sub H g h b := by
  induction h generalizing b with
  | zero => simp [sub]; exact hfg b (Nat.le_refl _) (by simp)
  | succ h ih =>
    simp only [sub]
    have e : 2^(h+1) = 2^h + 2^h := by rw [Nat.pow_succ]; omega
    have hp : 0 < 2^h := Nat.two_pow_pos h
    rw [ih b (fun j h1 h2 => hfg j h1 (by omega)), ih (b + 2^h) (fun j h1 h2 => hfg j (by omega) (by omega))]

/-- subtree that is zero on its own range only (upper bound version) -/
theorem sub_zero_range (H : HashAlg α) (f : Nat → α) (h b : Nat)
    (hz : ∀ j, b ≤ j → j < b + 2^h → f j = H.zero) : sub H f h b = zeroH H h := by
  have := sub_congr H f (fun _ => H.zero) h b hz
  rw [this]; exact sub_zero_region H _ h b (fun _ _ => rfl)

def tn (H : HashAlg α) (f : Nat → α) (h q : Nat) : α := sub H f h (q * 2^h)

theorem tn_zero (H : HashAlg α) (f : Nat → α) (q : Nat) : tn H f 0 q = f q := by simp [tn, sub]

theorem tn_succ (H : HashAlg α) (f : Nat → α) (h q : Nat) :
    tn H f (h+1) q = H.node (tn H f h (2*q)) (tn H f h (2*q+1)) := by
  unfold tn
  simp only [sub]
  have e1 : 2 * q * 2^h = q * 2^(h+1) := by ring
  have e2 : (2 * q + 1) * 2^h = q * 2^(h+1) + 2^h := by ring
  rw [e1, e2]

/-- `j` lies in the range of node (h, q) iff `j / 2^h = q` -/
theorem in_range_iff (h q j : Nat) : (q * 2^h ≤ j ∧ j < q * 2^h + 2^h) ↔ j / 2^h = q := by
  have hp : 0 < 2^h := Nat.two_pow_pos h
  rw [Nat.div_eq_iff hp]; omega

theorem tn_congr (H : HashAlg α) (f g : Nat → α) (h q : Nat)
    (hfg : ∀ j, j / 2^h = q → f j = g j) : tn H f h q = tn H g h q := by
  unfold tn
  exact sub_congr H f g h _ (fun j h1 h2 => hfg j ((in_range_iff h q j).mp ⟨h1, h2⟩))

theorem tn_zero_of (H : HashAlg α) (f : Nat → α) (h q : Nat)
    (hz : ∀ j, j / 2^h = q → f j = H.zero) : tn H f h q = zeroH H h := by
  unfold tn
  exact sub_zero_range H f h _ (fun j h1 h2 => hz j ((in_range_iff h q j).mp ⟨h1, h2⟩))

theorem div_pow_succ (i h : Nat) : i / 2^(h+1) = (i / 2^h) / 2 := by
  rw [Nat.pow_succ, Nat.div_div_eq_div_mul]

theorem testBit_iff (i h : Nat) : i.testBit h = true ↔ (i / 2^h) % 2 = 1 := by
  rw [Nat.testBit_eq_decide_div_mod_eq]; simp

theorem shiftAnd_iff (i h : Nat) : ((i >>> h) &&& 1 = 1) ↔ (i / 2^h) % 2 = 1 := by
  rw [Nat.shiftRight_eq_div_pow, Nat.and_one_is_mod]

/-- the sibling position at one level -/
def sibIdx (q : Nat) : Nat := if q % 2 = 1 then q - 1 else q + 1

/-- spec sibling of leaf `i` at level `h` -/
def sibT (H : HashAlg α) (f : Nat → α) (i h : Nat) : α := tn H f h (sibIdx (i / 2^h))

theorem getD_set (c : List α) (h j : Nat) (v d : α) :
    (c.set h v).getD j d = if h = j ∧ h < c.length then v else c.getD j d := by
  simp only [List.getD_eq_getElem?_getD, List.getElem?_set]
  by_cases e : h = j
  · subst e
    by_cases l : h < c.length
    · simp [l]
    · simp [l]
  · simp [e]

end Aggkit

namespace Aggkit
variable {α : Type}

/-- the spec node created at level `h` (its hash is the level `h+1` ancestor of leaf `i`) -/
def pathNode (H : HashAlg α) (f : Nat → α) (i h : Nat) : Node α :=
  mkNode H (tn H f h (2 * (i / 2^(h+1)))) (tn H f h (2 * (i / 2^(h+1)) + 1))

theorem pathNode_hash (H : HashAlg α) (f : Nat → α) (i h : Nat) :
    (pathNode H f i h).hash = tn H f (h+1) (i / 2^(h+1)) := by
  simp [pathNode, mkNode, tn_succ]

theorem addLoop_spec (H : HashAlg α) (f' : Nat → α) (i : Nat) (hz : ∀ j, i < j → f' j = H.zero) :
    ∀ (k h : Nat) (c : List α) (cur : α) (ns : List (Node α)),
      cur = tn H f' h (i / 2^h) →
      (∀ h', h ≤ h' → h' < h + k → (i / 2^h') % 2 = 1 → c.getD h' H.zero = tn H f' h' (i / 2^h' - 1)) →
      h + k ≤ c.length →
      (addLoop H i k h c cur ns).2.1 = tn H f' (h+k) (i / 2^(h+k)) ∧
      (addLoop H i k h c cur ns).2.2 = ns ++ (List.range' h k).map (pathNode H f' i) ∧
      (addLoop H i k h c cur ns).1.length = c.length ∧
      (∀ h', (h' < h ∨ h + k ≤ h') → (addLoop H i k h c cur ns).1.getD h' H.zero = c.getD h' H.zero) ∧
      (∀ h', h ≤ h' → h' < h + k →
        ((i / 2^h') % 2 = 1 → (addLoop H i k h c cur ns).1.getD h' H.zero = c.getD h' H.zero) ∧
        ((i / 2^h') % 2 = 0 → (addLoop H i k h c cur ns).1.getD h' H.zero = tn H f' h' (i / 2^h'))) := by
  intro k
  induction k with
  | zero =>
    intro h c cur ns hcur _ _
    refine ⟨by simpa [addLoop] using hcur, by simp [addLoop], by simp [addLoop], fun _ _ => by simp [addLoop], fun h' h1 h2 => by omega⟩
  | succ k ih =>
    intro h c cur ns hcur hc hlen
    have hdiv := div_pow_succ i h
    have hidx : h + (k+1) = h + 1 + k := by omega
    unfold addLoop
    by_cases hb : (i / 2^h) % 2 = 1
    · have htb : i.testBit h = true := (testBit_iff i h).mpr hb
      simp only [htb, if_true]
      -- parent = node (cache[h]) cur = tn (h+1) (q/2)
      have hpar : (mkNode H (c.getD h H.zero) cur).hash = tn H f' (h+1) (i / 2^(h+1)) := by
        simp only [mkNode]
        rw [hc h (Nat.le_refl _) (by omega) hb, hcur, tn_succ, hdiv]
        have e1 : 2 * (i / 2^h / 2) = i / 2^h - 1 := by omega
        have e2 : 2 * (i / 2^h / 2) + 1 = i / 2^h := by omega
        rw [e2, e1]
      have hnode : mkNode H (c.getD h H.zero) cur = pathNode H f' i h := by
        simp only [pathNode, mkNode]
        rw [hc h (Nat.le_refl _) (by omega) hb, hcur, hdiv]
        have e1 : 2 * (i / 2^h / 2) = i / 2^h - 1 := by omega
        have e2 : 2 * (i / 2^h / 2) + 1 = i / 2^h := by omega
        rw [e2, e1]
      obtain ⟨r1, r2, r3, r4, r5⟩ := ih (h+1) c (mkNode H (c.getD h H.zero) cur).hash
        (ns ++ [mkNode H (c.getD h H.zero) cur]) hpar (fun h' hh' hlt => hc h' (by omega) (by omega)) (by omega)
      rw [hidx]
      refine ⟨r1, ?_, r3, ?_, ?_⟩
      · rw [r2, hnode, List.range'_succ]; simp
      · intro h' hh'; exact r4 h' (by omega)
      · intro h' h1 h2
        by_cases e : h' = h
        · subst e
          exact ⟨fun _ => r4 h' (by omega), fun h0 => by omega⟩
        · exact r5 h' (by omega) (by omega)
    · have hb0 : (i / 2^h) % 2 = 0 := by omega
      have htb : i.testBit h = false := by
        cases hh : i.testBit h
        · rfl
        · exact absurd ((testBit_iff i h).mp hh) hb
      simp only [htb, Bool.false_eq_true, if_false]
      have hzero : tn H f' h (i / 2^h + 1) = zeroH H h := by
        apply tn_zero_of
        intro j hj
        apply hz
        have hp : 0 < 2^h := Nat.two_pow_pos h
        have h1 := Nat.div_add_mod i (2^h)
        have h2 := Nat.mod_lt i hp
        have h3 := Nat.div_add_mod j (2^h)
        rw [hj] at h3
        have : 2^h * (i / 2^h + 1) = 2^h * (i / 2^h) + 2^h := by ring
        omega
      have hpar : (mkNode H cur (zeroH H h)).hash = tn H f' (h+1) (i / 2^(h+1)) := by
        simp only [mkNode]
        rw [hcur, tn_succ, hdiv, ← hzero]
        have e1 : 2 * (i / 2^h / 2) = i / 2^h := by omega
        rw [e1]
      have hnode : mkNode H cur (zeroH H h) = pathNode H f' i h := by
        simp only [pathNode, mkNode]
        rw [hcur, hdiv, ← hzero]
        have e1 : 2 * (i / 2^h / 2) = i / 2^h := by omega
        rw [e1]
      have hc' : ∀ h', h + 1 ≤ h' → h' < h + 1 + k → (i / 2^h') % 2 = 1 →
          (c.set h cur).getD h' H.zero = tn H f' h' (i / 2^h' - 1) := by
        intro h' hh' hlt hb'
        rw [getD_set]
        have : ¬ (h = h' ∧ h < c.length) := by omega
        simp only [this, if_false]
        exact hc h' (by omega) (by omega) hb'
      obtain ⟨r1, r2, r3, r4, r5⟩ := ih (h+1) (c.set h cur) (mkNode H cur (zeroH H h)).hash
        (ns ++ [mkNode H cur (zeroH H h)]) hpar hc' (by simp; omega)
      rw [hidx]
      refine ⟨r1, ?_, ?_, ?_, ?_⟩
      · rw [r2, hnode, List.range'_succ]; simp
      · rw [r3]; simp
      · intro h' hh'
        rw [r4 h' (by omega), getD_set]
        have : ¬ (h = h' ∧ h < c.length) := by omega
        simp [this]
      · intro h' h1 h2
        by_cases e : h' = h
        · subst e
          refine ⟨fun h1' => by omega, fun _ => ?_⟩
          rw [r4 h' (by omega), getD_set]
          have : (h' = h' ∧ h' < c.length) := ⟨rfl, by omega⟩
          simp [this, hcur]
        · obtain ⟨a1, a2⟩ := r5 h' (by omega) (by omega)
          refine ⟨fun hb' => ?_, a2⟩
          rw [a1 hb', getD_set]
          have : ¬ (h = h' ∧ h < c.length) := by omega
          simp [this]

theorem succ_div_cases (i h : Nat) : (i+1) / 2^h = i / 2^h ∨ (i+1) / 2^h = i / 2^h + 1 := by
  induction h with
  | zero => right; simp
  | succ h ih => rw [div_pow_succ, div_pow_succ]; omega

/-- frontier invariant for a tree holding `cnt` leaves: at every level whose bit is set in `cnt`,
    the cache holds the completed left sibling. Other levels are don't-care. -/
def FrontierOK (H : HashAlg α) (n : Nat) (f : Nat → α) (c : List α) (cnt : Nat) : Prop :=
  c.length = n ∧ ∀ h, h < n → (cnt / 2^h) % 2 = 1 → c.getD h H.zero = tn H f h (cnt / 2^h - 1)

/-- appending leaf `i` to a tree with a valid frontier: root, nodes and the next frontier -/
theorem addLoop_full (H : HashAlg α) (n : Nat) (f : Nat → α) (i : Nat) (v : α) (c : List α)
    (hz : ∀ j, i ≤ j → f j = H.zero) (hfr : FrontierOK H n f c i) :
    let f' := updateFn f i v
    (addLoop H i n 0 c v []).2.1 = tn H f' n (i / 2^n) ∧
    (addLoop H i n 0 c v []).2.2 = (List.range' 0 n).map (pathNode H f' i) ∧
    FrontierOK H n f' (addLoop H i n 0 c v []).1 (i+1) := by
  intro f'
  have hz' : ∀ j, i < j → f' j = H.zero := by
    intro j hj; simp only [f', updateFn]; rw [if_neg (by omega)]; exact hz j (by omega)
  have hcur : v = tn H f' 0 (i / 2^0) := by simp [tn_zero, f', updateFn]
  have hc : ∀ h', 0 ≤ h' → h' < 0 + n → (i / 2^h') % 2 = 1 → c.getD h' H.zero = tn H f' h' (i / 2^h' - 1) := by
    intro h' _ hh hb
    rw [hfr.2 h' (by omega) hb]
    apply tn_congr
    intro j hj
    simp only [f', updateFn]
    rw [if_neg]
    intro e; subst e; omega
  obtain ⟨r1, r2, r3, r4, r5⟩ := addLoop_spec H f' i hz' n 0 c v [] hcur hc (by rw [hfr.1]; omega)
  refine ⟨by simpa using r1, by simpa using r2, by rw [r3]; exact hfr.1, ?_⟩
  intro h hh hb
  obtain ⟨a1, a2⟩ := r5 h (by omega) (by omega)
  rcases succ_div_cases i h with e | e
  · -- no carry into level h: bit h of i is set as well, cache entry untouched
    rw [e] at hb ⊢
    rw [a1 hb, hc h (by omega) (by omega) hb]
  · -- carry: bit h of i was clear, the loop wrote the completed subtree
    rw [e] at hb ⊢
    rw [a2 (by omega)]; simp

/-! ### the node store -/
section store
variable [DecidableEq α]

def Present (rht : List (Node α)) (k : α) : Prop := (lookup rht k).isSome = true

def Consistent (H : HashAlg α) (rht : List (Node α)) : Prop := ∀ nd ∈ rht, nd.hash = H.node nd.left nd.right

/-- every subtree (of height ≥ 1) of the version `(f, W)` that contains a written position is stored -/
def Closed (H : HashAlg α) (n : Nat) (rht : List (Node α)) (f : Nat → α) (W : Nat → Prop) : Prop :=
  ∀ h q, h < n → (∃ p, W p ∧ p / 2^(h+1) = q) → Present rht (tn H f (h+1) q)

def ZeroOutside (H : HashAlg α) (f : Nat → α) (W : Nat → Prop) : Prop := ∀ j, ¬ W j → f j = H.zero

theorem lookup_some {rht : List (Node α)} {k : α} {nd : Node α} (h : lookup rht k = some nd) :
    nd.hash = k ∧ nd ∈ rht := by
  unfold lookup at h
  have h1 := List.find?_some h
  have h2 := List.mem_of_find?_eq_some h
  exact ⟨by simpa using h1, h2⟩

theorem lookup_children (H : HashAlg α) (hinj : H.Inj) {rht : List (Node α)} (hc : Consistent H rht)
    {a b : α} {nd : Node α} (h : lookup rht (H.node a b) = some nd) : nd.left = a ∧ nd.right = b := by
  obtain ⟨h1, h2⟩ := lookup_some h
  have := hc nd h2
  rw [h1] at this
  obtain ⟨e1, e2⟩ := hinj _ _ _ _ this
  exact ⟨e1.symm, e2.symm⟩

theorem present_iff_mem (rht : List (Node α)) (k : α) : Present rht k ↔ ∃ nd ∈ rht, nd.hash = k := by
  unfold Present lookup
  rw [List.find?_isSome]
  simp

theorem present_append_left {rht : List (Node α)} {k : α} (xs : List (Node α)) (h : Present rht k) :
    Present (rht ++ xs) k := by
  rw [present_iff_mem] at *
  obtain ⟨nd, h1, h2⟩ := h
  exact ⟨nd, List.mem_append_left _ h1, h2⟩

theorem storeNodes_step_present (acc : List (Node α)) (nd : Node α) (k : α) (h : Present acc k) :
    Present (if (lookup acc nd.hash).isSome then acc else acc ++ [nd]) k := by
  split
  · exact h
  · exact present_append_left _ h

theorem storeNodes_mono (rht ns : List (Node α)) (k : α) (h : Present rht k) : Present (storeNodes rht ns) k := by
  unfold storeNodes
  induction ns generalizing rht with
  | nil => exact h
  | cons nd ns ih => exact ih _ (storeNodes_step_present rht nd k h)

theorem storeNodes_cons (rht : List (Node α)) (x : Node α) (ns : List (Node α)) :
    storeNodes rht (x :: ns) = storeNodes (if (lookup rht x.hash).isSome then rht else rht ++ [x]) ns := rfl

theorem storeNodes_present (rht ns : List (Node α)) (nd : Node α) (h : nd ∈ ns) :
    Present (storeNodes rht ns) nd.hash := by
  induction ns generalizing rht with
  | nil => simp at h
  | cons x ns ih =>
    rw [storeNodes_cons]
    rcases List.mem_cons.mp h with e | e
    · subst e
      apply storeNodes_mono
      split
      · rename_i hp; exact hp
      · rw [present_iff_mem]; exact ⟨nd, by simp, rfl⟩
    · exact ih _ e

theorem storeNodes_consistent (H : HashAlg α) (rht ns : List (Node α)) (h1 : Consistent H rht)
    (h2 : ∀ nd ∈ ns, nd.hash = H.node nd.left nd.right) : Consistent H (storeNodes rht ns) := by
  unfold storeNodes
  induction ns generalizing rht with
  | nil => exact h1
  | cons x ns ih =>
    simp only [List.foldl_cons]
    apply ih
    · split
      · exact h1
      · intro nd hnd
        rcases List.mem_append.mp hnd with e | e
        · exact h1 nd e
        · simp at e; subst e; exact h2 _ (by simp)
    · intro nd hnd; exact h2 nd (by simp [hnd])

theorem closed_mono (H : HashAlg α) (n : Nat) (rht ns : List (Node α)) (f : Nat → α) (W : Nat → Prop)
    (h : Closed H n rht f W) : Closed H n (storeNodes rht ns) f W :=
  fun hh q hlt hp => storeNodes_mono _ _ _ (h hh q hlt hp)

/-- in miss mode every remaining level gets the zero hash -/
theorem getSiblingsAux_miss (H : HashAlg α) (rht : List (Node α)) (idx : Nat) (cur : α)
    (hmiss : lookup rht cur = none) : ∀ (h : Nat) (acc : List α) (z : Bool),
    getSiblingsAux H rht idx h cur acc z = ((List.range h).map (zeroH H) ++ acc, true) ∨
    (h = 0 ∧ getSiblingsAux H rht idx h cur acc z = (acc, z)) := by
  intro h
  induction h with
  | zero => intro acc z; right; exact ⟨rfl, rfl⟩
  | succ h ih =>
    intro acc z
    left
    unfold getSiblingsAux
    simp only [hmiss]
    rcases ih (zeroH H h :: acc) true with e | ⟨e0, e⟩
    · rw [e, List.range_succ]; simp
    · subst e0; rw [e]; simp

theorem sib_parent (q : Nat) : sibIdx q / 2 = q / 2 := by unfold sibIdx; split <;> omega

theorem div_pow_add (j a b : Nat) : j / 2^(a+b) = (j / 2^a) / 2^b := by
  rw [Nat.pow_add, Nat.div_div_eq_div_mul]

omit [DecidableEq α] in
/-- a sibling below an all-zero ancestor is a zero hash -/
theorem sibT_zero_of (H : HashAlg α) (f : Nat → α) (i h' h : Nat) (hle : h' ≤ h)
    (hz : ∀ j, j / 2^(h+1) = i / 2^(h+1) → f j = H.zero) : sibT H f i h' = zeroH H h' := by
  unfold sibT
  apply tn_zero_of
  intro j hj
  apply hz
  have e : h + 1 = h' + (1 + (h - h')) := by omega
  rw [e, div_pow_add j, div_pow_add i, hj, Nat.pow_add, ← Nat.div_div_eq_div_mul, ← Nat.div_div_eq_div_mul]
  simp only [Nat.pow_one]
  rw [sib_parent]

theorem getSiblingsAux_spec (H : HashAlg α) (hinj : H.Inj) (n : Nat) (rht : List (Node α))
    (f : Nat → α) (W : Nat → Prop) (hcons : Consistent H rht) (hcl : Closed H n rht f W)
    (hzo : ZeroOutside H f W) (i : Nat) :
    ∀ (h : Nat) (acc : List α) (z : Bool), h ≤ n →
      (getSiblingsAux H rht i h (tn H f h (i / 2^h)) acc z).1 = (List.range h).map (sibT H f i) ++ acc := by
  intro h
  induction h with
  | zero => intro acc z _; simp [getSiblingsAux]
  | succ h ih =>
    intro acc z hle
    unfold getSiblingsAux
    cases hl : lookup rht (tn H f (h+1) (i / 2^(h+1))) with
    | none =>
      simp only
      -- the whole subtree is unwritten, hence zero
      have hz : ∀ j, j / 2^(h+1) = i / 2^(h+1) → f j = H.zero := by
        intro j hj
        apply hzo
        intro hw
        have := hcl h (i / 2^(h+1)) (by omega) ⟨j, hw, hj⟩
        unfold Present at this; rw [hl] at this; simp at this
      rcases getSiblingsAux_miss H rht i _ hl h (zeroH H h :: acc) true with e | ⟨e0, e⟩
      · rw [e]
        simp only
        rw [List.range_succ, List.map_append, List.append_assoc]
        congr 1
        · apply List.map_congr_left
          intro h' hh'
          rw [sibT_zero_of H f i h' h (by simp at hh'; omega) hz]
        · simp [sibT_zero_of H f i h h (Nat.le_refl _) hz]
      · subst e0; rw [e]; simp [sibT_zero_of H f i 0 0 (Nat.le_refl _) hz]
    | some nd =>
      simp only
      rw [tn_succ] at hl
      obtain ⟨el, er⟩ := lookup_children H hinj hcons hl
      have hdiv := div_pow_succ i h
      by_cases hb : (i / 2^h) % 2 = 1
      · have htb : i.testBit h = true := (testBit_iff i h).mpr hb
        simp only [htb, if_true]
        have e1 : nd.right = tn H f h (i / 2^h) := by rw [er, hdiv]; congr 1; omega
        have e2 : nd.left = sibT H f i h := by
          rw [el, hdiv]; unfold sibT sibIdx; simp only [hb, if_true]; congr 1; omega
        rw [e1, ih _ _ (by omega), e2, List.range_succ]; simp
      · have htb : i.testBit h = false := by
          cases hh : i.testBit h
          · rfl
          · exact absurd ((testBit_iff i h).mp hh) hb
        simp only [htb, Bool.false_eq_true, if_false]
        have e1 : nd.left = tn H f h (i / 2^h) := by rw [el, hdiv]; congr 1; omega
        have e2 : nd.right = sibT H f i h := by
          rw [er, hdiv]; unfold sibT sibIdx; simp only [hb, if_false]; congr 1; omega
        rw [e1, ih _ _ (by omega), e2, List.range_succ]; simp

/-- **proof lookup is the spec**: under the store invariant, for EVERY position (written or not) -/
theorem getSiblings_spec (H : HashAlg α) (hinj : H.Inj) (n : Nat) (rht : List (Node α))
    (f : Nat → α) (W : Nat → Prop) (hcons : Consistent H rht) (hcl : Closed H n rht f W)
    (hzo : ZeroOutside H f W) (i : Nat) (hi : i < 2^n) :
    (getSiblings H n rht i (tn H f n 0)).1 = (List.range n).map (sibT H f i) := by
  unfold getSiblings
  have : i / 2^n = 0 := Nat.div_eq_of_lt hi
  have := getSiblingsAux_spec H hinj n rht f W hcons hcl hzo i n [] false (Nat.le_refl _)
  rw [‹i / 2^n = 0›] at this
  simpa using this

omit [DecidableEq α] in
/-- folding the spec siblings over the leaf gives the root -/
theorem calcRootAux_spec (H : HashAlg α) (f : Nat → α) (i : Nat) :
    ∀ (k h : Nat), calcRootAux H i ((List.range' h k).map (sibT H f i)) h (tn H f h (i / 2^h))
      = tn H f (h+k) (i / 2^(h+k)) := by
  intro k
  induction k with
  | zero => intro h; simp [calcRootAux]
  | succ k ih =>
    intro h
    rw [List.range'_succ, List.map_cons]
    unfold calcRootAux
    have hdiv := div_pow_succ i h
    have hidx : h + (k+1) = h + 1 + k := by omega
    by_cases hb : (i / 2^h) % 2 = 1
    · have : (i >>> h) &&& 1 = 1 := (shiftAnd_iff i h).mpr hb
      simp only [this, if_true]
      have e : H.node (sibT H f i h) (tn H f h (i / 2^h)) = tn H f (h+1) (i / 2^(h+1)) := by
        rw [tn_succ, hdiv]; unfold sibT sibIdx; simp only [hb, if_true]
        congr 2 <;> omega
      rw [e, ih (h+1), hidx]
    · have : ¬ ((i >>> h) &&& 1 = 1) := fun hh => hb ((shiftAnd_iff i h).mp hh)
      simp only [this, if_false]
      have e : H.node (tn H f h (i / 2^h)) (sibT H f i h) = tn H f (h+1) (i / 2^(h+1)) := by
        rw [tn_succ, hdiv]; unfold sibT sibIdx; simp only [hb, if_false]
        congr 2 <;> omega
      rw [e, ih (h+1), hidx]

omit [DecidableEq α] in
theorem calcRoot_spec (H : HashAlg α) (n : Nat) (f : Nat → α) (i : Nat) (hi : i < 2^n) :
    calcRoot H (f i) ((List.range n).map (sibT H f i)) i = tn H f n 0 := by
  unfold calcRoot
  have h := calcRootAux_spec H f i n 0
  simp only [Nat.zero_add, Nat.pow_zero, Nat.div_one, tn_zero] at h
  rw [List.range_eq_range', h, Nat.div_eq_of_lt hi]

theorem getLeafAux_spec (H : HashAlg α) (hinj : H.Inj) (n : Nat) (rht : List (Node α))
    (f : Nat → α) (W : Nat → Prop) (hcons : Consistent H rht) (hcl : Closed H n rht f W) (i : Nat) (hw : W i) :
    ∀ (h : Nat), h ≤ n → getLeafAux rht i h (tn H f h (i / 2^h)) = .ok (f i) := by
  intro h
  induction h with
  | zero => intro _; simp [getLeafAux, tn_zero]
  | succ h ih =>
    intro hle
    unfold getLeafAux
    have hp := hcl h (i / 2^(h+1)) (by omega) ⟨i, hw, rfl⟩
    unfold Present at hp
    cases hl : lookup rht (tn H f (h+1) (i / 2^(h+1))) with
    | none => rw [hl] at hp; simp at hp
    | some nd =>
      simp only
      rw [tn_succ] at hl
      obtain ⟨el, er⟩ := lookup_children H hinj hcons hl
      have hdiv := div_pow_succ i h
      by_cases hb : (i / 2^h) % 2 = 1
      · have htb : i.testBit h = true := (testBit_iff i h).mpr hb
        simp only [htb, if_true]
        have e1 : nd.right = tn H f h (i / 2^h) := by rw [er, hdiv]; congr 1; omega
        rw [e1]; exact ih (by omega)
      · have htb : i.testBit h = false := by
          cases hh : i.testBit h
          · rfl
          · exact absurd ((testBit_iff i h).mp hh) hb
        simp only [htb, Bool.false_eq_true, if_false]
        have e1 : nd.left = tn H f h (i / 2^h) := by rw [el, hdiv]; congr 1; omega
        rw [e1]; exact ih (by omega)

/-- **leaf lookup is the spec** for every written position -/
theorem getLeaf_spec (H : HashAlg α) (hinj : H.Inj) (n : Nat) (db : TreeDb α)
    (f : Nat → α) (W : Nat → Prop) (hcons : Consistent H db.rht) (hcl : Closed H n db.rht f W)
    (i : Nat) (hi : i < 2^n) (hw : W i) : getLeaf n db i (tn H f n 0) = .ok (f i) := by
  unfold getLeaf
  have := getLeafAux_spec H hinj n db.rht f W hcons hcl i hw n (Nat.le_refl _)
  rwa [Nat.div_eq_of_lt hi] at this

end store
end Aggkit

namespace Aggkit
variable {α : Type}

/-- collision-freedom lifts to whole subtrees -/
theorem tn_inj (H : HashAlg α) (hinj : H.Inj) (f g : Nat → α) :
    ∀ (h q : Nat), tn H f h q = tn H g h q → ∀ j, j / 2^h = q → f j = g j := by
  intro h
  induction h with
  | zero => intro q he j hj; simp at hj; subst hj; simpa [tn_zero] using he
  | succ h ih =>
    intro q he j hj
    rw [tn_succ, tn_succ] at he
    obtain ⟨e1, e2⟩ := hinj _ _ _ _ he
    rw [div_pow_succ] at hj
    by_cases hb : (j / 2^h) % 2 = 1
    · exact ih (2*q+1) e2 j (by omega)
    · exact ih (2*q) e1 j (by omega)

theorem sibIdx_ne (q : Nat) : sibIdx q ≠ q := by unfold sibIdx; split <;> omega

/-- updating leaf `i` does not change any sibling on `i`'s own path -/
theorem sibT_update (H : HashAlg α) (f : Nat → α) (i h : Nat) (v : α) :
    sibT H (updateFn f i v) i h = sibT H f i h := by
  unfold sibT
  apply tn_congr
  intro j hj
  simp only [updateFn]
  rw [if_neg]
  intro e; subst e; exact sibIdx_ne _ hj.symm

section store2
variable [DecidableEq α]

/-- the nodes written by `AddLeaf` / `UpsertLeaf` for position `i` -/
def pathNodes (H : HashAlg α) (n : Nat) (f : Nat → α) (i : Nat) : List (Node α) :=
  (List.range' 0 n).map (pathNode H f i)

theorem pathNodes_consistent (H : HashAlg α) (n : Nat) (f : Nat → α) (i : Nat) :
    ∀ nd ∈ pathNodes H n f i, nd.hash = H.node nd.left nd.right := by
  intro nd hnd
  simp only [pathNodes, List.mem_map] at hnd
  obtain ⟨h, _, rfl⟩ := hnd
  simp [pathNode, mkNode]

/-- storing the path of position `i` closes the store for the updated version -/
theorem closed_update (H : HashAlg α) (n : Nat) (rht : List (Node α)) (f : Nat → α) (W : Nat → Prop)
    (i : Nat) (v : α) (hcl : Closed H n rht f W) :
    Closed H n (storeNodes rht (pathNodes H n (updateFn f i v) i)) (updateFn f i v) (fun p => W p ∨ p = i) := by
  intro h q hh ⟨p, hp, hpq⟩
  by_cases hq : i / 2^(h+1) = q
  · -- on the path: just stored
    have := storeNodes_present rht (pathNodes H n (updateFn f i v) i) (pathNode H (updateFn f i v) i h)
      (by simp only [pathNodes, List.mem_map]; exact ⟨h, by simp [List.mem_range']; omega, rfl⟩)
    rwa [pathNode_hash, hq] at this
  · -- off the path: unchanged subtree of the old version
    have hpw : W p := by
      rcases hp with hp | hp
      · exact hp
      · subst hp; exact absurd hpq hq
    have e : tn H (updateFn f i v) (h+1) q = tn H f (h+1) q := by
      apply tn_congr; intro j hj; simp only [updateFn]; rw [if_neg]
      intro e; subst e; exact hq hj
    rw [e]
    exact storeNodes_mono _ _ _ (hcl h q hh ⟨p, hpw, hpq⟩)

theorem initWalk_spec (H : HashAlg α) (hinj : H.Inj) (n : Nat) (rht : List (Node α))
    (f : Nat → α) (W : Nat → Prop) (hcons : Consistent H rht) (hcl : Closed H n rht f W) (i : Nat) (hw : W i) :
    ∀ (h : Nat) (acc : List α), h ≤ n →
      initWalk rht i h (tn H f h (i / 2^h)) acc =
        .ok ((List.range h).map (fun h' => tn H f h' (2 * (i / 2^(h'+1)))) ++ acc) := by
  intro h
  induction h with
  | zero => intro acc _; simp [initWalk]
  | succ h ih =>
    intro acc hle
    unfold initWalk
    have hp := hcl h (i / 2^(h+1)) (by omega) ⟨i, hw, rfl⟩
    unfold Present at hp
    cases hl : lookup rht (tn H f (h+1) (i / 2^(h+1))) with
    | none => rw [hl] at hp; simp at hp
    | some nd =>
      simp only
      rw [tn_succ] at hl
      obtain ⟨el, er⟩ := lookup_children H hinj hcons hl
      have hdiv := div_pow_succ i h
      by_cases hb : (i / 2^h) % 2 = 1
      · have htb : i.testBit h = true := (testBit_iff i h).mpr hb
        simp only [htb, if_true]
        have e1 : nd.right = tn H f h (i / 2^h) := by rw [er, hdiv]; congr 1; omega
        rw [e1, ih _ (by omega), el, List.range_succ]; simp
      · have htb : i.testBit h = false := by
          cases hh : i.testBit h
          · rfl
          · exact absurd ((testBit_iff i h).mp hh) hb
        simp only [htb, Bool.false_eq_true, if_false]
        have e1 : nd.left = tn H f h (i / 2^h) := by rw [el, hdiv]; congr 1; omega
        rw [e1, ih _ (by omega), List.range_succ]
        simp only [List.map_append, List.map_cons, List.map_nil, List.append_assoc, List.cons_append, List.nil_append]
        rw [← e1, el]

/-- the cache rebuilt by `initCache` from the last root (index `i`, count `i+1`) is a valid frontier -/
theorem frontier_of_initWalk (H : HashAlg α) (n : Nat) (f : Nat → α) (i : Nat) :
    FrontierOK H n f ((List.range n).map (fun h' => tn H f h' (2 * (i / 2^(h'+1))))) (i+1) := by
  refine ⟨by simp, ?_⟩
  intro h hh hb
  rw [List.getD_eq_getElem?_getD, List.getElem?_map, List.getElem?_range hh]
  simp only [Option.map_some, Option.getD_some]
  congr 1
  rw [div_pow_succ]
  rcases succ_div_cases i h with e | e <;> omega

omit [DecidableEq α] in
theorem upsertLoop_spec (H : HashAlg α) (f : Nat → α) (i : Nat) :
    ∀ (k h : Nat) (ns : List (Node α)),
      upsertLoop H i ((List.range' h k).map (sibT H f i)) h (tn H f h (i / 2^h)) ns =
        (tn H f (h+k) (i / 2^(h+k)), ns ++ (List.range' h k).map (pathNode H f i)) := by
  intro k
  induction k with
  | zero => intro h ns; simp [upsertLoop]
  | succ k ih =>
    intro h ns
    rw [List.range'_succ, List.map_cons]
    unfold upsertLoop
    have hdiv := div_pow_succ i h
    have hidx : h + (k+1) = h + 1 + k := by omega
    by_cases hb : (i / 2^h) % 2 = 1
    · have htb : i.testBit h = true := (testBit_iff i h).mpr hb
      simp only [htb, if_true]
      have e : mkNode H (sibT H f i h) (tn H f h (i / 2^h)) = pathNode H f i h := by
        unfold sibT sibIdx pathNode; simp only [hb, if_true]; rw [hdiv]
        congr 2 <;> omega
      rw [e, pathNode_hash, ih (h+1), hidx]; simp
    · have htb : i.testBit h = false := by
        cases hh : i.testBit h
        · rfl
        · exact absurd ((testBit_iff i h).mp hh) hb
      simp only [htb, Bool.false_eq_true, if_false]
      have e : mkNode H (tn H f h (i / 2^h)) (sibT H f i h) = pathNode H f i h := by
        unfold sibT sibIdx pathNode; simp only [hb, if_false]; rw [hdiv]
        congr 2 <;> omega
      rw [e, pathNode_hash, ih (h+1), hidx]; simp

end store2
end Aggkit
