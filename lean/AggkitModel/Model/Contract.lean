import AggkitModel.Model.Merkle
/-
The L1/L2 contracts' incremental Merkle tree (DepositContractBase: `_addLeaf`, `getRoot`), used by the
bridge (exit tree) and by the global exit root contract (L1 info tree). Modelled by hand from the
published algorithm; checked against the Go reference used by the harness monitors.
-/
namespace Aggkit
variable {α : Type}

structure DC (α : Type) where
  branch : List α     -- _branch[height]
  count : Nat         -- depositCount

def DC.empty (H : HashAlg α) (n : Nat) : DC α := { branch := List.replicate n H.zero, count := 0 }

/-- `_addLeaf` loop from level `h`, `k` levels left: `size` is `depositCount >> h` -/
def DC.addAux (H : HashAlg α) : (k h size : Nat) → (node : α) → (branch : List α) → List α
  | 0, _, _, _, br => br        -- unreachable in the contract (it reverts with MerkleTreeFull before)
  | k+1, h, size, node, br =>
    if size % 2 = 1 then br.set h node
    else DC.addAux H k (h+1) (size / 2) (H.node (br.getD h H.zero) node) br

def DC.deposit (H : HashAlg α) (n : Nat) (d : DC α) (leaf : α) : DC α :=
  { count := d.count + 1, branch := DC.addAux H n 0 (d.count + 1) leaf d.branch }

/-- `getRoot` loop -/
def DC.rootAux (H : HashAlg α) (br : List α) : (k h size : Nat) → (node : α) → α
  | 0, _, _, node => node
  | k+1, h, size, node =>
    if size % 2 = 1 then DC.rootAux H br k (h+1) (size / 2) (H.node (br.getD h H.zero) node)
    else DC.rootAux H br k (h+1) (size / 2) (H.node node (zeroH H h))

def DC.getRoot (H : HashAlg α) (n : Nat) (d : DC α) : α := DC.rootAux H d.branch n 0 d.count H.zero

def DC.depositAll (H : HashAlg α) (n : Nat) (d : DC α) (ls : List α) : DC α := ls.foldl (DC.deposit H n) d

end Aggkit
