/-
C18 — epoch notifier (aggsender/epoch_notifier_per_block.go), exact twin.
The Go code compares float64 quotients; `reached` is the equivalent exact integer test
(equivalence argued in DESIGN §2 "Integers": correct rounding, N < 2^45; checked by the
correspondence run, which executes the real float code).
uint64 wrap-around is not modelled here: theorems assume block numbers + N fit in uint64.
-/
namespace Aggkit.Epoch

structure Cfg where
  S : Nat   -- StartingEpochBlock
  N : Nat   -- NumBlockPerEpoch (≥ 1, enforced by Validate)
  P : Nat   -- EpochNotificationPercentage (≤ 99, enforced by Validate)
  deriving Repr

structure St where
  lastBlockSeen : Nat
  waitingForEpoch : Nat
  deriving Repr, DecidableEq

def epochNumber (c : Cfg) (b : Nat) : Nat :=
  if b < c.S then 0 else 1 + (b - c.S) / c.N

def startingBlockEpoch (c : Cfg) (e : Nat) : Nat :=
  if e = 0 then c.S - 1 else c.S + (e - 1) * c.N

def endBlockEpoch (c : Cfg) (e : Nat) : Nat := startingBlockEpoch c (e + 1)

def elapsed (c : Cfg) (b : Nat) : Nat := b - startingBlockEpoch c (epochNumber c b)

/-- `!(percentEpoch < min(P/100, (N-1)/N))` -/
def reached (c : Cfg) (b : Nat) : Bool :=
  if c.P * c.N > 100 * (c.N - 1) then decide (elapsed c b ≥ c.N - 1)
  else decide (100 * elapsed c b ≥ c.P * c.N)

/-- `ConfigEpochNotifierPerBlock.Validate` -/
def valid (c : Cfg) : Bool := c.N != 0 && decide (c.P < 100)

/-- `startInternal`'s initial status -/
def init (c : Cfg) : St := { lastBlockSeen := c.S, waitingForEpoch := epochNumber c c.S }

/-- one `step`: new status and the optional event (epoch, pendingBlocks) -/
def step (c : Cfg) (st : St) (b : Nat) : St × Option (Nat × Nat) :=
  if b < c.S then (st, none)
  else if b < st.lastBlockSeen then (st, none)   -- `<` since fix a14873a (was `≤`: swallowed block = S)
  else
    let st := { st with lastBlockSeen := b }
    let e := epochNumber c b
    if reached c b && decide (e + 1 > st.waitingForEpoch) then
      ({ st with waitingForEpoch := e + 1 }, some (e, endBlockEpoch c e - b))
    else (st, none)

/-- all notifications (block, epoch) produced for a block sequence -/
def runFrom (c : Cfg) : St → List Nat → List (Nat × Nat)
  | _, [] => []
  | st, b :: bs =>
    match step c st b with
    | (st', some (e, _)) => (b, e) :: runFrom c st' bs
    | (st', none) => runFrom c st' bs

def run (c : Cfg) (bs : List Nat) : List (Nat × Nat) := runFrom c (init c) bs

/-- the specification: announce an epoch at the first block of the sequence that is at or
    beyond the threshold in that epoch, and never again (`done` = epochs already announced) -/
def spec (c : Cfg) : (done : Nat → Bool) → List Nat → List (Nat × Nat)
  | _, [] => []
  | done, b :: bs =>
    if reached c b && !done (epochNumber c b) then
      (b, epochNumber c b) :: spec c (fun e => done e || e == epochNumber c b) bs
    else spec c done bs

end Aggkit.Epoch
