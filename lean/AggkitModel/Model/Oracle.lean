/-
C15 — the GER oracle (aggoracle/oracle.go): `processLatestGER` / `getLastFinalizedGER`, one call per tick.
Environment of a tick: what the L1 client, the L1 info tree syncer and the L2 sender answer.
-/
namespace Aggkit.Oracle

structure Leaf where
  block : Nat
  ger : Nat
  deriving Repr, DecidableEq

structure Env where
  fin : Nat                 -- number of the L1 block with the configured finality right now
  finErr : Bool := false    -- HeaderByNumber fails
  lpb : Nat                 -- syncer's last processed block
  leaves : List Leaf        -- L1 info leaves the syncer has stored (chain order)
  syncErr : Bool := false   -- GetLatestInfoUntilBlock fails with an unexpected error
  l2 : List Nat             -- GERs present in the L2 contract
  isInjErr : Bool := false  -- IsGERInjected fails
  injErr : Bool := false    -- InjectGER fails
  deriving Repr

inductive Out where
  | injected (ger : Nat) (target : Nat)   -- InjectGER(ger) succeeded; `target` = the finalized block it was fetched for
  | already (ger : Nat)                   -- GER found on L2, nothing to do
  | notReady (target : Nat)               -- ErrBlockNotProcessed
  | noGER                                 -- ErrNotFound
  | failed                                -- any other error
  deriving Repr, DecidableEq

/-- `GetLatestInfoUntilBlock`: last leaf (chain order) with block ≤ t -/
def latestUntil (leaves : List Leaf) (t : Nat) : Option Leaf := (leaves.filter (fun l => l.block ≤ t)).getLast?

/-- what an L1 reorg from block `k` on leaves of the syncer's leaves -/
def reorgLeaves (leaves : List Leaf) (k : Nat) : List Leaf := leaves.filter (fun l => l.block < k)

/-- the body of a tick once the target block `t` is fixed -/
def tickAt (t : Nat) (e : Env) : Nat × Out :=
  if t = 0 then (0, .failed)                          -- ErrNoBlock0
  else if e.syncErr then (0, .failed)
  else if e.lpb < t then (t, .notReady t)             -- since the F11 fix the target is kept
  else match latestUntil e.leaves t with
    | none => (0, .noGER)
    | some l =>
      if e.isInjErr then (0, .failed)
      else if e.l2.contains l.ger then (0, .already l.ger)
      else if e.injErr then (0, .failed)
      else (0, .injected l.ger t)

/-- one tick; state = `blockNumToFetch` (0 = sample a fresh finalized block) -/
def tick (target : Nat) (e : Env) : Nat × Out :=
  if target = 0 then (if e.finErr then (0, .failed) else tickAt e.fin e) else tickAt target e

/-- a run: the environments seen tick by tick; returns the final target and the outputs -/
def run : Nat → List Env → Nat × List Out
  | target, [] => (target, [])
  | target, e :: es =>
    let (t', o) := tick target e
    let (tf, os) := run t' es
    (tf, o :: os)

end Aggkit.Oracle
