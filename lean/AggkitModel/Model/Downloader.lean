/-
C05 — sync.EVMDownloader.Download (sync/evmdownloader.go): the loop that turns a chain and a sequence of
(tip, finalized) observations into the sequence of blocks handed to the driver.
One `stepD` = one loop iteration. The environment input of an iteration is what the RPC client answers:
the new tip if the loop has to wait (`WaitForNewBlocks` returns only a tip greater than the last one seen)
and the finalized block number. The chain (which blocks carry which watched logs) is fixed — reorgs are C06.
-/
namespace Aggkit.Downloader

structure Delivered where
  num : Nat
  events : List Nat        -- identities of the watched logs of that block, in log order ([] = empty-block marker)
  finalized : Bool
  deriving Repr, DecidableEq

structure Env where
  chain : Nat → List Nat   -- watched, non-removed logs per block (what FilterLogs + topic/removed filtering yields)
  chunk : Nat              -- syncBlockChunkSize
  finalizedTag : Bool      -- finalizedBlockType.IsFinalized()

structure DState where
  from_ : Nat
  to_ : Nat
  last : Nat
  reachTop : Bool
  out : List Delivered     -- blocks sent on the channel, oldest first
  deriving Repr

structure Input where
  tip : Nat                -- answer of WaitForNewBlocks if this iteration waits (must exceed `last`)
  fin : Nat                -- number of the last finalized block
  finOk : Bool := true     -- false: GetLastFinalizedBlock failed (the iteration is abandoned: `continue`)
  deriving Repr

/-- `Download`'s prologue: `lastBlock := WaitForNewBlocks(ctx, 0)`, `toBlock := fromBlock + chunk` -/
def init (env : Env) (start tip0 : Nat) : DState :=
  { from_ := start, to_ := start + env.chunk, last := tip0, reachTop := false, out := [] }

/-- `GetEventsByBlockRange(from, to)`: the blocks of the range that carry watched logs, ascending -/
def eventsIn (env : Env) (f t : Nat) : List (Nat × List Nat) :=
  (List.range' f (t + 1 - f)).filterMap (fun b => if env.chain b = [] then none else some (b, env.chain b))

/-- what `GetLogs(from, to)` hands to the grouping loop (after the topic / `Removed` filtering): the watched logs of the
    range as (block number, log identity), ascending by block and in log order inside a block -/
def logsIn (env : Env) (f t : Nat) : List (Nat × Nat) :=
  (List.range' f (t + 1 - f)).flatMap (fun b => (env.chain b).map (fun id => (b, id)))

/-- the grouping loop of `getEventsByBlockRangeWithRetry`: a new block is opened when there is none yet or the log's block
    number exceeds the open block's (`latestBlock == nil || latestBlock.Num < l.BlockNumber`); otherwise the log is
    appended to the open block -/
def groupLogs : List (Nat × Nat) → List (Nat × List Nat) → List (Nat × List Nat)
  | [], acc => acc
  | l :: rest, acc =>
    match acc.getLast? with
    | some last =>
      if last.1 < l.1 then groupLogs rest (acc ++ [(l.1, [l.2])])
      else groupLogs rest (acc.dropLast ++ [(last.1, last.2 ++ [l.2])])
    | none => groupLogs rest (acc ++ [(l.1, [l.2])])

/-- `getEventsByBlockRangeWithRetry`: after `eth_getLogs` the header of every event block is fetched and its hash
    compared with the logs'; on a mismatch (a reorg or a lagging backend in between) the WHOLE range is fetched again,
    at most `MaxRetryCountBlockHashMismatch` = 5 times, then the function gives up and returns nothing (`none`).
    `mism attempt b` = the header answer for block `b` disagrees during that attempt. -/
def getEventsRetry (env : Env) (f t : Nat) (mism : Nat → Nat → Bool) : (left attempt : Nat) → Option (List (Nat × List Nat))
  | 0, attempt => if (eventsIn env f t).any (fun b => mism attempt b.1) then none else some (eventsIn env f t)
  | left + 1, attempt =>
    if (eventsIn env f t).any (fun b => mism attempt b.1) then getEventsRetry env f t mism left (attempt + 1)
    else some (eventsIn env f t)

def report (env : Env) (fin : Nat) (blocks : List (Nat × List Nat)) : List Delivered :=
  blocks.map (fun b => { num := b.1, events := b.2, finalized := env.finalizedTag && decide (b.1 ≤ fin) })

def marker (env : Env) (fin b : Nat) : Delivered :=
  { num := b, events := [], finalized := env.finalizedTag && decide (b ≤ fin) }

/-- one iteration of the loop -/
def stepD (env : Env) (s : DState) (inp : Input) : DState :=
  -- waiting branch
  let waits := decide (s.from_ > s.last) || (s.reachTop && decide (s.to_ ≥ s.last))
  let last := if waits then inp.tip else s.last
  let to0 := if waits then
      (if (s.from_ + 2^64 - s.to_ % 2^64) % 2^64 < env.chunk then s.from_ + env.chunk else s.to_)   -- `fromBlock-toBlock < chunk` in uint64
    else s.to_
  if !inp.finOk then { s with last := last, to_ := to0, reachTop := false } else
  let fin := min last inp.fin
  let reqTo := if to0 ≥ last then last else to0
  let reachTop := decide (to0 ≥ last)
  let blocks := eventsIn env s.from_ reqTo
  if reqTo ≤ fin then
    -- safe zone
    let out1 := s.out ++ report env fin blocks
    let needMarker := match blocks.getLast? with
      | none => true
      | some b => decide (b.1 < reqTo)
    let out2 := if needMarker then out1 ++ [marker env fin reqTo] else out1
    { from_ := reqTo + 1, to_ := reqTo + 1 + env.chunk, last := last, reachTop := reachTop, out := out2 }
  else if blocks.isEmpty then
    if fin ≥ s.from_ then
      { from_ := fin + 1, to_ := fin + 1 + env.chunk, last := last, reachTop := reachTop, out := s.out ++ [marker env fin fin] }
    else
      { s with to_ := to0 + env.chunk, last := last, reachTop := reachTop }   -- extend the range
  else
    let lastNum := match blocks.getLast? with | some b => b.1 | none => 0
    { from_ := lastNum + 1, to_ := lastNum + 1 + env.chunk, last := last, reachTop := reachTop,
      out := s.out ++ report env fin blocks }

def run (env : Env) (s : DState) (inps : List Input) : DState := inps.foldl (stepD env) s

/-- one iteration when the range fetch may GIVE UP: after `MaxRetryCountBlockHashMismatch` + 1 attempts that all met a
    header disagreeing with the logs, `getEventsByBlockRangeWithRetry` returns nil and the loop goes on as if the range held
    no watched logs -/
def stepG (env : Env) (s : DState) (inp : Input × Bool) : DState :=
  if inp.2 then stepD { env with chain := fun _ => [] } s inp.1 else stepD env s inp.1

def runG (env : Env) (s : DState) (inps : List (Input × Bool)) : DState := inps.foldl (stepG env) s


end Aggkit.Downloader
