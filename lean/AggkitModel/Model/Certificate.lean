import AggkitModel.Model.Bytes
import AggkitModel.Model.GlobalIndex
/-
C03 / C10 / C13 — the byte-level contract of a certificate:
  bridge event -> bridge exit (aggsender/flows/flow_base.go getBridgeExits, convertBridgeMetadata,
  ConvertClaimToImportedBridgeExit), the exit leaf on both sides (bridgesync Bridge.Hash, agglayer/types BridgeExit.Hash),
  the certificate id and the two signing commitments (agglayer/types Certificate.Hash, PPHashToSign, FEPHashToSign,
  GlobalIndex.Hash, ImportedBridgeExit.Hash), the wire form of an exit (agglayer/grpc convertToProtoBridgeExit) and the
  certificate metadata word (aggsender/types/certificate_metadata.go; statuschecker newCertificateInfoFromAgglayerCertHeader).
Keccak is a parameter `K` (the driver passes the Lean Keccak-256; the theorems hold for any `K` with 32-byte output and,
where stated, without collisions).
-/
namespace Aggkit.Certificate
open Aggkit Aggkit.GlobalIndex

/-- a bridge event as stored by the bridge syncer (the fields that reach a certificate) -/
structure BridgeEv where
  leafType : Nat
  origNet : Nat
  origAddr : Bytes     -- 20 bytes
  destNet : Nat
  destAddr : Bytes     -- 20 bytes
  amount : Nat
  metadata : Bytes     -- raw, any length
  deriving Repr, DecidableEq

/-- `agglayertypes.BridgeExit` -/
structure Exit where
  leafType : Nat
  origNet : Nat
  origAddr : Bytes
  destNet : Nat
  destAddr : Bytes
  amount : Nat
  metadata : Bytes     -- empty, or the 32-byte hash of the event's metadata
  deriving Repr, DecidableEq

/-- `convertBridgeMetadata` -/
def convertMeta (K : Bytes → Bytes) (m : Bytes) : Bytes := if m.length > 0 then K m else []

/-- `getBridgeExits` for one bridge (and the bridge-exit part of `ConvertClaimToImportedBridgeExit`) -/
def toExit (K : Bytes → Bytes) (b : BridgeEv) : Exit :=
  { leafType := b.leafType, origNet := b.origNet, origAddr := b.origAddr, destNet := b.destNet, destAddr := b.destAddr,
    amount := b.amount, metadata := convertMeta K b.metadata }

/-- `bridgesync.Bridge.Hash`: the leaf of the L2 exit tree -/
def leafHash (K : Bytes → Bytes) (b : BridgeEv) : Bytes :=
  K ([b.leafType] ++ fillBE 4 b.origNet ++ b.origAddr ++ fillBE 4 b.destNet ++ b.destAddr ++ fillBE 32 b.amount ++
     K b.metadata)

/-- `agglayertypes.BridgeExit.Hash`: the same leaf as the Agglayer computes it from the exit -/
def exitHash (K : Bytes → Bytes) (e : Exit) : Bytes :=
  K ([e.leafType] ++ fillBE 4 e.origNet ++ e.origAddr ++ fillBE 4 e.destNet ++ e.destAddr ++ fillBE 32 e.amount ++
     (if e.metadata.length = 0 then K [] else e.metadata))

/-- wire form of an exit (`convertToProtoBridgeExit`): amount as a 32-byte word, metadata only when present -/
structure WireExit where
  leafType : Nat
  origNet : Nat
  origAddr : Bytes
  destNet : Nat
  destAddr : Bytes
  amount : Bytes
  metadata : Option Bytes
  deriving Repr, DecidableEq

/-- `common.BytesToHash`: crop from the left / pad on the left to 32 bytes -/
def bytesToHash (b : Bytes) : Bytes :=
  if b.length > 32 then b.drop (b.length - 32) else List.replicate (32 - b.length) 0 ++ b

def toWire (e : Exit) : WireExit :=
  { leafType := e.leafType, origNet := e.origNet, origAddr := e.origAddr, destNet := e.destNet, destAddr := e.destAddr,
    amount := fillBE 32 e.amount,
    metadata := if e.metadata.length > 0 then some (bytesToHash e.metadata) else none }

/-- the exit leaf recomputed from the wire message alone -/
def wireHash (K : Bytes → Bytes) (w : WireExit) : Bytes :=
  K ([w.leafType] ++ fillBE 4 w.origNet ++ w.origAddr ++ fillBE 4 w.destNet ++ w.destAddr ++ w.amount ++
     (match w.metadata with
      | some m => m
      | none => K []))

/-- `agglayertypes.ImportedBridgeExit` reduced to what the commitments read; `claimHash` = `ClaimData.Hash()` -/
structure ImpExit where
  exit : Exit
  mainnet : Bool
  rollup : Nat
  leaf : Nat
  claimHash : Bytes
  deriving Repr, DecidableEq

def ImpExit.gi (i : ImpExit) : Nat := generate i.mainnet i.rollup i.leaf

/-- `GlobalIndex.Hash` -/
def giHash (K : Bytes → Bytes) (i : ImpExit) : Bytes := K (bigToLE32 i.gi)

/-- `ImportedBridgeExit.Hash` -/
def impHash (K : Bytes → Bytes) (i : ImpExit) : Bytes := K (exitHash K i.exit ++ i.claimHash ++ giHash K i)

structure Cert where
  networkID : Nat
  height : Nat
  prevLER : Bytes
  newLER : Bytes
  exits : List Exit
  imps : List ImpExit
  aggchainParams : Option Bytes   -- `some` for an aggchain proof (FEP), `none` for a plain signature
  deriving Repr, DecidableEq

/-- `Certificate.Hash`: the certificate id -/
def certHash (K : Bytes → Bytes) (c : Cert) : Bytes :=
  K (fillBE 4 c.networkID ++ fillBE 8 c.height ++ c.prevLER ++ c.newLER ++
     K (c.exits.flatMap (exitHash K)) ++ K (c.imps.flatMap (impHash K)))

/-- `PPHashToSign` -/
def ppCommit (K : Bytes → Bytes) (c : Cert) : Bytes :=
  K (c.newLER ++ K (c.imps.flatMap (giHash K)))

/-- one chunk of `FEPHashToSign`: little-endian global index followed by the exit hash -/
def fepChunk (K : Bytes → Bytes) (i : ImpExit) : Bytes := bigToLE32 i.gi ++ exitHash K i.exit

/-- `FEPHashToSign` -/
def fepCommit (K : Bytes → Bytes) (c : Cert) : Bytes :=
  K (c.newLER ++ K (c.imps.flatMap (fepChunk K)) ++ fillLE 8 c.height ++
     (match c.aggchainParams with
      | some p => p
      | none => K []))

/-! ### certificate metadata -/

structure Meta where
  version : Nat
  fromBlock : Nat
  offset : Nat
  createdAt : Nat
  certType : Nat
  toBlockV0 : Nat := 0
  deriving Repr, DecidableEq

/-- `CertificateMetadata.ToHash` for version 2 (what `NewCertificateMetadata` builds) -/
def metaToHash (fromBlock offset createdAt certType : Nat) : Bytes :=
  [2] ++ fillBE 8 fromBlock ++ fillBE 4 offset ++ fillBE 4 createdAt ++ [certType % 256] ++ List.replicate 14 0

/-- `NewCertificateMetadataFromHash` (`none` = unsupported version) -/
def metaFromHash (b : Bytes) : Option Meta :=
  match b.head? with
  | some 0 => some { version := 0, fromBlock := 0, offset := 0, createdAt := 0, certType := 0,
                     toBlockV0 := ofBE (b.drop 24) }     -- hash.Big().Uint64(): the low 8 bytes
  | some 1 => some { version := 1, fromBlock := ofBE ((b.drop 1).take 8), offset := ofBE ((b.drop 9).take 4),
                     createdAt := ofBE ((b.drop 13).take 4), certType := 0 }
  | some 2 => some { version := 2, fromBlock := ofBE ((b.drop 1).take 8), offset := ofBE ((b.drop 9).take 4),
                     createdAt := ofBE ((b.drop 13).take 4), certType := (b.drop 17).headD 0 }
  | _ => none

/-- block range recovered from a header (`newCertificateInfoFromAgglayerCertHeader`) -/
def rangeOfMeta (m : Meta) : Nat × Nat :=
  if m.version = 0 then (m.fromBlock, m.toBlockV0) else (m.fromBlock, m.fromBlock + m.offset)

/-- what `BuildCertificate` puts into the metadata for the range `[f, t]`: the offset is truncated to 32 bits -/
def metaOfRange (f t createdAt certType : Nat) : Bytes := metaToHash f ((t - f) % 2^32) createdAt certType

end Aggkit.Certificate
