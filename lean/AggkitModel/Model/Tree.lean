import AggkitModel.Model.Merkle
/-
The code model of package `tree`: node store (`rht` table), root table, append-only tree
(frontier cache `lastLeftCache` + `lastIndex`), updatable tree, proofs and leaf lookups.
Mirrors tree/tree.go, tree/appendonlytree.go, tree/updatabletree.go statement by statement;
height `n` is a parameter (32 in the code).
-/
namespace Aggkit
variable {α : Type}

structure Node (α : Type) where
  hash : α
  left : α
  right : α
  deriving Repr

structure RootRow (α : Type) where
  hash : α
  index : Nat        -- column `position`
  blockNum : Nat
  blockPos : Nat
  deriving Repr

/-- the two tables of one tree, rows in insertion (rowid) order -/
structure TreeDb (α : Type) where
  roots : List (RootRow α) := []
  rht : List (Node α) := []

inductive TreeErr where
  | notFound          -- db.ErrNotFound
  | invalidIndex      -- tree.ErrInvalidIndex
  | constraint        -- PRIMARY KEY violation on the root table
  | fault             -- injected storage fault
  deriving Repr, DecidableEq

def mkNode (H : HashAlg α) (l r : α) : Node α := { hash := H.node l r, left := l, right := r }

section
variable [DecidableEq α]

/-- `getRHTNode`: SELECT * FROM rht WHERE hash = $1 -/
def lookup (rht : List (Node α)) (k : α) : Option (Node α) := rht.find? (fun nd => nd.hash = k)

/-- `storeNodes`: insert each node, ignoring UNIQUE violations (first writer wins) -/
def storeNodes (rht : List (Node α)) (nodes : List (Node α)) : List (Node α) :=
  nodes.foldl (fun acc nd => if (lookup acc nd.hash).isSome then acc else acc ++ [nd]) rht

/-- `storeRoot`: PRIMARY KEY on hash -/
def storeRoot (db : TreeDb α) (r : RootRow α) : Except TreeErr (TreeDb α) :=
  if db.roots.any (fun x => x.hash = r.hash) then .error .constraint
  else .ok { db with roots := db.roots ++ [r] }

/-- is `a` ordered strictly after `b` by (block_num, block_position)? -/
def RootRow.after (a b : RootRow α) : Bool :=
  a.blockNum > b.blockNum || (a.blockNum == b.blockNum && a.blockPos > b.blockPos)

/-- `getLastRootWithTx`: ORDER BY block_num DESC, block_position DESC LIMIT 1
    (ties — which the callers never produce — resolve to the earliest row) -/
def getLastRoot (db : TreeDb α) : Option (RootRow α) :=
  db.roots.foldl (fun best r => match best with
    | none => some r
    | some b => if r.after b then some r else some b) none

/-- `GetRootByIndex`: WHERE position = $1 (first row) -/
def getRootByIndex (db : TreeDb α) (i : Nat) : Option (RootRow α) := db.roots.find? (fun r => r.index = i)

/-- `GetRootByHash` -/
def getRootByHash (db : TreeDb α) (h : α) : Option (RootRow α) := db.roots.find? (fun r => r.hash = h)

/-- `Tree.Reorg`: DELETE FROM root WHERE block_num >= $1 (the rht table is left alone) -/
def TreeDb.reorg (db : TreeDb α) (first : Nat) : TreeDb α :=
  { db with roots := db.roots.filter (fun r => r.blockNum < first) }

/-- `getSiblings`, levels `h-1 … 0` still to do, accumulating siblings[0..] ; on a miss the zero hash
    of that level is used and the current node hash is kept (the Go `continue`) -/
def getSiblingsAux (H : HashAlg α) (rht : List (Node α)) (idx : Nat) :
    (h : Nat) → (cur : α) → (acc : List α) → (usedZero : Bool) → List α × Bool
  | 0, _, acc, z => (acc, z)
  | h+1, cur, acc, z =>
    match lookup rht cur with
    | none => getSiblingsAux H rht idx h cur (zeroH H h :: acc) true
    | some nd =>
      if idx.testBit h then getSiblingsAux H rht idx h nd.right (nd.left :: acc) z
      else getSiblingsAux H rht idx h nd.left (nd.right :: acc) z

def getSiblings (H : HashAlg α) (n : Nat) (rht : List (Node α)) (idx : Nat) (root : α) : List α × Bool :=
  getSiblingsAux H rht idx n root [] false

/-- `GetProof` -/
def getProof (H : HashAlg α) (n : Nat) (db : TreeDb α) (idx : Nat) (root : α) : List α :=
  (getSiblings H n db.rht idx root).1

/-- `GetLeaf`: fails on the first missing node -/
def getLeafAux (rht : List (Node α)) (idx : Nat) : (h : Nat) → (cur : α) → Except TreeErr α
  | 0, cur => .ok cur
  | h+1, cur =>
    match lookup rht cur with
    | none => .error .notFound
    | some nd => if idx.testBit h then getLeafAux rht idx h nd.right else getLeafAux rht idx h nd.left

def getLeaf (n : Nat) (db : TreeDb α) (idx : Nat) (root : α) : Except TreeErr α := getLeafAux db.rht idx n root

end

/-- append-only tree object: in-memory frontier -/
structure AOT (α : Type) where
  lastIndex : Int        -- -2 = cache not initialised, -1 = empty tree
  cache : List α         -- lastLeftCache, length n
  deriving Repr

def AOT.new (H : HashAlg α) (n : Nat) : AOT α := { lastIndex := -2, cache := List.replicate n H.zero }

/-- the `AddLeaf` loop, levels `h … h+k-1`: returns (cache, root, new nodes) -/
def addLoop (H : HashAlg α) (idx : Nat) : (k h : Nat) → (cache : List α) → (cur : α) → (nodes : List (Node α)) →
    List α × α × List (Node α)
  | 0, _, c, cur, ns => (c, cur, ns)
  | k+1, h, c, cur, ns =>
    if idx.testBit h then
      let p := mkNode H (c.getD h H.zero) cur
      addLoop H idx k (h+1) c p.hash (ns ++ [p])
    else
      let p := mkNode H cur (zeroH H h)
      addLoop H idx k (h+1) (c.set h cur) p.hash (ns ++ [p])

section
variable [DecidableEq α]

/-- `initCache` walk: levels `h-1 … 0`, recording the LEFT child at every level -/
def initWalk (rht : List (Node α)) (idx : Nat) : (h : Nat) → (cur : α) → (acc : List α) → Except TreeErr (List α)
  | 0, _, acc => .ok acc
  | h+1, cur, acc =>
    match lookup rht cur with
    | none => .error .notFound
    | some nd => if idx.testBit h then initWalk rht idx h nd.right (nd.left :: acc)
                 else initWalk rht idx h nd.left (nd.left :: acc)

/-- `initCache` (the "reverse" loop of the Go code runs zero times for n = 32 and is omitted) -/
def initCache (H : HashAlg α) (n : Nat) (db : TreeDb α) : Except TreeErr (AOT α) :=
  match getLastRoot db with
  | none => .ok { lastIndex := -1, cache := List.replicate n H.zero }
  | some r =>
    match initWalk db.rht r.index n r.hash [] with
    | .error e => .error e    -- NB: the Go code has already set t.lastIndex here; see `addLeaf`
    | .ok c => .ok { lastIndex := r.index, cache := c }

/-- `AddLeaf`. Returns the (always mutated) in-memory tree and either an error or the new tables.
    On `initCache` failure after the root was read, Go has set `lastIndex` but not the cache. -/
def addLeaf (H : HashAlg α) (n : Nat) (t : AOT α) (db : TreeDb α) (blockNum blockPos idx : Nat) (leaf : α) :
    AOT α × Except TreeErr (TreeDb α) :=
  let pre : Except TreeErr (AOT α) :=
    if (idx : Int) ≠ t.lastIndex + 1 then initCache H n db else .ok t
  match pre with
  | .error e =>
    -- lastIndex was overwritten by initCache before the walk failed
    let li : Int := match getLastRoot db with | some r => r.index | none => -1
    ({ t with lastIndex := li }, .error e)
  | .ok t =>
    if (idx : Int) ≠ t.lastIndex + 1 then (t, .error .invalidIndex) else
    let (c, root, nodes) := addLoop H idx n 0 t.cache leaf []
    let t := { t with cache := c }
    match storeRoot db { hash := root, index := idx, blockNum := blockNum, blockPos := blockPos } with
    | .error e => (t, .error e)
    | .ok db' =>
      ({ t with lastIndex := t.lastIndex + 1 }, .ok { db' with rht := storeNodes db'.rht nodes })

/-- `UpsertLeaf` loop -/
def upsertLoop (H : HashAlg α) (idx : Nat) : (sibs : List α) → (h : Nat) → (cur : α) → (nodes : List (Node α)) → α × List (Node α)
  | [], _, cur, ns => (cur, ns)
  | s :: rest, h, cur, ns =>
    let p := if idx.testBit h then mkNode H s cur else mkNode H cur s
    upsertLoop H idx rest (h+1) p.hash (ns ++ [p])

/-- the root `UpsertLeaf` starts from: the last root row, or the empty-tree root -/
def lastRootHash (H : HashAlg α) (n : Nat) (db : TreeDb α) : α :=
  match getLastRoot db with | none => zeroH H n | some r => r.hash

/-- `UpdatableTree.UpsertLeaf` -/
def upsertLeaf (H : HashAlg α) (n : Nat) (db : TreeDb α) (blockNum blockPos idx : Nat) (leaf : α) :
    Except TreeErr (α × TreeDb α) :=
  let rootHash := lastRootHash H n db
  let sibs := (getSiblings H n db.rht idx rootHash).1
  let (root, nodes) := upsertLoop H idx sibs 0 leaf []
  match storeRoot db { hash := root, index := idx, blockNum := blockNum, blockPos := blockPos } with
  | .error e => .error e
  | .ok db' => .ok (root, { db' with rht := storeNodes db'.rht nodes })

end
end Aggkit

namespace Aggkit
variable {α : Type} [DecidableEq α]

/-- in-memory effect of an `AddLeaf` whose `storeRoot` / `storeNodes` statement fails:
    the pre-phase and the loop have run (cache written), `lastIndex` is not incremented and no
    rollback callback is registered -/
def addLeafStoreFault (H : HashAlg α) (n : Nat) (t : AOT α) (db : TreeDb α) (idx : Nat) (leaf : α) : AOT α :=
  let pre : Except TreeErr (AOT α) :=
    if (idx : Int) ≠ t.lastIndex + 1 then initCache H n db else .ok t
  match pre with
  | .error _ =>
    let li : Int := match getLastRoot db with | some r => r.index | none => -1
    { t with lastIndex := li }
  | .ok t =>
    if (idx : Int) ≠ t.lastIndex + 1 then t else
    { t with cache := (addLoop H idx n 0 t.cache leaf []).1 }

end Aggkit

namespace Aggkit
variable {α : Type} [DecidableEq α]

/-- in-memory effect of an `AddLeaf` whose `k`-th storage statement (reads included) fails.
    Statement order: [getLastRoot, then one getRHTNode per level — only when the cache must be rebuilt],
    storeRoot, storeNodes×n. Returns `none` when `k` is past the last statement (no fault happens). -/
def addLeafFaultAt (H : HashAlg α) (n : Nat) (t : AOT α) (db : TreeDb α) (idx : Nat) (leaf : α) (k : Nat) :
    Option (AOT α) :=
  let needInit := decide ((idx : Int) ≠ t.lastIndex + 1)
  let reads := if needInit then (match getLastRoot db with | some _ => 1 + n | none => 1) else 0
  if k < reads then
    -- since the F14 fix `initCache` assigns lastIndex only after the walk succeeded: nothing changes
    some t
  else if k < reads + 1 + n then
    -- the reads went through; if the index is wrong AddLeaf returns before any write statement
    match (if needInit then initCache H n db else .ok t) with
    | .error _ => none
    | .ok t1 => if (idx : Int) ≠ t1.lastIndex + 1 then none else some (addLeafStoreFault H n t db idx leaf)
  else none

end Aggkit
