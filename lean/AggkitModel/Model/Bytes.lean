/-
Byte-level helpers shared by the model (core Lean only).
Bytes are modelled as `List Nat` with every element `< 256` (the predicate `IsBytes`);
this keeps arithmetic proofs in `Nat`/`omega` territory. The driver converts to/from hex.
-/
namespace Aggkit

abbrev Bytes := List Nat

def IsBytes (bs : Bytes) : Prop := ∀ b ∈ bs, b < 256

/-- value of a big-endian byte string (`big.Int.SetBytes`, `binary.BigEndian.UintN` on padded input) -/
def ofBE (bs : Bytes) : Nat := bs.foldl (fun acc b => acc * 256 + b) 0

/-- exactly `k` bytes, big-endian, of `x % 256^k` (`FillBytes` / `binary.BigEndian.PutUintN`;
    Go panics when `x ≥ 256^k` for `FillBytes`, callers state the range) -/
def fillBE : Nat → Nat → Bytes
  | 0, _ => []
  | k+1, x => fillBE k (x / 256) ++ [x % 256]

/-- minimal big-endian bytes (`big.Int.Bytes()`): empty for 0, no leading zero byte.
    `fuel` only makes the recursion structural; `beBytes` supplies enough. -/
def beBytesAux : Nat → Nat → Bytes
  | 0, _ => []
  | fuel+1, x => if x = 0 then [] else beBytesAux fuel (x / 256) ++ [x % 256]

def beBytes (x : Nat) : Bytes := beBytesAux x x

/-- little-endian, exactly `k` bytes of `x % 256^k` -/
def fillLE (k x : Nat) : Bytes := (fillBE k x).reverse

/-- `common.BytesToUint32` (panics if longer than 4: modelled as `none`) -/
def bytesToU32 (bs : Bytes) : Option Nat := if bs.length > 4 then none else some (ofBE bs)

/-- `common.BigIntToLittleEndianBytes`: 32 bytes, little-endian, the low 32 bytes *of the
    big-endian string reversed* — for inputs longer than 32 bytes the code keeps the 32
    least-significant bytes. -/
def bigToLE32 (x : Nat) : Bytes :=
  let rb := (beBytes x).reverse.take 32      -- leBytes[i] = beBytes[len-1-i] for i < min(len, 32)
  rb ++ List.replicate (32 - rb.length) 0    -- the rest of the 32-byte buffer stays zero

/-- value of a little-endian byte string -/
def ofLE (bs : Bytes) : Nat := ofBE bs.reverse

/-- `common.BigToHash`: left-padded / left-truncated 32 bytes big-endian -/
def bigToHash (x : Nat) : Bytes := fillBE 32 x

/-! hex conversion (driver side) -/

def hexDigit (n : Nat) : Char := if n < 10 then Char.ofNat (48 + n) else Char.ofNat (87 + n)

def toHex (bs : Bytes) : String :=
  String.ofList (bs.foldr (fun b acc => hexDigit (b / 16) :: hexDigit (b % 16) :: acc) [])

def hexVal (c : Char) : Option Nat :=
  if '0' ≤ c ∧ c ≤ '9' then some (c.toNat - 48)
  else if 'a' ≤ c ∧ c ≤ 'f' then some (c.toNat - 87)
  else if 'A' ≤ c ∧ c ≤ 'F' then some (c.toNat - 55)
  else none

def fromHexAux : List Char → Option Bytes
  | [] => some []
  | [_] => none
  | a :: b :: rest => do
    let x ← hexVal a
    let y ← hexVal b
    let r ← fromHexAux rest
    pure ((x * 16 + y) :: r)

/-- accepts an optional `0x` prefix; `-` or empty means the empty string -/
def fromHex (s : String) : Option Bytes :=
  let cs := s.toList
  let cs := match cs with
    | '0' :: 'x' :: r => r
    | r => r
  if cs = ['-'] then some [] else fromHexAux cs

def bytesToByteArray (bs : Bytes) : ByteArray := ByteArray.mk (bs.map (fun b => b.toUInt8)).toArray
def byteArrayToBytes (b : ByteArray) : Bytes := b.data.toList.map (·.toNat)

end Aggkit
