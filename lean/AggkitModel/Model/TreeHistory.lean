import AggkitModel.Model.TreeMachine
/-
Histories of the exit tree as the bridge processor drives it: one transaction per block
(`ProcessBlock`), which commits or is rolled back after some of its leaves (a fault at any later
statement, possibly inside the next `AddLeaf`), restarts, and reorgs (`Reorg` in its own transaction).
-/
namespace Aggkit
variable {α : Type} [DecidableEq α]

inductive Outcome where
  | commit
  /-- the transaction is rolled back after `k` leaves were added; `mid` = the fault hit the store
      statements of the `(k+1)`-th AddLeaf (its cache writes have happened) -/
  | rollbackAfter (k : Nat) (mid : Bool)

inductive HiOp (α : Type) where
  | block (bn : Nat) (leaves : List (Nat × α)) (o : Outcome)   -- (deposit count, leaf hash), position = order
  | restart
  | reorg (first : Nat)

/-- add leaves one after the other inside the open transaction (block position = `pos`, `pos+1`, …);
    stops at the first failing AddLeaf (the caller rolls back) -/
def addAll (H : HashAlg α) (n : Nat) (bn : Nat) : TM α → Nat → List (Nat × α) → TM α × Bool
  | s, _, [] => (s, true)
  | s, pos, (idx, v) :: rest =>
    match TM.step H n s (.add bn pos idx v) with
    | (s', .ok) => addAll H n bn s' (pos+1) rest
    | (s', _) => (s', false)

def HiOp.run (H : HashAlg α) (n : Nat) (s : TM α) : HiOp α → TM α
  | .restart => (TM.step H n s .restart).1
  | .reorg b =>
    let s := (TM.step H n s .begin).1
    let s := (TM.step H n s (.reorg b)).1
    (TM.step H n s .commit).1
  | .block bn leaves .commit =>
    let s := (TM.step H n s .begin).1
    let (s, ok) := addAll H n bn s 0 leaves
    if ok then (TM.step H n s .commit).1 else (TM.step H n s .rollback).1
  | .block bn leaves (.rollbackAfter k mid) =>
    let s := (TM.step H n s .begin).1
    let (s, _) := addAll H n bn s 0 (leaves.take k)
    let s := if mid then
        match leaves[k]? with
        | some (idx, v) => { s with t := addLeafStoreFault H n s.t s.db idx v }
        | none => s
      else s
    (TM.step H n s .rollback).1

def runHistory (H : HashAlg α) (n : Nat) (s : TM α) (ops : List (HiOp α)) : TM α :=
  ops.foldl (HiOp.run H n) s

/-- what the committed leaves should be: the fold of the surviving blocks. `rows` = (block, leaf) -/
def HiOp.abs (rows : List (Nat × α)) : HiOp α → List (Nat × α)
  | .restart => rows
  | .reorg b => rows.filter (fun r => r.1 < b)
  | .block bn leaves .commit => rows ++ leaves.map (fun l => (bn, l.2))
  | .block _ _ (.rollbackAfter _ _) => rows

def absHistory (rows : List (Nat × α)) (ops : List (HiOp α)) : List (Nat × α) := ops.foldl HiOp.abs rows

end Aggkit
