/-
C20 — claim details are taken only from the matching, non-reverted bridge call.
Mirrors bridgesync/downloader.go: `setClaimCalldata`, `findCall` (explicit-stack DFS, LIFO, reverted
frames skipped), `tryDecodeClaimCalldata` (four claim selectors, error on anything else) and the
global-index test of `decodeEtrogCalldata` / `decodePreEtrogCalldata`.
-/
namespace Aggkit.ClaimTrace

/-- what a frame's input decodes to -/
inductive Payload where
  | claim (gi : Nat) (id : Nat) (isMessage : Bool)   -- one of the 4 claim selectors; `id` stands for all decoded fields
  | unknown                                          -- ≥ 4 bytes, selector is not a claim method → decode error
  | short                                            -- < 4 bytes → decode error
  deriving Repr, DecidableEq

inductive Frame where
  | mk (err : Bool) (toBridge : Bool) (sender : Nat) (payload : Payload) (calls : List Frame)
  deriving Repr

def Frame.err : Frame → Bool | .mk e _ _ _ _ => e
def Frame.toBridge : Frame → Bool | .mk _ b _ _ _ => b
def Frame.sender : Frame → Nat | .mk _ _ s _ _ => s
def Frame.payload : Frame → Payload | .mk _ _ _ p _ => p
def Frame.calls : Frame → List Frame | .mk _ _ _ _ c => c

inductive Res where
  | ok (id : Nat) (sender : Nat) (isMessage : Bool)  -- the claim is filled from this call
  | notFound                                         -- db.ErrNotFound
  | decodeErr                                        -- tryDecodeClaimCalldata failed on a bridge call
  | rootReverted
  deriving Repr, DecidableEq

/-- the callback of `setClaimCalldata` on one frame addressed to the bridge: `none` = keep searching -/
def tryDecode (gi : Nat) (f : Frame) : Option Res :=
  match f.payload with
  | .claim g id m => if g = gi then some (.ok id f.sender m) else none
  | .unknown => some .decodeErr
  | .short => some .decodeErr

/-- `findCall`'s loop over the explicit stack (top = head). `fuel` bounds the iterations. -/
def dfs (gi : Nat) : Nat → List Frame → Res
  | 0, _ => .notFound
  | _, [] => .notFound
  | fuel+1, f :: rest =>
    if f.err then dfs gi fuel rest
    else
      let continue_ := dfs gi fuel ((f.calls.filter (fun c => !c.err)).reverse ++ rest)
      if f.toBridge then
        match tryDecode gi f with
        | some r => r
        | none => continue_
      else continue_

mutual
def size : Frame → Nat
  | .mk _ _ _ _ cs => 1 + sizeL cs
def sizeL : List Frame → Nat
  | [] => 0
  | f :: fs => size f + sizeL fs
end

/-- `setClaimCalldata` -/
def setClaimCalldata (gi : Nat) (root : Frame) : Res :=
  if root.err then .rootReverted else dfs gi (size root + 1) [root]

mutual
/-- frames that are not reverted, neither themselves nor through an enclosing call -/
def live : Frame → List Frame
  | .mk e b s p cs => if e then [] else (.mk e b s p cs) :: liveL cs
def liveL : List Frame → List Frame
  | [] => []
  | f :: fs => live f ++ liveL fs
end

end Aggkit.ClaimTrace
