import AggkitModel.Model.Merkle
/-
C09 — the claim data the node packs into an imported bridge exit (aggsender/flows/flow_base.go getImportedBridgeExits,
verifyClaimGERs; aggsender/query/l1info_tree_data_query.go GetProofForGER / GetLatestFinalizedL1InfoRoot).
Generic over the hash algebra; the driver instantiates it with byte strings and Keccak (`node a b = keccak(a ‖ b)`).
-/
namespace Aggkit.ClaimProof
variable {α : Type}

/-- a claim as the bridge syncer recorded it from the claim transaction's calldata -/
structure ClaimIn (α : Type) where
  mainnet : Bool
  rollup : Nat
  leaf : Nat
  exitLeaf : α              -- hash of the claimed bridge exit
  mer : α
  rer : α
  ger : α
  proofLocal : List α       -- smtProofLocalExitRoot
  proofRollup : List α      -- smtProofRollupExitRoot
  deriving Repr

/-- what the bridge contract checked when it accepted the claim (PolygonZkEVMBridgeV2 `_verifyLeaf`) -/
def ContractAccepted [DecidableEq α] (H : HashAlg α) (c : ClaimIn α) : Prop :=
  c.ger = H.node c.mer c.rer ∧
  (if c.mainnet then calcRoot H c.exitLeaf c.proofLocal c.leaf = c.mer
   else calcRoot H (calcRoot H c.exitLeaf c.proofLocal c.leaf) c.proofRollup c.rollup = c.rer)

/-- `verifyClaimGERs` for one claim -/
def gerOK [DecidableEq α] (H : HashAlg α) (c : ClaimIn α) : Bool := decide (H.node c.mer c.rer = c.ger)

/-- a Merkle statement as it travels in the certificate: root + siblings -/
structure MP (α : Type) where
  root : α
  siblings : List α
  deriving Repr

/-- the claim data of an imported bridge exit -/
structure Packed (α : Type) where
  leafProof : MP α              -- proof_leaf_mer (mainnet) / proof_leaf_ler (rollup)
  lerProof : Option (MP α)      -- proof_ler_rer (rollup only)
  gerProof : MP α               -- proof_ger_l1root
  l1Index : Nat
  l1Mer : α
  l1Rer : α
  l1Ger : α
  deriving Repr

/-- `getImportedBridgeExits`, claim-data part: `l1Index`/`gerSiblings` are what `GetProofForGER(claim.ger, root)` returned
    (the index of the leaf holding that GER and its proof towards `root`) -/
def pack (H : HashAlg α) (c : ClaimIn α) (l1Index : Nat) (l1Ger : α) (gerSiblings : List α) (root : α) : Packed α :=
  { leafProof := if c.mainnet then ⟨c.mer, c.proofLocal⟩ else ⟨calcRoot H c.exitLeaf c.proofLocal c.leaf, c.proofLocal⟩,
    lerProof := if c.mainnet then none else some ⟨c.rer, c.proofRollup⟩,
    gerProof := ⟨root, gerSiblings⟩, l1Index := l1Index, l1Mer := c.mer, l1Rer := c.rer, l1Ger := l1Ger }

/-- what a verifier (the Agglayer's proof) checks on the packed claim data, given the hash of the L1 info leaf -/
def Verifies (H : HashAlg α) (c : ClaimIn α) (l1LeafHash : α) (p : Packed α) : Prop :=
  calcRoot H c.exitLeaf p.leafProof.siblings c.leaf = p.leafProof.root ∧
  (match p.lerProof with
   | none => p.leafProof.root = p.l1Mer
   | some q => calcRoot H p.leafProof.root q.siblings c.rollup = q.root ∧ q.root = p.l1Rer) ∧
  p.l1Ger = H.node p.l1Mer p.l1Rer ∧
  calcRoot H l1LeafHash p.gerProof.siblings p.l1Index = p.gerProof.root

end Aggkit.ClaimProof
