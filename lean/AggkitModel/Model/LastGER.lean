/-
C16 — the injected-GER index (lastgersync): PP downloader (events of the L2 GER manager), FEP downloader
(state of the L2 GER map against the L1 info leaves), the processor's table and query.
-/
namespace Aggkit.LastGER

inductive GEv where
  | insert (ger : Nat) (idx : Nat)     -- UpdateHashChainValue: GER injected; idx = its L1 info tree index
  | remove (ger : Nat)                 -- UpdateRemovalHashChainValue
  deriving Repr, DecidableEq

structure Row where
  blockNum : Nat
  ger : Nat
  idx : Nat
  deriving Repr, DecidableEq

structure St where
  blocks : List Nat := []      -- block table
  rows : List Row := []        -- imported_global_exit_root (PRIMARY KEY block_num)
  from_ : Nat := 1             -- downloader position (fromBlock)
  deriving Repr

def lpb (s : St) : Nat := s.blocks.foldl max 0

inductive Res where
  | ok | constraint
  deriving Repr, DecidableEq

/-- `ProcessBlock` with at most one event -/
def processBlock (s : St) (bn : Nat) (ev : Option GEv) : St × Res :=
  if s.blocks.contains bn then (s, .constraint) else
  match ev with
  | none => ({ s with blocks := s.blocks ++ [bn] }, .ok)
  | some (.insert g i) => ({ s with blocks := s.blocks ++ [bn], rows := s.rows ++ [{ blockNum := bn, ger := g, idx := i }] }, .ok)
  | some (.remove g) => ({ s with blocks := s.blocks ++ [bn], rows := s.rows.filter (fun r => r.ger != g) }, .ok)

/-- `GetFirstGERAfterL1InfoTreeIndex`: smallest index ≥ x -/
def firstAfter (s : St) (x : Nat) : Option Row :=
  (s.rows.filter (fun r => r.idx ≥ x)).foldl (fun best r => match best with
    | none => some r
    | some b => if r.idx < b.idx then some r else some b) none

/-- the L2 chain as seen by the PP downloader: the GER-manager event of each block (at most one) -/
abbrev Chain := Nat → Option GEv

/-- blocks with an event in `[f, t]`, ascending -/
def eventBlocks (chain : Chain) (f t : Nat) : List (Nat × GEv) :=
  (List.range' f (t + 1 - f)).filterMap (fun b => (chain b).map (fun e => (b, e)))

/-- one pass of the PP `Download` loop when the tip is `tip` (since fix: waits until the tip reaches `from`,
    fetches every block up to the tip); the driver processes each delivered block -/
def pollPP (chain : Chain) (s : St) (tip : Nat) : St :=
  if tip < s.from_ then s else
  let s' := (eventBlocks chain s.from_ tip).foldl (fun acc be => (processBlock acc be.1 (some be.2)).1) s
  { s' with from_ := tip + 1 }

/-- `Reorg` (+ the driver restarting the downloader at lastProcessed+1) -/
def reorg (s : St) (first : Nat) : St :=
  let s1 := { s with blocks := s.blocks.filter (· < first), rows := s.rows.filter (fun r => r.blockNum < first) }
  { s1 with from_ := lpb s1 + 1 }

def restart (s : St) : St := { s with from_ := lpb s + 1 }

/-- specification: the GERs injected and not removed since, in the blocks `[1, t]` -/
def specRows (chain : Chain) (t : Nat) : List Row :=
  (eventBlocks chain 1 t).foldl (fun acc be => match be.2 with
    | .insert g i => acc ++ [{ blockNum := be.1, ger := g, idx := i }]
    | .remove g => acc.filter (fun r => r.ger != g)) []

end Aggkit.LastGER

namespace Aggkit.LastGER

/-- FEP mode: the downloader has no events to read; on every new tip it asks the L2 GER map which of the L1 info
    leaves from `nextIndex` on are injected and records the greatest one for the tip block (every tip block is
    delivered, with or without an event). `nextIndex` is computed once per (re)start from the table
    (and, in the code as it is, never advances while the downloader runs). -/
structure FSt where
  st : St := {}
  nextIndex : Nat := 0
  deriving Repr

def latestIdx (s : St) : Option Nat := s.rows.foldl (fun best r => match best with
  | none => some r.idx
  | some b => if r.idx > b then some r.idx else some b) none

/-- downloader (re)start: `nextL1InfoTreeIndex` -/
def startFEP (s : St) : FSt :=
  { st := { s with from_ := lpb s + 1 },
    nextIndex := match latestIdx s with | some i => if i > 0 then i + 1 else 0 | none => 0 }

def pollFEP (leaves : List (Nat × Nat)) (injected : Nat → Bool) (f : FSt) (tip : Nat) : FSt :=
  if tip ≤ f.st.from_ then f else          -- WaitForNewBlocks(ctx, fromBlock) needs a strictly greater tip
  let cands := leaves.filter (fun l => decide (l.1 ≥ f.nextIndex) && injected l.2)
  let ev := cands.getLast?.map (fun l => GEv.insert l.2 l.1)
  let s' := (processBlock f.st tip ev).1
  { f with st := { s' with from_ := tip } }

end Aggkit.LastGER
