import AggkitModel.Model.Hash
/-
Specification-level Merkle trees: leaves are a total function `Nat → α` (zero outside the
written positions), `sub f h b` is the root of the height-`h` subtree whose left-most leaf is `b`.
-/
namespace Aggkit
variable {α : Type}

def sub (H : HashAlg α) (f : Nat → α) : Nat → Nat → α
  | 0, b => f b
  | h+1, b => H.node (sub H f h b) (sub H f h (b + 2^h))

/-- leaves given as a list, zero beyond its length -/
def leafFn (H : HashAlg α) (ls : List α) : Nat → α := fun i => ls.getD i H.zero

/-- root of the height-`n` tree holding `ls` -/
def specRoot (H : HashAlg α) (n : Nat) (ls : List α) : α := sub H (leafFn H ls) n 0

/-- the sibling of position `i`'s ancestor at level `h` -/
def specSibling (H : HashAlg α) (f : Nat → α) (i h : Nat) : α :=
  if (i / 2^h) % 2 = 1 then sub H f h ((i / 2^h - 1) * 2^h) else sub H f h ((i / 2^h + 1) * 2^h)

/-- `tree.CalculateRoot`: fold the proof (levels 0..) over the leaf, starting at level `h` -/
def calcRootAux (H : HashAlg α) (idx : Nat) : (proof : List α) → (h : Nat) → (cur : α) → α
  | [], _, cur => cur
  | s :: rest, h, cur =>
    if (idx >>> h) &&& 1 = 1 then calcRootAux H idx rest (h+1) (H.node s cur)
    else calcRootAux H idx rest (h+1) (H.node cur s)

def calcRoot (H : HashAlg α) (leaf : α) (proof : List α) (idx : Nat) : α := calcRootAux H idx proof 0 leaf

/-- point update of a leaf function -/
def updateFn (f : Nat → α) (i : Nat) (v : α) : Nat → α := fun j => if j = i then v else f j

end Aggkit
