import AggkitModel.Model.Bytes
/-
C19 — global index encode / decode and its consumers.
Mirrors bridgesync.GenerateGlobalIndex / DecodeGlobalIndex (bridgesync/processor.go),
GlobalIndex.Hash input and GlobalIndexToLittleEndianBytes (agglayer/types/types.go),
the wire/prover FixedBytes32 (common.BigToHash), and optimistichash (raw claim index, LE).
-/
namespace Aggkit.GlobalIndex

/-- `GenerateGlobalIndex(mainnetFlag, rollupIndex, localExitRootIndex)`; arguments are uint32 -/
def generateBytes (m : Bool) (r l : Nat) : Bytes :=
  (if m then beBytes 1 ++ fillBE 4 0 else fillBE 4 r) ++ fillBE 4 l

def generate (m : Bool) (r l : Nat) : Nat := ofBE (generateBytes m r l)

/-- `DecodeGlobalIndex`; `none` = the Go code panics (BytesToUint32 on > 4 bytes) -/
def decode (x : Nat) : Option (Bool × Nat × Nat) :=
  let bs := beBytes x
  let l := bs.length
  if l = 0 then some (false, 0, 0) else
  let mainnet := decide (l = 9)
  let lerFrom := l - 4            -- max(l-4, 0) in Go ints = truncated subtraction
  let riFrom := lerFrom - 4
  match bytesToU32 ((bs.drop riFrom).take (lerFrom - riFrom)), bytesToU32 (bs.drop lerFrom) with
  | some r, some le => some (mainnet, r, le)
  | _, _ => none

/-- the four consumers of a claim's global index, as byte strings -/
structure Consumers where
  certField   : Bool × Nat × Nat      -- (mainnet_flag, rollup_index, leaf_index) in the certificate
  hashInput   : Bytes                 -- input of GlobalIndex.Hash (32 bytes LE)
  fepChunk    : Bytes                 -- GlobalIndexToLittleEndianBytes (32 bytes LE)
  wire        : Bytes                 -- FixedBytes32 on the gRPC wire (32 bytes BE)
  prover      : Bytes                 -- FixedBytes32 in the aggchain prover request (32 bytes BE)
  optInput    : Bytes                 -- the optimistic-mode signed commitment's chunk prefix (32 bytes LE of the claim's own value)
  deriving Repr, DecidableEq

/-- what the code computes for a claim whose on-chain global index is `x` -/
def consumers (x : Nat) : Option Consumers :=
  match decode x with
  | none => none
  | some (m, r, l) =>
    let g := generate m r l
    some { certField := (m, r, l), hashInput := bigToLE32 g, fepChunk := bigToLE32 g,
           wire := bigToHash g, prover := bigToHash g,
           optInput := bigToLE32 x }     -- optimistichash uses `claim.GlobalIndex` as stored, without decoding it

/-- canonical on-chain values: what the bridge contract can emit
    (`globalIndex = mainnetFlag·2^64 + rollupIndex·2^32 + leafIndex`, rollupIndex = 0 when mainnet) -/
def Canonical (x : Nat) : Prop := x < 2^64 ∨ (2^64 ≤ x ∧ x < 2^64 + 2^32)

end Aggkit.GlobalIndex
