/-
Hand-written prelude for the regenerated definitions (AggkitModel/Generated/*.lean):
Go integer operators with their wrap-around, and the Go struct types the translated functions use.
-/
namespace Aggkit.GenPrelude

def add64 (a b : Nat) : Nat := (a + b) % 2^64
def sub64 (a b : Nat) : Nat := (a + 2^64 - b % 2^64) % 2^64
def mul64 (a b : Nat) : Nat := (a * b) % 2^64

structure BlockRange where
  FromBlock : Nat := 0
  ToBlock : Nat := 0
  deriving Repr, DecidableEq

structure MaxL2BlockNumberLimiter where
  maxL2BlockNumber : Nat := 0
  allowToResizeRetryCert : Bool := false
  requireOneBridgeInCertificate : Bool := false
  deriving Repr

structure ConfigEpochNotifierPerBlock where
  StartingEpochBlock : Nat := 0
  NumBlockPerEpoch : Nat := 0
  EpochNotificationPercentage : Nat := 0
  deriving Repr

structure EpochNotifierPerBlock where
  Config : ConfigEpochNotifierPerBlock := {}
  deriving Repr

/-- the fields of a certificate header that the start-up reconciliation reads (`agglayertypes.CertificateHeader` and the
    node's own `types.CertificateHeader` both have them); `Status` = the iota value of the status constant -/
structure CertHdr where
  Height : Nat := 0
  Status : Nat := 0
  CertificateID : Nat := 0
  deriving Repr, DecidableEq

/-- `initialStatus` (aggsender/statuschecker/initial_state.go): a pointer to a record is an `Option` -/
structure initialStatus where
  SettledCert : Option CertHdr := none
  PendingCert : Option CertHdr := none
  LocalCert : Option CertHdr := none
  deriving Repr, DecidableEq

/-- the fields of the node's own certificate record (`types.CertificateHeader`) that decide where the next certificate starts -/
structure SentHdr where
  ToBlock : Nat := 0
  FromBlock : Nat := 0
  Status : Nat := 0
  RetryCount : Nat := 0
  deriving Repr, DecidableEq

/-- `baseFlow` as far as `getLastSentBlockAndRetryCount` reads it: `StartL2Block()` is `cfg.StartL2Block` -/
structure baseFlow where
  StartL2Block : Nat := 0
  deriving Repr, DecidableEq

/-- the fields of the node's certificate record that `getNextHeightAndPreviousLER` reads (exit roots as opaque values) -/
structure FullHdr where
  Height : Nat := 0
  Status : Nat := 0
  NewLocalExitRoot : Nat := 0
  PreviousLocalExitRoot : Option Nat := none
  deriving Repr, DecidableEq

/-- the environment of `getNextHeightAndPreviousLER`: the start exit root (`getStartLER`) and the record stored at a height
    (`storage.GetCertificateHeaderByHeight`); `none` = the call returned an error -/
structure baseFlowEnv where
  getStartLER : Option Nat
  headerByHeight : Nat → Option (Option FullHdr)

/-- what `process` returns: `(&initialStatusResult{action, cert}, nil)` or `(nil, err)` -/
inductive Ret where
  | result (action : Nat) (cert : Option CertHdr)
  | error
  deriving Repr, DecidableEq

end Aggkit.GenPrelude
