import AggkitModel.Model.TreeMachine
import AggkitModel.Model.Bytes
/-
The L1 info tree syncer's store (l1infotreesync/processor.go, processor_verifybatches.go,
processor_initl1inforootmap.go): block / l1info_leaf / verify_batches / l1info_initial tables, the
append-only L1 info tree and the updatable rollup exit tree (separate table prefixes), the halted flag.
-/
namespace Aggkit.L1InfoStore
open Aggkit

/-- `L1InfoTreeLeaf.GetHash` preimage: ger(32) ‖ previousBlockHash(32) ‖ timestamp(8, big-endian);
    the global-exit-root contract computes keccak256(abi.encodePacked(ger, blockhash(n-1), uint64(timestamp))). -/
def leafPreimage (ger prevHash : Bytes) (timestamp : Nat) : Bytes := ger ++ prevHash ++ fillBE 8 timestamp

structure LeafRow (α : Type) where
  blockNum : Nat
  pos : Nat
  index : Nat          -- column `position`
  ger : α              -- UNIQUE
  rer : α
  hash : α
  payload : String     -- remaining stored fields
  deriving Repr

structure VBRow (α : Type) where
  blockNum : Nat
  pos : Nat
  rollupID : Nat
  exitRoot : α
  rollupExitRoot : α   -- root recorded for this update
  payload : String
  deriving Repr

inductive Ev (α : Type) where
  | info (pos : Nat) (ger rer hash : α) (payload : String)              -- UpdateL1InfoTree
  | v2 (root : α) (leafCount : Nat)                                      -- UpdateL1InfoTreeV2
  | verify (pos rollupID : Nat) (exitRoot : α) (isZero : Bool) (payload : String)   -- VerifyBatches
  | init (leafCount : Nat) (root : α)                                    -- InitL1InfoRootMap

structure Block (α : Type) where
  num : Nat
  events : List (Ev α)

/-- the persistent part (one SQLite file) -/
structure Tables (α : Type) where
  info : TreeDb α := {}        -- l1_info_ root / rht
  rollup : TreeDb α := {}      -- rollup_exit_ root / rht
  blocks : List Nat := []
  leaves : List (LeafRow α) := []
  vbs : List (VBRow α) := []
  initial : Option (Nat × Nat × α) := none   -- (block_num, leaf_count, root); single row

structure LP (α : Type) where
  t : AOT α                    -- in-memory L1 info tree object
  tb : Tables α := {}
  halted : Bool := false

inductive Res where
  | ok | inconsistent | constraint | fault | other
  deriving Repr, DecidableEq

variable {α : Type} [DecidableEq α]

def LP.init (H : HashAlg α) (n : Nat) : LP α := { t := AOT.new H n }

structure Work (α : Type) where
  t : AOT α
  tb : Tables α
  cbs : Nat        -- rollback callbacks registered by AddLeaf
  added : Nat      -- l1InfoLeavesAdded

/-- row (block_num, block_pos) ordering used by the `ORDER BY block_num DESC, block_pos DESC LIMIT 1` lookups -/
def laterThan (b1 p1 b2 p2 : Nat) : Bool := b1 > b2 || (b1 == b2 && p1 > p2)

def lastLeaf (ls : List (LeafRow α)) : Option (LeafRow α) :=
  ls.foldl (fun best r => match best with
    | none => some r
    | some b => if laterThan r.blockNum r.pos b.blockNum b.pos then some r else some b) none

/-- `uint32(RollupID - 1)` -/
def rollupIdx (rollupID : Nat) : Nat := (rollupID + 2^32 - 1) % 2^32

/-- `isNewValueForRollupExitTree` -/
def isNewValue (n : Nat) (rdb : TreeDb α) (idx : Nat) (exitRoot : α) : Bool :=
  match getLastRoot rdb with
  | none => true
  | some cur => match getLeaf n rdb idx cur.hash with
    | .error _ => true
    | .ok leaf => decide (leaf ≠ exitRoot)

/-- the UpsertLeaf + verify_batches insert of an effective batch verification -/
def procUpsert (H : HashAlg α) (n : Nat) (bn : Nat) (w : Work α) (pos rollupID : Nat) (exitRoot : α) (payload : String) :
    Work α × Bool × Option Res :=
  match upsertLeaf H n w.tb.rollup bn pos (rollupIdx rollupID) exitRoot with
  | .error .constraint => (w, false, some .constraint)
  | .error _ => (w, false, some .other)
  | .ok (newRoot, rdb') =>
    if w.tb.vbs.any (fun r => r.blockNum = bn ∧ r.pos = pos) then ({ w with tb := { w.tb with rollup := rdb' } }, false, some .constraint)
    else
      let row : VBRow α := { blockNum := bn, pos := pos, rollupID := rollupID, exitRoot := exitRoot, rollupExitRoot := newRoot, payload := payload }
      ({ w with tb := { w.tb with rollup := rdb', vbs := w.tb.vbs ++ [row] } }, false, none)

/-- one event of `ProcessBlock`: new work state, whether to halt, error -/
def procEvent (H : HashAlg α) (n : Nat) (bn initialIndex : Nat) (w : Work α) : Ev α → Work α × Bool × Option Res
  | .info pos ger rer hash payload =>
    let index := initialIndex + w.added
    -- INSERT INTO l1info_leaf: PRIMARY KEY (block_num, block_pos), UNIQUE global_exit_root
    if w.tb.leaves.any (fun r => (r.blockNum = bn ∧ r.pos = pos) ∨ r.ger = ger) then (w, false, some .constraint)
    else
      let row : LeafRow α := { blockNum := bn, pos := pos, index := index, ger := ger, rer := rer, hash := hash, payload := payload }
      let tb1 := { w.tb with leaves := w.tb.leaves ++ [row] }
      match addLeaf H n w.t tb1.info bn pos index hash with
      | (t', .error .constraint) => ({ w with t := t', tb := tb1 }, false, some .constraint)
      | (t', .error _) => ({ w with t := t', tb := tb1 }, false, some .other)
      | (t', .ok info') => ({ w with t := t', tb := { tb1 with info := info' }, cbs := w.cbs + 1, added := w.added + 1 }, false, none)
  | .v2 root leafCount =>
    match getLastRoot w.tb.info with
    | none => (w, false, some .other)                       -- "GetLastRoot()" error, not an inconsistency
    | some r =>
      if r.hash ≠ root ∨ r.index + 1 ≠ leafCount then (w, true, some .inconsistent) else (w, false, none)
  | .verify pos rollupID exitRoot isZero payload =>
    if isZero then (w, false, none)
    else if !isNewValue n w.tb.rollup (rollupIdx rollupID) exitRoot then (w, false, none)
    else procUpsert H n bn w pos rollupID exitRoot payload
  | .init leafCount root =>
    match w.tb.initial with
    | some _ => (w, false, some .constraint)                -- PRIMARY KEY (single_row_id)
    | none => ({ w with tb := { w.tb with initial := some (bn, leafCount, root) } }, false, none)

def procEvents (H : HashAlg α) (n : Nat) (bn initialIndex : Nat) : Work α → List (Ev α) → Work α × Bool × Option Res
  | w, [] => (w, false, none)
  | w, e :: es =>
    match procEvent H n bn initialIndex w e with
    | (w', _, none) => procEvents H n bn initialIndex w' es
    | r => r

/-- in-memory tree object after the deferred rollback: any AddLeaf of the transaction invalidates the cache -/
def afterRollback (t : AOT α) (cbs : Nat) : AOT α := if cbs > 0 then { t with lastIndex := -2 } else t

/-- `ProcessBlock` (fault-free statements; storage faults are injected at the tree level and in the bridge store) -/
def processBlock (H : HashAlg α) (n : Nat) (s : LP α) (b : Block α) : LP α × Res :=
  if s.halted then (s, .inconsistent)
  else if s.tb.blocks.contains b.num then (s, .constraint)
  else
    let tb0 := { s.tb with blocks := s.tb.blocks ++ [b.num] }
    let initialIndex := match lastLeaf s.tb.leaves with | none => 0 | some r => r.index + 1
    match procEvents H n b.num initialIndex { t := s.t, tb := tb0, cbs := 0, added := 0 } b.events with
    | (w, halt, some e) => ({ s with t := afterRollback w.t w.cbs, halted := halt }, e)
    | (w, _, none) => ({ s with t := w.t, tb := w.tb }, .ok)

/-- `ProcessBlock` during which a storage statement fails (whichever one: block row, leaf / batch rows, tree roots and
    nodes): the deferred rollback undoes the transaction, so the tables are exactly as before and the processor is not
    halted by it. (Whether the in-memory frontier was invalidated depends on the statement; it is reloaded from the
    unchanged tables either way.) -/
def processBlockF (_H : HashAlg α) (_n : Nat) (s : LP α) (_b : Block α) : LP α × Res :=
  if s.halted then (s, .inconsistent) else (s, .fault)

/-- `Reorg` -/
def reorg (s : LP α) (first : Nat) : LP α :=
  let affected := (s.tb.blocks.filter (fun b => b ≥ first)).length
  { s with
    tb := { s.tb with
      blocks := s.tb.blocks.filter (fun b => b < first),
      leaves := s.tb.leaves.filter (fun r => r.blockNum < first),
      vbs := s.tb.vbs.filter (fun r => r.blockNum < first),
      initial := match s.tb.initial with | some (bn, c, r) => if bn < first then some (bn, c, r) else none | none => none,
      info := s.tb.info.reorg first,
      rollup := s.tb.rollup.reorg first },
    halted := if affected > 0 then false else s.halted }

/-- `Reorg` with a storage fault on the first row of one of its three deletes (`0` block rows, `1` L1 info tree roots,
    `2` rollup exit tree roots): the fault only exists if such a row exists; the transaction is rolled back, nothing changes
    and the error is reported (`true`) -/
def reorgFault (s : LP α) (first : Nat) (tbl : Nat) : LP α × Bool :=
  let hits := match tbl with
    | 0 => s.tb.blocks.any (fun b => decide (b ≥ first))
    | 1 => s.tb.info.roots.any (fun r => decide (r.blockNum ≥ first))
    | _ => s.tb.rollup.roots.any (fun r => decide (r.blockNum ≥ first))
  if hits then (s, true) else (reorg s first, false)

def restart (H : HashAlg α) (n : Nat) (s : LP α) : LP α := { s with t := AOT.new H n, halted := false }

def lastProcessedBlock (s : LP α) : Nat := s.tb.blocks.foldl max 0

end Aggkit.L1InfoStore
