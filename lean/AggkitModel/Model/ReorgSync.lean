/-
C06 — reorg detection and rewinding: reorgdetector (AddBlockToTrack, detectReorgInTrackedList, removal of finalized and
of reorged tracked blocks, reload at start) and sync/evmdriver.go (handleNewBlock: track a non-finalized block, then
process it; handleReorg: rewind the store, then resume from the last stored block + 1), per subscriber.
A block is a pair (number, version): the version stands for the block hash (a replaced block gets a new version).
Version 0 stands for a block WITHOUT events of interest: the downloader does not deliver such a block, so the syncer
neither stores nor tracks it and the tracked list is sparse (the normal situation on L1). Which event-less block a fork
puts in the place of another is invisible to the syncer, so they all share version 0.
Sequential schedule: an operation completes before the next one starts (the window between the driver's
acknowledgement and the detector's removal of the tracked range is the subject of known finding F5, not of this model).
-/
namespace Aggkit.ReorgSync

abbrev Blk := Nat × Nat

structure Sub where
  store : List Blk := []      -- blocks in the syncer's store (the delivered ones), ascending by number
  tracked : List Blk := []    -- the detector's tracked headers of this subscriber (in memory), ascending by number
  db : List Blk := []         -- the rows of table `tracked_block` of this subscriber, in insertion order
  deriving Repr, DecidableEq

structure Sys where
  chain : List Nat := []      -- version of block i+1 on the canonical chain
  fin : Nat := 0              -- finalized block number
  maxV : Nat := 0             -- the largest version handed out so far (hashes do not repeat: versions are fresh)
  a : Sub := {}
  b : Sub := {}
  deriving Repr, DecidableEq

/-- the chain's version of block `n` (`none`: the chain has no such block — `HeaderByNumber` fails) -/
def canon (chain : List Nat) (n : Nat) : Option Nat := if n = 0 then none else chain[n - 1]?

def lastNum (l : List Blk) : Nat :=
  match l.getLast? with
  | some b => b.1
  | none => 0

/-- `AddBlockToTrack`: nothing if the same header is already tracked, else (re)place the entry of that number -/
def trackAdd (tracked : List Blk) (b : Blk) : List Blk :=
  if b ∈ tracked then tracked
  else tracked.filter (fun t => decide (t.1 < b.1)) ++ [b] ++ tracked.filter (fun t => decide (b.1 < t.1))

/-- the first block with events in `l`, whose head is block number `n` -/
def findFrom : List Nat → Nat → Option Blk
  | [], _ => none
  | v :: rest, n => if v = 0 then findFrom rest (n + 1) else some (n, v)

/-- the next block the downloader delivers when asked to start from block `n` (≥ 1): the first one with events -/
def nextDeliv (chain : List Nat) (n : Nat) : Option Blk := findFrom (chain.drop (n - 1)) n

/-- the driver receives the next block (with events) the chain has at this moment after the last one it stored, and
    handles it (`handleNewBlock`) -/
def stepOnce (chain : List Nat) (fin : Nat) (s : Sub) : Option Sub :=
  match nextDeliv chain (lastNum s.store + 1) with
  | none => none
  | some b => some { store := s.store ++ [b], tracked := if b.1 ≤ fin then s.tracked else trackAdd s.tracked b,
                     -- `saveTrackedBlock`: a row is inserted whenever the in-memory entry is (re)placed
                     db := if b.1 ≤ fin then s.db else if b ∈ s.tracked then s.db else s.db ++ [b] }

def stepN (chain : List Nat) (fin : Nat) : Nat → Sub → Sub
  | 0, s => s
  | k+1, s => match stepOnce chain fin s with
    | none => s
    | some s' => stepN chain fin k s'

inductive DetectOut where
  | none                -- nothing to do
  | rewind (n : Nat)    -- the subscriber was told to rewind to `n` and did
  | err                 -- a header could not be fetched; the pass for this subscriber stopped there
  deriving Repr, DecidableEq

/-- one pass of `detectReorgInTrackedList` for one subscriber, over its tracked headers in ascending order -/
def detectLoop (chain : List Nat) (fin : Nat) : List Blk → Sub → Sub × DetectOut
  | [], s => (s, .none)
  | t :: rest, s =>
    match canon chain t.1 with
    | none => (s, .err)
    | some v =>
      if v = t.2 then
        let s := if t.1 ≤ fin then { s with tracked := s.tracked.filter (fun x => decide (x.1 ≠ t.1)),
                                            db := s.db.filter (fun x => decide (x.1 ≠ t.1)) } else s
        detectLoop chain fin rest s
      else
        -- `removeTrackedBlockRange(from, to)`: `to` is the last number of the snapshot the pass iterates over
        ({ store := s.store.filter (fun x => decide (x.1 < t.1)), tracked := s.tracked.filter (fun x => decide (x.1 < t.1)),
           db := s.db.filter (fun x => decide (x.1 < t.1 ∨ lastNum (t :: rest) < x.1)) },
         .rewind t.1)

def detectSub (chain : List Nat) (fin : Nat) (s : Sub) : Sub × DetectOut := detectLoop chain fin s.tracked s

/-- a detection pass during which the node is stopped while the syncer is rewinding (the rewind is not committed, the
    detector has not yet dropped the tracked range): only the removals of finalized entries made so far persist -/
def detectLoopCrash (chain : List Nat) (fin : Nat) : List Blk → Sub → Sub
  | [], s => s
  | t :: rest, s =>
    match canon chain t.1 with
    | none => s
    | some v =>
      if v = t.2 then
        let s := if t.1 ≤ fin then { s with tracked := s.tracked.filter (fun x => decide (x.1 ≠ t.1)),
                                            db := s.db.filter (fun x => decide (x.1 ≠ t.1)) } else s
        detectLoopCrash chain fin rest s
      else s

/-- `getTrackedBlocks` + `newHeadersList`: the rows are put into a map keyed by block number one after the other (a later
    row of the same number replaces an earlier one); the result is read in ascending order. The order in which the query
    returns the rows of one subscriber is not specified (`ORDER BY subscriber_id` only). -/
def reload (rows : List Blk) : List Blk := rows.foldl trackAdd []

/-- a restart of the node: the in-memory tracked list is rebuilt from the table -/
def restartSub (s : Sub) : Sub := { s with tracked := reload s.db }

def detectCrashSub (chain : List Nat) (fin : Nat) (s : Sub) : Sub := restartSub (detectLoopCrash chain fin s.tracked s)

inductive Op where
  | blk (ver : Nat)         -- the chain grows by one block (version 0: no events; otherwise its version is fresh)
  | reorg (k : Nat)         -- blocks k.. leave the chain
  | fin (f : Nat)
  | stepA (n : Nat)
  | stepB (n : Nat)
  | detect
  | detectCrash     -- a detection pass interrupted by a stop of the node while a syncer rewinds; then a restart
  | restart
  deriving Repr, DecidableEq

def step (s : Sys) : Op → Sys
  | .blk v => { s with chain := s.chain ++ [v], maxV := max s.maxV v }
  | .reorg k => { s with chain := s.chain.take (k - 1) }
  | .fin f => { s with fin := f }
  | .stepA n => { s with a := stepN s.chain s.fin n s.a }
  | .stepB n => { s with b := stepN s.chain s.fin n s.b }
  | .detect => { s with a := (detectSub s.chain s.fin s.a).1, b := (detectSub s.chain s.fin s.b).1 }
  | .detectCrash => { s with a := detectCrashSub s.chain s.fin s.a, b := detectCrashSub s.chain s.fin s.b }
  | .restart => { s with a := restartSub s.a, b := restartSub s.b }

def run (s : Sys) (ops : List Op) : Sys := ops.foldl step s

/-! ### F5: the window between the driver's acknowledgement and the detector's removal of the tracked range

`detectReorgInTrackedList` notifies the subscriber, waits for its acknowledgement (the driver has rewound its store and
resumes at once) and only THEN removes the tracked headers `[from, to]` (`to` = the highest tracked number when the pass
took its snapshot). The sequential model above performs the two halves as one step; here they are separate, so that driver
steps can fall in between. -/

/-- first half: up to and including the notification and the driver's rewind; returns the range still to be removed -/
def detectNotifyLoop (chain : List Nat) (fin : Nat) (to : Nat) : List Blk → Sub → Sub × Option (Nat × Nat)
  | [], s => (s, none)
  | t :: rest, s =>
    match canon chain t.1 with
    | none => (s, none)
    | some v =>
      if v = t.2 then
        let s := if t.1 ≤ fin then { s with tracked := s.tracked.filter (fun x => decide (x.1 ≠ t.1)),
                                            db := s.db.filter (fun x => decide (x.1 ≠ t.1)) } else s
        detectNotifyLoop chain fin to rest s
      else
        ({ s with store := s.store.filter (fun x => decide (x.1 < t.1)) }, some (t.1, to))

def detectNotify (chain : List Nat) (fin : Nat) (s : Sub) : Sub × Option (Nat × Nat) :=
  detectNotifyLoop chain fin (lastNum s.tracked) s.tracked s

/-- second half: `removeTrackedBlockRange(from, to)` + `hdrs.removeRange(from, to)` -/
def detectFinish (s : Sub) : Option (Nat × Nat) → Sub
  | none => s
  | some (f, t) => { s with tracked := s.tracked.filter (fun x => decide (x.1 < f ∨ t < x.1)),
                            db := s.db.filter (fun x => decide (x.1 < f ∨ t < x.1)) }


end Aggkit.ReorgSync
