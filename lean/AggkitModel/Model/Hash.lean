/-
Abstract hash algebra. Theorems hold for every `HashAlg`; where a property needs
collision-freedom it takes `H.Inj` as an explicit hypothesis (false for real Keccak by counting,
the usual idealisation; satisfiable — see `TermHash` in Proofs/Merkle.lean).
-/
namespace Aggkit

structure HashAlg (α : Type) where
  node : α → α → α     -- keccak(l ‖ r)
  zero : α             -- 32 zero bytes

variable {α : Type}

/-- `generateZeroHashes` -/
def zeroH (H : HashAlg α) : Nat → α
  | 0 => H.zero
  | h+1 => H.node (zeroH H h) (zeroH H h)

def HashAlg.Inj (H : HashAlg α) : Prop :=
  ∀ a b c d, H.node a b = H.node c d → a = c ∧ b = d

end Aggkit
