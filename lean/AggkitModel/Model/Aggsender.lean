import AggkitModel.Model.CertRange
/-
C02 / C13 — the certificate protocol: the AggSender loop (aggsender/aggsender.go sendCertificates / sendCertificate),
the PP flow (aggsender/flows/flow_pp.go, flow_base.go: getLastSentBlockAndRetryCount, GetCertificateBuildParamsInternal,
limitCertSize, verifyRetryCertStartingBlock, getNextHeightAndPreviousLER, getNewLocalExitRoot), the status checker
(aggsender/statuschecker: CheckPendingCertificatesStatus, updateCertificateStatus, initialStatus.process,
newCertificateInfoFromAgglayerCertHeader), the storage (aggsender/db: SaveLastSentCertificate = replace at height,
UpdateCertificateStatus by id, "last" = highest height) — against a model Agglayer that records submissions, moves
statuses, and answers the three header queries.

Exit roots are represented by the number of leaves of the L2 exit tree they commit to (the L2 exit tree is append-only and
the scenario has no L2 reorg; the correspondence check maps each real root back to its leaf count through an
independently computed table and reports any root outside it).
-/
namespace Aggkit.Aggsender
open Aggkit.CertRange

inductive St where
  | pending | proven | candidate | inError | settled
  deriving DecidableEq, Repr, Inhabited

def St.isOpen : St → Bool
  | .pending | .proven | .candidate => true
  | _ => false
def St.isClosed (s : St) : Bool := !s.isOpen

/-- an L2 block as the bridge syncer stored it: bridges carry their deposit count in `Ev.id` -/
structure L2Blk where
  num : Nat
  bridges : List Ev
  claims : List Ev
  deriving Repr, DecidableEq

/-- a certificate as the Agglayer received it (block range = decoded metadata; exit roots = leaf counts) -/
structure ACert where
  id : Nat
  height : Nat
  from_ : Nat
  to_ : Nat
  prev : Nat
  new : Nat
  bridges : List Ev
  claims : List Ev
  status : St
  opt : Bool := false        -- certificate type in the metadata: optimistic (aggchain-prover flow in optimistic mode)
  deriving Repr, DecidableEq

/-- a row of `certificate_info` -/
structure Row where
  height : Nat
  id : Nat
  status : St
  from_ : Nat
  to_ : Nat
  retry : Nat
  prev : Option Nat
  new : Nat
  hasProof : Bool := false   -- an aggchain proof is stored with the record (aggchain-prover flow, locally built records)
  opt : Bool := false        -- `cert_type` = optimistic
  deriving Repr, DecidableEq

/-- what the next call to the aggchain prover does: proves the requested range minus `cut` blocks, fails, or has no proof yet -/
inductive Prover where
  | ok (cut : Nat)
  | fail
  | notYet
  deriving Repr, DecidableEq

structure Cfg where
  retry : Bool := false       -- RetryCertAfterInError
  start : Nat := 0            -- StartL2Block
  maxSize : Nat := 0          -- MaxCertSize (0 = no limit)
  omitPrev : Bool := false    -- the Agglayer's headers carry no previous local exit root
  fep : Bool := false         -- aggchain-prover flow (flow_aggchain_prover.go) instead of the PP flow
  deriving Repr, DecidableEq

structure Sys where
  cfg : Cfg := {}
  l2 : List L2Blk := []       -- ascending block numbers
  agg : List ACert := []      -- submission order; `id = index + 1`
  loc : List Row := []        -- ascending height, one row per height
  up : Bool := false          -- the node process is running and has passed its start-up reconciliation
  failHdr : Bool := false     -- next GetCertificateHeader fails
  failSub : Bool := false     -- next SubmitCertificate fails (and is not applied)
  failRec : Bool := false     -- next GetLatest…CertificateHeader fails
  prover : Prover := .ok 0    -- behaviour of the next prover call
  optOn : Bool := false       -- what `IsOptimisticModeOn` answers (the rollup contract's flag)
  deriving Repr

/-! ### storage -/

def lastRow (loc : List Row) : Option Row := loc.getLast?

def rowAt (loc : List Row) (h : Nat) : Option Row := loc.find? (·.height = h)

/-- `SaveLastSentCertificate`: move/delete the row at that height, insert (rows stay ordered by height) -/
def saveRow (loc : List Row) (r : Row) : List Row :=
  loc.filter (·.height < r.height) ++ [r] ++ loc.filter (fun x => decide (r.height < x.height))

/-- `UpdateCertificateStatus … WHERE certificate_id = ?` -/
def setStatus (loc : List Row) (id : Nat) (st : St) : List Row :=
  loc.map (fun r => if r.id = id then { r with status := st } else r)

/-! ### the Agglayer -/

def certById (agg : List ACert) (id : Nat) : Option ACert :=
  if id = 0 then none else agg[id - 1]?

def lastSettled (agg : List ACert) : Option ACert := (agg.filter (·.status = .settled)).getLast?

/-- latest pending header: the most recent submission unless it is settled -/
def lastPending (agg : List ACert) : Option ACert :=
  match agg.getLast? with
  | some c => if c.status = .settled then none else some c
  | none => none

/-- the Agglayer moves a certificate; closed certificates never change -/
def moveCert (agg : List ACert) (id : Nat) (st : St) : List ACert :=
  agg.map (fun c => if c.id = id ∧ c.status.isOpen then { c with status := st } else c)

/-! ### L2 data -/

def lastProcessed (l2 : List L2Blk) : Nat :=
  match l2.getLast? with
  | some b => b.num
  | none => 0

def bridgesIn (l2 : List L2Blk) (f t : Nat) : List Ev :=
  (l2.filter (fun b => decide (f ≤ b.num) && decide (b.num ≤ t))).flatMap (·.bridges)
def claimsIn (l2 : List L2Blk) (f t : Nat) : List Ev :=
  (l2.filter (fun b => decide (f ≤ b.num) && decide (b.num ≤ t))).flatMap (·.claims)

/-! ### building a certificate -/

/-- `getLastSentBlockAndRetryCount` -/
def lastSentBlockAndRetry (start : Nat) : Option Row → Nat × Nat
  | none => (start, 0)
  | some r =>
    if r.status = .inError then ((if r.from_ > 0 then r.from_ - 1 else r.to_), r.retry + 1)
    else (r.to_, 0)

/-- `getNextHeightAndPreviousLER` (`none` = error) -/
def nextHeightPrev (loc : List Row) : Option Row → Option (Nat × Nat)
  | none => some (0, 0)
  | some r =>
    if r.status.isOpen then none
    else if r.status = .settled then some (r.height + 1, r.new)
    else match r.prev with
      | some p => some (r.height, p)
      | none =>
        if r.height = 0 then some (0, 0)
        else match rowAt loc (r.height - 1) with
          | none => none
          | some q => if q.status = .settled then some (r.height, q.new) else none

/-- `getNewLocalExitRoot`: no bridges ⇒ the previous root, else the root at the last bridge's deposit count -/
def newLER (prev : Nat) (bridges : List Ev) : Nat :=
  match bridges.getLast? with
  | none => prev
  | some b => b.id + 1

inductive Build where
  | none                      -- nothing to send (no error)
  | err                       -- an error is reported
  | cert (c : ACert) (retry : Nat) (toBlock : Nat)   -- `toBlock`: the untruncated last block, as stored locally
  deriving Repr

/-- `PPFlow.GetCertificateBuildParams` + `BuildCertificate` up to the submission (the certificate's `id` and `status`
    are filled in by the Agglayer). `size` is `EstimatedSize` (a parameter, as in `CertRange`). -/
def build (size : Params → Nat) (cfg : Cfg) (l2 : List L2Blk) (loc : List Row) : Build :=
  let last := lastRow loc
  let (prevTo, retry) := lastSentBlockAndRetry cfg.start last
  let lp := lastProcessed l2
  if prevTo ≥ lp then .none
  else
    let f := prevTo + 1
    let full : Params := { from_ := f, to_ := lp, bridges := bridgesIn l2 f lp, claims := claimsIn l2 f lp,
                           retry := decide (retry > 0) && last.isSome }
    match limitCertSize size cfg.maxSize full with
    | Option.none => .err
    | some p =>
      if p.bridges.isEmpty && p.claims.isEmpty then .none
      else if p.retry && decide (some p.from_ ≠ last.map (·.from_)) then .err
      else match nextHeightPrev loc last with
        | Option.none => .err
        | some (h, prev) =>
          .cert { id := 0, height := h, from_ := p.from_, to_ := p.from_ + (p.to_ - p.from_) % 2^32,
                  prev := prev, new := newLER prev p.bridges,
                  bridges := p.bridges, claims := p.claims, status := .pending } retry p.to_

/-! ### the aggchain-prover flow -/

/-- `getLastProvenBlock` -/
def lastProven (start from_ : Nat) (last : Option Row) : Nat :=
  if from_ = 0 then start
  else
    let below := match last with
      | some r => decide (r.to_ < start)
      | none => false
    if below then start else if from_ - 1 < start then start else from_ - 1

/-- `BuildCertificate` of the aggchain-prover flow (empty certificates are allowed) -/
def finishFEP (loc : List Row) (last : Option Row) (p : Params) (retry : Nat) : Build :=
  match nextHeightPrev loc last with
  | Option.none => .err
  | some (h, prev) =>
    .cert { id := 0, height := h, from_ := p.from_, to_ := p.from_ + (p.to_ - p.from_) % 2^32,
            prev := prev, new := newLER prev p.bridges,
            bridges := p.bridges, claims := p.claims, status := .pending } retry p.to_

/-- `verifyBuildParamsAndGenerateProof` + `BuildCertificate`; the prover call consumes the scripted behaviour -/
def proveAndBuild (loc : List Row) (last : Option Row) (p : Params) (retry : Nat) (prover : Prover) (optOn : Bool := false) :
    Build × Prover :=
  if p.retry && decide (some p.from_ ≠ last.map (·.from_)) then (.err, prover)
  -- the optimistic request is signed over the new local exit root, which needs the height and previous root first:
  -- when those cannot be determined the build fails before the prover is asked
  else if optOn && (nextHeightPrev loc last).isNone then (.err, prover)
  else match prover with
    | .fail => (.err, .ok 0)
    | .notYet => (.none, .ok 0)
    | .ok cut =>
      let endB := p.to_ - cut
      let q := if endB = p.to_ then some p else range p p.from_ endB
      match q with
      | Option.none => (.err, .ok 0)
      | some q => (finishFEP loc last q retry, .ok 0)

/-- `AggchainProverFlow.GetCertificateBuildParams` + `BuildCertificate` -/
def buildFEP (size : Params → Nat) (cfg : Cfg) (l2 : List L2Blk) (loc : List Row) (prover : Prover) (optOn : Bool := false) :
    Build × Prover :=
  let last := lastRow loc
  -- "resend the exact same certificate" only when the type to generate now is the type of the one in error
  let retryOf : Option Row := match last with
    | some r => if r.status = .inError ∧ r.opt = optOn then some r else Option.none
    | Option.none => Option.none
  match retryOf with
  | some r =>
    -- the last certificate is in error: the same block range again, with the stored proof if there is one
    let p : Params := { from_ := r.from_, to_ := r.to_, bridges := bridgesIn l2 r.from_ r.to_, claims := claimsIn l2 r.from_ r.to_,
                        fep := true, retry := true }
    if r.hasProof then (finishFEP loc last p (r.retry + 1), prover)
    else proveAndBuild loc last p (r.retry + 1) prover optOn
  | Option.none =>
    let (prevTo, retry) := lastSentBlockAndRetry cfg.start last
    let lp := lastProcessed l2
    if prevTo ≥ lp then (.none, prover)
    else
      let f := prevTo + 1
      let full : Params := { from_ := f, to_ := lp, bridges := bridgesIn l2 f lp, claims := claimsIn l2 f lp, fep := !optOn,   -- `EstimatedSize` counts the proof only for the FEP type
                             retry := decide (retry > 0) && last.isSome }
      match limitCertSize size cfg.maxSize full with
      | Option.none => (.err, prover)
      | some p =>
        let p := { p with from_ := lastProven cfg.start p.from_ last + 1 }
        proveAndBuild loc last p retry prover optOn

def rowOfCert (c : ACert) (retry toBlock : Nat) (hasProof : Bool := false) : Row :=
  { height := c.height, id := c.id, status := .pending, from_ := c.from_, to_ := toBlock, retry := retry,
    prev := some c.prev, new := c.new, hasProof := hasProof, opt := c.opt }

/-- the certificate type goes into the metadata (and from there into the record) -/
def markOpt (optOn : Bool) : Build → Build
  | .cert c r t => .cert { c with opt := optOn } r t
  | b => b

inductive SendOut where
  | none | err
  | sent (c : ACert)
  deriving Repr

/-- `sendCertificate`; with `crash` the process dies between the submission and the local write -/
def buildAny (size : Params → Nat) (s : Sys) : Build × Prover :=
  if s.cfg.fep then
    let r := buildFEP size s.cfg s.l2 s.loc s.prover s.optOn
    (markOpt s.optOn r.1, r.2)
  else (build size s.cfg s.l2 s.loc, s.prover)

/-- the second half of `sendCertificate`: submit what was built, then record it -/
def sendCore (s : Sys) (b : Build) (crash : Bool) : Sys × SendOut :=
  match b with
  | .none => (s, .none)
  | .err => (s, .err)
  | .cert c retry toBlock =>
    if s.failSub then ({ s with failSub := false }, .err)
    else
      let c := { c with id := s.agg.length + 1 }
      let s := { s with agg := s.agg ++ [c] }
      if crash then ({ s with up := false }, .sent c)
      else ({ s with loc := saveRow s.loc (rowOfCert c retry toBlock s.cfg.fep) }, .sent c)

/-- `sendCertificate`; with `crash` the process dies between the submission and the local write -/
def send (size : Params → Nat) (s : Sys) (crash : Bool) : Sys × SendOut :=
  sendCore { s with prover := (buildAny size s).2 } (buildAny size s).1 crash

/-! ### status polling -/

structure Poll where
  pending : Bool
  newInError : Bool
  deriving Repr, DecidableEq

/-- `CheckPendingCertificatesStatus` over the open rows in height order -/
def pollRows (agg : List ACert) : List Row → (loc : List Row) → (failHdr : Bool) → (acc : Poll) → List Row × Bool × Poll
  | [], loc, fh, acc => (loc, fh, acc)
  | r :: rest, loc, fh, acc =>
    if fh then (loc, false, { pending := true, newInError := false })
    else match certById agg r.id with
      | none => (loc, false, { pending := true, newInError := false })
      | some c =>
        let acc := { acc with newInError := acc.newInError || (r.status != .inError && c.status == .inError) }
        let loc := if r.status = c.status then loc else setStatus loc r.id c.status
        let acc := if c.status.isOpen then { acc with pending := true } else acc
        pollRows agg rest loc false acc

def poll (s : Sys) : Sys × Poll :=
  let (loc, fh, p) := pollRows s.agg (s.loc.filter (·.status.isOpen)) s.loc s.failHdr ⟨false, false⟩
  ({ s with loc := loc, failHdr := fh }, p)

/-- one iteration of the loop: the epoch arm or the periodic status arm -/
def tick (size : Params → Nat) (s : Sys) (epoch crash : Bool) : Sys × SendOut :=
  if !s.up then (s, .none)
  else
    let (s, p) := poll s
    let go := if epoch then !p.pending else (!p.pending && p.newInError && s.cfg.retry)
    let (s, o) := if go then send size s crash else (s, .none)
    ({ s with failHdr := false, failSub := false }, o)

/-- an epoch tick during which the read of the node's last certificate fails (a transient storage failure on the one
    `SELECT … ORDER BY height DESC LIMIT 1` the build starts from): the status poll runs as usual; when it leaves the
    way free the build fails at that read, so nothing is submitted and nothing more changes -/
def tickUnreadable (s : Sys) : Sys × SendOut :=
  if !s.up then (s, .none)
  else
    let (s, p) := poll s
    let o : SendOut := if !p.pending then .err else .none
    ({ s with failHdr := false, failSub := false }, o)

/-- an epoch tick during which the nodes of the L1 info tree cannot be read (a transient storage failure on `l1_info_rht`):
    a PP certificate that imports claims needs their L1 info proofs, so its build fails after the build parameters have been
    obtained; a certificate without claims is not affected -/
def tickL1Unreadable (size : Params → Nat) (s : Sys) : Sys × SendOut :=
  if !s.up || s.cfg.fep then (s, .none)   -- (the aggchain-prover flow needs those nodes for every request: not exercised)
  else
    let (s, p) := poll s
    let (s, o) :=
      if !p.pending then
        (match (buildAny size s).1 with
         | .cert c _ _ => if c.claims.isEmpty then send size s false else ({ s with prover := (buildAny size s).2 }, .err)
         | _ => send size s false)
      else (s, .none)
    ({ s with failHdr := false, failSub := false }, o)

/-! ### start-up reconciliation -/

inductive Action where
  | none
  | update (c : ACert)
  | insert (c : ACert)
  deriving Repr

/-- `checkAgglayerConsistenceCerts` (`false` = inconsistent) -/
def agglayerConsistent (settled pending : Option ACert) : Bool :=
  match pending, settled with
  | none, _ => true
  | some p, none => !(p.status != .inError && p.height != 0)
  | some p, some st =>
    !((p.height = st.height ∧ st.status ≠ .inError) ∨ (st.height > p.height ∧ st.status ≠ .inError))

/-- `initialStatus.process` (`none` = refuses) -/
def process (settled pending : Option ACert) (loc : Option Row) : Option Action :=
  if !agglayerConsistent settled pending then none
  else
    let early : Option (Option Action) :=
      match loc, settled, pending with
      | none, none, some p =>
        if p.height = 0 then some (some (.insert p))
        else if p.status != .inError then some none
        else some (some .none)
      | _, _, _ => none
    match early with
    | some r => r
    | none =>
      let last := match pending with
        | some p => some p
        | none => settled
      match loc, last with
      | none, none => some .none
      | none, some c => some (.insert c)
      | some _, none => none
      | some l, some c =>
        if c.height < l.height then none
        else if c.height = l.height + 1 then some (.insert c)
        else if l.id ≠ c.id then
          -- the node was stopped after submitting a replacement for its in-error certificate
          (if l.status = .inError ∧ c.height = l.height then some (.insert c) else none)
        else some (.update c)

/-- `newCertificateInfoFromAgglayerCertHeader` (block range from the metadata) -/
def rowOfHeader (omitPrev : Bool) (c : ACert) (retry : Nat := 0) : Row :=
  { height := c.height, id := c.id, status := c.status, from_ := c.from_, to_ := c.to_, retry := retry,
    prev := if omitPrev then none else some c.prev, new := c.new, opt := c.opt }

/-- `Start` up to the send loop: one pass of `CheckInitialStatus`; on an error the node is not up -/
def restart (s : Sys) : Sys × Bool :=
  if s.up then (s, true)
  else
    let (s, _) := poll s
    let s := { s with failHdr := false }
    if s.failRec then ({ s with failRec := false }, false)
    else
      match process (lastSettled s.agg) (lastPending s.agg) (lastRow s.loc) with
      | none => (s, false)
      | some .none => ({ s with up := true }, true)
      | some (.update c) =>
        let loc := match lastRow s.loc with
          | some l => if l.status = c.status then s.loc else setStatus s.loc l.id c.status
          | none => s.loc
        ({ s with loc := loc, up := true }, true)
      | some (.insert c) =>
        -- a certificate that replaces the node's own record at the same height keeps counting its retries
        let retry := match lastRow s.loc with
          | some l => if l.height = c.height then l.retry + 1 else 0
          | none => 0
        ({ s with loc := saveRow s.loc (rowOfHeader s.cfg.omitPrev c retry), up := true }, true)

/-! ### operations -/

inductive Op where
  | l2blk (b : L2Blk)
  | epoch (crash : Bool)
  | status (crash : Bool)
  | move (id : Nat) (st : St)
  | failHdr | failSub | failRec
  | prover (p : Prover)
  | opt (on : Bool)   -- the rollup contract's optimistic-mode flag changes
  | epochUnreadable   -- an epoch tick while the certificate table cannot be read
  | epochL1Unreadable -- an epoch tick while the nodes of the L1 info tree cannot be read
  | crash
  | losedb
  | restart
  | forge        -- the node's last record is replaced by one of a certificate the Agglayer has never seen (node down)
  deriving Repr

def step (size : Params → Nat) (s : Sys) : Op → Sys
  | .l2blk b => if lastProcessed s.l2 < b.num then { s with l2 := s.l2 ++ [b] } else s
  | .epoch c => (tick size s true c).1
  | .status c => (tick size s false c).1
  | .move id st => { s with agg := moveCert s.agg id st }
  | .failHdr => { s with failHdr := true }
  | .failSub => { s with failSub := true }
  | .failRec => { s with failRec := true }
  | .prover p => { s with prover := p }
  | .opt b => { s with optOn := b }
  | .epochUnreadable => (tickUnreadable s).1
  | .epochL1Unreadable => (tickL1Unreadable size s).1
  | .crash => { s with up := false }
  | .losedb => { s with up := false, loc := [] }
  | .restart => ({ (restart s).1 with failRec := false, failHdr := false })
  | .forge =>
    if s.up then s
    else match s.loc.getLast? with
      | none => s
      | some l => { s with loc := s.loc.dropLast ++ [{ l with id := 9000000 + l.id }] }

def run (size : Params → Nat) (s : Sys) (ops : List Op) : Sys := ops.foldl (step size) s

end Aggkit.Aggsender
