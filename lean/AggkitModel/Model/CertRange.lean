/-
C17 — cutting a certificate's block range: CertificateBuildParams.Range / EstimatedSize
(aggsender/types/certificate_build_params.go), baseFlow.limitCertSize (aggsender/flows/flow_base.go),
MaxL2BlockNumberLimiter.AdaptCertificate (aggsender/flows/max_l2blocknumber_limiter.go).
Block-range arithmetic itself (Gap, CountBlocks, …) is NOT modelled by hand: it is regenerated from the Go
source (Generated/BlockRange.lean, Generated/Limiter.lean).
-/
namespace Aggkit.CertRange

/-- a bridge or claim event, reduced to what range cutting looks at -/
structure Ev where
  block : Nat
  metaLen : Nat
  id : Nat            -- identity, to state "exactly the same events, same order"
  deriving Repr, DecidableEq

structure Params where
  from_ : Nat
  to_ : Nat
  bridges : List Ev
  claims : List Ev
  fep : Bool := false          -- CertificateType == FEP
  retry : Bool := false        -- IsARetry()
  deriving Repr, DecidableEq

def inRange (f t : Nat) (e : Ev) : Bool := decide (f ≤ e.block) && decide (e.block ≤ t)

/-- `CertificateBuildParams.Range` (`none` = error) -/
def range (p : Params) (f t : Nat) : Option Params :=
  if p.from_ = f ∧ p.to_ = t then some p
  else if p.from_ > f ∨ p.to_ < t then none
  else if f > t then none
  else some { p with from_ := f, to_ := t, bridges := p.bridges.filter (inRange f t), claims := p.claims.filter (inRange f t) }

/-- `EstimatedSize`, exact twin in hundredths of a byte (92.16 / 2867.2 / 71.68 / 10240 / 200 per claim), floored -/
def sizeExact (p : Params) : Nat :=
  let b := (p.bridges.map (fun e => 9216 + 100 * e.metaLen)).sum
  let c := (p.claims.map (fun e => 286720 + 100 * e.metaLen)).sum
  let a := if p.fep then 1024000 + 20000 * p.claims.length else 7168
  (b + c + a) / 100

/-- `EstimatedSize`, float twin: the same float64 additions in the same order, then `uint(…)` -/
def sizeFloat (p : Params) : Nat :=
  let b := p.bridges.foldl (fun acc e => (acc + 92.16) + Float.ofNat e.metaLen) 0.0
  let c := p.claims.foldl (fun acc e => (acc + 2867.2) + Float.ofNat e.metaLen) 0.0
  let a := if p.fep then 0.0 + 10240.0 + Float.ofNat (p.claims.length * 200) else 0.0 + 71.68
  (b + c + a).toUInt64.toNat

/-- the `limitCertSize` loop; `size` is a parameter (the theorems hold for any size function) -/
def limitAux (size : Params → Nat) (maxSize : Nat) : Nat → Params → Option Params
  | 0, cur => some cur
  | fuel+1, cur =>
    if maxSize = 0 ∨ size cur ≤ maxSize then some cur
    else if cur.to_ - cur.from_ + 1 ≤ 1 then some cur
    else match range cur cur.from_ (cur.to_ - 1) with
      | none => none
      | some c => limitAux size maxSize fuel c

def limitCertSize (size : Params → Nat) (maxSize : Nat) (p : Params) : Option Params :=
  limitAux size maxSize (p.to_ - p.from_ + 2) p

inductive AdaptErr where
  | retryExceeded | complete | claimsOnly | rangeErr
  deriving Repr, DecidableEq

/-- `MaxL2BlockNumberLimiter.AdaptCertificate` -/
def adapt (maxL2 : Nat) (allowResizeRetry requireOneBridge : Bool) (p : Params) : Except AdaptErr Params :=
  if maxL2 = 0 then .ok p
  else if p.to_ ≤ maxL2 then .ok p
  else if p.retry && !allowResizeRetry then .error .retryExceeded
  else if p.from_ = maxL2 + 1 ∧ p.to_ > maxL2 then .error .complete
  else if p.from_ > maxL2 then .error .complete
  else match range p p.from_ maxL2 with
    | none => .error .rangeErr
    | some q =>
      if !requireOneBridge && q.bridges.isEmpty && q.claims.isEmpty then .ok q
      else if requireOneBridge && q.bridges.isEmpty then
        (if q.claims.length > 0 then .error .claimsOnly else .error .complete)
      else .ok q

end Aggkit.CertRange
