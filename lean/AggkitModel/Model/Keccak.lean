/-
Keccak-256 (legacy padding 0x01, as used by Ethereum / sha3.NewLegacyKeccak256), core Lean only.
Used by the driver to compare roots, leaves and commitments byte for byte with the Go code.
It is validated against go-ethereum's implementation on every run (scenario `keccak`);
no theorem depends on it except concrete examples.
-/
namespace Aggkit.Keccak

def rc : Array UInt64 := #[
  0x0000000000000001, 0x0000000000008082, 0x800000000000808a, 0x8000000080008000,
  0x000000000000808b, 0x0000000080000001, 0x8000000080008081, 0x8000000000008009,
  0x000000000000008a, 0x0000000000000088, 0x0000000080008009, 0x000000008000000a,
  0x000000008000808b, 0x800000000000008b, 0x8000000000008089, 0x8000000000008003,
  0x8000000000008002, 0x8000000000000080, 0x000000000000800a, 0x800000008000000a,
  0x8000000080008081, 0x8000000000008080, 0x0000000080000001, 0x8000000080008008]

def piln : Array Nat := #[10,7,11,17,18,3,5,16,8,21,24,4,15,23,19,13,12,2,20,14,22,9,6,1]
def rotc : Array UInt64 := #[1,3,6,10,15,21,28,36,45,55,2,14,27,41,56,8,25,43,62,18,39,61,20,44]

@[inline] def rotl (x : UInt64) (n : UInt64) : UInt64 := (x <<< n) ||| (x >>> (64 - n))

def round (st : Array UInt64) (r : Nat) : Array UInt64 := Id.run do
  let mut st := st
  -- theta
  let mut bc : Array UInt64 := Array.replicate 5 0
  for i in [0:5] do
    bc := bc.set! i (st[i]! ^^^ st[i+5]! ^^^ st[i+10]! ^^^ st[i+15]! ^^^ st[i+20]!)
  for i in [0:5] do
    let t := bc[(i+4)%5]! ^^^ rotl bc[(i+1)%5]! 1
    for j in [0:5] do
      st := st.set! (5*j+i) (st[5*j+i]! ^^^ t)
  -- rho, pi
  let mut t := st[1]!
  for i in [0:24] do
    let j := piln[i]!
    let b := st[j]!
    st := st.set! j (rotl t rotc[i]!)
    t := b
  -- chi
  for j in [0:5] do
    let b0 := st[5*j]!; let b1 := st[5*j+1]!; let b2 := st[5*j+2]!; let b3 := st[5*j+3]!; let b4 := st[5*j+4]!
    st := st.set! (5*j)   (b0 ^^^ ((~~~ b1) &&& b2))
    st := st.set! (5*j+1) (b1 ^^^ ((~~~ b2) &&& b3))
    st := st.set! (5*j+2) (b2 ^^^ ((~~~ b3) &&& b4))
    st := st.set! (5*j+3) (b3 ^^^ ((~~~ b4) &&& b0))
    st := st.set! (5*j+4) (b4 ^^^ ((~~~ b0) &&& b1))
  -- iota
  st := st.set! 0 (st[0]! ^^^ rc[r]!)
  return st

def permute (st : Array UInt64) : Array UInt64 := Id.run do
  let mut st := st
  for r in [0:24] do
    st := round st r
  return st

def rate : Nat := 136

/-- xor a 136-byte block (given as offset into `data`) into the state -/
def absorbBlock (st : Array UInt64) (data : ByteArray) (off : Nat) : Array UInt64 := Id.run do
  let mut st := st
  for l in [0:17] do
    let mut w : UInt64 := 0
    for k in [0:8] do
      w := w ||| ((data.get! (off + 8*l + k)).toUInt64 <<< (8 * k).toUInt64)
    st := st.set! l (st[l]! ^^^ w)
  return st

def keccak256 (msg : ByteArray) : ByteArray := Id.run do
  -- pad
  let n := msg.size
  let padLen := rate - n % rate
  let mut data := msg
  if padLen == 1 then
    data := data.push 0x81
  else
    data := data.push 0x01
    for _ in [0:padLen-2] do
      data := data.push 0x00
    data := data.push 0x80
  let mut st : Array UInt64 := Array.replicate 25 0
  for b in [0:data.size / rate] do
    st := absorbBlock st data (b * rate)
    st := permute st
  let mut out := ByteArray.empty
  for l in [0:4] do
    let w := st[l]!
    for k in [0:8] do
      out := out.push (w >>> (8 * k).toUInt64).toUInt8
  return out

end Aggkit.Keccak
