import AggkitModel.Model.TreeMachine
import AggkitModel.Model.Bytes
/-
The bridge syncer's store (bridgesync/processor.go): block / bridge / claim / token_mapping /
legacy_token_migration tables (PRIMARY KEY (block_num, block_pos), REFERENCES block ON DELETE CASCADE),
the exit tree, the halted flag; `ProcessBlock` (one transaction, optional fault at the k-th write
statement), `Reorg`, restart, and the queries.
Rows carry an opaque canonical `payload` string (all stored fields); only the fields the logic looks at
are separate.
-/
namespace Aggkit.BridgeStore
open Aggkit

/-- `Bridge.Hash()` preimage: leafType(1) ‖ originNetwork(4) ‖ originAddress(20) ‖ destinationNetwork(4) ‖
    destinationAddress(20) ‖ amount(32, big-endian) ‖ keccak(metadata)(32) — the contract's `getLeafValue`
    packs exactly these fields (`abi.encodePacked(uint8,uint32,address,uint32,address,uint256,bytes32)`). -/
def leafPreimage (leafType originNet : Nat) (originAddr : Bytes) (destNet : Nat) (destAddr : Bytes)
    (amount : Nat) (metaHash : Bytes) : Bytes :=
  fillBE 1 leafType ++ fillBE 4 originNet ++ originAddr ++ fillBE 4 destNet ++ destAddr ++ fillBE 32 amount ++ metaHash

inductive Kind where
  | bridge | claim | tokenMapping | legacy
  deriving Repr, DecidableEq

structure Row where
  kind : Kind
  blockNum : Nat
  pos : Nat
  key : String        -- legacy: legacy_token_address; others: unused
  depositCount : Nat  -- bridge rows
  filterKey : String  -- bridge/claim: "<network>/<from_address>" used by the paged filters
  payload : String
  deriving Repr, DecidableEq

inductive Ev (α : Type) where
  | bridge (pos depositCount : Nat) (leaf : α) (filterKey payload : String)
  | claim (pos : Nat) (filterKey payload : String)
  | tokenMapping (pos : Nat) (payload : String)
  | legacy (pos : Nat) (addr payload : String)
  | rmLegacy (pos : Nat) (addr : String)

structure Block (α : Type) where
  num : Nat
  events : List (Ev α)

structure BP (α : Type) where
  tm : TM α
  blocks : List Nat := []
  rows : List Row := []
  halted : Bool := false

inductive Res where
  | ok
  | inconsistent      -- sync.ErrInconsistentState
  | constraint        -- PRIMARY KEY violation
  | fault             -- injected storage fault
  | other
  deriving Repr, DecidableEq

variable {α : Type} [DecidableEq α]

def BP.init (H : HashAlg α) (n : Nat) : BP α := { tm := TM.init H n }

/-- transaction-local state while the events of a block are processed -/
structure Work (α : Type) where
  tm : TM α
  rows : List Row
  stmts : Nat          -- write statements executed so far in this transaction

def hasPK (rows : List Row) (k : Kind) (bn pos : Nat) : Bool :=
  rows.any (fun r => r.kind = k ∧ r.blockNum = bn ∧ r.pos = pos)

/-- does the write statement numbered `w.stmts` hit the injected fault? -/
def hit (fault : Option Nat) (stmts : Nat) : Bool := fault == some stmts

/-- does the injected fault fall on one of the `len` write statements starting at `lo`? -/
def inRange (fault : Option Nat) (lo len : Nat) : Bool :=
  match fault with
  | some k => decide (lo ≤ k ∧ k < lo + len)
  | none => false

/-- the AddLeaf of a bridge event whose store statements are hit by the fault: the pre-phase reads succeed; a
    wrong index returns before any write statement (so no fault happens); otherwise the cache was written -/
def addFaulted (H : HashAlg α) (n : Nat) (bn : Nat) (w : Work α) (pos dc : Nat) (leaf : α) : Work α × Bool × Option Res :=
  match addLeaf H n w.tm.t w.tm.db bn pos dc leaf with
  | (t', .error .invalidIndex) => ({ w with tm := { w.tm with t := t' } }, true, some .inconsistent)
  | (t', .error _) => ({ w with tm := { w.tm with t := t' } }, false, some .other)
  | (_, .ok _) => ({ w with tm := { w.tm with t := addLeafStoreFault H n w.tm.t w.tm.db dc leaf } }, false, some .fault)

/-- result of one row insert lifted to the event result -/
def rowResult (w : Work α) : Except Res (Work α) → Work α × Bool × Option Res
  | .ok w' => (w', false, none)
  | .error e => (w, false, some e)

/-- INSERT of one event row (one write statement) -/
def insertRow (fault : Option Nat) (w : Work α) (r : Row) : Except Res (Work α) :=
  if hit fault w.stmts then .error .fault
  else if hasPK w.rows r.kind r.blockNum r.pos then .error .constraint
  else .ok { w with rows := w.rows ++ [r], stmts := w.stmts + 1 }

/-- one event of `ProcessBlock`'s loop. Returns the work state, whether the processor must halt, and the error -/
def procEvent (H : HashAlg α) (n : Nat) (fault : Option Nat) (bn : Nat) (w : Work α) :
    Ev α → Work α × Bool × Option Res
  | .bridge pos dc leaf fk payload =>
    -- AddLeaf: 1 (root) + n (rht) write statements
    if inRange fault w.stmts (1 + n) then addFaulted H n bn w pos dc leaf
    else
      match TM.step H n w.tm (.add bn pos dc leaf) with
      | (tm', .ok) =>
        let w1 : Work α := { w with tm := tm', stmts := w.stmts + 1 + n }
        rowResult w1 (insertRow fault w1 { kind := .bridge, blockNum := bn, pos := pos, key := "", depositCount := dc, filterKey := fk, payload := payload })
      | (tm', .err .invalidIndex) => ({ w with tm := tm' }, true, some .inconsistent)
      | (tm', .err .constraint) => ({ w with tm := tm' }, false, some .constraint)   -- since the F2 fix other errors are returned as they are
      | (tm', _) => ({ w with tm := tm' }, false, some .other)
  | .claim pos fk payload =>
    rowResult w (insertRow fault w { kind := .claim, blockNum := bn, pos := pos, key := "", depositCount := 0, filterKey := fk, payload := payload })
  | .tokenMapping pos payload =>
    rowResult w (insertRow fault w { kind := .tokenMapping, blockNum := bn, pos := pos, key := "", depositCount := 0, filterKey := "", payload := payload })
  | .legacy pos addr payload =>
    rowResult w (insertRow fault w { kind := .legacy, blockNum := bn, pos := pos, key := addr, depositCount := 0, filterKey := "", payload := payload })
  | .rmLegacy _ addr =>
    -- DELETE FROM legacy_token_migration WHERE legacy_token_address = $1 : one row-trigger firing per deleted row
    let victims := (w.rows.filter (fun r => r.kind = .legacy ∧ r.key = addr)).length
    if inRange fault w.stmts victims then (w, false, some .fault)
    else ({ w with rows := w.rows.filter (fun r => !(r.kind = .legacy ∧ r.key = addr)), stmts := w.stmts + victims }, false, none)

def procEvents (H : HashAlg α) (n : Nat) (fault : Option Nat) (bn : Nat) :
    Work α → List (Ev α) → Work α × Bool × Option Res
  | w, [] => (w, false, none)
  | w, e :: es =>
    match procEvent H n fault bn w e with
    | (w', _, none) => procEvents H n fault bn w' es
    | r => r

/-- the deferred rollback of a transaction that failed before any event was processed -/
def rolledBack (H : HashAlg α) (n : Nat) (s : BP α) : BP α :=
  { s with tm := (TM.step H n (TM.step H n s.tm .begin).1 .rollback).1 }

/-- end of `ProcessBlock`: commit, or the deferred rollback (tables restored, rollback callbacks run) -/
def finishBlock (H : HashAlg α) (n : Nat) (s : BP α) (b : Block α) : Work α × Bool × Option Res → BP α × Res
  | (w, halt, some e) => ({ s with tm := (TM.step H n w.tm .rollback).1, halted := halt }, e)
  | (w, _, none) => ({ s with tm := (TM.step H n w.tm .commit).1, rows := w.rows, blocks := s.blocks ++ [b.num] }, .ok)

/-- `ProcessBlock(ctx, block)`; `fault = some k`: the k-th write statement of the transaction fails -/
def processBlock (H : HashAlg α) (n : Nat) (s : BP α) (b : Block α) (fault : Option Nat) : BP α × Res :=
  if s.halted then (s, .inconsistent)
  else if hit fault 0 then (rolledBack H n s, .fault)                      -- INSERT INTO block
  else if s.blocks.contains b.num then (rolledBack H n s, .constraint)
  else finishBlock H n s b
    (procEvents H n fault b.num { tm := (TM.step H n s.tm .begin).1, rows := s.rows, stmts := 1 } b.events)

/-- `Reorg(ctx, firstReorgedBlock)` -/
def reorg (H : HashAlg α) (n : Nat) (s : BP α) (first : Nat) : BP α :=
  let affected := (s.blocks.filter (fun b => b ≥ first)).length
  let tm := (TM.step H n s.tm .begin).1
  let tm := (TM.step H n tm (.reorg first)).1
  let tm := (TM.step H n tm .commit).1
  { s with tm := tm, blocks := s.blocks.filter (fun b => b < first),
           rows := s.rows.filter (fun r => r.blockNum < first),   -- ON DELETE CASCADE
           halted := if affected > 0 then false else s.halted }   -- UnhaltIfAffectedRows

/-- `Reorg` with a storage fault on its first `DELETE FROM block` row (`onBlock`) or first `DELETE FROM root` row:
    the fault only exists if such a row exists; the transaction is rolled back and nothing changes -/
def reorgFault (H : HashAlg α) (n : Nat) (s : BP α) (first : Nat) (onBlock : Bool) : BP α × Res :=
  let hits := if onBlock then s.blocks.any (fun b => b ≥ first) else s.tm.db.roots.any (fun r => r.blockNum ≥ first)
  if hits then (s, .fault) else (reorg H n s first, .ok)

/-- new process on the same database file -/
def restart (H : HashAlg α) (n : Nat) (s : BP α) : BP α :=
  { s with tm := (TM.step H n s.tm .restart).1, halted := false }

/-! queries -/

def lastProcessedBlock (s : BP α) : Nat := s.blocks.foldl max 0

def insertSorted (r : Row) : List Row → List Row
  | [] => [r]
  | x :: xs => if r.blockNum < x.blockNum ∨ (r.blockNum = x.blockNum ∧ r.pos < x.pos) then r :: x :: xs else x :: insertSorted r xs

/-- ORDER BY block_num ASC, block_pos ASC -/
def sortRows (l : List Row) : List Row := l.foldl (fun acc r => insertSorted r acc) []

/-- `queryBlockRange` for bridges / claims: `none` = "block not processed" error -/
def rangeQuery (s : BP α) (k : Kind) (f t : Nat) : Option (List Row) :=
  if lastProcessedBlock s < t then none
  else some (sortRows (s.rows.filter (fun r => r.kind = k ∧ f ≤ r.blockNum ∧ r.blockNum ≤ t)))

/-- `calculateOffset` in uint32 arithmetic; `none` = invalid page -/
def calcOffset (page size total : Nat) : Option Nat :=
  let off := ((page + 2^32 - 1) % 2^32 * size) % 2^32
  if off ≥ total % 2^32 then none else some off

end Aggkit.BridgeStore
