/-
C12 — the bridge API's L1-info-index lookup (bridgeservice/bridge.go getFirstL1InfoTreeIndexForL1Bridge,
getFirstL1InfoTreeIndexForL2Bridge) over the query layer it uses (l1infotreesync GetLastInfo / GetFirstInfo /
GetFirstInfoAfterBlock / GetLast-, GetFirst-, GetFirstVerifiedBatchesAfterBlock / GetFirstL1InfoWithRollupExitRoot,
bridgesync GetRootByLER). Exit roots are represented by what they commit to: a mainnet exit root by the number of
mainnet deposits under it, a rollup exit root by an identity (`rerId`, equal iff the roots are equal) plus the number of
this network's deposits under the local exit root inside it.
Block numbers are ≥ 1 (for block 0 the code's `targetBlock - 1` wraps around in uint64; not modelled).
-/
namespace Aggkit.BridgeAPI

structure Info where
  index : Nat
  block : Nat
  mcount : Nat      -- mainnet exit root = root of the first `mcount` mainnet deposits
  rerId : Nat       -- identity of the rollup exit root
  lcount : Nat      -- this network's local exit root inside it covers `lcount` deposits (0 = none)
  deriving Repr, DecidableEq

/-- a VerifyBatches row of this network -/
structure Verify where
  block : Nat
  lcount : Nat      -- exit root = root of the first `lcount` L2 deposits
  rerId : Nat       -- the rollup exit root after this verification
  deriving Repr, DecidableEq

inductive Res where
  | ok (idx : Nat)
  | err
  deriving Repr, DecidableEq

/-- `GetRootByLER(root of cnt leaves).Index`: the bridge syncer has a root row per deposit, none for the empty tree -/
def rootIdx (cnt : Nat) : Option Nat := if cnt = 0 then none else some (cnt - 1)

/-- `GetFirstInfoAfterBlock` (infos are in (block, position) order) -/
def firstInfoAfter (infos : List Info) (b : Nat) : Option Info := infos.find? (fun i => decide (b ≤ i.block))

def firstVerifyAfter (vs : List Verify) (b : Nat) : Option Verify := vs.find? (fun v => decide (b ≤ v.block))

/-- the binary search over blocks of `getFirstL1InfoTreeIndexForL1Bridge` (`none` = an error is returned) -/
def loopL1 (infos : List Info) (dc : Nat) : Nat → Nat → Nat → Info → Option Info
  | 0, _, _, best => some best
  | fuel+1, lower, upper, best =>
    if lower ≤ upper then
      let target := lower + (upper - lower) / 2
      match firstInfoAfter infos target with
      | none => none
      | some ti =>
        match rootIdx ti.mcount with
        | none => none
        | some ri =>
          if ri < dc then loopL1 infos dc fuel (target + 1) upper best
          else if ri = dc then some ti
          else loopL1 infos dc fuel lower (target - 1) ti
    else some best

def searchL1 (infos : List Info) (dc : Nat) : Res :=
  match infos.getLast?, infos.head? with
  | some last, some first =>
    match rootIdx last.mcount with
    | none => .err
    | some ri =>
      if ri < dc then .err
      else match loopL1 infos dc (last.block - first.block + 2) first.block last.block last with
        | some best => .ok best.index
        | none => .err
  | _, _ => .err

def loopL2 (vs : List Verify) (dc : Nat) : Nat → Nat → Nat → Verify → Option Verify
  | 0, _, _, best => some best
  | fuel+1, lower, upper, best =>
    if lower ≤ upper then
      let target := lower + (upper - lower) / 2
      match firstVerifyAfter vs target with
      | none => none
      | some tv =>
        match rootIdx tv.lcount with
        | none => none
        | some ri =>
          if ri < dc then loopL2 vs dc fuel (target + 1) upper best
          else if ri = dc then some tv
          else loopL2 vs dc fuel lower (target - 1) tv
    else some best

def searchL2 (vs : List Verify) (infos : List Info) (dc : Nat) : Res :=
  match vs.getLast?, vs.head? with
  | some last, some first =>
    match rootIdx last.lcount with
    | none => .err
    | some ri =>
      if ri < dc then .err
      else match loopL2 vs dc (last.block - first.block + 2) first.block last.block last with
        | some best =>
          match infos.find? (fun i => decide (i.rerId = best.rerId)) with   -- GetFirstL1InfoWithRollupExitRoot
          | some i => .ok i.index
          | none => .err
        | none => .err
  | _, _ => .err

/-- `GetFirstGERAfterL1InfoTreeIndex` as the API uses it: the smallest injected L1 info leaf index at or after `i` -/
def firstInjectedAfter (injected : List Nat) (i : Nat) : Option Nat :=
  (injected.filter (fun k => decide (i ≤ k))).foldl (fun acc k => match acc with
    | none => some k
    | some a => some (min a k)) none

end Aggkit.BridgeAPI
