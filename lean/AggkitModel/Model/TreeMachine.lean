import AggkitModel.Model.Tree
/-
A tree object together with its tables and an explicit transaction, as the processors use it:
`db.NewTx` (snapshot) … `AddLeaf`/`UpsertLeaf`/`Reorg` … `Commit` | `Rollback` (+ rollback callbacks,
db/tx.go). This is the machine driven by the `tree` correspondence scenario and the object of the
C01 / C08 theorems.
-/
namespace Aggkit
variable {α : Type}

structure TM (α : Type) where
  t : AOT α                          -- in-memory append-only tree object
  db : TreeDb α                      -- current view of the tables (including the open transaction's writes)
  snap : Option (TreeDb α) := none   -- tables as of `begin` while a transaction is open
  cbs : Nat := 0                     -- rollback callbacks registered by AddLeaf in the open transaction

inductive TMOp (α : Type) where
  | begin
  | commit
  | rollback
  | add (blockNum blockPos idx : Nat) (leaf : α)        -- AppendOnlyTree.AddLeaf
  | upsert (blockNum blockPos idx : Nat) (leaf : α)     -- UpdatableTree.UpsertLeaf
  | addF (k : Nat) (blockNum blockPos idx : Nat) (leaf : α)   -- AddLeaf whose k-th storage statement fails
  | upsertF (k : Nat) (blockNum blockPos idx : Nat) (leaf : α) -- UpsertLeaf whose k-th storage statement fails
  | reorg (first : Nat)                                 -- Tree.Reorg inside the open transaction
  | restart                                             -- new process: fresh tree object, tables kept

inductive TMOut (α : Type) where
  | ok
  | root (h : α)
  | err (e : TreeErr)
  | badOp

def TM.init (H : HashAlg α) (n : Nat) : TM α := { t := AOT.new H n, db := {} }

section
variable [DecidableEq α]

/-- `AddLeaf` inside the open transaction -/
def TM.doAdd (H : HashAlg α) (n : Nat) (s : TM α) (bn bp idx : Nat) (leaf : α) : TM α × TMOut α :=
  match addLeaf H n s.t s.db bn bp idx leaf with
  | (t', .error e) => ({ s with t := t' }, .err e)
  | (t', .ok db') => ({ s with t := t', db := db', cbs := s.cbs + 1 }, .ok)

/-- `UpsertLeaf` inside the open transaction -/
def TM.doUpsert (H : HashAlg α) (n : Nat) (s : TM α) (bn bp idx : Nat) (leaf : α) : TM α × TMOut α :=
  match upsertLeaf H n s.db bn bp idx leaf with
  | .error e => (s, .err e)
  | .ok (r, db') => ({ s with db := db' }, .root r)

def TM.step (H : HashAlg α) (n : Nat) (s : TM α) : TMOp α → TM α × TMOut α
  | .begin => match s.snap with
    | some _ => (s, .badOp)
    | none => ({ s with snap := some s.db, cbs := 0 }, .ok)
  | .commit => match s.snap with
    | none => (s, .badOp)
    | some _ => ({ s with snap := none, cbs := 0 }, .ok)
  | .rollback => match s.snap with
    | none => (s, .badOp)
    | some d =>
      -- callbacks (since the F1 fix): any AddLeaf of the rolled-back transaction invalidates the frontier
      let t := if s.cbs > 0 then { s.t with lastIndex := -2 } else s.t
      ({ s with db := d, snap := none, cbs := 0, t := t }, .ok)
  | .add bn bp idx leaf => match s.snap with
    | none => (s, .badOp)
    | some _ => TM.doAdd H n s bn bp idx leaf
  | .upsert bn bp idx leaf => match s.snap with
    | none => (s, .badOp)
    | some _ => TM.doUpsert H n s bn bp idx leaf
  | .addF k bn bp idx leaf => match s.snap with
    | none => (s, .badOp)
    | some _ =>
      match addLeafFaultAt H n s.t s.db idx leaf k with
      | some t' => ({ s with t := t' }, .err .fault)      -- the caller rolls the transaction back
      | none => TM.doAdd H n s bn bp idx leaf             -- k is past the last statement: no fault
  | .upsertF k bn bp idx leaf => match s.snap with
    | none => (s, .badOp)
    | some _ =>
      if k < 1 + n + 1 + n then (s, .err .fault)          -- getLastRoot, n× getRHTNode, storeRoot, n× storeNodes
      else TM.doUpsert H n s bn bp idx leaf
  | .reorg first => match s.snap with
    | none => (s, .badOp)
    | some _ => ({ s with db := s.db.reorg first }, .ok)
  | .restart => match s.snap with
    | some _ => (s, .badOp)
    | none => ({ s with t := AOT.new H n }, .ok)

end
end Aggkit
