import AggkitModel.Model.Tree
/-
A tree object together with its tables and an explicit transaction, as the processors use it:
`db.NewTx` (snapshot) … `AddLeaf`/`UpsertLeaf`/`Reorg` … `Commit` | `Rollback` (+ rollback callbacks,
db/tx.go). This is the machine driven by the `tree` correspondence scenario and the object of the
C01 / C08 theorems.
-/
namespace Aggkit
variable {α : Type}

structure TM (α : Type) where
  t : AOT α                          -- in-memory append-only tree object
  db : TreeDb α                      -- current view of the tables (including the open transaction's writes)
  snap : Option (TreeDb α) := none   -- tables as of `begin` while a transaction is open
  cbs : Nat := 0                     -- rollback callbacks registered by AddLeaf in the open transaction

inductive TMOp (α : Type) where
  | begin
  | commit
  | rollback
  | add (blockNum blockPos idx : Nat) (leaf : α)        -- AppendOnlyTree.AddLeaf
  | upsert (blockNum blockPos idx : Nat) (leaf : α)     -- UpdatableTree.UpsertLeaf
  | reorg (first : Nat)                                 -- Tree.Reorg inside the open transaction
  | restart                                             -- new process: fresh tree object, tables kept

inductive TMOut (α : Type) where
  | ok
  | root (h : α)
  | err (e : TreeErr)
  | badOp

def TM.init (H : HashAlg α) (n : Nat) : TM α := { t := AOT.new H n, db := {} }

section
variable [DecidableEq α]

def TM.step (H : HashAlg α) (n : Nat) (s : TM α) : TMOp α → TM α × TMOut α
  | .begin => match s.snap with
    | some _ => (s, .badOp)
    | none => ({ s with snap := some s.db, cbs := 0 }, .ok)
  | .commit => match s.snap with
    | none => (s, .badOp)
    | some _ => ({ s with snap := none, cbs := 0 }, .ok)
  | .rollback => match s.snap with
    | none => (s, .badOp)
    | some d =>
      -- callbacks (since the F1 fix): any AddLeaf of the rolled-back transaction invalidates the frontier
      let t := if s.cbs > 0 then { s.t with lastIndex := -2 } else s.t
      ({ s with db := d, snap := none, cbs := 0, t := t }, .ok)
  | .add bn bp idx leaf => match s.snap with
    | none => (s, .badOp)
    | some _ =>
      match addLeaf H n s.t s.db bn bp idx leaf with
      | (t', .error e) => ({ s with t := t' }, .err e)
      | (t', .ok db') => ({ s with t := t', db := db', cbs := s.cbs + 1 }, .ok)
  | .upsert bn bp idx leaf => match s.snap with
    | none => (s, .badOp)
    | some _ =>
      match upsertLeaf H n s.db bn bp idx leaf with
      | .error e => (s, .err e)
      | .ok (r, db') => ({ s with db := db' }, .root r)
  | .reorg first => match s.snap with
    | none => (s, .badOp)
    | some _ => ({ s with db := s.db.reorg first }, .ok)
  | .restart => match s.snap with
    | some _ => (s, .badOp)
    | none => ({ s with t := AOT.new H n }, .ok)

end
end Aggkit
