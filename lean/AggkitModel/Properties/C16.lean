import AggkitModel.Model.LastGER
import AggkitModel.Generated.SyncFacts
/-
C16 — the injected-GER index reflects what was really injected on L2 (PP mode).
For every L2 chain (at most one GER event per block), every sequence of polls with tips advancing by ANY
amount: the table equals the fold of the GER events of all blocks up to the last tip seen, hence the query
returns the first injected, not-removed root at or after the requested index, and finds one whenever one exists.
Known gap (finding F4): a removal that is later reorged away is not undone — reorgs are covered by the
correspondence run and the KNOWN-FINDING replay, not by these theorems.
-/
namespace Aggkit.LastGER

/-- the specification's step -/
def applyEv (rows : List Row) (be : Nat × GEv) : List Row :=
  match be.2 with
  | .insert g i => rows ++ [{ blockNum := be.1, ger := g, idx := i }]
  | .remove g => rows.filter (fun r => r.ger != g)

theorem specRows_eq (chain : Chain) (t : Nat) : specRows chain t = (eventBlocks chain 1 t).foldl applyEv [] := by
  unfold specRows
  congr 1

theorem eventBlocks_split (chain : Chain) (f m t : Nat) (h1 : f ≤ m + 1) (h2 : m ≤ t) :
    eventBlocks chain f t = eventBlocks chain f m ++ eventBlocks chain (m + 1) t := by
  unfold eventBlocks
  rw [← List.filterMap_append]
  congr 1
  have e : t + 1 - f = (m + 1 - f) + (t + 1 - (m + 1)) := by omega
  have := List.range'_append (s := f) (m := m + 1 - f) (n := t + 1 - (m + 1)) (step := 1)
  rw [e, ← this]
  congr 2; omega

theorem mem_eventBlocks (chain : Chain) (f t b : Nat) (e : GEv) :
    (b, e) ∈ eventBlocks chain f t ↔ (f ≤ b ∧ b ≤ t ∧ chain b = some e) := by
  unfold eventBlocks
  rw [List.mem_filterMap]
  constructor
  · intro ⟨a, ha, hfa⟩
    rw [List.mem_range'_1] at ha
    cases hc : chain a with
    | none => simp [hc] at hfa
    | some e' =>
      simp only [hc, Option.map_some, Option.some.injEq, Prod.mk.injEq] at hfa
      obtain ⟨rfl, rfl⟩ := hfa
      exact ⟨ha.1, by omega, hc⟩
  · intro ⟨h1, h2, h3⟩
    exact ⟨b, by rw [List.mem_range'_1]; omega, by simp [h3]⟩

/-- the downloader/processor state refines "all GER events of the blocks below `from`" -/
structure Inv (chain : Chain) (s : St) : Prop where
  pos : 1 ≤ s.from_
  rows : s.rows = specRows chain (s.from_ - 1)
  blocks : s.blocks = (eventBlocks chain 1 (s.from_ - 1)).map (·.1)

/-- processing a list of event blocks that are all new -/
theorem fold_process (chain : Chain) : ∀ (bes : List (Nat × GEv)) (s : St),
    (∀ be ∈ bes, ∀ x ∈ s.blocks, x < be.1) → bes.Pairwise (fun a b => a.1 < b.1) →
    (bes.foldl (fun acc be => (processBlock acc be.1 (some be.2)).1) s).rows = bes.foldl applyEv s.rows ∧
    (bes.foldl (fun acc be => (processBlock acc be.1 (some be.2)).1) s).blocks = s.blocks ++ bes.map (·.1) ∧
    (bes.foldl (fun acc be => (processBlock acc be.1 (some be.2)).1) s).from_ = s.from_ := by
  intro bes
  induction bes with
  | nil => intro s _ _; simp
  | cons be rest ih =>
    intro s hnew hsorted
    simp only [List.foldl_cons]
    have hnc : s.blocks.contains be.1 = false := by
      rw [Bool.eq_false_iff]; intro hc
      have hm : be.1 ∈ s.blocks := by simpa using hc
      have := hnew be (by simp) be.1 hm; omega
    have hstep : (processBlock s be.1 (some be.2)).1 =
        { s with blocks := s.blocks ++ [be.1], rows := applyEv s.rows be } := by
      unfold processBlock applyEv
      simp only [hnc, Bool.false_eq_true, if_false]
      cases be.2 <;> rfl
    rw [hstep]
    have hs2 := List.pairwise_cons.mp hsorted
    obtain ⟨r1, r2, r3⟩ := ih { s with blocks := s.blocks ++ [be.1], rows := applyEv s.rows be }
      (by
        intro b hb x hx
        simp only [List.mem_append, List.mem_singleton] at hx
        rcases hx with h | h
        · exact hnew b (by simp [hb]) x h
        · subst h; exact hs2.1 b hb)
      hs2.2
    exact ⟨r1, by rw [r2]; simp, r3⟩

theorem eventBlocks_sorted (chain : Chain) (f t : Nat) : (eventBlocks chain f t).Pairwise (fun a b => a.1 < b.1) := by
  unfold eventBlocks
  apply List.Pairwise.filterMap _ _ (List.pairwise_lt_range' (s := f) (n := t + 1 - f))
  intro a a' hlt b hb b' hb'
  cases h1 : chain a <;> cases h2 : chain a' <;> simp_all
  obtain ⟨rfl, _⟩ := hb; obtain ⟨rfl, _⟩ := hb'; exact hlt

/-- **one poll, whatever the new tip** -/
theorem pollPP_inv (chain : Chain) (s : St) (tip : Nat) (inv : Inv chain s) : Inv chain (pollPP chain s tip) := by
  unfold pollPP
  by_cases h : tip < s.from_
  · rw [if_pos h]; exact inv
  · rw [if_neg h]
    have hnew : ∀ be ∈ eventBlocks chain s.from_ tip, ∀ x ∈ s.blocks, x < be.1 := by
      intro be hbe x hx
      rw [inv.blocks] at hx
      obtain ⟨y, hy, rfl⟩ := List.mem_map.mp hx
      have h1 := (mem_eventBlocks chain 1 (s.from_ - 1) y.1 y.2).mp hy
      have h2 := (mem_eventBlocks chain s.from_ tip be.1 be.2).mp hbe
      have := inv.pos; omega
    obtain ⟨r1, r2, r3⟩ := fold_process chain (eventBlocks chain s.from_ tip) s hnew (eventBlocks_sorted chain _ _)
    have hsplit := eventBlocks_split chain 1 (s.from_ - 1) tip (by have := inv.pos; omega) (by omega)
    have hf : s.from_ - 1 + 1 = s.from_ := by have := inv.pos; omega
    rw [hf] at hsplit
    constructor
    · simp
    · simp only [Nat.add_sub_cancel]
      rw [r1, inv.rows, specRows_eq, specRows_eq, hsplit, List.foldl_append]
    · simp only [Nat.add_sub_cancel]
      rw [r2, inv.blocks, hsplit, List.map_append]

theorem init_inv (chain : Chain) : Inv chain {} := by
  refine ⟨by decide, ?_, ?_⟩ <;> simp [specRows, eventBlocks]

/-- **C16 (table)**: after any sequence of polls — tips advancing by any amount, repeated or lagging tips — the
    table holds exactly the injected, not-removed GERs of all blocks up to the furthest tip seen -/
theorem C16_table (chain : Chain) (tips : List Nat) :
    let s := tips.foldl (pollPP chain) {}
    s.rows = specRows chain (s.from_ - 1) ∧ ∀ t ∈ tips, t < s.from_ := by
  intro s
  have key : ∀ (tips : List Nat) (s0 : St), Inv chain s0 →
      Inv chain (tips.foldl (pollPP chain) s0) ∧ s0.from_ ≤ (tips.foldl (pollPP chain) s0).from_ ∧
      ∀ t ∈ tips, t < (tips.foldl (pollPP chain) s0).from_ := by
    intro tips
    induction tips with
    | nil => intro s0 i0; exact ⟨i0, Nat.le_refl _, by simp⟩
    | cons t ts ih =>
      intro s0 i0
      simp only [List.foldl_cons]
      obtain ⟨a, b, c⟩ := ih _ (pollPP_inv chain s0 t i0)
      have hmono : s0.from_ ≤ (pollPP chain s0 t).from_ ∧ t < (pollPP chain s0 t).from_ := by
        unfold pollPP
        by_cases h : t < s0.from_
        · rw [if_pos h]; exact ⟨Nat.le_refl _, h⟩
        · rw [if_neg h]; simp; omega
      refine ⟨a, by omega, ?_⟩
      intro x hx
      rcases List.mem_cons.mp hx with h | h
      · subst h; omega
      · exact c x h
  obtain ⟨a, _, c⟩ := key tips {} (init_inv chain)
  exact ⟨a.rows, c⟩

/-- the query picks a row with the smallest index at or after `x`, and finds one whenever one exists -/
theorem firstAfter_spec (s : St) (x : Nat) :
    (∀ r, firstAfter s x = some r → r ∈ s.rows ∧ r.idx ≥ x ∧ ∀ r' ∈ s.rows, r'.idx ≥ x → r.idx ≤ r'.idx) ∧
    ((∃ r ∈ s.rows, r.idx ≥ x) → ∃ r, firstAfter s x = some r) := by
  unfold firstAfter
  have key : ∀ (l : List Row) (b0 : Option Row),
      (∀ r, l.foldl (fun best r => match best with
          | none => some r
          | some b => if r.idx < b.idx then some r else some b) b0 = some r →
        (r ∈ l ∨ b0 = some r) ∧ (∀ r' ∈ l, r.idx ≤ r'.idx) ∧ (∀ b, b0 = some b → r.idx ≤ b.idx)) ∧
      ((l ≠ [] ∨ b0.isSome) → ∃ r, l.foldl (fun best r => match best with
          | none => some r
          | some b => if r.idx < b.idx then some r else some b) b0 = some r) := by
    intro l
    induction l with
    | nil =>
      intro b0
      refine ⟨fun r h => ⟨Or.inr h, by simp, fun b hb => by simp at h; rw [h] at hb; simp at hb; rw [hb]; exact Nat.le_refl _⟩, ?_⟩
      intro h; rcases h with h | h
      · exact absurd rfl h
      · cases b0 with
        | none => simp at h
        | some b => exact ⟨b, rfl⟩
    | cons a rest ih =>
      intro b0
      simp only [List.foldl_cons]
      cases b0 with
      | none =>
        obtain ⟨i1, i2⟩ := ih (some a)
        refine ⟨fun r h => ?_, fun _ => i2 (Or.inr rfl)⟩
        obtain ⟨a1, a2, a3⟩ := i1 r h
        refine ⟨Or.inl ?_, ?_, by simp⟩
        · rcases a1 with h1 | h1
          · simp [h1]
          · simp at h1; simp [h1]
        · intro r' hr'
          rcases List.mem_cons.mp hr' with h2 | h2
          · subst h2; exact a3 _ rfl
          · exact a2 r' h2
      | some b =>
        simp only
        by_cases hlt : a.idx < b.idx
        · rw [if_pos hlt]
          obtain ⟨i1, i2⟩ := ih (some a)
          refine ⟨fun r h => ?_, fun _ => i2 (Or.inr rfl)⟩
          obtain ⟨a1, a2, a3⟩ := i1 r h
          refine ⟨?_, ?_, ?_⟩
          · rcases a1 with h1 | h1
            · exact Or.inl (by simp [h1])
            · simp at h1; exact Or.inl (by simp [h1])
          · intro r' hr'
            rcases List.mem_cons.mp hr' with h2 | h2
            · subst h2; exact a3 _ rfl
            · exact a2 r' h2
          · intro b' hb'; simp at hb'; subst hb'; have := a3 a rfl; omega
        · rw [if_neg hlt]
          obtain ⟨i1, i2⟩ := ih (some b)
          refine ⟨fun r h => ?_, fun _ => i2 (Or.inr rfl)⟩
          obtain ⟨a1, a2, a3⟩ := i1 r h
          refine ⟨?_, ?_, ?_⟩
          · rcases a1 with h1 | h1
            · exact Or.inl (by simp [h1])
            · exact Or.inr h1
          · intro r' hr'
            rcases List.mem_cons.mp hr' with h2 | h2
            · subst h2; have := a3 b rfl; omega
            · exact a2 r' h2
          · intro b' hb'; simp at hb'; subst hb'; exact a3 b rfl
  obtain ⟨k1, k2⟩ := key (s.rows.filter (fun r => r.idx ≥ x)) none
  constructor
  · intro r h
    obtain ⟨a1, a2, _⟩ := k1 r h
    rcases a1 with h1 | h1
    · have hm := List.mem_filter.mp h1
      refine ⟨hm.1, by simpa using hm.2, ?_⟩
      intro r' hr' hx
      exact a2 r' (List.mem_filter.mpr ⟨hr', by simpa using hx⟩)
    · simp at h1
  · intro ⟨r, hr, hx⟩
    apply k2
    left
    intro hnil
    have : r ∈ s.rows.filter (fun r => r.idx ≥ x) := List.mem_filter.mpr ⟨hr, by simpa using hx⟩
    rw [hnil] at this; simp at this

/-- **C16**: the query's answer after any polling history, in the property's own words -/
theorem C16_query (chain : Chain) (tips : List Nat) (x : Nat) :
    let s := tips.foldl (pollPP chain) {}
    (∀ r, firstAfter s x = some r →
        r ∈ specRows chain (s.from_ - 1) ∧ r.idx ≥ x ∧ ∀ r' ∈ specRows chain (s.from_ - 1), r'.idx ≥ x → r.idx ≤ r'.idx) ∧
    ((∃ r ∈ specRows chain (s.from_ - 1), r.idx ≥ x) → ∃ r, firstAfter s x = some r) := by
  intro s
  obtain ⟨hrows, _⟩ := C16_table chain tips
  have := firstAfter_spec s x
  rw [hrows] at this
  exact this

/-- non-vacuity: insert in block 3 and 7, tips 5 → 9 (the blocks between polls are not skipped) -/
example : (([5, 9].foldl (pollPP (fun b => if b = 3 then some (.insert 1 10) else if b = 7 then some (.insert 2 11) else none)) {}).rows.map (·.ger)) = [1, 2] := by
  decide

theorem foldl_max_ge : ∀ (l : List Nat) (a : Nat), a ≤ l.foldl max a ∧ ∀ x ∈ l, x ≤ l.foldl max a := by
  intro l
  induction l with
  | nil => intro a; simp
  | cons y ys ih =>
    intro a
    simp only [List.foldl_cons]
    obtain ⟨h1, h2⟩ := ih (max a y)
    refine ⟨by omega, ?_⟩
    intro x hx
    rcases List.mem_cons.mp hx with h | h
    · subst h; omega
    · exact h2 x h

theorem foldl_max_mem : ∀ (l : List Nat) (a : Nat), l.foldl max a = a ∨ l.foldl max a ∈ l := by
  intro l
  induction l with
  | nil => intro a; simp
  | cons y ys ih =>
    intro a
    simp only [List.foldl_cons]
    rcases ih (max a y) with h | h
    · rw [h]
      by_cases hy : a ≤ y
      · right; simp [Nat.max_eq_right hy]
      · left; omega
    · right; exact List.mem_cons_of_mem _ h

theorem filterMap_congr_ext {α β : Type} (f g : α → Option β) : ∀ (l : List α), (∀ a ∈ l, f a = g a) →
    l.filterMap f = l.filterMap g := by
  intro l
  induction l with
  | nil => intro _; rfl
  | cons a rest ih =>
    intro h
    rw [List.filterMap_cons, List.filterMap_cons, h a (by simp), ih (fun b hb => h b (List.mem_cons_of_mem _ hb))]

theorem eventBlocks_congr (c c' : Chain) (f t : Nat) (h : ∀ b, f ≤ b → b ≤ t → c b = c' b) :
    eventBlocks c f t = eventBlocks c' f t := by
  unfold eventBlocks
  apply filterMap_congr_ext
  intro b hb
  rw [List.mem_range'_1] at hb
  rw [h b hb.1 (by omega)]

theorem eventBlocks_nil (c : Chain) (f t : Nat) (h : ∀ b, f ≤ b → b ≤ t → c b = none) : eventBlocks c f t = [] := by
  apply List.eq_nil_iff_forall_not_mem.mpr
  intro be hbe
  have := (mem_eventBlocks c f t be.1 be.2).mp hbe
  rw [h be.1 this.1 this.2.1] at this
  simp at this

theorem specRows_congr (c c' : Chain) (t : Nat) (h : ∀ b, 1 ≤ b → b ≤ t → c b = c' b) : specRows c t = specRows c' t := by
  rw [specRows_eq, specRows_eq, eventBlocks_congr c c' 1 t h]

/-- folding insert-only events appends one row per event -/
theorem fold_inserts : ∀ (bes : List (Nat × GEv)) (rows : List Row),
    (∀ be ∈ bes, ∀ g, be.2 ≠ .remove g) →
    ∃ extra : List Row, bes.foldl applyEv rows = rows ++ extra ∧ ∀ r ∈ extra, ∃ be ∈ bes, r.blockNum = be.1 := by
  intro bes
  induction bes with
  | nil => intro rows _; exact ⟨[], by simp, by simp⟩
  | cons be rest ih =>
    intro rows hins
    simp only [List.foldl_cons]
    cases hbe : be.2 with
    | remove g => exact absurd hbe (hins be (by simp) g)
    | insert g i =>
      obtain ⟨extra, h1, h2⟩ := ih (applyEv rows be) (fun b hb => hins b (List.mem_cons_of_mem _ hb))
      refine ⟨{ blockNum := be.1, ger := g, idx := i } :: extra, ?_, ?_⟩
      · rw [h1]; unfold applyEv; simp [hbe]
      · intro r hr
        rcases List.mem_cons.mp hr with h | h
        · exact ⟨be, by simp, by rw [h]⟩
        · obtain ⟨b, hb, e⟩ := h2 r h; exact ⟨b, List.mem_cons_of_mem _ hb, e⟩

/-- rows of the specification carry block numbers of event blocks at or below `t` -/
theorem fold_blockNum : ∀ (bes : List (Nat × GEv)) (rows : List Row) (t : Nat),
    (∀ r ∈ rows, r.blockNum ≤ t) → (∀ be ∈ bes, be.1 ≤ t) → ∀ r ∈ bes.foldl applyEv rows, r.blockNum ≤ t := by
  intro bes
  induction bes with
  | nil => intro rows t h _; simpa using h
  | cons be rest ih =>
    intro rows t h hb
    simp only [List.foldl_cons]
    apply ih _ t _ (fun b hb' => hb b (List.mem_cons_of_mem _ hb'))
    intro r hr
    unfold applyEv at hr
    cases hbe : be.2 with
    | insert g i =>
      simp only [hbe, List.mem_append, List.mem_singleton] at hr
      rcases hr with hr | hr
      · exact h r hr
      · subst hr; exact hb be (by simp)
    | remove g =>
      simp only [hbe] at hr
      exact h r (List.mem_filter.mp hr).1

theorem specRows_blockNum (c : Chain) (t : Nat) : ∀ r ∈ specRows c t, r.blockNum ≤ t := by
  rw [specRows_eq]
  apply fold_blockNum _ _ t (by simp)
  intro be hbe
  exact ((mem_eventBlocks c 1 t be.1 be.2).mp hbe).2.1

theorem lpb_le (c : Chain) (s : St) (inv : Inv c s) : lpb s ≤ s.from_ - 1 := by
  unfold lpb
  rcases foldl_max_mem s.blocks 0 with h | h
  · omega
  · have h' : List.foldl max 0 s.blocks ∈ (eventBlocks c 1 (s.from_ - 1)).map (·.1) := by rw [← inv.blocks]; exact h
    obtain ⟨y, hy, e⟩ := List.mem_map.mp h'
    have := (mem_eventBlocks c 1 (s.from_ - 1) y.1 y.2).mp hy
    omega

/-- nothing with an event lies between the last stored block and the downloader's position -/
theorem no_event_above_lpb (c : Chain) (s : St) (inv : Inv c s) :
    ∀ b, lpb s + 1 ≤ b → b ≤ s.from_ - 1 → c b = none := by
  intro b h1 h2
  cases hc : c b with
  | none => rfl
  | some e =>
    exfalso
    have hm : (b, e) ∈ eventBlocks c 1 (s.from_ - 1) := (mem_eventBlocks c 1 _ b e).mpr ⟨by omega, h2, hc⟩
    have hb : b ∈ s.blocks := by rw [inv.blocks]; exact List.mem_map.mpr ⟨(b, e), hm, rfl⟩
    have := (foldl_max_ge s.blocks 0).2 b hb
    unfold lpb at h1; omega

/-- moving the downloader's position down to just after the last stored block keeps the refinement
    (what a restart does, and the last step of a reorg) -/
theorem reposition_inv (c : Chain) (s : St) (inv : Inv c s) : Inv c { s with from_ := lpb s + 1 } := by
  have hle := lpb_le c s inv
  have hnone := no_event_above_lpb c s inv
  have hsplit := eventBlocks_split c 1 (lpb s) (s.from_ - 1) (by omega) hle
  rw [eventBlocks_nil c (lpb s + 1) (s.from_ - 1) hnone, List.append_nil] at hsplit
  refine ⟨by simp, ?_, ?_⟩
  · simp only [Nat.add_sub_cancel]
    rw [inv.rows, specRows_eq, specRows_eq, hsplit]
  · simp only [Nat.add_sub_cancel]
    rw [inv.blocks, hsplit]

theorem restart_inv (c : Chain) (s : St) (inv : Inv c s) : Inv c (restart s) := reposition_inv c s inv

/-- the chain after a reorg at `first`: unchanged below, `c'` from there on -/
def forkChain (c : Chain) (first : Nat) (c' : Chain) : Chain := fun b => if b < first then c b else c' b

/-- **a reorg keeps the refinement** — provided none of the dropped, already processed blocks carried a REMOVAL
    (the excluded case is known finding F4: the row deleted by that removal does not come back) -/
theorem reorg_inv (c c' : Chain) (s : St) (first : Nat) (inv : Inv c s)
    (hnorm : ∀ b, first ≤ b → b ≤ s.from_ - 1 → ∀ g, c b ≠ some (.remove g)) :
    Inv (forkChain c first c') (reorg s first) := by
  let t := s.from_ - 1
  let m := min (first - 1) t
  have hm1 : m ≤ t := Nat.min_le_right _ _
  have hsplit := eventBlocks_split c 1 m t (by omega) hm1
  -- everything in the first part is kept, everything in the second part is dropped
  have hkeep : ∀ be ∈ eventBlocks c 1 m, be.1 < first := by
    intro be hbe
    have := (mem_eventBlocks c 1 m be.1 be.2).mp hbe
    have : m ≤ first - 1 := Nat.min_le_left _ _
    omega
  have hdrop : ∀ be ∈ eventBlocks c (m + 1) t, ¬ be.1 < first := by
    intro be hbe
    have h := (mem_eventBlocks c (m + 1) t be.1 be.2).mp hbe
    by_cases hc : first - 1 ≤ t
    · have : m = first - 1 := Nat.min_eq_left hc
      omega
    · have : m = t := Nat.min_eq_right (by omega)
      omega
  have hagree : ∀ b, 1 ≤ b → b ≤ m → c b = forkChain c first c' b := by
    intro b hb1 hb
    have : m ≤ first - 1 := Nat.min_le_left _ _
    unfold forkChain
    rw [if_pos (by omega)]
  have hcongr : eventBlocks c 1 m = eventBlocks (forkChain c first c') 1 m := eventBlocks_congr _ _ 1 m hagree
  -- the dropped part is insert-only
  have hins : ∀ be ∈ eventBlocks c (m + 1) t, ∀ g, be.2 ≠ .remove g := by
    intro be hbe g hg
    have h := (mem_eventBlocks c (m + 1) t be.1 be.2).mp hbe
    have hf : first ≤ be.1 := by have := hdrop be hbe; omega
    exact hnorm be.1 hf h.2.1 g (by rw [h.2.2, hg])
  obtain ⟨extra, hextra, hextraBlocks⟩ := fold_inserts (eventBlocks c (m + 1) t) (specRows c m) hins
  have hrowsT : specRows c t = specRows c m ++ extra := by
    rw [specRows_eq c t, hsplit, List.foldl_append, ← specRows_eq c m, hextra]
  have hstate : Inv (forkChain c first c')
      { blocks := s.blocks.filter (· < first), rows := s.rows.filter (fun r => r.blockNum < first), from_ := m + 1 } := by
    refine ⟨by simp, ?_, ?_⟩
    · simp only [Nat.add_sub_cancel]
      rw [inv.rows, hrowsT, List.filter_append]
      have h1 : (specRows c m).filter (fun r => decide (r.blockNum < first)) = specRows c m := by
        apply List.filter_eq_self.mpr
        intro r hr
        have := specRows_blockNum c m r hr
        have hm2 : m ≤ first - 1 := Nat.min_le_left _ _
        by_cases hf : first = 0
        · -- then m = 0 and the specification has no rows at all
          exfalso
          have hm0 : m = 0 := by omega
          rw [hm0] at hr
          simp [specRows, eventBlocks] at hr
        · simp; omega
      have h2 : extra.filter (fun r => decide (r.blockNum < first)) = [] := by
        apply List.filter_eq_nil_iff.mpr
        intro r hr
        obtain ⟨be, hbe, e⟩ := hextraBlocks r hr
        have := hdrop be hbe
        simp; omega
      rw [h1, h2, List.append_nil, specRows_congr c (forkChain c first c') m]
      exact hagree
    · simp only [Nat.add_sub_cancel]
      rw [inv.blocks, hsplit, List.map_append, List.filter_append]
      have h1 : ((eventBlocks c 1 m).map (·.1)).filter (fun x => decide (x < first)) = (eventBlocks c 1 m).map (·.1) := by
        apply List.filter_eq_self.mpr
        intro x hx
        obtain ⟨be, hbe, e⟩ := List.mem_map.mp hx
        have := hkeep be hbe
        simp; omega
      have h2 : ((eventBlocks c (m + 1) t).map (·.1)).filter (fun x => decide (x < first)) = [] := by
        apply List.filter_eq_nil_iff.mpr
        intro x hx
        obtain ⟨be, hbe, e⟩ := List.mem_map.mp hx
        have := hdrop be hbe
        simp; omega
      rw [h1, h2, List.append_nil, hcongr]
  have := reposition_inv _ _ hstate
  exact this


/-! ### the full history: polls, restarts and reorgs -/

inductive GOp where
  | poll (tip : Nat)
  | restart
  | reorg (first : Nat) (newChain : Chain)    -- blocks ≥ first are replaced by those of `newChain`

def stepOp (cs : Chain × St) : GOp → Chain × St
  | .poll t => (cs.1, pollPP cs.1 cs.2 t)
  | .restart => (cs.1, restart cs.2)
  | .reorg f c' => (forkChain cs.1 f c', reorg cs.2 f)

/-- the one excluded situation (known finding F4): a reorg that drops an already processed REMOVAL -/
def OpOK (cs : Chain × St) : GOp → Prop
  | .reorg f _ => ∀ b, f ≤ b → b ≤ cs.2.from_ - 1 → ∀ g, cs.1 b ≠ some (.remove g)
  | _ => True

def OpsOK : Chain × St → List GOp → Prop
  | _, [] => True
  | cs, op :: rest => OpOK cs op ∧ OpsOK (stepOp cs op) rest

theorem stepOp_inv (cs : Chain × St) (op : GOp) (inv : Inv cs.1 cs.2) (hok : OpOK cs op) :
    Inv (stepOp cs op).1 (stepOp cs op).2 := by
  cases op with
  | poll t => exact pollPP_inv cs.1 cs.2 t inv
  | restart => exact restart_inv cs.1 cs.2 inv
  | reorg f c' => exact reorg_inv cs.1 c' cs.2 f inv hok

theorem runOps_inv : ∀ (ops : List GOp) (cs : Chain × St), Inv cs.1 cs.2 → OpsOK cs ops →
    Inv (ops.foldl stepOp cs).1 (ops.foldl stepOp cs).2 := by
  intro ops
  induction ops with
  | nil => intro cs inv _; exact inv
  | cons op rest ih =>
    intro cs inv hok
    simp only [List.foldl_cons]
    exact ih _ (stepOp_inv cs op inv hok.1) hok.2

/-- **C16 (table, full history)**: after ANY sequence of polls (tips advancing by any amount), restarts of the node at any
    point and reorgs at any block — as long as no reorg drops an already processed removal (F4) — the table holds exactly
    the injected, not-removed GERs of the CURRENT chain's blocks up to the downloader's position. -/
theorem C16_table_ops (c0 : Chain) (ops : List GOp) (hok : OpsOK (c0, {}) ops) :
    let cs := ops.foldl stepOp (c0, {})
    cs.2.rows = specRows cs.1 (cs.2.from_ - 1) :=
  (runOps_inv ops (c0, {}) (init_inv c0) hok).rows

/-- **C16 (query, full history)** -/
theorem C16_query_ops (c0 : Chain) (ops : List GOp) (hok : OpsOK (c0, {}) ops) (x : Nat) :
    let cs := ops.foldl stepOp (c0, {})
    (∀ r, firstAfter cs.2 x = some r →
        r ∈ specRows cs.1 (cs.2.from_ - 1) ∧ r.idx ≥ x ∧ ∀ r' ∈ specRows cs.1 (cs.2.from_ - 1), r'.idx ≥ x → r.idx ≤ r'.idx) ∧
    ((∃ r ∈ specRows cs.1 (cs.2.from_ - 1), r.idx ≥ x) → ∃ r, firstAfter cs.2 x = some r) := by
  intro cs
  have hrows := C16_table_ops c0 ops hok
  have := firstAfter_spec cs.2 x
  rw [hrows] at this
  exact this

/-- the excluded case is real (F4): insertion in block 1, removal in block 2, both processed, reorg of block 2 — the row
    does not come back although the current chain still has the insertion and no removal -/
theorem C16_reorg_false_with_removal :
    let c0 : Chain := fun b => if b = 1 then some (.insert 7 0) else if b = 2 then some (.remove 7) else none
    let cs := [GOp.poll 2, GOp.reorg 2 (fun _ => none)].foldl stepOp (c0, {})
    cs.2.rows = [] ∧ specRows cs.1 (cs.2.from_ - 1) = [{ blockNum := 1, ger := 7, idx := 0 }] := by
  decide

/-- non-vacuity: a history with a restart and a reorg that meets the hypothesis -/
def exChain : Chain := fun b => if b = 2 then some (.insert 1 10) else if b = 5 then some (.insert 2 11) else none
def exOps : List GOp := [.poll 3, .restart, .poll 6, .reorg 5 (fun b => if b = 6 then some (.insert 3 12) else none), .poll 8]
example : OpsOK (exChain, {}) exOps := by
  simp only [OpsOK, OpOK, exOps]
  refine ⟨trivial, trivial, trivial, ?_, trivial, trivial⟩
  intro b h1 h2 g
  simp only [List.foldl, stepOp, exChain] at h2 ⊢
  have : b = 5 ∨ b = 6 := by
    have : (pollPP exChain (restart (pollPP exChain {} 3)) 6).from_ = 7 := by decide
    omega
  rcases this with h | h <;> subst h <;> simp
example : ((exOps.foldl stepOp (exChain, {})).2.rows.map (fun r => (r.blockNum, r.ger))) = [(2, 1), (6, 3)] := by decide

/-! ### FEP mode: the downloader reads the L2 GER map against the L1 info leaves -/

/-- one FEP poll: the tip and what the L2 GER map answers at that moment -/
abbrev FPoll := Nat × (Nat → Bool)

def runFEP (leaves : List (Nat × Nat)) (polls : List FPoll) (f : FSt) : FSt :=
  polls.foldl (fun acc p => pollFEP leaves p.2 acc p.1) f

/-- what a row of the FEP table means: it is an L1 info leaf that the L2 GER map held when the block was polled -/
def FepRowOK (leaves : List (Nat × Nat)) (polls : List FPoll) (r : Row) : Prop :=
  ∃ p ∈ polls, p.1 = r.blockNum ∧ (r.idx, r.ger) ∈ leaves ∧ p.2 r.ger = true

structure FInv (leaves : List (Nat × Nat)) (polls : List FPoll) (f : FSt) : Prop where
  rows : ∀ r ∈ f.st.rows, FepRowOK leaves polls r
  below : ∀ b ∈ f.st.blocks, b ≤ f.st.from_
  rowBlocks : ∀ r ∈ f.st.rows, r.blockNum ∈ f.st.blocks

theorem getLast?_mem {α} : ∀ (l : List α) (x : α), l.getLast? = some x → x ∈ l := by
  intro l x h
  exact List.mem_of_getLast? h

theorem pollFEP_inv (leaves : List (Nat × Nat)) (done : List FPoll) (p : FPoll) (f : FSt)
    (inv : FInv leaves done f) : FInv leaves (done ++ [p]) (pollFEP leaves p.2 f p.1) := by
  have weaken : ∀ r, FepRowOK leaves done r → FepRowOK leaves (done ++ [p]) r := by
    intro r ⟨q, hq, h⟩; exact ⟨q, by simp [hq], h⟩
  unfold pollFEP
  by_cases h : p.1 ≤ f.st.from_
  · rw [if_pos h]
    exact ⟨fun r hr => weaken r (inv.rows r hr), inv.below, inv.rowBlocks⟩
  · rw [if_neg h]
    have hnc : f.st.blocks.contains p.1 = false := by
      rw [Bool.eq_false_iff]; intro hc
      have hm : p.1 ∈ f.st.blocks := by simpa using hc
      have := inv.below _ hm; omega
    cases hl : (leaves.filter (fun l => decide (l.1 ≥ f.nextIndex) && p.2 l.2)).getLast? with
    | none =>
      simp only [hl, Option.map_none, processBlock, hnc, Bool.false_eq_true, if_false]
      refine ⟨fun r hr => weaken r (inv.rows r hr), ?_, ?_⟩
      · intro b hb
        simp only [List.mem_append, List.mem_singleton] at hb
        rcases hb with hb | hb
        · have := inv.below b hb; simp only; omega
        · subst hb; exact Nat.le_refl _
      · intro r hr; simp only [List.mem_append]; exact Or.inl (inv.rowBlocks r hr)
    | some l =>
      have hmem := List.mem_filter.mp (getLast?_mem _ _ hl)
      simp only [hl, Option.map_some, processBlock, hnc, Bool.false_eq_true, if_false]
      refine ⟨?_, ?_, ?_⟩
      · intro r hr
        simp only [List.mem_append, List.mem_singleton] at hr
        rcases hr with hr | hr
        · exact weaken r (inv.rows r hr)
        · subst hr
          refine ⟨p, by simp, rfl, hmem.1, ?_⟩
          have := hmem.2; simp only [Bool.and_eq_true] at this; exact this.2
      · intro b hb
        simp only [List.mem_append, List.mem_singleton] at hb
        rcases hb with hb | hb
        · have := inv.below b hb; simp only; omega
        · subst hb; exact Nat.le_refl _
      · intro r hr
        simp only [List.mem_append, List.mem_singleton] at hr ⊢
        rcases hr with hr | hr
        · exact Or.inl (inv.rowBlocks r hr)
        · subst hr; exact Or.inr rfl

/-- **C16 (FEP, soundness)**: after any sequence of polls of the FEP downloader — any tips, the L2 GER map answering
    differently at every poll — every row of the index is an L1 info leaf which the L2 GER map held at the poll of
    the block the row is filed under. Nothing the L2 contract never held gets into the index. -/
theorem C16_fep_sound (leaves : List (Nat × Nat)) (polls : List FPoll) :
    ∀ r ∈ (runFEP leaves polls {}).st.rows, FepRowOK leaves polls r := by
  have key : ∀ (todo done : List FPoll) (f : FSt), FInv leaves done f →
      FInv leaves (done ++ todo) (runFEP leaves todo f) := by
    intro todo
    induction todo with
    | nil => intro done f inv; simpa [runFEP] using inv
    | cons p ps ih =>
      intro done f inv
      have := ih (done ++ [p]) _ (pollFEP_inv leaves done p f inv)
      simpa [runFEP, List.append_assoc] using this
  have h0 : FInv leaves [] ({} : FSt) := ⟨by simp, by simp, by simp⟩
  have := key polls [] {} h0
  simpa using this.rows

/-- **C16 (FEP, choice)**: the row filed at a poll is the LAST injected leaf at or after the downloader's start index
    (with the leaves in index order: the greatest injected index) -/
theorem C16_fep_latest (leaves : List (Nat × Nat)) (inj : Nat → Bool) (f : FSt) (tip : Nat) (h : f.st.from_ < tip)
    (hnew : tip ∉ f.st.blocks) :
    (pollFEP leaves inj f tip).st.rows = f.st.rows ++
      (match (leaves.filter (fun l => decide (l.1 ≥ f.nextIndex) && inj l.2)).getLast? with
       | some l => [{ blockNum := tip, ger := l.2, idx := l.1 }]
       | none => []) := by
  have hnc : f.st.blocks.contains tip = false := by
    rw [Bool.eq_false_iff]; intro hc; exact hnew (by simpa using hc)
  unfold pollFEP
  rw [if_neg (by omega)]
  cases hl : (leaves.filter (fun l => decide (l.1 ≥ f.nextIndex) && inj l.2)).getLast? <;>
    simp only [hl, Option.map_none, Option.map_some, processBlock, hnc, Bool.false_eq_true, if_false, List.append_nil]

/-- non-vacuity: two polls, the GER map learns leaf 1 between them -/
example : ((runFEP [(0, 100), (1, 101)] [(5, fun g => g == 100), (9, fun g => g == 100 || g == 101)] {}).st.rows.map
    (fun r => (r.blockNum, r.ger, r.idx))) = [(5, 100, 0), (9, 101, 1)] := by decide

/-- what the model takes from the source (regenerated on every run): inside the injected-GER processor's block
    transaction every failing statement leaves the function with the error (the only locally handled error is the
    rollback's own), and the transaction is rolled back unless the commit succeeded — `poll!` = `poll` rests on this -/
theorem C16_code_facts :
    Gen.SyncFacts.errHandledLocally_gerProcessor = ["ProcessBlock:tx.Rollback"] ∧
    Gen.SyncFacts.rollbackGuard_ger = "FLAG" ∧
    Gen.SyncFacts.rollbackFlagFlow_ger = ["FLAG := true", "Commit", "FLAG = false"] ∧
    -- `Reorg` (and every other writer) reports its failures: the only error turned into success is "no block yet"
    Gen.SyncFacts.errToNil_gerProcessor = ["GetLastProcessedBlock:?"] := by decide

end Aggkit.LastGER
