import AggkitModel.Model.LastGER
/-
C16 — the injected-GER index reflects what was really injected on L2 (PP mode).
For every L2 chain (at most one GER event per block), every sequence of polls with tips advancing by ANY
amount: the table equals the fold of the GER events of all blocks up to the last tip seen, hence the query
returns the first injected, not-removed root at or after the requested index, and finds one whenever one exists.
Known gap (finding F4): a removal that is later reorged away is not undone — reorgs are covered by the
correspondence run and the KNOWN-FINDING replay, not by these theorems.
-/
namespace Aggkit.LastGER

/-- the specification's step -/
def applyEv (rows : List Row) (be : Nat × GEv) : List Row :=
  match be.2 with
  | .insert g i => rows ++ [{ blockNum := be.1, ger := g, idx := i }]
  | .remove g => rows.filter (fun r => r.ger != g)

theorem specRows_eq (chain : Chain) (t : Nat) : specRows chain t = (eventBlocks chain 1 t).foldl applyEv [] := by
  unfold specRows
  congr 1

theorem eventBlocks_split (chain : Chain) (f m t : Nat) (h1 : f ≤ m + 1) (h2 : m ≤ t) :
    eventBlocks chain f t = eventBlocks chain f m ++ eventBlocks chain (m + 1) t := by
  unfold eventBlocks
  rw [← List.filterMap_append]
  congr 1
  have e : t + 1 - f = (m + 1 - f) + (t + 1 - (m + 1)) := by omega
  have := List.range'_append (s := f) (m := m + 1 - f) (n := t + 1 - (m + 1)) (step := 1)
  rw [e, ← this]
  congr 2; omega

theorem mem_eventBlocks (chain : Chain) (f t b : Nat) (e : GEv) :
    (b, e) ∈ eventBlocks chain f t ↔ (f ≤ b ∧ b ≤ t ∧ chain b = some e) := by
  unfold eventBlocks
  rw [List.mem_filterMap]
  constructor
  · intro ⟨a, ha, hfa⟩
    rw [List.mem_range'_1] at ha
    cases hc : chain a with
    | none => simp [hc] at hfa
    | some e' =>
      simp only [hc, Option.map_some, Option.some.injEq, Prod.mk.injEq] at hfa
      obtain ⟨rfl, rfl⟩ := hfa
      exact ⟨ha.1, by omega, hc⟩
  · intro ⟨h1, h2, h3⟩
    exact ⟨b, by rw [List.mem_range'_1]; omega, by simp [h3]⟩

/-- the downloader/processor state refines "all GER events of the blocks below `from`" -/
structure Inv (chain : Chain) (s : St) : Prop where
  pos : 1 ≤ s.from_
  rows : s.rows = specRows chain (s.from_ - 1)
  blocks : s.blocks = (eventBlocks chain 1 (s.from_ - 1)).map (·.1)

/-- processing a list of event blocks that are all new -/
theorem fold_process (chain : Chain) : ∀ (bes : List (Nat × GEv)) (s : St),
    (∀ be ∈ bes, ∀ x ∈ s.blocks, x < be.1) → bes.Pairwise (fun a b => a.1 < b.1) →
    (bes.foldl (fun acc be => (processBlock acc be.1 (some be.2)).1) s).rows = bes.foldl applyEv s.rows ∧
    (bes.foldl (fun acc be => (processBlock acc be.1 (some be.2)).1) s).blocks = s.blocks ++ bes.map (·.1) ∧
    (bes.foldl (fun acc be => (processBlock acc be.1 (some be.2)).1) s).from_ = s.from_ := by
  intro bes
  induction bes with
  | nil => intro s _ _; simp
  | cons be rest ih =>
    intro s hnew hsorted
    simp only [List.foldl_cons]
    have hnc : s.blocks.contains be.1 = false := by
      rw [Bool.eq_false_iff]; intro hc
      have hm : be.1 ∈ s.blocks := by simpa using hc
      have := hnew be (by simp) be.1 hm; omega
    have hstep : (processBlock s be.1 (some be.2)).1 =
        { s with blocks := s.blocks ++ [be.1], rows := applyEv s.rows be } := by
      unfold processBlock applyEv
      simp only [hnc, Bool.false_eq_true, if_false]
      cases be.2 <;> rfl
    rw [hstep]
    have hs2 := List.pairwise_cons.mp hsorted
    obtain ⟨r1, r2, r3⟩ := ih { s with blocks := s.blocks ++ [be.1], rows := applyEv s.rows be }
      (by
        intro b hb x hx
        simp only [List.mem_append, List.mem_singleton] at hx
        rcases hx with h | h
        · exact hnew b (by simp [hb]) x h
        · subst h; exact hs2.1 b hb)
      hs2.2
    exact ⟨r1, by rw [r2]; simp, r3⟩

theorem eventBlocks_sorted (chain : Chain) (f t : Nat) : (eventBlocks chain f t).Pairwise (fun a b => a.1 < b.1) := by
  unfold eventBlocks
  apply List.Pairwise.filterMap _ _ (List.pairwise_lt_range' (s := f) (n := t + 1 - f))
  intro a a' hlt b hb b' hb'
  cases h1 : chain a <;> cases h2 : chain a' <;> simp_all
  obtain ⟨rfl, _⟩ := hb; obtain ⟨rfl, _⟩ := hb'; exact hlt

/-- **one poll, whatever the new tip** -/
theorem pollPP_inv (chain : Chain) (s : St) (tip : Nat) (inv : Inv chain s) : Inv chain (pollPP chain s tip) := by
  unfold pollPP
  by_cases h : tip < s.from_
  · rw [if_pos h]; exact inv
  · rw [if_neg h]
    have hnew : ∀ be ∈ eventBlocks chain s.from_ tip, ∀ x ∈ s.blocks, x < be.1 := by
      intro be hbe x hx
      rw [inv.blocks] at hx
      obtain ⟨y, hy, rfl⟩ := List.mem_map.mp hx
      have h1 := (mem_eventBlocks chain 1 (s.from_ - 1) y.1 y.2).mp hy
      have h2 := (mem_eventBlocks chain s.from_ tip be.1 be.2).mp hbe
      have := inv.pos; omega
    obtain ⟨r1, r2, r3⟩ := fold_process chain (eventBlocks chain s.from_ tip) s hnew (eventBlocks_sorted chain _ _)
    have hsplit := eventBlocks_split chain 1 (s.from_ - 1) tip (by have := inv.pos; omega) (by omega)
    have hf : s.from_ - 1 + 1 = s.from_ := by have := inv.pos; omega
    rw [hf] at hsplit
    constructor
    · simp
    · simp only [Nat.add_sub_cancel]
      rw [r1, inv.rows, specRows_eq, specRows_eq, hsplit, List.foldl_append]
    · simp only [Nat.add_sub_cancel]
      rw [r2, inv.blocks, hsplit, List.map_append]

theorem init_inv (chain : Chain) : Inv chain {} := by
  refine ⟨by decide, ?_, ?_⟩ <;> simp [specRows, eventBlocks]

/-- **C16 (table)**: after any sequence of polls — tips advancing by any amount, repeated or lagging tips — the
    table holds exactly the injected, not-removed GERs of all blocks up to the furthest tip seen -/
theorem C16_table (chain : Chain) (tips : List Nat) :
    let s := tips.foldl (pollPP chain) {}
    s.rows = specRows chain (s.from_ - 1) ∧ ∀ t ∈ tips, t < s.from_ := by
  intro s
  have key : ∀ (tips : List Nat) (s0 : St), Inv chain s0 →
      Inv chain (tips.foldl (pollPP chain) s0) ∧ s0.from_ ≤ (tips.foldl (pollPP chain) s0).from_ ∧
      ∀ t ∈ tips, t < (tips.foldl (pollPP chain) s0).from_ := by
    intro tips
    induction tips with
    | nil => intro s0 i0; exact ⟨i0, Nat.le_refl _, by simp⟩
    | cons t ts ih =>
      intro s0 i0
      simp only [List.foldl_cons]
      obtain ⟨a, b, c⟩ := ih _ (pollPP_inv chain s0 t i0)
      have hmono : s0.from_ ≤ (pollPP chain s0 t).from_ ∧ t < (pollPP chain s0 t).from_ := by
        unfold pollPP
        by_cases h : t < s0.from_
        · rw [if_pos h]; exact ⟨Nat.le_refl _, h⟩
        · rw [if_neg h]; simp; omega
      refine ⟨a, by omega, ?_⟩
      intro x hx
      rcases List.mem_cons.mp hx with h | h
      · subst h; omega
      · exact c x h
  obtain ⟨a, _, c⟩ := key tips {} (init_inv chain)
  exact ⟨a.rows, c⟩

/-- the query picks a row with the smallest index at or after `x`, and finds one whenever one exists -/
theorem firstAfter_spec (s : St) (x : Nat) :
    (∀ r, firstAfter s x = some r → r ∈ s.rows ∧ r.idx ≥ x ∧ ∀ r' ∈ s.rows, r'.idx ≥ x → r.idx ≤ r'.idx) ∧
    ((∃ r ∈ s.rows, r.idx ≥ x) → ∃ r, firstAfter s x = some r) := by
  unfold firstAfter
  have key : ∀ (l : List Row) (b0 : Option Row),
      (∀ r, l.foldl (fun best r => match best with
          | none => some r
          | some b => if r.idx < b.idx then some r else some b) b0 = some r →
        (r ∈ l ∨ b0 = some r) ∧ (∀ r' ∈ l, r.idx ≤ r'.idx) ∧ (∀ b, b0 = some b → r.idx ≤ b.idx)) ∧
      ((l ≠ [] ∨ b0.isSome) → ∃ r, l.foldl (fun best r => match best with
          | none => some r
          | some b => if r.idx < b.idx then some r else some b) b0 = some r) := by
    intro l
    induction l with
    | nil =>
      intro b0
      refine ⟨fun r h => ⟨Or.inr h, by simp, fun b hb => by simp at h; rw [h] at hb; simp at hb; rw [hb]; exact Nat.le_refl _⟩, ?_⟩
      intro h; rcases h with h | h
      · exact absurd rfl h
      · cases b0 with
        | none => simp at h
        | some b => exact ⟨b, rfl⟩
    | cons a rest ih =>
      intro b0
      simp only [List.foldl_cons]
      cases b0 with
      | none =>
        obtain ⟨i1, i2⟩ := ih (some a)
        refine ⟨fun r h => ?_, fun _ => i2 (Or.inr rfl)⟩
        obtain ⟨a1, a2, a3⟩ := i1 r h
        refine ⟨Or.inl ?_, ?_, by simp⟩
        · rcases a1 with h1 | h1
          · simp [h1]
          · simp at h1; simp [h1]
        · intro r' hr'
          rcases List.mem_cons.mp hr' with h2 | h2
          · subst h2; exact a3 _ rfl
          · exact a2 r' h2
      | some b =>
        simp only
        by_cases hlt : a.idx < b.idx
        · rw [if_pos hlt]
          obtain ⟨i1, i2⟩ := ih (some a)
          refine ⟨fun r h => ?_, fun _ => i2 (Or.inr rfl)⟩
          obtain ⟨a1, a2, a3⟩ := i1 r h
          refine ⟨?_, ?_, ?_⟩
          · rcases a1 with h1 | h1
            · exact Or.inl (by simp [h1])
            · simp at h1; exact Or.inl (by simp [h1])
          · intro r' hr'
            rcases List.mem_cons.mp hr' with h2 | h2
            · subst h2; exact a3 _ rfl
            · exact a2 r' h2
          · intro b' hb'; simp at hb'; subst hb'; have := a3 a rfl; omega
        · rw [if_neg hlt]
          obtain ⟨i1, i2⟩ := ih (some b)
          refine ⟨fun r h => ?_, fun _ => i2 (Or.inr rfl)⟩
          obtain ⟨a1, a2, a3⟩ := i1 r h
          refine ⟨?_, ?_, ?_⟩
          · rcases a1 with h1 | h1
            · exact Or.inl (by simp [h1])
            · exact Or.inr h1
          · intro r' hr'
            rcases List.mem_cons.mp hr' with h2 | h2
            · subst h2; have := a3 b rfl; omega
            · exact a2 r' h2
          · intro b' hb'; simp at hb'; subst hb'; exact a3 b rfl
  obtain ⟨k1, k2⟩ := key (s.rows.filter (fun r => r.idx ≥ x)) none
  constructor
  · intro r h
    obtain ⟨a1, a2, _⟩ := k1 r h
    rcases a1 with h1 | h1
    · have hm := List.mem_filter.mp h1
      refine ⟨hm.1, by simpa using hm.2, ?_⟩
      intro r' hr' hx
      exact a2 r' (List.mem_filter.mpr ⟨hr', by simpa using hx⟩)
    · simp at h1
  · intro ⟨r, hr, hx⟩
    apply k2
    left
    intro hnil
    have : r ∈ s.rows.filter (fun r => r.idx ≥ x) := List.mem_filter.mpr ⟨hr, by simpa using hx⟩
    rw [hnil] at this; simp at this

/-- **C16**: the query's answer after any polling history, in the property's own words -/
theorem C16_query (chain : Chain) (tips : List Nat) (x : Nat) :
    let s := tips.foldl (pollPP chain) {}
    (∀ r, firstAfter s x = some r →
        r ∈ specRows chain (s.from_ - 1) ∧ r.idx ≥ x ∧ ∀ r' ∈ specRows chain (s.from_ - 1), r'.idx ≥ x → r.idx ≤ r'.idx) ∧
    ((∃ r ∈ specRows chain (s.from_ - 1), r.idx ≥ x) → ∃ r, firstAfter s x = some r) := by
  intro s
  obtain ⟨hrows, _⟩ := C16_table chain tips
  have := firstAfter_spec s x
  rw [hrows] at this
  exact this

/-- non-vacuity: insert in block 3 and 7, tips 5 → 9 (the blocks between polls are not skipped) -/
example : (([5, 9].foldl (pollPP (fun b => if b = 3 then some (.insert 1 10) else if b = 7 then some (.insert 2 11) else none)) {}).rows.map (·.ger)) = [1, 2] := by
  decide

/-! ### FEP mode: the downloader reads the L2 GER map against the L1 info leaves -/

/-- one FEP poll: the tip and what the L2 GER map answers at that moment -/
abbrev FPoll := Nat × (Nat → Bool)

def runFEP (leaves : List (Nat × Nat)) (polls : List FPoll) (f : FSt) : FSt :=
  polls.foldl (fun acc p => pollFEP leaves p.2 acc p.1) f

/-- what a row of the FEP table means: it is an L1 info leaf that the L2 GER map held when the block was polled -/
def FepRowOK (leaves : List (Nat × Nat)) (polls : List FPoll) (r : Row) : Prop :=
  ∃ p ∈ polls, p.1 = r.blockNum ∧ (r.idx, r.ger) ∈ leaves ∧ p.2 r.ger = true

structure FInv (leaves : List (Nat × Nat)) (polls : List FPoll) (f : FSt) : Prop where
  rows : ∀ r ∈ f.st.rows, FepRowOK leaves polls r
  below : ∀ b ∈ f.st.blocks, b ≤ f.st.from_
  rowBlocks : ∀ r ∈ f.st.rows, r.blockNum ∈ f.st.blocks

theorem getLast?_mem {α} : ∀ (l : List α) (x : α), l.getLast? = some x → x ∈ l := by
  intro l x h
  exact List.mem_of_getLast? h

theorem pollFEP_inv (leaves : List (Nat × Nat)) (done : List FPoll) (p : FPoll) (f : FSt)
    (inv : FInv leaves done f) : FInv leaves (done ++ [p]) (pollFEP leaves p.2 f p.1) := by
  have weaken : ∀ r, FepRowOK leaves done r → FepRowOK leaves (done ++ [p]) r := by
    intro r ⟨q, hq, h⟩; exact ⟨q, by simp [hq], h⟩
  unfold pollFEP
  by_cases h : p.1 ≤ f.st.from_
  · rw [if_pos h]
    exact ⟨fun r hr => weaken r (inv.rows r hr), inv.below, inv.rowBlocks⟩
  · rw [if_neg h]
    have hnc : f.st.blocks.contains p.1 = false := by
      rw [Bool.eq_false_iff]; intro hc
      have hm : p.1 ∈ f.st.blocks := by simpa using hc
      have := inv.below _ hm; omega
    cases hl : (leaves.filter (fun l => decide (l.1 ≥ f.nextIndex) && p.2 l.2)).getLast? with
    | none =>
      simp only [hl, Option.map_none, processBlock, hnc, Bool.false_eq_true, if_false]
      refine ⟨fun r hr => weaken r (inv.rows r hr), ?_, ?_⟩
      · intro b hb
        simp only [List.mem_append, List.mem_singleton] at hb
        rcases hb with hb | hb
        · have := inv.below b hb; simp only; omega
        · subst hb; exact Nat.le_refl _
      · intro r hr; simp only [List.mem_append]; exact Or.inl (inv.rowBlocks r hr)
    | some l =>
      have hmem := List.mem_filter.mp (getLast?_mem _ _ hl)
      simp only [hl, Option.map_some, processBlock, hnc, Bool.false_eq_true, if_false]
      refine ⟨?_, ?_, ?_⟩
      · intro r hr
        simp only [List.mem_append, List.mem_singleton] at hr
        rcases hr with hr | hr
        · exact weaken r (inv.rows r hr)
        · subst hr
          refine ⟨p, by simp, rfl, hmem.1, ?_⟩
          have := hmem.2; simp only [Bool.and_eq_true] at this; exact this.2
      · intro b hb
        simp only [List.mem_append, List.mem_singleton] at hb
        rcases hb with hb | hb
        · have := inv.below b hb; simp only; omega
        · subst hb; exact Nat.le_refl _
      · intro r hr
        simp only [List.mem_append, List.mem_singleton] at hr ⊢
        rcases hr with hr | hr
        · exact Or.inl (inv.rowBlocks r hr)
        · subst hr; exact Or.inr rfl

/-- **C16 (FEP, soundness)**: after any sequence of polls of the FEP downloader — any tips, the L2 GER map answering
    differently at every poll — every row of the index is an L1 info leaf which the L2 GER map held at the poll of
    the block the row is filed under. Nothing the L2 contract never held gets into the index. -/
theorem C16_fep_sound (leaves : List (Nat × Nat)) (polls : List FPoll) :
    ∀ r ∈ (runFEP leaves polls {}).st.rows, FepRowOK leaves polls r := by
  have key : ∀ (todo done : List FPoll) (f : FSt), FInv leaves done f →
      FInv leaves (done ++ todo) (runFEP leaves todo f) := by
    intro todo
    induction todo with
    | nil => intro done f inv; simpa [runFEP] using inv
    | cons p ps ih =>
      intro done f inv
      have := ih (done ++ [p]) _ (pollFEP_inv leaves done p f inv)
      simpa [runFEP, List.append_assoc] using this
  have h0 : FInv leaves [] ({} : FSt) := ⟨by simp, by simp, by simp⟩
  have := key polls [] {} h0
  simpa using this.rows

/-- **C16 (FEP, choice)**: the row filed at a poll is the LAST injected leaf at or after the downloader's start index
    (with the leaves in index order: the greatest injected index) -/
theorem C16_fep_latest (leaves : List (Nat × Nat)) (inj : Nat → Bool) (f : FSt) (tip : Nat) (h : f.st.from_ < tip)
    (hnew : tip ∉ f.st.blocks) :
    (pollFEP leaves inj f tip).st.rows = f.st.rows ++
      (match (leaves.filter (fun l => decide (l.1 ≥ f.nextIndex) && inj l.2)).getLast? with
       | some l => [{ blockNum := tip, ger := l.2, idx := l.1 }]
       | none => []) := by
  have hnc : f.st.blocks.contains tip = false := by
    rw [Bool.eq_false_iff]; intro hc; exact hnew (by simpa using hc)
  unfold pollFEP
  rw [if_neg (by omega)]
  cases hl : (leaves.filter (fun l => decide (l.1 ≥ f.nextIndex) && inj l.2)).getLast? <;>
    simp only [hl, Option.map_none, Option.map_some, processBlock, hnc, Bool.false_eq_true, if_false, List.append_nil]

/-- non-vacuity: two polls, the GER map learns leaf 1 between them -/
example : ((runFEP [(0, 100), (1, 101)] [(5, fun g => g == 100), (9, fun g => g == 100 || g == 101)] {}).st.rows.map
    (fun r => (r.blockNum, r.ger, r.idx))) = [(5, 100, 0), (9, 101, 1)] := by decide

end Aggkit.LastGER
