import AggkitModel.Model.Certificate
import AggkitModel.Proofs.Bytes
import AggkitModel.Properties.C02
import AggkitModel.Generated.CertFacts
import AggkitModel.Generated.SyncFacts
/-
C03 — a built certificate's new exit root follows from its bridge exits (byte level; the protocol-level half —
which exits, which roots — is `C03_root` over the certificate machine, below).
-/
namespace Aggkit.Certificate
open Aggkit

/-- the hash function returns 32 bytes -/
def KLen (K : Bytes → Bytes) : Prop := ∀ m, (K m).length = 32

/-- **the exit the node puts into a certificate hashes, on the Agglayer's side, to exactly the leaf that the bridge
    event has in the L2 exit tree** — for every field value, empty and non-empty metadata alike -/
theorem C03_exit_leaf (K : Bytes → Bytes) (hK : KLen K) (b : BridgeEv) : exitHash K (toExit K b) = leafHash K b := by
  unfold exitHash toExit leafHash convertMeta
  simp only
  by_cases h : b.metadata.length > 0
  · rw [if_pos h]
    have : ¬ (K b.metadata).length = 0 := by rw [hK]; decide
    rw [if_neg this]
  · rw [if_neg h]
    have : b.metadata = [] := List.eq_nil_of_length_eq_zero (by omega)
    rw [this]; simp

/-- the exits are the events' fields, unchanged (metadata replaced by its hash, or dropped when empty) -/
theorem C03_exit_fields (K : Bytes → Bytes) (b : BridgeEv) :
    (toExit K b).leafType = b.leafType ∧ (toExit K b).origNet = b.origNet ∧ (toExit K b).origAddr = b.origAddr ∧
    (toExit K b).destNet = b.destNet ∧ (toExit K b).destAddr = b.destAddr ∧ (toExit K b).amount = b.amount ∧
    (toExit K b).metadata = (if b.metadata = [] then [] else K b.metadata) := by
  refine ⟨rfl, rfl, rfl, rfl, rfl, rfl, ?_⟩
  unfold toExit convertMeta
  simp only
  by_cases h : b.metadata = []
  · simp [h]
  · have : b.metadata.length > 0 := List.length_pos_iff.mpr h
    simp [h, this]

theorem bytesToHash_32 (m : Bytes) (h : m.length = 32) : bytesToHash m = m := by
  unfold bytesToHash; simp [h]

/-- **the leaf recomputed from the wire message equals the leaf the node hashed**: nothing covered by the exit hash is
    lost or altered by the conversion to the submission message -/
theorem C03_wire_leaf (K : Bytes → Bytes) (e : Exit) (h : e.metadata.length = 0 ∨ e.metadata.length = 32) :
    wireHash K (toWire e) = exitHash K e := by
  unfold wireHash toWire exitHash
  simp only
  rcases h with h | h
  · simp [h]
  · have : e.metadata.length > 0 := by omega
    simp [h, this, bytesToHash_32 _ h]

/-- exits produced by the node satisfy the width condition of `C03_wire_leaf` -/
theorem toExit_meta_len (K : Bytes → Bytes) (hK : KLen K) (b : BridgeEv) :
    (toExit K b).metadata.length = 0 ∨ (toExit K b).metadata.length = 32 := by
  unfold toExit convertMeta
  simp only
  split
  · right; exact hK _
  · left; rfl

/-! ### metadata -/

theorem seg (a b c : Bytes) (x : Nat) (rest : Bytes) (ha : a.length = 8) (hb : b.length = 4) (hc : c.length = 4) :
    ((2 :: (a ++ (b ++ (c ++ (x :: rest))))).drop 1).take 8 = a ∧
    ((2 :: (a ++ (b ++ (c ++ (x :: rest))))).drop 9).take 4 = b ∧
    ((2 :: (a ++ (b ++ (c ++ (x :: rest))))).drop 13).take 4 = c ∧
    ((2 :: (a ++ (b ++ (c ++ (x :: rest))))).drop 17).headD 0 = x := by
  have d8 : (a ++ (b ++ (c ++ (x :: rest)))).drop 8 = b ++ (c ++ (x :: rest)) := List.drop_left' ha
  have d4 : (b ++ (c ++ (x :: rest))).drop 4 = c ++ (x :: rest) := List.drop_left' hb
  have d4' : (c ++ (x :: rest)).drop 4 = x :: rest := List.drop_left' hc
  refine ⟨?_, ?_, ?_, ?_⟩
  · simp only [List.drop_succ_cons, List.drop_zero]; exact List.take_left' ha
  · simp only [List.drop_succ_cons]; rw [d8]; exact List.take_left' hb
  · simp only [List.drop_succ_cons]
    rw [show (12:Nat) = 8 + 4 from rfl, ← List.drop_drop, d8, d4]; exact List.take_left' hc
  · simp only [List.drop_succ_cons]
    rw [show (16:Nat) = 8 + (4 + 4) from rfl, ← List.drop_drop, d8, ← List.drop_drop, d4, d4']; rfl

private theorem p8 : (256:Nat)^8 = 2^64 := by decide
private theorem p4 : (256:Nat)^4 = 2^32 := by decide

/-- **the metadata of a certificate built for blocks `[f, t]` decodes to that range** (and to its creation time and
    type), provided the range is narrower than 2^32 blocks — the code truncates `uint32(ToBlock-FromBlock)` -/
theorem C03_metadata_roundtrip (f t cr ty : Nat) (hf : f < 2^64) (hft : f ≤ t) (hw : t - f < 2^32) (hcr : cr < 2^32)
    (hty : ty < 256) :
    ∃ m, metaFromHash (metaOfRange f t cr ty) = some m ∧ rangeOfMeta m = (f, t) ∧ m.createdAt = cr ∧ m.certType = ty ∧
      m.version = 2 := by
  unfold metaOfRange metaToHash
  rw [Nat.mod_eq_of_lt hw, Nat.mod_eq_of_lt hty]
  refine ⟨{ version := 2, fromBlock := f, offset := t - f, createdAt := cr, certType := ty }, ?_, ?_, rfl, rfl, rfl⟩
  · unfold metaFromHash
    have hw' : [2] ++ fillBE 8 f ++ fillBE 4 (t - f) ++ fillBE 4 cr ++ [ty] ++ List.replicate 14 0 =
        2 :: (fillBE 8 f ++ (fillBE 4 (t - f) ++ (fillBE 4 cr ++ (ty :: List.replicate 14 0)))) := by
      simp [List.append_assoc]
    rw [hw']
    obtain ⟨s1, s2, s3, s4⟩ := seg (fillBE 8 f) (fillBE 4 (t - f)) (fillBE 4 cr) ty (List.replicate 14 0)
      (fillBE_length _ _) (fillBE_length _ _) (fillBE_length _ _)
    simp only [List.head?_cons]
    rw [s1, s2, s3, s4, ofBE_fillBE, ofBE_fillBE, ofBE_fillBE, p8, p4,
      Nat.mod_eq_of_lt hf, Nat.mod_eq_of_lt hw, Nat.mod_eq_of_lt hcr]
  · simp [rangeOfMeta]; omega

end Aggkit.Certificate

/-! ### protocol level: which exits, which roots -/
namespace Aggkit.Aggsender
open Aggkit.CertRange

theorem expect_from_pos (cfg : Cfg) (pre : List ACert) : 1 ≤ (expect cfg pre).2.2 := by
  unfold expect; split <;> simp

/-- **C03, protocol level** (exit roots as leaf counts of the L2 exit tree; see `Model/Aggsender.lean`): for every
    certificate the Agglayer ever received, in every reachable state, the bridge exits are exactly the bridge events
    of its block range in chain order, their deposit counts are `prev, prev+1, …` — the leaves that follow the tree its
    previous exit root commits to — and its new exit root is the root after appending exactly these leaves. Together
    with `C03_exit_leaf` (each exit hashes to its event's leaf) and C01 (the stored root after `n` leaves is the
    Merkle root of the first `n` leaves) this is the hash-level statement. -/
theorem C03_root (s : Sys) (h : ChainOK s) (c : ACert) (hc : c ∈ s.agg) :
    c.bridges = bridgesIn s.l2 c.from_ c.to_ ∧ c.claims = claimsIn s.l2 c.from_ c.to_ ∧
    c.bridges.map (·.id) = List.range' c.prev c.bridges.length ∧ c.new = c.prev + c.bridges.length := by
  obtain ⟨_, hb, hcl⟩ := h.content c hc
  obtain ⟨hp, hn⟩ := h.roots c hc
  obtain ⟨i, hi, e⟩ := List.getElem_of_mem hc
  have hpos := h.position i hi
  rw [e] at hpos
  have h1 : 1 ≤ c.from_ := by
    have := expect_from_pos s.cfg (s.agg.take i)
    rw [← hpos.1] at this; exact this
  have hsp := cnt_split s.l2 h.l2sorted c.from_ c.to_ h1 (by omega)
  have hlen : cnt s.l2 c.to_ = c.prev + c.bridges.length := by
    unfold cnt; rw [hsp, List.length_append, hb, hp]; rfl
  refine ⟨hb, hcl, ?_, by rw [hn, hlen]⟩
  have hall := h.depositIds c.to_
  have hpre := h.depositIds (c.from_ - 1)
  rw [hsp, List.map_append, hpre, ← hp, hlen, ← hb, List.range_eq_range', List.range_eq_range',
    ← List.range'_append_1, Nat.zero_add] at hall
  exact List.append_cancel_left hall


/-- the start exit root the node falls back to is the root of the empty 32-level tree (the constant is compared with the
    independently computed root table by the harness; here: it is the value the model's `prev = 0` stands for) -/
theorem C03_code_facts :
    Gen.CertFacts.emptyLER = "0x27ae5ba08d7291c96c8cbddcc148bf48a6d68c7974b94356f53754ef6171d757" := by decide

/-- what "the certificate carries exactly the events of its block range" takes from the bridge store's read path
    (regenerated from the source on every run): no store function walks a result set without asking whether the walk ended
    on an error (a read that failed half way would otherwise pass for a complete, shorter answer), and the range reads of
    bridges and claims run inside the transaction that checked that the range is processed (one snapshot) -/
theorem C03_read_path_code_facts :
    Gen.SyncFacts.rowLoopsWithoutErrCheck = [] ∧
    Gen.SyncFacts.rangeQueryQuerier = ["GetBridges:tx", "GetClaims:tx"] := by decide

end Aggkit.Aggsender
