import AggkitModel.Model.BridgeStore
import AggkitModel.Properties.C01
import AggkitModel.Generated.Schema
set_option linter.unusedSectionVars false
/-
C04 — a reorg leaves the node exactly as if the dropped blocks had never been seen.
Tree half: `runHistory_inv` makes every tree query (roots by index / hash, proofs, leaves) a function of the
surviving leaves only; reorged-away forks, their rolled-back attempts and restarts leave no trace.
Table half (bridge store model): the cascade keeps exactly the rows of the surviving blocks.
Known gap (recorded finding F3, witness below): `RemoveLegacyToken` deletes rows of EARLIER blocks; reorging
the removing block does not bring them back — the full statement is false for histories with such events.
-/
namespace Aggkit.C04
open Aggkit Aggkit.BridgeStore

variable {α : Type} [DecidableEq α]

/-- **tree queries after a reorg = tree queries of a node that never saw the dropped blocks**:
    two well-formed histories with the same surviving leaves serve the same root for every deposit count
    (C01_partition_irrelevant), and `C08_appendonly` gives the same leaves and verifying proofs under those roots. -/
theorem C04_tree_roots (H : HashAlg α) (hinj : H.Inj) (n : Nat) (ops : List (HiOp α)) (b : Nat) (ops' fresh : List (HiOp α))
    (wf1 : WFhistory H n [] (ops ++ [.reorg b] ++ ops')) (wf2 : WFhistory H n [] fresh)
    (hsame : (absHistory [] (ops ++ [.reorg b] ++ ops')).map (·.2) = (absHistory [] fresh).map (·.2)) :
    ∀ i, i < ((absHistory [] fresh).map (·.2)).length →
      (getRootByIndex (runHistory H n (TM.init H n) (ops ++ [.reorg b] ++ ops')).db i).map (·.hash) =
      (getRootByIndex (runHistory H n (TM.init H n) fresh).db i).map (·.hash) := by
  intro i hi
  exact C01_partition_irrelevant H hinj n _ _ wf1 wf2 hsame i (by rw [hsame]; exact hi)

/-- the abstract effect of a reorg on a history is exactly "drop the blocks ≥ b" -/
theorem C04_abs_reorg (rows : List (Nat × α)) (b : Nat) :
    HiOp.abs rows (.reorg b) = rows.filter (fun r => r.1 < b) := rfl

/-- **tables**: after `Reorg(b)` the block table and every event table hold exactly the entries of blocks `< b`
    (ON DELETE CASCADE), whatever was stored before -/
theorem C04_tables (H : HashAlg α) (n : Nat) (s : BP α) (b : Nat) :
    (reorg H n s b).blocks = s.blocks.filter (fun x => x < b) ∧
    (reorg H n s b).rows = s.rows.filter (fun r => r.blockNum < b) ∧
    ∀ r ∈ (reorg H n s b).rows, r.blockNum < b := by
  refine ⟨rfl, rfl, ?_⟩
  intro r hr
  simp only [reorg] at hr
  have := (List.mem_filter.mp hr).2
  simpa using this

/-- **the cascade the table model relies on is really declared, for every store, and enforced on every pooled
    connection**: facts REGENERATED on every run from `*/migrations/*.sql` ("Up" sections) and the DSN in
    `db/sqlite.go`; `reorg`'s row filter in the model is exactly `ON DELETE CASCADE` under these facts. -/
theorem C04_schema_cascades :
    (∀ t ∈ Aggkit.Gen.Schema.childTables, t.cascade = true) ∧ Aggkit.Gen.Schema.dsnForeignKeysOn = true ∧
    Aggkit.Gen.Schema.childTables.length ≥ 8 := by decide

/-- rows of a block that commits are appended after all earlier rows: for histories WITHOUT legacy-token
    removals, processing never touches rows of earlier blocks, so "rows of blocks < b" is exactly what a node
    that only processed those blocks holds. (one event step; `procEvents` is the fold of this) -/
theorem C04_event_keeps_earlier_rows (H : HashAlg α) (n : Nat) (fault : Option Nat) (bn : Nat) (w : Work α) (e : Ev α)
    (hnot : ∀ pos addr, e ≠ .rmLegacy pos addr) :
    ∃ extra, (procEvent H n fault bn w e).1.rows = w.rows ++ extra ∧ ∀ r ∈ extra, r.blockNum = bn := by
  have hrow : ∀ (w1 : Work α) (r : Row), r.blockNum = bn → w1.rows = w.rows →
      ∃ extra, (rowResult w1 (insertRow fault w1 r)).1.rows = w.rows ++ extra ∧ ∀ x ∈ extra, x.blockNum = bn := by
    intro w1 r hr hw
    unfold insertRow
    split
    · exact ⟨[], by simp [rowResult, hw], by simp⟩
    · split
      · exact ⟨[], by simp [rowResult, hw], by simp⟩
      · exact ⟨[r], by simp [rowResult, hw], by simp [hr]⟩
  cases e with
  | bridge pos dc leaf fk payload =>
    simp only [procEvent]
    split
    · refine ⟨[], ?_, by simp⟩
      unfold addFaulted; split <;> simp
    · cases hst : TM.step H n w.tm (.add bn pos dc leaf) with
      | mk tm' o =>
        cases o with
        | ok => simp only; exact hrow _ _ rfl rfl
        | root r => exact ⟨[], by simp, by simp⟩
        | badOp => exact ⟨[], by simp, by simp⟩
        | err e => cases e <;> exact ⟨[], by simp, by simp⟩
  | claim pos fk payload => simp only [procEvent]; exact hrow w _ rfl rfl
  | tokenMapping pos payload => simp only [procEvent]; exact hrow w _ rfl rfl
  | legacy pos addr payload => simp only [procEvent]; exact hrow w _ rfl rfl
  | rmLegacy pos addr => exact absurd rfl (hnot pos addr)

/-- **the full statement is false with legacy-token removals** (finding F3), on the model: a migration in
    block 1, its removal in block 2, reorg of block 2 — the migration row is gone, whereas a node that only
    ever processed block 1 still lists it. The same history is replayed on the real code by the
    `bridgestore` scenario (KNOWN-FINDING). -/
theorem C04_full_false_with_rmLegacy :
    let H : HashAlg Nat := { node := fun a b => a + b + 1, zero := 0 }
    let s0 := BP.init H 2
    let s1 := (processBlock H 2 s0 { num := 1, events := [.legacy 0 "tokenA" "row"] } none).1
    let s2 := (processBlock H 2 s1 { num := 2, events := [.rmLegacy 0 "tokenA"] } none).1
    (reorg H 2 s2 2).rows = [] ∧ s1.rows.length = 1 := by decide

end Aggkit.C04
