import AggkitModel.Model.BridgeStore
import AggkitModel.Properties.C01
import AggkitModel.Properties.C08
import AggkitModel.Generated.Schema
import AggkitModel.Generated.SyncFacts
set_option linter.unusedSectionVars false
/-
C04 — a reorg leaves the node exactly as if the dropped blocks had never been seen.
Tree half: `runHistory_inv` makes every tree query (roots by index / hash, proofs, leaves) a function of the
surviving leaves only; reorged-away forks, their rolled-back attempts and restarts leave no trace.
Table half (bridge store model): the cascade keeps exactly the rows of the surviving blocks.
Known gap (recorded finding F3, witness below): `RemoveLegacyToken` deletes rows of EARLIER blocks; reorging
the removing block does not bring them back — the full statement is false for histories with such events.
-/
namespace Aggkit.C04
open Aggkit Aggkit.BridgeStore

variable {α : Type} [DecidableEq α]

/-- **tree queries after a reorg = tree queries of a node that never saw the dropped blocks**:
    two well-formed histories with the same surviving leaves serve the same root for every deposit count
    (C01_partition_irrelevant), and `C08_appendonly` gives the same leaves and verifying proofs under those roots. -/
theorem C04_tree_roots (H : HashAlg α) (hinj : H.Inj) (n : Nat) (ops : List (HiOp α)) (b : Nat) (ops' fresh : List (HiOp α))
    (wf1 : WFhistory H n [] (ops ++ [.reorg b] ++ ops')) (wf2 : WFhistory H n [] fresh)
    (hsame : (absHistory [] (ops ++ [.reorg b] ++ ops')).map (·.2) = (absHistory [] fresh).map (·.2)) :
    ∀ i, i < ((absHistory [] fresh).map (·.2)).length →
      (getRootByIndex (runHistory H n (TM.init H n) (ops ++ [.reorg b] ++ ops')).db i).map (·.hash) =
      (getRootByIndex (runHistory H n (TM.init H n) fresh).db i).map (·.hash) := by
  intro i hi
  exact C01_partition_irrelevant H hinj n _ _ wf1 wf2 hsame i (by rw [hsame]; exact hi)

/-- the abstract effect of a reorg on a history is exactly "drop the blocks ≥ b" -/
theorem C04_abs_reorg (rows : List (Nat × α)) (b : Nat) :
    HiOp.abs rows (.reorg b) = rows.filter (fun r => r.1 < b) := rfl

/-- **tables**: after `Reorg(b)` the block table and every event table hold exactly the entries of blocks `< b`
    (ON DELETE CASCADE), whatever was stored before -/
theorem C04_tables (H : HashAlg α) (n : Nat) (s : BP α) (b : Nat) :
    (reorg H n s b).blocks = s.blocks.filter (fun x => x < b) ∧
    (reorg H n s b).rows = s.rows.filter (fun r => r.blockNum < b) ∧
    ∀ r ∈ (reorg H n s b).rows, r.blockNum < b := by
  refine ⟨rfl, rfl, ?_⟩
  intro r hr
  simp only [reorg] at hr
  have := (List.mem_filter.mp hr).2
  simpa using this

/-- **the cascade the table model relies on is really declared, for every store, and enforced on every pooled
    connection**: facts REGENERATED on every run from `*/migrations/*.sql` ("Up" sections) and the DSN in
    `db/sqlite.go`; `reorg`'s row filter in the model is exactly `ON DELETE CASCADE` under these facts. -/
theorem C04_schema_cascades :
    (∀ t ∈ Aggkit.Gen.Schema.childTables, t.cascade = true) ∧ Aggkit.Gen.Schema.dsnForeignKeysOn = true ∧
    Aggkit.Gen.Schema.childTables.length ≥ 8 := by decide

/-- rows of a block that commits are appended after all earlier rows: for histories WITHOUT legacy-token
    removals, processing never touches rows of earlier blocks, so "rows of blocks < b" is exactly what a node
    that only processed those blocks holds. (one event step; `procEvents` is the fold of this) -/
theorem C04_event_keeps_earlier_rows (H : HashAlg α) (n : Nat) (fault : Option Nat) (bn : Nat) (w : Work α) (e : Ev α)
    (hnot : ∀ pos addr, e ≠ .rmLegacy pos addr) :
    ∃ extra, (procEvent H n fault bn w e).1.rows = w.rows ++ extra ∧ ∀ r ∈ extra, r.blockNum = bn := by
  have hrow : ∀ (w1 : Work α) (r : Row), r.blockNum = bn → w1.rows = w.rows →
      ∃ extra, (rowResult w1 (insertRow fault w1 r)).1.rows = w.rows ++ extra ∧ ∀ x ∈ extra, x.blockNum = bn := by
    intro w1 r hr hw
    unfold insertRow
    split
    · exact ⟨[], by simp [rowResult, hw], by simp⟩
    · split
      · exact ⟨[], by simp [rowResult, hw], by simp⟩
      · exact ⟨[r], by simp [rowResult, hw], by simp [hr]⟩
  cases e with
  | bridge pos dc leaf fk payload =>
    simp only [procEvent]
    split
    · refine ⟨[], ?_, by simp⟩
      unfold addFaulted; split <;> simp
    · cases hst : TM.step H n w.tm (.add bn pos dc leaf) with
      | mk tm' o =>
        cases o with
        | ok => simp only; exact hrow _ _ rfl rfl
        | root r => exact ⟨[], by simp, by simp⟩
        | badOp => exact ⟨[], by simp, by simp⟩
        | err e => cases e <;> exact ⟨[], by simp, by simp⟩
  | claim pos fk payload => simp only [procEvent]; exact hrow w _ rfl rfl
  | tokenMapping pos payload => simp only [procEvent]; exact hrow w _ rfl rfl
  | legacy pos addr payload => simp only [procEvent]; exact hrow w _ rfl rfl
  | rmLegacy pos addr => exact absurd rfl (hnot pos addr)

/-- **the full statement is false with legacy-token removals** (finding F3), on the model: a migration in
    block 1, its removal in block 2, reorg of block 2 — the migration row is gone, whereas a node that only
    ever processed block 1 still lists it. The same history is replayed on the real code by the
    `bridgestore` scenario (KNOWN-FINDING). -/
theorem C04_full_false_with_rmLegacy :
    let H : HashAlg Nat := { node := fun a b => a + b + 1, zero := 0 }
    let s0 := BP.init H 2
    let s1 := (processBlock H 2 s0 { num := 1, events := [.legacy 0 "tokenA" "row"] } none).1
    let s2 := (processBlock H 2 s1 { num := 2, events := [.rmLegacy 0 "tokenA"] } none).1
    (reorg H 2 s2 2).rows = [] ∧ s1.rows.length = 1 := by decide

end Aggkit.C04

namespace Aggkit
variable {α : Type} [DecidableEq α]

/-- **a reorg of the updatable tree, then the new fork** (C04 for the rollup exit tree): upserts `us1` (blocks below `b`), upserts
    `us2` (blocks from `b` on), `Reorg(b)`, then the new fork's upserts `us3`. The tree answers exactly as the specification
    of the history `us1 ++ us3` says — the roots returned for the new fork are the spec roots of its versions, and the
    store serves every version of `us1` and of the new fork with verifying proofs; the dropped versions leave nothing
    behind that could change an answer (their nodes stay in the node table, harmlessly). -/
theorem C04_updatable_reorg (H : HashAlg α) (hinj : H.Inj) (n : Nat) (us1 us2 us3 : List (Ups α)) (b : Nat)
    (h1 : ∀ u ∈ us1, u.bn < b) (h2 : ∀ u ∈ us2, b ≤ u.bn)
    (hk1 : KeysInc (0, 0) us1) (hk2 : KeysInc (finalK (0, 0) us1) us2) (hk3 : KeysInc (finalK (0, 0) us1) us3)
    (hpos : ∀ u ∈ us1 ++ us2 ++ us3, u.pos < 2^n)
    (db12 : TreeDb α) (r12 : List α) (hrun12 : runUps H n {} (us1 ++ us2) = some (db12, r12))
    (db : TreeDb α) (r3 : List α) (hrun3 : runUps H n (db12.reorg b) us3 = some (db, r3)) :
    let f1 := finalF (fun _ => H.zero) us1
    let W1 := finalW (fun _ => False) us1
    r3 = (versions f1 W1 us3).map (fun v => tn H v.1 n 0) ∧
    ∀ v ∈ versions (fun _ => H.zero) (fun _ => False) us1 ++ versions f1 W1 us3, ∀ p, v.2 p → p < 2^n →
      getLeaf n db p (tn H v.1 n 0) = .ok (v.1 p) ∧
      calcRoot H (v.1 p) (getProof H n db p (tn H v.1 n 0)) p = tn H v.1 n 0 := by
  intro f1 W1
  have inv0 : UInv H n ({} : TreeDb α) (fun _ => H.zero) (fun _ => False) [] (0, 0) := by
    refine ⟨by intro nd h; simp at h, ?_, fun _ _ => rfl, ?_, by simp, by simp⟩
    · unfold lastRootHash getLastRoot
      simp only [List.foldl_nil]
      exact (tn_zero_of H _ n 0 (fun _ _ => rfl)).symm
    · intro h q _ ⟨p, hp, _⟩; exact absurd hp (by simp)
  obtain ⟨db1, ra, rb, hrun1, hrun2, _⟩ := runUps_append H n us1 us2 {} db12 r12 hrun12
  have hp1 : ∀ u ∈ us1, u.pos < 2^n := fun u hu => hpos u (by simp [hu])
  have hp2 : ∀ u ∈ us2, u.pos < 2^n := fun u hu => hpos u (by simp [hu])
  have hp3 : ∀ u ∈ us3, u.pos < 2^n := fun u hu => hpos u (by simp [hu])
  -- after `us1`
  obtain ⟨⟨vs1, i1, _⟩, hroots1, _⟩ := runUps_full H hinj n us1 {} _ _ [] (0, 0) inv0 hk1 hp1 db1 ra hrun1
  obtain ⟨q1, q2, q3⟩ := runUps_inv H hinj n us1 {} _ _ [] (0, 0) inv0 hk1 hp1 db1 ra hrun1
  -- after `us2` on top: the node table only grew, the root table got the rows of `us2`
  obtain ⟨⟨vs12, i12, _⟩, hroots2, ns2, hrht2⟩ := runUps_full H hinj n us2 db1 _ _ vs1 _ i1 hk2 hp2 db12 rb hrun2
  -- the reorg removes exactly the rows of `us2`
  have hre : (db12.reorg b).roots = db1.roots := by
    unfold TreeDb.reorg
    simp only
    rw [hroots2, List.filter_append]
    have ha : db1.roots.filter (fun r => decide (r.blockNum < b)) = db1.roots := by
      apply List.filter_eq_self.mpr
      intro x hx
      rw [hroots1] at hx
      simp only [List.nil_append] at hx
      obtain ⟨u, hu, e⟩ := rowsOf_bn H n us1 _ x hx
      have := h1 u hu
      simp; omega
    have hb : (rowsOf H n (finalF (fun _ => H.zero) us1) us2).filter (fun r => decide (r.blockNum < b)) = [] := by
      apply List.filter_eq_nil_iff.mpr
      intro x hx
      obtain ⟨u, hu, e⟩ := rowsOf_bn H n us2 _ x hx
      have := h2 u hu
      simp; omega
    rw [ha, hb, List.append_nil]
  have hrht : (db12.reorg b).rht = storeNodes db1.rht ns2 := by unfold TreeDb.reorg; simp only; exact hrht2
  -- so the reorged store satisfies the invariant of the state after `us1`
  have ire : UInv H n (db12.reorg b) f1 W1 vs1 (finalK (0, 0) us1) := by
    refine ⟨?_, ?_, i1.zo, ?_, ?_, ?_⟩
    · exact i12.cons
    · unfold lastRootHash getLastRoot; rw [hre]; exact i1.last
    · rw [hrht]; exact closed_mono H n _ _ _ _ i1.cur
    · intro v hv; obtain ⟨c1, c2⟩ := i1.old v hv; exact ⟨by rw [hrht]; exact closed_mono H n _ _ _ _ c1, c2⟩
    · intro r hr; rw [hre] at hr; exact i1.keys r hr
  obtain ⟨t1, t2, t3⟩ := runUps_inv H hinj n us3 (db12.reorg b) f1 W1 vs1 _ ire hk3 hp3 db r3 hrun3
  obtain ⟨_, _, ns3, hrht3⟩ := runUps_full H hinj n us3 (db12.reorg b) f1 W1 vs1 _ ire hk3 hp3 db r3 hrun3
  refine ⟨t1, ?_⟩
  intro v hv p hp hpb
  have hcz : Closed H n db.rht v.1 v.2 ∧ ZeroOutside H v.1 v.2 := by
    rcases List.mem_append.mp hv with h | h
    · obtain ⟨c1, c2⟩ := q3 v (by simp only [List.nil_append, List.mem_cons]; exact Or.inr h)
      refine ⟨?_, c2⟩
      rw [hrht3, hrht]
      exact closed_mono H n _ _ _ _ (closed_mono H n _ _ _ _ c1)
    · exact t3 v (by simp only [List.mem_append, List.mem_cons]; exact Or.inr (Or.inr h))
  constructor
  · exact getLeaf_spec H hinj n db v.1 v.2 t2 hcz.1 p hpb hp
  · unfold getProof
    rw [getSiblings_spec H hinj n db.rht v.1 v.2 t2 hcz.1 hcz.2 p hpb]
    exact calcRoot_spec H n v.1 p hpb

/-- what "the reorg was handled" rests on (regenerated from db/tx.go on every run): `Commit` reports every failure of the
    underlying commit — a `Reorg` that returns nil has committed its deletes — and runs the commit callbacks only after it -/
theorem C04_tx_code_facts :
    Gen.SyncFacts.errToNil_dbTx = [] ∧
    Gen.SyncFacts.txBody_Commit = "{ if err := s.SQLTxer.Commit(); err != nil { return err } for _, cb := range s.commitCallbacks { cb() } return nil }" := by
  decide

end Aggkit
