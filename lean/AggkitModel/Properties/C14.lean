import AggkitModel.Model.BridgeStore
import AggkitModel.Generated.QueryTable
/-
C14 — a syncer that detects an inconsistency fails stop.
(1) the table of exported entry points of both syncer facades is REGENERATED from the Go source on every
run; the theorem below is a `decide` over that whole finite table — the property's quantifier ("every
exported data-query entry point, including ones added later") is exactly this table. (2) facts about the
processors' ProcessBlock / Reorg extracted from source. (3) the state-machine half on the store model.
-/
namespace Aggkit.C14
open Aggkit.Gen.QueryTable Aggkit.BridgeStore

/-- entry points that do not serve data derived from the store (reviewed list) -/
def exempt : List String := ["Start", "OriginNetwork", "BlockFinality", "GetLastReorgEvent"]

/-- **every exported data query of both syncers starts with the halted guard** -/
theorem C14_all_queries_guarded : ∀ q ∈ queries, q.name ∉ exempt → q.guarded = true := by decide

/-- the facades expose at least the queries the properties talk about (non-vacuity of the table) -/
theorem C14_table_nonempty :
    (queries.filter (fun q => q.syncer = "BridgeSync")).length ≥ 10 ∧
    (queries.filter (fun q => q.syncer = "L1InfoTreeSync")).length ≥ 10 := by decide

/-- both processors refuse blocks while halted and clear the flag only through the number of block rows a
    reorg deleted, after its commit (facts extracted from bridgesync/processor.go, l1infotreesync/processor.go) -/
theorem C14_processor_facts :
    bridgeProcessBlockGuarded = true ∧ l1infoProcessBlockGuarded = true ∧
    bridgeReorgUnhaltsByBlockRows = true ∧ l1infoReorgUnhaltsByBlockRows = true := by decide

variable {α : Type} [DecidableEq α]

/-- while halted no block is accepted and nothing changes -/
theorem C14_refuses_while_halted (H : HashAlg α) (n : Nat) (s : BP α) (b : Block α) (f : Option Nat)
    (h : s.halted = true) : processBlock H n s b f = (s, .inconsistent) := by
  unfold processBlock; rw [if_pos h]

/-- the condition is cleared only by a reorg that actually removes processed blocks -/
theorem C14_unhalt_iff (H : HashAlg α) (n : Nat) (s : BP α) (first : Nat) (h : s.halted = true) :
    (reorg H n s first).halted = false ↔ ∃ b ∈ s.blocks, b ≥ first := by
  unfold reorg
  simp only [h]
  constructor
  · intro hh
    by_cases hpos : (s.blocks.filter (fun b => b ≥ first)).length > 0
    · obtain ⟨x, hx⟩ := List.exists_mem_of_length_pos hpos
      rw [List.mem_filter] at hx
      exact ⟨x, hx.1, by simpa using hx.2⟩
    · simp [hpos] at hh
  · intro ⟨b, hb, hge⟩
    have : (s.blocks.filter (fun b => b ≥ first)).length > 0 :=
      List.length_pos_of_mem (List.mem_filter.mpr ⟨hb, by simpa using hge⟩)
    simp [this]

/-- a restart (new process) is the only other way the in-memory flag goes away; the tables are unaffected -/
theorem C14_restart_keeps_tables (H : HashAlg α) (n : Nat) (s : BP α) :
    (restart H n s).rows = s.rows ∧ (restart H n s).blocks = s.blocks := ⟨rfl, rfl⟩

end Aggkit.C14
