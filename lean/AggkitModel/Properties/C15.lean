import AggkitModel.Model.Oracle
/-
C15 — the GER oracle injects only finalized, current, not-yet-present roots, and keeps injecting.
All tick sequences, all relative speeds of finality / syncing / ticking, all transient dependency errors.
-/
namespace Aggkit.Oracle

/-- the target carried between ticks is always 0 or a finalized sample taken at an earlier tick -/
def TargetOK (target : Nat) (samples : List Nat) : Prop := target = 0 ∨ target ∈ samples

theorem tickAt_target (t : Nat) (e : Env) : (tickAt t e).1 = 0 ∨ (tickAt t e).1 = t := by
  unfold tickAt
  split
  · left; rfl
  · split
    · left; rfl
    · split
      · right; rfl
      · split
        · left; rfl
        · split
          · left; rfl
          · split
            · left; rfl
            · split <;> (left; rfl)

theorem tick_target (target : Nat) (e : Env) (samples : List Nat) (h : TargetOK target samples) :
    TargetOK (tick target e).1 (e.fin :: samples) := by
  unfold tick
  by_cases h0 : target = 0
  · rw [if_pos h0]
    split
    · left; rfl
    · rcases tickAt_target e.fin e with h1 | h1
      · left; exact h1
      · right; rw [h1]; simp
  · rw [if_neg h0]
    rcases tickAt_target target e with h1 | h1
    · left; exact h1
    · right; rw [h1]
      rcases h with h | h
      · exact absurd h h0
      · simp [h]

theorem tickAt_injected (t : Nat) (e : Env) (g T : Nat) (hout : (tickAt t e).2 = .injected g T) :
    T = t ∧ t ≤ e.lpb ∧ (∃ l, latestUntil e.leaves t = some l ∧ l.ger = g) ∧ e.l2.contains g = false := by
  unfold tickAt at hout
  split at hout
  · simp at hout
  · split at hout
    · simp at hout
    · split at hout
      · simp at hout
      · rename_i hlpb
        split at hout
        · simp at hout
        · rename_i l hl
          split at hout
          · simp at hout
          · split at hout
            · simp at hout
            · rename_i hl2
              split at hout
              · simp at hout
              · simp only [Out.injected.injEq] at hout
                obtain ⟨hg, hT⟩ := hout
                exact ⟨hT.symm, by omega, ⟨l, hl, hg⟩, by rw [← hg]; simpa using hl2⟩

/-- **safety of one tick**: a root is injected only if it is the most recent L1 info root at or below a block `T`
    that had the configured finality when sampled (now or at an earlier tick), which the syncer has reached, and
    which the L2 contract did not have when checked -/
theorem C15_safe_tick (target : Nat) (e : Env) (samples : List Nat) (h : TargetOK target samples) (g T : Nat)
    (hout : (tick target e).2 = .injected g T) :
    (T = e.fin ∨ T ∈ samples) ∧ T ≤ e.lpb ∧ (∃ l, latestUntil e.leaves T = some l ∧ l.ger = g) ∧ e.l2.contains g = false := by
  unfold tick at hout
  by_cases h0 : target = 0
  · rw [if_pos h0] at hout
    split at hout
    · simp at hout
    · obtain ⟨a, b, c, d⟩ := tickAt_injected e.fin e g T hout
      subst a; exact ⟨Or.inl rfl, b, c, d⟩
  · rw [if_neg h0] at hout
    obtain ⟨a, b, c, d⟩ := tickAt_injected target e g T hout
    subst a
    refine ⟨Or.inr ?_, b, c, d⟩
    rcases h with h | h
    · exact absurd h h0
    · exact h

/-- safety lifted to every tick sequence -/
theorem C15_safe (envs : List Env) :
    ∀ (target : Nat) (samples : List Nat), TargetOK target samples →
    ∀ (i : Nat) (e : Env) (g T : Nat), envs[i]? = some e → (run target envs).2[i]? = some (.injected g T) →
      (T ∈ (envs.take (i+1)).map (·.fin) ∨ T ∈ samples) ∧ T ≤ e.lpb ∧
      (∃ l, latestUntil e.leaves T = some l ∧ l.ger = g) ∧ e.l2.contains g = false := by
  induction envs with
  | nil => intro _ _ _ i e g T he; simp at he
  | cons e0 es ih =>
    intro target samples hok i e g T he ho
    simp only [run] at ho
    cases i with
    | zero =>
      simp at he ho; subst he
      obtain ⟨a, b, c, d⟩ := C15_safe_tick target e0 samples hok g T ho
      refine ⟨?_, b, c, d⟩
      rcases a with a | a
      · left; simp [a]
      · right; exact a
    | succ j =>
      simp only [List.getElem?_cons_succ] at he ho
      obtain ⟨a, b, c, d⟩ := ih (tick target e0).1 (e0.fin :: samples) (tick_target target e0 samples hok) j e g T he ho
      refine ⟨?_, b, c, d⟩
      rcases a with a | a
      · left; simp only [List.take_succ_cons, List.map_cons, List.mem_cons]; right; exact a
      · rcases List.mem_cons.mp a with a | a
        · left; simp [a]
        · right; exact a

/-- a root already on L2 is never injected again by that tick -/
theorem C15_skip_if_present (target : Nat) (e : Env) (g T : Nat) (h : (tick target e).2 = .injected g T) :
    e.l2.contains g = false :=
  (C15_safe_tick target e [target] (by unfold TargetOK; by_cases h0 : target = 0 <;> simp [h0]) g T h).2.2.2

/-- **progress** (holds since the F11 fix): once a finalized block `F` has been sampled and the syncer was not
    ready for it, the oracle keeps `F` as its target over any number of ticks in which the syncer is still behind
    (dependencies answering), and at the first tick where the syncer has reached `F` it injects — or finds
    injected — the most recent root at or below `F`. Newer finalized blocks sampled in between cannot starve it. -/
theorem C15_progress (F : Nat) (hF : F ≠ 0) (waiting : List Env) (e : Env)
    (hwait : ∀ w ∈ waiting, w.syncErr = false ∧ w.lpb < F)
    (he : e.syncErr = false ∧ F ≤ e.lpb ∧ e.isInjErr = false ∧ e.injErr = false)
    (l : Leaf) (hl : latestUntil e.leaves F = some l) :
    (run F waiting).1 = F ∧
    ((tick F e).2 = .injected l.ger F ∨ (tick F e).2 = .already l.ger) := by
  constructor
  · induction waiting with
    | nil => rfl
    | cons w ws ih =>
      obtain ⟨h1, h2⟩ := hwait w (by simp)
      have ht : tick F w = (F, .notReady F) := by
        unfold tick tickAt; simp [hF, h1, h2]
      simp only [run, ht]
      exact ih (fun x hx => hwait x (by simp [hx]))
  · obtain ⟨h1, h2, h3, h4⟩ := he
    have : ¬ e.lpb < F := by omega
    by_cases hc : l.ger ∈ e.l2
    · right; unfold tick tickAt; simp [hF, h1, this, hl, h3, h4, hc]
    · left; unfold tick tickAt; simp [hF, h1, this, hl, h3, h4, hc]

/-- non-vacuity: finality advancing 10 per tick with the syncer 5 behind the newest finalized block — the schedule
    that starved the oracle before the fix: the first sample (100) is injected-for at the second tick -/
example : (run 0 [ { fin := 100, lpb := 95, leaves := [⟨90, 7⟩], l2 := [] },
                   { fin := 110, lpb := 105, leaves := [⟨90, 7⟩, ⟨104, 8⟩], l2 := [] } ]).2
    = [.notReady 100, .injected 7 100] := by decide

/-- **what is injected stays in the L1 info tree**: an L1 reorg from block `k` on, `k` above the finalized block `T` a root
    was fetched for, followed by whatever the new fork brings (leaves of blocks `k` and above), does not change the most
    recent root at or below `T` — the roots the oracle injects are not affected by reorgs of non-finalized blocks -/
theorem C15_final_stable (leaves more : List Leaf) (k T : Nat) (hk : T < k) (hmore : ∀ l ∈ more, k ≤ l.block) :
    latestUntil (reorgLeaves leaves k ++ more) T = latestUntil leaves T := by
  unfold latestUntil reorgLeaves
  rw [List.filter_append, List.filter_filter]
  have h1 : more.filter (fun l => decide (l.block ≤ T)) = [] := by
    rw [List.filter_eq_nil_iff]
    intro l hl
    have := hmore l hl
    simp only [decide_eq_true_eq]; omega
  have h2 : leaves.filter (fun a => decide (a.block ≤ T) && decide (a.block < k)) = leaves.filter (fun l => decide (l.block ≤ T)) := by
    apply List.filter_congr
    intro l _
    by_cases h : l.block ≤ T
    · have : l.block < k := by omega
      simp [h, this]
    · simp [h]
  rw [h1, h2, List.append_nil]

example : latestUntil (reorgLeaves [⟨90, 7⟩, ⟨104, 8⟩, ⟨107, 9⟩] 105 ++ [⟨106, 10⟩]) 104 = some ⟨104, 8⟩ := by decide

end Aggkit.Oracle
