import AggkitModel.Model.L1InfoStore
import AggkitModel.Properties.C01
import AggkitModel.Properties.C08
import AggkitModel.Generated.SyncFacts
set_option linter.unusedSectionVars false
/-
C11 — the L1 info tree and the rollup exit tree mirror the L1 contracts.
Store model: Model/L1InfoStore.lean. Tree halves reuse the Merkle core (any height, any hash algebra, H.Inj).
-/
namespace Aggkit.C11
open Aggkit Aggkit.L1InfoStore

variable {α : Type} [DecidableEq α]

/-- **consecutive indices in chain order**: whatever the mix of events in a block, the info leaves stored by
    a successful pass over the events get the indices `initialIndex + added, +1, +2, …` in event order, and
    nothing else is appended to or removed from the leaf table -/
theorem C11_indices_consecutive (H : HashAlg α) (n : Nat) (bn init : Nat) :
    ∀ (es : List (Ev α)) (w w' : Work α) (hl : Bool), procEvents H n bn init w es = (w', hl, none) →
      ∃ rows : List (LeafRow α), w'.tb.leaves = w.tb.leaves ++ rows ∧
        rows.map (·.index) = List.range' (init + w.added) rows.length ∧
        w'.added = w.added + rows.length ∧ (∀ r ∈ rows, r.blockNum = bn) := by
  intro es
  induction es with
  | nil =>
    intro w w' hl h
    simp only [procEvents, Prod.mk.injEq] at h
    obtain ⟨rfl, _⟩ := h
    exact ⟨[], by simp, by simp, by simp, by simp⟩
  | cons e es ih =>
    intro w w' hl h
    unfold procEvents at h
    cases hpe : procEvent H n bn init w e with
    | mk w1 rest =>
      obtain ⟨hl1, r1⟩ := rest
      rw [hpe] at h
      cases r1 with
      | some err => simp at h
      | none =>
        simp only at h
        -- effect of the single event on the leaf table
        have hone : ∃ rows1 : List (LeafRow α), w1.tb.leaves = w.tb.leaves ++ rows1 ∧
            rows1.map (·.index) = List.range' (init + w.added) rows1.length ∧
            w1.added = w.added + rows1.length ∧ (∀ r ∈ rows1, r.blockNum = bn) := by
          cases e with
          | info pos ger rer hash payload =>
            simp only [procEvent] at hpe
            split at hpe
            · simp at hpe
            · split at hpe
              · simp at hpe
              · simp at hpe
              · rename_i t' info' _
                simp only [Prod.mk.injEq] at hpe
                obtain ⟨rfl, _, _⟩ := hpe
                exact ⟨[{ blockNum := bn, pos := pos, index := init + w.added, ger := ger, rer := rer, hash := hash, payload := payload }],
                  by simp, by simp [List.range'], by simp, by simp⟩
          | v2 root leafCount =>
            simp only [procEvent] at hpe
            split at hpe
            · simp at hpe
            · split at hpe
              · simp at hpe
              · simp only [Prod.mk.injEq] at hpe; obtain ⟨rfl, _, _⟩ := hpe
                exact ⟨[], by simp, by simp, by simp, by simp⟩
          | verify pos rollupID exitRoot isZero payload =>
            simp only [procEvent] at hpe
            split at hpe
            · simp only [Prod.mk.injEq] at hpe; obtain ⟨rfl, _, _⟩ := hpe
              exact ⟨[], by simp, by simp, by simp, by simp⟩
            · split at hpe
              · simp only [Prod.mk.injEq] at hpe; obtain ⟨rfl, _, _⟩ := hpe
                exact ⟨[], by simp, by simp, by simp, by simp⟩
              · unfold procUpsert at hpe
                split at hpe
                · simp at hpe
                · simp at hpe
                · split at hpe
                  · simp at hpe
                  · simp only [Prod.mk.injEq] at hpe; obtain ⟨rfl, _, _⟩ := hpe
                    exact ⟨[], by simp, by simp, by simp, by simp⟩
          | init leafCount root =>
            simp only [procEvent] at hpe
            split at hpe
            · simp at hpe
            · simp only [Prod.mk.injEq] at hpe; obtain ⟨rfl, _, _⟩ := hpe
              exact ⟨[], by simp, by simp, by simp, by simp⟩
        obtain ⟨rows1, a1, a2, a3, a4⟩ := hone
        obtain ⟨rows2, b1, b2, b3, b4⟩ := ih w1 w' hl h
        refine ⟨rows1 ++ rows2, ?_, ?_, ?_, ?_⟩
        · rw [b1, a1, List.append_assoc]
        · rw [List.map_append, a2, b2, a3, List.length_append]
          have := List.range'_append (s := init + w.added) (m := rows1.length) (n := rows2.length) (step := 1)
          rw [← this]; simp [Nat.add_assoc]
        · rw [b3, a3, List.length_append]; omega
        · intro r hr; rcases List.mem_append.mp hr with h1 | h1
          · exact a4 r h1
          · exact b4 r h1

/-- **root announcements**: a V2 event halts the syncer exactly when the announced (root, leaf count) differs
    from the synced tree's last root and size; otherwise it changes nothing -/
theorem C11_v2_check_iff (H : HashAlg α) (n : Nat) (bn init : Nat) (w : Work α) (root : α) (leafCount : Nat)
    (r : RootRow α) (hr : getLastRoot w.tb.info = some r) :
    ((procEvent H n bn init w (.v2 root leafCount)).2.1 = true ↔ (r.hash ≠ root ∨ r.index + 1 ≠ leafCount)) ∧
    (procEvent H n bn init w (.v2 root leafCount)).1 = w ∧
    ((procEvent H n bn init w (.v2 root leafCount)).2.2 = none ↔ (r.hash = root ∧ r.index + 1 = leafCount)) := by
  simp only [procEvent, hr]
  by_cases h : r.hash ≠ root ∨ r.index + 1 ≠ leafCount
  · rw [if_pos h]; simp only [true_iff]
    refine ⟨h, trivial, ?_⟩
    constructor
    · intro hh; simp at hh
    · intro ⟨h1, h2⟩; rcases h with h | h
      · exact absurd h1 h
      · exact absurd h2 h
  · rw [if_neg h]
    have h' : r.hash = root ∧ r.index + 1 = leafCount := by
      constructor
      · by_contra hc; exact h (Or.inl hc)
      · by_contra hc; exact h (Or.inr hc)
    refine ⟨by simp; exact h', rfl, by simp; exact h'⟩

/-- **rollup exit tree**: an effective batch verification records, as the rollup exit root of that update,
    the root of the tree of last exit roots with position `rollupID-1` set to the verified exit root — the value
    the rollup manager computes — and it is the tree's new last version. Zero exit roots are skipped. -/
theorem C11_verify_records_manager_root (H : HashAlg α) (hinj : H.Inj) (n : Nat) (bn init : Nat) (w : Work α)
    (f : Nat → α) (W : Nat → Prop)
    (hcons : Consistent H w.tb.rollup.rht) (hcl : Closed H n w.tb.rollup.rht f W) (hzo : ZeroOutside H f W)
    (hroot : lastRootHash H n w.tb.rollup = tn H f n 0)
    (pos rollupID : Nat) (exitRoot : α) (payload : String)
    (hid : 1 ≤ rollupID) (hidb : rollupID ≤ 2^n) (hn : n ≤ 32)
    (w' : Work α) (hl : Bool)
    (hev : procEvent H n bn init w (.verify pos rollupID exitRoot false payload) = (w', hl, none)) :
    (w'.tb.vbs = w.tb.vbs ∧ w'.tb.rollup = w.tb.rollup) ∨
    (∃ row, w'.tb.vbs = w.tb.vbs ++ [row] ∧ row.rollupID = rollupID ∧ row.exitRoot = exitRoot ∧
      row.rollupExitRoot = tn H (updateFn f (rollupID - 1) exitRoot) n 0 ∧
      Closed H n w'.tb.rollup.rht (updateFn f (rollupID - 1) exitRoot) (fun p => W p ∨ p = rollupID - 1) ∧
      Consistent H w'.tb.rollup.rht) := by
  have hidx : rollupIdx rollupID = rollupID - 1 := by
    unfold rollupIdx
    have : (2:Nat)^n ≤ 2^32 := Nat.pow_le_pow_right (by omega) hn
    have e : rollupID + 2^32 - 1 = (rollupID - 1) + 2^32 := by omega
    rw [e, Nat.add_mod_right, Nat.mod_eq_of_lt (by omega)]
  simp only [procEvent, Bool.false_eq_true, if_false, hidx] at hev
  split at hev
  · left
    simp only [Prod.mk.injEq] at hev; obtain ⟨rfl, _, _⟩ := hev; exact ⟨rfl, rfl⟩
  · unfold procUpsert at hev
    rw [hidx] at hev
    split at hev
    · simp at hev
    · simp at hev
    · rename_i newRoot rdb' hup
      split at hev
      · simp at hev
      · right
        simp only [Prod.mk.injEq] at hev
        obtain ⟨rfl, _, _⟩ := hev
        obtain ⟨e1, c1, _, c3, _⟩ := C08_updatable_step H hinj n w.tb.rollup f W hcons hcl hzo hroot bn pos (rollupID - 1)
          exitRoot (by omega) newRoot rdb' hup
        exact ⟨_, rfl, rfl, rfl, e1, c3, c1⟩

/-- a zero exit root is skipped entirely: the rollup keeps its last non-zero exit root -/
theorem C11_zero_exit_root_skipped (H : HashAlg α) (n : Nat) (bn init : Nat) (w : Work α) (pos rollupID : Nat)
    (exitRoot : α) (payload : String) :
    procEvent H n bn init w (.verify pos rollupID exitRoot true payload) = (w, false, none) := by
  simp [procEvent]

/-- **L1 info tree root = the global-exit-root contract's root**: the L1 info tree is the same append-only
    tree machine as the exit tree, fed with consecutive indices (`C11_indices_consecutive`); for every
    well-formed history the root recorded for index `i` is the deposit-contract algorithm's root after `i+1` leaves. -/
theorem C11_info_root_is_contract_root (H : HashAlg α) (hinj : H.Inj) (n : Nat) (ops : List (HiOp α))
    (wf : WFhistory H n [] ops) (s : TM α) (ls : List α)
    (hs : s = runHistory H n (TM.init H n) ops) (hls : ls = (absHistory [] ops).map (·.2)) :
    ∀ i, i < ls.length → i + 1 < 2^n →
      ∃ r, getRootByIndex s.db i = some r ∧
        r.hash = DC.getRoot H n (DC.depositAll H n (DC.empty H n) (ls.take (i+1))) :=
  C01_root H hinj n ops wf s ls hs hls

/-- what the model takes from the source (regenerated on every run): the position an event gets inside its block is the
    LOG index (unique per block, in emission order) — the model's "one leaf per update, in chain order" rests on it; the
    same holds for the bridge syncer's events -/
theorem C11_code_facts :
    Gen.SyncFacts.blockPosExprs_l1info = ["uint64(l.Index)"] ∧ Gen.SyncFacts.blockPosExprs_bridge = ["uint64(l.Index)"] := by
  decide

end Aggkit.C11
